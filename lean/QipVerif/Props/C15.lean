import QipVerif.Lemmas.NoiseGen
import QipVerif.Lemmas.NoiseKron
import QipVerif.Lemmas.NoiseReg
import QipVerif.Lemmas.NoiseKraus3
import QipVerif.Lemmas.NoiseDeriv
import QipVerif.Lemmas.NoiseStrict
/-!
# C15 — T1/T2 decoherence has exactly the specified rates and keeps states physical

Property theorems only.  `Model/Noise.lean` models `RelaxationNoise` / `process_noise` with exact
fractions; `fixed = true` is the code with `fixes/C15-1.patch` (boundary `t2 = 2·t1` accepted,
no dephasing operator), `fixed = false` the code as shipped (`ZeroDivisionError` at the boundary).
`gen2 ops` / `gen3 s ops` is the idle Lindblad generator `Σ rate·D[A]` defined by the operators the
model returns for a two- / three-level subsystem (`D[√rate·A] = rate·D[A]`: `dissipator_smul`).

What is proved: the generator has exactly the rates of the property (`d/dt ρ11 = −ρ11/t1`,
`d/dt ρ01 = −ρ01/t2`, for every positive `t1`, every `0 < t2 ≤ 2 t1` incl. the boundary, t1-only,
t2-only, d = 2 and d = 3), trace and Hermiticity preservation of every Lindblad generator, the
validation verdicts; and (second half of this file) the **solution** of the idle master equation
defined by the model's operators: the explicit `ρ(t)` for d = 2 and d = 3 solves `dρ/dt = 𝓛ρ`
(`HasDerivAt`, every entry, every initial matrix), is the only solution on `[0, ∞)`, obeys the
exponential laws, and maps density matrices (`Matrix.PosSemidef`, trace 1) to density matrices for
all `t ≥ 0` — for d = 2 exactly when `t2 ≤ 2·t1`; for a register of any number of qubits with
per-qubit times this holds for every joint (also entangled) state, for two subsystems of any
dimensions for product states.  Not proved (see notes/C15.md): that the numerical solver returns
this solution (trusted, compared numerically), positivity with a time-dependent Hamiltonian / other
noise models (GKLS), entangled states involving a three-level subsystem.
-/
namespace QipVerif.C15
open QipVerif.Noise Matrix ComplexOrder

/-! ### Rates -/

/-- **Population**, qubit: for all positive `t1`, `0 < t2 ≤ 2·t1`, the operators the code adds give
`⟨1|𝓛ρ|1⟩ = −ρ11/t1` and `⟨0|𝓛ρ|0⟩ = +ρ11/t1`, for every matrix ρ. -/
theorem dissipator_population (q : Nat) (t1 t2 : Frac) (h1 : t1.Pos) (h2 : t2.Pos)
    (hle : t2.toReal ≤ 2 * t1.toReal) :
    ∃ ops, qubitOps true 2 q (some t1) (some t2) = .ok ops ∧
      ∀ ρ, gen2 ops ρ 1 1 = -(1 / t1.toReal * ρ 1 1) ∧ gen2 ops ρ 0 0 = 1 / t1.toReal * ρ 1 1 := by
  obtain ⟨ops, hops, hg, _⟩ := qubitOps_gen 2 q t1 t2 h1 h2 hle
  refine ⟨ops, hops, fun ρ => ?_⟩
  rw [hg]
  obtain ⟨e00, e11, _, _⟩ := relaxGen2_apply (1 / t1.toReal) (2 * (1 / t2.toReal - 1 / (2 * t1.toReal))) ρ
  exact ⟨by rw [e11]; push_cast; ring, by rw [e00]; push_cast; ring⟩

/-- **Coherence**, qubit: for all positive `t1`, `0 < t2 ≤ 2·t1` (boundary included),
`⟨0|𝓛ρ|1⟩ = −ρ01/t2` and `⟨1|𝓛ρ|0⟩ = −ρ10/t2`. -/
theorem dissipator_coherence (q : Nat) (t1 t2 : Frac) (h1 : t1.Pos) (h2 : t2.Pos)
    (hle : t2.toReal ≤ 2 * t1.toReal) :
    ∃ ops, qubitOps true 2 q (some t1) (some t2) = .ok ops ∧
      ∀ ρ, gen2 ops ρ 0 1 = -(1 / t2.toReal * ρ 0 1) ∧ gen2 ops ρ 1 0 = -(1 / t2.toReal * ρ 1 0) := by
  obtain ⟨ops, hops, hg, _⟩ := qubitOps_gen 2 q t1 t2 h1 h2 hle
  refine ⟨ops, hops, fun ρ => ?_⟩
  rw [hg]
  obtain ⟨_, _, e01, e10⟩ := relaxGen2_apply (1 / t1.toReal) (2 * (1 / t2.toReal - 1 / (2 * t1.toReal))) ρ
  have hr := half_rates t1.toReal t2.toReal (ne_of_gt h1.toReal_pos) (ne_of_gt h2.toReal_pos)
  have hc : ((1 / t1.toReal : ℝ) : ℂ) / 2 + ((2 * (1 / t2.toReal - 1 / (2 * t1.toReal)) : ℝ) : ℂ) / 2
      = ((1 / t2.toReal : ℝ) : ℂ) := by rw [← hr]; push_cast; ring
  exact ⟨by rw [e01, hc]; push_cast; ring, by rw [e10, hc]; push_cast; ring⟩

-- non-vacuity: t1 = 3/2, t2 = 2 (inside), t1 = 1, t2 = 2 (boundary)
example : Frac.Pos ⟨3, 2⟩ ∧ Frac.Pos ⟨2, 1⟩ ∧ qubitOps true 2 0 (some ⟨3, 2⟩) (some ⟨2, 1⟩) =
    .ok [⟨[0], .destroy, 2, some ⟨2, 3⟩⟩, ⟨[0], .num, 2, some ⟨4, 12⟩⟩] := by decide
example : qubitOps true 2 0 (some ⟨1, 1⟩) (some ⟨2, 1⟩) = .ok [⟨[0], .destroy, 2, some ⟨1, 1⟩⟩] := by decide

/-- t1 only: population decays at `1/t1`, coherence at `1/(2 t1)`. -/
theorem dissipator_t1_only (fixed : Bool) (q : Nat) (t1 : Frac) (h1 : t1.Pos) :
    ∃ ops, qubitOps fixed 2 q (some t1) none = .ok ops ∧
      ∀ ρ, gen2 ops ρ 1 1 = -(1 / t1.toReal * ρ 1 1) ∧ gen2 ops ρ 0 1 = -(1 / (2 * t1.toReal) * ρ 0 1) := by
  refine ⟨_, qubitOps_t1_only fixed 2 q t1 h1.1, fun ρ => ?_⟩
  rw [gen2_destroy, rate1_toReal t1 h1]
  obtain ⟨_, e11, e01, _⟩ := relaxGen2_apply (1 / t1.toReal) 0 ρ
  refine ⟨by rw [e11]; push_cast; ring, ?_⟩
  rw [e01]; push_cast; ring

/-- t2 only: populations constant, coherence decays at `1/t2`. -/
theorem dissipator_t2_only (fixed : Bool) (q : Nat) (t2 : Frac) (h2 : t2.Pos) :
    ∃ ops, qubitOps fixed 2 q none (some t2) = .ok ops ∧
      ∀ ρ, gen2 ops ρ 1 1 = 0 ∧ gen2 ops ρ 0 0 = 0 ∧ gen2 ops ρ 0 1 = -(1 / t2.toReal * ρ 0 1) := by
  refine ⟨_, qubitOps_t2_only fixed 2 q t2 h2.1, fun ρ => ?_⟩
  rw [gen2_num, rateT2_toReal t2 h2]
  obtain ⟨e00, e11, e01, _⟩ := relaxGen2_apply 0 (2 / t2.toReal) ρ
  refine ⟨by rw [e11]; simp, by rw [e00]; simp, ?_⟩
  rw [e01]; push_cast; ring

/-- **Three-level subsystem**, exactly as `destroy(3)` (`s = √2`) and `num(3)` give it: level 2
decays at `2/t1` into level 1, level 1 at `1/t1` into level 0; the `0–1` coherence decays at `1/t2`
and is fed by the `1–2` coherence; in particular on states supported on levels 0, 1
(`ρ22 = ρ12 = 0`) the qubit laws hold. -/
theorem dissipator_qutrit (q : Nat) (s : ℝ) (hs : s * s = 2) (t1 t2 : Frac) (h1 : t1.Pos) (h2 : t2.Pos)
    (hle : t2.toReal ≤ 2 * t1.toReal) :
    ∃ ops, qubitOps true 3 q (some t1) (some t2) = .ok ops ∧
      ∀ ρ, gen3 s ops ρ 2 2 = -(2 * (1 / t1.toReal) * ρ 2 2) ∧
           gen3 s ops ρ 1 1 = 1 / t1.toReal * (2 * ρ 2 2 - ρ 1 1) ∧
           gen3 s ops ρ 0 0 = 1 / t1.toReal * ρ 1 1 ∧
           gen3 s ops ρ 0 1 = -(1 / t2.toReal * ρ 0 1) + 1 / t1.toReal * s * ρ 1 2 := by
  obtain ⟨ops, hops, _, hg⟩ := qubitOps_gen 3 q t1 t2 h1 h2 hle
  refine ⟨ops, hops, fun ρ => ?_⟩
  rw [hg]
  obtain ⟨e00, e11, e22⟩ := relaxGen3_pop s (1 / t1.toReal) (2 * (1 / t2.toReal - 1 / (2 * t1.toReal))) hs ρ
  obtain ⟨e01, _, _⟩ := relaxGen3_coh s (1 / t1.toReal) (2 * (1 / t2.toReal - 1 / (2 * t1.toReal))) hs ρ
  have hr := half_rates t1.toReal t2.toReal (ne_of_gt h1.toReal_pos) (ne_of_gt h2.toReal_pos)
  have hc : ((1 / t1.toReal : ℝ) : ℂ) / 2 + ((2 * (1 / t2.toReal - 1 / (2 * t1.toReal)) : ℝ) : ℂ) / 2
      = ((1 / t2.toReal : ℝ) : ℂ) := by rw [← hr]; push_cast; ring
  refine ⟨by rw [e22]; push_cast; ring, by rw [e11]; push_cast; ring, by rw [e00]; push_cast; ring, ?_⟩
  rw [e01, hc]; push_cast; ring

/-- the actual collapse operator `c·A` with real prefactor `c` contributes `c²·D[A]` -/
theorem prefactor_squared {n : Type} [Fintype n] [DecidableEq n] (c : ℝ) (A ρ : Matrix n n ℂ) :
    dissipator ((c : ℂ) • A) ρ = ((c ^ 2 : ℝ) : ℂ) • dissipator A ρ := dissipator_smul c A ρ

/-! ### Trace and Hermiticity (any dimension, any Hamiltonian, any list of collapse operators) -/

theorem trace_preserved {n : Type} [Fintype n] [DecidableEq n] (H : Matrix n n ℂ)
    (ops : List (ℝ × Matrix n n ℂ)) (ρ : Matrix n n ℂ) : (generator H ops ρ).trace = 0 :=
  trace_generator H ops ρ

theorem hermiticity_preserved {n : Type} [Fintype n] [DecidableEq n] (H : Matrix n n ℂ)
    (ops : List (ℝ × Matrix n n ℂ)) (ρ : Matrix n n ℂ) (hH : Hᴴ = H) (hρ : ρᴴ = ρ) :
    (generator H ops ρ)ᴴ = generator H ops ρ := generator_conjTranspose H ops ρ hH hρ

/-- **Independence of subsystems** (two factors of any dimensions): collapse operators placed on
different subsystems (`LA ⊗ 1`, `1 ⊗ LB`, which is what `expand_operator` produces, C08) act on a
product state as the sum of the local generators, `d/dt (ρA ⊗ ρB) = (𝓛A ρA) ⊗ ρB + ρA ⊗ (𝓛B ρB)`. -/
theorem subsystems_independent {m n : Type} [Fintype m] [DecidableEq m] [Fintype n] [DecidableEq n]
    (LA ρA : Matrix m m ℂ) (LB ρB : Matrix n n ℂ) (γA γB : ℝ) :
    generator 0 [(γA, kroneckerMap (· * ·) LA (1 : Matrix n n ℂ)), (γB, kroneckerMap (· * ·) (1 : Matrix m m ℂ) LB)]
        (kroneckerMap (· * ·) ρA ρB) =
      kroneckerMap (· * ·) ((γA : ℂ) • dissipator LA ρA) ρB + kroneckerMap (· * ·) ρA ((γB : ℂ) • dissipator LB ρB) :=
  generator_product LA ρA LB ρB γA γB

/-! ### Validation -/

/-- `_T_to_list` accepts exactly `None`, positive scalars, and lists of the right length. -/
theorem validation_T (T : TSpec) (N : Nat) :
    tToList T N = .error .invalidT ↔
      (∃ q, T = .scalar q ∧ q.n ≤ 0) ∨ (∃ l, T = .list l ∧ l.length ≠ N) := by
  cases T with
  | none => simp [tToList]
  | scalar q =>
    by_cases h : 0 < q.n
    · simp [tToList, Frac.isPos, h]
    · simp [tToList, Frac.isPos, h]; omega
  | list l => by_cases h : l.length = N <;> simp [tToList, h]

/-- the simulation set-up raises the `_T_to_list` error exactly when `t1` or (`t1` fine and) `t2`
is a non-positive scalar or a list of the wrong length -/
theorem validation_setup (fixed : Bool) (dims : List Nat) (t1 t2 : TSpec) (tg : Option (List Nat)) :
    relaxationOps fixed dims t1 t2 tg = .error .invalidT ↔
      tToList t1 dims.length = .error .invalidT ∨
      ((∃ l, tToList t1 dims.length = .ok l) ∧ tToList t2 dims.length = .error .invalidT) := by
  cases h1 : tToList t1 dims.length with
  | error e =>
    have : e = .invalidT := by
      cases t1 <;> simp [tToList] at h1 <;> (try split at h1) <;> simp_all
    simp [relaxationOps, h1, this]
  | ok l1 =>
    cases h2 : tToList t2 dims.length with
    | error e =>
      have : e = .invalidT := by
        cases t2 <;> simp [tToList] at h2 <;> (try split at h2) <;> simp_all
      simp [relaxationOps, h1, h2, this]
    | ok l2 =>
      simp only [relaxationOps, h1, h2, reduceCtorEq, and_false, or_self, iff_false]
      exact loopTargets_ne_invalidT fixed dims l1 l2 _

/-- `t2 > 2·t1` is rejected, for positive times, in both versions -/
theorem validation_t2_gt_2t1 (fixed : Bool) (dim q : Nat) (t1 t2 : Frac) (h1 : t1.Pos) (h2 : t2.Pos) :
    qubitOps fixed dim q (some t1) (some t2) = .error .t2gt2t1 ↔ 2 * t1.toReal < t2.toReal := by
  obtain ⟨hs1, hs2, hs3⟩ := delta_sign t1 t2 h1 h2
  constructor
  · intro h
    rcases Int.lt_trichotomy (delta t1 t2) 0 with hd | hd | hd
    · exact hs1.mp hd
    · rw [qubitOps_eq fixed dim q t1 t2 h1.1 h2.1 hd] at h; cases fixed <;> simp at h
    · rw [qubitOps_gt fixed dim q t1 t2 h1.1 h2.1 hd] at h; simp at h
  · intro h; exact qubitOps_lt fixed dim q t1 t2 (hs1.mpr h)

/-- the repaired code accepts a positive pair exactly when `t2 ≤ 2·t1` -/
theorem accepts_iff (dim q : Nat) (t1 t2 : Frac) (h1 : t1.Pos) (h2 : t2.Pos) :
    (∃ ops, qubitOps true dim q (some t1) (some t2) = .ok ops) ↔ t2.toReal ≤ 2 * t1.toReal := by
  constructor
  · rintro ⟨ops, h⟩
    by_contra hc
    have := (validation_t2_gt_2t1 true dim q t1 t2 h1 h2).mpr (not_le.mp hc)
    rw [this] at h; cases h
  · intro h
    obtain ⟨ops, hops, _⟩ := qubitOps_gen dim q t1 t2 h1 h2 h
    exact ⟨ops, hops⟩

/-- **Boundary `t2 = 2·t1`**: the code as shipped raises `ZeroDivisionError`, the repaired code
returns the relaxation operator alone. -/
theorem boundary (dim q : Nat) (t1 t2 : Frac) (h1 : t1.Pos) (h2 : t2.Pos)
    (hb : t2.toReal = 2 * t1.toReal) :
    qubitOps false dim q (some t1) (some t2) = .error .zerodiv ∧
    qubitOps true dim q (some t1) (some t2) = .ok [⟨[q], .destroy, dim, some ⟨t1.d, t1.n⟩⟩] := by
  have hd := (delta_sign t1 t2 h1 h2).2.1.mpr hb
  exact ⟨by rw [qubitOps_eq false dim q t1 t2 h1.1 h2.1 hd]; rfl,
         by rw [qubitOps_eq true dim q t1 t2 h1.1 h2.1 hd]; rfl⟩

/-- **Counter-example for the code as shipped** (`t1 = 1`, `t2 = 2`, one qubit, scalars): the
property requires acceptance at the boundary, the shipped code raises `ZeroDivisionError`. -/
theorem C15_counterexample_orig :
    relaxationOps false [2] (.scalar ⟨1, 1⟩) (.scalar ⟨2, 1⟩) none = .error .zerodiv ∧
    relaxationOps true [2] (.scalar ⟨1, 1⟩) (.scalar ⟨2, 1⟩) none = .ok [⟨[0], .destroy, 2, some ⟨1, 1⟩⟩] := by
  decide

/-! ### Entries of per-subsystem lists (`strict = true`: `_T_to_list` with `fixes/C15-3.patch`) -/

/-- the repaired `_T_to_list` rejects exactly: non-positive scalars, lists of the wrong length, and
lists of the right length with a non-positive entry (`None` entries are allowed) -/
theorem validation_T_strict (T : TSpec) (N : Nat) :
    tToListS true T N = .error .invalidT ↔
      (∃ q, T = .scalar q ∧ q.n ≤ 0) ∨
      (∃ l, T = .list l ∧ (l.length ≠ N ∨ ∃ a, some a ∈ l ∧ a.n ≤ 0)) := by
  cases T with
  | none => simp [tToListS, tToList]
  | scalar q =>
    by_cases h : 0 < q.n
    · simp [tToListS, tToList, Frac.isPos, h]
    · simp [tToListS, tToList, Frac.isPos, h]; omega
  | list l =>
    by_cases hl : l.length = N
    · by_cases hp : entriesPos l = true
      · have hok := (entriesPos_iff l).mp hp
        have hlhs : tToListS true (.list l) N = .ok l := by simp [tToListS, hl, hp]
        rw [hlhs]
        constructor
        · intro h; cases h
        · rintro (⟨q, h, _⟩ | ⟨l', h, hne | ⟨a, ha, hn⟩⟩)
          · cases h
          · injection h with h; subst h; exact absurd hl hne
          · injection h with h; subst h; have := hok _ ha a rfl; omega
      · have hne : ¬ EntriesOk l := fun h => hp ((entriesPos_iff l).mpr h)
        simp only [EntriesOk, not_forall] at hne
        obtain ⟨x, hx, a, ha, hna⟩ := hne
        have hlhs : tToListS true (.list l) N = .error .invalidT := by simp [tToListS, hl, hp]
        rw [hlhs]
        exact ⟨fun _ => Or.inr ⟨l, rfl, Or.inr ⟨a, ha ▸ hx, by omega⟩⟩, fun _ => rfl⟩
    · have hlhs : tToListS true (.list l) N = .error .invalidT := by simp [tToListS, hl]
      rw [hlhs]
      exact ⟨fun _ => Or.inr ⟨l, rfl, Or.inl hl⟩, fun _ => rfl⟩

/-- wherever the repaired set-up accepts, the shipped one accepts with the same operators (all rate
and solution theorems carry over), and without the entry check the two coincide -/
theorem strict_agrees (strict fixed : Bool) (dims : List Nat) (t1 t2 : TSpec) (tg : Option (List Nat)) :
    (∀ ops, relaxationOpsS strict fixed dims t1 t2 tg = .ok ops → relaxationOps fixed dims t1 t2 tg = .ok ops) ∧
    relaxationOpsS false fixed dims t1 t2 tg = relaxationOps fixed dims t1 t2 tg := by
  refine ⟨fun ops h => ?_, by simp [relaxationOpsS, relaxationOps, tToListS_false]⟩
  simp only [relaxationOpsS] at h
  cases h1 : tToListS strict t1 dims.length with
  | error e => simp [h1] at h
  | ok l1 =>
    cases h2 : tToListS strict t2 dims.length with
    | error e => simp [h1, h2] at h
    | ok l2 =>
      simp only [h1, h2] at h
      simp [relaxationOps, tToListS_ok strict t1 _ l1 h1, tToListS_ok strict t2 _ l2 h2, h]

/-- **the repaired set-up never hands a non-finite prefactor to the solver**: every Lindblad operator
of an accepted configuration has a finite squared prefactor (`rate ≠ none`) -/
theorem strict_no_nan (fixed : Bool) (dims : List Nat) (t1 t2 : TSpec) (tg : Option (List Nat))
    (ops : List COp) (h : relaxationOpsS true fixed dims t1 t2 tg = .ok ops) : ∀ c ∈ ops, c.rate ≠ none := by
  simp only [relaxationOpsS] at h
  cases h1 : tToListS true t1 dims.length with
  | error e => simp [h1] at h
  | ok l1 =>
    cases h2 : tToListS true t2 dims.length with
    | error e => simp [h1, h2] at h
    | ok l2 =>
      simp only [h1, h2] at h
      exact loopTargets_rates fixed dims l1 l2 (tToListS_entries t1 _ l1 h1) (tToListS_entries t2 _ l2 h2) _ ops h

/-- **Counter-example for the code as shipped** (`t1 = [1, -1]`, two qubits): the list entry is not
checked, the set-up succeeds and qubit 1 gets a collapse operator with a non-finite prefactor
(`rate = none`, `nan` in the code); with the entry check the set-up raises the `_T_to_list` error. -/
theorem C15_counterexample_list_entry :
    relaxationOps true [2, 2] (.list [some ⟨1, 1⟩, some ⟨-1, 1⟩]) .none none =
      .ok [⟨[0], .destroy, 2, some ⟨1, 1⟩⟩, ⟨[1], .destroy, 2, none⟩] ∧
    relaxationOpsS true true [2, 2] (.list [some ⟨1, 1⟩, some ⟨-1, 1⟩]) .none none = .error .invalidT := by
  decide

/-! ### Which operators on which subsystems -/

/-- Each targeted subsystem contributes its own operators (target index `q`, dimension `dims[q]`,
its own entry of `t1`/`t2`), concatenated in target order — scalars, per-subsystem lists,
t1-only, t2-only alike. -/
theorem ops_per_subsystem (fixed : Bool) (dims : List Nat) (t1 t2 : TSpec) (l1 l2 : List (Option Frac))
    (ops : Nat → List COp) (tg : Option (List Nat))
    (h1 : tToList t1 dims.length = .ok l1) (h2 : tToList t2 dims.length = .ok l2)
    (h : ∀ q ∈ tg.getD (List.range dims.length), ∃ a b d, l1[q]? = some a ∧ l2[q]? = some b ∧
      dims[q]? = some d ∧ qubitOps fixed d q a b = .ok (ops q)) :
    relaxationOps fixed dims t1 t2 tg = .ok ((tg.getD (List.range dims.length)).flatMap ops) := by
  simp only [relaxationOps, h1, h2]
  exact loopTargets_ok fixed dims l1 l2 ops _ h

-- non-vacuity: scalar t1, per-subsystem t2 with a None entry, dimensions 2 and 3
example : relaxationOps true [2, 3] (.scalar ⟨2, 1⟩) (.list [some ⟨1, 1⟩, none]) none =
    .ok [⟨[0], .destroy, 2, some ⟨1, 2⟩⟩, ⟨[0], .num, 2, some ⟨6, 4⟩⟩, ⟨[1], .destroy, 3, some ⟨1, 2⟩⟩] := by
  decide

/-- without `device_noise` no Lindblad operator is produced and nothing is validated; with it the
processor's own `t1`/`t2` are appended as one more `RelaxationNoise` after the listed noise objects -/
theorem process_noise_collection (fixed : Bool) (dims : List Nat) (noises : List NoiseSpec) (t1 t2 : TSpec) :
    processNoise fixed dims noises t1 t2 false = .ok [] ∧
    processNoise fixed dims noises .none .none true = collect fixed dims noises ∧
    (t1 ≠ .none ∨ t2 ≠ .none →
      processNoise fixed dims noises t1 t2 true = collect fixed dims (noises ++ [.relax t1 t2 none])) := by
  refine ⟨by simp [processNoise], by simp [processNoise], fun h => ?_⟩
  simp [processNoise, h]

example : processNoise true [2, 2] [.decoherence [7] [] true, .coherent, .relax .none (.scalar ⟨1, 1⟩) (some [1])]
      (.scalar ⟨2, 1⟩) .none true =
    .ok [⟨[0], .user 7, 2, some ⟨1, 1⟩⟩, ⟨[1], .user 7, 2, some ⟨1, 1⟩⟩, ⟨[1], .num, 2, some ⟨2, 1⟩⟩,
         ⟨[0], .destroy, 2, some ⟨1, 2⟩⟩, ⟨[1], .destroy, 2, some ⟨1, 2⟩⟩] := by decide

/-! ## The solution of the idle master equation

`Solves L ρ`: every entry of `ρ : ℝ → Matrix` has, at every real `t`, the derivative
`(L (ρ t)) i j` (`HasDerivAt`).  `SolvesOnNonneg`: the same on `[0, ∞)` with one-sided derivative
at `0`.  `IsDensity ρ`: `ρ.PosSemidef` (Mathlib; includes Hermitian) and `ρ.trace = 1`.
`Admissible t1 t2` (each `Option Frac`): the given times are positive and `t2 ≤ 2·t1` if both are
given.  `popRate t1 = 1/t1` (0 without t1), `cohRate t1 t2 = 1/t2` (`1/(2 t1)` without t2).
`relaxSol2 γ Γ ρ₀ t = [[ρ₀₀₀ + (1 − e^{−γt}) ρ₀₁₁, e^{−Γt} ρ₀₀₁], [e^{−Γt} ρ₀₁₀, e^{−γt} ρ₀₁₁]]`. -/

section
attribute [local instance] Matrix.normedAddCommGroup Matrix.normedSpace
/-- `Solves L ρ` is exactly: the matrix-valued function `ρ` has derivative `L (ρ t)` at every `t`
(`HasDerivAt` in the normed space of matrices with the entrywise sup norm; the space is
finite-dimensional, so any norm gives the same derivative) -/
theorem solves_iff_matrix_derivative {n : Type} [Fintype n] (L : Matrix n n ℂ → Matrix n n ℂ)
    (ρ : ℝ → Matrix n n ℂ) : Solves L ρ ↔ ∀ t, HasDerivAt ρ (L (ρ t)) t :=
  solves_iff_hasDerivAt L ρ
end

/-- **Qubit, explicit solution.**  For every admissible `(t1, t2)` — both given with `0 < t2 ≤ 2·t1`
(boundary included), t1 only, t2 only — the repaired code accepts, and for every initial 2×2 matrix
`ρ₀` the explicit `ρ(t)` solves `dρ/dt = 𝓛ρ` with `𝓛 = gen2 ops` built from the operators the model
returns, and `ρ(0) = ρ₀`. -/
theorem qubit_solution (q : Nat) (t1 t2 : Option Frac) (h : Admissible t1 t2) :
    ∃ ops, qubitOps true 2 q t1 t2 = .ok ops ∧
      ∀ ρ0, Solves (gen2 ops) (relaxSol2 (popRate t1) (cohRate t1 t2) ρ0) ∧
        relaxSol2 (popRate t1) (cohRate t1 t2) ρ0 0 = ρ0 := by
  obtain ⟨ops, hops, hg, _⟩ := qubitOps_gen_all 2 q t1 t2 h
  refine ⟨ops, hops, fun ρ0 => ⟨?_, relaxSol2_zero _ _ _⟩⟩
  have hgen : gen2 ops = relaxGen2 (popRate t1) (2 * cohRate t1 t2 - popRate t1) := funext hg
  have hΓ : cohRate t1 t2 = popRate t1 / 2 + (2 * cohRate t1 t2 - popRate t1) / 2 := by ring
  have := relaxSol2_solves (popRate t1) (2 * cohRate t1 t2 - popRate t1) ρ0
  rw [← hΓ] at this
  rw [hgen]; exact this

/-- **Uniqueness** (qubit): every `ρ(t)` solving the master equation of the model's operators on
`[0, ∞)` is the explicit solution started at `ρ(0)`. -/
theorem qubit_solution_unique (q : Nat) (t1 t2 : Option Frac) (h : Admissible t1 t2) :
    ∃ ops, qubitOps true 2 q t1 t2 = .ok ops ∧
      ∀ ρ : ℝ → Matrix (Fin 2) (Fin 2) ℂ, SolvesOnNonneg (gen2 ops) ρ →
        ∀ t, 0 ≤ t → ρ t = relaxSol2 (popRate t1) (cohRate t1 t2) (ρ 0) t := by
  obtain ⟨ops, hops, hg, _⟩ := qubitOps_gen_all 2 q t1 t2 h
  refine ⟨ops, hops, fun ρ hρ t ht => ?_⟩
  have hgen : gen2 ops = relaxGen2 (popRate t1) (2 * cohRate t1 t2 - popRate t1) := funext hg
  have hΓ : cohRate t1 t2 = popRate t1 / 2 + (2 * cohRate t1 t2 - popRate t1) / 2 := by ring
  rw [hgen] at hρ
  have := relaxSol2_unique _ _ (ρ 0) ρ hρ rfl t ht
  rw [← hΓ] at this
  exact this

-- non-vacuity: the four shapes of admissible arguments (inside, boundary, t1 only, t2 only)
example : Admissible (some ⟨3, 2⟩) (some ⟨2, 1⟩) ∧ Admissible (some ⟨1, 1⟩) (some ⟨2, 1⟩) ∧
    Admissible (some ⟨1, 1⟩) none ∧ Admissible none (some ⟨5, 1⟩) := by
  refine ⟨⟨?_, ?_, ?_⟩, ⟨?_, ?_, ?_⟩, ⟨?_, ?_, ?_⟩, ⟨?_, ?_, ?_⟩⟩ <;> intros <;>
    simp_all [Frac.Pos, Frac.toReal] <;> (try subst_vars) <;> norm_num

/-- **Exponential laws** (corollaries): with `t1` the excited population is `e^{−t/t1} ρ₁₁(0)` and
the ground population gains what it loses; with `t2` the coherence has magnitude
`e^{−t/t2} |ρ₀₁(0)|`; with `t1` only the coherence decays as `e^{−t/(2 t1)}`; without `t1` the
populations are constant. -/
theorem exponential_laws (t1 t2 : Frac) (ρ0 : Matrix (Fin 2) (Fin 2) ℂ) (t : ℝ) :
    (∀ o2, relaxSol2 (popRate (some t1)) (cohRate (some t1) o2) ρ0 t 1 1 =
        (Real.exp (-(t / t1.toReal)) : ℂ) * ρ0 1 1) ∧
    (∀ o2, relaxSol2 (popRate (some t1)) (cohRate (some t1) o2) ρ0 t 0 0 =
        ρ0 0 0 + (1 - (Real.exp (-(t / t1.toReal)) : ℂ)) * ρ0 1 1) ∧
    (∀ o1, ‖relaxSol2 (popRate o1) (cohRate o1 (some t2)) ρ0 t 0 1‖ =
        Real.exp (-(t / t2.toReal)) * ‖ρ0 0 1‖) ∧
    ‖relaxSol2 (popRate (some t1)) (cohRate (some t1) none) ρ0 t 0 1‖ =
        Real.exp (-(t / (2 * t1.toReal))) * ‖ρ0 0 1‖ ∧
    (∀ o2, relaxSol2 (popRate none) (cohRate none o2) ρ0 t 1 1 = ρ0 1 1) := by
  have e1 : 1 / t1.toReal * t = t / t1.toReal := by ring
  have e2 : 1 / t2.toReal * t = t / t2.toReal := by ring
  have e3 : 1 / t1.toReal / 2 * t = t / (2 * t1.toReal) := by ring
  refine ⟨fun o2 => ?_, fun o2 => ?_, fun o1 => ?_, ?_, fun o2 => ?_⟩
  · rw [(relaxSol2_apply _ _ ρ0 t).2.1]; simp only [popRate, dec, e1]
  · rw [(relaxSol2_apply _ _ ρ0 t).1]; simp only [popRate, dec, e1]
  · rw [(relaxSol2_apply _ _ ρ0 t).2.2.1]
    simp only [cohRate, dec, e2, norm_mul, Complex.norm_real, Real.norm_eq_abs, abs_of_pos (Real.exp_pos _)]
  · rw [(relaxSol2_apply _ _ ρ0 t).2.2.1]
    simp only [cohRate, popRate, dec, e3, norm_mul, Complex.norm_real, Real.norm_eq_abs,
      abs_of_pos (Real.exp_pos _)]
  · rw [(relaxSol2_apply _ _ ρ0 t).2.1]; simp [popRate, dec]

/-- **Validity** (qubit): for every admissible `(t1, t2)`, every `t ≥ 0` and every density matrix
`ρ₀` the evolved `ρ(t)` is a density matrix (positive semidefinite, hence Hermitian; trace 1). -/
theorem qubit_state_valid (t1 t2 : Option Frac) (h : Admissible t1 t2) (t : ℝ) (ht : 0 ≤ t)
    (ρ0 : Matrix (Fin 2) (Fin 2) ℂ) (hρ : IsDensity ρ0) :
    IsDensity (relaxSol2 (popRate t1) (cohRate t1 t2) ρ0 t) :=
  relaxSol2_density _ _ t (popRate_nonneg h) (popRate_le h) ht hρ

-- non-vacuity: `|+⟩⟨+|` is a density matrix
example : IsDensity plusState := plusState_density

/-- **The condition `t2 ≤ 2·t1` is exact**: for positive real `t1`, `t2` the specified decay laws
(`e^{−t/t1}` for the population, `e^{−t/t2}` for the coherence) keep every density matrix a density
matrix for all `t ≥ 0` if and only if `t2 ≤ 2·t1`.  (For `t2 > 2·t1` the state `|+⟩⟨+|` has a
negative determinant at `t = 1/(1/t1 − 2/t2)`.) -/
theorem valid_iff_t2_le_2t1 (t1 t2 : ℝ) (h1 : 0 < t1) (h2 : 0 < t2) :
    (∀ ρ0, IsDensity ρ0 → ∀ t, 0 ≤ t → IsDensity (relaxSol2 (1 / t1) (1 / t2) ρ0 t)) ↔ t2 ≤ 2 * t1 := by
  rw [relaxSol2_density_iff (1 / t1) (1 / t2) (by positivity)]
  rw [div_le_iff₀ h1, show 2 * (1 / t2) * t1 = (2 * t1) / t2 by ring, le_div_iff₀ h2, one_mul]

/-- the repaired code accepts a positive pair `(t1, t2)` exactly when the decay laws it specifies
keep all states physical -/
theorem accepted_iff_physical (dim q : Nat) (t1 t2 : Frac) (h1 : t1.Pos) (h2 : t2.Pos) :
    (∃ ops, qubitOps true dim q (some t1) (some t2) = .ok ops) ↔
      ∀ ρ0, IsDensity ρ0 → ∀ t, 0 ≤ t → IsDensity (relaxSol2 (1 / t1.toReal) (1 / t2.toReal) ρ0 t) := by
  rw [accepts_iff dim q t1 t2 h1 h2, valid_iff_t2_le_2t1 _ _ h1.toReal_pos h2.toReal_pos]

/-- **Counter-example beyond the boundary** (`t1 = 1`, `t2 = 3`): the decay laws `e^{−t}`, `e^{−t/3}`
take `|+⟩⟨+|` out of the positive semidefinite matrices at `t = 3`. -/
theorem C15_unphysical_beyond_boundary :
    ¬ (relaxSol2 1 (1 / 3) plusState 3).PosSemidef := by
  have := (relaxSol2_not_posSemidef 1 (1 / 3) (by norm_num)).2
  norm_num at this
  exact this

/-! ### Three-level subsystem -/

/-- **Qutrit, explicit solution** (`s·s = 2`, i.e. `destroy(3)`): for every admissible `(t1, t2)` the
repaired code accepts, the explicit `ρ(t)` (`relaxSol3`: `ρ₂₂ e^{−2t/t1}`, `ρ₁₁(t) = (ρ₁₁+2ρ₂₂)e^{−t/t1}
− 2ρ₂₂e^{−2t/t1}`, coherence rates `1/t2`, `1/t2 + 1/t1`, `4/t2 − 1/t1`, the 0–1 coherence fed by the
1–2 coherence) solves the master equation of the model's operators for every initial 3×3 matrix,
starts at `ρ₀`, and is the only solution on `[0, ∞)`. -/
theorem qutrit_solution (q : Nat) (s : ℝ) (hs : s * s = 2) (t1 t2 : Option Frac) (h : Admissible t1 t2) :
    ∃ ops, qubitOps true 3 q t1 t2 = .ok ops ∧
      (∀ ρ0, Solves (gen3 s ops) (relaxSol3 s (popRate t1) (2 * cohRate t1 t2 - popRate t1) ρ0) ∧
        relaxSol3 s (popRate t1) (2 * cohRate t1 t2 - popRate t1) ρ0 0 = ρ0) ∧
      ∀ ρ : ℝ → Matrix (Fin 3) (Fin 3) ℂ, SolvesOnNonneg (gen3 s ops) ρ →
        ∀ t, 0 ≤ t → ρ t = relaxSol3 s (popRate t1) (2 * cohRate t1 t2 - popRate t1) (ρ 0) t := by
  obtain ⟨ops, hops, _, hg⟩ := qubitOps_gen_all 3 q t1 t2 h
  have hgen : gen3 s ops = relaxGen3 s (popRate t1) (2 * cohRate t1 t2 - popRate t1) := funext (hg s)
  refine ⟨ops, hops, fun ρ0 => ⟨?_, relaxSol3_zero _ _ _ _⟩, fun ρ hρ t ht => ?_⟩
  · rw [hgen]; exact relaxSol3_solves _ _ _ hs ρ0
  · rw [hgen] at hρ; exact relaxSol3_unique _ _ _ hs (ρ 0) ρ hρ rfl t ht

/-- **Validity for `d = 3`**: admissible `(t1, t2)`, `t ≥ 0`: density matrices stay density matrices;
on states supported on levels 0, 1 the evolution is the qubit evolution (the qubit laws hold). -/
theorem qutrit_state_valid (s : ℝ) (hs : s * s = 2) (t1 t2 : Option Frac) (h : Admissible t1 t2)
    (t : ℝ) (ht : 0 ≤ t) :
    (∀ ρ0, IsDensity ρ0 →
      IsDensity (relaxSol3 s (popRate t1) (2 * cohRate t1 t2 - popRate t1) ρ0 t)) ∧
    ∀ σ : Matrix (Fin 2) (Fin 2) ℂ,
      relaxSol3 s (popRate t1) (2 * cohRate t1 t2 - popRate t1) (embed23 σ) t =
        embed23 (relaxSol2 (popRate t1) (cohRate t1 t2) σ t) := by
  refine ⟨fun ρ0 hρ => relaxSol3_density s _ _ t hs (popRate_nonneg h)
    (by have := popRate_le h; linarith) ht hρ, fun σ => ?_⟩
  rw [relaxSol3_embed]
  congr 2; ring

example : IsDensity (embed23 plusState) := embed23_density plusState_density

/-! ### Several subsystems -/

/-- **Product states of two subsystems of any dimensions**, any lists of local collapse operators
(rate, matrix): if `ρA(t)`, `ρB(t)` solve the local master equations, `ρA(t) ⊗ ρB(t)` solves the
master equation with every operator placed on its own factor (`A ⊗ 1`, `1 ⊗ B`), and it is a density
matrix whenever both factors are. -/
theorem product_states {m n : Type} [Fintype m] [DecidableEq m] [Fintype n] [DecidableEq n]
    (opsA : List (ℝ × Matrix m m ℂ)) (opsB : List (ℝ × Matrix n n ℂ))
    (ρA : ℝ → Matrix m m ℂ) (ρB : ℝ → Matrix n n ℂ)
    (hA : Solves (generator 0 opsA) ρA) (hB : Solves (generator 0 opsB) ρB) :
    Solves (generator 0 (jointOps opsA opsB)) (fun t => kroneckerMap (· * ·) (ρA t) (ρB t)) ∧
    ∀ t, IsDensity (ρA t) → IsDensity (ρB t) → IsDensity (kroneckerMap (· * ·) (ρA t) (ρB t)) :=
  ⟨solves_kron opsA opsB ρA ρB hA hB, fun _ h1 h2 => h1.kron h2⟩

/-- **Register of any number of qubits, per-qubit times, every joint state.**  `cfg` lists
`(t1, t2)` for each qubit (each admissible).  `modelRegOps cfg 0` are the operators the model returns
for the qubits `0, 1, …` (`qubitOps true 2 q …`), each placed on its own tensor factor of
`Reg cfg = Fin 2 × (Fin 2 × … × Unit)`.  For every initial matrix `ρ₀` of the register — product or
entangled — the explicit joint solution `regSol` (the qubit solution applied on every factor) solves
the joint master equation and starts at `ρ₀`; for `t ≥ 0` it maps density matrices to density
matrices. -/
theorem register_solution (cfg : List (Option Frac × Option Frac))
    (h : ∀ c ∈ cfg, Admissible c.1 c.2) (ρ0 : Matrix (Reg cfg) (Reg cfg) ℂ) :
    Solves (generator 0 (modelRegOps cfg 0)) (fun t => regSol cfgRate cfg t ρ0) ∧
    regSol cfgRate cfg 0 ρ0 = ρ0 ∧
    ∀ t, 0 ≤ t → IsDensity ρ0 → IsDensity (regSol cfgRate cfg t ρ0) := by
  refine ⟨?_, regSol_zero cfgRate cfg ρ0, fun t ht hρ =>
    regSol_density cfgRate cfg (cfgRate_ok cfg h) t ht hρ⟩
  have : generator 0 (modelRegOps cfg 0) = regGen cfgRate cfg :=
    funext fun ρ => modelRegOps_generator cfg h 0 ρ
  rw [this]
  exact regSol_solves cfgRate cfg ρ0

-- non-vacuity: two qubits with different times (one at the boundary, one with t1 only), initial state
-- the entangled Bell state (a density matrix that is not a product)
example : (∀ c ∈ [((some ⟨1, 1⟩, some ⟨2, 1⟩) : Option Frac × Option Frac), (some ⟨3, 1⟩, none)],
      Admissible c.1 c.2) ∧
    IsDensity (bellState ((some ⟨1, 1⟩, some ⟨2, 1⟩) : Option Frac × Option Frac) (some ⟨3, 1⟩, none)) := by
  refine ⟨?_, bellState_density _ _⟩
  intro c hc
  simp only [List.mem_cons, List.not_mem_nil, or_false] at hc
  rcases hc with rfl | rfl <;> refine ⟨?_, ?_, ?_⟩ <;> intros <;>
    simp_all [Frac.Pos, Frac.toReal] <;> (try subst_vars) <;> norm_num

/-- **each qubit decays independently**: if the initial matrix of the register is a product between
the first qubit and the rest, it remains one; the first qubit follows its own explicit solution with
its own `(t1, t2)`, the rest its own joint solution (apply repeatedly for full product states) -/
theorem register_independent (c : Option Frac × Option Frac) (cs : List (Option Frac × Option Frac))
    (t : ℝ) (ρA : Matrix (Fin 2) (Fin 2) ℂ) (ρR : Matrix (Reg cs) (Reg cs) ℂ) :
    regSol cfgRate (c :: cs) t (kroneckerMap (· * ·) ρA ρR) =
      kroneckerMap (· * ·) (relaxSol2 (popRate c.1) (cohRate c.1 c.2) ρA t) (regSol cfgRate cs t ρR) := by
  have := regSol_kron cfgRate c cs t ρA ρR
  have hΓ : (cfgRate c).1 / 2 + (cfgRate c).2 / 2 = cohRate c.1 c.2 := by simp only [cfgRate]; ring
  rw [hΓ] at this
  exact this

end QipVerif.C15
