import QipVerif.Lemmas.NoiseGen
import QipVerif.Lemmas.NoiseKron
/-!
# C15 — T1/T2 decoherence has exactly the specified rates and keeps states physical

Property theorems only.  `Model/Noise.lean` models `RelaxationNoise` / `process_noise` with exact
fractions; `fixed = true` is the code with `fixes/C15-1.patch` (boundary `t2 = 2·t1` accepted,
no dephasing operator), `fixed = false` the code as shipped (`ZeroDivisionError` at the boundary).
`gen2 ops` / `gen3 s ops` is the idle Lindblad generator `Σ rate·D[A]` defined by the operators the
model returns for a two- / three-level subsystem (`D[√rate·A] = rate·D[A]`: `dissipator_smul`).

What is proved: the generator has exactly the rates of the property (`d/dt ρ11 = −ρ11/t1`,
`d/dt ρ01 = −ρ01/t2`, for every positive `t1`, every `0 < t2 ≤ 2 t1` incl. the boundary, t1-only,
t2-only, d = 2 and d = 3), trace and Hermiticity preservation of every Lindblad generator, and the
validation verdicts.  Not proved (see notes/C15.md): the solution of the linear ODE by the solver
(`exp(−t/t1)`, `exp(−t/t2)` follow from these generator entries), complete positivity (GKLS).
-/
namespace QipVerif.C15
open QipVerif.Noise Matrix

/-! ### Rates -/

/-- **Population**, qubit: for all positive `t1`, `0 < t2 ≤ 2·t1`, the operators the code adds give
`⟨1|𝓛ρ|1⟩ = −ρ11/t1` and `⟨0|𝓛ρ|0⟩ = +ρ11/t1`, for every matrix ρ. -/
theorem dissipator_population (q : Nat) (t1 t2 : Frac) (h1 : t1.Pos) (h2 : t2.Pos)
    (hle : t2.toReal ≤ 2 * t1.toReal) :
    ∃ ops, qubitOps true 2 q (some t1) (some t2) = .ok ops ∧
      ∀ ρ, gen2 ops ρ 1 1 = -(1 / t1.toReal * ρ 1 1) ∧ gen2 ops ρ 0 0 = 1 / t1.toReal * ρ 1 1 := by
  obtain ⟨ops, hops, hg, _⟩ := qubitOps_gen 2 q t1 t2 h1 h2 hle
  refine ⟨ops, hops, fun ρ => ?_⟩
  rw [hg]
  obtain ⟨e00, e11, _, _⟩ := relaxGen2_apply (1 / t1.toReal) (2 * (1 / t2.toReal - 1 / (2 * t1.toReal))) ρ
  exact ⟨by rw [e11]; push_cast; ring, by rw [e00]; push_cast; ring⟩

/-- **Coherence**, qubit: for all positive `t1`, `0 < t2 ≤ 2·t1` (boundary included),
`⟨0|𝓛ρ|1⟩ = −ρ01/t2` and `⟨1|𝓛ρ|0⟩ = −ρ10/t2`. -/
theorem dissipator_coherence (q : Nat) (t1 t2 : Frac) (h1 : t1.Pos) (h2 : t2.Pos)
    (hle : t2.toReal ≤ 2 * t1.toReal) :
    ∃ ops, qubitOps true 2 q (some t1) (some t2) = .ok ops ∧
      ∀ ρ, gen2 ops ρ 0 1 = -(1 / t2.toReal * ρ 0 1) ∧ gen2 ops ρ 1 0 = -(1 / t2.toReal * ρ 1 0) := by
  obtain ⟨ops, hops, hg, _⟩ := qubitOps_gen 2 q t1 t2 h1 h2 hle
  refine ⟨ops, hops, fun ρ => ?_⟩
  rw [hg]
  obtain ⟨_, _, e01, e10⟩ := relaxGen2_apply (1 / t1.toReal) (2 * (1 / t2.toReal - 1 / (2 * t1.toReal))) ρ
  have hr := half_rates t1.toReal t2.toReal (ne_of_gt h1.toReal_pos) (ne_of_gt h2.toReal_pos)
  have hc : ((1 / t1.toReal : ℝ) : ℂ) / 2 + ((2 * (1 / t2.toReal - 1 / (2 * t1.toReal)) : ℝ) : ℂ) / 2
      = ((1 / t2.toReal : ℝ) : ℂ) := by rw [← hr]; push_cast; ring
  exact ⟨by rw [e01, hc]; push_cast; ring, by rw [e10, hc]; push_cast; ring⟩

-- non-vacuity: t1 = 3/2, t2 = 2 (inside), t1 = 1, t2 = 2 (boundary)
example : Frac.Pos ⟨3, 2⟩ ∧ Frac.Pos ⟨2, 1⟩ ∧ qubitOps true 2 0 (some ⟨3, 2⟩) (some ⟨2, 1⟩) =
    .ok [⟨[0], .destroy, 2, some ⟨2, 3⟩⟩, ⟨[0], .num, 2, some ⟨4, 12⟩⟩] := by decide
example : qubitOps true 2 0 (some ⟨1, 1⟩) (some ⟨2, 1⟩) = .ok [⟨[0], .destroy, 2, some ⟨1, 1⟩⟩] := by decide

/-- t1 only: population decays at `1/t1`, coherence at `1/(2 t1)`. -/
theorem dissipator_t1_only (fixed : Bool) (q : Nat) (t1 : Frac) (h1 : t1.Pos) :
    ∃ ops, qubitOps fixed 2 q (some t1) none = .ok ops ∧
      ∀ ρ, gen2 ops ρ 1 1 = -(1 / t1.toReal * ρ 1 1) ∧ gen2 ops ρ 0 1 = -(1 / (2 * t1.toReal) * ρ 0 1) := by
  refine ⟨_, qubitOps_t1_only fixed 2 q t1 h1.1, fun ρ => ?_⟩
  rw [gen2_destroy, rate1_toReal t1 h1]
  obtain ⟨_, e11, e01, _⟩ := relaxGen2_apply (1 / t1.toReal) 0 ρ
  refine ⟨by rw [e11]; push_cast; ring, ?_⟩
  rw [e01]; push_cast; ring

/-- t2 only: populations constant, coherence decays at `1/t2`. -/
theorem dissipator_t2_only (fixed : Bool) (q : Nat) (t2 : Frac) (h2 : t2.Pos) :
    ∃ ops, qubitOps fixed 2 q none (some t2) = .ok ops ∧
      ∀ ρ, gen2 ops ρ 1 1 = 0 ∧ gen2 ops ρ 0 0 = 0 ∧ gen2 ops ρ 0 1 = -(1 / t2.toReal * ρ 0 1) := by
  refine ⟨_, qubitOps_t2_only fixed 2 q t2 h2.1, fun ρ => ?_⟩
  rw [gen2_num, rateT2_toReal t2 h2]
  obtain ⟨e00, e11, e01, _⟩ := relaxGen2_apply 0 (2 / t2.toReal) ρ
  refine ⟨by rw [e11]; simp, by rw [e00]; simp, ?_⟩
  rw [e01]; push_cast; ring

/-- **Three-level subsystem**, exactly as `destroy(3)` (`s = √2`) and `num(3)` give it: level 2
decays at `2/t1` into level 1, level 1 at `1/t1` into level 0; the `0–1` coherence decays at `1/t2`
and is fed by the `1–2` coherence; in particular on states supported on levels 0, 1
(`ρ22 = ρ12 = 0`) the qubit laws hold. -/
theorem dissipator_qutrit (q : Nat) (s : ℝ) (hs : s * s = 2) (t1 t2 : Frac) (h1 : t1.Pos) (h2 : t2.Pos)
    (hle : t2.toReal ≤ 2 * t1.toReal) :
    ∃ ops, qubitOps true 3 q (some t1) (some t2) = .ok ops ∧
      ∀ ρ, gen3 s ops ρ 2 2 = -(2 * (1 / t1.toReal) * ρ 2 2) ∧
           gen3 s ops ρ 1 1 = 1 / t1.toReal * (2 * ρ 2 2 - ρ 1 1) ∧
           gen3 s ops ρ 0 0 = 1 / t1.toReal * ρ 1 1 ∧
           gen3 s ops ρ 0 1 = -(1 / t2.toReal * ρ 0 1) + 1 / t1.toReal * s * ρ 1 2 := by
  obtain ⟨ops, hops, _, hg⟩ := qubitOps_gen 3 q t1 t2 h1 h2 hle
  refine ⟨ops, hops, fun ρ => ?_⟩
  rw [hg]
  obtain ⟨e00, e11, e22⟩ := relaxGen3_pop s (1 / t1.toReal) (2 * (1 / t2.toReal - 1 / (2 * t1.toReal))) hs ρ
  obtain ⟨e01, _, _⟩ := relaxGen3_coh s (1 / t1.toReal) (2 * (1 / t2.toReal - 1 / (2 * t1.toReal))) hs ρ
  have hr := half_rates t1.toReal t2.toReal (ne_of_gt h1.toReal_pos) (ne_of_gt h2.toReal_pos)
  have hc : ((1 / t1.toReal : ℝ) : ℂ) / 2 + ((2 * (1 / t2.toReal - 1 / (2 * t1.toReal)) : ℝ) : ℂ) / 2
      = ((1 / t2.toReal : ℝ) : ℂ) := by rw [← hr]; push_cast; ring
  refine ⟨by rw [e22]; push_cast; ring, by rw [e11]; push_cast; ring, by rw [e00]; push_cast; ring, ?_⟩
  rw [e01, hc]; push_cast; ring

/-- the actual collapse operator `c·A` with real prefactor `c` contributes `c²·D[A]` -/
theorem prefactor_squared {n : Type} [Fintype n] [DecidableEq n] (c : ℝ) (A ρ : Matrix n n ℂ) :
    dissipator ((c : ℂ) • A) ρ = ((c ^ 2 : ℝ) : ℂ) • dissipator A ρ := dissipator_smul c A ρ

/-! ### Trace and Hermiticity (any dimension, any Hamiltonian, any list of collapse operators) -/

theorem trace_preserved {n : Type} [Fintype n] [DecidableEq n] (H : Matrix n n ℂ)
    (ops : List (ℝ × Matrix n n ℂ)) (ρ : Matrix n n ℂ) : (generator H ops ρ).trace = 0 :=
  trace_generator H ops ρ

theorem hermiticity_preserved {n : Type} [Fintype n] [DecidableEq n] (H : Matrix n n ℂ)
    (ops : List (ℝ × Matrix n n ℂ)) (ρ : Matrix n n ℂ) (hH : Hᴴ = H) (hρ : ρᴴ = ρ) :
    (generator H ops ρ)ᴴ = generator H ops ρ := generator_conjTranspose H ops ρ hH hρ

/-- **Independence of subsystems** (two factors of any dimensions): collapse operators placed on
different subsystems (`LA ⊗ 1`, `1 ⊗ LB`, which is what `expand_operator` produces, C08) act on a
product state as the sum of the local generators, `d/dt (ρA ⊗ ρB) = (𝓛A ρA) ⊗ ρB + ρA ⊗ (𝓛B ρB)`. -/
theorem subsystems_independent {m n : Type} [Fintype m] [DecidableEq m] [Fintype n] [DecidableEq n]
    (LA ρA : Matrix m m ℂ) (LB ρB : Matrix n n ℂ) (γA γB : ℝ) :
    generator 0 [(γA, kroneckerMap (· * ·) LA (1 : Matrix n n ℂ)), (γB, kroneckerMap (· * ·) (1 : Matrix m m ℂ) LB)]
        (kroneckerMap (· * ·) ρA ρB) =
      kroneckerMap (· * ·) ((γA : ℂ) • dissipator LA ρA) ρB + kroneckerMap (· * ·) ρA ((γB : ℂ) • dissipator LB ρB) :=
  generator_product LA ρA LB ρB γA γB

/-! ### Validation -/

/-- `_T_to_list` accepts exactly `None`, positive scalars, and lists of the right length. -/
theorem validation_T (T : TSpec) (N : Nat) :
    tToList T N = .error .invalidT ↔
      (∃ q, T = .scalar q ∧ q.n ≤ 0) ∨ (∃ l, T = .list l ∧ l.length ≠ N) := by
  cases T with
  | none => simp [tToList]
  | scalar q =>
    by_cases h : 0 < q.n
    · simp [tToList, Frac.isPos, h]
    · simp [tToList, Frac.isPos, h]; omega
  | list l => by_cases h : l.length = N <;> simp [tToList, h]

/-- the simulation set-up raises the `_T_to_list` error exactly when `t1` or (`t1` fine and) `t2`
is a non-positive scalar or a list of the wrong length -/
theorem validation_setup (fixed : Bool) (dims : List Nat) (t1 t2 : TSpec) (tg : Option (List Nat)) :
    relaxationOps fixed dims t1 t2 tg = .error .invalidT ↔
      tToList t1 dims.length = .error .invalidT ∨
      ((∃ l, tToList t1 dims.length = .ok l) ∧ tToList t2 dims.length = .error .invalidT) := by
  cases h1 : tToList t1 dims.length with
  | error e =>
    have : e = .invalidT := by
      cases t1 <;> simp [tToList] at h1 <;> (try split at h1) <;> simp_all
    simp [relaxationOps, h1, this]
  | ok l1 =>
    cases h2 : tToList t2 dims.length with
    | error e =>
      have : e = .invalidT := by
        cases t2 <;> simp [tToList] at h2 <;> (try split at h2) <;> simp_all
      simp [relaxationOps, h1, h2, this]
    | ok l2 =>
      simp only [relaxationOps, h1, h2, reduceCtorEq, and_false, or_self, iff_false]
      exact loopTargets_ne_invalidT fixed dims l1 l2 _

/-- `t2 > 2·t1` is rejected, for positive times, in both versions -/
theorem validation_t2_gt_2t1 (fixed : Bool) (dim q : Nat) (t1 t2 : Frac) (h1 : t1.Pos) (h2 : t2.Pos) :
    qubitOps fixed dim q (some t1) (some t2) = .error .t2gt2t1 ↔ 2 * t1.toReal < t2.toReal := by
  obtain ⟨hs1, hs2, hs3⟩ := delta_sign t1 t2 h1 h2
  constructor
  · intro h
    rcases Int.lt_trichotomy (delta t1 t2) 0 with hd | hd | hd
    · exact hs1.mp hd
    · rw [qubitOps_eq fixed dim q t1 t2 h1.1 h2.1 hd] at h; cases fixed <;> simp at h
    · rw [qubitOps_gt fixed dim q t1 t2 h1.1 h2.1 hd] at h; simp at h
  · intro h; exact qubitOps_lt fixed dim q t1 t2 (hs1.mpr h)

/-- the repaired code accepts a positive pair exactly when `t2 ≤ 2·t1` -/
theorem accepts_iff (dim q : Nat) (t1 t2 : Frac) (h1 : t1.Pos) (h2 : t2.Pos) :
    (∃ ops, qubitOps true dim q (some t1) (some t2) = .ok ops) ↔ t2.toReal ≤ 2 * t1.toReal := by
  constructor
  · rintro ⟨ops, h⟩
    by_contra hc
    have := (validation_t2_gt_2t1 true dim q t1 t2 h1 h2).mpr (not_le.mp hc)
    rw [this] at h; cases h
  · intro h
    obtain ⟨ops, hops, _⟩ := qubitOps_gen dim q t1 t2 h1 h2 h
    exact ⟨ops, hops⟩

/-- **Boundary `t2 = 2·t1`**: the code as shipped raises `ZeroDivisionError`, the repaired code
returns the relaxation operator alone. -/
theorem boundary (dim q : Nat) (t1 t2 : Frac) (h1 : t1.Pos) (h2 : t2.Pos)
    (hb : t2.toReal = 2 * t1.toReal) :
    qubitOps false dim q (some t1) (some t2) = .error .zerodiv ∧
    qubitOps true dim q (some t1) (some t2) = .ok [⟨[q], .destroy, dim, some ⟨t1.d, t1.n⟩⟩] := by
  have hd := (delta_sign t1 t2 h1 h2).2.1.mpr hb
  exact ⟨by rw [qubitOps_eq false dim q t1 t2 h1.1 h2.1 hd]; rfl,
         by rw [qubitOps_eq true dim q t1 t2 h1.1 h2.1 hd]; rfl⟩

/-- **Counter-example for the code as shipped** (`t1 = 1`, `t2 = 2`, one qubit, scalars): the
property requires acceptance at the boundary, the shipped code raises `ZeroDivisionError`. -/
theorem C15_counterexample_orig :
    relaxationOps false [2] (.scalar ⟨1, 1⟩) (.scalar ⟨2, 1⟩) none = .error .zerodiv ∧
    relaxationOps true [2] (.scalar ⟨1, 1⟩) (.scalar ⟨2, 1⟩) none = .ok [⟨[0], .destroy, 2, some ⟨1, 1⟩⟩] := by
  decide

/-! ### Which operators on which subsystems -/

/-- Each targeted subsystem contributes its own operators (target index `q`, dimension `dims[q]`,
its own entry of `t1`/`t2`), concatenated in target order — scalars, per-subsystem lists,
t1-only, t2-only alike. -/
theorem ops_per_subsystem (fixed : Bool) (dims : List Nat) (t1 t2 : TSpec) (l1 l2 : List (Option Frac))
    (ops : Nat → List COp) (tg : Option (List Nat))
    (h1 : tToList t1 dims.length = .ok l1) (h2 : tToList t2 dims.length = .ok l2)
    (h : ∀ q ∈ tg.getD (List.range dims.length), ∃ a b d, l1[q]? = some a ∧ l2[q]? = some b ∧
      dims[q]? = some d ∧ qubitOps fixed d q a b = .ok (ops q)) :
    relaxationOps fixed dims t1 t2 tg = .ok ((tg.getD (List.range dims.length)).flatMap ops) := by
  simp only [relaxationOps, h1, h2]
  exact loopTargets_ok fixed dims l1 l2 ops _ h

-- non-vacuity: scalar t1, per-subsystem t2 with a None entry, dimensions 2 and 3
example : relaxationOps true [2, 3] (.scalar ⟨2, 1⟩) (.list [some ⟨1, 1⟩, none]) none =
    .ok [⟨[0], .destroy, 2, some ⟨1, 2⟩⟩, ⟨[0], .num, 2, some ⟨6, 4⟩⟩, ⟨[1], .destroy, 3, some ⟨1, 2⟩⟩] := by
  decide

/-- without `device_noise` no Lindblad operator is produced and nothing is validated; with it the
processor's own `t1`/`t2` are appended as one more `RelaxationNoise` after the listed noise objects -/
theorem process_noise_collection (fixed : Bool) (dims : List Nat) (noises : List NoiseSpec) (t1 t2 : TSpec) :
    processNoise fixed dims noises t1 t2 false = .ok [] ∧
    processNoise fixed dims noises .none .none true = collect fixed dims noises ∧
    (t1 ≠ .none ∨ t2 ≠ .none →
      processNoise fixed dims noises t1 t2 true = collect fixed dims (noises ++ [.relax t1 t2 none])) := by
  refine ⟨by simp [processNoise], by simp [processNoise], fun h => ?_⟩
  simp [processNoise, h]

example : processNoise true [2, 2] [.decoherence [7] [] true, .coherent, .relax .none (.scalar ⟨1, 1⟩) (some [1])]
      (.scalar ⟨2, 1⟩) .none true =
    .ok [⟨[0], .user 7, 2, some ⟨1, 1⟩⟩, ⟨[1], .user 7, 2, some ⟨1, 1⟩⟩, ⟨[1], .num, 2, some ⟨2, 1⟩⟩,
         ⟨[0], .destroy, 2, some ⟨1, 2⟩⟩, ⟨[1], .destroy, 2, some ⟨1, 2⟩⟩] := by decide

end QipVerif.C15
