import QipVerif.Lemmas.VqaList
import QipVerif.Lemmas.VqaMonoid
import QipVerif.Lemmas.VqaCalc
/-!
# C19 — the variational-algorithm gradient is the derivative of the cost

Property theorems only.  `Model/Vqa.lean` is the model of the index bookkeeping of
`qutip_qip.vqa.VQA` (series of blocks, parameter slices, prefix/suffix products, the jacobian
loop).  `jacLoop`/`computeJac false` model the loop repaired by `fixes/C19-1.patch`;
`jacLoopOrig`/`computeJac true` model the loop as shipped, for which the property is refuted
(`C19_counterexample_orig`) and only `jac_shape_and_entries_partial` holds.

Not proved here (trusted numerics, see notes/C19.md): that `VQABlock.get_unitary_derivative`
returns the derivative of `VQABlock.get_unitary` (`d/dθ e^{-iθH} = e^{-iθH}(-iH)` and
`scipy.linalg.expm_frechet`); it enters `jac_entry_is_partial_derivative` as the hypothesis `hP`.
-/
namespace QipVerif.C19
open QipVerif.Vqa Matrix

/-- **Block `k` of the series is gate `k` of the constructed circuit and receives the slice
`angles[i : i + n]`**, where `i` is the number of parameters of the blocks before it in the series
(the offset `compute_jac` uses) and `n` its own number of parameters.  All block lists, all layer
counts, all parameter vectors (of any length). -/
theorem series_matches_circuit {α : Type} (bs : List Block) (L : Nat) (angles : List α) (hL : 0 < L) :
    (constructCircuit bs L angles).length = (blockSeries bs L).length ∧
    ∀ k jb, (blockSeries bs L)[k]? = some jb →
      bs[jb.1]? = some jb.2 ∧
      (constructCircuit bs L angles)[k]? =
        some (gateOf angles jb (sumParams ((blockSeries bs L).take k))) := by
  rw [constructCircuit_eq bs L angles hL]
  refine ⟨seriesGates_length _ _ _, fun k jb h => ⟨blockSeries_mem (List.mem_of_getElem? h), ?_⟩⟩
  rw [seriesGates_getElem?, h]; simp

-- non-vacuity: initial Hamiltonian block, 2-term ParameterizedHamiltonian, fixed unitary, native gate; 2 layers
example : constructCircuit [⟨.ham, 0, true⟩, ⟨.pham, 2, false⟩, ⟨.unitary, 0, false⟩, ⟨.native, 0, false⟩] 2
      [10, 11, 12, 13, 14] =
    [⟨0, false, some [10]⟩, ⟨1, false, some [11, 12]⟩, ⟨2, false, none⟩, ⟨3, true, none⟩,
     ⟨1, false, some [13, 14]⟩, ⟨2, false, none⟩, ⟨3, true, none⟩] := by decide

/-- `get_free_parameters_num` counts exactly the parameters consumed along the series. -/
theorem free_params_eq_series (bs : List Block) (L : Nat) (hL : 0 < L) :
    freeParams bs L = sumParams (blockSeries bs L) := freeParams_eq bs L hL

example : freeParams [⟨.ham, 0, true⟩, ⟨.pham, 2, false⟩, ⟨.unitary, 0, false⟩] 3 = 7 := by decide

/-- **`U_prods_back[n−1−k] · X · U_prods[k]` is the full product with factor `k` replaced by `X`**,
and `gate_sequence_product` is the full product — over an arbitrary monoid, for every list of
propagators and every position. -/
theorem prefix_suffix {M : Type} [Monoid M] (ps : List M) (k : Nat) (hk : k < ps.length) (X : M) :
    modifyUnitary (· * ·) 1 ps k X = (ps.set k X).reverse.prod ∧
    fullProd (· * ·) 1 ps = ps.reverse.prod := by
  rw [modifyUnitary_eq ps k hk, set_reverse_prod ps k hk]
  exact ⟨rfl, fullProd_eq ps⟩

-- non-vacuity in the free monoid: the words show which factors are multiplied in which order
example : modifyUnitary (· ++ ·) [] [[0], [1], [2], [3]] 1 [9] = [3, 2, 9, 0] := by decide

/-- **Product rule.** If `U(t) = B · P(t) · A` and `P` has (entrywise) derivative `P'` at `θ`, then
`t ↦ ⟨ψ|U(t)† O U(t)|ψ⟩` has derivative `⟨ψ|dU† O U|ψ⟩ + ⟨ψ|U† O dU|ψ⟩` with `dU = B · P' · A`;
for Hermitian `O` this is the real number `2 Re ⟨ψ|dU† O U|ψ⟩`.  Matrices over ℂ of any size. -/
theorem product_rule {n : Type} [Fintype n] (B A O : Matrix n n ℂ) (P : ℝ → Matrix n n ℂ)
    (P' : Matrix n n ℂ) (θ : ℝ) (hP : MDeriv P P' θ) (ψ : n → ℂ) :
    HasDerivAt (fun t => cost ψ O (B * P t * A))
      (expect ψ ((B * P' * A)ᴴ * O * (B * P θ * A)) + expect ψ ((B * P θ * A)ᴴ * O * (B * P' * A))) θ ∧
    (O.IsHermitian →
      expect ψ ((B * P' * A)ᴴ * O * (B * P θ * A)) + expect ψ ((B * P θ * A)ᴴ * O * (B * P' * A)) =
        ((2 * (expect ψ ((B * P' * A)ᴴ * O * (B * P θ * A))).re : ℝ) : ℂ)) := by
  refine ⟨?_, fun hO => expect_herm_pair ψ O _ _ hO⟩
  have h := (((hP.sandwich B A).conj_obs O).expect ψ)
  simpa [cost, expect_add] using h

/-- **Every jacobian entry is the partial derivative of the cost** (real part; for a Hermitian
observable the cost is real, `cost_im`).  `ps` are the propagators at the current parameters,
position `k` is the only factor depending on the parameter, `P` is that factor as a function of
the parameter and `P'` what the block returns as its derivative (hypothesis `hP`: trusted
numerics).  The value the code computes, `cost_derivative(U, modify_unitary(k, P'))`, is the
derivative of `t ↦ Re cost` along that parameter. -/
theorem jac_entry_is_partial_derivative {n : Type} [Fintype n] [DecidableEq n]
    (ps : List (Matrix n n ℂ)) (k : Nat) (hk : k < ps.length)
    (P : ℝ → Matrix n n ℂ) (P' : Matrix n n ℂ) (θ : ℝ) (hPθ : P θ = ps[k]) (hP : MDeriv P P' θ)
    (O : Matrix n n ℂ) (ψ : n → ℂ) :
    HasDerivAt (fun t => (cost ψ O (fullProd (· * ·) 1 (ps.set k (P t)))).re)
      (costDerivative ψ O (fullProd (· * ·) 1 ps) (modifyUnitary (· * ·) 1 ps k P')) θ := by
  have hset : ∀ X, fullProd (· * ·) 1 (ps.set k X) =
      (ps.drop (k + 1)).reverse.prod * X * (ps.take k).reverse.prod := fun X => by
    rw [fullProd_eq, set_reverse_prod ps k hk]
  have hfull : fullProd (· * ·) 1 ps =
      (ps.drop (k + 1)).reverse.prod * P θ * (ps.take k).reverse.prod := by
    rw [← hset (P θ), hPθ, List.set_getElem_self]
  have h := (product_rule (ps.drop (k + 1)).reverse.prod (ps.take k).reverse.prod O P P' θ hP ψ).1
  simp only [hset, hfull, modifyUnitary_eq ps k hk, costDerivative]
  exact h.re_of_complex

theorem cost_real {n : Type} [Fintype n] (ψ : n → ℂ) (O U : Matrix n n ℂ) (hO : O.IsHermitian) :
    (cost ψ O U).im = 0 := cost_im ψ O U hO

/-- **Shape and meaning of the jacobian (repaired loop).**  Whenever `compute_jac` returns, it
returns exactly one entry for every free parameter whose index is requested, in increasing order of
the index (duplicates and the order inside `indices_to_compute` are irrelevant); and every entry
refers to a block of the series at the position `k` of the propagator that is replaced, to that
block's own slice `angles[start : start + n]` with `start` the number of parameters before it, and to a
term of that block.  All block lists, layer counts, vector lengths and index lists. -/
theorem jac_shape_and_entries (bs : List Block) (L m : Nat) (idx : Option (List Int))
    (es : List JEntry) (hL : 0 < L) (h : computeJac false bs L m idx = .ok es) :
    es.map JEntry.param =
        (List.range (freeParams bs L)).filter (fun p => (indices m idx).contains ((p : Nat) : Int)) ∧
    ∀ e ∈ es, ∃ jb, (blockSeries bs L)[e.k]? = some jb ∧ e.blk = jb.1 ∧ bs[e.blk]? = some jb.2 ∧
      e.n = jb.2.nparams ∧ e.start = sumParams ((blockSeries bs L).take e.k) ∧ e.term < e.n := by
  have hes : es = jacLoop (indices m idx) (blockSeries bs L) 0 0 := by
    unfold computeJac at h
    simp only [Bool.false_eq_true, ↓reduceIte] at h
    cases hs : seriesErr m (blockSeries bs L) 0 with
    | some e => simp [hs] at h
    | none =>
      simp only [hs] at h
      split at h
      · cases h
      · exact (Except.ok.inj h).symm
  subst hes
  constructor
  · rw [jacLoop_params, freeParams_eq bs L hL, List.range_eq_range']
  · intro e he
    obtain ⟨jb, _, hget, h1, h2, h3, h4, _⟩ := jacLoop_mem _ _ 0 0 e he
    simp only [Nat.sub_zero, Nat.zero_add] at hget h3
    exact ⟨jb, hget, h1, h1 ▸ blockSeries_mem (List.mem_of_getElem? hget), h2, h3, h4⟩

/-- With the default `indices_to_compute` and a parameter vector of the right length there is one
entry per free parameter, entry `j` for parameter `j`. -/
theorem jac_default_full (bs : List Block) (L : Nat) (es : List JEntry) (hL : 0 < L)
    (h : computeJac false bs L (freeParams bs L) none = .ok es) :
    es.map JEntry.param = List.range (freeParams bs L) := by
  rw [(jac_shape_and_entries bs L _ none es hL h).1]
  apply List.filter_eq_self.mpr
  intro p hp
  simp [indices, List.mem_range.mp hp]

-- non-vacuity: initial Hamiltonian, 2-term ParameterizedHamiltonian, fixed unitary, 2 layers, subset of indices
example : computeJac false [⟨.ham, 0, true⟩, ⟨.pham, 2, false⟩, ⟨.unitary, 0, false⟩] 2 5 (some [4, 0, 2, 2, 7]) =
    .ok [⟨0, 0, 0, 1, 0⟩, ⟨1, 1, 1, 2, 1⟩, ⟨3, 1, 3, 2, 1⟩] := by decide

/-- **The loop as shipped (`computeJac true`) satisfies the same statement when every block has at
most one free parameter** — it then returns exactly what the repaired loop returns. -/
theorem jac_shape_and_entries_partial (bs : List Block) (L m : Nat) (idx : Option (List Int))
    (h1 : ∀ b ∈ bs, b.nparams ≤ 1) :
    computeJac true bs L m idx = computeJac false bs L m idx := by
  have hs : ∀ jb ∈ blockSeries bs L, jb.2.nparams ≤ 1 := fun jb hjb =>
    h1 jb.2 (List.mem_of_getElem? (blockSeries_mem hjb))
  simp [computeJac, jacLoopOrig_eq _ _ 0 0 hs]

example : (∀ b ∈ [(⟨.ham, 0, true⟩ : Block), ⟨.unitary, 0, false⟩, ⟨.ham, 0, false⟩], b.nparams ≤ 1) ∧
    computeJac true [⟨.ham, 0, true⟩, ⟨.unitary, 0, false⟩, ⟨.ham, 0, false⟩] 2 3 none =
      .ok [⟨0, 0, 0, 1, 0⟩, ⟨2, 2, 1, 1, 0⟩, ⟨4, 2, 2, 1, 0⟩] := by decide

/-- **Counter-example for the loop as shipped**: one block `ParameterizedHamiltonian([XX, ZI])`
(two parameterised terms), one layer, two angles, default indices: two free parameters but a single
jacobian entry (for term 0 only). -/
theorem C19_counterexample_orig :
    freeParams [⟨.pham, 2, false⟩] 1 = 2 ∧
    computeJac true [⟨.pham, 2, false⟩] 1 2 none = .ok [⟨0, 0, 0, 2, 0⟩] := by decide

/-- hence the shape statement is false for the loop as shipped -/
theorem C19_orig_refuted :
    ¬ ∀ (bs : List Block) (L : Nat) (es : List JEntry), 0 < L →
        computeJac true bs L (freeParams bs L) none = .ok es →
        es.map JEntry.param = List.range (freeParams bs L) := by
  intro h
  have := h [⟨.pham, 2, false⟩] 1 [⟨0, 0, 0, 2, 0⟩] (by decide) (by decide)
  revert this
  decide

end QipVerif.C19
