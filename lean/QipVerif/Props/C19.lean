import QipVerif.Lemmas.VqaList
import QipVerif.Lemmas.VqaMonoid
import QipVerif.Lemmas.VqaCalc
import QipVerif.Lemmas.VqaExp
import QipVerif.Lemmas.VqaSem
/-!
# C19 — the variational-algorithm gradient is the derivative of the cost

Property theorems only.  `Model/Vqa.lean` is the model of the index bookkeeping of
`qutip_qip.vqa.VQA` (series of blocks, parameter slices, prefix/suffix products, the jacobian
loop).  `jacLoop`/`computeJac false` model the loop repaired by `fixes/C19-1.patch`;
`jacLoopOrig`/`computeJac true` model the loop as shipped, for which the property is refuted
(`C19_counterexample_orig`) and only `jac_shape_and_entries_partial` holds.

The matrix calculus is proved with Mathlib's matrix exponential (`NormedSpace.exp`):
`ham_block_derivative` (`d/dθ e^{-iθH} = e^{-iθH}(-iH)`, every `H`), `exp_directional_derivative`
(Duhamel: for arbitrary non-commuting `A`, `E` the derivative of `t ↦ exp(A + tE)` at 0 exists and is
`expFrechet A E = ∫₀¹ e^{sA} E e^{(1-s)A} ds`, the value at `E` of the Fréchet derivative of `exp` at `A`;
`= e^A E` when `A`, `E` commute), `block_derivative_is_partial` (every block kind) and the headline
`jac_is_gradient`: for every block list, layer count, parameter vector and index list, entry `j` of the
jacobian the model computes is the partial derivative (`HasDerivAt`) of `Re ⟨ψ|U(θ)†OU(θ)|ψ⟩`.

Trusted (see notes/C19.md): floating point; `Qobj.expm` computes `NormedSpace.exp`;
`scipy.linalg.expm_frechet(A, E)` computes the derivative of `exp` at `A` in direction `E`
(= `expFrechet A E`, by `exp_directional_derivative` the only candidate).
-/
namespace QipVerif.C19
open QipVerif.Vqa Matrix NormedSpace

/-- **Block `k` of the series is gate `k` of the constructed circuit and receives the slice
`angles[i : i + n]`**, where `i` is the number of parameters of the blocks before it in the series
(the offset `compute_jac` uses) and `n` its own number of parameters.  All block lists, all layer
counts, all parameter vectors (of any length). -/
theorem series_matches_circuit {α : Type} (bs : List Block) (L : Nat) (angles : List α) (hL : 0 < L) :
    (constructCircuit bs L angles).length = (blockSeries bs L).length ∧
    ∀ k jb, (blockSeries bs L)[k]? = some jb →
      bs[jb.1]? = some jb.2 ∧
      (constructCircuit bs L angles)[k]? =
        some (gateOf angles jb (sumParams ((blockSeries bs L).take k))) := by
  rw [constructCircuit_eq bs L angles hL]
  refine ⟨seriesGates_length _ _ _, fun k jb h => ⟨blockSeries_mem (List.mem_of_getElem? h), ?_⟩⟩
  rw [seriesGates_getElem?, h]; simp

-- non-vacuity: initial Hamiltonian block, 2-term ParameterizedHamiltonian, fixed unitary, native gate; 2 layers
example : constructCircuit [⟨.ham, 0, true⟩, ⟨.pham, 2, false⟩, ⟨.unitary, 0, false⟩, ⟨.native, 0, false⟩] 2
      [10, 11, 12, 13, 14] =
    [⟨0, false, some [10]⟩, ⟨1, false, some [11, 12]⟩, ⟨2, false, none⟩, ⟨3, true, none⟩,
     ⟨1, false, some [13, 14]⟩, ⟨2, false, none⟩, ⟨3, true, none⟩] := by decide

/-- `get_free_parameters_num` counts exactly the parameters consumed along the series. -/
theorem free_params_eq_series (bs : List Block) (L : Nat) (hL : 0 < L) :
    freeParams bs L = sumParams (blockSeries bs L) := freeParams_eq bs L hL

example : freeParams [⟨.ham, 0, true⟩, ⟨.pham, 2, false⟩, ⟨.unitary, 0, false⟩] 3 = 7 := by decide

/-- **`U_prods_back[n−1−k] · X · U_prods[k]` is the full product with factor `k` replaced by `X`**,
and `gate_sequence_product` is the full product — over an arbitrary monoid, for every list of
propagators and every position. -/
theorem prefix_suffix {M : Type} [Monoid M] (ps : List M) (k : Nat) (hk : k < ps.length) (X : M) :
    modifyUnitary (· * ·) 1 ps k X = (ps.set k X).reverse.prod ∧
    fullProd (· * ·) 1 ps = ps.reverse.prod := by
  rw [modifyUnitary_eq ps k hk, set_reverse_prod ps k hk]
  exact ⟨rfl, fullProd_eq ps⟩

-- non-vacuity in the free monoid: the words show which factors are multiplied in which order
example : modifyUnitary (· ++ ·) [] [[0], [1], [2], [3]] 1 [9] = [3, 2, 9, 0] := by decide

/-- **Product rule.** If `U(t) = B · P(t) · A` and `P` has (entrywise) derivative `P'` at `θ`, then
`t ↦ ⟨ψ|U(t)† O U(t)|ψ⟩` has derivative `⟨ψ|dU† O U|ψ⟩ + ⟨ψ|U† O dU|ψ⟩` with `dU = B · P' · A`;
for Hermitian `O` this is the real number `2 Re ⟨ψ|dU† O U|ψ⟩`.  Matrices over ℂ of any size. -/
theorem product_rule {n : Type} [Fintype n] (B A O : Matrix n n ℂ) (P : ℝ → Matrix n n ℂ)
    (P' : Matrix n n ℂ) (θ : ℝ) (hP : MDeriv P P' θ) (ψ : n → ℂ) :
    HasDerivAt (fun t => cost ψ O (B * P t * A))
      (expect ψ ((B * P' * A)ᴴ * O * (B * P θ * A)) + expect ψ ((B * P θ * A)ᴴ * O * (B * P' * A))) θ ∧
    (O.IsHermitian →
      expect ψ ((B * P' * A)ᴴ * O * (B * P θ * A)) + expect ψ ((B * P θ * A)ᴴ * O * (B * P' * A)) =
        ((2 * (expect ψ ((B * P' * A)ᴴ * O * (B * P θ * A))).re : ℝ) : ℂ)) := by
  refine ⟨?_, fun hO => expect_herm_pair ψ O _ _ hO⟩
  have h := (((hP.sandwich B A).conj_obs O).expect ψ)
  simpa [cost, expect_add] using h

/-- **Every jacobian entry is the partial derivative of the cost** (real part; for a Hermitian
observable the cost is real, `cost_im`).  `ps` are the propagators at the current parameters,
position `k` is the only factor depending on the parameter, `P` is that factor as a function of
the parameter and `P'` what the block returns as its derivative (hypothesis `hP`: trusted
numerics).  The value the code computes, `cost_derivative(U, modify_unitary(k, P'))`, is the
derivative of `t ↦ Re cost` along that parameter. -/
theorem jac_entry_is_partial_derivative {n : Type} [Fintype n] [DecidableEq n]
    (ps : List (Matrix n n ℂ)) (k : Nat) (hk : k < ps.length)
    (P : ℝ → Matrix n n ℂ) (P' : Matrix n n ℂ) (θ : ℝ) (hPθ : P θ = ps[k]) (hP : MDeriv P P' θ)
    (O : Matrix n n ℂ) (ψ : n → ℂ) :
    HasDerivAt (fun t => (cost ψ O (fullProd (· * ·) 1 (ps.set k (P t)))).re)
      (costDerivative ψ O (fullProd (· * ·) 1 ps) (modifyUnitary (· * ·) 1 ps k P')) θ := by
  have hset : ∀ X, fullProd (· * ·) 1 (ps.set k X) =
      (ps.drop (k + 1)).reverse.prod * X * (ps.take k).reverse.prod := fun X => by
    rw [fullProd_eq, set_reverse_prod ps k hk]
  have hfull : fullProd (· * ·) 1 ps =
      (ps.drop (k + 1)).reverse.prod * P θ * (ps.take k).reverse.prod := by
    rw [← hset (P θ), hPθ, List.set_getElem_self]
  have h := (product_rule (ps.drop (k + 1)).reverse.prod (ps.take k).reverse.prod O P P' θ hP ψ).1
  simp only [hset, hfull, modifyUnitary_eq ps k hk, costDerivative]
  exact h.re_of_complex

theorem cost_real {n : Type} [Fintype n] (ψ : n → ℂ) (O U : Matrix n n ℂ) (hO : O.IsHermitian) :
    (cost ψ O U).im = 0 := cost_im ψ O U hO

/-- **Shape and meaning of the jacobian (repaired loop).**  Whenever `compute_jac` returns, it
returns exactly one entry for every free parameter whose index is requested, in increasing order of
the index (duplicates and the order inside `indices_to_compute` are irrelevant); and every entry
refers to a block of the series at the position `k` of the propagator that is replaced, to that
block's own slice `angles[start : start + n]` with `start` the number of parameters before it, and to a
term of that block.  All block lists, layer counts, vector lengths and index lists. -/
theorem jac_shape_and_entries (bs : List Block) (L m : Nat) (idx : Option (List Int))
    (es : List JEntry) (hL : 0 < L) (h : computeJac false bs L m idx = .ok es) :
    es.map JEntry.param =
        (List.range (freeParams bs L)).filter (fun p => (indices m idx).contains ((p : Nat) : Int)) ∧
    ∀ e ∈ es, ∃ jb, (blockSeries bs L)[e.k]? = some jb ∧ e.blk = jb.1 ∧ bs[e.blk]? = some jb.2 ∧
      e.n = jb.2.nparams ∧ e.start = sumParams ((blockSeries bs L).take e.k) ∧ e.term < e.n := by
  have hes : es = jacLoop (indices m idx) (blockSeries bs L) 0 0 := by
    unfold computeJac at h
    simp only [Bool.false_eq_true, ↓reduceIte] at h
    cases hs : seriesErr m (blockSeries bs L) 0 with
    | some e => simp [hs] at h
    | none =>
      simp only [hs] at h
      split at h
      · cases h
      · exact (Except.ok.inj h).symm
  subst hes
  constructor
  · rw [jacLoop_params, freeParams_eq bs L hL, List.range_eq_range']
  · intro e he
    obtain ⟨jb, _, hget, h1, h2, h3, h4, _⟩ := jacLoop_mem _ _ 0 0 e he
    simp only [Nat.sub_zero, Nat.zero_add] at hget h3
    exact ⟨jb, hget, h1, h1 ▸ blockSeries_mem (List.mem_of_getElem? hget), h2, h3, h4⟩

/-- With the default `indices_to_compute` and a parameter vector of the right length there is one
entry per free parameter, entry `j` for parameter `j`. -/
theorem jac_default_full (bs : List Block) (L : Nat) (es : List JEntry) (hL : 0 < L)
    (h : computeJac false bs L (freeParams bs L) none = .ok es) :
    es.map JEntry.param = List.range (freeParams bs L) := by
  rw [(jac_shape_and_entries bs L _ none es hL h).1]
  apply List.filter_eq_self.mpr
  intro p hp
  simp [indices, List.mem_range.mp hp]

-- non-vacuity: initial Hamiltonian, 2-term ParameterizedHamiltonian, fixed unitary, 2 layers, subset of indices
example : computeJac false [⟨.ham, 0, true⟩, ⟨.pham, 2, false⟩, ⟨.unitary, 0, false⟩] 2 5 (some [4, 0, 2, 2, 7]) =
    .ok [⟨0, 0, 0, 1, 0⟩, ⟨1, 1, 1, 2, 1⟩, ⟨3, 1, 3, 2, 1⟩] := by decide

/-! ## The matrix calculus: block derivatives are derivatives (Mathlib's matrix exponential) -/

/-- **`d/dθ exp(-iθH) = exp(-iθH) · (-iH) = (-iH) · exp(-iθH)`** for every complex square matrix `H`
of any size and every real `θ` — what `get_unitary_derivative` returns for a Hamiltonian block
(`self.get_unitary(angles) * -1j * self.operator`). -/
theorem ham_block_derivative {n : Type} [Fintype n] [DecidableEq n] (H : Matrix n n ℂ) (θ : ℝ) :
    HasDerivAt (fun t : ℝ => exp ((-Complex.I * (t : ℂ)) • H))
      (exp ((-Complex.I * (θ : ℂ)) • H) * ((-Complex.I) • H)) θ ∧
    exp ((-Complex.I * (θ : ℂ)) • H) * ((-Complex.I) • H) =
      ((-Complex.I) • H) * exp ((-Complex.I * (θ : ℂ)) • H) :=
  ⟨hasDerivAt_exp_ham H θ, exp_ham_comm H θ⟩

-- non-vacuity: a non-diagonal 2×2 generator
example : HasDerivAt (fun t : ℝ => exp ((-Complex.I * (t : ℂ)) • pauliX))
    (exp ((-Complex.I * ((0.3 : ℝ) : ℂ)) • pauliX) * ((-Complex.I) • pauliX)) 0.3 :=
  (ham_block_derivative _ _).1

/-- **Derivative of the matrix exponential in an arbitrary direction (Duhamel).**  For all complex
square matrices `A`, `E` — no commutation hypothesis — `t ↦ exp(A + t•E)` is differentiable at `0`
with derivative `expFrechet A E = ∫₀¹ exp(s•A) · E · exp((1-s)•A) ds`; this is the only possible
derivative; and when `A` and `E` commute it is `exp A · E = E · exp A`. -/
theorem exp_directional_derivative {n : Type} [Fintype n] [DecidableEq n] (A E : Matrix n n ℂ) :
    HasDerivAt (fun t : ℝ => exp (A + t • E)) (expFrechet A E) 0 ∧
    (∀ D, HasDerivAt (fun t : ℝ => exp (A + t • E)) D 0 → D = expFrechet A E) ∧
    (Commute A E → expFrechet A E = exp A * E ∧ expFrechet A E = E * exp A) :=
  ⟨hasDerivAt_exp_add_smul A E, fun D h => expFrechet_unique A E D h,
    fun h => ⟨expFrechet_of_commute A E h, expFrechet_of_commute' A E h⟩⟩

-- non-vacuity: a non-commuting pair
example : ¬ Commute pauliX pauliZ ∧
    HasDerivAt (fun t : ℝ => exp (pauliX + t • pauliZ)) (expFrechet pauliX pauliZ) 0 :=
  ⟨pauliXZ_not_commute, (exp_directional_derivative _ _).1⟩

open scoped Matrix.Norms.Operator in
/-- `expFrechet A E` is the Fréchet derivative of `exp` at `A` (w.r.t. the operator norm; all norms on
matrices are equivalent) applied to `E` — the mathematical quantity `scipy.linalg.expm_frechet(A, E)`
is documented to compute. -/
theorem expFrechet_is_fderiv {n : Type} [Fintype n] [DecidableEq n] (A E : Matrix n n ℂ) :
    DifferentiableAt ℝ (exp : Matrix n n ℂ → Matrix n n ℂ) A ∧
    fderiv ℝ (exp : Matrix n n ℂ → Matrix n n ℂ) A E = expFrechet A E :=
  ⟨exp_differentiableAt A, expFrechet_eq_fderiv A E⟩

/-- **For every kind of block, `get_unitary_derivative(args, term)` is the partial derivative of
`get_unitary(args)` with respect to `args[term]`**: Hamiltonian blocks (`exp(-iθH)`),
`ParameterizedHamiltonian` blocks (`exp(-i(Σ_j p_j H_j + C))`, derivative = `expFrechet` at
`-i(Σ p_j H_j + C)` in direction `-iH_term`, arbitrary non-commuting terms); fixed unitaries and
native gates have no parameter. -/
theorem block_derivative_is_partial {n : Type} [Fintype n] [DecidableEq n] (b : SBlock n)
    (args : List ℝ) (term : Nat) (hn : args.length = b.toBlock.nparams) (ht : term < b.toBlock.nparams) :
    MDeriv (fun t => b.unitary (args.set term t)) (b.dUnitary args term) (args.getD term 0) :=
  SBlock.mderiv b args term hn ht

-- non-vacuity: two non-commuting terms plus a constant term, derivative w.r.t. the second parameter
example : MDeriv (fun t => (SBlock.pham [pauliX, pauliZ] pauliY false).unitary
      ([0.3, 0.7].set 1 t))
    ((SBlock.pham [pauliX, pauliZ] pauliY false).dUnitary [0.3, 0.7] 1)
    0.7 := by
  have := block_derivative_is_partial
    (SBlock.pham [pauliX, pauliZ] pauliY false) [0.3, 0.7] 1 rfl
    (by simp [SBlock.toBlock, Block.nparams])
  simpa using this

/-- **The jacobian is the gradient.**  For every list of blocks (fixed unitaries, native gates,
Hamiltonian blocks `exp(-iθH)`, ParameterizedHamiltonian blocks with any number of arbitrary terms and
a constant term; any initial flags), every number of layers `L ≥ 1`, every parameter vector `θ`, every
`indices_to_compute`, every observable `O` and state `ψ`: whenever the (repaired) `compute_jac`
returns, it returns `es.map (jacValue …)` where

* the parameters of `es` are exactly the requested free parameters in increasing order, and
* for every entry `e`, `jacValue e` — the number the code computes as
  `cost_derivative(U, U_prods_back[n-1-k] · get_unitary_derivative(θ[start:start+n], term) · U_prods[k])` —
  **is the partial derivative with respect to parameter `e.param` of
  `θ ↦ Re ⟨ψ| U(θ)† O U(θ) |ψ⟩`**, `U(θ)` the ordered product of the propagators of
  `construct_circuit(θ)` (`HasDerivAt` in the coordinate `θ[e.param]`, all other coordinates fixed). -/
theorem jac_is_gradient {n : Type} [Fintype n] [DecidableEq n] (sbs : List (SBlock n)) (L : Nat)
    (θ : List ℝ) (idx : Option (List Int)) (es : List JEntry) (hL : 0 < L)
    (h : computeJac false (sbs.map SBlock.toBlock) L θ.length idx = .ok es)
    (O : Matrix n n ℂ) (ψ : n → ℂ) :
    es.map JEntry.param =
        (List.range (freeParams (sbs.map SBlock.toBlock) L)).filter
          (fun p => (indices θ.length idx).contains ((p : Nat) : Int)) ∧
    ∀ e ∈ es, e.param < θ.length ∧
      HasDerivAt (fun t => (costOf sbs L ψ O (θ.set e.param t)).re) (jacValue sbs L ψ O θ e)
        (θ.getD e.param 0) := by
  obtain ⟨hshape, hent⟩ := jac_shape_and_entries _ L _ idx es hL h
  refine ⟨hshape, fun e he => ?_⟩
  obtain ⟨jb, hget, hblk, _, hn, hstart, hterm⟩ := hent e he
  have hterm' : e.term < jb.2.nparams := hn ▸ hterm
  have hb := seriesErr_none_bound _ _ 0 (computeJac_ok h).1 e.k jb hget (by omega)
  rw [Nat.zero_add, ← hstart] at hb
  obtain ⟨P, hk, hset, hPθ, hP⟩ := entry_setup sbs L θ hL e.k e.term jb hget hterm' (by omega)
  rw [← hstart] at hset hPθ hP
  refine ⟨by unfold JEntry.param; omega, ?_⟩
  have hd := jac_entry_is_partial_derivative (props sbs L θ) e.k hk P _ _ hPθ hP O ψ
  unfold jacValue entryDeriv costOf JEntry.param
  rw [hblk, hn]
  simpa only [hset] using hd

-- non-vacuity: an initial Hamiltonian block, a two-term ParameterizedHamiltonian with non-commuting terms,
-- a fixed gate, two layers: 5 free parameters, indices {4, 0, 2} requested
example : computeJac false ((
      [SBlock.ham pauliX true, SBlock.pham [pauliX, pauliZ] 0 false,
       SBlock.fixed pauliX false] : List (SBlock (Fin 2))).map SBlock.toBlock) 2
      ([0.1, 0.2, 0.3, 0.4, 0.5] : List ℝ).length (some [4, 0, 2]) =
    .ok [⟨0, 0, 0, 1, 0⟩, ⟨1, 1, 1, 2, 1⟩, ⟨3, 1, 3, 2, 1⟩] := by decide

/-- With the default `indices_to_compute` and a vector of the right length: **entry `j` of the returned
jacobian is `∂/∂θ_j` of the cost, for every free parameter `j`**. -/
theorem jac_is_gradient_default {n : Type} [Fintype n] [DecidableEq n] (sbs : List (SBlock n)) (L : Nat)
    (θ : List ℝ) (es : List JEntry) (hL : 0 < L)
    (hθ : θ.length = freeParams (sbs.map SBlock.toBlock) L)
    (h : computeJac false (sbs.map SBlock.toBlock) L θ.length none = .ok es)
    (O : Matrix n n ℂ) (ψ : n → ℂ) :
    es.length = θ.length ∧
    ∀ j (hj : j < θ.length), ∃ e, es[j]? = some e ∧ e.param = j ∧
      HasDerivAt (fun t => (costOf sbs L ψ O (θ.set j t)).re)
        (((jacValues (· * ·) 1 (props sbs L θ) (entryDeriv sbs θ) (costDerivative ψ O) es)).getD j 0)
        θ[j] := by
  have hp : es.map JEntry.param = List.range θ.length := by
    rw [hθ] at h ⊢; exact jac_default_full _ L es hL h
  have hlen : es.length = θ.length := by simpa using congrArg List.length hp
  refine ⟨hlen, fun j hj => ?_⟩
  have hj' : j < es.length := by omega
  refine ⟨es[j], List.getElem?_eq_getElem hj', ?_, ?_⟩
  · have := congrArg (fun l => l[j]?) hp
    simpa [List.getElem?_eq_getElem hj', List.getElem?_range hj] using this
  · have hpj : es[j].param = j := by
      have := congrArg (fun l => l[j]?) hp
      simpa [List.getElem?_eq_getElem hj', List.getElem?_range hj] using this
    have := ((jac_is_gradient sbs L θ none es hL h O ψ).2 es[j] (List.getElem_mem hj')).2
    rw [hpj] at this
    rw [jacValues_eq, List.getD_eq_getElem?_getD, List.getElem?_map, List.getElem?_eq_getElem hj']
    simpa [List.getD_eq_getElem?_getD, List.getElem?_eq_getElem hj] using this

-- non-vacuity: 3 free parameters, vector of length 3, default indices
example : ([0.1, 0.2, 0.3] : List ℝ).length =
      freeParams (([SBlock.ham pauliX true, SBlock.pham [pauliX, pauliZ] pauliY false] :
        List (SBlock (Fin 2))).map SBlock.toBlock) 1 ∧
    computeJac false (([SBlock.ham pauliX true, SBlock.pham [pauliX, pauliZ] pauliY false] :
        List (SBlock (Fin 2))).map SBlock.toBlock) 1 ([0.1, 0.2, 0.3] : List ℝ).length none =
      .ok [⟨0, 0, 0, 1, 0⟩, ⟨1, 1, 1, 2, 0⟩, ⟨1, 1, 1, 2, 1⟩] := by decide

/-! ## The cost configuration -/

/-- **`compute_jac` never looks at `cost_method` / `cost_func`**: with an observable set it returns the
same entries (hence, by `jac_is_gradient`, the gradient of the *observable* expectation) whatever the
cost method; `evaluate_parameters` returns that observable expectation exactly for
`cost_method = "OBSERVABLE"`.  So the property concerns OBSERVABLE mode; in STATE / BITSTRING mode
`compute_jac` is not the gradient of `evaluate_parameters` (documented: "assuming the cost function is
in observable mode"). -/
theorem jac_ignores_cost_method (cm : CostMethod) (orig : Bool) (bs : List Block) (L m : Nat)
    (idx : Option (List Int)) (hasObs hasFunc : Bool) :
    computeJacCfg true cm orig bs L m idx = computeJac orig bs L m idx ∧
    (evalKind cm hasObs hasFunc = .ok true ↔ cm = .observable ∧ hasObs = true) := by
  refine ⟨rfl, ?_⟩
  cases cm <;> cases hasObs <;> cases hasFunc <;> simp [evalKind]

/-- Without `cost_observable` no jacobian entry is ever returned: `NotImplementedError` (or the earlier
errors) as soon as one free parameter is requested, the empty array otherwise. -/
theorem jac_without_observable (cm : CostMethod) (orig : Bool) (bs : List Block) (L m : Nat)
    (idx : Option (List Int)) (es : List JEntry)
    (h : computeJacCfg false cm orig bs L m idx = .ok es) : es = [] := by
  unfold computeJacCfg at h
  simp only [Bool.false_eq_true, ↓reduceIte] at h
  split at h
  · cases h
  · split at h
    · exact (Except.ok.inj h).symm
    · split at h <;> cases h

example : computeJacCfg false .state false [⟨.ham, 0, false⟩] 1 1 none = .error .noobs ∧
    computeJacCfg false .state false [⟨.ham, 0, false⟩] 1 1 (some []) = .ok [] ∧
    computeJacCfg true .bitstring false [⟨.ham, 0, false⟩] 1 1 none = .ok [⟨0, 0, 0, 1, 0⟩] := by decide

/-- **The loop as shipped (`computeJac true`) satisfies the same statement when every block has at
most one free parameter** — it then returns exactly what the repaired loop returns. -/
theorem jac_shape_and_entries_partial (bs : List Block) (L m : Nat) (idx : Option (List Int))
    (h1 : ∀ b ∈ bs, b.nparams ≤ 1) :
    computeJac true bs L m idx = computeJac false bs L m idx := by
  have hs : ∀ jb ∈ blockSeries bs L, jb.2.nparams ≤ 1 := fun jb hjb =>
    h1 jb.2 (List.mem_of_getElem? (blockSeries_mem hjb))
  simp [computeJac, jacLoopOrig_eq _ _ 0 0 hs]

example : (∀ b ∈ [(⟨.ham, 0, true⟩ : Block), ⟨.unitary, 0, false⟩, ⟨.ham, 0, false⟩], b.nparams ≤ 1) ∧
    computeJac true [⟨.ham, 0, true⟩, ⟨.unitary, 0, false⟩, ⟨.ham, 0, false⟩] 2 3 none =
      .ok [⟨0, 0, 0, 1, 0⟩, ⟨2, 2, 1, 1, 0⟩, ⟨4, 2, 2, 1, 0⟩] := by decide

/-- **Counter-example for the loop as shipped**: one block `ParameterizedHamiltonian([XX, ZI])`
(two parameterised terms), one layer, two angles, default indices: two free parameters but a single
jacobian entry (for term 0 only). -/
theorem C19_counterexample_orig :
    freeParams [⟨.pham, 2, false⟩] 1 = 2 ∧
    computeJac true [⟨.pham, 2, false⟩] 1 2 none = .ok [⟨0, 0, 0, 2, 0⟩] := by decide

/-- hence the shape statement is false for the loop as shipped -/
theorem C19_orig_refuted :
    ¬ ∀ (bs : List Block) (L : Nat) (es : List JEntry), 0 < L →
        computeJac true bs L (freeParams bs L) none = .ok es →
        es.map JEntry.param = List.range (freeParams bs L) := by
  intro h
  have := h [⟨.pham, 2, false⟩] 1 [⟨0, 0, 0, 2, 0⟩] (by decide) (by decide)
  revert this
  decide

end QipVerif.C19
