import QipVerif.Lemmas.TranspileRouteDen
import QipVerif.Lemmas.TranspileTotal
import QipVerif.Lemmas.TranspileSize
import QipVerif.Lemmas.TranspileRzx
/-!
# C13 — transpilation targets the device: native gates, coupled qubits, same unitary

Property theorems only.  `Gen.transpile dev N gs` is the model of `processor.transpile(qc).gates`
for the four devices, composed from the routing model of C07 and the decomposition model of C03
exactly as `ModelProcessor.transpile` composes the code (`Model/Transpile.lean`).  The devices'
native gate lists and topologies (`Gen.deviceSpec`), the rule tables (`Gen.gateRule`,
`Gen.basisRule`) and the shape of `transpile` itself (`Gen.preDecompose`) are REGENERATED from
/repo on every run.

The main theorems describe the code **after `fixes/C13-1.patch`** (gates on more than two qubits
are decomposed to CNOT + rotations before the topology mapping); `source_is_repaired` is the tie
to the source: it only type-checks when the regenerated `preDecompose` is `true`.  For the code as
found (`transpileV tables false`) the coupling clause is false — counter-examples at the end — and
`transpile_coupled_partial` is what holds of it.

Input class (`InClass N g`): a library gate as its gate class builds it (the number of controls
and targets of its name, `shapedB`), on pairwise distinct qubits `< N`, with one of the names the
library declares resolvable (`Decomp.resolvable`, C03's input class).  Every theorem is for every
register size `N`, every device and every circuit of such gates, with arbitrary angles.
-/
namespace QipVerif.C13
open QipVerif QipVerif.Decomp QipVerif.Gen QipVerif.Transpile Matrix

/-! ## the ties to the source -/

/-- the source has the repaired shape of `ModelProcessor.transpile` (regenerated flag) -/
theorem source_is_repaired : preDecompose = true := rfl

/-- the processor's native gate list (regenerated) -/
def native (dev : Device) : List GName := (deviceSpec dev).native.getD []

/-- what the property allows besides native gates -/
def markers : List GName := [.GLOBALPHASE, .IDLE]

/-- the couplings of the hardware as the property states them -/
def HwCoupled : Device → Nat → Nat → Nat → Prop
  | .linearSpinChain, _, i, j => j = i + 1 ∨ i = j + 1
  | .scQubits, _, i, j => j = i + 1 ∨ i = j + 1
  | .circularSpinChain, N, i, j => j = i + 1 ∨ i = j + 1 ∨ (i = 0 ∧ j + 1 = N) ∨ (j = 0 ∧ i + 1 = N)
  | .cavityQED, _, _, _ => True

/-- **decidable facts about the regenerated device tables**: every device has a native list, it is
a valid basis specification in the sense of C03, everything C03 allows in a result for it is a native
gate or a marker, and the topology handed to the router is the hardware's coupling graph -/
theorem native_valid (dev : Device) :
    (deviceSpec dev).native = some (native dev) ∧ C03.validBasis (.list (native dev)) = true ∧
    (C03.allowed (.list (native dev))).all (native dev ++ markers).contains = true ∧ TopoOK (deviceSpec dev) ∧
    ∀ N i j, coupledB (deviceSpec dev).topo N i j = true ↔ HwCoupled dev N i j := by
  cases dev
  · exact ⟨rfl, by decide, by decide, Or.inr (Or.inl rfl), fun N i j => by simp [deviceSpec, spec_LinearSpinChain, coupledB, HwCoupled]⟩
  · exact ⟨rfl, by decide, by decide, Or.inr (Or.inr rfl), fun N i j => by
      simp [deviceSpec, spec_CircularSpinChain, coupledB, HwCoupled, or_assoc]⟩
  · exact ⟨rfl, by decide, by decide, Or.inr (Or.inl rfl), fun N i j => by simp [deviceSpec, spec_SCQubits, coupledB, HwCoupled]⟩
  · exact ⟨rfl, by decide, by decide, Or.inl rfl, fun N i j => by simp [deviceSpec, spec_DispersiveCavityQED, coupledB, HwCoupled]⟩

example : native .linearSpinChain = [.SQRTISWAP, .ISWAP, .RX, .RZ] ∧ native .scQubits = [.RX, .RY, .CNOT, .RZX] ∧
    (deviceSpec .circularSpinChain).topo = some .circular ∧ (deviceSpec .cavityQED).topo = none := by decide

/-! ## table property: rules only address qubits of the gate they rewrite -/

/-- **rule_stays_on_qubits** (decided on the regenerated tables): in every `_gate_*` and `_basis_*`
rule, every selector of every emitted gate lies within the shape of the rewritten gate (so the rule
never raises on a library gate), the selectors of one emitted gate are pairwise distinct, and the
emitted gate has the number of controls/targets of its name. -/
theorem rule_stays_on_qubits :
    (∀ n body, gateRule n = .templ body → ruleOk n body = true) ∧
    (∀ y n body, basisRule y n = some body → ruleOk n body = true) :=
  ⟨gateRule_ok, basisRule_ok⟩

example : ruleOk .TOFFOLI gate_TOFFOLI = true ∧ ruleOk .SWAP basis_ISWAP_SWAP = true ∧
    ruleOk .CNOT [⟨.CNOT, [.t 0], [.t 1], ⟨0, 1, 0⟩⟩] = false := by decide

/-- **… hence a rule emits gates on qubits of the gate it rewrites, in library shape**: whatever a
rule body instantiates to on a library gate `g` acts on qubits of `g` only (a two-qubit rule emits
gates on the same two qubits) and consists of library gates on distinct in-range qubits. -/
theorem rule_shapes (N : Nat) (g : Gate) (hg : shapedB N g = true) (body : List TGate)
    (hr : gateRule g.name = .templ body ∨ ∃ y, basisRule y g.name = some body) :
    ∃ out, instBody g body = some out ∧
      ∀ h ∈ out, shapedB N h = true ∧ ∀ q ∈ h.qubits, q ∈ g.qubits := by
  have hok : ruleOk g.name body = true := by
    rcases hr with h | ⟨y, h⟩
    · exact gateRule_ok _ _ h
    · exact basisRule_ok y _ _ h
  have hall := ruleOk_all hg hok
  obtain ⟨out, ho⟩ := instBody_some hall
  refine ⟨out, ho, fun h hh => ?_⟩
  obtain ⟨t, ht, hti⟩ := instBody_mem ho h hh
  exact ⟨inst_shaped hg ((List.all_eq_true.mp hall) t ht) hti, inst_stays hti⟩

example : shapedB 5 ⟨.TOFFOLI, [4], [0, 2], {}⟩ = true ∧ gateRule .TOFFOLI = .templ gate_TOFFOLI := by decide

/-- **decomposition stays on the qubits** (by induction through `resolveAll` / `basisPass` /
`elim1q`): every gate of the output of `resolve_gates` acts on qubits of ONE gate of the input.
Holds for any basis specification and any rule tables: a template can only name qubits through
selectors into the rewritten gate. -/
theorem resolve_stays_on_qubits (T : Tables) (keep : Bool) (b : BasisSpec) (gs out : List Gate)
    (h : resolve T keep b gs = .ok out) : ∀ x ∈ out, ∃ g ∈ gs, ∀ q ∈ x.qubits, q ∈ g.qubits :=
  resolve_stays T h

example : (resolve tables true (.list [.SQRTISWAP, .ISWAP, .RX, .RZ])
      [⟨.CNOT, [3], [1], {}⟩, ⟨.SNOT, [0], [], {}⟩]).toOption.map
    (fun out => decide (out.length > 12) &&
      out.all fun x => x.qubits.all [1, 3].contains || x.qubits.all [0].contains) = some true := by
  decide

/-! ## the property, for the repaired source -/

/-- **transpile_native.**  Every gate of the transpiled circuit is a native gate of the processor or
a GLOBALPHASE / IDLE marker. -/
theorem transpile_native (dev : Device) (N : Nat) (gs out : List Gate) (hg : ∀ g ∈ gs, InClass N g)
    (h : transpile dev N gs = .ok out) : ∀ x ∈ out, (native dev ++ markers).contains x.name = true := by
  obtain ⟨hb, hv, hsub, ht, _⟩ := native_valid dev
  have h' : transpileV tables true (deviceSpec dev) N gs = .ok out := by rw [← source_is_repaired]; exact h
  obtain ⟨g1, hcls, h2⟩ := stages_fixed (by rw [hb]; rfl) ht hg h'
  intro x hx
  have := nativeStage_names hb hv (fun y hy => (hcls y hy).1.2) h2 x hx
  exact (List.all_eq_true.mp hsub) x.name (by simpa using this)

/-- **transpile_coupled.**  Any two distinct qubits of any gate of the transpiled circuit are
directly coupled by the hardware: neighbours on the open chain (LinearSpinChain, SCQubits),
neighbours or the wrap-around pair on the ring (CircularSpinChain), any pair through the cavity
(DispersiveCavityQED).  In particular every multi-qubit gate acts on coupled qubits.  Full strength:
three-qubit gates included. -/
theorem transpile_coupled (dev : Device) (N : Nat) (gs out : List Gate) (hg : ∀ g ∈ gs, InClass N g)
    (h : transpile dev N gs = .ok out) :
    ∀ x ∈ out, ∀ p ∈ x.qubits, ∀ q ∈ x.qubits, p ≠ q → HwCoupled dev N p q := by
  obtain ⟨hb, _, _, ht, hhw⟩ := native_valid dev
  have h' : transpileV tables true (deviceSpec dev) N gs = .ok out := by rw [← source_is_repaired]; exact h
  obtain ⟨g1, hcls, h2⟩ := stages_fixed (by rw [hb]; rfl) ht hg h'
  intro x hx p hp q hq hne
  have hc := nativeStage_coupled (fun y hy => (hcls y hy).2) h2 x hx
  exact (hhw N p q).mp ((coupled_iff _ N x).mp hc p hp q hq hne)

-- a concrete non-trivial instance: TOFFOLI(controls 0,1 → target 2) then a CNOT at distance 3
example : (∀ g ∈ [(⟨.TOFFOLI, [2], [0, 1], {}⟩ : Gate), ⟨.CNOT, [0], [3], {}⟩, ⟨.RX, [1], [], .symb 0⟩], InClass 4 g) ∧
    ((transpile .linearSpinChain 4
        [⟨.TOFFOLI, [2], [0, 1], {}⟩, ⟨.CNOT, [0], [3], {}⟩, ⟨.RX, [1], [], .symb 0⟩]).toOption.map
      (fun out => decide (out.length > 100) && out.all (gateCoupledB (some .linear) 4))) = some true := by
  constructor
  · intro g hg
    simp only [List.mem_cons, List.not_mem_nil, or_false] at hg
    rcases hg with rfl | rfl | rfl <;> exact ⟨by decide, by decide⟩
  · decide +kernel

/-- **transpile_coupled_partial** — the code as found (`pre = false`: route, then decompose).  The
coupling clause holds for circuits WITHOUT gates on more than two qubits. -/
theorem transpile_coupled_partial (dev : Device) (N : Nat) (gs out : List Gate) (hg : ∀ g ∈ gs, InClass N g)
    (h2q : ∀ g ∈ gs, g.qubits.length ≤ 2)
    (h : transpileV tables false (deviceSpec dev) N gs = .ok out) :
    ∀ x ∈ out, ∀ p ∈ x.qubits, ∀ q ∈ x.qubits, p ≠ q → HwCoupled dev N p q := by
  obtain ⟨_, _, _, ht, hhw⟩ := native_valid dev
  obtain ⟨g1, hcls, h2⟩ := stages_old ht hg h2q h
  intro x hx p hp q hq hne
  have hc := nativeStage_coupled (fun y hy => (hcls y hy).2) h2 x hx
  exact (hhw N p q).mp ((coupled_iff _ N x).mp hc p hp q hq hne)

example : (transpileV tables false (deviceSpec .circularSpinChain) 5 [⟨.CNOT, [0], [3], {}⟩]).toOption.map
    (fun out => out.all (gateCoupledB (some .circular) 5)) = some true := by decide +kernel

/-- **transpile_refuses.**  A circuit containing a library gate the device cannot express — its
name is refused by the native stage (`refusedName`: not a Pauli, not a native two-qubit gate, and its
decomposition rule raises or does not exist) — makes `transpile` raise; the gate is never passed
through.  Whatever else the circuit contains. -/
theorem transpile_refuses (dev : Device) (N : Nat) (gs : List Gate) (g : Gate) (hg : g ∈ gs)
    (hsh : shapedB N g = true) (hr : refusedName (native dev) g.name = true) :
    ∃ e, transpile dev N gs = .error e := by
  obtain ⟨hb, _, _, ht, _⟩ := native_valid dev
  exact transpileV_refuses preDecompose hb ht N gs g hg hsh hr

/-- what is refused: on every device SQRTSWAP, BERKELEY, SWAPalpha, controlled rotations, S, T, …;
on SCQubits also SQRTISWAP; never a resolvable gate the device has rules for -/
example : refusedName (native .linearSpinChain) .SQRTSWAP = true ∧ refusedName (native .cavityQED) .BERKELEY = true ∧
    refusedName (native .circularSpinChain) .CPHASE = true ∧ refusedName (native .scQubits) .SQRTISWAP = true ∧
    refusedName (native .scQubits) .RZX = false ∧ refusedName (native .linearSpinChain) .SQRTISWAP = false ∧
    refusedName (native .linearSpinChain) .TOFFOLI = false := by decide

example : ∃ e, transpile .scQubits 3 [⟨.RX, [0], [], .symb 0⟩, ⟨.SQRTISWAP, [2, 0], [], {}⟩] = .error e :=
  transpile_refuses .scQubits 3 _ ⟨.SQRTISWAP, [2, 0], [], {}⟩ (by simp) (by decide) (by decide)

/-- **transpile_accepts** — the other half of the decision: a circuit of the class none of whose gate
names is refused by the native stage is transpiled (no stage raises: the rule bodies instantiate on
library gates, the router is total on well-formed gates, everything the earlier stages emit is again
a library gate the device accepts).  Together with `transpile_refuses`: a circuit of the class is
refused **iff** it contains a gate with a refused name. -/
theorem transpile_accepts (dev : Device) (N : Nat) (gs : List Gate) (hg : ∀ g ∈ gs, InClass N g)
    (hacc : ∀ g ∈ gs, refusedName (native dev) g.name = false) : ∃ out, transpile dev N gs = .ok out := by
  obtain ⟨hb, _, _, ht, _⟩ := native_valid dev
  have key : ∃ b1 b2 inB, splitBasis (.list (native dev)) = .ok (b1, b2, inB) ∧
      ∀ n ∈ stageNames, dispatchOk b2 inB (pauliName n) = true := by
    cases dev <;> exact ⟨_, _, _, rfl, by decide⟩
  obtain ⟨b1, b2, inB, hs, hstage⟩ := key
  have he : transpile dev N gs = transpileV tables true (deviceSpec dev) N gs := by
    rw [← source_is_repaired]; rfl
  rw [he]
  exact transpileV_total hb hs ht hstage N gs hg (fun g hgm => by
    rw [← acceptedName_iff hs, accepted_iff_not_refused hs, hacc g hgm]; rfl)

example : (([.X, .Y, .Z, .SNOT, .SQRTNOT, .PHASEGATE, .RX, .RY, .RZ, .CNOT, .CSIGN, .SWAP, .ISWAP, .SQRTISWAP,
    .TOFFOLI, .FREDKIN, .GLOBALPHASE, .IDLE] : List GName).all fun n => !refusedName (native .linearSpinChain) n) = true := by decide

/-- **The routing stage over ℂ.**  `routeStage` (C07's router run on the converted circuit) preserves
the denotation of every circuit of shaped gates: C07's `toChain_den_C` transported along the conversion
of gate types (`interpC ∘ toRoute` identified with `semD`). -/
theorem routing_stage_den (N : ℕ) (ρ : ℕ → ℝ) (s : Route.Setup) (hs : s = .linear ∨ s = .circular)
    (gs out : List Gate) (hsh : ∀ g ∈ gs, shapedB N g = true) (h : routeStage N s gs = .ok out)
    (U : Matrix (St N) (St N) ℂ) (hU : denG N ρ gs = some U) : denG N ρ out = some U :=
  routeStageDen N ρ s gs out hs hsh h U hU

/-- **transpile_den.**  The transpiled circuit denotes exactly the unitary of the input circuit
(`denG`: ordered product of the embedded library matrices over ℂ, global phase included), for every
register size, every device, every circuit of the class that has a denotation and every valuation
`ρ` of the symbolic angles.  No hypothesis about matrices is left: the decomposition stages are
`C03.resolve_den_partial`, the routing stage is `routing_stage_den`.  `phOK`: a PHASEGATE with a
FIXED angle is a multiple of π/4 (limitation of the model's exact angle representation, see C03;
symbolic PHASEGATE angles are unrestricted). -/
theorem transpile_den (dev : Device) (N : ℕ) (ρ : ℕ → ℝ)
    (gs out : List Gate) (hg : ∀ g ∈ gs, InClass N g) (hph : ∀ g ∈ gs, phOK g = true)
    (h : transpile dev N gs = .ok out)
    (U : Matrix (St N) (St N) ℂ) (hU : denG N ρ gs = some U) : denG N ρ out = some U := by
  obtain ⟨hb, _, _, ht, _⟩ := native_valid dev
  exact transpileV_den preDecompose (routeStageDen N ρ) (by rw [hb]; rfl) ht hg hph
    (fun hpre => by rw [source_is_repaired] at hpre; cases hpre) h U hU

-- non-vacuity: a 4-qubit circuit with a three-qubit gate, a distant CNOT and a Pauli meets every hypothesis
example (ρ : ℕ → ℝ) :
    let gs : List Gate := [⟨.TOFFOLI, [2], [0, 1], {}⟩, ⟨.CNOT, [0], [3], {}⟩, ⟨.X, [1], [], {}⟩,
      ⟨.PHASEGATE, [3], [], .pi8 2⟩]
    (∀ g ∈ gs, InClass 4 g) ∧ (∀ g ∈ gs, phOK g = true) ∧
    (transpile .circularSpinChain 4 gs).toOption.isSome = true ∧ ∃ U, denG 4 ρ gs = some U := by
  refine ⟨?_, by decide, by decide +kernel, denG_isSome_of_denE 4 ρ _ (by decide) (by decide +kernel)⟩
  intro g hg
  simp only [List.mem_cons, List.not_mem_nil, or_false] at hg
  rcases hg with rfl | rfl | rfl | rfl <;> exact ⟨by decide, by decide⟩

-- `transpile_den` is one statement for all four device specifications; each of them accepts this
-- circuit (a distant CNOT, an ISWAP on the same pair, a Hadamard): LinearSpinChain and
-- CircularSpinChain (routed, basis SQRTISWAP/ISWAP/RX/RZ), SCQubits (routed on the open chain, basis
-- RX/RY/CNOT, RZX native but never produced) and DispersiveCavityQED (no routing stage at all)
example (ρ : ℕ → ℝ) (dev : Device) :
    let gs : List Gate := [⟨.CNOT, [2], [0], {}⟩, ⟨.ISWAP, [0, 2], [], {}⟩, ⟨.SNOT, [1], [], {}⟩]
    (∀ g ∈ gs, InClass 3 g) ∧ (∀ g ∈ gs, phOK g = true) ∧
    (transpile dev 3 gs).toOption.isSome = true ∧ ∃ U, denG 3 ρ gs = some U := by
  refine ⟨?_, by decide, by cases dev <;> decide +kernel, denG_isSome_of_denE 3 ρ _ (by decide) (by decide +kernel)⟩
  intro g hg
  simp only [List.mem_cons, List.not_mem_nil, or_false] at hg
  rcases hg with rfl | rfl | rfl <;> exact ⟨by decide, by decide⟩

example : (deviceSpec .scQubits).topo = some .linear ∧ (deviceSpec .cavityQED).topo = none ∧
    (deviceSpec .linearSpinChain).topo = some .linear ∧ (deviceSpec .circularSpinChain).topo = some .circular := by
  decide

/-- **… also for the code as found**, for circuits without gates on more than two qubits -/
theorem transpile_den_partial (dev : Device) (N : ℕ) (ρ : ℕ → ℝ)
    (gs out : List Gate) (hg : ∀ g ∈ gs, InClass N g) (hph : ∀ g ∈ gs, phOK g = true)
    (h2q : ∀ g ∈ gs, g.qubits.length ≤ 2)
    (h : transpileV tables false (deviceSpec dev) N gs = .ok out)
    (U : Matrix (St N) (St N) ℂ) (hU : denG N ρ gs = some U) : denG N ρ out = some U := by
  obtain ⟨hb, _, _, ht, _⟩ := native_valid dev
  exact transpileV_den false (routeStageDen N ρ) (by rw [hb]; rfl) ht hg hph (fun _ => h2q) h U hU

/-! ## the processor's register: circuits on fewer (or more) qubits than the device

`Gen.transpileOn dev M N gs` is `processor.transpile(qc).gates` for a processor with `M` qubits and a
circuit with `qc.N = N`; `transpile dev N gs` above is the case `M = N`.  The couplings the property
speaks about are those of the DEVICE (`HwCoupled dev M`).  The code as found routes with `qc.N`, so a
ring device closes the ring between the first and the last qubit *of the circuit* — which are not
coupled when the circuit is smaller than the ring — and nothing refuses a circuit that is larger than
the device.  `fixes/C13-2.patch`: `transpile` refuses `qc.N > num_qubits`, and `CircularSpinChain`
routes a smaller circuit on the open chain.  Both shapes of the source are modelled (`transpileD`), the
flags are REGENERATED (`sizeGuard`, `deviceSpecSmall`) and tied to the hand-written specs by `size_tie`. -/

/-- the device spec in force for a circuit on fewer qubits than the processor, after `fixes/C13-2.patch` -/
def smallSpec : Device → DeviceSpec
  | .circularSpinChain => ⟨(deviceSpec .circularSpinChain).native, some .linear⟩
  | d => deviceSpec d

/-- **tie to the source** (builds on both shapes of the source, fails on any other): with the size check
the regenerated table for smaller circuits is `smallSpec`, without it it is the device's own spec -/
theorem size_tie :
    (sizeGuard = true → ∀ dev, deviceSpecSmall dev = smallSpec dev) ∧
    (sizeGuard = false → ∀ dev, deviceSpecSmall dev = deviceSpec dev) := by
  refine ⟨fun h dev => ?_, fun h dev => ?_⟩ <;>
    first
      | (cases dev <;> rfl)
      | exact absurd h (by decide)

/-- `smallSpec` is a valid spec whose couplings, on a register smaller than the device, are couplings
of the device -/
theorem smallSpec_valid (dev : Device) :
    (smallSpec dev).native = some (native dev) ∧ TopoOK (smallSpec dev) ∧
    ∀ M N i j, N < M → i < N → j < N → coupledB (smallSpec dev).topo N i j = true → HwCoupled dev M i j := by
  cases dev
  · exact ⟨rfl, Or.inr (Or.inl rfl), fun M N i j _ _ _ h => by
      simpa [smallSpec, deviceSpec, spec_LinearSpinChain, coupledB, HwCoupled] using h⟩
  · exact ⟨rfl, Or.inr (Or.inl rfl), fun M N i j _ _ _ h => by
      have : j = i + 1 ∨ i = j + 1 := by simpa [smallSpec, coupledB] using h
      unfold HwCoupled; omega⟩
  · exact ⟨rfl, Or.inr (Or.inl rfl), fun M N i j _ _ _ h => by
      simpa [smallSpec, deviceSpec, spec_SCQubits, coupledB, HwCoupled] using h⟩
  · exact ⟨rfl, Or.inl rfl, fun M N i j _ _ _ _ => trivial⟩

/-- hence the regenerated `transpileOn` (the current source: its size check, its spec for smaller
circuits, its router `routeRzx`) is, for every circuit of the class, one of the two modelled
compositions — whichever router the source has (`transpileDR_eq`: a circuit without RZX is routed
identically by both) -/
theorem transpileOn_eq (dev : Device) (M N : Nat) (gs : List Gate) (hg : ∀ g ∈ gs, InClass N g) :
    (sizeGuard = true → transpileOn dev M N gs =
      transpileD tables preDecompose true (deviceSpec dev) (smallSpec dev) M N gs) ∧
    (sizeGuard = false → transpileOn dev M N gs =
      transpileD tables preDecompose false (deviceSpec dev) (deviceSpec dev) M N gs) := by
  have hn : (deviceSpec dev).native.isSome = true := by rw [(native_valid dev).1]; rfl
  refine ⟨fun h => ?_, fun h => ?_⟩
  · have hns : (smallSpec dev).native.isSome = true := by rw [(smallSpec_valid dev).1]; rfl
    simp only [transpileOn, h, size_tie.1 h dev]
    exact transpileDR_eq _ _ _ hn hns hg
  · simp only [transpileOn, h, size_tie.2 h dev]
    exact transpileDR_eq _ _ _ hn hn hg

/-- … and `transpile dev N gs`, which the theorems above are about, is the current source on every
circuit of the class -/
theorem transpile_is_source (dev : Device) (N : Nat) (gs : List Gate) (hg : ∀ g ∈ gs, InClass N g) :
    transpileVR tables preDecompose routeRzx (deviceSpec dev) N gs = transpile dev N gs :=
  transpileVR_eq _ _ (by rw [(native_valid dev).1]; rfl) hg

/-- **transpile_coupled_device** (with `fixes/C13-2.patch`): for a processor with `M` qubits and a
circuit of the class on `N ≤ M` qubits, any two distinct qubits of any gate of the transpiled circuit
are coupled **by the device** (`HwCoupled dev M`). -/
theorem transpile_coupled_device (dev : Device) (M N : Nat) (gs out : List Gate) (hg : ∀ g ∈ gs, InClass N g)
    (h : transpileD tables preDecompose true (deviceSpec dev) (smallSpec dev) M N gs = .ok out) :
    ∀ x ∈ out, ∀ p ∈ x.qubits, ∀ q ∈ x.qubits, p ≠ q → HwCoupled dev M p q := by
  obtain ⟨hle, hv⟩ := transpileD_ok h
  have hNM : N ≤ M := hle rfl
  by_cases hlt : N < M
  · rw [if_pos hlt, source_is_repaired] at hv
    obtain ⟨hb, ht, hhw⟩ := smallSpec_valid dev
    obtain ⟨g1, hcls, h2⟩ := stages_fixed (by rw [hb]; rfl) ht hg hv
    intro x hx p hp q hq hne
    have hc := nativeStage_coupled (fun y hy => (hcls y hy).2) h2 x hx
    -- every qubit of an output gate is a qubit of the register of the circuit
    have hin : ∀ r ∈ x.qubits, r < N := by
      obtain ⟨b, hbn⟩ : ∃ b, (smallSpec dev).native = some b := ⟨_, hb⟩
      have h2' : resolve tables true (.list b) g1 = .ok out := by
        unfold nativeStage at h2; rw [hbn] at h2; simp only at h2
        split at h2
        · rename_i o ho; cases h2; exact ho
        · cases h2
      obtain ⟨y, hy, hst⟩ := resolve_stays tables h2' x hx
      intro r hr
      have hsh := (hcls y hy).1.1
      simp only [shapedB, Bool.and_eq_true, List.all_eq_true, decide_eq_true_eq] at hsh
      exact hsh.2 r (hst r hr)
    exact hhw M N p q hlt (hin p hp) (hin q hq) ((coupled_iff _ N x).mp hc p hp q hq hne)
  · have hNM' : N = M := by omega
    subst hNM'
    rw [if_neg hlt] at hv
    exact transpile_coupled dev N gs out hg hv

-- a three-qubit circuit on rings of 3, 4 and 5 qubits: the ISWAP on (0, 2) stays on the wrap pair of the
-- 3-ring and is routed over qubit 1 on the larger rings
example :
    transpileD tables preDecompose true (deviceSpec .circularSpinChain) (smallSpec .circularSpinChain) 3 3
      [⟨.ISWAP, [0, 2], [], {}⟩] = .ok [⟨.ISWAP, [2, 0], [], {}⟩] ∧
    ((transpileD tables preDecompose true (deviceSpec .circularSpinChain) (smallSpec .circularSpinChain) 5 3
      [⟨.ISWAP, [0, 2], [], {}⟩]).toOption.map
        (fun out => decide (out.length > 5) && out.all (gateCoupledB (some .linear) 3))) = some true := by
  refine ⟨by decide +kernel, by decide +kernel⟩

/-- **a circuit on more qubits than the processor has is refused** (with `fixes/C13-2.patch`) -/
theorem transpile_refuses_large (dev : Device) (M N : Nat) (h : M < N) (gs : List Gate) :
    transpileD tables preDecompose true (deviceSpec dev) (smallSpec dev) M N gs = .error .size :=
  transpileD_large _ _ _ _ h gs

example : transpileD tables preDecompose true (deviceSpec .scQubits) (smallSpec .scQubits) 3 5
    [⟨.ISWAP, [0, 4], [], {}⟩] = .error .size := transpile_refuses_large .scQubits 3 5 (by decide) _

/-- **transpile_den_device**: the unitary (on the circuit's own register) is preserved whatever the
size of the processor -/
theorem transpile_den_device (dev : Device) (M N : ℕ) (ρ : ℕ → ℝ)
    (gs out : List Gate) (hg : ∀ g ∈ gs, InClass N g) (hph : ∀ g ∈ gs, phOK g = true)
    (h : transpileD tables preDecompose true (deviceSpec dev) (smallSpec dev) M N gs = .ok out)
    (U : Matrix (St N) (St N) ℂ) (hU : denG N ρ gs = some U) : denG N ρ out = some U := by
  obtain ⟨-, hv⟩ := transpileD_ok h
  by_cases hlt : N < M
  · rw [if_pos hlt] at hv
    obtain ⟨hb, ht, -⟩ := smallSpec_valid dev
    exact transpileV_den preDecompose (routeStageDen N ρ) (by rw [hb]; rfl) ht hg hph
      (fun hpre => by rw [source_is_repaired] at hpre; cases hpre) hv U hU
  · rw [if_neg hlt] at hv
    exact transpile_den dev N ρ gs out hg hph hv U hU

-- non-vacuity: a three-qubit circuit on the five-qubit ring meets every hypothesis
example (ρ : ℕ → ℝ) :
    let gs : List Gate := [⟨.ISWAP, [0, 2], [], {}⟩, ⟨.SNOT, [1], [], {}⟩, ⟨.CNOT, [0], [2], {}⟩]
    (∀ g ∈ gs, InClass 3 g) ∧ (∀ g ∈ gs, phOK g = true) ∧
    (transpileD tables preDecompose true (deviceSpec .circularSpinChain) (smallSpec .circularSpinChain) 5 3
      gs).toOption.isSome = true ∧ ∃ U, denG 3 ρ gs = some U := by
  refine ⟨?_, by decide, by decide +kernel, denG_isSome_of_denE 3 ρ _ (by decide) (by decide +kernel)⟩
  intro g hg
  simp only [List.mem_cons, List.not_mem_nil, or_false] at hg
  rcases hg with rfl | rfl | rfl <;> exact ⟨by decide, by decide⟩

/-- **the code as found** (no size check, the ring routed on `qc.N`): the coupling clause on the device's
graph holds when the circuit has the size of the processor, or is smaller and the device is not the
ring; nothing is said about larger circuits (they are not refused) -/
theorem transpile_coupled_device_partial (dev : Device) (M N : Nat) (gs out : List Gate)
    (hsz : N = M ∨ (N < M ∧ dev ≠ .circularSpinChain)) (hg : ∀ g ∈ gs, InClass N g)
    (h : transpileD tables preDecompose false (deviceSpec dev) (deviceSpec dev) M N gs = .ok out) :
    ∀ x ∈ out, ∀ p ∈ x.qubits, ∀ q ∈ x.qubits, p ≠ q → HwCoupled dev M p q := by
  obtain ⟨-, hv⟩ := transpileD_ok h
  rw [ite_self] at hv
  have hc := transpile_coupled dev N gs out hg hv
  rcases hsz with rfl | ⟨_, hd⟩
  · exact hc
  · intro x hx p hp q hq hne
    have := hc x hx p hp q hq hne
    cases dev
    · exact this
    · exact absurd rfl hd
    · exact this
    · trivial

-- instances of the side condition: the open chain with a smaller circuit is covered, the ring is not
example : (3 = 5 ∨ (3 < 5 ∧ Device.linearSpinChain ≠ .circularSpinChain)) ∧
    ¬ (3 = 5 ∨ (3 < 5 ∧ Device.circularSpinChain ≠ .circularSpinChain)) ∧
    ((transpileD tables preDecompose false (deviceSpec .linearSpinChain) (deviceSpec .linearSpinChain) 5 3
      [⟨.ISWAP, [0, 2], [], {}⟩]).toOption.map (fun out => out.all (gateCoupledB (some .linear) 5))) = some true := by
  refine ⟨Or.inr ⟨by decide, by decide⟩, by decide, by decide +kernel⟩

/-- counter-example for the code as found: a 3-qubit circuit on a ring of 4 qubits — `ISWAP[0, 2]` is the
wrap pair of a 3-ring, the router leaves it alone, and qubits 2 and 0 are not coupled on the 4-ring
(the compiler then drives the coupling `g0`).  Confirmed on the real code. -/
theorem C13_counterexample_small_circuit_on_ring :
    InClass 3 ⟨.ISWAP, [0, 2], [], {}⟩ ∧
    transpileD tables preDecompose false (deviceSpec .circularSpinChain) (deviceSpec .circularSpinChain) 4 3
      [⟨.ISWAP, [0, 2], [], {}⟩] = .ok [⟨.ISWAP, [2, 0], [], {}⟩] ∧
    ¬ HwCoupled .circularSpinChain 4 2 0 := by
  refine ⟨⟨by decide, by decide⟩, by decide +kernel, by unfold HwCoupled; omega⟩

/-- … and a 5-qubit circuit on a 3-qubit processor is let through with a gate on qubit 4 -/
theorem C13_counterexample_large_circuit :
    transpileD tables preDecompose false (deviceSpec .cavityQED) (deviceSpec .cavityQED) 3 5
      [⟨.ISWAP, [0, 4], [], {}⟩] = .ok [⟨.ISWAP, [0, 4], [], {}⟩] := by decide +kernel

/-! ## RZX — native on SCQubits, not one of the resolvable gates

`SCQubits.native_gates` lists RZX.  The router as found does not know the name and `resolve_gates` keeps a
gate whose name is in the basis, so `SCQubits(3).transpile` returned RZX on targets [0, 2] unrouted — an
accepted circuit with a two-qubit gate on qubits the open chain does not couple (`load_circuit` then
raises `KeyError: 'zx02'`).  `fixes/C13-3.patch` makes `to_chain_structure` route RZX (C07:
`route_shape_ord`, `route_den_C` — the two targets keep their order, RZX is not symmetric).  The router
of the source is REGENERATED (`routeRzx`); `transpileVR tables pre rz` models both.  For the class of
the theorems above (no RZX) the router is irrelevant (`transpile_is_source`).  With RZX admitted to the
class (`InClassX`): -/

/-- **transpile_coupled_rzx** (with `fixes/C13-3.patch`): circuits of resolvable gates AND RZX — every two
distinct qubits of every gate of the transpiled circuit are coupled by the hardware. -/
theorem transpile_coupled_rzx (dev : Device) (N : Nat) (gs out : List Gate) (hg : ∀ g ∈ gs, InClassX N g)
    (h : transpileVR tables preDecompose true (deviceSpec dev) N gs = .ok out) :
    ∀ x ∈ out, ∀ p ∈ x.qubits, ∀ q ∈ x.qubits, p ≠ q → HwCoupled dev N p q := by
  obtain ⟨hb, _, _, ht, hhw⟩ := native_valid dev
  rw [source_is_repaired] at h
  obtain ⟨g1, hcls, h2⟩ := stagesR_fixed (by rw [hb]; rfl) ht hg h
  intro x hx p hp q hq hne
  have hc := nativeStage_coupled (fun y hy => (hcls y hy).2) h2 x hx
  exact (hhw N p q).mp ((coupled_iff _ N x).mp hc p hp q hq hne)

-- SCQubits(3), RZX on targets [0, 2] then [2, 0] and a Hadamard: accepted, RZX comes out on neighbours with
-- its targets in their order; the spin chains (RZX not native) refuse the circuit
example :
    (∀ g ∈ [(⟨.RZX, [0, 2], [], {}⟩ : Gate), ⟨.RZX, [2, 0], [], {}⟩, ⟨.SNOT, [1], [], {}⟩], InClassX 3 g) ∧
    ((transpileVR tables preDecompose true (deviceSpec .scQubits) 3
        [⟨.RZX, [0, 2], [], {}⟩, ⟨.RZX, [2, 0], [], {}⟩, ⟨.SNOT, [1], [], {}⟩]).toOption.map
      (fun out => out.all (gateCoupledB (some .linear) 3) && out.contains ⟨.RZX, [1, 2], [], {}⟩ &&
        out.contains ⟨.RZX, [2, 1], [], {}⟩)) = some true ∧
    (transpileVR tables preDecompose true (deviceSpec .linearSpinChain) 3 [⟨.RZX, [0, 2], [], {}⟩]).toOption = none ∧
    (transpileVR tables preDecompose true (deviceSpec .cavityQED) 3 [⟨.RZX, [0, 2], [], {}⟩]).toOption = none := by
  refine ⟨?_, by decide +kernel, by decide +kernel, by decide +kernel⟩
  intro g hg
  simp only [List.mem_cons, List.not_mem_nil, or_false] at hg
  rcases hg with rfl | rfl | rfl
  · exact ⟨by decide, Or.inr rfl⟩
  · exact ⟨by decide, Or.inr rfl⟩
  · exact ⟨by decide, Or.inl (by decide)⟩

/-- counter-example for the router as found (`rz = false`): SCQubits, 3 qubits, RZX on targets [0, 2] is
accepted and returned as it is — on qubits the open chain does not couple.  Confirmed on the real code. -/
theorem C13_counterexample_rzx_unrouted :
    InClassX 3 ⟨.RZX, [0, 2], [], {}⟩ ∧
    transpileVR tables preDecompose false (deviceSpec .scQubits) 3 [⟨.RZX, [0, 2], [], {}⟩] =
      .ok [⟨.RZX, [0, 2], [], {}⟩] ∧
    ¬ HwCoupled .scQubits 3 0 2 := by
  refine ⟨⟨by decide, Or.inr rfl⟩, by decide +kernel, by unfold HwCoupled; omega⟩

/-! ## the code as found violates the coupling clause — concrete witnesses

Each is confirmed on the real code by the oracle of `py/props/c13.py`; repaired by `fixes/C13-1.patch`. -/

/-- LinearSpinChain, 3 qubits, TOFFOLI(controls 0, 1 → target 2): the router passes the gate
through, the decomposition then emits `ISWAP` on the non-neighbouring qubits `(0, 2)`. -/
theorem C13_counterexample_toffoli_linear :
    InClass 3 ⟨.TOFFOLI, [2], [0, 1], {}⟩ ∧
    (match transpileV tables false (deviceSpec .linearSpinChain) 3 [⟨.TOFFOLI, [2], [0, 1], {}⟩] with
     | .ok out => out.contains ⟨.ISWAP, [0, 2], [], {}⟩ && out.any (fun x => !gateCoupledB (some .linear) 3 x)
     | .error _ => false) = true ∧
    ¬ HwCoupled .linearSpinChain 3 0 2 := by
  refine ⟨⟨by decide, by decide⟩, by decide +kernel, by unfold HwCoupled; omega⟩

/-- CircularSpinChain, 4 qubits (on 3 qubits `(0, 2)` is the wrap-around pair): same gate, `ISWAP` on `(0, 2)`. -/
theorem C13_counterexample_toffoli_ring :
    (match transpileV tables false (deviceSpec .circularSpinChain) 4 [⟨.TOFFOLI, [2], [0, 1], {}⟩] with
     | .ok out => out.contains ⟨.ISWAP, [0, 2], [], {}⟩
     | .error _ => false) = true ∧
    ¬ HwCoupled .circularSpinChain 4 0 2 := by
  refine ⟨by decide +kernel, by unfold HwCoupled; omega⟩

/-- SCQubits, 3 qubits, FREDKIN(control 1, targets 0, 2): `CNOT` between qubits 0 and 2. -/
theorem C13_counterexample_fredkin_scqubits :
    (match transpileV tables false (deviceSpec .scQubits) 3 [⟨.FREDKIN, [0, 2], [1], {}⟩] with
     | .ok out => out.contains ⟨.CNOT, [0], [2], {}⟩
     | .error _ => false) = true ∧
    ¬ HwCoupled .scQubits 3 2 0 := by
  refine ⟨by decide +kernel, by unfold HwCoupled; omega⟩

/-- the same witnesses through the repaired composition: every gate on coupled qubits (instances of
`transpile_coupled`, evaluated) -/
theorem toffoli_repaired :
    ((transpile .linearSpinChain 3 [⟨.TOFFOLI, [2], [0, 1], {}⟩]).toOption.map
      (fun out => out.all (gateCoupledB (some .linear) 3))) = some true ∧
    ((transpile .circularSpinChain 4 [⟨.TOFFOLI, [2], [0, 1], {}⟩]).toOption.map
      (fun out => out.all (gateCoupledB (some .circular) 4))) = some true ∧
    ((transpile .scQubits 3 [⟨.FREDKIN, [0, 2], [1], {}⟩]).toOption.map
      (fun out => out.all (gateCoupledB (some .linear) 3))) = some true := by
  refine ⟨by decide +kernel, by decide +kernel, by decide +kernel⟩

end QipVerif.C13
