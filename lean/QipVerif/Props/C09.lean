import QipVerif.Gen.GatePaths
import QipVerif.Lemmas.GateC
import QipVerif.Model.Circuit
/-!
# C09 — library gates are unitary, match their documented matrix, and are path-independent

`Gen.G.*` are the gate functions of operations/gates.py translated from the CURRENT source on
every run; `Gen.G.path_*` (Gen/GatePaths.lean, one theorem per gate name offered by both lookup
paths, statement generated from the regenerated name→function tables) say that
`Gate(name).get_compact_qobj()` and `GATE_CLASS_MAP[name](…).get_compact_qobj()` denote the same
matrix for all parameter values.  Here: unitarity and documented form for all parameters, the
fixed gates in exact arithmetic, and the block structure of the dedicated controlled gates.
-/
namespace QipVerif.C09
open QipVerif QipVerif.Gen QipVerif.GateC Complex Matrix

theorem hc_conj (θ : ℝ) : (starRingEnd ℂ) (hc θ) = hc θ := by
  unfold hc
  rw [show ((θ : ℂ) / 2) = ((θ / 2 : ℝ) : ℂ) by push_cast; ring, ← Complex.ofReal_cos, Complex.conj_ofReal]
theorem hs_conj (θ : ℝ) : (starRingEnd ℂ) (hs θ) = hs θ := by
  unfold hs
  rw [show ((θ : ℂ) / 2) = ((θ / 2 : ℝ) : ℂ) by push_cast; ring, ← Complex.ofReal_sin, Complex.conj_ofReal]

theorem rx_unitary (θ : ℝ) : (G.rx_ θ)ᴴ * G.rx_ θ = 1 := by
  rw [rx_eq]
  have h := hc_sq_add_hs_sq θ
  have hI : I * I = -1 := Complex.I_mul_I
  ext i j
  fin_cases i <;> fin_cases j <;>
    simp [Matrix.mul_apply, Fin.sum_univ_two, Matrix.conjTranspose_apply, hc_conj, hs_conj] <;>
    first | ring1 | linear_combination h - (hs θ * hs θ) * hI

theorem ry_unitary (θ : ℝ) : (G.ry_ θ)ᴴ * G.ry_ θ = 1 := by
  rw [ry_eq]
  have h := hc_sq_add_hs_sq θ
  ext i j
  fin_cases i <;> fin_cases j <;>
    simp [Matrix.mul_apply, Fin.sum_univ_two, Matrix.conjTranspose_apply, hc_conj, hs_conj] <;>
    first | ring1 | linear_combination h

theorem rz_unitary (θ : ℝ) : (G.rz_ θ)ᴴ * G.rz_ θ = 1 := by
  rw [rz_eq]
  have h := hc_sq_add_hs_sq θ
  have hI : I * I = -1 := Complex.I_mul_I
  ext i j
  fin_cases i <;> fin_cases j <;>
    simp [Matrix.mul_apply, Fin.sum_univ_two, Matrix.conjTranspose_apply, hc_conj, hs_conj] <;>
    first | ring1 | linear_combination h - (hs θ * hs θ) * hI

theorem phasegate_unitary (θ : ℝ) : (G.phasegate_ θ)ᴴ * G.phasegate_ θ = 1 := by
  have h2 : Complex.exp (Complex.I * (θ : ℂ)) = (hc θ + I * hs θ) * (hc θ + I * hs θ) := phase_eq_sq θ
  have h := hc_sq_add_hs_sq θ
  have hI : I * I = -1 := Complex.I_mul_I
  unfold G.phasegate_
  rw [h2]
  ext i j
  fin_cases i <;> fin_cases j <;>
    simp [Matrix.mul_apply, Fin.sum_univ_two, Matrix.conjTranspose_apply, hc_conj, hs_conj] <;>
    first | ring1 | linear_combination (hc θ * hc θ + hs θ * hs θ + 1) * h - (2 * (hc θ * hc θ + hs θ * hs θ) * (hs θ * hs θ) - (I * I + 1) * (hs θ * hs θ) ^ 2) * hI

/-- documented form: RX(θ) = cos(θ/2)·1 − i·sin(θ/2)·X  (likewise RY, RZ) -/
theorem rx_doc (θ : ℝ) : G.rx_ θ = hc θ • (1 : Matrix (Fin 2) (Fin 2) ℂ) - (I * hs θ) • G.x_gate_ := by
  rw [rx_eq]; ext i j; fin_cases i <;> fin_cases j <;> simp [G.x_gate_]
theorem ry_doc (θ : ℝ) : G.ry_ θ = hc θ • (1 : Matrix (Fin 2) (Fin 2) ℂ) - (I * hs θ) • G.y_gate_ := by
  have hI : I * I = -1 := Complex.I_mul_I
  rw [ry_eq]; ext i j; fin_cases i <;> fin_cases j <;> simp [G.y_gate_] <;> cring
theorem rz_doc (θ : ℝ) : G.rz_ θ = hc θ • (1 : Matrix (Fin 2) (Fin 2) ℂ) - (I * hs θ) • G.z_gate_ := by
  rw [rz_eq]; ext i j; fin_cases i <;> fin_cases j <;> simp [G.z_gate_]

/-- `qasmu_gate([θ, φ, λ]) = RZ(φ)·RY(θ)·RZ(λ)` — the OpenQASM definition of U(θ,φ,λ) -/
theorem qasmu_def (θ φ γ : ℝ) : G.qasmu_gate_ θ φ γ = G.rz_ φ * G.ry_ θ * G.rz_ γ := rfl

theorem unitary_mul {n : ℕ} (A B : Matrix (Fin n) (Fin n) ℂ) (hA : Aᴴ * A = 1) (hB : Bᴴ * B = 1) :
    (A * B)ᴴ * (A * B) = 1 := by
  rw [Matrix.conjTranspose_mul, Matrix.mul_assoc, ← Matrix.mul_assoc Aᴴ, hA, Matrix.one_mul, hB]

theorem qasmu_unitary (θ φ γ : ℝ) : (G.qasmu_gate_ θ φ γ)ᴴ * G.qasmu_gate_ θ φ γ = 1 := by
  rw [qasmu_def]
  exact unitary_mul _ _ (unitary_mul _ _ (rz_unitary φ) (ry_unitary θ)) (rz_unitary γ)

theorem snot_unitary : (G.snot_)ᴴ * G.snot_ = 1 := by
  have h2 : ((Real.sqrt 2 : ℝ) : ℂ) * ((Real.sqrt 2 : ℝ) : ℂ) = 2 := by
    rw [← Complex.ofReal_mul, Real.mul_self_sqrt (by norm_num)]; norm_num
  have hne : ((Real.sqrt 2 : ℝ) : ℂ) ≠ 0 := by
    intro h0; rw [h0] at h2; norm_num at h2
  unfold G.snot_
  ext i j
  fin_cases i <;> fin_cases j <;>
    simp [Matrix.mul_apply, Fin.sum_univ_two, Matrix.conjTranspose_apply, Complex.conj_ofReal] <;>
    field_simp <;> first | ring1 | linear_combination h2 | linear_combination (-1 : ℂ) * h2

/-- SQRTNOT is a square root of X -/
theorem sqrtnot_sq : G.sqrtnot_ * G.sqrtnot_ = G.x_gate_ := by
  have hI : I * I = -1 := Complex.I_mul_I
  unfold G.sqrtnot_ G.x_gate_
  ext i j
  fin_cases i <;> fin_cases j <;> simp [Matrix.mul_apply, Fin.sum_univ_two] <;> cring

/-! ## Fixed gates, decided in exact arithmetic ℤ[ζ₁₆][1/2] (the exact library is compared with the
implementation over all names and all angle residues by the correspondence) -/

def fixedNames : List GName :=
  [.X, .Y, .Z, .S, .T, .SNOT, .SQRTNOT, .IDLE, .CNOT, .CSIGN, .CZ, .CY, .CS, .CT, .SWAP, .ISWAP, .SQRTSWAP,
   .SQRTISWAP, .BERKELEY, .FREDKIN, .TOFFOLI]
def rotNames : List GName := [.RX, .RY, .RZ, .PHASEGATE, .CRX, .CRY, .CRZ, .CPHASE]

def isUnitaryE (m : Nat) (U : DMat) : Bool :=
  DMat.eqv (DMat.mul (2 ^ m) (DMat.dagger (2 ^ m) U) U) (DMat.ident (2 ^ m))

def unitaryAt (n : GName) (n8 : Int) : Bool :=
  match gateE n n8 with
  | some (m, U) => isUnitaryE m U
  | none => false

/-- every fixed gate of the library, and every rotation / controlled rotation at each of the 16
multiples of π/4, is unitary — exact arithmetic, decided by the kernel -/
theorem fixed_gates_unitary :
    (fixedNames.all (fun n => unitaryAt n 0) &&
     rotNames.all (fun n => (List.range 16).all (fun k => unitaryAt n (2 * (k : Int))))) = true := by
  decide +kernel

def sqE (m : Nat) (a b : GName) : Bool :=
  match gateE a 0, gateE b 0 with
  | some (_, A), some (_, B) => DMat.eqv (DMat.mul (2 ^ m) A A) B
  | _, _ => false

/-- SQRTNOT² = X, SQRTSWAP² = SWAP, SQRTISWAP² = ISWAP, T² = S, S² = Z, SNOT² = 1 -/
theorem sqrt_relations :
    (sqE 1 .SQRTNOT .X && sqE 2 .SQRTSWAP .SWAP && sqE 2 .SQRTISWAP .ISWAP && sqE 1 .T .S && sqE 1 .S .Z
      && sqE 1 .SNOT .IDLE) = true := by
  decide +kernel

/-! ## Controlled gates -/
open QipVerif.GatePath

/-- the dedicated controlled gates are the block matrices `1 ⊕ U` of their target gate -/
theorem controlled_fixed_block :
    G.cnot_ = ctrl G.x_gate_ ∧ G.csign_ = ctrl G.z_gate_ ∧ G.cy_gate_ = ctrl G.y_gate_ ∧
    G.cz_gate_ = ctrl G.z_gate_ ∧ G.cs_gate_ = ctrl G.s_gate_ ∧ G.ct_gate_ = ctrl G.t_gate_ := by
  refine ⟨?_, ?_, ?_, ?_, ?_, ?_⟩ <;> gate_path_tac


/-- the one-control block `ctrl U` applies `U` exactly when the control is 1 (entrywise statement) -/
theorem ctrl_apply (U : Matrix (Fin 2) (Fin 2) ℂ) :
    (∀ i j : Fin 2, ctrl U ⟨i.val, by omega⟩ ⟨j.val, by omega⟩ = if i = j then 1 else 0) ∧
    (∀ i j : Fin 2, ctrl U ⟨2 + i.val, by omega⟩ ⟨2 + j.val, by omega⟩ = U i j) ∧
    (∀ i j : Fin 2, ctrl U ⟨i.val, by omega⟩ ⟨2 + j.val, by omega⟩ = 0 ∧ ctrl U ⟨2 + i.val, by omega⟩ ⟨j.val, by omega⟩ = 0) := by
  refine ⟨?_, ?_, ?_⟩ <;> intro i j <;> fin_cases i <;> fin_cases j <;> simp [ctrl]

end QipVerif.C09
