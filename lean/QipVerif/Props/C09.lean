import QipVerif.Gen.GatePaths
import QipVerif.Lemmas.GateC
import QipVerif.Lemmas.GateDoc
import QipVerif.Lemmas.GateCtrl
import QipVerif.Lemmas.GateExact
import QipVerif.Lemmas.GateCtor
import QipVerif.Gen.GateCtor
import QipVerif.Lemmas.CircHeap
import QipVerif.Model.Circuit
/-!
# C09 — library gates are unitary, match their documented matrix, and are path-independent

`Gen.G.*` are the gate functions of operations/gates.py translated from the CURRENT source on
every run; `Gen.G.path_*` (Gen/GatePaths.lean, one theorem per gate name offered by both lookup
paths, statement generated from the regenerated name→function tables) say that
`Gate(name).get_compact_qobj()` and `GATE_CLASS_MAP[name](…).get_compact_qobj()` denote the same
matrix for all parameter values.  Here: unitarity and documented form for all parameters, the
fixed gates in exact arithmetic, and the block structure of the dedicated controlled gates.

Second part (below `## Documented forms …`): the documented definitions of R, MS, RZX, BERKELEY, SWAPα, iSWAP, CPHASE and the
rotations as matrix exponentials, unitarity of EVERY generated gate over ℂ for all parameters, `controlled_gate` for every
number of controls / control value / single-qubit U / injective placement (model `Ctrl.controlledGate` of the code's
block_diag + expand_operator construction, composed with C08), and the names each lookup path offers.
-/
namespace QipVerif.C09
open QipVerif QipVerif.Gen QipVerif.GateC Complex Matrix

theorem hc_conj (θ : ℝ) : (starRingEnd ℂ) (hc θ) = hc θ := by
  unfold hc
  rw [show ((θ : ℂ) / 2) = ((θ / 2 : ℝ) : ℂ) by push_cast; ring, ← Complex.ofReal_cos, Complex.conj_ofReal]
theorem hs_conj (θ : ℝ) : (starRingEnd ℂ) (hs θ) = hs θ := by
  unfold hs
  rw [show ((θ : ℂ) / 2) = ((θ / 2 : ℝ) : ℂ) by push_cast; ring, ← Complex.ofReal_sin, Complex.conj_ofReal]

theorem rx_unitary (θ : ℝ) : (G.rx_ θ)ᴴ * G.rx_ θ = 1 := by
  rw [rx_eq]
  have h := hc_sq_add_hs_sq θ
  have hI : I * I = -1 := Complex.I_mul_I
  ext i j
  fin_cases i <;> fin_cases j <;>
    simp [Matrix.mul_apply, Fin.sum_univ_two, Matrix.conjTranspose_apply, hc_conj, hs_conj] <;>
    first | ring1 | linear_combination h - (hs θ * hs θ) * hI

theorem ry_unitary (θ : ℝ) : (G.ry_ θ)ᴴ * G.ry_ θ = 1 := by
  rw [ry_eq]
  have h := hc_sq_add_hs_sq θ
  ext i j
  fin_cases i <;> fin_cases j <;>
    simp [Matrix.mul_apply, Fin.sum_univ_two, Matrix.conjTranspose_apply, hc_conj, hs_conj] <;>
    first | ring1 | linear_combination h

theorem rz_unitary (θ : ℝ) : (G.rz_ θ)ᴴ * G.rz_ θ = 1 := by
  rw [rz_eq]
  have h := hc_sq_add_hs_sq θ
  have hI : I * I = -1 := Complex.I_mul_I
  ext i j
  fin_cases i <;> fin_cases j <;>
    simp [Matrix.mul_apply, Fin.sum_univ_two, Matrix.conjTranspose_apply, hc_conj, hs_conj] <;>
    first | ring1 | linear_combination h - (hs θ * hs θ) * hI

theorem phasegate_unitary (θ : ℝ) : (G.phasegate_ θ)ᴴ * G.phasegate_ θ = 1 := by
  have h2 : Complex.exp (Complex.I * (θ : ℂ)) = (hc θ + I * hs θ) * (hc θ + I * hs θ) := phase_eq_sq θ
  have h := hc_sq_add_hs_sq θ
  have hI : I * I = -1 := Complex.I_mul_I
  unfold G.phasegate_
  rw [h2]
  ext i j
  fin_cases i <;> fin_cases j <;>
    simp [Matrix.mul_apply, Fin.sum_univ_two, Matrix.conjTranspose_apply, hc_conj, hs_conj] <;>
    first | ring1 | linear_combination (hc θ * hc θ + hs θ * hs θ + 1) * h - (2 * (hc θ * hc θ + hs θ * hs θ) * (hs θ * hs θ) - (I * I + 1) * (hs θ * hs θ) ^ 2) * hI

/-- documented form: RX(θ) = cos(θ/2)·1 − i·sin(θ/2)·X  (likewise RY, RZ) -/
theorem rx_doc (θ : ℝ) : G.rx_ θ = hc θ • (1 : Matrix (Fin 2) (Fin 2) ℂ) - (I * hs θ) • G.x_gate_ := by
  rw [rx_eq]; ext i j; fin_cases i <;> fin_cases j <;> simp [G.x_gate_]
theorem ry_doc (θ : ℝ) : G.ry_ θ = hc θ • (1 : Matrix (Fin 2) (Fin 2) ℂ) - (I * hs θ) • G.y_gate_ := by
  have hI : I * I = -1 := Complex.I_mul_I
  rw [ry_eq]; ext i j; fin_cases i <;> fin_cases j <;> simp [G.y_gate_] <;> cring
theorem rz_doc (θ : ℝ) : G.rz_ θ = hc θ • (1 : Matrix (Fin 2) (Fin 2) ℂ) - (I * hs θ) • G.z_gate_ := by
  rw [rz_eq]; ext i j; fin_cases i <;> fin_cases j <;> simp [G.z_gate_]

/-- `qasmu_gate([θ, φ, λ]) = RZ(φ)·RY(θ)·RZ(λ)` — the OpenQASM definition of U(θ,φ,λ) -/
theorem qasmu_def (θ φ γ : ℝ) : G.qasmu_gate_ θ φ γ = G.rz_ φ * G.ry_ θ * G.rz_ γ := rfl

theorem unitary_mul {n : ℕ} (A B : Matrix (Fin n) (Fin n) ℂ) (hA : Aᴴ * A = 1) (hB : Bᴴ * B = 1) :
    (A * B)ᴴ * (A * B) = 1 := by
  rw [Matrix.conjTranspose_mul, Matrix.mul_assoc, ← Matrix.mul_assoc Aᴴ, hA, Matrix.one_mul, hB]

theorem qasmu_unitary (θ φ γ : ℝ) : (G.qasmu_gate_ θ φ γ)ᴴ * G.qasmu_gate_ θ φ γ = 1 := by
  rw [qasmu_def]
  exact unitary_mul _ _ (unitary_mul _ _ (rz_unitary φ) (ry_unitary θ)) (rz_unitary γ)

theorem snot_unitary : (G.snot_)ᴴ * G.snot_ = 1 := by
  have h2 : ((Real.sqrt 2 : ℝ) : ℂ) * ((Real.sqrt 2 : ℝ) : ℂ) = 2 := by
    rw [← Complex.ofReal_mul, Real.mul_self_sqrt (by norm_num)]; norm_num
  have hne : ((Real.sqrt 2 : ℝ) : ℂ) ≠ 0 := by
    intro h0; rw [h0] at h2; norm_num at h2
  unfold G.snot_
  ext i j
  fin_cases i <;> fin_cases j <;>
    simp [Matrix.mul_apply, Fin.sum_univ_two, Matrix.conjTranspose_apply, Complex.conj_ofReal] <;>
    field_simp <;> first | ring1 | linear_combination h2 | linear_combination (-1 : ℂ) * h2

/-- SQRTNOT is a square root of X -/
theorem sqrtnot_sq : G.sqrtnot_ * G.sqrtnot_ = G.x_gate_ := by
  have hI : I * I = -1 := Complex.I_mul_I
  unfold G.sqrtnot_ G.x_gate_
  ext i j
  fin_cases i <;> fin_cases j <;> simp [Matrix.mul_apply, Fin.sum_univ_two] <;> cring

/-! ## Fixed gates, decided in exact arithmetic ℤ[ζ₁₆][1/2] (the exact library is compared with the
implementation over all names and all angle residues by the correspondence) -/

def fixedNames : List GName :=
  [.X, .Y, .Z, .S, .T, .SNOT, .SQRTNOT, .IDLE, .CNOT, .CSIGN, .CZ, .CY, .CS, .CT, .SWAP, .ISWAP, .SQRTSWAP,
   .SQRTISWAP, .BERKELEY, .FREDKIN, .TOFFOLI]
def rotNames : List GName := [.RX, .RY, .RZ, .PHASEGATE, .CRX, .CRY, .CRZ, .CPHASE]

def isUnitaryE (m : Nat) (U : DMat) : Bool :=
  DMat.eqv (DMat.mul (2 ^ m) (DMat.dagger (2 ^ m) U) U) (DMat.ident (2 ^ m))

def unitaryAt (n : GName) (n8 : Int) : Bool :=
  match gateE n n8 with
  | some (m, U) => isUnitaryE m U
  | none => false

/-- every fixed gate of the library, and every rotation / controlled rotation at each of the 16
multiples of π/4, is unitary — exact arithmetic, decided by the kernel -/
theorem fixed_gates_unitary :
    (fixedNames.all (fun n => unitaryAt n 0) &&
     rotNames.all (fun n => (List.range 16).all (fun k => unitaryAt n (2 * (k : Int))))) = true := by
  decide +kernel

def sqE (m : Nat) (a b : GName) : Bool :=
  match gateE a 0, gateE b 0 with
  | some (_, A), some (_, B) => DMat.eqv (DMat.mul (2 ^ m) A A) B
  | _, _ => false

/-- SQRTNOT² = X, SQRTSWAP² = SWAP, SQRTISWAP² = ISWAP, T² = S, S² = Z, SNOT² = 1 -/
theorem sqrt_relations :
    (sqE 1 .SQRTNOT .X && sqE 2 .SQRTSWAP .SWAP && sqE 2 .SQRTISWAP .ISWAP && sqE 1 .T .S && sqE 1 .S .Z
      && sqE 1 .SNOT .IDLE) = true := by
  decide +kernel

/-! ## Controlled gates -/
open QipVerif.GatePath

/-- the dedicated controlled gates are the block matrices `1 ⊕ U` of their target gate -/
theorem controlled_fixed_block :
    G.cnot_ = ctrl G.x_gate_ ∧ G.csign_ = ctrl G.z_gate_ ∧ G.cy_gate_ = ctrl G.y_gate_ ∧
    G.cz_gate_ = ctrl G.z_gate_ ∧ G.cs_gate_ = ctrl G.s_gate_ ∧ G.ct_gate_ = ctrl G.t_gate_ := by
  refine ⟨?_, ?_, ?_, ?_, ?_, ?_⟩ <;> gate_path_tac


/-- the one-control block `ctrl U` applies `U` exactly when the control is 1 (entrywise statement) -/
theorem ctrl_apply (U : Matrix (Fin 2) (Fin 2) ℂ) :
    (∀ i j : Fin 2, ctrl U ⟨i.val, by omega⟩ ⟨j.val, by omega⟩ = if i = j then 1 else 0) ∧
    (∀ i j : Fin 2, ctrl U ⟨2 + i.val, by omega⟩ ⟨2 + j.val, by omega⟩ = U i j) ∧
    (∀ i j : Fin 2, ctrl U ⟨i.val, by omega⟩ ⟨2 + j.val, by omega⟩ = 0 ∧ ctrl U ⟨2 + i.val, by omega⟩ ⟨j.val, by omega⟩ = 0) := by
  refine ⟨?_, ?_, ?_⟩ <;> intro i j <;> fin_cases i <;> fin_cases j <;> simp [ctrl]


/-! ## Documented forms for all parameters: rotations about an involution and their exponentials -/
open QipVerif.GateDoc QipVerif.GateKron

/-- every rotation gate is `rotOf A θ = cos(θ/2)·1 − i·sin(θ/2)·A` for its axis `A` (an involution), and `rotOf A θ` is
the matrix exponential `exp(−i·θ/2·A)` -/
theorem rotOf_is_exp {n : ℕ} (A : Matrix (Fin n) (Fin n) ℂ) (hA : A * A = 1) (θ : ℝ) :
    rotOf A θ = NormedSpace.exp ((-(I * ((θ : ℂ) / 2))) • A) := rotOf_eq_exp A hA θ

theorem rx_exp (θ : ℝ) : G.rx_ θ = NormedSpace.exp ((-(I * ((θ : ℂ) / 2))) • G.x_gate_) := by
  rw [← rotOf_eq_exp _ x_sq]; exact rx_doc θ
theorem ry_exp (θ : ℝ) : G.ry_ θ = NormedSpace.exp ((-(I * ((θ : ℂ) / 2))) • G.y_gate_) := by
  rw [← rotOf_eq_exp _ y_sq]; exact ry_doc θ
theorem rz_exp (θ : ℝ) : G.rz_ θ = NormedSpace.exp ((-(I * ((θ : ℂ) / 2))) • G.z_gate_) := by
  rw [← rotOf_eq_exp _ z_sq]; exact rz_doc θ

/-- R gate (`qrot`): R(θ, φ) = cos(θ/2)·1 − i·sin(θ/2)·(cos φ·X + sin φ·Y) = exp(−iθ/2·(cos φ·X + sin φ·Y)) -/
theorem qrot_doc (θ φ : ℝ) :
    G.qrot_ θ φ = hc θ • (1 : Matrix (Fin 2) (Fin 2) ℂ) - (I * hs θ) • (ec φ • G.x_gate_ + es φ • G.y_gate_) :=
  GateDoc.qrot_doc θ φ
theorem qrot_exp (θ φ : ℝ) :
    G.qrot_ θ φ = NormedSpace.exp ((-(I * ((θ : ℂ) / 2))) • (ec φ • G.x_gate_ + es φ • G.y_gate_)) := by
  rw [GateDoc.qrot_doc, rotOf_eq_exp _ (axis_sq φ)]; rfl
theorem qrot_unitary (θ φ : ℝ) : (G.qrot_ θ φ)ᴴ * G.qrot_ θ φ = 1 := by
  rw [GateDoc.qrot_doc]; exact rotOf_unitary _ (axis_herm φ) (axis_sq φ) θ
example : G.qrot_ Real.pi 0 = -I • G.x_gate_ := by
  rw [GateDoc.qrot_doc]; unfold rotOf axis ec es
  rw [hc_pi, hs_pi]; simp

/-- Mølmer–Sørensen gate: MS(θ, φ) = exp(−iθ/2·n⊗n), n = cos φ·X + sin φ·Y, and the 4×4 matrix of the docstring -/
theorem ms_doc (θ φ : ℝ) :
    G.molmer_sorensen_ θ φ = hc θ • (1 : Matrix (Fin 4) (Fin 4) ℂ) -
      (I * hs θ) • kron2 (ec φ • G.x_gate_ + es φ • G.y_gate_) (ec φ • G.x_gate_ + es φ • G.y_gate_) :=
  GateDoc.ms_doc θ φ
theorem ms_exp (θ φ : ℝ) :
    G.molmer_sorensen_ θ φ = NormedSpace.exp ((-(I * ((θ : ℂ) / 2))) •
      kron2 (ec φ • G.x_gate_ + es φ • G.y_gate_) (ec φ • G.x_gate_ + es φ • G.y_gate_)) := by
  rw [GateDoc.ms_doc, rotOf_eq_exp _ (kron2_sq _ _ (axis_sq φ) (axis_sq φ))]; rfl
/-- the matrix written in the docstring of the class `MS` -/
theorem ms_doc_matrix (θ φ : ℝ) :
    G.molmer_sorensen_ θ φ =
      !![hc θ, 0, 0, -I * Complex.exp (-I * 2 * φ) * hs θ;
         0, hc θ, -I * hs θ, 0;
         0, -I * hs θ, hc θ, 0;
         -I * Complex.exp (I * 2 * φ) * hs θ, 0, 0, hc θ] := rfl
theorem ms_unitary (θ φ : ℝ) : (G.molmer_sorensen_ θ φ)ᴴ * G.molmer_sorensen_ θ φ = 1 := by
  rw [GateDoc.ms_doc]
  exact rotOf_unitary _ (kron2_herm _ _ (axis_herm φ) (axis_herm φ)) (kron2_sq _ _ (axis_sq φ) (axis_sq φ)) θ

/-- RZX (class method with a literal matrix, `Gen.G.cls_RZX_`): RZX(θ) = exp(−iθ/2·Z⊗X) and the docstring matrix -/
theorem rzx_doc (θ : ℝ) :
    G.cls_RZX_ θ = hc θ • (1 : Matrix (Fin 4) (Fin 4) ℂ) - (I * hs θ) • kron2 G.z_gate_ G.x_gate_ :=
  GateDoc.rzx_doc θ
theorem rzx_exp (θ : ℝ) : G.cls_RZX_ θ = NormedSpace.exp ((-(I * ((θ : ℂ) / 2))) • kron2 G.z_gate_ G.x_gate_) := by
  rw [GateDoc.rzx_doc, rotOf_eq_exp _ (kron2_sq _ _ z_sq x_sq)]
theorem rzx_doc_matrix (θ : ℝ) :
    G.cls_RZX_ θ = !![hc θ, -I * hs θ, 0, 0; -I * hs θ, hc θ, 0, 0; 0, 0, hc θ, I * hs θ; 0, 0, I * hs θ, hc θ] := rfl
theorem rzx_unitary (θ : ℝ) : (G.cls_RZX_ θ)ᴴ * G.cls_RZX_ θ = 1 := by
  rw [GateDoc.rzx_doc]
  exact rotOf_unitary _ (kron2_herm _ _ z_herm x_herm) (kron2_sq _ _ z_sq x_sq) θ

/-- BERKELEY: the documented matrix in cos π/8, sin π/8, cos 3π/8, sin 3π/8; it is exp(i·π/8·(2·X⊗X + Y⊗Y)); unitary -/
theorem berkeley_doc :
    G.berkeley_ = !![c8, 0, 0, I * s8; 0, c38, I * s38, 0; 0, I * s38, c38, 0; I * s8, 0, 0, c8] := berkeley_eq
theorem berkeley_exp :
    G.berkeley_ = NormedSpace.exp ((I * (Real.pi : ℂ) / 8) •
      ((2 : ℂ) • kron2 G.x_gate_ G.x_gate_ + kron2 G.y_gate_ G.y_gate_)) := GateDoc.berkeley_exp
theorem berkeley_unitary : (G.berkeley_)ᴴ * G.berkeley_ = 1 := GateDoc.berkeley_unitary

/-- SWAPα: documented form, unitarity, group law, SWAPα(0) = 1, SWAPα(½) = √SWAP, SWAPα(1) = SWAP -/
theorem swapalpha_doc (α : ℝ) :
    G.swapalpha_ α = !![1, 0, 0, 0;
      0, 1 / 2 * (1 + Complex.exp (I * Real.pi * α)), 1 / 2 * (1 - Complex.exp (I * Real.pi * α)), 0;
      0, 1 / 2 * (1 - Complex.exp (I * Real.pi * α)), 1 / 2 * (1 + Complex.exp (I * Real.pi * α)), 0;
      0, 0, 0, 1] := rfl
theorem swapalpha_mix (α : ℝ) :
    G.swapalpha_ α = (1 / 2 * (1 + Complex.exp (I * Real.pi * α))) • (1 : Matrix (Fin 4) (Fin 4) ℂ) +
      (1 / 2 * (1 - Complex.exp (I * Real.pi * α))) • G.swap_ := GateDoc.swapalpha_doc α
theorem swapalpha_unitary (α : ℝ) : (G.swapalpha_ α)ᴴ * G.swapalpha_ α = 1 := GateDoc.swapalpha_unitary α
theorem swapalpha_mul (α β : ℝ) : G.swapalpha_ α * G.swapalpha_ β = G.swapalpha_ (α + β) := GateDoc.swapalpha_mul α β
theorem swapalpha_special :
    G.swapalpha_ 0 = 1 ∧ G.swapalpha_ (1 / 2) = G.sqrtswap_ ∧ G.swapalpha_ 1 = G.swap_ :=
  ⟨swapalpha_zero, swapalpha_half, swapalpha_one⟩

/-- the square-root gates over ℂ (generated matrices): √SWAP² = SWAP, √iSWAP² = iSWAP -/
theorem sqrtswap_sq : G.sqrtswap_ * G.sqrtswap_ = G.swap_ := GateDoc.sqrtswap_sq
theorem sqrtiswap_sq : G.sqrtiswap_ * G.sqrtiswap_ = G.iswap_ := GateDoc.sqrtiswap_sq

/-- iSWAP = ½(1 + Z⊗Z) + (i/2)(X⊗X + Y⊗Y), and the docstring matrix -/
theorem iswap_doc : G.iswap_ = (1 / 2 : ℂ) • (1 + kron2 G.z_gate_ G.z_gate_) +
    (I / 2) • (kron2 G.x_gate_ G.x_gate_ + kron2 G.y_gate_ G.y_gate_) := GateDoc.iswap_doc
theorem iswap_doc_matrix : G.iswap_ = !![1, 0, 0, 0; 0, 0, I, 0; 0, I, 0, 0; 0, 0, 0, 1] := rfl

/-- `cphase(θ)` (translated construction |1⟩⟨1|⊗phasegate(θ) + |0⟩⟨0|⊗1, N = 2, control 0, target 1) is the controlled
phase gate, i.e. the docstring matrix diag(1, 1, 1, e^{iθ}) -/
theorem cphase_eq_ctrl (θ : ℝ) : G.cphase_ θ = ctrl (G.phasegate_ θ) := GateDoc.cphase_eq_ctrl θ
theorem cphase_doc_matrix (θ : ℝ) :
    G.cphase_ θ = !![1, 0, 0, 0; 0, 1, 0, 0; 0, 0, 1, 0; 0, 0, 0, Complex.exp (I * θ)] := by
  rw [GateDoc.cphase_eq_ctrl]
  ext i j; fin_cases i <;> fin_cases j <;> simp [ctrl, G.phasegate_]

/-! ## Unitarity of every generated gate over ℂ -/

/-- `ctrl U` is unitary when `U` is -/
theorem ctrl_unitary (U : Matrix (Fin 2) (Fin 2) ℂ) (h : Uᴴ * U = 1) : (ctrl U)ᴴ * ctrl U = 1 := GateDoc.ctrl_unitary U h

/-- every parametric gate offered by a lookup path is unitary for ALL parameter values -/
theorem parametric_gates_unitary (θ φ γ : ℝ) :
    (G.rx_ θ)ᴴ * G.rx_ θ = 1 ∧ (G.ry_ θ)ᴴ * G.ry_ θ = 1 ∧ (G.rz_ θ)ᴴ * G.rz_ θ = 1 ∧
    (G.phasegate_ θ)ᴴ * G.phasegate_ θ = 1 ∧ (G.qrot_ θ φ)ᴴ * G.qrot_ θ φ = 1 ∧
    (G.qasmu_gate_ θ φ γ)ᴴ * G.qasmu_gate_ θ φ γ = 1 ∧ (G.swapalpha_ θ)ᴴ * G.swapalpha_ θ = 1 ∧
    (G.molmer_sorensen_ θ φ)ᴴ * G.molmer_sorensen_ θ φ = 1 ∧ (G.cls_RZX_ θ)ᴴ * G.cls_RZX_ θ = 1 ∧
    (G.cphase_ θ)ᴴ * G.cphase_ θ = 1 ∧
    (ctrl (G.rx_ θ))ᴴ * ctrl (G.rx_ θ) = 1 ∧ (ctrl (G.ry_ θ))ᴴ * ctrl (G.ry_ θ) = 1 ∧
    (ctrl (G.rz_ θ))ᴴ * ctrl (G.rz_ θ) = 1 :=
  ⟨rx_unitary θ, ry_unitary θ, rz_unitary θ, phasegate_unitary θ, qrot_unitary θ φ, qasmu_unitary θ φ γ,
   swapalpha_unitary θ, ms_unitary θ φ, rzx_unitary θ,
   by rw [GateDoc.cphase_eq_ctrl]; exact GateDoc.ctrl_unitary _ (phasegate_unitary θ),
   GateDoc.ctrl_unitary _ (rx_unitary θ), GateDoc.ctrl_unitary _ (ry_unitary θ), GateDoc.ctrl_unitary _ (rz_unitary θ)⟩

/-- every fixed gate function of gates.py (generated matrix over ℂ) is unitary -/
theorem fixed_gates_unitary_C :
    (G.x_gate_)ᴴ * G.x_gate_ = 1 ∧ (G.y_gate_)ᴴ * G.y_gate_ = 1 ∧ (G.z_gate_)ᴴ * G.z_gate_ = 1 ∧
    (G.s_gate_)ᴴ * G.s_gate_ = 1 ∧ (G.t_gate_)ᴴ * G.t_gate_ = 1 ∧ (G.snot_)ᴴ * G.snot_ = 1 ∧
    (G.sqrtnot_)ᴴ * G.sqrtnot_ = 1 ∧ (G.cnot_)ᴴ * G.cnot_ = 1 ∧ (G.csign_)ᴴ * G.csign_ = 1 ∧
    (G.cy_gate_)ᴴ * G.cy_gate_ = 1 ∧ (G.cz_gate_)ᴴ * G.cz_gate_ = 1 ∧ (G.cs_gate_)ᴴ * G.cs_gate_ = 1 ∧
    (G.ct_gate_)ᴴ * G.ct_gate_ = 1 ∧ (G.swap_)ᴴ * G.swap_ = 1 ∧ (G.iswap_)ᴴ * G.iswap_ = 1 ∧
    (G.sqrtswap_)ᴴ * G.sqrtswap_ = 1 ∧ (G.sqrtiswap_)ᴴ * G.sqrtiswap_ = 1 ∧ (G.berkeley_)ᴴ * G.berkeley_ = 1 ∧
    (G.fredkin_)ᴴ * G.fredkin_ = 1 ∧ (G.toffoli_)ᴴ * G.toffoli_ = 1 :=
  ⟨x_unitary, y_unitary, z_unitary, s_unitary, t_unitary, snot_unitary, sqrtnot_unitary, cnot_unitary, csign_unitary,
   cy_unitary, cz_unitary, cs_unitary, ct_unitary, swap_unitary, iswap_unitary, sqrtswap_unitary, sqrtiswap_unitary,
   GateDoc.berkeley_unitary, fredkin_unitary, toffoli_unitary⟩

/-! ## `controlled_gate` in general: every number of controls, control value, single-qubit U, injective placement

`Ctrl.controlledGate` (Model/Ctrl.lean) is the model of the code's construction: `block_diag` with
`block_matrices[control_value] = U` on flat indices, `Qobj(dims=[[2]*(m+1)]*2)`, then `expand_operator` with targets =
controls + targets unless that list is already `range(N)`; `ctrlN m v U` is the same block matrix as an operator on
`(ℂ²)^{⊗(m+1)}` (controls first, first control most significant, target last). -/
open QipVerif.Ctrl

/-- **Matrix element of a controlled gate**, for every number `m` of controls, every control value `v`, every
single-qubit `U` and every injective placement `T` of (controls, target) on `N` qubits: `U` between the target bits
when the control bits of `x` hold `v` (identity on the target otherwise), times δ on the controls and on all other qubits -/
theorem controlled_apply {m N : ℕ} (T : Tg (m + 1) N) (v : ℕ) (U : Matrix (Fin 2) (Fin 2) ℂ) (x y : St N) :
    T.embed (ctrlN m v U) x y =
      (if (fun i : Fin m => x (T.f i.castSucc)) = (fun i : Fin m => y (T.f i.castSucc)) then
        (if enc (fun i : Fin m => x (T.f i.castSucc)) = v then U (x (T.f (Fin.last m))) (y (T.f (Fin.last m)))
         else if x (T.f (Fin.last m)) = y (T.f (Fin.last m)) then 1 else 0)
       else 0) * (if ∀ i, i ∉ Set.range T.f → x i = y i then 1 else 0) := by
  rw [Tg.embed_apply, ctrlN_apply]; rfl

/-- … and it is unitary whenever `U` is -/
theorem controlled_unitary {m N : ℕ} (T : Tg (m + 1) N) (v : ℕ) (U : Matrix (Fin 2) (Fin 2) ℂ) (h : Uᴴ * U = 1) :
    (T.embed (ctrlN m v U))ᴴ * T.embed (ctrlN m v U) = 1 :=
  Tg.embed_unitary T _ (ctrlN_unitary m v U h)

/-- `ctrlN` is multiplicative in `U` (so are its placements): controlled-(UV) = controlled-U · controlled-V -/
theorem controlled_mul {m N : ℕ} (T : Tg (m + 1) N) (v : ℕ) (U V : Matrix (Fin 2) (Fin 2) ℂ) :
    T.embed (ctrlN m v (U * V)) = T.embed (ctrlN m v U) * T.embed (ctrlN m v V) := by
  rw [← ctrlN_mul, Tg.embed_mul]

/-- the 4×4 block `ctrl U` used by the path theorems (CRX, CRY, CRZ, CY, CS, CT, CPHASE) is the case m = 1, v = 1 -/
theorem ctrl_is_ctrlN (U : Matrix (Fin 2) (Fin 2) ℂ) (a c : St 2) :
    ctrlN 1 1 U a c = ctrl U ⟨enc a, enc_lt a⟩ ⟨enc c, enc_lt c⟩ := ctrlN_one_control U a c

/-- **The code's construction computes it** (list level, for every `U`): for controls `cs`, target `t`, register size
`N` (given or defaulted to m+1), control value `v < 2^m`, `cs ++ [t]` duplicate-free and in range — and whichever
argument the compatibility line tests — `controlled_gate` succeeds on `N` qubits and its element between basis
states `x`, `y` is the specification `Ctrl.specEntry` -/
theorem controlled_gate_spec (ct : Which) (cs : List ℕ) (t N v : ℕ) (N? : Option ℕ) (hN : N?.getD (cs.length + 1) = N)
    (hn : (cs ++ [t]).Nodup) (hr : ∀ q ∈ cs ++ [t], q < N) (hv : v < 2 ^ cs.length) :
    ∃ r, controlledGate ct (.list (cs.map Int.ofNat)) (.list [Int.ofNat t]) N? (v : Int) = .ok r ∧ r.K = N ∧
      ∀ x y, Bits N x → Bits N y → r.entry x y = Ctrl.specEntry N cs t v x y := by
  rw [controlledGate_lists]; exact build_spec cs t N v N? hN hn hr hv

example : ∃ r, controlledGate .targets (.list [3, 0]) (.list [1]) (some 4) 2 = .ok r ∧ r.K = 4 ∧
    r.entry [0, 1, 0, 1] [0, 0, 0, 1] = .u 1 0 ∧ r.entry [1, 1, 0, 1] [1, 0, 0, 1] = .zero ∧
    r.entry [1, 1, 0, 1] [1, 1, 0, 1] = .one := ⟨_, rfl, rfl, by decide, by decide, by decide⟩

/-- … and over ℂ: the code's result is `ctrlN` placed on the qubits (controls…, target), hence unitary for unitary `U` -/
theorem controlled_gate_model (ct : Which) (cs : List ℕ) (t N v : ℕ) (N? : Option ℕ) (U : Matrix (Fin 2) (Fin 2) ℂ)
    (hN : N?.getD (cs.length + 1) = N) (hn : (cs ++ [t]).Nodup) (hr : ∀ q ∈ cs ++ [t], q < N) (hv : v < 2 ^ cs.length) :
    ∃ r, controlledGate ct (.list (cs.map Int.ofNat)) (.list [Int.ofNat t]) N? (v : Int) = .ok r ∧ r.K = N ∧
      (Matrix.of fun x y : St N => evalC U (r.entry (bitsL x) (bitsL y))) =
        (tgQ N (cs ++ [t]) cs.length (by simp) hn hr).embed (ctrlN cs.length v U) := by
  obtain ⟨r, h1, h2, h3⟩ := controlled_gate_spec ct cs t N v N? hN hn hr hv
  refine ⟨r, h1, h2, ?_⟩
  ext x y
  have bx : ∀ z : St N, Bits N (bitsL z) := fun z =>
    ⟨bitsL_length z, fun e he => by
      simp only [bitsL, List.mem_ofFn] at he; obtain ⟨i, rfl⟩ := he; exact (z i).isLt⟩
  rw [Matrix.of_apply, h3 _ _ (bx x) (bx y), spec_eq_embed N cs t v U hn hr x y]

theorem controlled_gate_unitary (ct : Which) (cs : List ℕ) (t N v : ℕ) (N? : Option ℕ) (U : Matrix (Fin 2) (Fin 2) ℂ)
    (hN : N?.getD (cs.length + 1) = N) (hn : (cs ++ [t]).Nodup) (hr : ∀ q ∈ cs ++ [t], q < N) (hv : v < 2 ^ cs.length)
    (hU : Uᴴ * U = 1) :
    ∃ r, controlledGate ct (.list (cs.map Int.ofNat)) (.list [Int.ofNat t]) N? (v : Int) = .ok r ∧
      (Matrix.of fun x y : St N => evalC U (r.entry (bitsL x) (bitsL y)))ᴴ *
        (Matrix.of fun x y : St N => evalC U (r.entry (bitsL x) (bitsL y))) = 1 := by
  obtain ⟨r, h1, _, h3⟩ := controlled_gate_model ct cs t N v N? U hN hn hr hv
  exact ⟨r, h1, by rw [h3]; exact controlled_unitary _ v U hU⟩

/-- argument shapes: two bare integers behave as two one-element lists; negative control values wrap once
(Python indexing); a control value outside [−2^m, 2^m) is refused -/
theorem controlled_gate_shapes (ct : Which) (c t : Int) (cs ts : List Int) (N? : Option ℕ) (v : Int) (k : ℕ) :
    controlledGate ct (.scalar c) (.scalar t) N? v = controlledGate ct (.list [c]) (.list [t]) N? v ∧
    (0 < k → k ≤ 2 ^ cs.length →
      controlledGate ct (.list cs) (.list ts) N? (-(k : Int)) =
        controlledGate ct (.list cs) (.list ts) N? ((2 ^ cs.length - k : ℕ) : Int)) ∧
    ((((2 ^ cs.length : ℕ) : Int) ≤ v ∨ v < -((2 ^ cs.length : ℕ) : Int)) →
      controlledGate ct (.list cs) (.list ts) N? v = .error .blockIndex) := by
  refine ⟨by rw [controlledGate_scalars, controlledGate_lists], fun h1 h2 => ?_, fun h => ?_⟩
  · rw [controlledGate_lists, controlledGate_lists]; exact build_negative cs ts N? k h1 h2
  · rw [controlledGate_lists]; exact build_rejects_value cs ts N? v h

/-- **Mixed argument shapes** (a bare integer for one of `controls`/`targets`, a list for the other).  The source tests
`targets` in BOTH compatibility lines (`cTest = .targets`, regenerated into `Gen.GF.ctrlCompatTest`): an integer
`controls` with a list `targets` then raises TypeError (`len(controls)`), a list `controls` with an integer `targets` is
wrapped into `[[…]]` and refused by `expand_operator`.  Had the first line tested `controls`, both calls would mean
`controls=[c]` resp. `targets=[t]` and satisfy the specification above. -/
theorem controlled_gate_mixed_shapes (c t : Int) (cs ts : List Int) (N? : Option ℕ) (v : Int) :
    controlledGate .targets (.scalar c) (.list ts) N? v = .error .lenOfInt ∧
    (controlledGate .targets (.list cs) (.scalar t) N? v = .error .nested ∨
      controlledGate .targets (.list cs) (.scalar t) N? v = .error .blockIndex) ∧
    controlledGate .controls (.scalar c) (.list ts) N? v = controlledGate .controls (.list [c]) (.list ts) N? v ∧
    controlledGate .controls (.list cs) (.scalar t) N? v = controlledGate .controls (.list cs) (.list [t]) N? v := by
  refine ⟨rfl, ?_, rfl, rfl⟩
  show (match pyIndex 2 v with | none => _ | some _ => _) = _ ∨ (match pyIndex 2 v with | none => _ | some _ => _) = _
  cases pyIndex 2 v with
  | none => exact Or.inr rfl
  | some b => exact Or.inl rfl

/-- concrete witness of the refusal on the current source: `controlled_gate(U, controls=0, targets=[1])` and
`controlled_gate(U, controls=[0], targets=1)` (both confirmed on the implementation by the correspondence) -/
theorem controlled_gate_mixed_shapes_witness :
    controlledGate .targets (.scalar 0) (.list [1]) none 1 = .error .lenOfInt ∧
    controlledGate .targets (.list [0]) (.scalar 1) none 1 = .error .nested := ⟨rfl, rfl⟩

/-! ## Constructor arguments of the gate classes

`Gen.G.ctorTable` / `Gen.G.ctorPolicy` (regenerated from the class bodies of gateclass.py on every check) describe the
`__init__` chain of every key of GATE_CLASS_MAP, of `ControlledGate` with every single-qubit target class and of the
generic `Gate(name)`; `GateCtor.construct` / `GateCtor.compact` (Model/GateCtor.lean) are the model of a keyword request
`Class(targets=…, controls=…, arg_value=…, control_value=…)` and of `get_compact_qobj()` of the object, compared with the
implementation on the complete grid of argument shapes.  A request is either refused or served with the documented
matrix on the control value the object carries, which is the requested one (all controls 1 when none is given);
accepted-but-wrong is excluded by the theorems below.  They describe the source AFTER the fixes C09-2 (CPHASE hands
control_value on) and C09-3 (`_check_fixed_control_value` in TOFFOLI, FREDKIN and the generic `Gate.get_compact_qobj`);
on the source before them `ctor_chain_hands_on` resp. `ctor_fixed_table` fail (the regenerated flags are false). -/
open QipVerif.GateCtor

/-- **What the hard-coded matrices are built on** (`GateCtor.hardOf`): the gate functions that classes return WITHOUT
reading `control_value` are block matrices on one control with value 1 — `ctrl U` is `ctrlN 1 1 U` (`ctrl_is_ctrlN`) — for
cnot, csign, cphase, cy_gate, cz_gate, cs_gate, ct_gate (and the generic `controlled_gate(rx(arg))` … with its default
control_value=1), on one control with value 1 and SWAP on the other two qubits for fredkin, on two controls with value 3
(both 1) and X on the last qubit for toffoli -/
theorem hard_values_sound (θ : ℝ) :
    G.cnot_ = ctrl G.x_gate_ ∧ G.csign_ = ctrl G.z_gate_ ∧ G.cphase_ θ = ctrl (G.phasegate_ θ) ∧
    G.cy_gate_ = ctrl G.y_gate_ ∧ G.cz_gate_ = ctrl G.z_gate_ ∧ G.cs_gate_ = ctrl G.s_gate_ ∧ G.ct_gate_ = ctrl G.t_gate_ ∧
    (∀ i j : Fin 8, G.toffoli_ i j =
      if i.val / 2 = j.val / 2 then
        (if i.val / 2 = 3 then G.x_gate_ ⟨i.val % 2, by omega⟩ ⟨j.val % 2, by omega⟩ else if i = j then 1 else 0)
      else 0) ∧
    (∀ i j : Fin 8, G.fredkin_ i j =
      if i.val / 4 = j.val / 4 then
        (if i.val / 4 = 1 then G.swap_ ⟨i.val % 4, by omega⟩ ⟨j.val % 4, by omega⟩ else if i = j then 1 else 0)
      else 0) ∧
    (["cnot()", "csign()", "cphase(arg)", "cy_gate()", "cz_gate()", "cs_gate()", "ct_gate()", "fredkin()",
      "controlled_gate(rx(arg))", "controlled_gate(ry(arg))", "controlled_gate(rz(arg))"].all
        (fun s => hardOf s == some (1, 1))) = true ∧
    hardOf "toffoli()" = some (2, 3) := by
  obtain ⟨h1, h2, h3, h4, h5, h6⟩ := controlled_fixed_block
  refine ⟨h1, h2, GateDoc.cphase_eq_ctrl θ, h3, h4, h5, h6, ?_, ?_, by decide, by decide⟩
  · intro i j; fin_cases i <;> fin_cases j <;> simp [G.toffoli_, G.x_gate_]
  · intro i j; fin_cases i <;> fin_cases j <;> simp [G.fredkin_, G.swap_]

/-- every entry of the regenerated table meets `ClassInfo.hardSound`: a class of the ControlledGate hierarchy whose
`get_compact_qobj` does not read `self.control_value` runs the guard of `_OneControlledGate.__init__` and the TwoQubitGate
guard, its matrix is built on ONE control with the guard's default value, and the guard accepts no other value -/
theorem ctor_table_sound : (G.ctorTable.all fun e => e.hardSound G.ctorPolicy) = true := by decide

/-- **Every class whose `get_compact_qobj` ignores `control_value` refuses a control value other than its hard-coded
one**: for every class of the ControlledGate hierarchy in the regenerated table that does not read `self.control_value`
(CNOT, CZ, CSIGN, CPHASE in the current source) and EVERY request, an accepted object carries control_value 1 on exactly
one control — the value and number of controls its matrix is built on (`hard_values_sound`) — and a given control_value
that the constructor chain hands on is 1 -/
theorem ctor_hardcoded_refuses :
    ∀ e ∈ G.ctorTable, e.controlled = true → e.usesCV = false → ∀ (r : Req) (o : Obj),
      construct G.ctorPolicy e r = .ok o →
        hardOf e.spec = some (1, 1) ∧ o.cv = some 1 ∧ (∃ c, o.controls = some [c]) ∧
        (∀ v, r.cv = .int v → e.fwdCV = true → v = 1) := by
  intro e he hc hu r o h
  have hs := List.all_eq_true.mp ctor_table_sound e he
  have hd : G.ctorPolicy.dflt = 1 := by
    -- the default is part of `hardSound` for every hard-coded class; read it off the entry at hand
    unfold ClassInfo.hardSound at hs
    simp only [hc, hu, Bool.not_true, Bool.false_or, Bool.and_eq_true, beq_iff_eq] at hs
    have h1 := hs.1.2
    unfold hardOf at h1
    split at h1
    · have h1' : (1 : Int) = G.ctorPolicy.dflt := by simpa using h1
      exact h1'.symm
    · split at h1 <;> simp at h1
  have := construct_hard hs hc hu h
  rw [hd] at this
  exact this

example : ∃ e ∈ G.ctorTable, e.key = "CNOT" ∧ e.controlled = true ∧ e.usesCV = false ∧
    construct G.ctorPolicy e ⟨.scalar 1, .scalar 0, .absent, .int 1⟩ = .ok ⟨some [1], some [0], some 1⟩ ∧
    construct G.ctorPolicy e ⟨.scalar 1, .scalar 0, .absent, .int 0⟩ = .error .cvRefused := by
  refine ⟨_, List.mem_of_getElem? (i := 16) rfl, by decide, by decide, by decide, by decide, by decide⟩

/-- **Anatomy of an accepted request to a class of the ControlledGate hierarchy** (any class description, any policy):
exactly one target; the controls as listed (a bare integer is one control; exactly one control under the TwoQubitGate
guard); the object carries the given control_value if the chain hands it on — for the one-control classes after it
passed the guard, the guard's default when none is given -/
theorem ctor_controlled_anatomy (P : Policy) (e : ClassInfo) (r : Req) (o : Obj) (hc : e.controlled = true)
    (h : construct P e r = .ok o) :
    (∃ t, o.targets = some [t] ∧ r.targets.norm = some [t]) ∧
    (∃ cs, o.controls = some cs ∧ r.controls.norm = some cs ∧ (e.arity = .two → cs.length = 1)) ∧
    o.cv = cvOf P e r ∧
    (e.oneCtrl = true → ∀ v, (if e.fwdCV then r.cv.toOpt else none) = some v → v ∈ P.accepted) :=
  construct_controlled hc h

example : ∃ e ∈ G.ctorTable, e.key = "CX" ∧ e.controlled = true ∧ e.arity = .two ∧
    construct G.ctorPolicy e ⟨.scalar 1, .scalar 0, .absent, .absent⟩ = .ok ⟨some [1], some [0], some 1⟩ ∧
    construct G.ctorPolicy e ⟨.list [2], .list [0, 1], .absent, .absent⟩ = .error .twoQubits ∧
    construct G.ctorPolicy e ⟨.list [1, 2], .list [], .absent, .absent⟩ = .error .tgOneTarget := by
  refine ⟨_, List.mem_of_getElem? (i := 30) rfl, by decide, by decide, by decide, by decide, by decide, by decide⟩

/-- every constructor chain of the regenerated table hands a given control_value on (CPHASE dropped it before fix C09-2) -/
theorem ctor_chain_hands_on : (G.ctorTable.all fun e => e.fwdCV) = true := by decide

/-- **The request is honoured**: for every class of the regenerated table and every request, the object of an accepted
request carries the REQUESTED control value; a one-control class (CNOT, CX, CZ, CRX, CPHASE, …) substitutes 1 only when
none is given (and, by `ctor_controlled_anatomy`, lets a given value through only if it passed the guard) -/
theorem ctor_request_honoured :
    ∀ e ∈ G.ctorTable, ∀ (r : Req) (o : Obj), construct G.ctorPolicy e r = .ok o →
      o.cv = if e.controlled && e.oneCtrl then some (r.cv.toOpt.getD 1) else r.cv.toOpt := by
  intro e he r o h
  have hf : e.fwdCV = true := List.all_eq_true.mp ctor_chain_hands_on e he
  have hd : G.ctorPolicy.dflt = 1 := by decide
  rw [← hd]
  exact construct_cv_of_fwd hf h

example : ∃ e ∈ G.ctorTable, e.key = "ControlledGate:RX" ∧
    construct G.ctorPolicy e ⟨.list [2], .list [1, 0], .scalar, .int 2⟩ = .ok ⟨some [2], some [1, 0], some 2⟩ := by
  refine ⟨_, List.mem_of_getElem? (i := 39) rfl, by decide, by decide⟩
example : ∃ e ∈ G.ctorTable, e.key = "CPHASE" ∧
    construct G.ctorPolicy e ⟨.list [1], .list [0], .scalar, .int 0⟩ = .error .cvRefused ∧
    construct G.ctorPolicy e ⟨.list [1], .list [0], .scalar, .none⟩ = .ok ⟨some [1], some [0], some 1⟩ := by
  refine ⟨_, List.mem_of_getElem? (i := 34) rfl, by decide, by decide, by decide⟩

/-- only `ControlledGate.get_compact_qobj` reads `self.control_value`: no class outside the hierarchy does -/
theorem ctor_plain_table : (G.ctorTable.all fun e => e.controlled || !e.usesCV) = true := by decide

/-- **Classes outside the ControlledGate hierarchy** (single-qubit, two-qubit, TOFFOLI, FREDKIN, the generic `Gate`):
the object carries targets / controls / control_value as given (a bare integer = one-element list), the guards of the
arity class hold, and — unless the class calls `_check_fixed_control_value()` — acceptance does not depend on
control_value at all (X, SWAP, …: there is nothing it could refer to) -/
theorem ctor_plain_anatomy (P : Policy) (e : ClassInfo) (r : Req) (o : Obj) (hc : e.controlled = false)
    (h : construct P e r = .ok o) :
    o.targets = r.targets.norm ∧ o.controls = r.controls.norm ∧ o.cv = r.cv.toOpt ∧
    (e.arity = .single → (∃ t, o.targets = some [t]) ∧ (o.controls = none ∨ o.controls = some [])) ∧
    (e.arity = .two → ((o.controls.getD []) ++ (o.targets.getD [])).length = 2) ∧
    ((e.fixedGuard && !e.generic) = false → e.cvRequired = false →
      ∀ v, construct P e { r with cv := v } = .ok { o with cv := v.toOpt }) :=
  construct_plain hc h

example : ∃ e ∈ G.ctorTable, e.key = "X" ∧ e.controlled = false ∧
    construct G.ctorPolicy e ⟨.scalar 0, .absent, .absent, .absent⟩ = .ok ⟨some [0], none, none⟩ ∧
    construct G.ctorPolicy e ⟨.list [0, 1], .absent, .absent, .absent⟩ = .error .oneTarget ∧
    construct G.ctorPolicy e ⟨.scalar 0, .scalar 1, .absent, .absent⟩ = .error .noControl := by
  refine ⟨_, List.mem_of_getElem? (i := 0) rfl, by decide, by decide, by decide, by decide, by decide⟩

/-- every class outside the ControlledGate hierarchy whose matrix function is a CONTROLLED gate (`hardOf`: TOFFOLI,
FREDKIN, the generic Gate of CNOT, CSIGN, CY, CZ, CS, CT, CRX, CRY, CRZ, CPHASE, TOFFOLI, FREDKIN) calls
`_check_fixed_control_value()` (regenerated flag; none did before fix C09-3) -/
theorem ctor_fixed_table :
    (G.ctorTable.all fun e => e.controlled || (hardOf e.spec).isNone || e.fixedGuard) = true := by decide

/-- **Fixed-matrix classes outside the ControlledGate hierarchy refuse every control value but "all controls 1"**: for
every such class of the regenerated table and every request, if the constructor accepts and `get_compact_qobj()`
returns, then either no control value was given, or controls are listed and the value is 2^(number of listed
controls) − 1 — what the hard-coded matrix is built on (`hard_values_sound`); the matrix never depends on it (`plain`) -/
theorem ctor_fixed_refuses :
    ∀ e ∈ G.ctorTable, e.controlled = false → (hardOf e.spec).isSome = true →
      ∀ (ct : Which) (r : Req) (o : Obj) (c : Compact),
        construct G.ctorPolicy e r = .ok o → compact ct e r o = .ok c →
          (o.cv = none ∨ ∃ l, o.controls = some l ∧ l ≠ [] ∧ o.cv = some (((2 ^ l.length : ℕ) : Int) - 1)) ∧
          o.cv = r.cv.toOpt ∧ c = .plain := by
  intro e he hc hh ct r o c h1 h2
  have ht := List.all_eq_true.mp ctor_fixed_table e he
  have hf : e.fixedGuard = true := by
    simp only [hc, Bool.false_or, Bool.or_eq_true, Option.isNone_iff_eq_none] at ht
    rcases ht with ht | ht
    · rw [ht] at hh; simp at hh
    · exact ht
  have hu : e.usesCV = false := by
    have := List.all_eq_true.mp ctor_plain_table e he
    simpa [hc] using this
  refine ⟨?_, (construct_plain hc h1).2.2.1, compact_plain hu h2⟩
  by_cases hg : e.generic = true
  · exact compact_fixed_generic hg hf h2
  · exact construct_fixed hc (by simpa using hg) hf h1

example : ∃ e ∈ G.ctorTable, e.key = "TOFFOLI" ∧ e.controlled = false ∧ (hardOf e.spec).isSome = true ∧
    construct G.ctorPolicy e ⟨.list [2], .list [0, 1], .absent, .int 0⟩ = .error .cvRefused ∧
    construct G.ctorPolicy e ⟨.list [2], .list [0, 1], .absent, .int 3⟩ = .ok ⟨some [2], some [0, 1], some 3⟩ ∧
    construct G.ctorPolicy e ⟨.list [0, 1, 2], .absent, .absent, .absent⟩ = .ok ⟨some [0, 1, 2], none, none⟩ := by
  refine ⟨_, List.mem_of_getElem? (i := 23) rfl, by decide, by decide, by decide, by decide, by decide, by decide⟩

/-- `QubitCircuit.add_gate(name, …)` passes every absent argument as None (`Req.viaCircuit`): whatever the class path
serves, the circuit path serves with the same object, hence the same matrix -/
theorem ctor_circuit_agrees (P : Policy) (e : ClassInfo) (r : Req) (o : Obj) (h : construct P e r = .ok o) :
    construct P e r.viaCircuit = .ok o := construct_viaCircuit h

example : ∃ e ∈ G.ctorTable, e.key = "CNOT" ∧
    construct G.ctorPolicy e ⟨.scalar 1, .scalar 0, .absent, .absent⟩ = .ok ⟨some [1], some [0], some 1⟩ ∧
    (⟨.scalar 1, .scalar 0, .absent, .absent⟩ : Req).viaCircuit = ⟨.scalar 1, .scalar 0, .none, .none⟩ := by
  refine ⟨_, List.mem_of_getElem? (i := 16) rfl, by decide, by decide, by decide⟩

/-- **The circuit path does not depend on the other gates of the circuit**: with the regenerated rule of
`QubitCircuit._get_gate_unitary`, `propagators(expand=False)` of ANY circuit `pre ++ [g] ++ post` reports at the position
of `g` the gate's own `get_compact_qobj()` (`own g`, whatever `own` is — the constructor model above, the path theorems),
and as many matrices as gates -/
theorem circuit_path_history_independent {α β : Type} (own : α → β) (pre post : List α) (g : α) :
    ∃ l, propagatorsCompact G.circuitGateUnitary own (pre ++ g :: post) = some l ∧
      l[pre.length]? = some (own g) ∧ l.length = pre.length + 1 + post.length := by
  have hr : G.circuitGateUnitary = "gate.get_compact_qobj()" := by decide
  refine ⟨(pre ++ g :: post).map own, by simp [propagatorsCompact, hr], by simp, by simp; omega⟩

example : propagatorsCompact G.circuitGateUnitary (fun n : Nat => n * n) [2, 3, 5] = some [4, 9, 25] := by decide

/-- **A fresh circuit resolves every library name to the library matrix, whatever happened to other objects** (model
`CircHeap`: circuits hold dictionary OBJECTS; rule `Gen.G.circuitDefaultUserGates` regenerated from `QubitCircuit.__init__` /
`add_circuit`).  After ANY history `pre` of constructions, `qc.user_gates[name] = …` and `add_circuit` calls in the process,
a circuit created by `QubitCircuit(N)` (number `n`) holds a new empty dictionary that no other circuit holds; and after ANY
further history `post` that does not write that circuit's own dictionary (no `setUser n`, no `add_circuit` INTO `n`, nobody
is handed its dictionary object) — in particular whatever custom "T" or "X" other circuits define, merge or overwrite —
`_get_gate_unitary` of circuit `n` finds no user gate for any name: by `circuit_path_history_independent` it reports the
gate's own `get_compact_qobj()` -/
theorem fresh_circuit_resolves_library (pre post : List CircHeap.Op) (name : String) :
    G.circuitDefaultUserGates = "new-dict-per-circuit" ∧
    let h := CircHeap.run ⟨[], []⟩ pre
    let n := h.circ.length
    (post.all (CircHeap.Op.avoids n h.dicts.length) = true →
      CircHeap.resolve (CircHeap.run (CircHeap.step h .newDefault) post) n name = none) := by
  refine ⟨by decide, ?_⟩
  intro h n hp
  have hw : CircHeap.WF h := CircHeap.run_wf pre _ CircHeap.wf_empty
  exact CircHeap.resolve_of_inv (CircHeap.run_inv n h.dicts.length post _ hp (CircHeap.newDefault_inv h hw)) name

/-- the history of seeded C09-17 in the model: a block with a custom "T", a main circuit that merges it (and so resolves "T"
to the custom matrix), then a fresh circuit — which resolves "T" to the library; had the main and the fresh circuit been
handed ONE dictionary object (`newWith`), the fresh one would resolve "T" to the custom matrix -/
example :
    let ops : List CircHeap.Op := [.newDict [("T", 7)], .newWith 0, .newDefault, .addCircuit 1 0 false, .newDefault]
    let h := CircHeap.run ⟨[], []⟩ ops
    CircHeap.resolve h 0 "T" = some 7 ∧ CircHeap.resolve h 1 "T" = some 7 ∧ CircHeap.resolve h 2 "T" = none ∧
    CircHeap.resolve (CircHeap.run ⟨[], []⟩ [.newDict [("T", 7)], .newWith 0, .newDict [], .newWith 1,
      .addCircuit 1 0 false, .newWith 1]) 2 "T" = some 7 := by decide

/-- **The matrix of a class that reads `control_value`** (`ControlledGate.get_compact_qobj`, i.e. ControlledGate itself
and CX, CY, CS, CT, CRX, CRY, CRZ): for an object with `m` listed controls and control value `v < 2^m`, whatever the
target gate's matrix `U`, it is `ctrlN m v U` on the qubits (controls 0..m-1 in listed order — first listed most
significant —, target m): U on the target exactly when the controls hold `v` (`controlled_apply`), unitary when U is -/
theorem ctor_controlled_matrix (ct : Which) (e : ClassInfo) (r : Req) (o : Obj) (cs : List Int) (v : ℕ)
    (U : Matrix (Fin 2) (Fin 2) ℂ)
    (hu : e.usesCV = true) (hg : (e.generic && e.fixedGuard) = false) (ha : argCheck e.argSpec r.arg = .ok ())
    (hc : o.controls = some cs) (hcv : o.cv = some (v : Int)) (hv : v < 2 ^ cs.length) :
    ∃ res, compact ct e r o = .ok (.block res) ∧ res.K = cs.length + 1 ∧
      (Matrix.of fun x y : St (cs.length + 1) => evalC U (res.entry (bitsL x) (bitsL y))) =
        (tgQ (cs.length + 1) (List.range cs.length ++ [cs.length]) (List.range cs.length).length (by simp)
          (range_snoc_nodup _) (range_snoc_lt _)).embed (ctrlN (List.range cs.length).length v U) := by
  obtain ⟨res, h1, h2, h3⟩ := compact_block ct e r o cs v hu hg ha hc hcv hv
  refine ⟨res, h1, h2, ?_⟩
  ext x y
  have bx : ∀ z : St (cs.length + 1), Bits (cs.length + 1) (bitsL z) := fun z =>
    ⟨bitsL_length z, fun e he => by
      simp only [bitsL, List.mem_ofFn] at he; obtain ⟨i, rfl⟩ := he; exact (z i).isLt⟩
  rw [Matrix.of_apply, h3 _ _ (bx x) (bx y),
    spec_eq_embed (cs.length + 1) (List.range cs.length) cs.length v U (range_snoc_nodup _) (range_snoc_lt _) x y]

example : ∃ e ∈ G.ctorTable, e.key = "CX" ∧ e.usesCV = true ∧ (e.generic && e.fixedGuard) = false ∧
    argCheck e.argSpec .absent = .ok () := by
  refine ⟨_, List.mem_of_getElem? (i := 30) rfl, by decide, by decide, by decide, by decide⟩

/-- **Expansion of a multi-controlled gate object reads the control bits in LISTED order** (`Gate.get_qobj(dims=[2]*N)`,
`propagators(expand=True)`: regenerated rule `Gen.G.gateGetQobj`, model `GateCtor.expanded`).  For an object of a class
that reads control_value (ControlledGate with any target class, CX, CY, CRX, …) storing the controls `cs` — by
`ctor_controlled_anatomy` exactly as they were listed —, target `t`, `cs ++ [t]` duplicate-free and `< N`, value `v < 2^m`:
the expanded operator is `Tg.embed (ctrlN m v U)` on the qubits `(cs…, t)`, i.e. by `controlled_apply` it applies `U` to `t`
exactly when the qubits `cs`, FIRST LISTED MOST SIGNIFICANT, hold `v`; this is the very operator the function
`controlled_gate(U, cs, [t], N, v)` returns (`controlled_gate_model`, same right-hand side), and it is unitary when `U` is.
Storing the controls in any other order than listed (seeded C09-16: sorted) changes `cs` here, hence the operator. -/
theorem ctor_controlled_expanded (ct : Which) (e : ClassInfo) (r : Req) (o : Obj) (cs : List ℕ) (t N v : ℕ)
    (U : Matrix (Fin 2) (Fin 2) ℂ)
    (hu : e.usesCV = true) (hg : (e.generic && e.fixedGuard) = false) (ha : argCheck e.argSpec r.arg = .ok ())
    (hc : o.controls = some (cs.map Int.ofNat)) (ht : o.targets = some [Int.ofNat t]) (hcv : o.cv = some (v : Int))
    (hn : (cs ++ [t]).Nodup) (hr : ∀ q ∈ cs ++ [t], q < N) (hv : v < 2 ^ cs.length) :
    G.gateGetQobj = "expand_operator(compact, dims, controls + targets)" ∧
    ∃ res R, compact ct e r o = .ok (.block res) ∧ expanded N o res = .ok R ∧ R.K = N ∧
      (Matrix.of fun x y : St N => evalC U (R.entry (bitsL x) (bitsL y))) =
        (tgQ N (cs ++ [t]) cs.length (by simp) hn hr).embed (ctrlN cs.length v U) := by
  refine ⟨by decide, ?_⟩
  obtain ⟨res, R, h1, h2, h3, h4⟩ := expanded_spec ct e r o cs t N v hu hg ha hc ht hcv hn hr hv
  refine ⟨res, R, h1, h2, h3, ?_⟩
  ext x y
  have bx : ∀ z : St N, Bits N (bitsL z) := fun z =>
    ⟨bitsL_length z, fun e he => by
      simp only [bitsL, List.mem_ofFn] at he; obtain ⟨i, rfl⟩ := he; exact (z i).isLt⟩
  rw [Matrix.of_apply, h4 _ _ (bx x) (bx y), spec_eq_embed N cs t v U hn hr x y]

/-- ControlledGate(controls=[2, 0], targets=[1], control_value=2, target_gate=X) on 3 qubits: X on qubit 1 between
|1,·,0⟩ states (qubit 2 = 1, qubit 0 = 0), identity on |0,·,1⟩ — the witness of seeded C09-16 -/
example : (G.ctorTable[36]?.map fun e =>
      match compact .targets e ⟨.list [1], .list [2, 0], .absent, .int 2⟩ ⟨some [1], some [2, 0], some 2⟩ with
      | .ok (.block res) =>
        (match expanded 3 ⟨some [1], some [2, 0], some 2⟩ res with
          | .ok R => R.K == 3 && R.entry [0, 0, 1] [0, 1, 1] == .u 0 1 && R.entry [1, 0, 0] [1, 0, 0] == .one
              && R.entry [1, 0, 0] [1, 1, 0] == .zero
          | .error _ => false)
      | _ => false) = some true := by decide

/-- a control value outside the blocks is refused at `get_compact_qobj` (IndexError of `controlled_gate`), None is a
TypeError; a negative value −k (k ≤ 2^m) selects block 2^m − k (Python indexing, `controlled_gate_shapes`) -/
theorem ctor_controlled_value_refused (ct : Which) (e : ClassInfo) (r : Req) (o : Obj) (cs : List Int)
    (hu : e.usesCV = true) (hg : (e.generic && e.fixedGuard) = false) (ha : argCheck e.argSpec r.arg = .ok ())
    (hc : o.controls = some cs) :
    (o.cv = none → ∃ x, compact ct e r o = .error x ∧ x = .cvNone) ∧
    (∀ v : Int, o.cv = some v → (((2 ^ cs.length : ℕ) : Int) ≤ v ∨ v < -((2 ^ cs.length : ℕ) : Int)) →
      ∃ x, compact ct e r o = .error x ∧ x = .ctrl .blockIndex) := by
  refine ⟨fun h => ⟨_, ?_, rfl⟩, fun v h hv => ⟨_, ?_, rfl⟩⟩
  · unfold compact
    simp only [hg, Bool.false_eq_true, if_false, ha, hu, if_true, h]
  · unfold compact
    simp only [hg, Bool.false_eq_true, if_false, ha, hu, if_true, h, hc, Option.getD_some]
    have := build_rejects_value ((List.range cs.length).map Int.ofNat) [Int.ofNat cs.length] none v (by simpa using hv)
    rw [controlledGate_lists, this]

example : (G.ctorTable[36]?.map fun e => (e.key, e.usesCV,
      (match compact .targets e ⟨.list [2], .list [0, 1], .absent, .int 4⟩ ⟨some [2], some [0, 1], some 4⟩ with
        | .error (.ctrl .blockIndex) => true | _ => false),
      (match compact .targets e ⟨.list [2], .list [0, 1], .absent, .none⟩ ⟨some [2], some [0, 1], none⟩ with
        | .error .cvNone => true | _ => false),
      (match compact .targets e ⟨.list [2], .list [0, 1], .absent, .int 2⟩ ⟨some [2], some [0, 1], some 2⟩ with
        | .ok (.block res) => res.K == 3 && res.entry [1, 0, 0] [1, 0, 1] == .u 0 1 && res.entry [0, 1, 0] [0, 1, 0] == .one
        | _ => false))) = some ("ControlledGate:X", true, true, true, true) := by decide

/-! ## The names each lookup path offers -/

/-- `Gate(name).get_compact_qobj()` resolves exactly these 32 names to a matrix (GLOBALPHASE is listed but raises; every
other name falls into the final `else: raise`), `GATE_CLASS_MAP` has exactly these 36 keys, and the 30 names offered by
both are the ones with a generated `path_*` theorem (`Gen.G.shared_names_complete`) -/
theorem path_names :
    G.genericPath.map Prod.fst =
      ["RX", "RY", "RZ", "X", "Y", "CY", "Z", "CZ", "T", "CT", "S", "CS", "SQRTNOT", "SNOT", "PHASEGATE", "R", "QASMU",
       "CRX", "CRY", "CRZ", "CPHASE", "CNOT", "CSIGN", "BERKELEY", "SWAPalpha", "SWAP", "ISWAP", "SQRTSWAP", "SQRTISWAP",
       "FREDKIN", "TOFFOLI", "IDLE", "GLOBALPHASE"] ∧
    G.classPath.map Prod.fst =
      ["X", "Y", "Z", "RX", "RY", "RZ", "H", "SNOT", "SQRTNOT", "S", "T", "R", "QASMU", "SWAP", "ISWAP", "iSWAP", "CNOT",
       "SQRTSWAP", "SQRTISWAP", "SWAPALPHA", "SWAPalpha", "BERKELEY", "MS", "TOFFOLI", "FREDKIN", "CSIGN", "CRX", "CRY",
       "CRZ", "CY", "CX", "CZ", "CS", "CT", "CPHASE", "RZX"] ∧
    G.sharedNames =
      ["X", "Y", "Z", "RX", "RY", "RZ", "SNOT", "SQRTNOT", "S", "T", "R", "QASMU", "SWAP", "ISWAP", "CNOT", "SQRTSWAP",
       "SQRTISWAP", "SWAPalpha", "BERKELEY", "TOFFOLI", "FREDKIN", "CSIGN", "CRX", "CRY", "CRZ", "CY", "CZ", "CS", "CT",
       "CPHASE"] := by
  refine ⟨by decide, by decide, by decide⟩

/-- the refusals: names only one path knows.  The generic chain has no H, MS, RZX, CX, iSWAP, SWAPALPHA and raises for
GLOBALPHASE; the class map has no PHASEGATE, IDLE, GLOBALPHASE.  Aliases resolve to the same function. -/
theorem path_refusals :
    (["H", "MS", "RZX", "CX", "iSWAP", "SWAPALPHA"].all fun n => (G.genericPath.lookup n).isNone) = true ∧
    G.genericPath.lookup "GLOBALPHASE" = some "raise" ∧
    (["PHASEGATE", "IDLE", "GLOBALPHASE"].all fun n => (G.classPath.lookup n).isNone) = true ∧
    G.classPath.lookup "H" = G.classPath.lookup "SNOT" ∧ G.classPath.lookup "iSWAP" = G.classPath.lookup "ISWAP" ∧
    G.classPath.lookup "SWAPALPHA" = G.classPath.lookup "SWAPalpha" ∧ G.classPath.lookup "CZ" = G.classPath.lookup "CSIGN" ∧
    G.classPath.lookup "CX" = some "controlled_gate(sigmax())" ∧ G.classPath.lookup "MS" = some "molmer_sorensen(*arg)" ∧
    G.classLiteral.lookup "RZX" = some "cls_RZX(arg)" := by
  refine ⟨by decide, by decide, by decide, by decide, by decide, by decide, by decide, by decide, by decide, by decide⟩

/-- the class-only gates denote what their aliases denote: H is SNOT; CX is the controlled X, i.e. CNOT -/
theorem class_only_gates : ctrl G.x_gate_ = G.cnot_ ∧ ctrl (!![0, 1; 1, 0] : Matrix (Fin 2) (Fin 2) ℂ) = G.cnot_ := by
  refine ⟨?_, ?_⟩ <;> (ext i j; fin_cases i <;> fin_cases j <;> simp [ctrl, G.x_gate_, G.cnot_])

/-- `QubitCircuit.add_gate(name, …)` builds the class of `GATE_CLASS_MAP` when the name is a key and the generic `Gate`
otherwise (extracted from circuit.py), so the circuit path offers the union of the two name sets and resolves a shared
name like the class path — equal to the generic path by `path_*` -/
theorem circuit_dispatch : G.circuitDispatch = "class-if-mapped-else-generic" := by decide

/-- … so the names a circuit reaches through the generic `Gate` are the ones of the chain that are no key of
`GATE_CLASS_MAP`: PHASEGATE, IDLE (and the GLOBALPHASE marker, which has no matrix) -/
theorem circuit_generic_only :
    (G.genericPath.filter fun p => (G.classPath.lookup p.1).isNone).map Prod.fst = ["PHASEGATE", "IDLE", "GLOBALPHASE"] := by
  decide

/-! ## The exact gate library is the translated source

`gateE` (ℤ[ζ₁₆][½], used by `fixed_gates_unitary` / `sqrt_relations` above and as the semantics of fixed gates in the
circuit denotation of C01, C03, C07, C13) read over ℂ is the matrix generated from gates.py, for EVERY fixed gate — so
the exact layer no longer rests only on the numerical comparison with the implementation. -/
open QipVerif.GateExact

theorem exact_library_is_source :
    toMatD 1 GateE.x = matN 1 G.x_gate_ ∧ toMatD 1 GateE.y = matN 1 G.y_gate_ ∧ toMatD 1 GateE.zg = matN 1 G.z_gate_ ∧
    toMatD 1 GateE.s = matN 1 G.s_gate_ ∧ toMatD 1 GateE.t = matN 1 G.t_gate_ ∧ toMatD 1 GateE.snot = matN 1 G.snot_ ∧
    toMatD 1 GateE.sqrtnot = matN 1 G.sqrtnot_ ∧ toMatD 2 GateE.cnot = matN 2 G.cnot_ ∧
    toMatD 2 GateE.csign = matN 2 G.csign_ ∧ toMatD 2 GateE.csign = matN 2 G.cz_gate_ ∧
    toMatD 2 GateE.cy = matN 2 G.cy_gate_ ∧ toMatD 2 GateE.cs = matN 2 G.cs_gate_ ∧ toMatD 2 GateE.ct = matN 2 G.ct_gate_ ∧
    toMatD 2 GateE.swap = matN 2 G.swap_ ∧ toMatD 2 GateE.iswap = matN 2 G.iswap_ ∧
    toMatD 2 GateE.sqrtswap = matN 2 G.sqrtswap_ ∧ toMatD 2 GateE.sqrtiswap = matN 2 G.sqrtiswap_ ∧
    toMatD 2 GateE.berkeley = matN 2 G.berkeley_ ∧ toMatD 3 GateE.fredkin = matN 3 G.fredkin_ ∧
    toMatD 3 GateE.toffoli = matN 3 G.toffoli_ :=
  ⟨x_exact, y_exact, z_exact, s_exact, t_exact, snot_exact, sqrtnot_exact, cnot_exact, csign_exact, cz_exact, cy_exact,
   cs_exact, ct_exact, swap_exact, iswap_exact, sqrtswap_exact, sqrtiswap_exact, berkeley_exact, fredkin_exact,
   toffoli_exact⟩

/-- the circuit semantics of a fixed gate (`compactC`) is the generated matrix; the controlled rotations of the circuit
semantics (`ctrl1`) are `ctrlN` with one control and value 1 -/
theorem circuit_semantics_is_source (θ : ℝ) :
    compactC .CNOT θ = some ⟨2, matN 2 G.cnot_⟩ ∧ compactC .TOFFOLI θ = some ⟨3, matN 3 G.toffoli_⟩ ∧
    compactC .BERKELEY θ = some ⟨2, matN 2 G.berkeley_⟩ ∧ compactC .SNOT θ = some ⟨1, matN 1 G.snot_⟩ ∧
    compactC .CRX θ = some ⟨2, ctrlN 1 1 (G.rx_ θ)⟩ ∧ compactC .CPHASE θ = some ⟨2, ctrlN 1 1 (G.phasegate_ θ)⟩ := by
  have h := compactC_fixed_is_source θ
  refine ⟨h.2.2.2.2.2.2.2.1, h.2.2.2.2.2.2.2.2.2.2.2.2.2.2.2.2.2.2.2, h.2.2.2.2.2.2.2.2.2.2.2.2.2.2.2.2.2.1, h.2.2.2.2.2.1, ?_, ?_⟩
  · simp only [compactC, ctrl1_eq_ctrlN]
  · simp only [compactC, ctrl1_eq_ctrlN]

end QipVerif.C09
