import QipVerif.Lemmas.SpinChainExp
import QipVerif.Lemmas.ComposeTop
import QipVerif.Lemmas.ComposeSched
import QipVerif.Lemmas.ComposeCast
/-!
# C06 — noise-free spin-chain pulse compilation reproduces the circuit exactly

Property theorems only.  They are about

* the formulas and tables of `SpinChainCompiler`, `GateCompiler.generate_pulse_shape` and `SpinChainModel`
  REGENERATED from /repo into `Gen/SpinChainTables.lean` (`Gen.SC.rotArea`, `pulseCoeff`, `pulseDur`,
  `gateCompiler`, `swapLabelIdx`, `ctl*_coef/op/qubits`, `compileResetsPhase`, `handsBackPhase`),
  instantiated with `ℝ` and `Real.pi`;
* the hand model of the compiler stage `Model/SpinChain.lean` (`compileGate`, `compile`, `load`, `control?`),
  which the driver `drv_spinchain` runs with `Rat` against the implementation;
* the model of `ModelProcessor.transpile` of C13 (`Transpile.transpileV`, either shape of the source).

**The ideal propagator of a constant segment is Mathlib's matrix exponential** (`Lemmas/MatExp.lean`,
`Lemmas/SpinChainExp.lean`): a pulse that drives the control Hamiltonian `c·P` of its label with the constant
coefficient `u` for the time `T` has the propagator `MatExp.evolve (u • c • P) T = exp(−i·T·u·c·P)`
(`NormedSpace.exp` on complex matrices).  The closed forms `segProp P (u·T·c) = cos φ·1 − i sin φ·P` (`P² = 1`) and
`exchProp (u·T·c)` (block form for `XX+YY`), which earlier versions took as definitions, are PROVED equal to it
(`propagator_is_exponential`); `instrPropExp` is the exponential of the Hamiltonian the model puts on the
instruction's channel, embedded in the register, and equals `instrProp` for every instruction.  The theorems
`…_exp` below are stated with the exponential; the older statements with the closed forms are kept.

**Instruction list → pulses → slices → propagator** (`end_to_end_pulses_partial`, `Lemmas/Compose*.lean`): for an instruction
list with rational durations and coefficients, the propagator that the MODELS of C12 (`Concat.schedule`, `groupPulses`,
`compileS Gen.concatSrc`) and C14 (`Grid.fullCoeffsVW` — both paddings and both shapes of the advance step —, `slices`, `runAnalytically`) compute from it — the product of
the slice exponentials over the merged grid — times `e^{iφ}` is the circuit's unitary.

What is NOT proved here (see notes/C06.md): the routing stage of the transpilation theorem (`RouteStageDen`, a named
hypothesis, as in C13); that the floating-point durations / start times of the implementation are the exact rationals of
the model (the composition theorem is about exact arithmetic; the implementation is compared numerically to 1e-9 on every
check).
-/
namespace QipVerif.C06
open QipVerif QipVerif.Gen QipVerif.Gen.SC QipVerif.SpinChain QipVerif.Transpile QipVerif.Decomp Matrix QipVerif.MatExp

/-! ## ties to the regenerated tables -/

/-- **decidable facts about the regenerated tables** the theorems below rely on: the gate → compiler map, the
channel prefixes and which Pauli operator(s) they drive, the exchange Hamiltonian, the coupling label prefix, the
reset and hand-back of the global phase, the devices' native gates and topology -/
theorem tables_tie :
    gateCompiler.lookup "RX" = some (.rotation "sx" "sx") ∧ gateCompiler.lookup "RZ" = some (.rotation "sz" "sz") ∧
    gateCompiler.lookup "ISWAP" = some (.exchange (-1) 8) ∧ gateCompiler.lookup "SQRTISWAP" = some (.exchange (-1) 16) ∧
    gateCompiler.lookup "GLOBALPHASE" = some .phase ∧
    (ctlA_prefix = "sx" ∧ ctlA_op = .x) ∧ (ctlB_prefix = "sz" ∧ ctlB_op = .z) ∧
    (ctlG_prefix = "g" ∧ swapPrefix = ctlG_prefix ∧ ctlG_terms = xxyy ∧ swapParamKey = "sxsy") ∧
    compileResetsPhase = true ∧ handsBackPhase = true ∧
    (∀ c, (deviceSpec (chainDev c)).native = some [.SQRTISWAP, .ISWAP, .RX, .RZ] ∧
      (deviceSpec (chainDev c)).topo = some (chainSetup c)) := by
  refine ⟨by decide, by decide, by decide, by decide, by decide, by decide, by decide, by decide, rfl, rfl, chain_spec⟩

example : gateCompiler.length = 6 ∧ numCoupling false 5 = 4 ∧ numCoupling true 5 = 5 ∧
    ctlG_qubits 5 4 = (4, 0) := by decide

/-! ## calibration -/

/-- **rot_calibrated.**  For every angle `θ ∈ ℝ` (negative, zero, beyond `2π`) and every strength `Ω ≠ 0`: the
rectangular pulse the compiler emits for RX / RZ — area `a = θ/(4π)` (the regenerated `θ/2/π·½`), coefficient
`sgn(a)·|Ω|`, duration `|a|/|Ω|` — driving the model's control Hamiltonian `2π·σ` has the ideal propagator
`R_σ(θ)`, the generated gate matrix; `θ = 0` gives a pulse of duration 0. -/
theorem rot_calibrated (θ Ω : ℝ) (hΩ : Ω ≠ 0) :
    segProp (pauliMat ctlA_op) (pulseCoeff Ω (rotArea Real.pi θ) * pulseDur Ω (rotArea Real.pi θ) * ctlA_coef Real.pi)
      = G.rx_ θ ∧
    segProp (pauliMat ctlB_op) (pulseCoeff Ω (rotArea Real.pi θ) * pulseDur Ω (rotArea Real.pi θ) * ctlB_coef Real.pi)
      = G.rz_ θ ∧
    rotArea Real.pi θ = θ / (4 * Real.pi) ∧
    pulseCoeff Ω (rotArea Real.pi θ) = Real.sign (rotArea Real.pi θ) * |Ω| ∧
    pulseDur Ω (rotArea Real.pi θ) = |rotArea Real.pi θ| / |Ω| ∧
    (θ = 0 → pulseDur Ω (rotArea Real.pi θ) = 0) := by
  refine ⟨?_, ?_, rotArea_eq θ, ?_, ?_, ?_⟩
  · rw [rot_phase θ Ω _ hΩ ctlA_coef_eq]; exact segProp_x θ
  · rw [rot_phase θ Ω _ hΩ ctlB_coef_eq]; exact segProp_z θ
  · show ((1 : ℤ) : ℝ) / ((1 : ℕ) : ℝ) * (|Ω| * Real.sign _) = _
    push_cast; ring
  · show ((1 : ℤ) : ℝ) / ((1 : ℕ) : ℝ) * (|_| / |Ω|) = _
    push_cast; ring
  · intro h
    rw [h, rotArea_eq]
    simp [pulse_dur_zero]

example : segProp (pauliMat ctlA_op)
      (pulseCoeff (1 / 4 : ℝ) (rotArea Real.pi (-7)) * pulseDur (1 / 4 : ℝ) (rotArea Real.pi (-7)) * ctlA_coef Real.pi)
    = G.rx_ (-7) := (rot_calibrated (-7) (1 / 4) (by norm_num)).1

/-- **iswap_calibrated.**  For every strength `g ≠ 0`: the pulse of area `−1/8` (read from the gate map) on the
exchange Hamiltonian `2π(XX+YY)` has the ideal propagator ISWAP — the generated matrix and the exact library matrix. -/
theorem iswap_calibrated (g : ℝ) (hg : g ≠ 0) :
    gateCompiler.lookup "ISWAP" = some (.exchange (-1) 8) ∧ ctlG_terms = xxyy ∧
    exchProp (pulseCoeff g (((-1 : ℤ) : ℝ) / ((8 : ℕ) : ℝ)) * pulseDur g (((-1 : ℤ) : ℝ) / ((8 : ℕ) : ℝ)) * ctlG_coef Real.pi)
      = G.iswap_ ∧
    mat2 G.iswap_ = toMatD 2 GateE.iswap := by
  refine ⟨by decide, by decide, ?_, toMatD_iswap.symm⟩
  rw [exch_phase _ _ _ hg ctlG_coef_eq]
  exact exchProp_iswap

/-- **sqrtiswap_calibrated.**  Area `−1/16` gives SQRTISWAP. -/
theorem sqrtiswap_calibrated (g : ℝ) (hg : g ≠ 0) :
    gateCompiler.lookup "SQRTISWAP" = some (.exchange (-1) 16) ∧ ctlG_terms = xxyy ∧
    exchProp (pulseCoeff g (((-1 : ℤ) : ℝ) / ((16 : ℕ) : ℝ)) * pulseDur g (((-1 : ℤ) : ℝ) / ((16 : ℕ) : ℝ)) * ctlG_coef Real.pi)
      = G.sqrtiswap_ ∧
    mat2 G.sqrtiswap_ = toMatD 2 GateE.sqrtiswap := by
  refine ⟨by decide, by decide, ?_, toMatD_sqrtiswap.symm⟩
  rw [exch_phase _ _ _ hg ctlG_coef_eq]
  exact exchProp_sqrtiswap

example : exchProp (pulseCoeff (-3 : ℝ) (((-1 : ℤ) : ℝ) / ((8 : ℕ) : ℝ)) * pulseDur (-3 : ℝ) (((-1 : ℤ) : ℝ) / ((8 : ℕ) : ℝ)) *
    ctlG_coef Real.pi) = G.iswap_ := (iswap_calibrated (-3) (by norm_num)).2.2.1

/-- the two closed forms taken as definitions are one-parameter groups with value `1` at `0` (sanity of the
trusted base, not a derivation of the exponential) -/
theorem closed_forms_are_groups :
    (∀ (P : Matrix (Fin 2) (Fin 2) ℂ), P * P = 1 → ∀ φ ψ : ℝ, segProp P (φ + ψ) = segProp P φ * segProp P ψ) ∧
    (∀ P : Matrix (Fin 2) (Fin 2) ℂ, segProp P 0 = 1) ∧
    (∀ φ ψ : ℝ, exchProp (φ + ψ) = exchProp φ * exchProp ψ) ∧ exchProp 0 = 1 :=
  ⟨segProp_add, segProp_zero, exchProp_add, exchProp_zero⟩


/-! ## the ideal propagator is the matrix exponential -/

/-- **propagator_is_exponential.**  The closed forms are theorems about Mathlib's matrix exponential
`evolve H T = exp(−i·T·H)`: for every complex 2×2 matrix with `P² = 1` and all real `u, T, c`:
`cos(uTc)·1 − i sin(uTc)·P = exp(−i·T·u·c·P)`; for the exchange operator `Σ sign·σ_a⊗σ_b` read from the regenerated
`ctlG_terms` (`= XX + YY`): the block form `exchProp (uTc) = exp(−i·T·u·c·(XX+YY))`; and for every instruction,
chain length and topology the propagator built from the closed forms is the exponential of the control Hamiltonian
of the instruction's channel on the whole register (`none` on both sides iff the label names no control). -/
theorem propagator_is_exponential :
    (∀ (P : Matrix (Fin 2) (Fin 2) ℂ), P * P = 1 → ∀ u T c : ℝ,
      segProp P (u * T * c) = evolve ((u : ℂ) • (c : ℂ) • P) T) ∧
    (∀ op, pauliMat op * pauliMat op = 1) ∧
    (∀ u T c : ℝ, exchProp (u * T * c) = evolve ((u : ℂ) • (c : ℂ) • termsMat ctlG_terms) T) ∧
    (∀ (circular : Bool) (N : ℕ) (i : Instr ℝ), instrPropExp circular N i = instrProp circular N i) :=
  ⟨segProp_eq_exp, pauliMat_sq, exchProp_eq_exp, instrPropExp_eq⟩

example : termsMat ctlG_terms = (2 : ℂ) • !![0, 0, 0, 0; 0, 0, 1, 0; 0, 1, 0, 0; 0, 0, 0, 0] := termsMat_ctlG

/-- **rot_calibrated_exp.**  `rot_calibrated` with the ideal propagator DEFINED as the matrix exponential: for every
angle `θ` and strength `Ω ≠ 0`, `exp(−i · duration · coeff · (2π·σx)) = RX(θ)` and `exp(−i · duration · coeff · (2π·σz))
= RZ(θ)`, where `coeff`, `duration` are what `generate_pulse_shape` returns for the area `θ/2/π·½` and `2π·σ` is the
control Hamiltonian `SpinChainModel` puts on the labels `sx<k>`, `sz<k>` (all read from the regenerated tables). -/
theorem rot_calibrated_exp (θ Ω : ℝ) (hΩ : Ω ≠ 0) :
    evolve (((pulseCoeff Ω (rotArea Real.pi θ) : ℝ) : ℂ) • ((ctlA_coef Real.pi : ℝ) : ℂ) • pauliMat ctlA_op)
      (pulseDur Ω (rotArea Real.pi θ)) = G.rx_ θ ∧
    evolve (((pulseCoeff Ω (rotArea Real.pi θ) : ℝ) : ℂ) • ((ctlB_coef Real.pi : ℝ) : ℂ) • pauliMat ctlB_op)
      (pulseDur Ω (rotArea Real.pi θ)) = G.rz_ θ := by
  obtain ⟨h1, h2, _⟩ := rot_calibrated θ Ω hΩ
  exact ⟨by rw [← segProp_eq_exp _ (pauliMat_sq _)]; exact h1, by rw [← segProp_eq_exp _ (pauliMat_sq _)]; exact h2⟩

example : evolve (((pulseCoeff (1 / 4 : ℝ) (rotArea Real.pi (-7)) : ℝ) : ℂ) • ((ctlA_coef Real.pi : ℝ) : ℂ) • pauliMat ctlA_op)
    (pulseDur (1 / 4 : ℝ) (rotArea Real.pi (-7))) = G.rx_ (-7) := (rot_calibrated_exp (-7) (1 / 4) (by norm_num)).1

/-- **iswap_calibrated_exp / sqrtiswap_calibrated_exp.**  For every strength `g ≠ 0`:
`exp(−i · duration · coeff · 2π(XX+YY))` is ISWAP for the area `−1/8` and SQRTISWAP for the area `−1/16` (areas and
operator read from the regenerated gate map / model). -/
theorem iswap_calibrated_exp (g : ℝ) (hg : g ≠ 0) :
    evolve (((pulseCoeff g (((-1 : ℤ) : ℝ) / ((8 : ℕ) : ℝ)) : ℝ) : ℂ) • ((ctlG_coef Real.pi : ℝ) : ℂ) • termsMat ctlG_terms)
      (pulseDur g (((-1 : ℤ) : ℝ) / ((8 : ℕ) : ℝ))) = G.iswap_ := by
  rw [← exchProp_eq_exp]; exact (iswap_calibrated g hg).2.2.1

theorem sqrtiswap_calibrated_exp (g : ℝ) (hg : g ≠ 0) :
    evolve (((pulseCoeff g (((-1 : ℤ) : ℝ) / ((16 : ℕ) : ℝ)) : ℝ) : ℂ) • ((ctlG_coef Real.pi : ℝ) : ℂ) • termsMat ctlG_terms)
      (pulseDur g (((-1 : ℤ) : ℝ) / ((16 : ℕ) : ℝ))) = G.sqrtiswap_ := by
  rw [← exchProp_eq_exp]; exact (sqrtiswap_calibrated g hg).2.2.1

example : evolve (((pulseCoeff (-3 : ℝ) (((-1 : ℤ) : ℝ) / ((8 : ℕ) : ℝ)) : ℝ) : ℂ) • ((ctlG_coef Real.pi : ℝ) : ℂ) • termsMat ctlG_terms)
    (pulseDur (-3 : ℝ) (((-1 : ℤ) : ℝ) / ((8 : ℕ) : ℝ))) = G.iswap_ := iswap_calibrated_exp (-3) (by norm_num)

/-! ## the coupling label -/

/-- **label_connects (positive direction).**  For every chain length `N ≥ 2`, both topologies and every two
distinct NEIGHBOURING qubits (or the wrap-around pair of a ring): the label `g<k>` chosen by `_swap_compiler`
names a coupling of the model whose Hamiltonian acts on exactly the gate's two qubits. -/
theorem label_connects (circular : Bool) (N a b : ℕ) (hN : 2 ≤ N) (ha : a < N) (hb : b < N) (hab : a ≠ b)
    (hadj : adjacent circular N a b = true) :
    connects circular N (chosenLabel N a b) a b = true := by
  rw [label_rule circular hN ha hb hab, hadj]

example : adjacent true 5 4 0 = true ∧ chosenLabel 5 4 0 = 4 ∧ connects true 5 4 4 0 = true := by decide

/-- **label_connects_iff (the full rule).**  The chosen coupling connects the gate's qubits **iff** they are
neighbours (or the wrap pair of a ring): for non-adjacent targets the compiler provably drives a coupling that
does not connect them, or a label that names no coupling (`control?` is `none`: `KeyError` at `set_coeffs`). -/
theorem label_connects_iff (circular : Bool) (N a b : ℕ) (hN : 2 ≤ N) (ha : a < N) (hb : b < N) (hab : a ≠ b) :
    connects circular N (chosenLabel N a b) a b = adjacent circular N a b :=
  label_rule circular hN ha hb hab

example : connects false 6 (chosenLabel 6 4 1) 4 1 = false ∧ adjacent false 6 4 1 = false := by decide

/-- **the compiler alone does not refuse non-adjacent targets**: ISWAP on qubits 0 and 2 of an open chain of 4 is
compiled (no error) onto `g0`, whose Hamiltonian acts on qubits 0 and 1; on an open chain of 3 the label `g2`
names no coupling at all.  The second sentence of the property therefore rests on the transpiler never handing
such a gate to the compiler (`end_to_end_partial`, hypothesis `h2q` for the source without fixes/C13-1.patch). -/
theorem C06_counterexample_label :
    chosenLabel 4 0 2 = 0 ∧ control? false 4 swapPrefix 0 = some (.pair xxyy 0 1) ∧
    connects false 4 (chosenLabel 4 0 2) 0 2 = false ∧
    (∃ i, compileGate (1 : Rat) (fun a => (a.p8 : Rat) / 8) 4 ⟨[1, 1, 1, 1], [1, 1, 1, 1], [1, 1, 1]⟩
        ⟨.ISWAP, [0, 2], [], {}⟩ = .ok (.instr i) ∧ i.chan = some ("g", 0)) ∧
    chosenLabel 3 0 2 = 2 ∧ control? false 3 swapPrefix 2 = none := by
  refine ⟨by decide, by decide, by decide, ⟨_, rfl, rfl⟩, by decide, by decide⟩

/-! ## the reported global phase -/

/-- the gate names a transpiled spin-chain circuit may contain: the regenerated native list and the two markers -/
def nativeNames : List GName := ((deviceSpec (chainDev true)).native.getD []) ++ [.GLOBALPHASE, .IDLE]

/-- **phase_accumulated.**  Whatever the compiler object carried before (`phase0`) and whatever the processor
reported before (`old`): after `load_circuit` the processor reports the sum of the angles of the GLOBALPHASE
gates of the compiled (transpiled) gate list — `compile` starts from 0 (fix 330db5b, regenerated flag), every
phase gate adds its angle, `SpinChain.load_circuit` hands the compiler's value back. -/
theorem phase_accumulated (ev : Ang → ℝ) (N : ℕ) (P : Params ℝ) (phase0 old : ℝ) (gs : List Gate)
    (is : List (Instr ℝ)) (φ : ℝ) (h : compile Real.pi ev N P phase0 gs = .ok (is, φ)) :
    reportedPhase old φ = phaseSum ev gs ∧
    (∀ g ∈ gs, nativeNames.contains g.name = true →
      (isPhaseGate g = true ↔ g.name = .GLOBALPHASE)) := by
  constructor
  · unfold compile at h
    have h0 : (if compileResetsPhase = true then (Arith.ofFrac 0 1 : ℝ) else phase0) = 0 := by
      rw [if_pos (show compileResetsPhase = true from rfl)]
      show ((0 : ℤ) : ℝ) / ((1 : ℕ) : ℝ) = 0
      simp
    rw [h0] at h
    have := compileLoop_phase dropsZeroDuration Real.pi ev N P gs 0 is φ h
    unfold reportedPhase
    rw [if_pos (show handsBackPhase = true from rfl), this, zero_add]
  · intro g _ hn
    have : nativeNames = [.SQRTISWAP, .ISWAP, .RX, .RZ, .GLOBALPHASE, .IDLE] := by decide
    rw [this] at hn
    simp only [List.contains_cons, List.contains_nil, Bool.or_false, Bool.or_eq_true, beq_iff_eq] at hn
    unfold isPhaseGate
    rcases hn with h | h | h | h | h | h <;> rw [h] <;> decide

example : phaseSum (fun a => (a.p8 : ℝ)) [⟨.GLOBALPHASE, [], [], .pi8 2⟩, ⟨.RX, [0], [], .pi8 4⟩, ⟨.GLOBALPHASE, [], [], .pi8 3⟩]
    = 5 := by
  simp only [phaseSum_cons, phaseSum_nil]
  rw [if_pos (by decide), if_neg (by decide), if_pos (by decide)]
  norm_num [Ang.pi8]

/-- **load_ignores_history.**  The contract behind the live-object histories of the correspondence: what a load produces is
a function of the processor's parameters, the gate list handed in AT THAT MOMENT and nothing else — neither the value the
compiler object carried (`phase0`: a re-used `compiler=` object, whatever an earlier `compile` left in `global_phase`) nor the
phase the processor reported before (`old`) enters the instruction list, the verdict or the reported phase.  (`compile`
starts from 0 and `load_circuit` hands the compiler's value back: the regenerated flags `compileResetsPhase`,
`handsBackPhase`.)  Editing the circuit object between two loads therefore can only matter through the gate list read by
the second load. -/
theorem load_ignores_history {α : Type} [Arith α] (pi : α) (ev : Ang → α) (circular : Bool) (N : ℕ) (P : Params α)
    (phase0 phase0' old old' : α) (gs : List Gate) :
    compile pi ev N P phase0 gs = compile pi ev N P phase0' gs ∧
    load pi ev circular N P phase0 gs = load pi ev circular N P phase0' gs ∧
    ∀ φ : α, reportedPhase old φ = reportedPhase old' φ := by
  have hc : compile pi ev N P phase0 gs = compile pi ev N P phase0' gs := by
    unfold compile
    rw [if_pos (show compileResetsPhase = true from rfl), if_pos (show compileResetsPhase = true from rfl)]
  refine ⟨hc, ?_, ?_⟩
  · unfold load; rw [hc]
  · intro φ
    unfold reportedPhase
    rw [if_pos (show handsBackPhase = true from rfl), if_pos (show handsBackPhase = true from rfl)]

example : compile (1 : Rat) (evQr fun _ => 0) 1 ⟨[1/4], [1], []⟩ 7 [⟨.GLOBALPHASE, [], [], .pi8 2⟩] =
    compile (1 : Rat) (evQr fun _ => 0) 1 ⟨[1/4], [1], []⟩ (-3) [⟨.GLOBALPHASE, [], [], .pi8 2⟩] :=
  (load_ignores_history (1 : Rat) _ false 1 _ 7 (-3) 0 0 _).1

/-- **refused_load_keeps_state.**  The contract behind the refused-load steps of the histories: the state of the model's
processor after a load (`afterLoad`: instruction list and reported phase) is that of the load if it succeeds and EXACTLY the
previous state if the load is refused - whatever the reason (`err`), the compiler object or the schedule mode; and a later
successful load does not see the refused one (`load_ignores_history`).  The implementation is compared against this after
every refused step: pulses and reported phase bit-exact as before the call, propagator x phase = unitary of the circuit
loaded last. -/
theorem refused_load_keeps_state {σ ε : Type} (prev : σ) (r : Except ε σ) :
    (∀ e, r = .error e → afterLoad prev r = prev) ∧ (∀ x, r = .ok x → afterLoad prev r = x) := by
  constructor
  · rintro e rfl; rfl
  · rintro x rfl; rfl

example : afterLoad ([(1 : Rat)], (1 / 4 : Rat))
    (load (1 : Rat) (evQr fun _ => 0) false 2 ⟨[1/4, 1/4], [1, 1], [1/10]⟩ 0 [⟨.BERKELEY, [0, 1], [], {}⟩] |>.map
      fun p => (p.1.map (·.dur), p.2)) = ([1], 1 / 4) := by
  decide +kernel

/-! ## end to end -/

/-- **end_to_end_partial.**  For every chain length `N`, both topologies, every valuation `ρ` of the angles, every
vector of non-zero hardware strengths `P`, either shape of `ModelProcessor.transpile` (`pre`), and every circuit
`gs` of accepted library gates on distinct in-range qubits with unitary `U` (`denG`, global phase included):
if `transpile` succeeds with `out`, then

1. the compiler succeeds on `out`; every exchange gate it receives acts on coupled qubits and every channel label
   names a control Hamiltonian of the model (`load` succeeds unless no pulse at all is needed);
2. every instruction has an ideal propagator (`instrProp`, from the trusted closed forms) and it equals the
   operator of the gate it was compiled from;
3. the reported global phase `φ` is the sum of the GLOBALPHASE gates of `out`;
4. `e^{iφ} ·` (product of the ideal propagators in circuit order) `= U`;
5. the same for the product in SCHEDULED order: for all start times `st` that respect the dependencies
   (`DepRespected`: C11's `dep_respected`), all instructions of positive duration and every order `σ` of
   non-decreasing start time.

6. for the source after fixes/C06-2.patch (`dropsZeroDuration`, regenerated) every kept instruction has a positive
   duration (IDLE gates given a positive time), so the hypothesis `hpos` of clause 5 holds by itself.

Hypotheses that make it *partial*: `h2q` — with the source as found (`pre = false`) no gate on more than two
qubits (TOFFOLI/FREDKIN are decomposed after routing onto non-neighbouring qubits: C13's counter-examples; with
fixes/C13-1.patch, `pre = true`, the hypothesis is void); `hpos` in clause 5 — no instruction of duration 0 (a
rotation by exactly 0: the duplicate grid point it produces breaks the resampling, known finding);
`hroute` — the routing stage preserves `denG` (C07 over ℂ along the conversion of gate types, as in C13);
`hph` — PHASEGATE with a fixed angle is a multiple of π/4 (C03's `phOK`). -/
theorem end_to_end_partial (circular pre : Bool) (N : ℕ) (ρ : ℕ → ℝ) (P : Params ℝ) (hP : ParamsOK circular N P)
    (hroute : RouteStageDen N ρ) (gs out : List Gate) (hg : ∀ g ∈ gs, InClass N g)
    (hph : ∀ g ∈ gs, phOK g = true) (h2q : pre = false → ∀ g ∈ gs, g.qubits.length ≤ 2)
    (ht : transpileV tables pre (deviceSpec (chainDev circular)) N gs = .ok out)
    (U : Matrix (St N) (St N) ℂ) (hU : denG N ρ gs = some U) (phase0 old : ℝ) :
    ∃ (is : List (Instr ℝ)) (φ : ℝ) (ws : List (Matrix (St N) (St N) ℂ)),
      compile Real.pi (Ang.eval ρ) N P phase0 out = .ok (is, φ) ∧
      (∀ x ∈ out, NativeOK circular N x) ∧
      (is ≠ [] ∨ loadsEmpty = true → load Real.pi (Ang.eval ρ) circular N P phase0 out = .ok (is, φ)) ∧
      is.mapM (instrProp circular N) = some ws ∧
      is.mapM (fun i => semD N ρ i.gate) = some ws ∧
      reportedPhase old φ = phaseSum (Ang.eval ρ) out ∧
      GateC.phase (reportedPhase old φ) • ordProd ws = U ∧
      (dropsZeroDuration = true → (∀ g ∈ out, g.name = .IDLE → 0 < g.arg.eval ρ) → ∀ i ∈ is, 0 < i.dur) ∧
      ∀ (st : ℕ → ℝ) (σ : List ℕ), (∀ i ∈ is, 0 < i.dur) → DepRespected is st →
        σ.Perm (List.range is.length) → TimeOrdered st σ →
        GateC.phase (reportedPhase old φ) • ordProd (σ.map fun k => ws.getD k 1) = U := by
  obtain ⟨hb, _⟩ := chain_spec circular
  have hout : denG N ρ out = some U :=
    transpileV_den pre hroute (by rw [hb]; rfl) (chain_topoOK circular) hg hph h2q ht U hU
  have hnat := transpile_native_ok circular pre N gs out hg h2q ht
  obtain ⟨is, φ, ws, h1, h2, h3, h4, h5, h6, h7⟩ :=
    compileLoop_den dropsZeroDuration circular N ρ P hP out 0 U hnat hout
  have hc : compile Real.pi (Ang.eval ρ) N P phase0 out = .ok (is, φ) := by
    unfold compile
    have h0 : (if compileResetsPhase = true then (Arith.ofFrac 0 1 : ℝ) else phase0) = 0 := by
      rw [if_pos (show compileResetsPhase = true from rfl)]
      show ((0 : ℤ) : ℝ) / ((1 : ℕ) : ℝ) = 0
      simp
    rw [h0]; exact h1
  have hrep : reportedPhase old φ = φ := by
    unfold reportedPhase; rw [if_pos (show handsBackPhase = true from rfl)]
  have hsum := (phase_accumulated (Ang.eval ρ) N P phase0 old out is φ hc).1
  have hprod : GateC.phase (reportedPhase old φ) • ordProd ws = U := by
    rw [hrep, ← h3, sub_zero]
  refine ⟨is, φ, ws, hc, hnat, ?_, h2, h4, hsum, hprod, ?_, ?_⟩
  · intro hne
    unfold load
    rw [hc]
    simp only
    by_cases he : is.isEmpty = true
    · rw [if_pos he]
      have hnil : is = [] := List.isEmpty_iff.mp he
      rcases hne with hne | hle
      · exact absurd hnil hne
      · rw [if_pos hle]
    rw [if_neg he]
    have hl : labelsOk circular N is = true := by
      unfold labelsOk
      rw [List.all_eq_true]
      intro i hi
      obtain ⟨k, hk, rfl⟩ := List.getElem_of_mem hi
      obtain ⟨hlen, hget⟩ := mapM_some_get _ is ws h2
      have := hget k hk (by omega)
      unfold instrProp at this
      cases hch : is[k].chan with
      | none => rfl
      | some pn =>
        obtain ⟨pre', n⟩ := pn
        rw [hch] at this
        simp only at this ⊢
        cases hctl : control? circular N pre' n with
        | none => rw [hctl] at this; simp at this
        | some _ => rfl
    rw [if_pos hl]
  · intro hdrop hidle i hi
    have hne := h6 hdrop i hi
    rcases h7 i hi with ⟨hn, hd⟩ | hd
    · rw [hd]; exact hidle _ (h5 i hi) hn
    · exact lt_of_le_of_ne hd (Ne.symm hne)
  · intro st σ hpos hdep hσ hto
    rw [schedule_order circular N ρ is ws h4 (fun i hi => hnat _ (h5 i hi)) hpos st hdep σ hσ hto]
    exact hprod

/-- the hypotheses are satisfiable by a non-trivial instance: CNOT(0→1), RY(θ) on qubit 1 and a TOFFOLI on a ring
of 4 qubits with per-qubit strengths; the model of the repaired `transpile` accepts it -/
example :
    (∀ g ∈ [(⟨.CNOT, [1], [0], {}⟩ : Gate), ⟨.RY, [1], [], .symb 0⟩, ⟨.TOFFOLI, [3], [0, 2], {}⟩],
      InClass 4 g ∧ phOK g = true) ∧
    ((transpileV tables true (deviceSpec (chainDev true)) 4
        [⟨.CNOT, [1], [0], {}⟩, ⟨.RY, [1], [], .symb 0⟩, ⟨.TOFFOLI, [3], [0, 2], {}⟩]).toOption.map
      (fun out => decide (out.length > 100))) = some true ∧
    ParamsOK true 4 ⟨[1 / 4, 1 / 2, 1, 3], [1, 1, 2, 1 / 8], [1 / 10, 1 / 8, 1, 2]⟩ := by
  refine ⟨?_, by decide +kernel, ⟨rfl, rfl, rfl, ?_, ?_, ?_⟩⟩
  · intro g hg
    simp only [List.mem_cons, List.not_mem_nil, or_false] at hg
    rcases hg with rfl | rfl | rfl <;> exact ⟨⟨by decide, by decide⟩, by decide⟩
  all_goals
    intro x hx
    simp only [List.mem_cons, List.not_mem_nil, or_false] at hx
    rcases hx with rfl | rfl | rfl | rfl <;> norm_num


/-- **end_to_end_exp_partial.**  `end_to_end_partial` with the ideal propagator of every instruction DEFINED as the
matrix exponential of the control Hamiltonian of its channel on the `N`-qubit register (`instrPropExp`:
`exp(−i·dur·coeff·2π·H_label)`, `H_label` = the embedded Pauli operator resp. `XX+YY`): under the same hypotheses the
compiler succeeds, every instruction has such a propagator, it equals the operator of the gate it was compiled from,
and `e^{iφ}` times their product — in circuit order and in every scheduled time order that respects the
dependencies — is the circuit's unitary `U`. -/
theorem end_to_end_exp_partial (circular pre : Bool) (N : ℕ) (ρ : ℕ → ℝ) (P : Params ℝ) (hP : ParamsOK circular N P)
    (hroute : RouteStageDen N ρ) (gs out : List Gate) (hg : ∀ g ∈ gs, InClass N g)
    (hph : ∀ g ∈ gs, phOK g = true) (h2q : pre = false → ∀ g ∈ gs, g.qubits.length ≤ 2)
    (ht : transpileV tables pre (deviceSpec (chainDev circular)) N gs = .ok out)
    (U : Matrix (St N) (St N) ℂ) (hU : denG N ρ gs = some U) (phase0 old : ℝ) :
    ∃ (is : List (Instr ℝ)) (φ : ℝ) (ws : List (Matrix (St N) (St N) ℂ)),
      compile Real.pi (Ang.eval ρ) N P phase0 out = .ok (is, φ) ∧
      is.mapM (instrPropExp circular N) = some ws ∧
      is.mapM (fun i => semD N ρ i.gate) = some ws ∧
      reportedPhase old φ = phaseSum (Ang.eval ρ) out ∧
      GateC.phase (reportedPhase old φ) • ordProd ws = U ∧
      ∀ (st : ℕ → ℝ) (σ : List ℕ), (∀ i ∈ is, 0 < i.dur) → DepRespected is st →
        σ.Perm (List.range is.length) → TimeOrdered st σ →
        GateC.phase (reportedPhase old φ) • ordProd (σ.map fun k => ws.getD k 1) = U := by
  obtain ⟨is, φ, ws, h1, _, _, h4, h5, h6, h7, _, h9⟩ :=
    end_to_end_partial circular pre N ρ P hP hroute gs out hg hph h2q ht U hU phase0 old
  refine ⟨is, φ, ws, h1, ?_, h5, h6, h7, h9⟩
  rw [show instrPropExp circular N = instrProp circular N from funext (instrPropExp_eq circular N)]
  exact h4

-- a concrete instruction: the RX(π/2) pulse on qubit 1 of an open chain of 3 has an exponential propagator
example : ∃ A, instrPropExp false 3 ⟨⟨.RX, [1], [], .pi8 4⟩, some ("sx", 1), (1 : ℝ) / 4, 1 / 2⟩ = some A := by
  rw [instrPropExp_eq]
  unfold instrProp
  have h : control? false 3 "sx" 1 = some (.single .x 1) := by decide
  simp only [h, hamCoef_sx]
  unfold placeL
  rw [dif_pos ⟨rfl, List.nodup_singleton _, by simp⟩]
  exact ⟨_, rfl⟩

/-! ## from the instruction list to the propagator `run_analytically` computes -/

/-- **end_to_end_pulses_partial.**  Under the hypotheses of `end_to_end_exp_partial` (every topology, `N`, circuit of the
accepted class, parameters, either shape of `transpile`) the compiler returns an instruction list `is` and a phase `φ`
such that, for

* every rational instruction list `isQ` whose cast is `is` (durations and coefficients are rational numbers — as the
  floats of the implementation are; no rounding is modelled), all durations positive (`end_to_end_partial`, clause 6);
* every injective numbering `enc` of the pulse labels (C12's model names labels by numbers);
* every answer `sch` of the scheduler (`none`: no scheduling, cumulative start times; `some (starts, argsort)`) that
  C12's model of `_schedule` accepts, with the scheduled instructions `cis`, start times `st` and the channels `groups` that
  C12's model of the grouping loop of `compile` builds from them;
* `hvalid` — on every channel the pulses are sorted, do not overlap, and every idle gap is `0` or larger than the
  `time_tol` of the source (C12's `ValidG`; a gap below the tolerance is C12's recorded resolution limit);
* `hdisj` — instructions whose gates share a qubit do not overlap in time (`GateDisjoint`: C11 `timetable_valid`; the control
  Hamiltonian of a compiled instruction acts on qubits of its gate — `compile_chanQubits` —, so pulses on a common qubit
  are disjoint in time);
* `hdep` — the start times respect the dependencies (C11 `dep_respected`, as in `end_to_end_exp_partial`);

C12's source-driven model of `compile` returns for every label the closed-form channel `chans`, and — if the distinct
points of the channel grids are more than `tol` apart (`SepAll`, the hypothesis of C14) — C14's model of `get_full_coeffs`
(either shape of its step padding) returns a merged grid `T` and coefficient rows `rows` such that `e^{iφ}` times the product of the slice exponentials
`exp(−i·dt_k·Σ_m rows[m][k]·H_m)` that `run_analytically` multiplies up (`Grid.runAnalytically`, no drift, `H_m` the control
Hamiltonian of label `m` on the register, prefactor `2π` included) **is the circuit's unitary `U`**.

Proof: `C12.compile_source_end_to_end` (closed form of the compiled channels), `C14.fullCoeffs_eq_repaired` (rows = step
functions on the merged grid), `Compose.channels_sliceProd` (slice product = product of `exp(−i·dur·coeff·H_label)` in
scheduled order: within a slice the active Hamiltonians act on disjoint qubits and commute, `exp(A+B) = exp A·exp B`,
`exp(sA)·exp(tA) = exp((s+t)A)`), `instrPropExp_gen`, and the scheduled-order clause of `end_to_end_exp_partial`.

Partial: `hroute`, `hph`, `h2q` as before; exact rational arithmetic; `hvalid`, `hdisj`, `hdep`, `SepAll` are hypotheses about
the schedule (C11/C12/C14), not derived from the scheduler model. -/
theorem end_to_end_pulses_partial (circular pre : Bool) (N : ℕ) (ρ : ℕ → ℝ) (P : Params ℝ) (hP : ParamsOK circular N P)
    (hroute : RouteStageDen N ρ) (gs out : List Gate) (hg : ∀ g ∈ gs, InClass N g)
    (hph : ∀ g ∈ gs, phOK g = true) (h2q : pre = false → ∀ g ∈ gs, g.qubits.length ≤ 2)
    (ht : transpileV tables pre (deviceSpec (chainDev circular)) N gs = .ok out)
    (U : Matrix (St N) (St N) ℂ) (hU : denG N ρ gs = some U) (phase0 old : ℝ) :
    ∃ (is : List (Instr ℝ)) (φ : ℝ),
      compile Real.pi (Ang.eval ρ) N P phase0 out = .ok (is, φ) ∧
      reportedPhase old φ = phaseSum (Ang.eval ρ) out ∧
      ∀ (isQ : List (Instr Rat)), is = isQ.map castI → (∀ i ∈ isQ, 0 < i.dur) →
      ∀ (enc : String × Int → ℕ), Function.Injective enc →
      ∀ (sch : Option (List Rat × List ℕ)) (cis : List Concat.Instr) (st : List Rat)
        (groups : List (ℕ × List (Rat × Concat.Wave))),
        Concat.schedule (isQ.map (toC enc)) sch = .ok (cis, st) →
        Concat.groupPulses (cis.zip st) [] = some groups → groups ≠ [] →
        (∀ g ∈ groups, Concat.ValidG (Gen.concatSrc.timeTol (groups.map (·.2))) 0 g.2) →
        GateDisjoint isQ (schedStarts (isQ.map (toC enc)) sch) →
        DepRespected is (fun k => (((schedStarts (isQ.map (toC enc)) sch).getD k 0 : ℚ) : ℝ)) →
        ∀ (tol : Rat), 0 ≤ tol →
        ∃ chans : List (List Rat × List Rat),
          Concat.compileS Gen.concatSrc (isQ.map (toC enc)) sch =
            some (.ok (some ((groups.map (·.1)).zip (chans.map some)))) ∧
          (Grid.SepAll tol (chans.map (·.1)) → ∃ (T : List Rat) (rows : List (List Rat)),
            (∀ zl w : Bool, Grid.fullCoeffsVW zl w tol (chans.map fun c => Grid.Chan.arr c.1 c.2) = .ok (T, rows)) ∧
            GateC.phase (reportedPhase old φ) • Grid.ordProdL (Grid.runAnalytically 0
              ((groups.map (·.1)).map (labelHam circular N enc)) (Grid.slices T rows)) = U) := by
  obtain ⟨is, φ, ws, h1, h2, _, h4, _, h6⟩ :=
    end_to_end_exp_partial circular pre N ρ P hP hroute gs out hg hph h2q ht U hU phase0 old
  refine ⟨is, φ, h1, h4, ?_⟩
  intro isQ his hpos enc henc sch cis st groups hs hgr hgn hvalid hdisj hdep tol htol
  subst his
  have hq : ∀ i ∈ isQ, ∀ q ∈ chanQubits circular N i, q ∈ i.gate.qubits := by
    intro i hi q hq
    exact compile_chanQubits circular N ρ P phase0 out (transpile_native_ok circular pre N gs out hg h2q ht) _ φ h1
      (castI i) (List.mem_map.mpr ⟨i, hi, rfl⟩) q hq
  obtain ⟨chans, hc, _, hprod⟩ := pulses_product circular N enc henc tol htol isQ ws h2 hpos sch cis st groups hs hgr hgn
    hvalid (pulseDisjoint_of_gateDisjoint circular N isQ _ hq hdisj)
  refine ⟨chans, hc, ?_⟩
  intro hsep
  obtain ⟨T, rows, hfull, heq, _⟩ := hprod hsep
  refine ⟨T, rows, hfull, ?_⟩
  rw [heq]
  obtain ⟨hσ, _, hsorted⟩ := schedule_pairs enc isQ sch cis st (fun i hi => (hpos i hi).le) hs
  apply h6 _ _ _ hdep (by rw [List.length_map]; exact hσ)
  · exact (List.pairwise_map.mp hsorted).imp (fun h => by simp only; exact_mod_cast h)
  · intro i hi
    obtain ⟨j, hj, rfl⟩ := List.mem_map.mp hi
    have := hpos j hj
    show (0 : ℝ) < ((j.dur : ℚ) : ℝ)
    exact_mod_cast this

-- non-vacuity of the schedule hypotheses: RX on qubit 0 and RZ on qubit 1 in parallel, then a second RX on qubit 0 (same
-- channel, no gap), open chain of 2, any injective label numbering: `_schedule` accepts, the grouping loop builds two
-- channels, both `ValidG` at the source's `time_tol`, instructions on a common qubit disjoint in time, durations positive
example (enc : String × Int → ℕ) (henc : Function.Injective enc) :
    let isQ : List (Instr Rat) := [⟨⟨.RX, [0], [], .pi8 4⟩, some ("sx", 0), 1/4, 1/2⟩,
      ⟨⟨.RZ, [1], [], .pi8 4⟩, some ("sz", 1), 1/4, 1/2⟩, ⟨⟨.RX, [0], [], .pi8 2⟩, some ("sx", 0), 1/4, 1/4⟩]
    let sch : Option (List Rat × List ℕ) := some ([0, 0, 1/2], [0, 1, 2])
    let groups : List (ℕ × List (Rat × Concat.Wave)) :=
      [(enc ("sx", 0), [(0, .scalar (1/2) (1/4)), (1/2, .scalar (1/4) (1/4))]), (enc ("sz", 1), [(0, .scalar (1/2) (1/4))])]
    Concat.schedule (isQ.map (toC enc)) sch = .ok (isQ.map (toC enc), [0, 0, 1/2]) ∧
    Concat.groupPulses ((isQ.map (toC enc)).zip [0, 0, 1/2]) [] = some groups ∧
    (∀ g ∈ groups, Concat.ValidG (Gen.concatSrc.timeTol (groups.map (·.2))) 0 g.2) ∧
    GateDisjoint isQ (schedStarts (isQ.map (toC enc)) sch) ∧ (∀ i ∈ isQ, 0 < i.dur) := by
  intro isQ sch groups
  have hne : enc ("sz", 1) ≠ enc ("sx", 0) := fun h => by have := henc h; simp at this
  refine ⟨?_, ?_, ?_, ?_, ?_⟩
  · simp [isQ, sch, Concat.schedule, Concat.isSortedLE]
    omega
  · simp [isQ, groups, Concat.groupPulses, Concat.groupOne, Concat.mkWave, Concat.addPulse, toC, toRI, Compose.RI.toInstr, hne.symm]
  · have ht : Gen.concatSrc.timeTol (groups.map (·.2)) = 1/1000000000000 * (3/4) := by
      simp only [groups, List.map_cons, List.map_nil]
      decide +kernel
    intro g hg
    simp only [groups, List.mem_cons, List.not_mem_nil, or_false] at hg
    rw [ht]
    rcases hg with rfl | rfl
    · refine ⟨?_, ?_, ?_, ?_, ?_, ?_, trivial⟩
      · show (0 : Rat) < 1/2; decide +kernel
      · decide +kernel
      · left; decide +kernel
      · show (0 : Rat) < 1/4; decide +kernel
      · decide +kernel
      · left; decide +kernel
    · refine ⟨?_, ?_, ?_, trivial⟩
      · show (0 : Rat) < 1/2; decide +kernel
      · decide +kernel
      · left; decide +kernel
  · intro a b ha hb hab hsh
    have ha' : a < 3 := ha
    have hb' : b < 3 := hb
    simp only [schedStarts, sch]
    interval_cases a <;> interval_cases b <;> first | exact absurd rfl hab | skip
    all_goals
      revert hsh
      simp only [isQ, Shares, List.getElem_cons_zero, List.getElem_cons_succ]
      decide +kernel
  · intro i hi
    simp only [isQ, List.mem_cons, List.not_mem_nil, or_false] at hi
    rcases hi with rfl | rfl | rfl <;> norm_num

/-- **end_to_end_pulses_scheduled_partial.**  `end_to_end_pulses_partial` for the schedule that the MODEL of the pipeline
itself produces: `modelStarts mode isQ` (`Model/SpinChainSched.lean`, the function `drv_spinchain` runs and the
correspondence compares with the implementation) — `mode = none`: no scheduling, cumulative start times; `some false` /
`some true`: `Scheduler("ASAP"/"ALAP")`, i.e. C05/C11's `Sched.pulseStarts` with the commuting-family set and the
conflict-edge variant regenerated from the source.  The hypotheses about the schedule are gone: that instructions whose
gates share a qubit do not overlap, that dependencies are respected, that starts are ≥ 0 and that every channel is sorted
and non-overlapping are PROVED from `C11.timetable_valid_tree` (`modelStarts_facts`, `chain_chanJ`); that the grouping loop
succeeds is proved (`groupPulses_some`).  What the theorem still quantifies over besides circuit, device, parameters and
schedule mode: the rational list `isQ` with `is = isQ.map castI` (exact arithmetic), the label numbering `enc`, and the
answer `perm` of `np.argsort` (any permutation `_schedule` accepts).

The last clause repeats the statement for the channel list of the WHOLE processor: `all` lists the labels of all its
controls (`sx_k`, `sz_k`, `g_k` in the order of the processor's pulse list — any list of distinct numbers containing the
labels in use), a control that received no pulse enters `get_full_coeffs` as `Chan.absent` and gets a row of zeros
(`fullCoeffsVW_mixed`), the merged grid `T` is the same and the product over all controls is the same unitary
(`channels_sliceProd_all`).

Remaining named hypotheses, each with the reason it cannot be dropped:
* `hpulse` — some instruction carries a pulse (a circuit of IDLE / GLOBALPHASE gates only has no control channel: C14's
  model of `get_full_coeffs` then raises, `C12.idle_only_counterexample`; the implementation returns the identity by a
  special case, fixes/C06-1);
* `hgap : GapsResolved` — on every channel an idle gap is `0` or above the source's `time_tol`
  (`C12.tolerance_counterexample`: a gap of `2⁻⁴⁰` gets no idle point and the next pulse's coefficient is applied during
  the gap; in a spin-chain circuit such a gap is the duration of a tiny rotation on the same qubit between two pulses of one
  channel);
* `SepAll tol` — distinct grid points of different channels are more than `tol` apart (otherwise `get_full_tlist` drops
  one of them and the slices no longer align with the pulse windows: C14's `merged_contains` needs it);
* `hroute`, `hph`, `h2q` as before. -/
theorem end_to_end_pulses_scheduled_partial (circular pre : Bool) (N : ℕ) (ρ : ℕ → ℝ) (P : Params ℝ)
    (hP : ParamsOK circular N P) (hroute : RouteStageDen N ρ) (gs out : List Gate) (hg : ∀ g ∈ gs, InClass N g)
    (hph : ∀ g ∈ gs, phOK g = true) (h2q : pre = false → ∀ g ∈ gs, g.qubits.length ≤ 2)
    (ht : transpileV tables pre (deviceSpec (chainDev circular)) N gs = .ok out)
    (U : Matrix (St N) (St N) ℂ) (hU : denG N ρ gs = some U) (phase0 old : ℝ) :
    ∃ (is : List (Instr ℝ)) (φ : ℝ),
      compile Real.pi (Ang.eval ρ) N P phase0 out = .ok (is, φ) ∧
      reportedPhase old φ = phaseSum (Ang.eval ρ) out ∧
      ∀ (isQ : List (Instr Rat)), is = isQ.map castI → (∀ i ∈ isQ, 0 < i.dur) →
      ∀ (enc : String × Int → ℕ), Function.Injective enc →
      ∀ (mode : Option Bool) (st0 : List Rat), modelStarts mode isQ = some st0 →
      ∀ (perm : List ℕ) (cis : List Concat.Instr) (st : List Rat),
        Concat.schedule (isQ.map (toC enc)) (schOf mode st0 perm) = .ok (cis, st) →
        (∃ i ∈ isQ, i.chan.isSome = true) → GapsResolved (cis.zip st) →
        ∀ (tol : Rat), 0 ≤ tol →
        ∃ (groups : List (ℕ × List (Rat × Concat.Wave))) (chans : List (List Rat × List Rat)),
          Concat.groupPulses (cis.zip st) [] = some groups ∧
          Concat.compileS Gen.concatSrc (isQ.map (toC enc)) (schOf mode st0 perm) =
            some (.ok (some ((groups.map (·.1)).zip (chans.map some)))) ∧
          (Grid.SepAll tol (chans.map (·.1)) → ∃ (T : List Rat) (rows : List (List Rat)),
            (∀ zl w : Bool, Grid.fullCoeffsVW zl w tol (chans.map fun c => Grid.Chan.arr c.1 c.2) = .ok (T, rows)) ∧
            GateC.phase (reportedPhase old φ) • Grid.ordProdL (Grid.runAnalytically 0
              ((groups.map (·.1)).map (labelHam circular N enc)) (Grid.slices T rows)) = U ∧
            -- … and with EVERY control of the processor in the channel list (`all`: the labels of all controls; a control
            -- that received no pulse is `Chan.absent`, a row of zeros), same merged grid
            ∀ (all : List ℕ), all.Nodup → (∀ g ∈ groups, g.1 ∈ all) → ∃ rows' : List (List Rat),
              (∀ zl w : Bool, Grid.fullCoeffsVW zl w tol
                (all.map fun l => optChan (((groups.map (·.1)).zip chans).lookup l)) = .ok (T, rows')) ∧
              GateC.phase (reportedPhase old φ) • Grid.ordProdL (Grid.runAnalytically 0
                (all.map (labelHam circular N enc)) (Grid.slices T rows')) = U) := by
  obtain ⟨is, φ, ws, h1, h2, _, h4, _, h6⟩ :=
    end_to_end_exp_partial circular pre N ρ P hP hroute gs out hg hph h2q ht U hU phase0 old
  refine ⟨is, φ, h1, h4, ?_⟩
  intro isQ his hpos enc henc mode st0 hst perm cis st hs hpulse hgap tol htol
  subst his
  have hnatg := transpile_native_ok circular pre N gs out hg h2q ht
  have hq := compile_chanQubits circular N ρ P phase0 out hnatg _ φ h1
  have hnat : ∀ i ∈ isQ, NatInstr i.gate := fun i hi =>
    compile_natInstr circular N ρ P phase0 out hnatg _ φ h1 (castI i) (List.mem_map.mpr ⟨i, hi, rfl⟩)
  obtain ⟨hf, groups, chans, hgr, hc, hprod⟩ := pulses_product_sched circular N enc henc tol htol isQ ws h2 hpos hnat
    (chanOK_of_cast circular N isQ ws h2 hq) mode st0 hst perm cis st hs hpulse hgap
  refine ⟨groups, chans, hgr, hc, ?_⟩
  intro hsep
  obtain ⟨T, rows, hfull, heq, hallc⟩ := hprod hsep
  suffices key : GateC.phase (reportedPhase old φ) •
      ordProd ((schedOrder isQ.length (schOf mode st0 perm)).map fun k => ws.getD k 1) = U by
    refine ⟨T, rows, hfull, by rw [heq]; exact key, ?_⟩
    intro all hall hsub
    obtain ⟨rows', hf', he'⟩ := hallc all hall hsub
    exact ⟨rows', hf', by rw [he']; exact key⟩
  obtain ⟨hσ, _, hsorted⟩ := schedule_pairs enc isQ _ cis st (fun i hi => (hpos i hi).le) hs
  rw [schedStarts_schOf enc mode isQ st0 perm hst] at hsorted
  apply h6 (fun k => ((st0.getD k 0 : ℚ) : ℝ)) _ _ _ (by rw [List.length_map]; exact hσ)
  · exact (List.pairwise_map.mp hsorted).imp (fun h => by simp only; exact_mod_cast h)
  · intro i hi
    obtain ⟨j, hj, rfl⟩ := List.mem_map.mp hi
    have := hpos j hj
    show (0 : ℝ) < ((j.dur : ℚ) : ℝ)
    exact_mod_cast this
  · intro i j hij hj hsh hns
    have hj' : j < isQ.length := by simpa using hj
    have hi' : i < isQ.length := by omega
    simp only [List.getElem_map] at hsh hns ⊢
    have := hf.dep i j hij hj' hsh hns
    show ((st0.getD i 0 : ℚ) : ℝ) + ((isQ[i].dur : ℚ) : ℝ) ≤ ((st0.getD j 0 : ℚ) : ℝ)
    exact_mod_cast this

-- non-vacuity: the pipeline's schedule of RX(q0), RZ(q1), RX(q0) (ASAP: two in parallel, then the second pulse of channel
-- sx0 without gap; no scheduling: one after the other), an `argsort` answer that exchanges the two simultaneous starts is
-- accepted by `_schedule`, and the resolution hypothesis holds (all gaps are 0)
example (enc : String × Int → ℕ) (henc : Function.Injective enc) :
    let isQ : List (Instr Rat) := [⟨⟨.RX, [0], [], .pi8 4⟩, some ("sx", 0), 1/4, 1/2⟩,
      ⟨⟨.RZ, [1], [], .pi8 4⟩, some ("sz", 1), 1/4, 1/2⟩, ⟨⟨.RX, [0], [], .pi8 2⟩, some ("sx", 0), 1/4, 1/4⟩]
    modelStarts (some false) isQ = some [0, 0, 1/2] ∧
    modelStarts none isQ = some [0, 1/2, 1] ∧
    Concat.schedule (isQ.map (toC enc)) (schOf (some false) [0, 0, 1/2] [1, 0, 2]) =
      .ok ([isQ[1], isQ[0], isQ[2]].map (toC enc), [0, 0, 1/2]) ∧
    GapsResolved (([isQ[1], isQ[0], isQ[2]].map (toC enc)).zip [0, 0, 1/2]) := by
  intro isQ
  have hne : enc ("sz", 1) ≠ enc ("sx", 0) := fun h => by have := henc h; simp at this
  refine ⟨by decide +kernel, by decide +kernel, ?_, ?_⟩
  · simp [isQ, schOf, Concat.schedule, Concat.isSortedLE]
    omega
  · intro groups hg
    have : groups = [(enc ("sz", 1), [(0, .scalar (1/2) (1/4))]),
        (enc ("sx", 0), [(0, .scalar (1/2) (1/4)), (1/2, .scalar (1/4) (1/4))])] := by
      simp [isQ, Concat.groupPulses, Concat.groupOne, Concat.mkWave, Concat.addPulse, toC, toRI, Compose.RI.toInstr, hne,
        ] at hg
      rw [← hg]; simp
    subst this
    have ht : Gen.concatSrc.timeTol (([(enc ("sz", 1), [(0, Concat.Wave.scalar (1/2) (1/4))]),
        (enc ("sx", 0), [(0, .scalar (1/2) (1/4)), (1/2, .scalar (1/4) (1/4))])] :
        List (ℕ × List (Rat × Concat.Wave))).map (·.2)) = 1/1000000000000 * (3/4) := by
      simp only [List.map_cons, List.map_nil]
      decide +kernel
    intro g hgm
    rw [ht]
    simp only [List.mem_cons, List.not_mem_nil, or_false] at hgm
    rcases hgm with rfl | rfl
    · exact ⟨Or.inl (by decide +kernel), trivial⟩
    · exact ⟨Or.inl (by decide +kernel), Or.inl (by decide +kernel), trivial⟩

/-- **end_to_end_pulses_model_partial.**  `end_to_end_pulses_scheduled_partial` without the hypothesis "`is` is the cast of
a rational list": the theorem speaks about the `Rat` instance of the compiler model itself (`compile (1 : Rat) (evQr r)`,
angles in units of π, `pi := 1` — the instance `drv_spinchain` runs), and `compile_cast` proves that its instruction list,
cast to `ℝ`, IS the instruction list of the real-valued model.

Class covered: **every angle of the circuit is a rational multiple of π** — fixed parts are multiples of π/8 and every
symbol `j` is valued at `r j · π` with `r j ∈ ℚ` (`ρ j = π · r j`; any rational multiple of π can be written so) — and
**rational hardware strengths** `Pq` (`ParamsOK` for their cast: lengths as `_compute_params`, all non-zero).  Irrational
strengths, and angles that are not rational multiples of π, give irrational durations and are outside (for them
`end_to_end_pulses_scheduled_partial` applies whenever a rational list exists, i.e. never); floats of the implementation are
rationals, their rounding is not modelled.

`hidle` — the transpiled circuit contains no IDLE gate: the argument of IDLE is a plain time, not an angle, and the two
instances read it differently (`π · x` against `x`); a circuit with an IDLE gate of non-zero time has no rational instruction
list in this representation.

What the theorem quantifies over: topology, `pre`, `N`, valuation `r`, strengths `Pq`, circuit `gs` (`out` is its transpiled
form), schedule mode, the label numbering `enc` and the `argsort` answer `perm`.  Remaining named hypotheses: `hpulse`,
`GapsResolved`, `SepAll tol` (see `end_to_end_pulses_scheduled_partial` for why each cannot be dropped), `hroute`, `hph`, `h2q`. -/
theorem end_to_end_pulses_model_partial (circular pre : Bool) (N : ℕ) (r : ℕ → Rat) (Pq : Params Rat)
    (hP : ParamsOK circular N (castP Pq)) (hroute : RouteStageDen N (fun j => Real.pi * ((r j : ℚ) : ℝ)))
    (gs out : List Gate) (hg : ∀ g ∈ gs, InClass N g)
    (hph : ∀ g ∈ gs, phOK g = true) (h2q : pre = false → ∀ g ∈ gs, g.qubits.length ≤ 2)
    (ht : transpileV tables pre (deviceSpec (chainDev circular)) N gs = .ok out)
    (hidle : ∀ g ∈ out, g.name ≠ .IDLE)
    (U : Matrix (St N) (St N) ℂ) (hU : denG N (fun j => Real.pi * ((r j : ℚ) : ℝ)) gs = some U)
    (phase0Q : Rat) (old : ℝ) :
    ∃ (isQ : List (Instr Rat)) (φQ : Rat),
      compile (1 : Rat) (evQr r) N Pq phase0Q out = .ok (isQ, φQ) ∧
      (∀ i ∈ isQ, 0 < i.dur) ∧
      reportedPhase old (Real.pi * ((φQ : ℚ) : ℝ)) = phaseSum (Ang.eval fun j => Real.pi * ((r j : ℚ) : ℝ)) out ∧
      ∀ (enc : String × Int → ℕ), Function.Injective enc →
      ∀ (mode : Option Bool) (st0 : List Rat), modelStarts mode isQ = some st0 →
      ∀ (perm : List ℕ) (cis : List Concat.Instr) (st : List Rat),
        Concat.schedule (isQ.map (toC enc)) (schOf mode st0 perm) = .ok (cis, st) →
        (∃ i ∈ isQ, i.chan.isSome = true) → GapsResolved (cis.zip st) →
        ∀ (tol : Rat), 0 ≤ tol →
        ∃ (groups : List (ℕ × List (Rat × Concat.Wave))) (chans : List (List Rat × List Rat)),
          Concat.groupPulses (cis.zip st) [] = some groups ∧
          Concat.compileS Gen.concatSrc (isQ.map (toC enc)) (schOf mode st0 perm) =
            some (.ok (some ((groups.map (·.1)).zip (chans.map some)))) ∧
          (Grid.SepAll tol (chans.map (·.1)) → ∃ (T : List Rat) (rows : List (List Rat)),
            (∀ zl w : Bool, Grid.fullCoeffsVW zl w tol (chans.map fun c => Grid.Chan.arr c.1 c.2) = .ok (T, rows)) ∧
            GateC.phase (reportedPhase old (Real.pi * ((φQ : ℚ) : ℝ))) • Grid.ordProdL (Grid.runAnalytically 0
              ((groups.map (·.1)).map (labelHam circular N enc)) (Grid.slices T rows)) = U ∧
            -- … and with EVERY control of the processor in the channel list (`all`: the labels of all controls; a control
            -- that received no pulse is `Chan.absent`, a row of zeros), same merged grid
            ∀ (all : List ℕ), all.Nodup → (∀ g ∈ groups, g.1 ∈ all) → ∃ rows' : List (List Rat),
              (∀ zl w : Bool, Grid.fullCoeffsVW zl w tol
                (all.map fun l => optChan (((groups.map (·.1)).zip chans).lookup l)) = .ok (T, rows')) ∧
              GateC.phase (reportedPhase old (Real.pi * ((φQ : ℚ) : ℝ))) • Grid.ordProdL (Grid.runAnalytically 0
                (all.map (labelHam circular N enc)) (Grid.slices T rows')) = U) := by
  set ρ : ℕ → ℝ := fun j => Real.pi * ((r j : ℚ) : ℝ) with hρ
  obtain ⟨is, φ, h1, h4, H⟩ := end_to_end_pulses_scheduled_partial circular pre N ρ (castP Pq) hP hroute gs out hg hph
    h2q ht U hU 0 old
  obtain ⟨is', φ', _, h1', _, _, _, _, _, _, h8, _⟩ :=
    end_to_end_partial circular pre N ρ (castP Pq) hP hroute gs out hg hph h2q ht U hU 0 old
  rw [h1] at h1'
  simp only [Except.ok.injEq, Prod.mk.injEq] at h1'
  obtain ⟨rfl, rfl⟩ := h1'
  have hnat := transpile_native_ok circular pre N gs out hg h2q ht
  have hev : Ang.eval ρ = fun a => Real.pi * ((evQr r a : ℚ) : ℝ) := funext (eval_evQr r)
  have hcast := compile_cast circular N (evQr r) Pq out (fun g hg' => ⟨hnat g hg', hidle g hg'⟩) 0 phase0Q
  rw [← hev, h1] at hcast
  cases hq : compile (1 : Rat) (evQr r) N Pq phase0Q out with
  | error e => rw [hq] at hcast; cases hcast
  | ok res =>
    obtain ⟨isQ, φQ⟩ := res
    rw [hq] at hcast
    simp only [castOut, Except.ok.injEq, Prod.mk.injEq] at hcast
    obtain ⟨his, hφ⟩ := hcast
    have hposR : ∀ i ∈ is, 0 < i.dur := h8 rfl (fun g hg' hn => absurd hn (hidle g hg'))
    have hpos : ∀ i ∈ isQ, 0 < i.dur := by
      intro i hi
      have := hposR (castI i) (by rw [his]; exact List.mem_map.mpr ⟨i, hi, rfl⟩)
      have h' : (0 : ℝ) < ((i.dur : ℚ) : ℝ) := this
      exact_mod_cast h'
    refine ⟨isQ, φQ, rfl, hpos, by rw [← hφ]; exact h4, ?_⟩
    intro enc henc mode st0 hst perm cis st hs hpulse hgap tol htol
    rw [← hφ]
    exact H isQ his hpos enc henc mode st0 hst perm cis st hs hpulse hgap tol htol

-- non-vacuity: the `Rat` instance on a native list with a symbolic angle valued at π/3 (RZ: duration (1/3)/4/(1/2) = 1/6),
-- a GLOBALPHASE of π/4 (phase 1/4 in units of π, the compiler's old phase 7 is reset) and an ISWAP (area −1/8 at strength
-- 1/10); rational strengths meeting `ParamsOK`
example :
    let r := compile (1 : Rat) (evQr fun _ => 1/3) 2 ⟨[1/4, 1/4], [1, 1/2], [1/10]⟩ 7
        [⟨.RX, [0], [], .pi8 4⟩, ⟨.GLOBALPHASE, [], [], .pi8 2⟩, ⟨.RZ, [1], [], .symb 0⟩, ⟨.ISWAP, [0, 1], [], {}⟩]
    r.toOption.map (fun p => p.1.map (·.chan)) = some [some ("sx", 0), some ("sz", 1), some ("g", 0)] ∧
    r.toOption.map (fun p => p.1.map (·.coeff)) = some [1/4, 1/2, -1/10] ∧
    r.toOption.map (fun p => p.1.map (·.dur)) = some [1/2, 1/6, 5/4] ∧ r.toOption.map (·.2) = some (1/4) ∧
    ParamsOK false 2 (castP ⟨[1/4, 1/4], [1, 1/2], [1/10]⟩) := by
  refine ⟨by decide +kernel, by decide +kernel, by decide +kernel, by decide +kernel, ⟨rfl, rfl, rfl, ?_, ?_, ?_⟩⟩
  all_goals
    intro x hx
    simp only [castP, List.map_cons, List.map_nil, List.mem_cons, List.not_mem_nil, or_false] at hx
    rcases hx with rfl | rfl <;> norm_num

end QipVerif.C06
