import QipVerif.Lemmas.QasmImportFaithful
import QipVerif.Lemmas.QasmMat2
import QipVerif.Lemmas.QasmImportTop
import QipVerif.Lemmas.QasmCustomDen
import QipVerif.Lemmas.QasmImportW1Den
import QipVerif.Lemmas.QasmTokPre
import QipVerif.Lemmas.QasmTokFuel
import QipVerif.Lemmas.QasmTokImport
/-!
# C04 — imported OpenQASM 2.0 programs mean what the standard says

Property theorems only.  `Import.importProgram` is the model of `read_qasm` (statement level,
tables regenerated from the source); `flatten` / `denote` are the OpenQASM 2.0 static semantics
and expansion to `U`/`CX` written from the language paper (`Model/QasmSpec.lean`).

The model follows the checkout under verification: the flags `Gen.ifSkipsUnsat`, `Gen.ifReversesValue`,
`Gen.barrierChecked`, `Gen.emptyRegOk` (regenerated from the source with `ast`) say which repairs of
`_final_pass` / `_regs_processor` / `_gate_add` / `_initialize_pass` the tree has.  Theorems that need a
repair carry it as an explicit hypothesis (`Gen.… = true`); the counter-examples of the unrepaired code
carry `Gen.… = false`.  Unrepaired code: `if(c==k)` on a register of more than one bit is imported with
the bit order reversed (`if_bitorder_counterexample`), a value `k ≥ 2^n` is refused or still fires
(`if_value_counterexample`), a barrier on an undeclared register is accepted, an empty register is
refused.  In every variant `if(c==k) measure …` is refused (`if_measure_counterexample`: the circuit IR has
no conditioned measurement) — a recorded finding.
-/
namespace QipVerif.C04
open QipVerif QipVerif.Qasm QipVerif.Qasm.Import Matrix

/-! ### The shortcuts of the importer are the standard's gates -/

/-- the importer's table (`_add_qiskit_gates`, regenerated): qelib1 name, library / user gate,
qubit roles (control = first argument for every controlled gate, two controls first for `ccx`) -/
theorem shortcut_rows :
    Gen.shortcutRows = [
      (cs!"u3", cs!"QASMU", .one 0, .none, true), (cs!"u2", cs!"u2", .one 0, .none, true),
      (cs!"u1", cs!"RZ", .one 0, .none, true), (cs!"cz", cs!"CZ", .one 1, .one 0, false),
      (cs!"cy", cs!"CY", .one 1, .one 0, false), (cs!"ch", cs!"ch", .all, .none, false),
      (cs!"ccx", cs!"TOFFOLI", .one 2, .pre 2, false), (cs!"crz", cs!"CRZ", .one 1, .one 0, true),
      (cs!"cu1", cs!"CPHASE", .one 1, .one 0, true), (cs!"cu3", cs!"cu3", .many [0, 1], .none, true),
      (cs!"cx", cs!"CNOT", .one 1, .one 0, false), (cs!"x", cs!"X", .one 0, .none, true),
      (cs!"y", cs!"Y", .one 0, .none, true), (cs!"z", cs!"Z", .one 0, .none, true),
      (cs!"h", cs!"SNOT", .one 0, .none, true), (cs!"t", cs!"T", .one 0, .none, true),
      (cs!"s", cs!"S", .one 0, .none, true), (cs!"sdg", cs!"sdg", .one 0, .none, true),
      (cs!"tdg", cs!"tdg", .one 0, .none, true), (cs!"rx", cs!"RX", .one 0, .none, true),
      (cs!"ry", cs!"RY", .one 0, .none, true), (cs!"rz", cs!"RZ", .one 0, .none, true)] ∧
    Gen.userGates = [cs!"ch", cs!"cu3", cs!"id", cs!"sdg", cs!"tdg", cs!"u2"] := by decide

/-- **Shortcuts are sound.** Every `qelib1.inc` gate, expanded by the standard down to `U`/`CX`,
equals — up to ONE global phase, for all parameter values — the documented matrix of the library
gate (or of the user gate of `_get_qiskit_gates`: `u2 = QASMU(π/2,φ,λ)`, `sdg = RZ(−π/2)`,
`tdg = RZ(−π/4)`, `cu3 = controlled QASMU`, `ch = controlled SNOT`, `id` = nothing) that the
importer puts in its place according to `shortcut_rows`. -/
theorem shortcut_sound :
    (∃ ps, expandDef qelib1.reverse cs!"x" = .ok ps ∧ PhaseEq (den1 (envOf []) ps) Xm) ∧
    (∃ ps, expandDef qelib1.reverse cs!"y" = .ok ps ∧ PhaseEq (den1 (envOf []) ps) Ym) ∧
    (∃ ps, expandDef qelib1.reverse cs!"z" = .ok ps ∧ PhaseEq (den1 (envOf []) ps) Zm) ∧
    (∃ ps, expandDef qelib1.reverse cs!"h" = .ok ps ∧ PhaseEq (den1 (envOf []) ps) Hm) ∧
    (∃ ps, expandDef qelib1.reverse cs!"s" = .ok ps ∧ PhaseEq (den1 (envOf []) ps) Sm) ∧
    (∃ ps, expandDef qelib1.reverse cs!"sdg" = .ok ps ∧ PhaseEq (den1 (envOf []) ps) (RZm (-(Real.pi / 2)))) ∧
    (∃ ps, expandDef qelib1.reverse cs!"t" = .ok ps ∧ PhaseEq (den1 (envOf []) ps) Tm) ∧
    (∃ ps, expandDef qelib1.reverse cs!"tdg" = .ok ps ∧ PhaseEq (den1 (envOf []) ps) (RZm (-(Real.pi / 4)))) ∧
    (∃ ps, expandDef qelib1.reverse cs!"id" = .ok ps ∧ PhaseEq (den1 (envOf []) ps) (1 : M1)) ∧
    (∀ θ : ℝ, ∃ ps, expandDef qelib1.reverse cs!"rx" = .ok ps ∧
      PhaseEq (den1 (envOf [(cs!"theta", θ)]) ps) (RXm θ)) ∧
    (∀ θ : ℝ, ∃ ps, expandDef qelib1.reverse cs!"ry" = .ok ps ∧
      PhaseEq (den1 (envOf [(cs!"theta", θ)]) ps) (RYm θ)) ∧
    (∀ φ : ℝ, ∃ ps, expandDef qelib1.reverse cs!"rz" = .ok ps ∧
      PhaseEq (den1 (envOf [(cs!"phi", φ)]) ps) (RZm φ)) ∧
    (∀ l : ℝ, ∃ ps, expandDef qelib1.reverse cs!"u1" = .ok ps ∧
      PhaseEq (den1 (envOf [(cs!"lambda", l)]) ps) (RZm l)) ∧
    (∀ φ l : ℝ, ∃ ps, expandDef qelib1.reverse cs!"u2" = .ok ps ∧
      PhaseEq (den1 (envOf [(cs!"phi", φ), (cs!"lambda", l)]) ps) (QASMUm (Real.pi / 2) φ l)) ∧
    (∀ θ φ l : ℝ, ∃ ps, expandDef qelib1.reverse cs!"u3" = .ok ps ∧
      PhaseEq (den1 (envOf [(cs!"theta", θ), (cs!"phi", φ), (cs!"lambda", l)]) ps) (QASMUm θ φ l)) ∧
    (∃ ps, expandDef qelib1.reverse cs!"cx" = .ok ps ∧ PhaseEq (den2 (envOf []) ps) (ctrl Xm)) ∧
    (∃ ps, expandDef qelib1.reverse cs!"cz" = .ok ps ∧ PhaseEq (den2 (envOf []) ps) (ctrl Zm)) ∧
    (∃ ps, expandDef qelib1.reverse cs!"cy" = .ok ps ∧ PhaseEq (den2 (envOf []) ps) (ctrl Ym)) ∧
    (∃ ps, expandDef qelib1.reverse cs!"ch" = .ok ps ∧ PhaseEq (den2 (envOf []) ps) (ctrl Hm)) ∧
    (∀ l : ℝ, ∃ ps, expandDef qelib1.reverse cs!"crz" = .ok ps ∧
      PhaseEq (den2 (envOf [(cs!"lambda", l)]) ps) (ctrl (RZm l))) ∧
    (∀ l : ℝ, ∃ ps, expandDef qelib1.reverse cs!"cu1" = .ok ps ∧
      PhaseEq (den2 (envOf [(cs!"lambda", l)]) ps) (CPHASEm l)) ∧
    (∀ θ φ l : ℝ, ∃ ps, expandDef qelib1.reverse cs!"cu3" = .ok ps ∧
      PhaseEq (den2 (envOf [(cs!"theta", θ), (cs!"phi", φ), (cs!"lambda", l)]) ps) (ctrl (QASMUm θ φ l))) ∧
    (∃ ps, expandDef qelib1.reverse cs!"ccx" = .ok ps ∧ PhaseEq (den3 (envOf []) ps) TOFFOLIm) :=
  ⟨shortcut_x, shortcut_y, shortcut_z, shortcut_h, shortcut_s, shortcut_sdg, shortcut_t, shortcut_tdg,
   shortcut_id, shortcut_rx, shortcut_ry, shortcut_rz, shortcut_u1, shortcut_u2, shortcut_u3, shortcut_cx,
   shortcut_cz, shortcut_cy, shortcut_ch, shortcut_crz, shortcut_cu1, shortcut_cu3, shortcut_ccx⟩

/-- the importer's arity table is the signature of the built-ins and of `qelib1.inc` -/
theorem signatures_agree :
    ∀ d ∈ qelib1, Import.sigOf d.name = some (d.params.length, d.qargs.length) := by decide

example : Import.sigOf cs!"U" = some (3, 1) ∧ Import.sigOf cs!"CX" = some (0, 2) := by decide

/-! ### The imported gate list is the one the standard prescribes (class W₀) -/

/-- **Refinement (partial: class `W0`).**  For every program of the class W₀ — header,
`include "qelib1.inc"`, register declarations (quantum registers non-empty), then any number of
`U`, `CX`, `qelib1.inc` calls, `measure`, `barrier` and `if(c==k)`-conditioned gate statements
with any mix of indexed and whole-register arguments and parameter expressions over `pi`,
literals, `+ - * /` and unary minus (no literal zero divisor), no user gate definition — that the
standard's static semantics accepts (`flatten p = ok (env, fl)`), the importer model returns
`ok` with registers of the standard's sizes and **exactly** the gate list `fl.flatMap gatesOf`:
for every flat operation of the standard (every broadcast instance, same qubits, same parameter
expressions, same condition bits and value) the library gate of `shortcut_rows`, in order.
`gatesOf` of a conditioned operation: `classical_controls` = the bits of the register in register order,
`classical_control_value` = `condValue n k` (`k` itself in the original code, `k` bit-reversed in the
repaired code, see `cond_bits`), and NO gate when the repaired importer skips the statement because
`k ≥ 2^n` (`condUnsat`; such a condition never holds, `cond_never`).
`hk` (`ifRangeOk`): the tree skips such statements (`Gen.ifSkipsUnsat`), or every `if(c==k)` has
`k < 2^n` for the `n`-bit register `c` — `Gate.__init__` refuses other values
(`if_value_counterexample`); see `import_faithful` for the repaired tree.
With `Gen.emptyRegOk` the class also contains EMPTY quantum registers (their statements have no instance).
Together with `shortcut_sound` each of these gates is the standard's expansion up to a phase. -/
theorem import_faithful_partial (p : Program) (hw : W0 p) (env : Env) (fl : List FlatOp)
    (h : flatten p = .ok (env, fl)) (hk : ∀ s ∈ p, ifRangeOk env s) :
    importProgram p = .ok (env.qregs.total, env.cregs.total, fl.flatMap gatesOf) :=
  import_refines p hw env fl h hk

private def w0Example : Program :=
  [.version, .incl cs!"qelib1.inc", .qreg cs!"q" 2, .qreg cs!"r" 2, .creg cs!"c" 1,
   .qop (.call cs!"cu1" [.div .pi (.lit cs!"2")] [.whole cs!"q", .whole cs!"r"]),
   .barrier [.whole cs!"q"],
   .ifc cs!"c" 1 (.call cs!"rx" [.neg (.mul (.lit cs!"0.5") .pi)] [.idx cs!"r" 1]),
   .qop (.measure (.idx cs!"q" 0) (.idx cs!"c" 0))]

/-- the class is not empty: broadcast, a condition, a barrier, a measurement — and the standard
accepts the program -/
example : W0 w0Example ∧ (∃ env fl, flatten w0Example = .ok (env, fl) ∧ ∀ s ∈ w0Example, ifRangeOk env s) := by
  refine ⟨⟨⟨[.qreg cs!"q" 2, .qreg cs!"r" 2, .creg cs!"c" 1], _, rfl, by decide, by decide⟩, by decide⟩,
    ⟨_, _, rfl, ?_⟩⟩
  intro s hs
  simp only [w0Example, List.mem_cons, List.not_mem_nil, or_false] at hs
  rcases hs with rfl | rfl | rfl | rfl | rfl | rfl | rfl | rfl | rfl <;> simp only [ifRangeOk]
  right
  intro s0 n hf
  have : (s0, n) = (0, 1) := by
    have h2 : Regs.find? (({} : Regs).add cs!"c" 1) cs!"c" = some (0, 1) := by decide
    exact Option.some.inj (hf.symm.trans h2)
  cases this; decide

/-- **Refinement on the repaired tree (class `W0`, no restriction on the condition values).**  With the
repair that skips never-true conditions, every program of W₀ the standard accepts is imported as
`fl.flatMap gatesOf`. -/
theorem import_faithful (hfix : Gen.ifSkipsUnsat = true) (p : Program) (hw : W0 p) (env : Env)
    (fl : List FlatOp) (h : flatten p = .ok (env, fl)) :
    importProgram p = .ok (env.qregs.total, env.cregs.total, fl.flatMap gatesOf) :=
  import_refines p hw env fl h (fun s _ => by cases s <;> simp [ifRangeOk, hfix])

private def w0Repaired : Program :=
  [.version, .incl cs!"qelib1.inc", .qreg cs!"q" 2, .creg cs!"c" 2,
   .ifc cs!"c" 5 (.call cs!"x" [] [.idx cs!"q" 0]),
   .ifc cs!"c" 1 (.call cs!"cx" [] [.idx cs!"q" 0, .idx cs!"q" 1])]

/-- the class contains a condition that never holds and one on a two-bit register -/
example : W0 w0Repaired ∧ ∃ env fl, flatten w0Repaired = .ok (env, fl) :=
  ⟨⟨⟨[.qreg cs!"q" 2, .creg cs!"c" 2], _, rfl, by decide, by decide⟩, by decide⟩, ⟨_, _, rfl⟩⟩

/-- **Unitary of the imported circuit, segment by segment (partial: class `W0`).**  For every program
of W₀ that the standard accepts, with `N` qubits: the standard's meaning `denote p` (everything
expanded down to `U`/`CX` over `qelib1.inc`) and the operation list the importer model returns are
related by `SegRel N` — the two lists split, in order, into
* gate segments: a run of built-ins `prims` under one condition `c` of the standard against a run of
  library / user gates `gs`, all with `classical_controls = c.bits`, `classical_control_value = c.k`
  (both absent when `c` is absent), such that the product of the built-ins on the `N`-qubit register
  (`denPrims`, operators placed by the central embedding `Tg.embed`) equals the `denX` of `gs`
  (`compactC` matrices of the library gates, `userGateX` for `u2/sdg/tdg/cu3/ch`, `QASMU`) up to ONE
  phase per segment — a phase on a classically conditioned unitary is global in each branch;
* repaired importer only: a run of built-ins under a condition that NO classical state satisfies
  (`k ≥ 2^n`) against nothing in the circuit (`SegRel.skipped`);
* the same measurement `measure q -> c` on both sides (W₀ has no conditioned measurement);
* barriers of the standard, which have no counterpart in the circuit.
That the simulator *fires* a gate with `classical_controls = c.bits`, `classical_control_value = cvOf c` on
exactly the classical states on which the standard's condition holds is `cond_faithful` (repaired importer,
registers of any width) / `cond_onebit` (any variant, one bit); the original code fails this on wider
registers (`if_bitorder_counterexample`). -/
theorem import_den_partial (p : Program) (hw : W0 p) (env : Env) (fl : List FlatOp)
    (h : flatten p = .ok (env, fl)) (hk : ∀ s ∈ p, ifRangeOk env s) :
    ∃ ops iops, denote p = .ok (env.qregs.total, env.cregs.total, ops) ∧
      importProgram p = .ok (env.qregs.total, env.cregs.total, iops) ∧
      SegRel env.qregs.total ops iops := by
  obtain ⟨hg, hwf⟩ := flatten_wf p hw env fl h hk
  obtain ⟨ops, hops, hrel⟩ := flats_import_den env.qregs.total fl hwf
  refine ⟨ops, fl.flatMap gatesOf, ?_, import_refines p hw env fl h hk, hrel⟩
  simp only [denote, h, bind, Except.bind, hg, hops]

/-- **One unitary, one global phase (partial: class `W0`, no condition, no measurement).**  If the
standard's expansion `ops` of a W₀ program consists of unconditioned built-ins (and barriers) only
(`opsPrims ops = some prims`), then the product of these built-ins on the `N`-qubit register and
the `denX` of the imported gate list (on IR gates `denX` is the central `denG`, `denX_eq_denG`)
are equal up to ONE global phase. -/
theorem import_unitary_partial (p : Program) (hw : W0 p) (env : Env) (fl : List FlatOp)
    (h : flatten p = .ok (env, fl)) (hk : ∀ s ∈ p, ifRangeOk env s) (ops : List Qasm.Op)
    (hd : denote p = .ok (env.qregs.total, env.cregs.total, ops)) (prims : List Prim)
    (hu : Export.opsPrims ops = some prims) :
    ∃ iops A B, importProgram p = .ok (env.qregs.total, env.cregs.total, iops) ∧
      Export.denOps env.qregs.total ops = some A ∧
      denX env.qregs.total (iops.filterMap xOfIOp) = some B ∧ PhaseEqN A B := by
  obtain ⟨ops', iops, hd', hi, hrel⟩ := import_den_partial p hw env fl h hk
  rw [hd] at hd'
  simp only [Except.ok.injEq, Prod.mk.injEq, true_and] at hd'
  subst hd'
  obtain ⟨A, B, h1, h2, h3⟩ := segRel_unitary _ _ _ hrel prims hu
  exact ⟨iops, A, B, hi, by simp [Export.denOps, hu, h1], h2, h3⟩

private def w0Unitary : Program :=
  [.version, .incl cs!"qelib1.inc", .qreg cs!"q" 2, .qreg cs!"r" 2,
   .qop (.call cs!"cu1" [.div .pi (.lit cs!"2")] [.whole cs!"q", .whole cs!"r"]),
   .barrier [.whole cs!"q"],
   .qop (.call cs!"ccx" [] [.idx cs!"q" 0, .idx cs!"r" 1, .idx cs!"q" 1]),
   .qop (.U (.lit cs!"0.3") .pi (.neg .pi) (.whole cs!"r"))]

/-- the hypotheses of `import_unitary_partial` are satisfiable -/
example : W0 w0Unitary ∧ ∃ env fl ops prims, flatten w0Unitary = .ok (env, fl) ∧
    (∀ s ∈ w0Unitary, ifRangeOk env s) ∧
    denote w0Unitary = .ok (env.qregs.total, env.cregs.total, ops) ∧ Export.opsPrims ops = some prims := by
  refine ⟨⟨⟨[.qreg cs!"q" 2, .qreg cs!"r" 2], _, rfl, by decide, by decide⟩, by decide⟩,
    ⟨_, _, _, _, rfl, ?_, rfl, rfl⟩⟩
  intro s hs
  simp only [w0Unitary, List.mem_cons, List.not_mem_nil, or_false] at hs
  rcases hs with rfl | rfl | rfl | rfl | rfl | rfl | rfl | rfl <;> simp only [ifRangeOk]

/-! ### User gate definitions -/

/-- **User gates: `_custom_gate` has the standard's unitary (any nesting depth).**
`U`: the user gate definitions of a program, newest first, as the standard accepts them after
`include "qelib1.inc"` (`DefsOk`: the name is new and not `U`/`CX`; formal parameters and formal qubits
pairwise distinct; every body statement is `U`, `CX`, `barrier` or a call of a gate declared earlier —
`qelib1.inc` or user — with the right numbers of parameters and qubits, expressions over `pi`,
literals, formal parameters, `+ - * /`, unary minus, formal qubits only, no repeated qubit; no divisor is
a literal zero or a bare formal parameter), at most 64 definitions (recursion budget of the model).
`storeDef`: bodies as `_initialize_pass` keeps them (barriers dropped).
For every defined gate `d`, every list `ps` of actual parameters the importer evaluates without an
exception (`ArgsOk`: supported, closed, no literal zero divisor), every register size `N` and pairwise
distinct qubits `t` of it: `_custom_gate` (model `customGate`: nested user gates inlined recursively with
parameters substituted, `qelib1.inc` gates replaced by library gates as in `shortcut_rows`) succeeds on
the local qubits `0 … k−1`; the standard's `expandCall` succeeds on `t`; and the operator of the standard's
built-ins on the `N`-qubit register equals the unitary `denX k inner` of the temporary circuit placed on `t`
(`Tg.embed` along `t`) up to ONE phase.  Induction on the list of definitions (`custom_den_aux`). -/
theorem import_custom_partial (U : List GateDef) (hU : DefsOk U) (hlen : U.length ≤ 64) (name : Str)
    (d : GateDef) (hd : U.find? (fun x => x.name == name) = some d) (N : ℕ) (ps : List Expr) (t : List ℕ)
    (hps : ArgsOk ps) (hpl : ps.length = d.params.length) (htl : t.length = d.qargs.length) (hn : t.Nodup)
    (hr : ∀ q ∈ t, q < N) :
    ∃ inner prims M A,
      customGate (U.map storeDef) 64 name ps ((List.range t.length).map Sum.inl) = .ok inner ∧
      denX d.qargs.length (inner.map xOfI) = some M ∧
      expandCall (U ++ qelib1.reverse) name ps t = .ok prims ∧ denPrims N ρ0 prims = some A ∧
      PhaseEqN A ((tgL N t d.qargs.length htl hn hr).embed M) :=
  custom_place U hU hlen name d hd N ps t hps hpl htl hn hr

private def userDefs : List GateDef :=
  [⟨cs!"outer", [cs!"t"], [cs!"a", cs!"b", cs!"c"],
      [.call cs!"inner" [.div (.id cs!"t") (.lit cs!"2"), .neg .pi] [cs!"c", cs!"a"],
       .barrier [cs!"a"], .call cs!"ccx" [] [cs!"b", cs!"c", cs!"a"]]⟩,
   ⟨cs!"inner", [cs!"x", cs!"y"], [cs!"p", cs!"q"],
      [.U (.id cs!"x") (.mul (.lit cs!"2") (.id cs!"y")) (.lit cs!"0.5") cs!"q", .CX cs!"q" cs!"p",
       .call cs!"cu1" [.add (.id cs!"x") (.id cs!"y")] [cs!"p", cs!"q"]]⟩]

/-- the class is not empty: nesting, parameter expressions, a barrier, qubits permuted -/
example : DefsOk userDefs ∧ ArgsOk [Expr.div .pi (.lit cs!"3")] :=
  ⟨⟨by decide, by decide, by decide, by decide, rfl, by decide,
    ⟨by decide, by decide, by decide, by decide, rfl, by decide, trivial⟩⟩,
   ⟨by decide, by decide, by decide⟩⟩

/-! ### Whole programs WITH user gate definitions (class W₁) -/

/-- **Refinement for whole programs with user gate definitions (partial: class `W1`).**
`W1 p decls gdefs ops`: `p` = header, `include "qelib1.inc"`, the declarations `decls`, the gate definitions
`gdefs` (accepted by the standard: `DefsOk`, any nesting depth, at most 64), then the operations `ops` —
`U`, `CX`, calls of `qelib1.inc` gates and of the DEFINED gates (indexed or whole-register arguments),
`measure`, `barrier`, `if`-conditioned gate statements; no literal zero divisor; `wf`: in calls of user
gates the name is an identifier and the parameter expressions are well formed (`ExprWf`: literals are numeric
tokens of the standard, identifiers are identifiers) — rendering is injective on such expressions
(`render_inj`), so different calls get different cache keys `name(args)`.
If the standard accepts `p` (`flatten p = ok (env, fl)`), the importer model returns registers of the
standard's sizes and, for every flat operation of the standard in order (every broadcast instance): the
library gate of `shortcut_rows` for a built-in / `qelib1.inc` call, and for a call of a user gate ONE gate
named `name(args)` on the call's qubits, with the call's condition, whose matrix is that of the temporary
circuit `inner` = `_custom_gate` on the local qubits (`gatesOf1`); the standard's gate table is then
`gdefs.reverse ++ qelib1`.  `hk`: as in `import_faithful_partial` (trivial on the repaired tree). -/
theorem import_faithful_w1_partial (p : Program) (decls : List Stmt) (gdefs : List GateDef) (ops : List Stmt)
    (hw : W1 p decls gdefs ops) (env : Env) (fl : List FlatOp) (h : flatten p = .ok (env, fl))
    (hk : ∀ s ∈ ops, ifRangeOk env s) :
    importProgram p = .ok (env.qregs.total, env.cregs.total,
      fl.flatMap (gatesOf1 (gdefs.reverse.map storeDef))) ∧ env.gates = gdefs.reverse ++ qelib1.reverse :=
  import_refines_w1 p decls gdefs ops hw env fl h hk

/-- **Unitary of the imported circuit, segment by segment — programs with user gate definitions (partial:
class `W1`).**  The standard's meaning `denote p` (every call, user gates included, expanded down to
`U`/`CX` by the standard's substitution semantics) and the imported operation list are related by
`SegRel1 N`: in order, gate segments — a run of built-ins under one condition against imported operations
(library gates and user gates) carrying that condition, with `denPrims N prims` = `denIOps N seg` up to ONE
phase, where a user gate `name(args)` on targets `t` denotes the unitary of its temporary circuit on the local
qubits placed on `t` by the central embedding (`denCustom`); never-true conditions against nothing (repaired
importer); the same measurements; barriers without counterpart. -/
theorem import_den_w1_partial (p : Program) (decls : List Stmt) (gdefs : List GateDef) (ops : List Stmt)
    (hw : W1 p decls gdefs ops) (env : Env) (fl : List FlatOp) (h : flatten p = .ok (env, fl))
    (hk : ∀ s ∈ ops, ifRangeOk env s) :
    ∃ sops iops, denote p = .ok (env.qregs.total, env.cregs.total, sops) ∧
      importProgram p = .ok (env.qregs.total, env.cregs.total, iops) ∧
      SegRel1 env.qregs.total sops iops :=
  import_den_w1 p decls gdefs ops hw env fl h hk

/-- **One unitary, one global phase — programs with user gate definitions, no condition, no measurement.** -/
theorem import_unitary_w1_partial (p : Program) (decls : List Stmt) (gdefs : List GateDef) (ops : List Stmt)
    (hw : W1 p decls gdefs ops) (env : Env) (fl : List FlatOp) (h : flatten p = .ok (env, fl))
    (hk : ∀ s ∈ ops, ifRangeOk env s) (sops : List Qasm.Op)
    (hd : denote p = .ok (env.qregs.total, env.cregs.total, sops)) (prims : List Prim)
    (hu : Export.opsPrims sops = some prims) :
    ∃ iops A B, importProgram p = .ok (env.qregs.total, env.cregs.total, iops) ∧
      Export.denOps env.qregs.total sops = some A ∧ denIOps env.qregs.total iops = some B ∧ PhaseEqN A B := by
  obtain ⟨sops', iops, hd', hi, hrel⟩ := import_den_w1 p decls gdefs ops hw env fl h hk
  rw [hd] at hd'
  simp only [Except.ok.injEq, Prod.mk.injEq, true_and] at hd'
  subst hd'
  obtain ⟨A, B, h1, h2, h3⟩ := segRel1_unitary _ _ _ hrel prims hu
  exact ⟨iops, A, B, hi, by simp [Export.denOps, hu, h1], h2, h3⟩

private def w1Defs : List GateDef :=
  [⟨cs!"inner", [cs!"x", cs!"y"], [cs!"p", cs!"q"],
      [.U (.id cs!"x") (.mul (.lit cs!"2") (.id cs!"y")) (.lit cs!"0.5") cs!"q", .CX cs!"q" cs!"p",
       .call cs!"cu1" [.add (.id cs!"x") (.id cs!"y")] [cs!"p", cs!"q"]]⟩,
   ⟨cs!"outer", [cs!"t"], [cs!"a", cs!"b", cs!"c"],
      [.call cs!"inner" [.div (.id cs!"t") (.lit cs!"2"), .neg .pi] [cs!"c", cs!"a"],
       .barrier [cs!"a"], .call cs!"ccx" [] [cs!"b", cs!"c", cs!"a"]]⟩]

private def w1Ops : List Stmt :=
  [.qop (.call cs!"outer" [.div .pi (.lit cs!"3")] [.idx cs!"q" 2, .idx cs!"q" 0, .idx cs!"r" 1]),
   .barrier [.whole cs!"q"],
   .qop (.call cs!"inner" [.lit cs!"0.25", .pi] [.whole cs!"q", .whole cs!"r"]),
   .qop (.call cs!"h" [] [.whole cs!"r"]),
   .ifc cs!"c" 1 (.call cs!"outer" [.div .pi (.lit cs!"3")] [.idx cs!"r" 0, .idx cs!"r" 1, .idx cs!"r" 2])]

private def w1Example : Program :=
  .version :: .incl cs!"qelib1.inc" :: ([.qreg cs!"q" 3, .qreg cs!"r" 3, .creg cs!"c" 1] ++ (w1Defs.map Stmt.gate ++ w1Ops))

/-- the class W₁ is not empty: two definitions (one nested in the other, a barrier in a body, qubits
permuted), a broadcast call of a user gate, the same user gate called twice (cache hit), a condition —
and the standard accepts the program -/
example : W1 w1Example [.qreg cs!"q" 3, .qreg cs!"r" 3, .creg cs!"c" 1] w1Defs w1Ops ∧
    ∃ env fl, flatten w1Example = .ok (env, fl) := by
  refine ⟨⟨rfl, by decide, by decide, ?_, by decide, Or.inr (by decide), by decide, ?_⟩, ⟨_, _, rfl⟩⟩
  · exact ⟨by decide, by decide, by decide, by decide, rfl, by decide,
      ⟨by decide, by decide, by decide, by decide, rfl, by decide, trivial⟩⟩
  · intro s hs n ps hc _
    simp only [w1Ops, List.mem_cons, List.not_mem_nil, or_false] at hs
    rcases hs with rfl | rfl | rfl | rfl | rfl <;>
      simp only [callOf, callOfOp, Option.some.injEq, Prod.mk.injEq, reduceCtorEq] at hc <;>
      obtain ⟨rfl, rfl⟩ := hc <;> exact ⟨by decide, by decide⟩

/-! ### Rendering of parameter expressions is injective (cache keys of user gates) -/

/-- **Rendering is injective on well-formed expressions** (`ExprWf`: literals are numeric tokens of the standard,
identifiers are identifiers and not keywords, functions are `sin cos tan exp ln sqrt`; `pi`, unary minus and
`+ - * / ^` at any nesting): the strict parser ∘ the strict lexer ∘ `Expr.render` is the identity.  So the model's
input (a tree) and the implementation's input (its text) determine each other. -/
theorem render_injective (e e' : Expr) (h : ExprWf e = true) (h' : ExprWf e' = true)
    (hr : e.render = e'.render) : e = e' :=
  render_inj h h' hr

/-- **Cache keys of user gates are injective**: `name(arg tokens)` determines the name and the parameter
expressions (names without `(`, well-formed expressions) -/
theorem cache_key_injective (n n' : Str) (ps ps' : List Expr) (hn : ∀ c ∈ n, c ≠ '(') (hn' : ∀ c ∈ n', c ≠ '(')
    (hw : ∀ e ∈ ps, ExprWf e = true) (hw' : ∀ e ∈ ps', ExprWf e = true)
    (h : customName n ps = customName n' ps') : n = n' ∧ ps = ps' :=
  customName_inj n n' ps ps' hn hn' hw hw' h

/-- outside the class rendering does collide: a "literal" with a sign, an "identifier" with an operator -/
theorem render_collisions :
    ((Expr.lit cs!"-1").render = (Expr.neg (.lit cs!"1")).render ∧ Expr.lit cs!"-1" ≠ .neg (.lit cs!"1")) ∧
    ((Expr.id cs!"a+b").render = (Expr.add (.id cs!"a") (.id cs!"b")).render ∧
      Expr.id cs!"a+b" ≠ .add (.id cs!"a") (.id cs!"b")) ∧
    customName cs!"g(pi)" [] = customName cs!"g" [.pi] :=
  ⟨⟨render_collision_lit.1, render_collision_lit.2.1⟩, ⟨render_collision_id.1, render_collision_id.2.1⟩,
    customName_collision_name⟩

example : ExprWf (.div (.neg (.add (.id cs!"a") (.lit cs!"2.5"))) (.mul .pi (.lit cs!"3"))) = true := by decide

/-! ### The line tokenizer (`read_qasm` up to and including `_tokenize`) -/

/-- **The tokenizer on rendered programs.**  `Tok.tokenize` is the Lean model of `_tokenize` /
`_tokenize_line` (the padding of brackets, the split at `;`, the three branches of `_tokenize_line` with their
four regular expressions transcribed as backtracking matchers; tied to the code by an exact correspondence on
rendered, re-laid-out and malformed texts).  For EVERY program of the class `TokClass` (every statement kind;
identifiers, numerals and file names are non-empty runs of characters other than blanks and `( ) [ ] { } ; ,`;
any number of statements, operands and parameters, expressions of any depth; no parameterised gate named `if`),
tokenizing the program rendered one statement per line yields exactly the token lists `tokensOf` of its
statements — the lists the later passes (`_gate_processor`, `_regs_processor`, the `qreg` / `measure` / `if`
handling) consume. -/
theorem tokenizer_faithful (p : Program) (h : Tok.TokClass p = true) :
    Tok.tokenize (renderProgram p) = .ok (p.flatMap Tok.tokensOf) :=
  Tok.tokenize_render p h

/-- … including the pre-processing of `read_qasm` (stripping, comment handling, the header test), for programs
none of whose rendered lines contains `//` -/
theorem read_tokens_faithful (p : Program) (h : Tok.TokClass p = true) (hc : Tok.noComment p = true) :
    Tok.readTokens (renderProgram (.version :: p)) = .ok (p.flatMap Tok.tokensOf) :=
  Tok.readTokens_render p h hc

/-- the recursion bound of the model of `_tokenize_line` is never reached, and the parameter tokens are those
the importer model builds its cache keys from -/
theorem tokenizer_total (cmd : Str) : Tok.tokenizeLine cmd ≠ .error .fuel ∧
    ∀ e : Expr, Tok.exprOk e = true → Tok.argToken e = Import.argToken e :=
  ⟨Tok.tokenizeLine_fuel cmd, Tok.argToken_eq_import⟩

example : Tok.TokClass Tok.exProg = true ∧ Tok.noComment Tok.exProg = true := by decide

/-! ### The condition of an `if` statement -/

/-- on a one-bit register the simulator's test of `classical_controls = [b]`, value `k` is the
standard's condition `c == k` (every variant of the importer: one bit reversed is itself) -/
theorem cond_onebit (b k : Nat) (st : Nat → Bool) (hk : k < 2) :
    simFires [b] k st = Cond.holds ⟨[b], k⟩ st := by
  have : k = 0 ∨ k = 1 := by omega
  rcases this with rfl | rfl <;> cases h : st b <;> simp [simFires, binDigits, Cond.holds, leValue, h]

/-- **Registers of ANY width.**  `bits`: the classical bits of the register in register order (what the
importer lists as `classical_controls`), `k < 2^n` the value of `if(c==k)`.  With the value
`pyRevBits n k` — the binary numeral of `k` padded to `n` digits and read backwards, Python
`int("{:0{}b}".format(k, n)[::-1], 2)`, what the repaired importer passes on — the simulator's test
(`simFires`: digit `i` of the value, most significant first, against the `i`-th listed bit) holds on exactly
the classical states on which the standard's condition holds (the register read as an integer whose bit 0 is
`c[0]` equals `k`). -/
theorem cond_bits (bits : List Nat) (k : Nat) (st : Nat → Bool) (hk : k < 2 ^ bits.length) :
    simFires bits (pyRevBits bits.length k) st = Cond.holds ⟨bits, k⟩ st :=
  simFires_pyRevBits bits k st hk

example : pyRevBits 3 1 = 4 ∧ pyRevBits 3 6 = 3 ∧ pyRevBits 2 1 = 2 ∧ pyRevBits 1 1 = 1 ∧ pyRevBits 0 0 = 0 := by
  decide

/-- a value that does not fit the register (`k ≥ 2^n`) is never the value of the register: the statement
never acts -/
theorem cond_never (bits : List Nat) (k : Nat) (hk : 2 ^ bits.length ≤ k) (st : Nat → Bool) :
    Cond.holds ⟨bits, k⟩ st = false :=
  cond_never_holds bits k hk st

/-- **The imported condition is the standard's condition (repaired importer).**  For a condition `c` of the
standard (`c.bits` = the register's bits, bit 0 first; `c.k` the value): if the value fits, the gates of
`gatesOf` carry `classical_controls = c.bits` and the `classical_control_value` `v = cvOf c` for which the
simulator fires exactly when `c` holds; if it does not fit, the importer adds no gate (`condUnsat`) and `c`
never holds. -/
theorem cond_faithful (hrev : Gen.ifReversesValue = true) (hskip : Gen.ifSkipsUnsat = true) (c : Cond) :
    (c.k < 2 ^ c.bits.length → condUnsat (some c) = false ∧ ccOf (some c) = some c.bits ∧
      ∃ v, cvOf (some c) = some v ∧ ∀ st, simFires c.bits v st = c.holds st) ∧
    (2 ^ c.bits.length ≤ c.k → condUnsat (some c) = true ∧ ∀ st, c.holds st = false) := by
  refine ⟨fun hk => ⟨?_, rfl, _, rfl, fun st => ?_⟩, fun hk => ⟨?_, fun st => cond_never c.bits c.k hk st⟩⟩
  · simp only [condUnsat, condSkipped, Bool.and_eq_false_iff, decide_eq_false_iff_not]
    right; omega
  · simp only [condValue, hrev, if_true]
    exact cond_bits c.bits c.k st hk
  · simp [condUnsat, condSkipped, hskip, hk]

example : (1 : Nat) < 2 ^ ([0, 1] : List Nat).length ∧ 2 ^ ([0, 1] : List Nat).length ≤ 5 := by decide

/-! ### Rejections -/

/-- **Undeclared gate**: a call of a name that is neither built in, nor of `qelib1.inc`, nor defined
in the program is refused (whatever the rest of the program is). -/
theorem import_rejects_undeclared_gate (rest : List Stmt) (st : Init) (hi : initPass rest {} = .ok st)
    (n : Str) (ps : List Expr) (qs : List Arg) (hs : Stmt.qop (.call n ps qs) ∈ st.rest)
    (hn : isGateName st.defs n = false) : IsErr (importProgram (.version :: rest)) :=
  importProgram_error rest st hi _ hs (fun known => ⟨.syntax, by simp [stepStmt, qopAdd, hn]⟩)

/-- **Undeclared register / index out of range**: a gate statement one of whose arguments names an
undeclared quantum register, or indexes a register beyond its size, is refused. -/
theorem import_rejects_bad_argument (rest : List Stmt) (st : Init) (hi : initPass rest {} = .ok st)
    (n : Str) (ps : List Expr) (qs : List Arg) (hs : Stmt.qop (.call n ps qs) ∈ st.rest)
    (a : Arg) (ha : a ∈ qs)
    (hbad : (∃ r, (a = .whole r ∨ ∃ i, a = .idx r i) ∧ regFind st.qregs r = none) ∨
            (∃ r i s k, a = .idx r i ∧ regFind st.qregs r = some (s, k) ∧ k ≤ i)) :
    IsErr (importProgram (.version :: rest)) := by
  refine importProgram_error rest st hi _ hs (fun known => ?_)
  have hq : IsErr (resolveQ st a) := by
    rcases hbad with ⟨r, h1, h2⟩ | ⟨r, i, s, k, rfl, h2, h3⟩
    · exact ⟨.key, resolveQ_undeclared st a r h1 h2⟩
    · exact ⟨.value, resolveQ_range st r i s k h2 h3⟩
  have hg := fun cc cv => gateAdd_error_of_regSet st known n ps qs cc cv (regSet_error st qs a ha hq)
  simp only [stepStmt, qopAdd]
  by_cases hn : isGateName st.defs n = true
  · simpa [hn] using hg none none
  · exact ⟨.syntax, by simp [hn]⟩

/-- **Wrong arity**: one resolved instance of a built-in / `qelib1.inc` gate with a wrong number of
parameters or of qubits is refused. -/
theorem import_rejects_arity (name : Str) (regs : List Nat) (args : List Expr) (cc : Option (List Nat))
    (cv : Option Nat) (np nq : Nat) (hs : sigOf name = some (np, nq)) (h : args.length ≠ np ∨ regs.length ≠ nq) :
    addPredefined name regs args cc cv = .error .value :=
  addPredefined_arity name regs args cc cv np nq hs h

/-- **Barrier operands (repaired importer)**: a `barrier` statement one of whose operands names an
undeclared quantum register, or indexes a register beyond its size, is refused (the original code drops
barrier statements unread). -/
theorem import_rejects_bad_barrier (hfix : Gen.barrierChecked = true) (rest : List Stmt) (st : Init)
    (hi : initPass rest {} = .ok st) (qs : List Arg) (hs : Stmt.barrier qs ∈ st.rest) (a : Arg) (ha : a ∈ qs)
    (hbad : (∃ r, (a = .whole r ∨ ∃ i, a = .idx r i) ∧ regFind st.qregs r = none) ∨
            (∃ r i s k, a = .idx r i ∧ regFind st.qregs r = some (s, k) ∧ k ≤ i)) :
    IsErr (importProgram (.version :: rest)) := by
  refine importProgram_error rest st hi _ hs (fun known => ?_)
  have hq : IsErr (resolveQ st a) := by
    rcases hbad with ⟨r, h1, h2⟩ | ⟨r, i, s, k, rfl, h2, h3⟩
    · exact ⟨.key, resolveQ_undeclared st a r h1 h2⟩
    · exact ⟨.value, resolveQ_range st r i s k h2 h3⟩
  obtain ⟨e, he⟩ := resolveQs_error st false qs a ha hq none
  exact ⟨e, by simp [stepStmt, hfix, barrierCheck, he, Except.map]⟩

/-- **Barrier inside a gate body (repaired importer)**: an operand that is not a formal qubit of the gate
makes `_initialize_pass` refuse the definition. -/
theorem import_rejects_body_barrier (hfix : Gen.barrierChecked = true) (defs : List GateDef)
    (params qargs : List Str)
    (body : List GOp) (qs : List Str) (hb : GOp.barrier qs ∈ body) (q : Str) (hq : q ∈ qs)
    (hnq : qargs.contains q = false) : IsErr (bodyPass defs params qargs body) := by
  induction body with
  | nil => cases hb
  | cons g gs ih =>
    rcases List.mem_cons.mp hb with rfl | hmem
    · have : qs.all qargs.contains = false := by
        rw [List.all_eq_false]
        exact ⟨q, hq, by rw [hnq]; decide⟩
      exact ⟨.value, by simp [bodyPass, hfix, this]⟩
    · obtain ⟨e, he⟩ := ih hmem
      cases g with
      | barrier qs' =>
        simp only [bodyPass, hfix, Bool.true_and]
        split
        · exact ⟨.value, rfl⟩
        · exact ⟨e, he⟩
      | U a b c x =>
        simp only [bodyPass]
        split
        · exact ⟨_, rfl⟩
        · exact ⟨e, by simp [he, Except.map]⟩
      | CX a b =>
        simp only [bodyPass]
        split
        · exact ⟨_, rfl⟩
        · exact ⟨e, by simp [he, Except.map]⟩
      | call n ps xs =>
        simp only [bodyPass]
        split
        · split
          · exact ⟨_, rfl⟩
          · exact ⟨e, by simp [he, Except.map]⟩
        · exact ⟨.syntax, rfl⟩

/-- **Malformed statement in a gate body (repaired importer: `_check_body_call`)**: a definition one of whose
body statements `n(ps) qs` fails the check — an operand that is not a formal qubit of the gate (also when it
is only handed on to another user gate), a repeated operand, a wrong number of parameters or qubits for the
called built-in / `qelib1.inc` / user gate, the power operator, an identifier that is neither `pi` nor a formal
parameter (`bodyCheck … = some e`) — makes `_initialize_pass` refuse the definition, whether the gate is ever
called or not.  (The original code looked at a body only when the gate was called, and never at an operand a
called user gate ignores.) -/
theorem import_rejects_body_statement (hfix : Gen.bodyChecked = true) (defs : List GateDef)
    (params qargs : List Str) (body : List GOp) (n : Str) (ps : List Expr) (qs : List Str)
    (hb : GOp.call n ps qs ∈ body) (e : Err) (hc : bodyCheck defs params qargs n ps qs = some e) :
    IsErr (bodyPass defs params qargs body) := by
  induction body with
  | nil => cases hb
  | cons g gs ih =>
    rcases List.mem_cons.mp hb with rfl | hmem
    · simp only [bodyPass, hfix, if_true, hc]
      split
      · exact ⟨_, rfl⟩
      · exact ⟨_, rfl⟩
    · obtain ⟨e', he'⟩ := ih hmem
      cases g with
      | barrier qs' =>
        simp only [bodyPass]
        split
        · exact ⟨_, rfl⟩
        · exact ⟨e', he'⟩
      | U a b c x =>
        simp only [bodyPass]
        split
        · exact ⟨_, rfl⟩
        · exact ⟨e', by simp [he', Except.map]⟩
      | CX a b =>
        simp only [bodyPass]
        split
        · exact ⟨_, rfl⟩
        · exact ⟨e', by simp [he', Except.map]⟩
      | call n' ps' xs =>
        simp only [bodyPass]
        split
        · split
          · exact ⟨_, rfl⟩
          · exact ⟨e', by simp [he', Except.map]⟩
        · exact ⟨.syntax, rfl⟩

/-- what `_check_body_call` refuses: an operand that is not a formal qubit; a repeated operand -/
theorem body_check_operands (defs : List GateDef) (params qargs : List Str) (n : Str) (ps : List Expr)
    (qs : List Str) :
    ((∃ q ∈ qs, qargs.contains q = false) → bodyCheck defs params qargs n ps qs = some .value) ∧
    (qs.all qargs.contains = true → strDup qs = true → bodyCheck defs params qargs n ps qs = some .value) := by
  refine ⟨fun ⟨q, hq, hn⟩ => ?_, fun h1 h2 => ?_⟩
  · have : qs.all qargs.contains = false := by
      rw [List.all_eq_false]; exact ⟨q, hq, by rw [hn]; decide⟩
    simp [bodyCheck, this]
  · simp [bodyCheck, h1, h2]

/-- **Redeclaration (repaired importer)**: a second declaration of a register name (as `qreg` or `creg`) and a second
definition of a user gate are refused by `_initialize_pass`, whatever follows. -/
theorem import_rejects_redeclaration (hfix : Gen.redeclChecked = true) (st : Init) (ss : List Stmt) :
    (∀ n k, regDeclared st n = true → initPass (.qreg n k :: ss) st = .error .value ∧
      initPass (.creg n k :: ss) st = .error .value) ∧
    (∀ d : GateDef, gateDeclared st d.name = true → initPass (.gate d :: ss) st = .error .value) :=
  ⟨fun n k h => ⟨by simp [initPass, hfix, h], by simp [initPass, hfix, h]⟩,
   fun d h => by simp [initPass, hfix, h]⟩

/-! concrete malformed programs, each refused by the model (and by the code: correspondence) -/

private def hdr : List Stmt :=
  [.version, .incl cs!"qelib1.inc", .qreg cs!"q" 2, .qreg cs!"r" 3, .creg cs!"c" 2]

/-- `rx q[0];`, `U(1,2) q[0];`, `cx q[0],q[1],r[0];` (wrong arity) -/
theorem import_rejects_arity_witnesses :
    importProgram (hdr ++ [.qop (.call cs!"rx" [] [.idx cs!"q" 0])]) = .error .value ∧
    importProgram (hdr ++ [.qop (.call cs!"U" [.lit cs!"1", .lit cs!"2"] [.idx cs!"q" 0])]) = .error .value ∧
    importProgram (hdr ++ [.qop (.call cs!"cx" [] [.idx cs!"q" 0, .idx cs!"q" 1, .idx cs!"r" 0])]) = .error .value :=
  ⟨rfl, rfl, rfl⟩

/-- `cx q[0],q[0];` (repeated qubit), `cx q,r;` (registers of sizes 2 and 3), `cx q[0],q[5];` -/
theorem import_rejects_qubit_witnesses :
    importProgram (hdr ++ [.qop (.call cs!"cx" [] [.idx cs!"q" 0, .idx cs!"q" 0])]) = .error .value ∧
    importProgram (hdr ++ [.qop (.call cs!"cx" [] [.whole cs!"q", .whole cs!"r"])]) = .error .value ∧
    importProgram (hdr ++ [.qop (.call cs!"cx" [] [.idx cs!"q" 0, .idx cs!"q" 5])]) = .error .value :=
  ⟨rfl, rfl, rfl⟩

/-- `rx(2^2) q[0];` (power operator), `rx(sin(1)) q[0];` (function), `reset q[0];`, `opaque g a;` -/
theorem import_rejects_unsupported_witnesses :
    importProgram (hdr ++ [.qop (.call cs!"rx" [.pow (.lit cs!"2") (.lit cs!"2")] [.idx cs!"q" 0])]) =
      .error .notImpl ∧
    importProgram (hdr ++ [.qop (.call cs!"rx" [.fn cs!"sin" (.lit cs!"1")] [.idx cs!"q" 0])]) = .error .name ∧
    importProgram (hdr ++ [.qop (.reset (.idx cs!"q" 0))]) = .error .notImpl ∧
    importProgram (hdr ++ [.opaque cs!"g" [] [cs!"a"]]) = .error .syntax :=
  ⟨rfl, rfl, rfl, rfl⟩

/-- barrier statements on the repaired tree: `barrier nosuch;` (undeclared register), `barrier q[7];` (index),
`barrier q,r[1],r;` (registers of different sizes are fine for a barrier), `gate g a { barrier b; x a; }` -/
theorem import_barrier_witnesses : Gen.barrierChecked = true →
    importProgram (hdr ++ [.barrier [.whole cs!"nosuch"], .qop (.call cs!"x" [] [.idx cs!"q" 0])]) = .error .key ∧
    importProgram (hdr ++ [.barrier [.idx cs!"q" 7]]) = .error .value ∧
    importProgram (hdr ++ [.barrier [.whole cs!"q", .idx cs!"r" 1, .whole cs!"r"]]) = .ok (5, 2, []) ∧
    importProgram (hdr ++ [.gate ⟨cs!"g", [], [cs!"a"], [.barrier [cs!"b"], .call cs!"x" [] [cs!"a"]]⟩]) =
      .error .value := by
  first
    | exact fun h => absurd h (by decide)
    | exact fun _ => ⟨rfl, rfl, rfl, rfl⟩

/-- empty registers on the repaired tree: `qreg z[0]; h z;` adds nothing; the arity (`cx z;`) and the
equal-size rule (`cx z,q;` with `q` of two qubits) are still enforced; `cx z,r[0];` has no instance -/
theorem import_empty_register_witnesses : Gen.emptyRegOk = true →
    importProgram (hdr ++ [.qreg cs!"z" 0, .qop (.call cs!"h" [] [.whole cs!"z"]),
      .qop (.call cs!"x" [] [.idx cs!"q" 0])]) =
      .ok (5, 2, [.gate ⟨cs!"X", [0], none, .none, none, none⟩]) ∧
    importProgram (hdr ++ [.qreg cs!"z" 0, .qop (.call cs!"cx" [] [.whole cs!"z"])]) = .error .value ∧
    importProgram (hdr ++ [.qreg cs!"z" 0, .qop (.call cs!"cx" [] [.whole cs!"z", .whole cs!"q"])]) = .error .value ∧
    importProgram (hdr ++ [.qreg cs!"z" 0, .qop (.call cs!"cx" [] [.whole cs!"z", .idx cs!"r" 0])]) = .ok (5, 2, []) := by
  first
    | exact fun h => absurd h (by decide)
    | exact fun _ => ⟨rfl, rfl, rfl, rfl⟩

/-- gate bodies on the repaired tree, in definitions that are NEVER called: an operand handed on to a user gate
that ignores it (`gate inner u,v { x u; } gate g a { inner a,nosuch; }`), a repeated qubit (`cx a,a;`), a wrong
arity (`rx a;`), a foreign identifier (`rx(z) a;`), the power operator -/
theorem import_body_witnesses : Gen.bodyChecked = true →
    let inner : Stmt := .gate ⟨cs!"inner", [], [cs!"u", cs!"v"], [.call cs!"x" [] [cs!"u"]]⟩
    importProgram (hdr ++ [inner, .gate ⟨cs!"g", [], [cs!"a"], [.call cs!"inner" [] [cs!"a", cs!"nosuch"]]⟩]) =
      .error .value ∧
    importProgram (hdr ++ [.gate ⟨cs!"g", [], [cs!"a"], [.call cs!"cx" [] [cs!"a", cs!"a"]]⟩]) = .error .value ∧
    importProgram (hdr ++ [.gate ⟨cs!"g", [], [cs!"a"], [.call cs!"rx" [] [cs!"a"]]⟩]) = .error .value ∧
    importProgram (hdr ++ [.gate ⟨cs!"g", [cs!"p"], [cs!"a"], [.call cs!"rx" [.id cs!"z"] [cs!"a"]]⟩]) =
      .error .name ∧
    importProgram (hdr ++ [.gate ⟨cs!"g", [cs!"p"], [cs!"a"],
        [.call cs!"rx" [.pow (.lit cs!"2") (.id cs!"p")] [cs!"a"]]⟩]) = .error .notImpl := by
  first
    | exact fun h => absurd h (by decide)
    | exact fun _ => ⟨rfl, rfl, rfl, rfl, rfl⟩

/-- the same definitions on the ORIGINAL code: accepted (the gate is never called) — also when the gate with
the undeclared operand IS called, because `inner` ignores its second qubit -/
theorem body_unchecked_counterexample : Gen.bodyChecked = false →
    let inner : Stmt := .gate ⟨cs!"inner", [], [cs!"u", cs!"v"], [.call cs!"x" [] [cs!"u"]]⟩
    (∃ r, importProgram (hdr ++ [inner, .gate ⟨cs!"g", [], [cs!"a"], [.call cs!"inner" [] [cs!"a", cs!"nosuch"]]⟩,
        .qop (.call cs!"g" [] [.idx cs!"q" 0])]) = .ok r) ∧
    (∃ e, denote (hdr ++ [inner, .gate ⟨cs!"g", [], [cs!"a"], [.call cs!"inner" [] [cs!"a", cs!"nosuch"]]⟩,
        .qop (.call cs!"g" [] [.idx cs!"q" 0])]) = .error e) ∧
    (∃ r, importProgram (hdr ++ [.gate ⟨cs!"g", [], [cs!"a"], [.call cs!"rx" [] [cs!"a"]]⟩]) = .ok r) := by
  first
    | exact fun h => absurd h (by decide)
    | exact fun _ => ⟨⟨_, rfl⟩, ⟨_, rfl⟩, ⟨_, rfl⟩⟩

/-- redeclarations on the repaired tree: a gate defined twice, a register declared twice (as qreg, as creg) -/
theorem import_redeclaration_witnesses : Gen.redeclChecked = true →
    importProgram (hdr ++ [.gate ⟨cs!"g", [], [cs!"a"], [.call cs!"x" [] [cs!"a"]]⟩, .qop (.call cs!"g" [] [.idx cs!"q" 0]),
      .gate ⟨cs!"g", [], [cs!"a"], [.call cs!"z" [] [cs!"a"]]⟩, .qop (.call cs!"g" [] [.idx cs!"q" 0])]) = .error .value ∧
    importProgram (hdr ++ [.qreg cs!"q" 1]) = .error .value ∧
    importProgram (hdr ++ [.creg cs!"r" 1]) = .error .value := by
  first
    | exact fun h => absurd h (by decide)
    | exact fun _ => ⟨rfl, rfl, rfl⟩

/-- the ORIGINAL code: `gate g a { x a; } g q[0]; gate g a { z a; } g q[0];` is imported, and BOTH calls get the
expansion of the LAST definition (definitions are collected before the calls are processed); the standard refuses the
program -/
theorem redeclaration_counterexample : Gen.redeclChecked = false →
    let p := hdr ++ [.gate ⟨cs!"g", [], [cs!"a"], [.call cs!"x" [] [cs!"a"]]⟩, .qop (.call cs!"g" [] [.idx cs!"q" 0]),
      .gate ⟨cs!"g", [], [cs!"a"], [.call cs!"z" [] [cs!"a"]]⟩, .qop (.call cs!"g" [] [.idx cs!"q" 0])]
    importProgram p = .ok (5, 2,
      [.custom cs!"g" [0] none none [⟨cs!"Z", [0], none, .none, none, none⟩],
       .custom cs!"g" [0] none none [⟨cs!"Z", [0], none, .none, none, none⟩]]) ∧
    flatten p = .error .redeclared := by
  first
    | exact fun h => absurd h (by decide)
    | exact fun _ => ⟨rfl, rfl⟩

/-- parameters are substituted as whole identifiers: `gate g(x,xx) a { rx(xx) a; } g(1,2) q[0];`
expands to `RX(2)` and `gate g(p) a { rx(pi*p) a; } g(3) q[0];` to `RX(pi*3)` -/
theorem import_substitution_witnesses :
    importProgram (hdr ++ [.gate ⟨cs!"g", [cs!"x", cs!"xx"], [cs!"a"], [.call cs!"rx" [.id cs!"xx"] [cs!"a"]]⟩,
        .qop (.call cs!"g" [.lit cs!"1", .lit cs!"2"] [.idx cs!"q" 0])]) =
      .ok (5, 2, [.custom cs!"g(1,2)" [0] none none
        [⟨cs!"RX", [0], none, .one (.lit cs!"2"), none, none⟩]]) ∧
    importProgram (hdr ++ [.gate ⟨cs!"g", [cs!"p"], [cs!"a"], [.call cs!"rx" [.mul .pi (.id cs!"p")] [cs!"a"]]⟩,
        .qop (.call cs!"g" [.lit cs!"3"] [.idx cs!"q" 0])]) =
      .ok (5, 2, [.custom cs!"g(3)" [0] none none
        [⟨cs!"RX", [0], none, .one (.mul .pi (.lit cs!"3")), none, none⟩]]) :=
  ⟨rfl, rfl⟩

/-! ### Counter-examples to the unrestricted statement (recorded findings) and their repairs -/

/-- `creg c[2]; if(c==1) x q[0];` on the ORIGINAL code — the importer lists the bits `[c[0], c[1]]` with
value 1; the simulator then fires on `c[0]=0, c[1]=1`, whereas the standard's condition (bit 0 is `c[0]`)
holds on `c[0]=1, c[1]=0`. -/
theorem if_bitorder_counterexample :
    let p : Program := [.version, .incl cs!"qelib1.inc", .qreg cs!"q" 1, .creg cs!"c" 2,
      .ifc cs!"c" 1 (.call cs!"x" [] [.idx cs!"q" 0])]
    let st : Nat → Bool := fun b => b == 1        -- c[0] = 0, c[1] = 1
    Gen.ifReversesValue = false →
      importProgram p = .ok (1, 2, [.gate ⟨cs!"X", [0], none, .none, some [0, 1], some 1⟩]) ∧
      simFires [0, 1] 1 st = true ∧
      (∃ env, flatten p = .ok (env, [.call (some ⟨[0, 1], 1⟩) cs!"x" [] [0]])) ∧
      Cond.holds ⟨[0, 1], 1⟩ st = false := by
  first
    | exact fun h => absurd h (by decide)
    | exact fun _ => ⟨rfl, by decide, ⟨_, rfl⟩, by decide⟩

/-- the same program on the REPAIRED code: value 2 (binary `10`: first listed bit `c[0]` = 1), and the
simulator fires on exactly the states on which the standard's condition holds -/
theorem if_bitorder_repaired :
    let p : Program := [.version, .incl cs!"qelib1.inc", .qreg cs!"q" 1, .creg cs!"c" 2,
      .ifc cs!"c" 1 (.call cs!"x" [] [.idx cs!"q" 0])]
    Gen.ifReversesValue = true →
      importProgram p = .ok (1, 2, [.gate ⟨cs!"X", [0], none, .none, some [0, 1], some 2⟩]) ∧
      ∀ st : Nat → Bool, simFires [0, 1] 2 st = Cond.holds ⟨[0, 1], 1⟩ st := by
  first
    | exact fun h => absurd h (by decide)
    | exact fun _ => ⟨rfl, fun st => cond_bits [0, 1] 1 st (by decide)⟩

/-- `creg c[2]; if(c==5) x q[0];` — never true for the standard, hence a well-formed program whose
conditioned gate never acts.  The repaired importer imports the empty circuit.  The original importer either
refuses it (`Gate.__init__` with the range test on `classical_control_value`) or imports a gate that the
simulator fires on `c[0]=1, c[1]=0`. -/
theorem if_value_counterexample :
    let p : Program := [.version, .incl cs!"qelib1.inc", .qreg cs!"q" 1, .creg cs!"c" 2,
      .ifc cs!"c" 5 (.call cs!"x" [] [.idx cs!"q" 0])]
    let st : Nat → Bool := fun b => b == 0
    (Gen.ifSkipsUnsat = true → importProgram p = .ok (1, 2, [])) ∧
    (Gen.ifSkipsUnsat = false → importProgram p = .error .value ∨
      (importProgram p = .ok (1, 2, [.gate ⟨cs!"X", [0], none, .none, some [0, 1], some 5⟩]) ∧
        simFires [0, 1] 5 st = true)) ∧
    (∃ r, denote p = .ok r) ∧ (∀ s : Nat → Bool, Cond.holds ⟨[0, 1], 5⟩ s = false) := by
  refine ⟨?_, ?_, ⟨_, rfl⟩, fun s => cond_never [0, 1] 5 (by decide) s⟩
  · first
      | exact fun h => absurd h (by decide)
      | exact fun _ => rfl
  · -- whichever holds for the regenerated tables (`Gen.gateChecksControlValue`, `Gen.ifReversesValue`)
    first
      | exact fun h => absurd h (by decide)
      | exact fun _ => Or.inl rfl
      | exact fun _ => Or.inr ⟨rfl, by decide⟩

/-- `if(c==1) measure q[0] -> c[0];` is a well-formed statement of the subset and is refused -/
theorem if_measure_counterexample :
    let p : Program := [.version, .incl cs!"qelib1.inc", .qreg cs!"q" 1, .creg cs!"c" 1,
      .ifc cs!"c" 1 (.measure (.idx cs!"q" 0) (.idx cs!"c" 0))]
    importProgram p = .error .key ∧ (∃ r, denote p = .ok r) :=
  ⟨rfl, ⟨_, rfl⟩⟩

end QipVerif.C04
