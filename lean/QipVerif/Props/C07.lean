import QipVerif.Lemmas.RouteDen
import QipVerif.Lemmas.RouteC
import QipVerif.Lemmas.RouteCond
/-!
# C07 — nearest-neighbour routing preserves the unitary and yields adjacent gates only

Property theorems only.  `Route.toChainV (Variant.rep cc) N setup gs` is the model of
`to_chain_structure(qc, setup).gates` (`Route.routeGateV` of one loop iteration) **with the four
repairs `fixes/C07-{1,2,3,4}.patch` applied**; `cc` says whether `fixes/C07-5.patch` (the re-emitted
gate keeps the classical condition of the routed gate) is in place as well — the harness reads it from
the source, every theorem below covers both values.  `Route.toChainV Variant.old` is the code as
found at the pinned commit, for which the property is false (counter-examples at the end).
`Route.adjacentGatesV` models `QubitCircuit.adjacent_gates`.

All theorems hold for every register size `N`, **every `setup` string** (`"linear"`: open chain,
`"circular"`: ring, any other string: ring, always through the wrap-around pair — `Setup.eff`), every
ordered pair of distinct in-range qubits and every handled gate name (`WellFormed`, `Handled`);
nothing is bounded.
-/
namespace QipVerif.C07
open QipVerif.Route

/-! ## one handled gate -/

/-- **(i) indices.** Every qubit index of every gate emitted for a handled gate is `< N`. -/
theorem route_in_range (cc rz : Bool) (N : Nat) (setup : Setup)
    (g : Route.Gate) (hw : WellFormedV rz N g) (hh : HandledV rz g) (out : List Route.Gate)
    (ho : routeGateV (.rep cc rz) N setup g = .ok out) : ∀ h ∈ out, ∀ q ∈ h.qubits, q < N := by
  obtain ⟨out', S, G, a, b, h1, -, -, ha, hb, hr, -, hq, -⟩ := routeGateV_handled_spec cc rz N setup g hw hh
  rw [h1] at ho; cases ho
  intro h hm q hq'
  rcases hr.mem hm with rfl | ⟨p, hp, rfl⟩
  · have ta := hr.track_lt ha
    have tb := hr.track_lt hb
    rcases hq with hq | hq <;> (rw [hq] at hq'; simp at hq'; rcases hq' with rfl | rfl <;> assumption)
  · have := hr.swaps_ok p hp
    simp [Route.Gate.qubits, swapG] at hq'
    rcases hq' with rfl | rfl
    · exact this.1
    · exact this.2.1

example : WellFormed 9 ⟨.CNOT, [0], [5], 0, 0⟩ ∧ Handled ⟨.CNOT, [0], [5], 0, 0⟩ ∧
    routeGate 9 .circular ⟨.CNOT, [0], [5], 0, 0⟩ =
      .ok [swapG 5 6, swapG 8 0, swapG 6 7, ⟨.CNOT, [8], [7], 0, 0⟩, swapG 6 7, swapG 8 0, swapG 5 6] := by
  refine ⟨⟨fun _ => ⟨0, 5, rfl, rfl, by decide, by decide, by decide⟩, fun h => absurd h (by decide)⟩,
    by decide, by decide⟩

/-- **(ii) adjacency.** Every gate emitted for a handled gate is a two-qubit gate on neighbours of
the topology the `setup` string is routed on (`Setup.eff`): `(i, i+1)`, or the wrap pair `{0, N-1}`
on a ring. -/
theorem route_adjacent (cc rz : Bool) (N : Nat) (setup : Setup)
    (g : Route.Gate) (hw : WellFormedV rz N g) (hh : HandledV rz g) (out : List Route.Gate)
    (ho : routeGateV (.rep cc rz) N setup g = .ok out) :
    ∀ h ∈ out, ∃ i j, h.qubits = [i, j] ∧ Adj setup.eff N i j := by
  obtain ⟨out', S, G, a, b, h1, -, -, -, -, hr, -, hq, -⟩ := routeGateV_handled_spec cc rz N setup g hw hh
  rw [h1] at ho; cases ho
  intro h hm
  rcases hr.mem hm with rfl | ⟨p, hp, rfl⟩
  · rcases hq with hq | hq
    · exact ⟨_, _, hq, hr.adj⟩
    · exact ⟨_, _, hq, hr.adj.symm⟩
  · exact ⟨p.1, p.2, rfl, (hr.swaps_ok p hp).2.2.2⟩

example : Adj .circular 9 8 0 ∧ ¬ Adj .linear 9 8 0 ∧ Adj .linear 9 6 7 ∧
    Setup.linear.eff = .linear ∧ Setup.circular.eff = .circular ∧ Setup.other.eff = .circular := by decide

/-- **(iii) shape, CNOT / CSIGN.** The output is `S ++ [G] ++ S'` with `S` a list of SWAPs on
neighbouring in-range qubits, `S' = S` reversed; `G` has the gate's name, its control is where `S`
moved the control and its target where `S` moved the target; `S ++ S'` is the identity permutation.
`G` carries the gate's classical condition iff `cc` (`Variant.cond`); the SWAPs never carry one. -/
theorem route_shape_ctl (cc rz : Bool) (N : Nat) (setup : Setup)
    (g : Route.Gate) (c t : Nat) (hnm : g.name.isCtl = true) (hC : g.controls = [c]) (hT : g.targets = [t])
    (hct : c ≠ t) (hc : c < N) (ht : t < N) :
    ∃ S : List (Nat × Nat),
      routeGateV (.rep cc rz) N setup g =
        .ok (swaps S ++ ⟨g.name, [track S c], [track S t], 0, if cc then g.extra else 0⟩ :: swaps S.reverse) ∧
      (∀ p ∈ S, p.1 < N ∧ p.2 < N ∧ p.1 ≠ p.2 ∧ Adj setup.eff N p.1 p.2) ∧
      Adj setup.eff N (track S c) (track S t) ∧
      ∀ x, track (S ++ S.reverse) x = x := by
  obtain ⟨out, S, h1, h2⟩ := routeCtl_specV cc rz N setup g c t hnm hC hT hct hc ht
  exact ⟨S, by rw [routeGateV_ctl hnm hC hT, h1, h2.out_eq]; rfl, h2.swaps_ok, h2.adj, track_palindrome S⟩

example : ∃ S, S = [(4, 5), (6, 0)] ∧ track S 4 = 5 ∧ track S 0 = 6 ∧
    routeGate 7 .circular ⟨.CNOT, [0], [4], 0, 0⟩ =
      .ok (swaps S ++ ⟨.CNOT, [track S 0], [track S 4], 0, 0⟩ :: swaps S.reverse) :=
  ⟨_, rfl, by decide, by decide, by decide⟩

/-- **(iii) shape, exchange-type gates** (SWAP, ISWAP, SQRTISWAP, SQRTSWAP, BERKELEY, SWAPalpha):
as above; `G` keeps name and argument and acts on the images of the two targets, listed in one
of the two orders (these gates are symmetric, see `SwapLaws.exch_symm`). -/
theorem route_shape_swp (cc rz : Bool) (N : Nat) (setup : Setup)
    (g : Route.Gate) (t0 t1 : Nat) (hnm : g.name.isSwp = true) (hT : g.targets = [t0, t1])
    (h01 : t0 ≠ t1) (h0 : t0 < N) (h1 : t1 < N) :
    ∃ (S : List (Nat × Nat)) (p q : Nat),
      routeGateV (.rep cc rz) N setup g =
        .ok (swaps S ++ ⟨g.name, [], [p, q], g.arg, if cc then g.extra else 0⟩ :: swaps S.reverse) ∧
      ((p = track S t0 ∧ q = track S t1) ∨ (p = track S t1 ∧ q = track S t0)) ∧
      (∀ p ∈ S, p.1 < N ∧ p.2 < N ∧ p.1 ≠ p.2 ∧ Adj setup.eff N p.1 p.2) ∧
      Adj setup.eff N (track S t0) (track S t1) ∧
      ∀ x, track (S ++ S.reverse) x = x := by
  obtain ⟨S, p, q, h2, h3⟩ := routeSwp_specV cc rz N setup g t0 t1 h01 h0 h1
  refine ⟨S, p, q, by rw [routeGateV_swp hnm hT, h2.out_eq]; rfl, ?_, h2.swaps_ok, h2.adj, track_palindrome S⟩
  rcases h3 with h | ⟨-, h⟩
  · exact Or.inl h
  · exact Or.inr h

example : routeGate 6 .linear ⟨.SWAPalpha, [], [5, 1], 7, 0⟩ =
    .ok (swaps [(1, 2), (4, 5), (2, 3)] ++ ⟨.SWAPalpha, [], [3, 4], 7, 0⟩ :: swaps [(2, 3), (4, 5), (1, 2)]) := by
  decide

/-- **(iii) shape, ordered two-target gates (RZX)** — routed since `fixes/C13-3.patch` (`rz = true`): as
for the exchange-type gates, but `G` lists the images of the two targets **in the order of the
targets** (RZX is not symmetric: Z acts on the first, X on the second target), on the forward path
and on the way round the ring alike. -/
theorem route_shape_ord (cc : Bool) (N : Nat) (setup : Setup)
    (g : Route.Gate) (t0 t1 : Nat) (hnm : g.name.isOrd = true) (hT : g.targets = [t0, t1])
    (h01 : t0 ≠ t1) (h0 : t0 < N) (h1 : t1 < N) :
    ∃ S : List (Nat × Nat),
      routeGateV (.rep cc true) N setup g =
        .ok (swaps S ++ ⟨g.name, [], [track S t0, track S t1], g.arg, if cc then g.extra else 0⟩ :: swaps S.reverse) ∧
      (∀ p ∈ S, p.1 < N ∧ p.2 < N ∧ p.1 ≠ p.2 ∧ Adj setup.eff N p.1 p.2) ∧
      Adj setup.eff N (track S t0) (track S t1) ∧
      ∀ x, track (S ++ S.reverse) x = x := by
  obtain ⟨S, p, q, h2, h3⟩ := routeSwp_specV cc true N setup g t0 t1 h01 h0 h1
  rcases h3 with ⟨rfl, rfl⟩ | ⟨hf, -, -⟩
  · exact ⟨S, by rw [routeGateV_ord hnm hT, h2.out_eq]; rfl, h2.swaps_ok, h2.adj, track_palindrome S⟩
  · simp [hnm] at hf

-- both target orders on an open chain and the way round a ring; without the repair RZX is passed through
example : routeGateV (.rep false true) 4 .linear ⟨.RZX, [], [3, 0], 7, 0⟩ =
      .ok [swapG 0 1, swapG 2 3, ⟨.RZX, [], [2, 1], 7, 0⟩, swapG 2 3, swapG 0 1] ∧
    routeGateV (.rep false true) 4 .linear ⟨.RZX, [], [0, 3], 7, 0⟩ =
      .ok [swapG 0 1, swapG 2 3, ⟨.RZX, [], [1, 2], 7, 0⟩, swapG 2 3, swapG 0 1] ∧
    routeGateV (.rep false true) 5 .circular ⟨.RZX, [], [0, 3], 7, 0⟩ =
      .ok [swapG 3 4, ⟨.RZX, [], [0, 4], 7, 0⟩, swapG 3 4] ∧
    routeGateV (.rep false false) 4 .linear ⟨.RZX, [], [3, 0], 7, 0⟩ = .ok [⟨.RZX, [], [3, 0], 7, 0⟩] := by decide

/-- **Any other `setup` string** (the code compares with `"linear"` and `"circular"` only and raises
nothing): the gate is routed **on the ring, always through the wrap-around pair** — the backward
path, whatever the distance.  Indices are in range, every emitted gate acts on ring neighbours
(an instance of (i), (ii) with `Setup.other.eff = circular`); the output is in general neither that
of `"linear"` nor that of `"circular"` (examples below).  (v) holds for it as well (`route_den`). -/
theorem route_other_setup (cc rz : Bool) (N : Nat) (g : Route.Gate) (hw : WellFormedV rz N g) (hh : HandledV rz g)
    (out : List Route.Gate) (ho : routeGateV (.rep cc rz) N .other g = .ok out) :
    (∀ h ∈ out, ∀ q ∈ h.qubits, q < N) ∧ ∀ h ∈ out, ∃ i j, h.qubits = [i, j] ∧ Adj .circular N i j :=
  ⟨route_in_range cc rz N .other g hw hh out ho, route_adjacent cc rz N .other g hw hh out ho⟩

-- neighbours 0, 1 on four qubits: "linear" and "circular" leave the gate alone, any other string
-- walks it round the ring through (3, 0); an exchange gate on the wrap pair comes out with its
-- targets in ring order
example : routeGate 4 .other ⟨.CNOT, [0], [1], 0, 0⟩ =
      .ok [swapG 1 2, swapG 3 0, ⟨.CNOT, [3], [2], 0, 0⟩, swapG 3 0, swapG 1 2] ∧
    routeGate 4 .circular ⟨.CNOT, [0], [1], 0, 0⟩ = .ok [⟨.CNOT, [0], [1], 0, 0⟩] ∧
    routeGate 4 .linear ⟨.CNOT, [0], [1], 0, 0⟩ = .ok [⟨.CNOT, [0], [1], 0, 0⟩] ∧
    routeGate 3 .other ⟨.ISWAP, [], [0, 2], 0, 0⟩ = .ok [⟨.ISWAP, [], [2, 0], 0, 0⟩] ∧
    ¬ Adj .linear 4 3 0 := by decide

/-! ## pass-through and circuits -/

/-- **(iv)** a gate the router does not handle (any other name, a measurement) comes out as it is -/
theorem route_passthrough (cc rz : Bool) (N : Nat) (setup : Setup) (g : Route.Gate) (h : ¬ HandledV rz g) :
    routeGateV (.rep cc rz) N setup g = .ok [g] := routeGateV_other h

example : ¬ HandledV true ⟨.other 3, [0, 4], [2], 5, 1⟩ ∧ ¬ HandledV true ⟨.meas 0, [], [1], 0, 0⟩ ∧
    ¬ HandledV false ⟨.RZX, [], [0, 2], 1, 0⟩ ∧ HandledV true ⟨.RZX, [], [0, 2], 1, 0⟩ := by decide

/-- **(iv)** the output of a circuit is the concatenation, in order, of the per-gate outputs — for
every variant of the code: the router keeps **no state** between gates (nor between calls: the
model is a function of `(N, setup, gs)`) -/
theorem route_concat (v : Variant) (N : Nat) (setup : Setup) (gs out : List Route.Gate) :
    toChainV v N setup gs = .ok out ↔
      ∃ parts : List (List Route.Gate), gs.map (routeGateV v N setup) = parts.map Except.ok ∧ out = parts.flatten :=
  toChainV_concat v N setup gs out

/-- … in particular routing distributes over concatenation of circuits -/
theorem route_append (v : Variant) (N : Nat) (setup : Setup) (gs₁ gs₂ out : List Route.Gate) :
    toChainV v N setup (gs₁ ++ gs₂) = .ok out ↔
      ∃ a b, toChainV v N setup gs₁ = .ok a ∧ toChainV v N setup gs₂ = .ok b ∧ out = a ++ b :=
  toChainV_append v N setup gs₁ gs₂ out

-- both orientations of one long-way pair in one circuit: each is routed as it is routed alone
example : toChain 7 .circular [⟨.CNOT, [0], [4], 0, 0⟩, ⟨.CNOT, [4], [0], 0, 0⟩] =
    .ok ([swapG 4 5, swapG 6 0, ⟨.CNOT, [6], [5], 0, 0⟩, swapG 6 0, swapG 4 5] ++
         [swapG 4 5, swapG 6 0, ⟨.CNOT, [5], [6], 0, 0⟩, swapG 6 0, swapG 4 5]) := by decide

/-- routing a circuit of well-formed gates never raises -/
theorem route_total (cc rz : Bool) (N : Nat) (setup : Setup)
    (gs : List Route.Gate) (hw : ∀ g ∈ gs, WellFormedV rz N g) : ∃ out, toChainV (.rep cc rz) N setup gs = .ok out :=
  toChainV_total cc rz N setup gs hw

/-- **(iv)** the unhandled gates of the output are exactly those of the input, unchanged and in order -/
theorem circuit_passthrough_order (cc rz : Bool) (N : Nat) (setup : Setup)
    (gs : List Route.Gate) (hw : ∀ g ∈ gs, WellFormedV rz N g) (out : List Route.Gate)
    (ho : toChainV (.rep cc rz) N setup gs = .ok out) :
    out.filter (fun h => !decide (HandledV rz h)) = gs.filter (fun h => !decide (HandledV rz h)) :=
  toChainV_unhandled_order cc rz N setup gs hw out ho

/-- **(i) for circuits.** If the unhandled input gates are in range, every index of the output is. -/
theorem circuit_in_range (cc rz : Bool) (N : Nat) (setup : Setup)
    (gs : List Route.Gate) (hw : ∀ g ∈ gs, WellFormedV rz N g)
    (hr : ∀ g ∈ gs, ¬ HandledV rz g → ∀ q ∈ g.qubits, q < N)
    (out : List Route.Gate) (ho : toChainV (.rep cc rz) N setup gs = .ok out) : ∀ h ∈ out, ∀ q ∈ h.qubits, q < N := by
  intro h hm
  obtain ⟨g, hg, a, ha, hma⟩ := toChainV_mem ho hm
  by_cases hh : HandledV rz g
  · exact route_in_range cc rz N setup g (hw g hg) hh a ha h hma
  · rw [routeGateV_other hh] at ha; cases ha
    simp at hma; subst hma
    exact hr h hg hh

/-- **(ii) for circuits.** Every gate of the output is an unhandled gate of the input or a
two-qubit gate on neighbours. -/
theorem circuit_adjacent (cc rz : Bool) (N : Nat) (setup : Setup)
    (gs : List Route.Gate) (hw : ∀ g ∈ gs, WellFormedV rz N g)
    (out : List Route.Gate) (ho : toChainV (.rep cc rz) N setup gs = .ok out) :
    ∀ h ∈ out, (h ∈ gs ∧ ¬ HandledV rz h) ∨ ∃ i j, h.qubits = [i, j] ∧ Adj setup.eff N i j := by
  intro h hm
  obtain ⟨g, hg, a, ha, hma⟩ := toChainV_mem ho hm
  by_cases hh : HandledV rz g
  · exact Or.inr (route_adjacent cc rz N setup g (hw g hg) hh a ha h hma)
  · rw [routeGateV_other hh] at ha; cases ha
    simp at hma; subst hma
    exact Or.inl ⟨hg, hh⟩

example : toChain 7 .circular [⟨.other 1, [], [3], 2, 0⟩, ⟨.CSIGN, [6], [1], 0, 0⟩, ⟨.meas 0, [], [2], 0, 0⟩] =
    .ok [⟨.other 1, [], [3], 2, 0⟩, swapG 6 0, ⟨.CSIGN, [0], [1], 0, 0⟩, swapG 6 0, ⟨.meas 0, [], [2], 0, 0⟩] := by
  decide

/-! ## same unitary -/

section
variable {M : Type} [Monoid M]

/-- **(v) route_den, one gate.** Over any monoid and any interpretation of gates that satisfies
the one hypothesis `SwapLaws` (SWAP on two distinct qubits squares to one and conjugation by it
relabels a two-qubit gate by the transposition; exchange-type gates are symmetric), the product
of the routed gates is the gate.  Every `setup`.  `hx`: as long as the router drops classical
conditions (`cc = false`) the gate must not carry one (`C07_counterexample_condition_dropped`). -/
theorem route_den_gate {N : Nat} {interp : Route.Gate → M} (laws : SwapLaws N interp) (cc rz : Bool) (setup : Setup)
    (g : Route.Gate) (hw : WellFormedV rz N g) (hh : HandledV rz g)
    (hp : PlainArg g) (hx : cc = false → g.extra = 0) (out : List Route.Gate)
    (ho : routeGateV (.rep cc rz) N setup g = .ok out) :
    den interp out = interp g :=
  routeGateV_den laws cc rz setup g hw hh hp hx out ho

/-- **(v) route_den.** The routed circuit has the same product as the input circuit. -/
theorem route_den {N : Nat} {interp : Route.Gate → M} (laws : SwapLaws N interp) (cc rz : Bool) (setup : Setup)
    (gs : List Route.Gate) (hw : ∀ g ∈ gs, WellFormedV rz N g)
    (hp : ∀ g ∈ gs, HandledV rz g → PlainArg g) (hx : cc = false → ∀ g ∈ gs, HandledV rz g → g.extra = 0)
    (out : List Route.Gate) (ho : toChainV (.rep cc rz) N setup gs = .ok out) :
    den interp out = den interp gs :=
  toChainV_den laws cc rz setup gs hw hp hx out ho

/-- **(v) with classical conditions** (`fixes/C07-5.patch`, `cc = true`): for every valuation `fire` of
the classical conditions — a conditioned gate is its operator if the condition holds and the
identity otherwise (`condInterp`) — the routed circuit has the same product; no gate is excluded.
(The SWAPs are unconditional; if the condition does not hold they cancel.) -/
theorem route_den_cond {N : Nat} {interp : Route.Gate → M} (laws : SwapLaws N interp) (fire : Nat → Bool)
    (rz : Bool) (setup : Setup) (gs : List Route.Gate) (hw : ∀ g ∈ gs, WellFormedV rz N g)
    (hp : ∀ g ∈ gs, HandledV rz g → PlainArg g)
    (out : List Route.Gate) (ho : toChainV (.rep true rz) N setup gs = .ok out) :
    den (condInterp fire interp) out = den (condInterp fire interp) gs :=
  toChainV_den (laws.cond fire) true rz setup gs hw hp (fun h => absurd h (by decide)) out ho
end

-- the hypotheses are met by a concrete non-trivial circuit (the second gate carries condition 3)
example : (∀ g ∈ [⟨.other 1, [], [3], 2, 0⟩, ⟨.CNOT, [0], [5], 0, 3⟩, (⟨.SWAPalpha, [], [7, 2], 4, 0⟩ : Route.Gate)],
      WellFormed 9 g) ∧
    (∀ g ∈ [⟨.other 1, [], [3], 2, 0⟩, ⟨.CNOT, [0], [5], 0, 3⟩, (⟨.SWAPalpha, [], [7, 2], 4, 0⟩ : Route.Gate)],
      Handled g → PlainArg g) ∧
    toChainV (.rep true false) 9 .circular [⟨.CNOT, [0], [5], 0, 3⟩] =
      .ok [swapG 5 6, swapG 8 0, swapG 6 7, ⟨.CNOT, [8], [7], 0, 3⟩, swapG 6 7, swapG 8 0, swapG 5 6] := by
  refine ⟨?_, ?_, by decide⟩
  · intro g hg
    simp only [List.mem_cons, List.not_mem_nil, or_false] at hg
    rcases hg with rfl | rfl | rfl
    · exact ⟨fun h => absurd h (by decide), fun h => absurd h (by decide)⟩
    · exact ⟨fun _ => ⟨0, 5, rfl, rfl, by decide, by decide, by decide⟩, fun h => absurd h (by decide)⟩
    · exact ⟨fun h => absurd h (by decide), fun _ => ⟨7, 2, rfl, rfl, by decide, by decide, by decide⟩⟩
  · intro g hg _
    simp only [List.mem_cons, List.not_mem_nil, or_false] at hg
    rcases hg with rfl | rfl | rfl
    · exact fun h => absurd h (by decide)
    · exact fun _ => rfl
    · exact fun h => absurd h (by decide)

/-- gates without a classical condition that are not RZX are routed identically whether or not
`fixes/C07-5.patch` / `fixes/C13-3.patch` are in place (so everything C13 proves about `toChain` for its
former class holds for every shape of the source) -/
theorem condition_irrelevant_plain (cc rz : Bool) (N : Nat) (setup : Setup) (gs : List Route.Gate)
    (hx : ∀ g ∈ gs, g.extra = 0) (ho : ∀ g ∈ gs, g.name.isOrd = false) :
    toChainV (.rep cc rz) N setup gs = toChain N setup gs := by
  rw [toChainV_cc_irrelevant cc rz N setup gs hx, toChainV_rz_irrelevant false rz N setup gs ho]
  rfl

example : toChainV (.rep true true) 7 .circular [⟨.CNOT, [0], [4], 0, 0⟩] = toChain 7 .circular [⟨.CNOT, [0], [4], 0, 0⟩] :=
  condition_irrelevant_plain true true 7 .circular _ (by simp) (by simp [GName.isOrd])

/-! ## `adjacent_gates` -/

/-- `QubitCircuit.adjacent_gates` on a circuit of handled gates is the open-chain router
(so (i)–(v) apply to it with `setup = linear`) … -/
theorem adjacent_gates_eq_linear (cc rz : Bool) (N : Nat) (gs : List Route.Gate) (hh : ∀ g ∈ gs, Handled g) :
    adjacentGatesV (.rep cc rz) gs = toChainV (.rep cc rz) N .linear gs := by
  have : gs.any isMeas = false := by
    rw [List.any_eq_false]; intro g hg; simp [not_isMeas_of_handled (hh g hg)]
  simp only [adjacentGatesV, this]
  exact adjLoop_eq_toChainV cc rz N gs hh

/-- … and it refuses circuits that contain a measurement. -/
theorem adjacent_gates_refuses_measurement (v : Variant) (gs : List Route.Gate) (h : ∃ g ∈ gs, isMeas g = true) :
    adjacentGatesV v gs = .error .notImplemented := by
  have : gs.any isMeas = true := List.any_eq_true.mpr h
  simp [adjacentGatesV, this]

example : adjacentGates [⟨.ISWAP, [], [3, 0], 0, 0⟩] = toChain 4 .linear [⟨.ISWAP, [], [3, 0], 0, 0⟩] ∧
    adjacentGates [⟨.ISWAP, [], [3, 0], 0, 0⟩] =
      .ok [swapG 0 1, swapG 2 3, ⟨.ISWAP, [], [1, 2], 0, 0⟩, swapG 2 3, swapG 0 1] := by decide

/-! ## the code as found (`Variant.old`) violates the property — concrete witnesses

Each is confirmed on the real code by `py/props/c07.py` (oracle) and repaired by the patch named. -/

/-- (i) fails before `fixes/C07-1.patch`: circular chain, `N = 9`, CNOT(control 0, target 5) —
the output contains `SWAP[8, 9]`. -/
theorem C07_counterexample_range_old :
    toChainV .old 9 .circular [⟨.CNOT, [0], [5], 0, 0⟩] =
      .ok [swapG 5 6, swapG 8 9, swapG 6 7, ⟨.CNOT, [8], [7], 0, 0⟩, swapG 6 7, swapG 8 0, swapG 5 6] ∧
    ¬ (∀ out, toChainV .old 9 .circular [⟨.CNOT, [0], [5], 0, 0⟩] = .ok out →
        ∀ h ∈ out, ∀ q ∈ h.qubits, q < 9) := by
  have hout : toChainV .old 9 .circular [⟨.CNOT, [0], [5], 0, 0⟩] =
      .ok [swapG 5 6, swapG 8 9, swapG 6 7, ⟨.CNOT, [8], [7], 0, 0⟩, swapG 6 7, swapG 8 0, swapG 5 6] := by decide
  refine ⟨hout, fun h => ?_⟩
  have := h _ hout (swapG 8 9) (by decide) 9 (by decide)
  omega

/-- (iii)/(v) fail before `fixes/C07-2.patch`: circular chain, `N = 7`, CNOT(control 0, target 4) —
the swaps move the control to 6 and the target to 5, but the emitted gate is CNOT(control 5, target 6). -/
theorem C07_counterexample_roles_old :
    toChainV .old 7 .circular [⟨.CNOT, [0], [4], 0, 0⟩] =
      .ok (swaps [(4, 5), (6, 0)] ++ ⟨.CNOT, [5], [6], 0, 0⟩ :: swaps [(6, 0), (4, 5)]) ∧
    track [(4, 5), (6, 0)] 0 = 6 ∧ track [(4, 5), (6, 0)] 4 = 5 := by decide

/-- (v) fails before `fixes/C07-3.patch`: the routed SWAPalpha has lost its argument. -/
theorem C07_counterexample_arg_old :
    toChainV .old 2 .linear [⟨.SWAPalpha, [], [0, 1], 7, 0⟩] = .ok [⟨.SWAPalpha, [], [0, 1], 0, 0⟩] := by decide

/-- (iv) fails before `fixes/C07-4.patch`: a measurement does not come out unchanged. -/
theorem C07_counterexample_meas_old :
    toChainV .old 2 .linear [⟨.meas 0, [], [1], 0, 0⟩] = .ok [⟨.meas 0, [], [], 0, 0⟩] := by decide

/-! ## same unitary over ℂ — the instantiation of (v)

`Route.interpC N α oth` (`Lemmas/RouteC.lean`) interprets a gate of the router as a complex matrix on
the `N`-qubit register: a handled gate is `Tg.embed` of its compact matrix — the exact library
matrices `GateE.cnot`, `csign`, `swap`, `iswap`, `sqrtswap`, `sqrtiswap`, `berkeley` mapped to ℂ by
`toMatD 2`, SWAPalpha the generated `Gen.G.swapalpha_ (α arg)` — on (control, target) resp. on its two
targets in the listed order (malformed placements denote `1`); an unhandled gate or a measurement
`g` is `oth g`, an arbitrary family.  `α : ℕ → ℝ` is any valuation of the `arg` labels.
`SwapLaws` is proved for this interpretation (`Route.swapLaws_interpH`: SWAP is the permutation
matrix of the transposition, `Lemmas/EmbedPerm.lean`; the exchange symmetry of the six exchange-type
matrices is decided in exact arithmetic resp. proved for all real `alpha`), so (v) holds with no
hypothesis about matrices left. -/

/-- `SwapLaws` holds for the complex matrices of the handled gates (unhandled ↦ `1`) … -/
theorem swapLaws_C (N : Nat) (α : ℕ → ℝ) : SwapLaws N (interpH N α) := swapLaws_interpH N α

/-- … and for the full interpretation whenever the family of the unhandled gates is covariant on
two-qubit gates (not needed below). -/
theorem swapLaws_C_full (N : Nat) (α : ℕ → ℝ) (oth : Route.Gate → Matrix (St N) (St N) ℂ)
    (hoth : ∀ i j, i < N → j < N → i ≠ j → ∀ g, ¬ Handled g → TwoQ N g →
      place2 N i j SWAP2 * oth g * place2 N i j SWAP2 = oth (g.relabel (swapAt i j))) :
    SwapLaws N (interpC N α oth) := swapLaws_interpC N α oth hoth

/-- **(v) over ℂ, one gate.** For every register size `N`, every `setup`, every well-formed
handled gate: the product of the embedded complex matrices of the routed gates (later gates on
the left) is the embedded matrix of the gate. -/
theorem route_den_gate_C (N : Nat) (α : ℕ → ℝ) (oth : Route.Gate → Matrix (St N) (St N) ℂ) (cc rz : Bool)
    (setup : Setup) (g : Route.Gate) (hw : WellFormedV rz N g) (hh : HandledV rz g)
    (hp : PlainArg g) (hx : cc = false → g.extra = 0) (out : List Route.Gate)
    (ho : routeGateV (.rep cc rz) N setup g = .ok out) :
    den (interpCV rz N α oth) out = interpCV rz N α oth g := by
  have := routeGateV_den_C α oth (fun _ => true) cc rz setup g hw hh hp hx out ho
  rwa [condInterp_true] at this

/-- **(v) over ℂ, route_den.** The routed circuit is the same operator as the input circuit:
for every `N`, every `setup`, every circuit of well-formed gates (CNOT/CSIGN without `arg_value`; no
classical condition on a handled gate while the router drops conditions), every valuation of the
SWAPalpha arguments and every interpretation `oth` of the gates the router passes through. -/
theorem route_den_C (N : Nat) (α : ℕ → ℝ) (oth : Route.Gate → Matrix (St N) (St N) ℂ) (cc rz : Bool) (setup : Setup)
    (gs : List Route.Gate) (hw : ∀ g ∈ gs, WellFormedV rz N g)
    (hp : ∀ g ∈ gs, HandledV rz g → PlainArg g) (hx : cc = false → ∀ g ∈ gs, HandledV rz g → g.extra = 0)
    (out : List Route.Gate) (ho : toChainV (.rep cc rz) N setup gs = .ok out) :
    den (interpCV rz N α oth) out = den (interpCV rz N α oth) gs := by
  have := toChainV_den_C α oth (fun _ => true) cc rz setup gs hw hp hx out ho
  rwa [condInterp_true] at this

/-- **(v) over ℂ with classical conditions** (`fixes/C07-5.patch`): for every classical state — every
valuation `fire` of the conditions — the routed circuit is the same operator as the input circuit;
conditioned gates included. -/
theorem route_den_cond_C (N : Nat) (α : ℕ → ℝ) (oth : Route.Gate → Matrix (St N) (St N) ℂ) (fire : ℕ → Bool)
    (rz : Bool) (setup : Setup) (gs : List Route.Gate) (hw : ∀ g ∈ gs, WellFormedV rz N g)
    (hp : ∀ g ∈ gs, HandledV rz g → PlainArg g)
    (out : List Route.Gate) (ho : toChainV (.rep true rz) N setup gs = .ok out) :
    den (condInterp fire (interpCV rz N α oth)) out = den (condInterp fire (interpCV rz N α oth)) gs :=
  toChainV_den_C α oth fire true rz setup gs hw hp (fun h => absurd h (by decide)) out ho

/-- **Without `fixes/C07-5.patch` the clause fails for conditioned gates**: the router re-emits
CNOT(0→1) *if classical bit condition 1* as an unconditional CNOT (`extra` 1 ↦ 0; two neighbours on
an open chain, no SWAP involved), and when the condition does not hold the routed circuit is the
library CNOT matrix while the input circuit is the identity.  Confirmed on the real code
(`qc.run(state, cbits=[0])` of input and output differ). -/
theorem C07_counterexample_condition_dropped (α : ℕ → ℝ) (oth : Route.Gate → Matrix (St 2) (St 2) ℂ) :
    (∀ rz, toChainV (.rep false rz) 2 .linear [⟨.CNOT, [0], [1], 0, 1⟩] = .ok [⟨.CNOT, [0], [1], 0, 0⟩]) ∧
    (∀ rz, toChainV (.rep true rz) 2 .linear [⟨.CNOT, [0], [1], 0, 1⟩] = .ok [⟨.CNOT, [0], [1], 0, 1⟩]) ∧
    den (condInterp (fun _ => false) (interpC 2 α oth)) [⟨.CNOT, [0], [1], 0, 0⟩] ≠
      den (condInterp (fun _ => false) (interpC 2 α oth)) [⟨.CNOT, [0], [1], 0, 1⟩] := by
  refine ⟨by decide, by decide, ?_⟩
  have h0 : Handled ⟨.CNOT, [0], [1], 0, 0⟩ := Or.inl rfl
  have h1 : Handled ⟨.CNOT, [0], [1], 0, 1⟩ := Or.inl rfl
  simp only [den, condInterp, interpC, if_pos h0, one_mul]
  simp only [Nat.one_ne_zero, Bool.false_eq_true, or_self, if_false, or_false, if_true]
  exact interpH_cnot_ne_one α

-- conventions: on two qubits CNOT(control 0, target 1) is the library matrix itself, and the
-- interpretation of the routed circuit of the example after `route_in_range` is that of the gate
example (α : ℕ → ℝ) : interpH 2 α ⟨.CNOT, [0], [1], 0, 0⟩ = toMatD 2 GateE.cnot := interpH_cnot_two α

example (α : ℕ → ℝ) (oth : Route.Gate → Matrix (St 9) (St 9) ℂ) :
    den (interpCV false 9 α oth)
      [swapG 5 6, swapG 8 0, swapG 6 7, ⟨.CNOT, [8], [7], 0, 0⟩, swapG 6 7, swapG 8 0, swapG 5 6] =
    interpCV false 9 α oth ⟨.CNOT, [0], [5], 0, 0⟩ :=
  route_den_gate_C 9 α oth false false .circular ⟨.CNOT, [0], [5], 0, 0⟩
    ⟨⟨fun _ => ⟨0, 5, rfl, rfl, by decide, by decide, by decide⟩, fun h => absurd h (by decide)⟩,
      fun h => absurd h (by decide)⟩
    (Or.inl (Or.inl rfl)) (fun _ => rfl) (fun _ => rfl) _ (by decide)

-- RZX (targets 3, 0: Z on qubit 3, X on qubit 0) on an open chain of four, with the repair `fixes/C13-3.patch`
example (α : ℕ → ℝ) (oth : Route.Gate → Matrix (St 4) (St 4) ℂ) :
    den (interpCV true 4 α oth) [swapG 0 1, swapG 2 3, ⟨.RZX, [], [2, 1], 7, 0⟩, swapG 2 3, swapG 0 1] =
    interpCV true 4 α oth ⟨.RZX, [], [3, 0], 7, 0⟩ :=
  route_den_gate_C 4 α oth false true .linear ⟨.RZX, [], [3, 0], 7, 0⟩
    ⟨⟨fun h => absurd h (by decide), fun h => absurd h (by decide)⟩,
      fun _ _ => ⟨3, 0, rfl, rfl, by decide, by decide, by decide⟩⟩
    (Or.inr ⟨rfl, rfl⟩) (fun h => absurd h (by decide)) (fun _ => rfl) _ (by decide)

example (α : ℕ → ℝ) (a x : ℕ) : interpH 2 α ⟨.RZX, [], [0, 1], a, x⟩ = mat2 (Gen.G.cls_RZX_ (α a)) :=
  interpH_rzx_two α a x

-- … and with a condition, through any other setup string, for every classical state
example (α : ℕ → ℝ) (oth : Route.Gate → Matrix (St 4) (St 4) ℂ) (fire : ℕ → Bool) :
    den (condInterp fire (interpCV false 4 α oth))
      [swapG 1 2, swapG 3 0, ⟨.CNOT, [3], [2], 0, 5⟩, swapG 3 0, swapG 1 2] =
    den (condInterp fire (interpCV false 4 α oth)) [⟨.CNOT, [0], [1], 0, 5⟩] :=
  route_den_cond_C 4 α oth fire false .other [⟨.CNOT, [0], [1], 0, 5⟩]
    (fun g hg => by
      simp only [List.mem_singleton] at hg; subst hg
      exact ⟨⟨fun _ => ⟨0, 1, rfl, rfl, by decide, by decide, by decide⟩, fun h => absurd h (by decide)⟩,
        fun h => absurd h (by decide)⟩)
    (fun g hg _ => by simp only [List.mem_singleton] at hg; subst hg; exact fun _ => rfl) _ (by decide)

end QipVerif.C07
