import QipVerif.Model.Route
/-! # C07 — nearest-neighbour routing (theorems follow) -/
namespace QipVerif.C07
end QipVerif.C07
