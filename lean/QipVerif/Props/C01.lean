import QipVerif.Model.SimKet
/-! # C01 — gate-level evolution equals the ordered product of the gates' matrices (theorems follow) -/
namespace QipVerif.C01
end QipVerif.C01
