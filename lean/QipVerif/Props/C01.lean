import QipVerif.Lemmas.SimKetLib
import QipVerif.Lemmas.SimKetTrace
import QipVerif.Lemmas.SimKetHist
/-!
# C01 — gate-level evolution equals the ordered product of the gates' matrices

Property theorems only.  `SimKet.*` (Model/SimKet.lean) is the executable model of
`CircuitSimulator` / `QubitCircuit.propagators` / `compute_unitary` / `gate_sequence_product`;
it is generic in the scalars, the driver runs it over ℤ[ζ₁₆][1/2] and the theorems below are
about the same definitions instantiated with ℂ (`SimKet.opsC`).  The specification object is
`denP` (Lemmas/Den.lean): the ordered product of each gate's matrix embedded (`Tg.embed`, C08) on
the qubits it names; `toPGate N` reads a step of the model as such a placed gate
(GLOBALPHASE: the scalar on the empty placement).

The model describes the code repaired by fixes/C01-1.patch (sorted merged indices),
fixes/C01-2.patch (scalar conjugate for GLOBALPHASE in density-matrix mode) and
/repo commit c6903aa (`state` getter no longer overwrites the internal tensor).
-/
namespace QipVerif.C01
open QipVerif.SimKet QipVerif.Embed Matrix

/-! ## The index lists of `_evolve_state_einsum` -/

/-- **`einsum_lists_spec`.** For every number of sites `n` (qubits, plus one for an operator-valued
state) and every injective in-range list `qs` of acted-on qubits: the gate's output axes get the
fresh labels `n … n+k-1`, its input axes the labels `qs`, the state the labels `0 … n-1`, and
`new_index_list` is `index_list` with position `qs[j]` replaced by `n + j`; the fresh labels occur
neither in the state's nor in the targets' list, the output labels are pairwise distinct and the
contracted labels `qs` do not occur among them. -/
theorem einsum_lists_spec (n : Nat) (qs : List Nat) (hn : qs.Nodup) (hr : ∀ q ∈ qs, q < n) :
    (einLists n qs).anc = List.range' n qs.length ∧ (einLists n qs).tgt = qs ∧
    (einLists n qs).idx = List.range n ∧ (einLists n qs).new.length = n ∧
    (∀ j (hj : j < qs.length), (einLists n qs).new[qs[j]]? = some (n + j)) ∧
    (∀ p, p < n → p ∉ qs → (einLists n qs).new[p]? = some p) ∧
    (∀ a ∈ (einLists n qs).anc, a ∉ (einLists n qs).idx ∧ a ∉ (einLists n qs).tgt) ∧
    (einLists n qs).new.Nodup ∧ (∀ q ∈ qs, q ∉ (einLists n qs).new) :=
  einLists_spec n qs hn hr
-- non-vacuity: a 5-site tensor (4 qubits + the ancillary axis), gate on qubits [3, 0]
example : [3, 0].Nodup ∧ (∀ q ∈ [3, 0], q < 5) ∧
    einLists 5 [3, 0] = ⟨[5, 6], [3, 0], [0, 1, 2, 3, 4], [6, 1, 2, 5, 4]⟩ := by decide

/-- **What the einsum call computes, over arbitrary scalars** (no ring laws are used): for every
tensor shape, every injective list `qs` of axes of size 2 and every gate matrix, the step succeeds,
keeps the shape and its entry at the position `x` is the contraction
`Σ_b gate[(x at qs), b] · state[x with the entries at qs replaced by b]`. -/
theorem stepKet_contraction {α : Type} (o : Ops α) (qs : List Nat) (U : List (List α)) (st : Tensor α)
    (hn : qs.Nodup) (hr : ∀ q ∈ qs, st.shape[q]? = some 2) :
    stepKet o (.gate qs qs.length U) st = .ok (Tensor.ofFn st.shape (contractL o qs.length qs U st)) :=
  stepKet_gate o qs U st hn hr
-- non-vacuity (exact scalars): CNOT with control 2, target 0 on |001⟩ gives |101⟩
example : (stepKet CycD.ops (.gate [2, 0] 2
      [[CycD.one, CycD.zero, CycD.zero, CycD.zero], [CycD.zero, CycD.one, CycD.zero, CycD.zero],
       [CycD.zero, CycD.zero, CycD.zero, CycD.one], [CycD.zero, CycD.zero, CycD.one, CycD.zero]])
      (ketTensor 3 [CycD.zero, CycD.one, CycD.zero, CycD.zero, CycD.zero, CycD.zero, CycD.zero, CycD.zero])).toOption.map
        (·.data) = some [CycD.zero, CycD.zero, CycD.zero, CycD.zero, CycD.zero, CycD.one, CycD.zero, CycD.zero] := by
  decide +kernel

/-! ## One step is the embedded operator -/

/-- **`stepKet_eq_embed_mulVec`.** Applying a `k`-qubit matrix at the placement `t` to `ψ` by the
contraction the index lists prescribe, `ψ'(x) = Σ_b U (x ∘ t) b · ψ (x with the t-digits replaced by b)`,
is multiplication by the embedded operator — for all `N`, `k`, injective `t`, `U`, `ψ`. -/
theorem stepKet_eq_embed_mulVec {k N : ℕ} (t : Tg k N) (U : Matrix (St k) (St k) ℂ) (ψ : St N → ℂ) (x : St N) :
    (∑ b : St k, U (x ∘ t.f) b * ψ (t.update x b)) = (t.embed U).mulVec ψ x :=
  (t.mulVec_embed U ψ x).symm

/-- `update` is "replace the digits at the placed qubits, keep the others" -/
theorem update_spec {k N : ℕ} (t : Tg k N) (x : St N) (b : St k) :
    (∀ j, t.update x b (t.f j) = b j) ∧ (∀ i, i ∉ Set.range t.f → t.update x b i = x i) :=
  ⟨t.update_apply_f x b, t.update_rest x b⟩

/-- the same for an operator-valued state (one extra axis `c`, carried along): `t.embed U * M` -/
theorem stepOper_eq_embed_mul {k N : ℕ} {ι : Type*} (t : Tg k N) (U : Matrix (St k) (St k) ℂ)
    (M : Matrix (St N) ι ℂ) (x : St N) (c : ι) :
    (∑ b : St k, U (x ∘ t.f) b * M (t.update x b) c) = (t.embed U * M) x c :=
  (t.mul_embed_apply U M x c).symm

/-- **The model's step** (list tensors, ℂ): for every register size `N`, every trailing shape `ex`
(`[]` for a ket, `[2^N]` for an operator), every injective in-range `qs`, every gate matrix and every
state tensor, each slice of the new tensor is the embedded gate matrix applied to the old slice. -/
theorem stepKet_model_eq_embed_mulVec {N : ℕ} (qs : List ℕ) (hn : qs.Nodup) (hr : ∀ q ∈ qs, q < N)
    (U : List (List ℂ)) (st : Tensor ℂ) (ex r : List ℕ)
    (hsh : st.shape = List.replicate N 2 ++ ex) (hv : ValidIx ex r) :
    ∃ T', stepKet opsC (.gate qs qs.length U) st = .ok T' ∧ T'.shape = st.shape ∧
      slice N T' r = ((tgOfList N qs hn hr).embed (gateMat qs.length U)).mulVec (slice N st r) :=
  slice_stepKet_gate qs hn hr U st ex r hsh hv
example : [2, 0].Nodup ∧ (∀ q ∈ [2, 0], q < 3) ∧ ValidIx [8] [5] := by
  refine ⟨by decide, by decide, rfl, ?_⟩
  intro i h1 h2
  have : i = 0 := by simpa using h1
  subst this; simp

/-! ## Whole runs -/

/-- **`ket_run_eq_den`.** For every register size, every measurement-free circuit of well-placed
steps (any matrices: library or user gates; GLOBALPHASE as a scalar) and every input ket, the
state-vector run of the model succeeds and returns `(ordered product).mulVec ψ`. -/
theorem ket_run_eq_den (N : ℕ) (ops : List (Op ℂ)) (hw : ∀ op ∈ ops, WFOp N op) (amps : List ℂ) :
    ∃ T', runKet opsC ops (ketTensor N amps) = .ok T' ∧ T'.shape = List.replicate N 2 ∧
      ketOf N T' = (denP (ops.map (toPGate N))).mulVec (ketOf N (ketTensor N amps)) :=
  ket_run N ops hw amps

/-- the same for an operator-valued input (state-vector mode applied to an operator): `D * M` -/
theorem oper_run_eq_den (N : ℕ) (ops : List (Op ℂ)) (hw : ∀ op ∈ ops, WFOp N op) (rows : List (List ℂ)) :
    ∃ T', runKet opsC ops (operTensor N rows) = .ok T' ∧ T'.shape = List.replicate N 2 ++ [2 ^ N] ∧
      operOf N T' = denP (ops.map (toPGate N)) * operOf N (operTensor N rows) :=
  oper_run N ops hw rows

/-- **`unitary_eq_den`.** `compute_unitary` (run on the identity operator) is the ordered product. -/
theorem unitary_eq_den (N : ℕ) (ops : List (Op ℂ)) (hw : ∀ op ∈ ops, WFOp N op) :
    ∃ T', computeUnitary opsC N ops = .ok T' ∧ T'.shape = List.replicate N 2 ++ [2 ^ N] ∧
      operOf N T' = denP (ops.map (toPGate N)) :=
  unitary_run N ops hw

/-- **`dm_run_eq_den`.** Density-matrix mode: `ρ ↦ D ρ D†` with `D` the ordered product
(GLOBALPHASE contributes `c ρ c̄`; this is the repaired code, fixes/C01-2.patch). -/
theorem dm_run_eq_den (N : ℕ) (ops : List (Op ℂ)) (hw : ∀ op ∈ ops, WFOp N op) (ρ : FMat ℂ) (hρ : ρ.n = 2 ^ N) :
    ∃ ρ', runDm opsC N ops ρ = .ok ρ' ∧ ρ'.n = 2 ^ N ∧
      matOf N ρ' = denP (ops.map (toPGate N)) * matOf N ρ * (denP (ops.map (toPGate N)))ᴴ :=
  runDm_spec N ops hw ρ hρ

/-- density-matrix mode started from a ket: `ket2dm` is `|ψ⟩⟨ψ|` -/
theorem ket2dm_spec (N : ℕ) (amps : List ℂ) :
    matOf N (ket2dm opsC (2 ^ N) amps) = fun x y => amps.getD (enc x) 0 * star (amps.getD (enc y) 0) :=
  matOf_ket2dm N amps

/-- `propagators(expand=True)` are the embedded gate matrices, in circuit order -/
theorem propagators_expand_eq (N : ℕ) (ops : List (Op ℂ)) (hw : ∀ op ∈ ops, WFOp N op) :
    ∃ l, propagators opsC N true ops = .ok l ∧ (∀ A ∈ l, A.n = 2 ^ N) ∧
      l.map (matOf N) = ops.map (fun op => (toPGate N op).den) :=
  propagators_expand N ops hw

/-- **`propagators_product_eq_den`.** The expanded propagators multiplied left to right
(`gate_sequence_product(U_list)`) give the ordered product, for every non-empty circuit
(for the empty one the code returns the integer 1, the model `none`). -/
theorem propagators_product_eq_den (N : ℕ) (ops : List (Op ℂ)) (hw : ∀ op ∈ ops, WFOp N op) (hne : ops ≠ []) :
    ∃ l P, propagators opsC N true ops = .ok l ∧ seqProduct opsC true none l = some P ∧
      matOf N P = denP (ops.map (toPGate N)) :=
  propagators_product N ops hw hne
-- non-vacuity of the run theorems: a well-placed 3-qubit circuit with a phase, a 2-qubit and a 1-qubit gate
example : ∀ op ∈ [Op.phase (Complex.I), .gate [2, 0] 2 [[1, 0, 0, 0], [0, 1, 0, 0], [0, 0, 0, 1], [0, 0, 1, 0]],
    .gate [1] 1 [[0, 1], [1, 0]]], WFOp 3 op := by
  intro op hop
  simp only [List.mem_cons, List.not_mem_nil, or_false] at hop
  rcases hop with rfl | rfl | rfl <;> simp [WFOp]

/-- the specification object is the circuit denotation `denG` of Lemmas/Sem.lean whenever the steps
are library gates of the circuit IR: if `semG` reads the gates `gs` as the placed gates of the steps,
the ordered product of the model's steps is `denG N ρ gs`. -/
theorem den_eq_denG (N : ℕ) (ρ : ℕ → ℝ) (gs : List Gate) (ops : List (Op ℂ))
    (h : gs.mapM (semG N ρ) = some (ops.map (toPGate N))) :
    denG N ρ gs = some (denP (ops.map (toPGate N))) := by
  simp [denG, h]

/-! ## `_get_gate_unitary` -/

/-- **User-gate lookup**: a name absent from `user_gates` is resolved by the library; a present name
with controls is refused; otherwise a stored operator is used as is, a function of no argument is
called without, a function of one argument with `arg_value`, any other function or object is refused. -/
theorem getGateUnitary_spec (ug : List (String × UserKind)) (name : String) (cn : Bool) :
    getGateUnitary ug name cn =
      match List.lookup name ug with
      | none => .ok .library
      | some kind =>
        if cn = false then .error .userControls else
        match kind with
        | .oper => .ok (.userOper name)
        | .fn 0 => .ok (.userCall0 name)
        | .fn 1 => .ok (.userCall1 name)
        | .fn _ => .error .userParams
        | .other => .error .userNeither := by
  unfold getGateUnitary
  cases List.lookup name ug with
  | none => rfl
  | some kind =>
    cases cn with
    | false => rfl
    | true =>
      cases kind with
      | oper => rfl
      | other => rfl
      | fn n =>
        match n with
        | 0 => rfl
        | 1 => rfl
        | _ + 2 => rfl
example : getGateUnitary [("CTRLRX", .fn 1), ("T2", .oper)] "CTRLRX" true = .ok (.userCall1 "CTRLRX") ∧
    getGateUnitary [("CTRLRX", .fn 1), ("T2", .oper)] "T2" false = .error .userControls ∧
    getGateUnitary [("CTRLRX", .fn 2)] "CTRLRX" true = .error .userParams ∧
    getGateUnitary [("CTRLRX", .fn 1)] "CNOT" false = .ok .library := by decide


/-! ## The compact product (`gate_sequence_product(U_list, inds_list, expand=True)`) -/

/-- `embL N l A`: the model matrix `A` placed on the list `l` of qubits — for a duplicate-free
in-range list this is C08's embedding of the matrix -/
theorem embL_spec (N : ℕ) (l : List ℕ) (hn : l.Nodup) (hr : ∀ q ∈ l, q < N) (A : FMat ℂ) :
    embL N l A = (tgOfList N l hn hr).embed (matOf l.length A) :=
  embL_eq_embed N l hn hr A

/-- **`compact_product_eq_den`** (the repaired code: the order oracle returns sorted lists,
fixes/C01-1.patch).  For every register size `N`, every non-empty list of gates given as
(matrix, duplicate-free in-range qubit list) with matching dimensions: the compact product succeeds,
reports the sorted distinct qubits, and its result placed on these qubits is the ordered product of
the placed gates.  Proved by induction over the gate list with the invariant "the block list is a
partition into disjoint blocks whose placed product is the product of the processed gates", and by
induction over the recursion depth for the full-register branch. -/
theorem compact_product_eq_den (N : ℕ) (gates : List (Block ℂ)) (hne : gates ≠ [])
    (hw : ∀ g ∈ gates, g.2.Nodup ∧ (∀ q ∈ g.2, q < N) ∧ g.1.n = 2 ^ g.2.length) :
    ∃ R, compactProduct opsC ordSorted gates = .ok (R, sortDedup (gates.map (·.2)).flatten) ∧
      R.n = 2 ^ (sortDedup (gates.map (·.2)).flatten).length ∧
      embL N (sortDedup (gates.map (·.2)).flatten) R = mprod (gates.map fun g => embL N g.2 g.1) :=
  compactProduct_spec N gates hne hw
-- non-vacuity: two gates on a 5-qubit register, the second on the qubits [3, 1] (descending)
example : ∀ g ∈ [((FMat.ofRows opsC 2 [[0, 1], [1, 0]], [3]) : Block ℂ),
      (FMat.ofRows opsC 4 [[1, 0, 0, 0], [0, 1, 0, 0], [0, 0, 0, 1], [0, 0, 1, 0]], [3, 1])],
    g.2.Nodup ∧ (∀ q ∈ g.2, q < 5) ∧ g.1.n = 2 ^ g.2.length := by
  intro g hg
  simp only [List.mem_cons, List.not_mem_nil, or_false] at hg
  rcases hg with rfl | rfl <;> simp [FMat.ofRows]

/-- for the blocks of a circuit (`propagators(expand=False)` with each gate's qubits; GLOBALPHASE is
the full-register scalar matrix on all qubits) the compact product is the circuit's ordered product -/
theorem compact_circuit_eq_den (N : ℕ) (ops : List (Op ℂ)) (hne : ops ≠ []) (hw : ∀ op ∈ ops, WFOp N op) :
    ∃ R, compactProduct opsC ordSorted (ops.map (opBlock N)) =
        .ok (R, sortDedup ((ops.map (opBlock N)).map (·.2)).flatten) ∧
      embL N (sortDedup ((ops.map (opBlock N)).map (·.2)).flatten) R = denP (ops.map (toPGate N)) :=
  compact_circuit N ops hne hw
example : (sortDedup [8, 4, 10, 4] = [4, 8, 10]) ∧ ordSorted [4, 8] [8, 4] = [4, 8] ∧ ordRev [4, 8] [8, 4] = [8, 4] := by
  decide

/-- the sorted list of distinct qubits reported by the compact product -/
theorem sortDedup_spec (l : List ℕ) :
    (sortDedup l).Pairwise (· < ·) ∧ (sortDedup l).Nodup ∧ ∀ x, x ∈ sortDedup l ↔ x ∈ l :=
  ⟨sortDedup_sorted l, sortDedup_nodup l, fun _ => mem_sortDedup⟩

/-- both order oracles are legal behaviours of `list(set(a).union(set(b)))` as far as the language
is concerned: a duplicate-free list of exactly the elements of `a` and `b` -/
theorem oracles_legal (a b : List ℕ) :
    ((ordSorted a b).Nodup ∧ ∀ x, x ∈ ordSorted a b ↔ x ∈ a ∨ x ∈ b) ∧
    ((ordRev a b).Nodup ∧ ∀ x, x ∈ ordRev a b ↔ x ∈ a ∨ x ∈ b) :=
  ⟨ordSorted_legal a b, ordRev_legal a b⟩

/-! ## From the gate objects to the matrix steps: `get_all_qubits`, GLOBALPHASE, `_get_gate_unitary` with the
user's objects (Model/SimKet.lean (f)); `A` is the opaque type of `arg_value`, the user's function any function -/

/-- **The lookup returns what the user supplied.**  For every library, every user table and every gate
object whose name is in the table (first entry `u`; GLOBALPHASE is tested before the table): with
`controls` given the gate is refused; otherwise the step is the user's operator placed on `targets` —
the stored operator for a `Qobj`, `func()` for a function without parameter, `func(arg_value)` for a
function of one parameter — whatever the library would have said for that name (shadowing); functions
of more parameters and other objects are refused. -/
theorem resolve_user_spec {A : Type} (lib : Library A ℂ) (ug : List (UserGate A ℂ)) (r : GateReq A) (u : UserGate A ℂ)
    (hname : r.name ≠ "GLOBALPHASE") (hf : (ug.find? fun u => u.name == r.name) = some u) :
    resolveGate lib ug r =
      if r.controlsNone = false then .error .userControls else
      match u.kind with
      | .oper => .ok (.gate r.targets u.m (u.yield none))
      | .fn 0 => .ok (.gate r.targets u.m (u.yield none))
      | .fn 1 => .ok (.gate r.targets u.m (u.yield (some r.arg)))
      | .fn _ => .error .userParams
      | .other => .error .userNeither := by
  rw [resolveGate_user lib ug r u hname hf]
  cases hk : u.kind with
  | oper => simp [userStep, hk]
  | other => rfl
  | fn n =>
    match n with
    | 0 => simp [userStep, hk]
    | 1 => simp [userStep, hk]
    | _ + 2 => rfl
-- non-vacuity: a table with a one-parameter function (here `a ↦ [[a, 0], [0, 1]]`) shadowing the library's X
example : resolveGate (⟨fun _ _ => some (1, [[0, 1], [1, 0]]), fun _ => 1⟩ : Library ℂ ℂ)
      [⟨"X", .fn 1, 1, fun a => [[a.getD 0, 0], [0, 1]]⟩] ⟨"X", [2], [], true, Complex.I, none⟩ =
    .ok (.gate [2] 1 [[Complex.I, 0], [0, 1]]) := by
  rw [resolve_user_spec _ _ _ ⟨"X", .fn 1, 1, fun a => [[a.getD 0, 0], [0, 1]]⟩ (by decide) (by simp)]
  simp

/-- a name absent from the user table is resolved by the library, placed on `controls + targets`
(`targets` when `controls is None`); GLOBALPHASE is the scalar whatever the tables say.  The library's
matrices are fixed ("acts on the targets when all control qubits are 1"): an explicit `control_value` is
accepted only when the gate has controls and the value is the all-ones mask `2^k - 1`; any other value is
**refused** (`controlValue`) before the name is looked at — the library has no matrix for it. -/
theorem resolve_library_spec {A : Type} (lib : Library A ℂ) (ug : List (UserGate A ℂ)) (r : GateReq A) :
    (r.name = "GLOBALPHASE" → resolveGate lib ug r = .ok (.phase (lib.phase r.arg))) ∧
    (r.name ≠ "GLOBALPHASE" → (ug.find? fun u => u.name == r.name) = none →
      resolveGate lib ug r =
        if r.fixedControlOK = false then .error .controlValue else
        match lib.compact r.name r.arg with
        | some (m, U) => .ok (.gate (if r.controlsNone then r.targets else r.controls ++ r.targets) m U)
        | none => .error .unknownGate) :=
  ⟨resolveGate_phase lib ug r, fun h1 h2 =>
    (resolveGate_library lib ug r h1 h2).trans (by
      cases r.fixedControlOK with
      | false => rfl
      | true => cases lib.compact r.name r.arg <;> rfl)⟩
example : resolveGate (⟨fun _ _ => some (2, []), fun _ => 1⟩ : Library ℂ ℂ) [] ⟨"CNOT", [0], [3], false, 0, none⟩ =
    .ok (.gate [3, 0] 2 []) := by
  simp [resolveGate, getGateUnitary, GateReq.allQubits, GateReq.fixedControlOK]

/-- **`control_value_spec`.** Which explicit control values a library gate accepts: none given — accepted;
`v` given — accepted iff the gate lists `k ≥ 1` controls and `v = 2^k - 1`.  So a two-control gate
(TOFFOLI) accepts exactly 3 and refuses 0, 1, 2. -/
theorem control_value_spec {A : Type} (r : GateReq A) :
    r.fixedControlOK = true ↔
      (r.controlValue = none ∨
        ∃ v, r.controlValue = some v ∧ r.controlsNone = false ∧ r.controls ≠ [] ∧ v = 2 ^ r.controls.length - 1) := by
  unfold GateReq.fixedControlOK
  cases r.controlValue with
  | none => simp
  | some v => simp; tauto
example : ((List.range 4).map fun v => (⟨"TOFFOLI", [2], [0, 1], false, (), some v⟩ : GateReq Unit).fixedControlOK)
      = [false, false, false, true] ∧
    ((List.range 2).map fun v => (⟨"CNOT", [1], [0], false, (), some v⟩ : GateReq Unit).fixedControlOK) = [false, true] ∧
    (⟨"TOFFOLI", [0, 1, 2], [], true, (), some 3⟩ : GateReq Unit).fixedControlOK = false := by decide

/-- **Circuits of user gates, end to end**: for every register size, user table and list of gate objects
naming table entries (stored operators, 0- and 1-parameter functions; `controls is None`; targets
duplicate-free, in range, as many as the operator has qubits; the yielded rows of length `2^m`): every
lookup succeeds, the steps are the user's operators on the named targets, the state-vector run succeeds
and returns `(ordered product of the embedded user matrices).mulVec ψ`. -/
theorem user_circuit_run_eq_den {A : Type} (N : ℕ) (lib : Library A ℂ) (ug : List (UserGate A ℂ))
    (rs : List (GateReq A × UserGate A ℂ)) (h : ∀ p ∈ rs, UserCircuitOK N ug p.1 p.2) (amps : List ℂ) :
    ∃ T', resolveAll lib ug (rs.map (·.1)) = .ok (rs.map fun p => userStep p.2 p.1) ∧
      runKet opsC (rs.map fun p => userStep p.2 p.1) (ketTensor N amps) = .ok T' ∧
      ketOf N T' = (denP ((rs.map fun p => userStep p.2 p.1).map (toPGate N))).mulVec (ketOf N (ketTensor N amps)) ∧
      ∀ p (hp : p ∈ rs), (toPGate N (userStep p.2 p.1)).den =
        (tgOfList N p.1.targets (h p hp).nodup (h p hp).range).embed
          (gateMat p.1.targets.length (p.2.yield (match p.2.kind with | .fn 1 => some p.1.arg | _ => none))) := by
  obtain ⟨h1, h2⟩ := resolveAll_user N lib ug rs h
  obtain ⟨T', g1, _, g3⟩ := ket_run N _ h2 amps
  exact ⟨T', h1, g1, g3, fun p hp => toPGate_gate_den N _ _ _ (h p hp).nodup (h p hp).range⟩
-- non-vacuity: a 1-parameter user function on qubit 2 of 3
example : UserCircuitOK 3 [(⟨"UA", .fn 1, 1, fun a => [[a.getD 0, 0], [0, 1]]⟩ : UserGate ℂ ℂ)]
    ⟨"UA", [2], [], true, Complex.I, none⟩ ⟨"UA", .fn 1, 1, fun a => [[a.getD 0, 0], [0, 1]]⟩ :=
  ⟨by decide, by simp, rfl, Or.inr (Or.inr rfl), by simp, by simp, rfl, by intro a row hr; simp at hr; rcases hr with rfl | rfl <;> rfl⟩

/-! ## `propagators(expand, ignore_measurement)`, the right-to-left product, the `expand=False` pipeline -/

/-- **`ignore_measurement`**: with the flag the propagators are those of the circuit without its
measurements; without it a circuit containing a measurement is refused (TypeError); a measurement-free
circuit is unaffected by the flag. -/
theorem propagators_measurement_spec {α : Type} (o : Ops α) (N : ℕ) (e : Bool) (items : List (Item α)) :
    propagatorsM o N e true items = propagators o N e (items.filterMap Item.gate?) ∧
    (Item.meas ∈ items → propagatorsM o N e false items = .error .measurement) ∧
    (Item.meas ∉ items → ∀ ig, propagatorsM o N e ig items = propagators o N e (items.filterMap Item.gate?) ∧
      (items.filterMap Item.gate?).map Item.op = items) := by
  refine ⟨propagatorsM_ignore o N e items, propagatorsM_refuse o N e items, fun h ig => ?_⟩
  have h2 := filterMap_gate_nomeas items h
  refine ⟨?_, h2⟩
  conv_lhs => rw [← h2]
  exact propagatorsM_nomeas o N e ig _
example : (match propagatorsM CycD.ops 1 true false [.op (.phase CycD.one), .meas] with
      | .error .measurement => true | _ => false) = true ∧
    (propagatorsM CycD.ops 1 true true [.op (.phase CycD.one), .meas]).toOption.map (·.length) = some 1 := by
  decide +kernel

/-- with `ignore_measurement=True` the left-to-right product of the expanded propagators is the ordered
product of the circuit's gates (its measurements dropped) -/
theorem propagators_ignore_product_eq_den (N : ℕ) (items : List (Item ℂ))
    (hw : ∀ op ∈ items.filterMap Item.gate?, WFOp N op) (hne : items.filterMap Item.gate? ≠ []) :
    ∃ l P, propagatorsM opsC N true true items = .ok l ∧ seqProduct opsC true none l = some P ∧
      matOf N P = denP ((items.filterMap Item.gate?).map (toPGate N)) := by
  rw [propagatorsM_ignore]
  exact propagators_product N _ hw hne

/-- **`left_to_right=False`**: the expanded propagators multiplied right to left (`U_overall * U`) give the
ordered product of the *reversed* circuit, `U₁ U₂ ⋯ Uₙ`. -/
theorem propagators_product_rtl_eq_den_reverse (N : ℕ) (ops : List (Op ℂ)) (hw : ∀ op ∈ ops, WFOp N op) (hne : ops ≠ []) :
    ∃ l P, propagators opsC N true ops = .ok l ∧ seqProduct opsC false none l = some P ∧
      matOf N P = denP (ops.reverse.map (toPGate N)) :=
  propagators_product_rtl N ops hw hne

/-- `propagators(expand=False)` never fails and returns the steps' own matrices: the rows as given for a
gate, the full-register scalar matrix for GLOBALPHASE (not "a number" as the docstring says) -/
theorem propagators_compact_eq (N : ℕ) (ops : List (Op ℂ)) :
    propagators opsC N false ops = .ok (ops.map fun
      | .phase c => FMat.smul opsC c (FMat.ident opsC (2 ^ N))
      | .gate _ m U => FMat.ofRows opsC (2 ^ m) U) :=
  propagators_compact N ops

/-- **The `expand=False` pipeline**: `gate_sequence_product(qc.propagators(expand=False), inds_list = the
qubits of each gate, expand=True)` succeeds for every non-empty well-placed circuit, returns as index
list the sorted distinct qubits the circuit names, and its matrix placed on them is the ordered product. -/
theorem compact_pipeline_eq_den (N : ℕ) (ops : List (Op ℂ)) (hne : ops ≠ []) (hw : ∀ op ∈ ops, WFOp N op) :
    ∃ l R, propagators opsC N false ops = .ok l ∧
      compactProduct opsC ordSorted (l.zip (ops.map (stepQubits N))) =
        .ok (R, sortDedup (ops.map (stepQubits N)).flatten) ∧
      embL N (sortDedup (ops.map (stepQubits N)).flatten) R = denP (ops.map (toPGate N)) :=
  compact_pipeline N ops hne hw

/-! ## The step-by-step trajectory (`initialize`, `step`, reading `state` after every step) -/

/-- **`trajectory_prefix`** (over arbitrary scalars).  The list of states recorded after every step has one
entry per step, and entry `k` is the run of the first `k + 1` steps on the input — a value that later steps
cannot change (the model is immutable; the contract for the code is that a `Qobj` returned by
`CircuitSimulator.state` never changes afterwards: no aliasing of the internal buffer, cf. `C16.no_alias`). -/
theorem trajectory_prefix {α : Type} (o : Ops α) (ops : List (Op α)) (st : Tensor α) (l : List (Tensor α))
    (h : traceKet o ops st = .ok l) :
    l.length = ops.length ∧ ∀ k (hk : k < l.length), runKet o (ops.take (k + 1)) st = .ok l[k] :=
  ⟨traceKet_length o ops st l h, traceKet_prefix o ops st l h⟩
-- non-vacuity: X, then two phases, on one qubit: the recorded states are [|1⟩, i|1⟩, -|1⟩]
example : (traceKet CycD.ops [.gate [0] 1 [[CycD.zero, CycD.one], [CycD.one, CycD.zero]], .phase ⟨0, Cyc.I⟩, .phase ⟨0, Cyc.I⟩]
      (ketTensor 1 [CycD.one, CycD.zero])).toOption.map (·.map (·.data)) =
    some [[CycD.zero, CycD.one], [CycD.zero, ⟨0, Cyc.I⟩], [CycD.zero, ⟨0, Cyc.neg Cyc.one⟩]] := by
  decide +kernel

/-- **`trajectory_eq_den`.** For every register size, every measurement-free circuit of well-placed steps and
every input ket: stepping succeeds, and the state recorded after step `k + 1` is the ordered product of the
first `k + 1` gates applied to the input — for every `k`, whatever steps follow (GLOBALPHASE included). -/
theorem trajectory_eq_den (N : ℕ) (ops : List (Op ℂ)) (hw : ∀ op ∈ ops, WFOp N op) (amps : List ℂ) :
    ∃ l, traceKet opsC ops (ketTensor N amps) = .ok l ∧ l.length = ops.length ∧
      ∀ k (hk : k < l.length),
        ketOf N l[k] = (denP ((ops.take (k + 1)).map (toPGate N))).mulVec (ketOf N (ketTensor N amps)) := by
  obtain ⟨T, hT, _, _⟩ := ket_run N ops hw amps
  obtain ⟨l, hl⟩ := traceKet_ok_of_run opsC ops _ T hT
  refine ⟨l, hl, traceKet_length _ _ _ _ hl, fun k hk => ?_⟩
  have h1 := traceKet_prefix opsC ops _ l hl k hk
  obtain ⟨T', g1, _, g3⟩ := ket_run N (ops.take (k + 1)) (fun op hop => hw op (List.mem_of_mem_take hop)) amps
  rw [h1] at g1
  cases g1
  exact g3

/-- the same for an operator-valued input (`compute_unitary` stepped: the partial unitaries) -/
theorem trajectory_oper_eq_den (N : ℕ) (ops : List (Op ℂ)) (hw : ∀ op ∈ ops, WFOp N op) (rows : List (List ℂ)) :
    ∃ l, traceKet opsC ops (operTensor N rows) = .ok l ∧ l.length = ops.length ∧
      ∀ k (hk : k < l.length),
        operOf N l[k] = denP ((ops.take (k + 1)).map (toPGate N)) * operOf N (operTensor N rows) := by
  obtain ⟨T, hT, _, _⟩ := oper_run N ops hw rows
  obtain ⟨l, hl⟩ := traceKet_ok_of_run opsC ops _ T hT
  refine ⟨l, hl, traceKet_length _ _ _ _ hl, fun k hk => ?_⟩
  have h1 := traceKet_prefix opsC ops _ l hl k hk
  obtain ⟨T', g1, _, g3⟩ := oper_run N (ops.take (k + 1)) (fun op hop => hw op (List.mem_of_mem_take hop)) rows
  rw [h1] at g1
  cases g1
  exact g3

/-! ## Histories on live gate objects (`gate.targets = …`, `gate.controls = …` between evaluations) -/

/-- **`run_reads_current_fields`.** `targets` and `controls` of a gate object are plain public attributes.
For every evaluation route `ev` of the model (a function of the objects' fields — the model has no memo of
`get_all_qubits` and no cached matrices), every circuit of gate objects and every history of re-assignments
of targets / controls and of earlier evaluations: the answer of an evaluation is the answer for freshly
built objects carrying the **current** fields.  (The contract checked on the code by the re-targeting
histories; C08 states the same for `get_qobj` as `history_get_current`, C02 as `stat_eq_branches_current`.) -/
theorem run_reads_current_fields {A β : Type} (ev : List (GateReq A) → β) (gs : List (GateReq A)) (ops : List HistOp) :
    runHist ev gs (ops ++ [.eval]) = runHist ev gs ops ++ [ev (ops.foldl applyHist gs)] :=
  runHist_eval_last ev gs ops
-- non-vacuity: CNOT(0→1), RY(1); evaluated, RY moved to qubit 2, CNOT re-targeted to 2→0, evaluated again
example : runHist (fun gs => gs.map GateReq.allQubits)
      [(⟨"CNOT", [1], [0], false, (), none⟩ : GateReq Unit), ⟨"RY", [1], [], true, (), none⟩]
      [.eval, .setTargets 1 [2], .setControls 0 (some [2]), .setTargets 0 [0], .eval]
    = [[[0, 1], [1]], [[2, 0], [2]]] := by decide

/-- **`retargeted_run_eq_den`.** After any history on the gate objects, if the objects as they are **now**
resolve to well-placed steps, the state-vector evaluation returns the ordered product of the gates'
matrices embedded on the qubits the gates name now, applied to the input. -/
theorem retargeted_run_eq_den {A : Type} (N : ℕ) (lib : Library A ℂ) (ug : List (UserGate A ℂ))
    (gs : List (GateReq A)) (hist : List HistOp) (ops : List (Op ℂ)) (amps : List ℂ)
    (h : resolveAll lib ug (hist.foldl applyHist gs) = .ok ops) (hw : ∀ op ∈ ops, WFOp N op) :
    ∃ T', (runHist (fun g => (resolveAll lib ug g).bind fun o => runKet opsC o (ketTensor N amps)) gs
              (hist ++ [.eval])).getLast? = some (.ok T') ∧
      ketOf N T' = (denP (ops.map (toPGate N))).mulVec (ketOf N (ketTensor N amps)) := by
  obtain ⟨T', g1, _, g3⟩ := ket_run N ops hw amps
  refine ⟨T', ?_, g3⟩
  rw [run_reads_current_fields, List.getLast?_append, List.getLast?_singleton, h]
  simp [Except.bind, g1]

/-! ## Circuits of library gates, against the shared specification object `denG` -/

/-- **`library_circuit_eq_denG`.** For every register size, every valuation `ρ` of the symbolic angles
(so: every real angle) and every circuit `gs` of library gates in the circuit IR that has a denotation
`denG N ρ gs = some D` (known names, as many qubits as the gate has, no repeated qubit, all `< N`):
the steps `libStep` (GLOBALPHASE: the scalar `e^{iθ}`; otherwise the rows of `compactC name θ` — the
matrices generated from the source, whose documented forms are C09 — on `controls ++ targets`) exist,
and the state-vector run, `compute_unitary` and the density-matrix run of the model on them are `D ψ`,
`D` and `D ρ₀ D†`.  This discharges the hypothesis of `den_eq_denG` for the library. -/
theorem library_circuit_eq_denG (N : ℕ) (ρ : ℕ → ℝ) (gs : List Gate) (D : Matrix (St N) (St N) ℂ)
    (h : denG N ρ gs = some D) :
    ∃ ops, gs.mapM (libStep ρ) = some ops ∧
      (∀ amps, ∃ T', runKet opsC ops (ketTensor N amps) = .ok T' ∧
        ketOf N T' = D.mulVec (ketOf N (ketTensor N amps))) ∧
      (∃ T', computeUnitary opsC N ops = .ok T' ∧ operOf N T' = D) ∧
      (∀ ρ0 : FMat ℂ, ρ0.n = 2 ^ N → ∃ ρ', runDm opsC N ops ρ0 = .ok ρ' ∧ matOf N ρ' = D * matOf N ρ0 * Dᴴ) := by
  obtain ⟨ops, h1, h2, h3⟩ := denG_libSteps N ρ gs D h
  refine ⟨ops, h1, fun amps => ?_, ?_, fun ρ0 hρ => ?_⟩
  · obtain ⟨T', g1, _, g3⟩ := ket_run N ops h2 amps
    exact ⟨T', g1, h3 ▸ g3⟩
  · obtain ⟨T', g1, _, g3⟩ := unitary_run N ops h2
    exact ⟨T', g1, h3 ▸ g3⟩
  · obtain ⟨ρ', g1, _, g3⟩ := runDm_spec N ops h2 ρ0 hρ
    exact ⟨ρ', g1, h3 ▸ g3⟩
-- non-vacuity: RZ(θ) on qubit 1, then CNOT(control 2, target 0), on 3 qubits has a denotation for every θ
example (ρ : ℕ → ℝ) : (denG 3 ρ [⟨.RZ, [1], [], Ang.symb 0⟩, ⟨.CNOT, [0], [2], {}⟩]).isSome = true := by
  simp [denG, semG, compactC, gateE, Gate.qubits]

/-! ### Counter-example for an unsorted order (the unrepaired code on CPython with qubit labels ≥ 8) -/

private def cz : CycD := CycD.zero
private def co : CycD := CycD.one
private def ci : CycD := ⟨0, Cyc.I⟩
/-- X on qubit 0, S on qubit 1, then CNOT(control 0, target 1) -/
def cexGates : List (Block CycD) :=
  [(FMat.ofRows CycD.ops 2 [[cz, co], [co, cz]], [0]),
   (FMat.ofRows CycD.ops 2 [[co, cz], [cz, ci]], [1]),
   (FMat.ofRows CycD.ops 4 [[co, cz, cz, cz], [cz, co, cz, cz], [cz, cz, cz, co], [cz, cz, co, cz]], [0, 1])]
/-- CNOT · (X ⊗ S), written out -/
def cexDense : List (List CycD) :=
  [[cz, cz, co, cz], [cz, cz, cz, ci], [cz, ci, cz, cz], [co, cz, cz, cz]]

/-- **`C01_counterexample_unsorted_order`.** With the sorting oracle the model returns the ordered
product; with a legal but unsorted order (`ordRev`: `list({0, 1})` answering `[1, 0]`) the same code
returns a different matrix: `ind_map` is an argsort, not a rank, and `revised_inds` is used as if it
were sorted.  (On the real code: fixes/C01-findings.json, 9 qubits, CNOT on `[8, 4]`.) -/
theorem C01_counterexample_unsorted_order :
    (compactProduct CycD.ops ordSorted cexGates).toOption.map (fun r => (r.1.rows, r.2)) = some (cexDense, [0, 1]) ∧
    (compactProduct CycD.ops ordRev cexGates).toOption.map (fun r => r.1.rows) ≠ some cexDense := by
  decide +kernel

end QipVerif.C01
