import QipVerif.Lemmas.RenderPrefix
/-!
# C20 — text drawings of circuits are well-formed pictures of the circuit

Property theorems only.  `Render.render sty c` is the model of
`QubitCircuit.draw("text", **style)` (lean/QipVerif/Model/Render.lean: the printed rows, or the
exception); `Render.layoutSt` is the renderer's state when `print_circuit` is called.
All theorems are for every number of wires, every circuit and every style.

The clause "all rows of equal width" is **false** for the code as it is
(`equal_width_refuted`, witnesses `equal_width_counterexample_*`): it is proved under the
decidable hypothesis `circOk` (`equal_width_partial`).
-/
namespace QipVerif.C20
open QipVerif.Render

/-! ## three rows per wire, in the stated order -/

/-- A successful drawing has exactly three rows per quantum and classical wire. -/
theorem three_rows_per_wire (sty : Style) (c : Circ) (rows : List Str) (h : render sty c = .ok rows) :
    rows.length = 3 * (c.N + c.C) := by
  obtain ⟨st, hst, rfl⟩ := render_ok h
  have hlen := layoutSt_length hst
  unfold printRows
  rw [flatMap_wireRows_length st _ (fun i hi => by have := mem_printOrder hi; omega), printOrder_length]

example : ∃ rows, render {} { N := 2, C := 1, ops := [.meas [1] 0] } = .ok rows ∧ rows.length = 9 := by
  refine ⟨_, rfl, ?_⟩; decide +kernel

/-- **Row order.**  The picture lists the wires from the highest qubit down to qubit 0, then the
classical wires from the highest down (`wireAtRow N C j = N-1-j` for `j < N`, `N + (N+C-1-j)` after):
rows `3j, 3j+1, 3j+2` of the output are the top / middle / bottom row of that wire. -/
theorem row_order (sty : Style) (c : Circ) (rows : List Str) (h : render sty c = .ok rows) :
    ∃ st, layoutSt sty c = .ok st ∧ ∀ j, j < c.N + c.C →
      ∃ w, st[wireAtRow c.N c.C j]? = some w ∧
        rows[3 * j]? = some w.top ∧ rows[3 * j + 1]? = some w.mid ∧ rows[3 * j + 2]? = some w.bot := by
  obtain ⟨st, hst, rfl⟩ := render_ok h
  have hlen := layoutSt_length hst
  refine ⟨st, hst, fun j hj => ?_⟩
  have hmem : ∀ i ∈ printOrder c.N c.C, i < st.length := fun i hi => by have := mem_printOrder hi; omega
  have hw : wireAtRow c.N c.C j < st.length := by
    have := mem_printOrder (List.mem_of_getElem? (printOrder_get c.N c.C j hj)); omega
  refine ⟨st[wireAtRow c.N c.C j], List.getElem?_eq_getElem hw, ?_, ?_, ?_⟩
  · have := flatMap_wireRows_get st _ hmem j 0 (by omega)
    rw [Nat.add_zero] at this
    rw [printRows, this, printOrder_get _ _ _ hj]
    simp [wireRows_of_get (List.getElem?_eq_getElem hw)]
  · rw [printRows, flatMap_wireRows_get st _ hmem j 1 (by omega), printOrder_get _ _ _ hj]
    simp [wireRows_of_get (List.getElem?_eq_getElem hw)]
  · rw [printRows, flatMap_wireRows_get st _ hmem j 2 (by omega), printOrder_get _ _ _ hj]
    simp [wireRows_of_get (List.getElem?_eq_getElem hw)]

example : (List.range 5).map (wireAtRow 3 2) = [2, 1, 0, 4, 3] := by decide

/-- **Row order, as read off the picture.**  The middle row at picture position `j` begins with
the label of wire `wireAtRow N C j` (` label`, blanks up to the longest label, `:`). -/
theorem row_labels (sty : Style) (c : Circ) (rows : List Str) (h : render sty c = .ok rows)
    (j : Nat) (hj : j < c.N + c.C) (l : Str)
    (hl : (wireLabels sty c.N c.C)[wireAtRow c.N c.C j]? = some l) :
    ∃ row, rows[3 * j + 1]? = some row ∧
      labelPrefix (lmax ((wireLabels sty c.N c.C).map List.length)) l <+: row := by
  obtain ⟨st, hst, hrows⟩ := row_order sty c rows h
  obtain ⟨w, hw, _, hmid, _⟩ := hrows j hj
  have hlt : wireAtRow c.N c.C j < c.N + c.C :=
    mem_printOrder (List.mem_of_getElem? (printOrder_get c.N c.C j hj))
  obtain ⟨w', hw', hpre⟩ := layoutSt_label hst _ hlt l hl
  rw [hw] at hw'; cases hw'
  exact ⟨w.mid, hmid, hpre⟩

example : ∃ rows row, render {} { N := 2, C := 1, ops := [] } = .ok rows ∧ rows[1]? = some row ∧
    [' ','q','1',' ',':'] <+: row := by
  refine ⟨_, _, rfl, rfl, ?_⟩; decide +kernel

/-! ## the length invariant `len top[w] = len mid[w] = len bot[w]` -/

/-- … after `_add_wire_labels` and after every iteration of the loop of `layout`
(`ops` is arbitrary, so this covers every prefix of the circuit) … -/
theorem aligned_after_every_step (sty : Style) (N C : Nat) (ops : List Op) (st0 st : St)
    (h0 : addWireLabels sty N C (initSt N C) = .ok st0) (h : steps sty N C st0 ops = .ok st) :
    Aligned st0 ∧ Aligned st := by
  have a0 := addLabelsFrom_aligned (addWireLabels_ok h0) (initSt_aligned _ _)
  exact ⟨a0, steps_induct Aligned (fun _ _ _ hs hst => step_aligned hst hs) h a0⟩

/-- … after every single `+=` inside an iteration (`m` appends of the `_update_*` calls done) … -/
theorem aligned_after_every_append (align : Bool) (p N C : Nat) (op : Op) (pl : Plan) (st : St) (m : Nat)
    (hpl : plan p N C op = .ok pl) (h : Aligned st) :
    Aligned (applyActs (pl.acts.take m)
      (manageLayers pl.width pl.wl (layerOf st pl.wl) (getXskip align N st pl.wl (layerOf st pl.wl))
        (adjustPad N pl.wl (getXskip align N st pl.wl (layerOf st pl.wl)) st))) :=
  place_aligned align N { pl with acts := pl.acts.take m } st
    (fun a ha => plan_acts_segOk hpl a (List.mem_of_mem_take ha)) h

/-- … and when the picture is printed: the three rows of every wire have one length. -/
theorem aligned_final (sty : Style) (c : Circ) (rows : List Str) (h : render sty c = .ok rows) :
    ∀ j, j < c.N + c.C → ∃ t m b, rows[3 * j]? = some t ∧ rows[3 * j + 1]? = some m ∧ rows[3 * j + 2]? = some b ∧
      t.length = m.length ∧ b.length = m.length := by
  obtain ⟨st, hst, hrows⟩ := row_order sty c rows h
  intro j hj
  obtain ⟨w, hw, h1, h2, h3⟩ := hrows j hj
  have := layoutSt_aligned hst w (List.mem_of_getElem? hw)
  exact ⟨_, _, _, h1, h2, h3, this.1, this.2⟩

example : ∃ st0 st, addWireLabels {} 3 1 (initSt 3 1) = .ok st0 ∧
    steps {} 3 1 st0 [.gate ['U'] none [0, 2] (some [1]), .meas [1] 0] = .ok st := ⟨_, _, rfl, rfl⟩

/-! ## equal widths -/

/-- **Equal widths (partial).**  If the style has `end_wire_ext ≥ 0`, a label for every wire (or the
default labels), there is at least one qubit, every gate acts on qubits, every measurement has
one target, and **every box with controls has contiguous targets** (`circOk`, decidable), then
after the final padding all rows have one width. -/
theorem equal_width_partial (sty : Style) (c : Circ) (rows : List Str) (hc : circOk sty c = true)
    (h : render sty c = .ok rows) : EqualWidth rows := by
  simp only [circOk, Bool.and_eq_true, List.all_eq_true] at hc
  obtain ⟨st, hst, rfl⟩ := render_ok h
  obtain ⟨st0, st1, h0, h1, rfl⟩ := layoutSt_ok hst
  have hinv := steps_inv hc.2 h1 (labels_inv hc.1 h0)
  have hw := finalPad_width (styleOk_ext hc.1) hinv.1
  intro r hr r' hr'
  obtain ⟨w, hwm, hrw⟩ := mem_printRows hr
  obtain ⟨w', hwm', hrw'⟩ := mem_printRows hr'
  obtain ⟨a1, a2, a3⟩ := hw w hwm
  obtain ⟨b1, b2, b3⟩ := hw w' hwm'
  rcases hrw with rfl | rfl | rfl <;> rcases hrw' with rfl | rfl | rfl <;> omega

/-- The drawing of a covered circuit succeeds. -/
theorem draw_succeeds (sty : Style) (c : Circ) (hc : circOk sty c = true) : ∃ rows, render sty c = .ok rows := by
  simp only [circOk, Bool.and_eq_true, List.all_eq_true] at hc
  obtain ⟨st0, h0⟩ := labels_succeed hc.1
  obtain ⟨st1, h1⟩ := steps_succeeds (sty := sty) (C := c.C) st0 hc.2 (styleOk_N hc.1)
  exact ⟨printRows c.N c.C (finalPad sty c.N st1), by simp only [render, layoutSt, h0, h1]⟩

/-- a non-trivial covered circuit: TOFFOLI with controls on both sides, a SWAP, a measurement, a
two-target box with two controls, `align_layer=True`, `gate_pad=1.2`, custom wire labels -/
def exCirc : Circ := { N := 4, C := 2, ops :=
  [.gate ['T','O','F','F','O','L','I'] none [1] (some [0, 3]), .gate ['S','W','A','P'] none [0, 2] none, .meas [2] 1,
   .gate ['C','U'] (some ['x',' ','y']) [2, 3] (some [0, 1])] }
def exStyle : Style :=
  { padNum := 6, padDen := 5, align := true, labels := some [['a'], ['b','b'], ['q','0'], ['q','1'], [], ['q','3']] }

example : circOk exStyle exCirc = true ∧ rowWidths exStyle exCirc = some (List.replicate 18 53) := by
  decide +kernel

/-- **Counter-example 1** (confirmed on the code: rows of width 22 and 44).  4 qubits,
`FREDKIN` with control 2 and targets `[1, 3]`, default style: the rows of qubit 2 are twice as long. -/
theorem equal_width_counterexample_inside :
    rowWidths {} { N := 4, C := 0, ops := [.gate ['F','R','E','D','K','I','N'] none [1, 3] (some [2])] }
      = some [22, 22, 22, 44, 44, 44, 22, 22, 22, 22, 22, 22] := by decide +kernel

/-- **Counter-example 2** (rows of width 22 and 32): control 0 below the targets `[1, 3]`. -/
theorem equal_width_counterexample_below :
    rowWidths {} { N := 4, C := 0, ops := [.gate ['F','R','E','D','K','I','N'] none [1, 3] (some [0])] }
      = some [22, 22, 22, 32, 32, 32, 22, 22, 22, 22, 22, 22] := by decide +kernel

/-- **The clause "all rows of equal width" as stated is false**: for a valid circuit (in-range,
pairwise distinct qubits) in the default style the drawing succeeds with rows of different widths. -/
theorem equal_width_refuted :
    ¬ ∀ (sty : Style) (c : Circ) (rows : List Str), circValid sty c = true → render sty c = .ok rows →
        EqualWidth rows := by
  intro hall
  have hv : circValid {} { N := 4, C := 0, ops := [.gate ['F','R','E','D','K','I','N'] none [1, 3] (some [0])] } = true := by
    decide +kernel
  cases hr : render {} { N := 4, C := 0, ops := [.gate ['F','R','E','D','K','I','N'] none [1, 3] (some [0])] } with
  | error e =>
    have := equal_width_counterexample_below
    simp [rowWidths, hr] at this
  | ok rows =>
    have hw := equal_width_counterexample_below
    rw [rowWidths_of_render hr] at hw
    have heq := hall _ _ rows hv hr
    have hlen : (rows.map List.length).length = 12 := by rw [Option.some.inj hw]; rfl
    have h0 : (rows.map List.length)[0]? = some 22 := by rw [Option.some.inj hw]; rfl
    have h3 : (rows.map List.length)[3]? = some 32 := by rw [Option.some.inj hw]; rfl
    simp only [List.getElem?_map, Option.map_eq_some_iff] at h0 h3
    obtain ⟨r0, hr0, hl0⟩ := h0
    obtain ⟨r3, hr3, hl3⟩ := h3
    have := heq r0 (List.mem_of_getElem? hr0) r3 (List.mem_of_getElem? hr3)
    omega

-- the witness violates only the contiguity clause of `circOk`
example : opOk 4 (.gate ['F','R','E','D','K','I','N'] none [1, 3] (some [0])) = false ∧
    opValid 4 0 (.gate ['F','R','E','D','K','I','N'] none [1, 3] (some [0])) = true ∧
    contig [1, 3] = false ∧ opOk 4 (.gate ['F','R','E','D','K','I','N'] none [1, 2] (some [0])) = true := by decide

end QipVerif.C20
