import QipVerif.Lemmas.RenderTotal
/-!
# C20 — text drawings of circuits are well-formed pictures of the circuit

Property theorems only.  `Render.render v sty c` is the model of
`QubitCircuit.draw("text", **style)` (lean/QipVerif/Model/Render.lean: the printed rows, or the
exception); `Render.layoutSt` is the renderer's state when `print_circuit` is called.
All theorems are for every number of wires, every circuit and every style.

`Render.Variant` says which of the four repairs fixes/C20-1 … C20-4 the modelled tree contains
(read from the source on every check); `Variant.repaired` has all four, `{}` none (the tree as
shipped).  **Headline for the repaired tree: `well_formed_repaired`, `equal_width`, `draws_iff`.**

The clause "all rows of equal width" is **false** for the shipped code
(`equal_width_refuted`, witnesses `equal_width_counterexample_*`) and the clause "the drawing
succeeds" is false for it on circuits with `GLOBALPHASE` and, still on a tree without fixes/C20-4,
on circuits with a measurement whose result is not stored (`global_gate_not_drawn`,
`unstored_measurement_not_drawn`); for every variant both are proved under the decidable hypothesis
`circOk` (`equal_width_partial`, `draw_succeeds`), which on the repaired tree every valid circuit meets.
-/
namespace QipVerif.C20
open QipVerif.Render

/-! ## three rows per wire, in the stated order -/

/-- A successful drawing has exactly three rows per quantum and classical wire. -/
theorem three_rows_per_wire (v : Variant) (sty : Style) (c : Circ) (rows : List Str) (h : render v sty c = .ok rows) :
    rows.length = 3 * (c.N + c.C) := by
  obtain ⟨st, hst, rfl⟩ := render_ok h
  have hlen := layoutSt_length hst
  unfold printRows
  rw [flatMap_wireRows_length st _ (fun i hi => by have := mem_printOrder hi; omega), printOrder_length]

example : ∃ rows, render {} {} { N := 2, C := 1, ops := [.meas [1] 0] } = .ok rows ∧ rows.length = 9 := by
  refine ⟨_, rfl, ?_⟩; decide +kernel

/-- **Row order.**  The picture lists the wires from the highest qubit down to qubit 0, then the
classical wires from the highest down (`wireAtRow N C j = N-1-j` for `j < N`, `N + (N+C-1-j)` after):
rows `3j, 3j+1, 3j+2` of the output are the top / middle / bottom row of that wire. -/
theorem row_order (v : Variant) (sty : Style) (c : Circ) (rows : List Str) (h : render v sty c = .ok rows) :
    ∃ st, layoutSt v sty c = .ok st ∧ ∀ j, j < c.N + c.C →
      ∃ w, st[wireAtRow c.N c.C j]? = some w ∧
        rows[3 * j]? = some w.top ∧ rows[3 * j + 1]? = some w.mid ∧ rows[3 * j + 2]? = some w.bot := by
  obtain ⟨st, hst, rfl⟩ := render_ok h
  have hlen := layoutSt_length hst
  refine ⟨st, hst, fun j hj => ?_⟩
  have hmem : ∀ i ∈ printOrder c.N c.C, i < st.length := fun i hi => by have := mem_printOrder hi; omega
  have hw : wireAtRow c.N c.C j < st.length := by
    have := mem_printOrder (List.mem_of_getElem? (printOrder_get c.N c.C j hj)); omega
  refine ⟨st[wireAtRow c.N c.C j], List.getElem?_eq_getElem hw, ?_, ?_, ?_⟩
  · have := flatMap_wireRows_get st _ hmem j 0 (by omega)
    rw [Nat.add_zero] at this
    rw [printRows, this, printOrder_get _ _ _ hj]
    simp [wireRows_of_get (List.getElem?_eq_getElem hw)]
  · rw [printRows, flatMap_wireRows_get st _ hmem j 1 (by omega), printOrder_get _ _ _ hj]
    simp [wireRows_of_get (List.getElem?_eq_getElem hw)]
  · rw [printRows, flatMap_wireRows_get st _ hmem j 2 (by omega), printOrder_get _ _ _ hj]
    simp [wireRows_of_get (List.getElem?_eq_getElem hw)]

example : (List.range 5).map (wireAtRow 3 2) = [2, 1, 0, 4, 3] := by decide

/-- **Row order, as read off the picture.**  The middle row at picture position `j` begins with
the label of wire `wireAtRow N C j` (` label`, blanks up to the longest label, `:`). -/
theorem row_labels (v : Variant) (sty : Style) (c : Circ) (rows : List Str) (h : render v sty c = .ok rows)
    (j : Nat) (hj : j < c.N + c.C) (l : Str)
    (hl : (wireLabels sty c.N c.C)[wireAtRow c.N c.C j]? = some l) :
    ∃ row, rows[3 * j + 1]? = some row ∧
      labelPrefix (lmax ((wireLabels sty c.N c.C).map List.length)) l <+: row := by
  obtain ⟨st, hst, hrows⟩ := row_order v sty c rows h
  obtain ⟨w, hw, _, hmid, _⟩ := hrows j hj
  have hlt : wireAtRow c.N c.C j < c.N + c.C :=
    mem_printOrder (List.mem_of_getElem? (printOrder_get c.N c.C j hj))
  obtain ⟨w', hw', hpre⟩ := layoutSt_label hst _ hlt l hl
  rw [hw] at hw'; cases hw'
  exact ⟨w.mid, hmid, hpre⟩

example : ∃ rows row, render {} {} { N := 2, C := 1, ops := [] } = .ok rows ∧ rows[1]? = some row ∧
    [' ','q','1',' ',':'] <+: row := by
  refine ⟨_, _, rfl, rfl, ?_⟩; decide +kernel

/-! ## the length invariant `len top[w] = len mid[w] = len bot[w]` -/

/-- … after `_add_wire_labels` and after every iteration of the loop of `layout`
(`ops` is arbitrary, so this covers every prefix of the circuit) … -/
theorem aligned_after_every_step (v : Variant) (sty : Style) (N C : Nat) (ops : List Op) (st0 st : St)
    (h0 : addWireLabels sty N C (initSt N C) = .ok st0) (h : steps v sty N C st0 ops = .ok st) :
    Aligned st0 ∧ Aligned st := by
  have a0 := addLabelsFrom_aligned (addWireLabels_ok h0) (initSt_aligned _ _)
  exact ⟨a0, steps_induct Aligned (fun _ _ _ hs hst => step_aligned hst hs) h a0⟩

/-- … after every single `+=` inside an iteration (`m` appends of the `_update_*` calls done) … -/
theorem aligned_after_every_append (v : Variant) (align : Bool) (p N C : Nat) (op : Op) (pl : Plan) (st : St) (m : Nat)
    (hpl : plan v p N C op = .ok pl) (h : Aligned st) :
    Aligned (applyActs (pl.acts.take m)
      (manageLayers pl.width pl.wl (layerOf st pl.wl) (getXskip align N st pl.wl (layerOf st pl.wl))
        (adjustPad N pl.wl (getXskip align N st pl.wl (layerOf st pl.wl)) st))) :=
  place_aligned align N { pl with acts := pl.acts.take m } st
    (fun a ha => plan_acts_segOk hpl a (List.mem_of_mem_take ha)) h

/-- … and when the picture is printed: the three rows of every wire have one length. -/
theorem aligned_final (v : Variant) (sty : Style) (c : Circ) (rows : List Str) (h : render v sty c = .ok rows) :
    ∀ j, j < c.N + c.C → ∃ t m b, rows[3 * j]? = some t ∧ rows[3 * j + 1]? = some m ∧ rows[3 * j + 2]? = some b ∧
      t.length = m.length ∧ b.length = m.length := by
  obtain ⟨st, hst, hrows⟩ := row_order v sty c rows h
  intro j hj
  obtain ⟨w, hw, h1, h2, h3⟩ := hrows j hj
  have := layoutSt_aligned hst w (List.mem_of_getElem? hw)
  exact ⟨_, _, _, h1, h2, h3, this.1, this.2⟩

example : ∃ st0 st, addWireLabels {} 3 1 (initSt 3 1) = .ok st0 ∧
    steps {} {} 3 1 st0 [.gate ['U'] none [0, 2] (some [1]), .meas [1] 0] = .ok st := ⟨_, _, rfl, rfl⟩

/-! ## equal widths -/

/-- **Equal widths (partial).**  If the style has `end_wire_ext ≥ 0`, a label for every wire (or the
default labels), there is at least one qubit, every gate acts on qubits, every measurement has
one target, and **every box with controls has contiguous targets** (`circOk`, decidable), then
after the final padding all rows have one width. -/
theorem equal_width_partial (v : Variant) (sty : Style) (c : Circ) (rows : List Str) (hc : circOk v sty c = true)
    (h : render v sty c = .ok rows) : EqualWidth rows := by
  simp only [circOk, Bool.and_eq_true, List.all_eq_true] at hc
  obtain ⟨st, hst, rfl⟩ := render_ok h
  obtain ⟨st0, st1, h0, h1, rfl⟩ := layoutSt_ok hst
  have hinv := steps_inv hc.2 h1 (labels_inv hc.1 h0)
  have hw := finalPad_width (styleOk_ext hc.1) hinv.1
  intro r hr r' hr'
  obtain ⟨w, hwm, hrw⟩ := mem_printRows hr
  obtain ⟨w', hwm', hrw'⟩ := mem_printRows hr'
  obtain ⟨a1, a2, a3⟩ := hw w hwm
  obtain ⟨b1, b2, b3⟩ := hw w' hwm'
  rcases hrw with rfl | rfl | rfl <;> rcases hrw' with rfl | rfl | rfl <;> omega

/-- The drawing of a covered circuit succeeds. -/
theorem draw_succeeds (v : Variant) (sty : Style) (c : Circ) (hc : circOk v sty c = true) : ∃ rows, render v sty c = .ok rows := by
  simp only [circOk, Bool.and_eq_true, List.all_eq_true] at hc
  obtain ⟨st0, h0⟩ := labels_succeed hc.1
  obtain ⟨st1, h1⟩ := steps_succeeds (sty := sty) (C := c.C) st0 hc.2 (styleOk_N hc.1)
  exact ⟨printRows c.N c.C (finalPad sty c.N st1), by simp only [render, layoutSt, h0, h1]⟩

example : circOk {} exStyle exCirc = true ∧ rowWidths {} exStyle exCirc = some (List.replicate 18 53) := by
  decide +kernel

/-- **Counter-example 1** (confirmed on the code: rows of width 22 and 44).  4 qubits,
`FREDKIN` with control 2 and targets `[1, 3]`, default style: the rows of qubit 2 are twice as long. -/
theorem equal_width_counterexample_inside :
    rowWidths {} {} { N := 4, C := 0, ops := [.gate ['F','R','E','D','K','I','N'] none [1, 3] (some [2])] }
      = some [22, 22, 22, 44, 44, 44, 22, 22, 22, 22, 22, 22] := by decide +kernel

/-- **Counter-example 2** (rows of width 22 and 32): control 0 below the targets `[1, 3]`. -/
theorem equal_width_counterexample_below :
    rowWidths {} {} { N := 4, C := 0, ops := [.gate ['F','R','E','D','K','I','N'] none [1, 3] (some [0])] }
      = some [22, 22, 22, 32, 32, 32, 22, 22, 22, 22, 22, 22] := by decide +kernel

/-- **The clause "all rows of equal width" as stated is false on the shipped tree** (`Variant` `{}`): for a valid circuit (in-range,
pairwise distinct qubits) in the default style the drawing succeeds with rows of different widths. -/
theorem equal_width_refuted :
    ¬ ∀ (sty : Style) (c : Circ) (rows : List Str), circValid sty c = true → render {} sty c = .ok rows →
        EqualWidth rows := by
  intro hall
  have hv : circValid {} { N := 4, C := 0, ops := [.gate ['F','R','E','D','K','I','N'] none [1, 3] (some [0])] } = true := by
    decide +kernel
  cases hr : render {} {} { N := 4, C := 0, ops := [.gate ['F','R','E','D','K','I','N'] none [1, 3] (some [0])] } with
  | error e =>
    have := equal_width_counterexample_below
    simp [rowWidths, hr] at this
  | ok rows =>
    have hw := equal_width_counterexample_below
    rw [rowWidths_of_render hr] at hw
    have heq := hall _ _ rows hv hr
    have hlen : (rows.map List.length).length = 12 := by rw [Option.some.inj hw]; rfl
    have h0 : (rows.map List.length)[0]? = some 22 := by rw [Option.some.inj hw]; rfl
    have h3 : (rows.map List.length)[3]? = some 32 := by rw [Option.some.inj hw]; rfl
    simp only [List.getElem?_map, Option.map_eq_some_iff] at h0 h3
    obtain ⟨r0, hr0, hl0⟩ := h0
    obtain ⟨r3, hr3, hl3⟩ := h3
    have := heq r0 (List.mem_of_getElem? hr0) r3 (List.mem_of_getElem? hr3)
    omega

-- the witness violates only the contiguity clause of `circOk`
example : opOk {} 4 (.gate ['F','R','E','D','K','I','N'] none [1, 3] (some [0])) = false ∧
    opValid 4 0 (.gate ['F','R','E','D','K','I','N'] none [1, 3] (some [0])) = true ∧
    contig [1, 3] = false ∧ opOk {} 4 (.gate ['F','R','E','D','K','I','N'] none [1, 2] (some [0])) = true := by decide

/-! ## labels in order -/

/-- **Labels in order.**  Reading the middle row of qubit wire `q` from left to right
(`readLabels`: the contents of the boxes `┤…├`, without the `ceil(gate_pad)` blanks on both sides)
gives, in circuit order, the labels of exactly the gates and measurements whose box is drawn on
that wire (`opLabels`: a one-qubit gate / measurement on its target; any other boxed gate on its
lowest target wire, plus a blank label where the box is closed on its highest target wire; a SWAP
has no box).  For every circuit whose drawing succeeds — the gap class of the width defect
included — provided labels and wire labels do not themselves contain the glyphs `┤`, `├`. -/
theorem labels_in_order (v : Variant) (sty : Style) (c : Circ) (rows : List Str) (h : render v sty c = .ok rows)
    (hl : ∀ ls, sty.labels = some ls → ∀ l ∈ ls, noGlyph l = true)
    (ht : ∀ op ∈ c.ops, noGlyph (opText op) = true) (q : Nat) (hq : q < c.N) :
    ∃ row, rows[3 * (c.N - 1 - q) + 1]? = some row ∧
      readLabels sty.pad row = c.ops.flatMap fun op => opLabels c.N op q := by
  obtain ⟨st, hst, hrows⟩ := row_order v sty c rows h
  obtain ⟨w, hw, _, hmid, _⟩ := hrows (c.N - 1 - q) (by omega)
  have hwq : wireAtRow c.N c.C (c.N - 1 - q) = q := by
    unfold wireAtRow; rw [if_pos (by omega)]; omega
  rw [hwq] at hw
  exact ⟨w.mid, hmid, layoutSt_reads hst hl ht q w hw⟩

example : ∃ rows, render {} exStyle exCirc = .ok rows ∧
    (rows[10]?.map (readLabels exStyle.pad)) = some [] ∧
    (rows[7]?.map (readLabels exStyle.pad)) = some [['T','O','F','F','O','L','I']] ∧
    (rows[4]?.map (readLabels exStyle.pad)) = some [['M'], ['x',' ','y']] ∧
    (rows[1]?.map (readLabels exStyle.pad)) = some [[' ', ' ', ' ']] ∧
    (List.range 4).map (fun q => exCirc.ops.flatMap fun op => opLabels exCirc.N op q) =
      [[], [['T','O','F','F','O','L','I']], [['M'], ['x',' ','y']], [[' ', ' ', ' ']]] := by
  refine ⟨_, rfl, ?_⟩; decide +kernel

/-! ## links reach the wires they connect

`cell st k r x` is the character at column `x` of row `r` (0 top, 1 middle, 2 bottom) of wire `k`
in the state `st` that `print_circuit` prints (`row_order` says where these rows are in the
output).  In the picture the bottom row of wire `k` is directly above the top row of wire `k - 1`,
so the cells named below form one unbroken vertical line in one column. -/

/-- In a covered circuit on the shipped tree a control of a boxed gate lies strictly above or
strictly below the box. -/
theorem control_outside (v : Variant) (hv : v.spanFix = false) (N : Nat) (name : Str) (lab : Option Str) (ts cs : List Nat)
    (hop : opOk v N (.gate name lab ts (some cs)) = true) (hswap : name ≠ swapName) (hnd : (ts ++ cs).Nodup)
    (ctl : Nat) (hctl : ctl ∈ cs) : lmax ts < ctl ∨ ctl < lmin ts := by
  simp only [opOk, gateOk, Bool.and_eq_true, Bool.or_eq_true, Bool.not_eq_true', decide_eq_true_eq] at hop
  have hnt : ctl ∉ ts := fun h => (List.nodup_append.mp hnd).2.2 ctl h ctl hctl rfl
  have hcontig : contig ts = true := by
    rcases hop.2 with (((h | h) | h) | h) | h
    · simp at h
    · exact absurd h hswap
    · cases cs with
      | nil => cases hctl
      | cons a l => simp [truthy] at h
    · rw [hv] at h; cases h
    · exact h
  by_cases h1 : lmax ts < ctl
  · exact Or.inl h1
  · by_cases h2 : ctl < lmin ts
    · exact Or.inr h2
    · exact absurd (contig_mem hcontig (by omega) (by omega)) hnt

/-- **Control links reach.**  For a boxed gate with controls anywhere in a covered circuit there
is one column `col` such that for every control `ctl`: the control wire carries the node `█`;
if `ctl` is above the box, the bottom row of `ctl`, all three rows of every wire between, and
the mark `┴` on the box's top frame (top row of the highest target wire) are in column `col`,
each wire between showing `│` (or the node `█` of another control); symmetrically (`┬` on the
bottom row of the lowest target wire) if `ctl` is below the box; and on a tree with the repair
`insideNode`, a control strictly between the targets has its node `█` in the same column, on
its own middle row, to the right of the box's left frame `│` (i.e. in the box). -/
theorem links_reach_control (v : Variant) (sty : Style) (c : Circ) (st : St) (hc : circOk v sty c = true)
    (h : layoutSt v sty c = .ok st) (pre post : List Op) (name : Str) (lab : Option Str) (ts cs : List Nat)
    (hops : c.ops = pre ++ .gate name lab ts (some cs) :: post) (hswap : name ≠ swapName)
    (hnd : (ts ++ cs).Nodup) :
    ∃ col, ∀ ctl ∈ cs,
      (lmax ts < ctl →
        cell st ctl 1 col = some '█' ∧ cell st ctl 2 col = some '│' ∧ cell st (lmax ts) 0 col = some '┴' ∧
        ∀ w, lmax ts < w → w < ctl → cell st w 0 col = some '│' ∧ cell st w 2 col = some '│' ∧
          (cell st w 1 col = some '│' ∨ cell st w 1 col = some '█')) ∧
      (ctl < lmin ts →
        cell st ctl 1 col = some '█' ∧ cell st ctl 0 col = some '│' ∧ cell st (lmin ts) 2 col = some '┬' ∧
        ∀ w, ctl < w → w < lmin ts → cell st w 0 col = some '│' ∧ cell st w 2 col = some '│' ∧
          (cell st w 1 col = some '│' ∨ cell st w 1 col = some '█')) ∧
      (v.insideNode = true → lmin ts < ctl → ctl < lmax ts →
        cell st ctl 1 col = some '█' ∧ ∃ l, l < col ∧ cell st ctl 1 l = some '│') := by
  obtain ⟨xs, pl, hpl, hcells⟩ := piece_in_picture hc h hops
  have hop : opOk v c.N (.gate name lab ts (some cs)) = true := by
    simp only [circOk, Bool.and_eq_true, List.all_eq_true] at hc
    exact hc.2 _ (by rw [hops]; simp)
  have hne : ts ≠ [] := by
    simp only [opOk, gateOk, Bool.and_eq_true] at hop
    intro h'; simp [h'] at hop
  by_cases hcs : cs = []
  · exact ⟨0, fun ctl hctl => by rw [hcs] at hctl; cases hctl⟩
  rw [plan_multi _ _ _ _ _ _ _ _ hswap hne hcs] at hpl
  cases hpl
  simp only [] at hcells
  have hshape : ts.length = 1 ∨ lmin ts < lmax ts := by
    have hl : 1 ≤ ts.length := by cases ts with | nil => exact absurd rfl hne | cons _ _ => simp
    by_cases h1 : ts.length = 1
    · exact Or.inl h1
    · exact Or.inr (nodup_lmin_lt_lmax (List.nodup_append.mp hnd).1 (by omega))
  have hmm : lmin ts ≤ lmax ts := lmin_le (lmax_mem hne)
  have hb := drawMultiq_w v sty.pad (gateText name lab) ts (some cs)
  obtain ⟨⟨gT, hgT, hgTtop⟩, ⟨gB, hgB, hgBbot⟩⟩ :=
    updTargetMultiq_ends (v := v) ts cs (drawMultiq v sty.pad (gateText name lab) ts (some cs)) hne hshape
  have htr : truthy (some cs) = true := by cases cs <;> simp_all [truthy]
  obtain ⟨mT, mB⟩ := drawMultiq_marks v sty.pad (gateText name lab) ts (some cs) htr
  simp only [ctrlList, Option.getD_some] at mT mB
  refine ⟨xs + (drawMultiq v sty.pad (gateText name lab) ts (some cs)).top.length / 2, fun ctl hctl => ⟨?_, ?_, ?_⟩⟩
  · -- control above the box
    intro habove
    have hcmax : ctl ≤ lmax cs := le_lmax hctl
    have hgt : isTop v cs ts = true := isTop_of_above v hne hctl habove
    have hin : ∀ a, a ∈ updQbridge v ts cs (pyRange (lmin ts) (lmax cs + 1))
        (drawMultiq v sty.pad (gateText name lab) ts (some cs)).top.length true →
        a ∈ updTargetMultiq v ts cs (pyRange (lmin ts) (lmax ts + 1)) (drawMultiq v sty.pad (gateText name lab) ts (some cs)) ++
          (if isTop v cs ts = true then updQbridge v ts cs (pyRange (lmin ts) (lmax cs + 1))
            (drawMultiq v sty.pad (gateText name lab) ts (some cs)).top.length true else []) ++
          (if isBot v cs ts = true then updQbridge v ts cs (pyRange (lmin cs) (lmax ts + 1))
            (drawMultiq v sty.pad (gateText name lab) ts (some cs)).top.length false else []) := by
      intro a ha
      rw [if_pos hgt]
      exact List.mem_append_left _ (List.mem_append_right _ ha)
    have hnotT : ∀ w, lmax ts < w → ¬ inBox v ts w = true := fun w hw => not_inBox_of_outside v (Or.inl hw)
    have hhead : (pyRange (lmin ts) (lmax cs + 1)).head? = some (lmin ts) := pyRange_head? (by omega)
    have hlast : (pyRange (lmin ts) (lmax cs + 1)).getLast? = some (lmax cs) := by
      rw [pyRange_getLast? (by omega)]; rfl
    obtain ⟨g, hg, gm, _, gb⟩ := @updQbridge_mem v ts cs (pyRange (lmin ts) (lmax cs + 1))
      (drawMultiq v sty.pad (gateText name lab) ts (some cs)).top.length true ctl
      (mem_pyRange.mpr ⟨by omega, by omega⟩) (hnotT ctl habove)
    refine ⟨?_, ?_, ?_, ?_⟩
    · exact hcells _ (hin _ hg) 1 _ _ (by simpa [Seg.row, hctl] using gm)
    · exact hcells _ (hin _ hg) 2 _ _ (by simpa [Seg.row] using gb (by simp))
    · have := hcells _ (List.mem_append_left _ (List.mem_append_left _ hgT)) 0 _ '┴'
        (by simp only [Seg.row]; rw [hgTtop]; exact mT hgt)
      exact this
    · intro w hw1 hw2
      obtain ⟨g', hg', gm', gt', gb'⟩ := @updQbridge_mem v ts cs (pyRange (lmin ts) (lmax cs + 1))
        (drawMultiq v sty.pad (gateText name lab) ts (some cs)).top.length true w
        (mem_pyRange.mpr ⟨by omega, by omega⟩) (hnotT w hw1)
      have hnend : ¬ (w ∈ cs ∧ (some w = (pyRange (lmin ts) (lmax cs + 1)).head? ∨
          some w = (pyRange (lmin ts) (lmax cs + 1)).getLast?) ∧ true = true) := by
        rw [hhead, hlast]
        rintro ⟨_, h' | h', _⟩
        · have := Option.some.inj h'; omega
        · have := Option.some.inj h'; omega
      refine ⟨?_, ?_, ?_⟩
      · exact hcells _ (hin _ hg') 0 _ _ (by simpa [Seg.row] using gt' hnend)
      · exact hcells _ (hin _ hg') 2 _ _ (by simpa [Seg.row] using gb' (by simp))
      · by_cases hwc : w ∈ cs
        · exact Or.inr (hcells _ (hin _ hg') 1 _ _ (by simpa [Seg.row, hwc] using gm'))
        · exact Or.inl (hcells _ (hin _ hg') 1 _ _ (by simpa [Seg.row, hwc] using gm'))
  · -- control below the box
    intro hbelow
    have hcmin : lmin cs ≤ ctl := lmin_le hctl
    have hlt : isBot v cs ts = true := isBot_of_below v hne hctl hbelow
    have hin : ∀ a, a ∈ updQbridge v ts cs (pyRange (lmin cs) (lmax ts + 1))
        (drawMultiq v sty.pad (gateText name lab) ts (some cs)).top.length false →
        a ∈ updTargetMultiq v ts cs (pyRange (lmin ts) (lmax ts + 1)) (drawMultiq v sty.pad (gateText name lab) ts (some cs)) ++
          (if isTop v cs ts = true then updQbridge v ts cs (pyRange (lmin ts) (lmax cs + 1))
            (drawMultiq v sty.pad (gateText name lab) ts (some cs)).top.length true else []) ++
          (if isBot v cs ts = true then updQbridge v ts cs (pyRange (lmin cs) (lmax ts + 1))
            (drawMultiq v sty.pad (gateText name lab) ts (some cs)).top.length false else []) := by
      intro a ha
      rw [if_pos hlt]
      exact List.mem_append_right _ ha
    have hnotT : ∀ w, w < lmin ts → ¬ inBox v ts w = true := fun w hw => not_inBox_of_outside v (Or.inr hw)
    have hhead : (pyRange (lmin cs) (lmax ts + 1)).head? = some (lmin cs) := pyRange_head? (by omega)
    have hlast : (pyRange (lmin cs) (lmax ts + 1)).getLast? = some (lmax ts) := by
      rw [pyRange_getLast? (by omega)]; rfl
    obtain ⟨g, hg, gm, gt, _⟩ := @updQbridge_mem v ts cs (pyRange (lmin cs) (lmax ts + 1))
      (drawMultiq v sty.pad (gateText name lab) ts (some cs)).top.length false ctl
      (mem_pyRange.mpr ⟨by omega, by omega⟩) (hnotT ctl hbelow)
    refine ⟨?_, ?_, ?_, ?_⟩
    · exact hcells _ (hin _ hg) 1 _ _ (by simpa [Seg.row, hctl] using gm)
    · exact hcells _ (hin _ hg) 0 _ _ (by simpa [Seg.row] using gt (by simp))
    · have := hcells _ (List.mem_append_left _ (List.mem_append_left _ hgB)) 2 _ '┬'
        (by simp only [Seg.row]; rw [hgBbot]; exact mB hlt)
      exact this
    · intro w hw1 hw2
      obtain ⟨g', hg', gm', gt', gb'⟩ := @updQbridge_mem v ts cs (pyRange (lmin cs) (lmax ts + 1))
        (drawMultiq v sty.pad (gateText name lab) ts (some cs)).top.length false w
        (mem_pyRange.mpr ⟨by omega, by omega⟩) (hnotT w hw2)
      have hnend : ¬ (w ∈ cs ∧ (some w = (pyRange (lmin cs) (lmax ts + 1)).head? ∨
          some w = (pyRange (lmin cs) (lmax ts + 1)).getLast?) ∧ false = false) := by
        rw [hhead, hlast]
        rintro ⟨_, h' | h', _⟩
        · have := Option.some.inj h'; omega
        · have := Option.some.inj h'; omega
      refine ⟨?_, ?_, ?_⟩
      · exact hcells _ (hin _ hg') 0 _ _ (by simpa [Seg.row] using gt' (by simp))
      · exact hcells _ (hin _ hg') 2 _ _ (by simpa [Seg.row] using gb' hnend)
      · by_cases hwc : w ∈ cs
        · exact Or.inr (hcells _ (hin _ hg') 1 _ _ (by simpa [Seg.row, hwc] using gm'))
        · exact Or.inl (hcells _ (hin _ hg') 1 _ _ (by simpa [Seg.row, hwc] using gm'))
  · -- control between the targets (repaired tree)
    intro hv h1 h2
    have hnt : ctl ∉ ts := fun hm => (List.nodup_append.mp hnd).2.2 ctl hm ctl hctl rfl
    obtain ⟨g, hg, gmid, _, _⟩ := updTargetMultiq_inside hv ts cs
      (drawMultiq v sty.pad (gateText name lab) ts (some cs)) hb h1 h2 hnt hctl
    have hmem := List.mem_append_left
      (if isBot v cs ts = true then updQbridge v ts cs (pyRange (lmin cs) (lmax ts + 1))
        (drawMultiq v sty.pad (gateText name lab) ts (some cs)).top.length false else [])
      (List.mem_append_left
        (if isTop v cs ts = true then updQbridge v ts cs (pyRange (lmin ts) (lmax cs + 1))
          (drawMultiq v sty.pad (gateText name lab) ts (some cs)).top.length true else []) hg)
    have hlen : (drawMultiq v sty.pad (gateText name lab) ts (some cs)).midFrame.length =
        sty.pad * 2 + (gateText name lab).length + 4 := hb.midFrame
    have hhalf : (sty.pad * 2 + (gateText name lab).length + 4) / 2 <
        (drawMultiq v sty.pad (gateText name lab) ts (some cs)).midFrame.length := by omega
    refine ⟨?_, xs + 1, by rw [hb.top]; omega, ?_⟩
    · have := hcells _ hmem 1 ((sty.pad * 2 + (gateText name lab).length + 4) / 2) '█'
        (by simp only [Seg.row]; rw [gmid]; exact setChar_get _ _ _ hhalf)
      rw [hb.top]; exact this
    · refine hcells _ hmem 1 1 '│' ?_
      simp only [Seg.row]
      rw [gmid, setChar_get_lt _ _ hhalf (by omega), (drawMultiq_mids v sty.pad (gateText name lab) ts (some cs)).2.2]
      rfl

-- non-vacuity: the TOFFOLI of `exCirc` (target 1, controls 0 and 3) meets every hypothesis
example : circOk {} exStyle exCirc = true ∧ (∃ st, layoutSt {} exStyle exCirc = .ok st) ∧
    exCirc.ops = [] ++ .gate ['T','O','F','F','O','L','I'] none [1] (some [0, 3]) :: exCirc.ops.tail ∧
    ['T','O','F','F','O','L','I'] ≠ swapName ∧ ([1] ++ [0, 3]).Nodup := by
  refine ⟨by decide +kernel, ⟨_, rfl⟩, rfl, by decide, by decide⟩

/-- **SWAP links reach.**  The two crosses `╳` of a SWAP sit in one column on the middle rows of
its two wires (`lmin ts`, `lmax ts`) and are joined by `│` on every row between them. -/
theorem links_reach_swap (v : Variant) (sty : Style) (c : Circ) (st : St) (hc : circOk v sty c = true)
    (h : layoutSt v sty c = .ok st) (pre post : List Op) (lab : Option Str) (ts : List Nat) (cs : Option (List Nat))
    (hops : c.ops = pre ++ .gate swapName lab ts cs :: post) (h1 : ¬ (ts.length = 1 ∧ cs = none)) :
    ∃ col, cell st (lmin ts) 1 col = some '╳' ∧ cell st (lmax ts) 1 col = some '╳' ∧
      cell st (lmax ts) 2 col = some '│' ∧ (lmin ts < lmax ts → cell st (lmin ts) 0 col = some '│') ∧
      ∀ w, lmin ts < w → w < lmax ts →
        cell st w 0 col = some '│' ∧ cell st w 1 col = some '│' ∧ cell st w 2 col = some '│' := by
  obtain ⟨xs, pl, hpl, hcells⟩ := piece_in_picture hc h hops
  have hop : opOk v c.N (.gate swapName lab ts cs) = true := by
    simp only [circOk, Bool.and_eq_true, List.all_eq_true] at hc
    exact hc.2 _ (by rw [hops]; simp)
  have hne : ts ≠ [] := by
    simp only [opOk, gateOk, Bool.and_eq_true] at hop
    intro h'; simp [h'] at hop
  rw [plan_swap _ _ _ _ _ _ _ h1 hne] at hpl
  cases hpl
  simp only [] at hcells
  have hmm : lmin ts ≤ lmax ts := lmin_le (lmax_mem hne)
  refine ⟨xs + (4 * sty.pad + 1) / 2, ?_, ?_, ?_, ?_, ?_⟩
  · obtain ⟨g, hg, gm, _, _⟩ := @updSwap_mem sty.pad (lmin ts) (lmax ts) (lmin ts) hmm ⟨Nat.le_refl _, hmm⟩
    exact hcells _ hg 1 _ _ (by simpa [Seg.row] using gm)
  · obtain ⟨g, hg, gm, _, _⟩ := @updSwap_mem sty.pad (lmin ts) (lmax ts) (lmax ts) hmm ⟨hmm, Nat.le_refl _⟩
    exact hcells _ hg 1 _ _ (by simpa [Seg.row] using gm)
  · obtain ⟨g, hg, _, _, gb⟩ := @updSwap_mem sty.pad (lmin ts) (lmax ts) (lmax ts) hmm ⟨hmm, Nat.le_refl _⟩
    exact hcells _ hg 2 _ _ (by simpa [Seg.row] using gb (Or.inl rfl))
  · intro hlt
    obtain ⟨g, hg, _, gt, _⟩ := @updSwap_mem sty.pad (lmin ts) (lmax ts) (lmin ts) hmm ⟨Nat.le_refl _, hmm⟩
    exact hcells _ hg 0 _ _ (by simpa [Seg.row] using gt (by omega))
  · intro w hw1 hw2
    obtain ⟨g, hg, gm, gt, gb⟩ := @updSwap_mem sty.pad (lmin ts) (lmax ts) w hmm ⟨by omega, by omega⟩
    have hne1 : ¬ (w = lmin ts ∨ w = lmax ts) := by omega
    refine ⟨?_, ?_, ?_⟩
    · exact hcells _ hg 0 _ _ (by simpa [Seg.row] using gt (by omega))
    · exact hcells _ hg 1 _ _ (by simpa [Seg.row, hne1] using gm)
    · exact hcells _ hg 2 _ _ (by simpa [Seg.row] using gb (Or.inr (by omega)))

example : exCirc.ops = [.gate ['T','O','F','F','O','L','I'] none [1] (some [0, 3])] ++ .gate swapName none [0, 2] none :: (exCirc.ops.drop 2) ∧
    ¬ (([0, 2] : List Nat).length = 1 ∧ (none : Option (List Nat)) = none) ∧ lmin [0, 2] = 0 ∧ lmax [0, 2] = 2 := by
  refine ⟨rfl, by decide, rfl, rfl⟩

/-- **Measurement links reach.**  Below the box `M` of a measurement of qubit `t0` into bit `s`
(one column `col`): `╥` on the bottom row of `t0`, `║` on all rows of the qubits below `t0` and of
the classical wires drawn above bit `s`, `║` on the top row of bit `s` and the connector `╩` on
the classical wire `s` itself. -/
theorem links_reach_measure (v : Variant) (sty : Style) (c : Circ) (st : St) (hc : circOk v sty c = true)
    (h : layoutSt v sty c = .ok st) (pre post : List Op) (t0 s : Nat)
    (hops : c.ops = pre ++ .meas [t0] s :: post) :
    ∃ col, cell st t0 1 col = some 'M' ∧ cell st t0 2 col = some '╥' ∧
      (∀ w, w < t0 → cell st w 0 col = some '║' ∧ cell st w 1 col = some '║' ∧ cell st w 2 col = some '║') ∧
      (∀ w, c.N + s < w → w < c.N + c.C →
        cell st w 0 col = some '║' ∧ cell st w 1 col = some '║' ∧ cell st w 2 col = some '║') ∧
      (s < c.C → cell st (c.N + s) 0 col = some '║' ∧ cell st (c.N + s) 1 col = some '╩') := by
  obtain ⟨xs, pl, hpl, hcells⟩ := piece_in_picture hc h hops
  have hop : opOk v c.N (.meas [t0] s) = true := by
    simp only [circOk, Bool.and_eq_true, List.all_eq_true] at hc
    exact hc.2 _ (by rw [hops]; simp)
  have ht0 : t0 < c.N := by simpa [opOk] using hop
  rw [plan_meas] at hpl
  cases hpl
  simp only [] at hcells
  obtain ⟨gM, gB⟩ := drawMeas_glyphs sty.pad c.N t0 s (by omega)
  have hbox : (t0, drawMeas sty.pad c.N t0 s) ∈ updSingleq [t0] (drawMeas sty.pad c.N t0 s) ++
      updCbridge c.N t0 s (pyRange 0 (t0 + 1) ++ pyRange (s + c.N) (c.N + c.C)) (drawMeas sty.pad c.N t0 s).top.length :=
    List.mem_append_left _ (by simp [updSingleq])
  have hbr : ∀ w, w ∈ pyRange 0 (t0 + 1) ++ pyRange (s + c.N) (c.N + c.C) → w ≠ t0 →
      ∃ g, (w, g) ∈ updSingleq [t0] (drawMeas sty.pad c.N t0 s) ++
        updCbridge c.N t0 s (pyRange 0 (t0 + 1) ++ pyRange (s + c.N) (c.N + c.C)) (drawMeas sty.pad c.N t0 s).top.length ∧
      g.top[(drawMeas sty.pad c.N t0 s).top.length / 2]? = some '║' ∧
      g.mid[(drawMeas sty.pad c.N t0 s).top.length / 2]? = some (if w = c.N + s then '╩' else '║') ∧
      (w ≠ c.N + s → g.bot[(drawMeas sty.pad c.N t0 s).top.length / 2]? = some '║') := by
    intro w hw hne
    obtain ⟨g, hg, a, b, d⟩ := @updCbridge_mem c.N t0 s _ (drawMeas sty.pad c.N t0 s).top.length w hw hne
    exact ⟨g, List.mem_append_right _ hg, a, b, d⟩
  refine ⟨xs + (drawMeas sty.pad c.N t0 s).top.length / 2, ?_, ?_, ?_, ?_, ?_⟩
  · exact hcells _ hbox 1 _ _ (by simpa [Seg.row] using gM)
  · exact hcells _ hbox 2 _ _ (by simpa [Seg.row] using gB)
  · intro w hw
    obtain ⟨g, hg, a, b, d⟩ := hbr w (List.mem_append_left _ (mem_pyRange.mpr ⟨by omega, by omega⟩)) (by omega)
    have hns : w ≠ c.N + s := by omega
    exact ⟨hcells _ hg 0 _ _ (by simpa [Seg.row] using a), hcells _ hg 1 _ _ (by simpa [Seg.row, hns] using b),
      hcells _ hg 2 _ _ (by simpa [Seg.row] using d hns)⟩
  · intro w hw1 hw2
    obtain ⟨g, hg, a, b, d⟩ := hbr w (List.mem_append_right _ (mem_pyRange.mpr ⟨by omega, by omega⟩)) (by omega)
    have hns : w ≠ c.N + s := by omega
    exact ⟨hcells _ hg 0 _ _ (by simpa [Seg.row] using a), hcells _ hg 1 _ _ (by simpa [Seg.row, hns] using b),
      hcells _ hg 2 _ _ (by simpa [Seg.row] using d hns)⟩
  · intro hs
    obtain ⟨g, hg, a, b, _⟩ := hbr (c.N + s) (List.mem_append_right _ (mem_pyRange.mpr ⟨by omega, by omega⟩)) (by omega)
    exact ⟨hcells _ hg 0 _ _ (by simpa [Seg.row] using a), hcells _ hg 1 _ _ (by simpa [Seg.row] using b)⟩

example : exCirc.ops = exCirc.ops.take 2 ++ .meas [2] 1 :: exCirc.ops.drop 3 ∧ 1 < exCirc.C := ⟨rfl, by decide⟩

/-! ## the repaired variants of the tree (fixes/C20-1, C20-2, C20-3)

`Variant` `{}` is the tree as shipped.  The theorems above hold for every variant; the theorems
below say what the repairs add.  Which variant a working tree is, is read from its source by
py/props/c20.py (`detect_variant`) and the correspondence is run against that variant. -/

/-- **Equal widths, full strength** — on a tree with the repair `spanFix` (fixes/C20-1) every valid
circuit is drawn with all rows of one width.  `circValid` (decidable) is the property's quantifier
and nothing more: at least one qubit, any number of classical wires, `end_wire_ext ≥ 0`, default wire
labels or one custom label (any string, empty and wide ones included) per wire, any `gate_pad > -1`,
any `align_layer`; every gate has at least one target and existing, pairwise distinct qubits — any
number of targets and controls, controls above, below and between the targets, targets with gaps,
any name (`SWAP` included) and any label; every measurement has one existing target and stores
into an existing bit or nowhere.  No bound on the number of wires or elements.  Classical controls
of a gate are not part of the model: the renderer never reads them (checked on the source and by
the correspondence), a classically controlled gate is drawn as the plain gate.
(`v.supports`: gates on the whole register are allowed iff the tree has `globalBox`, measurements
without `classical_store` iff it has `measBox`; `Variant.repaired` supports everything.) -/
theorem equal_width (v : Variant) (hv : v.spanFix = true) (sty : Style) (c : Circ) (rows : List Str)
    (hc : circValid sty c = true) (hg : ∀ op ∈ c.ops, v.supports op = true)
    (h : render v sty c = .ok rows) : EqualWidth rows :=
  equal_width_partial v sty c rows (circOk_of_valid hv hg hc) h

/-- … and the drawing of every valid circuit succeeds. -/
theorem draw_succeeds_valid (v : Variant) (hv : v.spanFix = true) (sty : Style) (c : Circ)
    (hc : circValid sty c = true) (hg : ∀ op ∈ c.ops, v.supports op = true) :
    ∃ rows, render v sty c = .ok rows :=
  draw_succeeds v sty c (circOk_of_valid hv hg hc)

/-- On the repaired tree every valid circuit meets the hypothesis `circOk` of `equal_width_partial`,
`draw_succeeds`, `links_reach_control`, `links_reach_swap`, `links_reach_measure`,
`unstored_measurement_box` — they hold for **every valid circuit**. -/
theorem valid_covered (sty : Style) (c : Circ) (hc : circValid sty c = true) :
    circOk Variant.repaired sty c = true :=
  circOk_of_valid rfl (fun op _ => supports_repaired op) hc

/-- **Headline (repaired tree).**  For every valid circuit and every style the text drawing
succeeds and consists of three rows per quantum and classical wire, all of one width. -/
theorem well_formed_repaired (sty : Style) (c : Circ) (hc : circValid sty c = true) :
    ∃ rows, render Variant.repaired sty c = .ok rows ∧ rows.length = 3 * (c.N + c.C) ∧ EqualWidth rows := by
  obtain ⟨rows, h⟩ := draw_succeeds_valid Variant.repaired rfl sty c hc (fun op _ => supports_repaired op)
  exact ⟨rows, h, three_rows_per_wire _ _ _ _ h,
    equal_width Variant.repaired rfl sty c rows hc (fun op _ => supports_repaired op) h⟩

/-- a valid circuit with every kind of element: TOFFOLI with controls on both sides, SWAP, stored and
unstored measurement, a box on targets with a gap and controls above, inside and below, a gate
on the whole register; 14 wires (two-digit labels) -/
example : circValid { padNum := 3, padDen := 2 }
    { N := 11, C := 3, ops := [.gate ['T','O','F','F','O','L','I'] none [1] (some [0, 10]), .gate swapName none [9, 2] none,
      .meas [10] 2, .measNS [4], .gate ['U'] (some []) [3, 7, 5] (some [1, 4, 8]), .glob ['G'] none] } = true := by
  decide +kernel

/-! ## the drawing succeeds — exactly when -/

/-- **Totality, exact** (every variant of the tree).  The drawing succeeds iff the circuit is
`drawable` (decidable): `_add_wire_labels` has at least one and at most `N + C` labels, and every
element (independently of the others) is of a kind the tree draws (`v.supports`), has at least one
target, mentions only wire indices `< N + C`, and `align_layer` is not used without qubits.
Everything else raises — and nothing else does: a gate may "act" on a classical wire index, repeat
a qubit, have a control equal to a target, a measurement may store into a bit that does not exist;
such circuits are drawn (as garbage) and are outside `circValid`. -/
theorem draws_iff (v : Variant) (sty : Style) (c : Circ) :
    (∃ rows, render v sty c = .ok rows) ↔ drawable v sty c = true := render_isOk_iff v sty c

/-- every valid circuit is drawable by the repaired tree -/
theorem valid_drawable (sty : Style) (c : Circ) (hc : circValid sty c = true) :
    drawable Variant.repaired sty c = true :=
  drawable_of_valid rfl (fun op _ => supports_repaired op) hc

-- both sides of `draws_iff` occur: drawable (also invalid: qubit 2 of 2 is the classical wire), not drawable
example : drawable Variant.repaired exStyle exCirc = true ∧
    drawable Variant.repaired {} { N := 2, C := 1, ops := [.gate ['X'] none [2] none, .gate ['U'] none [0, 0] (some [0])] } = true ∧
    drawable Variant.repaired {} { N := 2, C := 1, ops := [.gate ['X'] none [3] none] } = false ∧
    drawable Variant.repaired {} { N := 2, C := 1, ops := [.gate ['U'] none [] (some [0])] } = false ∧
    drawable Variant.repaired { labels := some [] } { N := 2, C := 1, ops := [] } = false ∧
    drawable Variant.repaired { labels := some [[], [], [], []] } { N := 2, C := 1, ops := [] } = false ∧
    drawable {} {} { N := 2, C := 1, ops := [.measNS [0]] } = false ∧
    renderErr Variant.repaired {} { N := 2, C := 1, ops := [.gate ['X'] none [3] none] } = some .index := by
  decide +kernel

/-- the two counter-examples of the shipped tree are drawn with equal widths by the repaired one,
and the control between the targets gets its node (`█` = 9608 at column 13 of the middle row of qubit 2) -/
theorem equal_width_witnesses_repaired :
    rowWidths { spanFix := true, insideNode := true } {}
      { N := 4, C := 0, ops := [.gate ['F','R','E','D','K','I','N'] none [1, 3] (some [2])] } = some (List.replicate 12 22) ∧
    rowWidths { spanFix := true } {}
      { N := 4, C := 0, ops := [.gate ['F','R','E','D','K','I','N'] none [1, 3] (some [0])] } = some (List.replicate 12 22) ∧
    (∃ rows row, render { spanFix := true, insideNode := true } {}
      { N := 4, C := 0, ops := [.gate ['F','R','E','D','K','I','N'] none [1, 3] (some [2])] } = .ok rows ∧
      rows[4]? = some row ∧ row[13]? = some '█') := by
  refine ⟨by decide +kernel, by decide +kernel, _, _, rfl, rfl, by decide +kernel⟩

example : circValid {} { N := 4, C := 0, ops := [.gate ['F','R','E','D','K','I','N'] none [1, 3] (some [2])] } = true ∧
    circOk { spanFix := true } {} { N := 4, C := 0, ops := [.gate ['F','R','E','D','K','I','N'] none [1, 3] (some [2])] } = true ∧
    circOk {} {} { N := 4, C := 0, ops := [.gate ['F','R','E','D','K','I','N'] none [1, 3] (some [2])] } = false := by decide +kernel

/-- On a valid gate every control is above the box, below it, or strictly between two targets —
so with `spanFix` and `insideNode`, `links_reach_control` places the node and the link of **every**
control of **every** valid circuit. -/
theorem control_position (ts cs : List Nat) (hnd : (ts ++ cs).Nodup) (hne : ts ≠ []) (ctl : Nat) (hc : ctl ∈ cs) :
    lmax ts < ctl ∨ ctl < lmin ts ∨ (lmin ts < ctl ∧ ctl < lmax ts) := control_trichotomy hnd hne hc

example : ([1, 3] ++ [2, 4]).Nodup ∧ lmin [1, 3] < 2 ∧ 2 < lmax [1, 3] ∧ lmax [1, 3] < 4 := by decide

/-- **A gate on the whole register (`GLOBALPHASE`) cannot be drawn by the shipped tree**: the
drawing of every circuit containing one raises (`TypeError: object of type 'NoneType' has no len()`
in `layout`).  Circuits produced by `resolve_gates` contain such gates. -/
theorem global_gate_not_drawn (v : Variant) (hv : v.globalBox = false) (sty : Style) (c : Circ)
    (name : Str) (lab : Option Str) (hmem : Op.glob name lab ∈ c.ops) (rows : List Str) :
    render v sty c ≠ .ok rows := by
  intro h
  obtain ⟨st, hst, _⟩ := render_ok h
  obtain ⟨st0, st1, _, h1, _⟩ := layoutSt_ok hst
  obtain ⟨pl, hpl⟩ := steps_plan_ok h1 _ hmem
  simp [plan, hv] at hpl

/-- … it is the `TypeError` (witness: 2 qubits, one `GLOBALPHASE`) … -/
theorem global_gate_counterexample :
    renderErr {} {} { N := 2, C := 0, ops := [.glob ['G','L','O','B','A','L','P','H','A','S','E'] none] } = some .type := by decide +kernel

/-- … and with the repair `globalBox` (fixes/C20-3) it is a box over all the qubits: a covered
element (`opOk`), so `draw_succeeds`, `equal_width_partial`, `labels_in_order` apply to it. -/
theorem global_gate_covered (v : Variant) (hv : v.globalBox = true) (N : Nat) (hN : 1 ≤ N) (name : Str)
    (lab : Option Str) : opOk v N (.glob name lab) = true := by
  simp only [opOk, gateOk, hv, Bool.true_and, Bool.and_eq_true, Bool.or_eq_true]
  refine ⟨⟨?_, ?_⟩, Or.inl (Or.inl (Or.inr ?_))⟩
  · cases N with
    | zero => omega
    | succ n => simp [List.range_succ]
  · simp [ctrlList]
  · rfl

example : rowWidths { globalBox := true } {} { N := 3, C := 1, ops := [.glob ['G','L','O','B','A','L','P','H','A','S','E'] none, .meas [1] 0] }
    = some (List.replicate 12 33) := by decide +kernel

/-! ## a measurement whose result is not stored (`classical_store = None`; fixes/C20-4) -/

/-- **A measurement without `classical_store` cannot be drawn by a tree without fixes/C20-4**: the
drawing of every circuit containing one raises (`TypeError: unsupported operand type(s) for +:
'NoneType' and 'int'` in `layout`; `IndexError` if it has no target either).  Such measurements are
valid circuit elements (the simulator runs them, the TeX renderer draws them, tests/test_circuit.py
builds them). -/
theorem unstored_measurement_not_drawn (v : Variant) (hv : v.measBox = false) (sty : Style) (c : Circ)
    (ts : List Nat) (hmem : Op.measNS ts ∈ c.ops) (rows : List Str) : render v sty c ≠ .ok rows := by
  intro h
  obtain ⟨st, hst, _⟩ := render_ok h
  obtain ⟨st0, st1, _, h1, _⟩ := layoutSt_ok hst
  obtain ⟨pl, hpl⟩ := steps_plan_ok h1 _ hmem
  cases ts <;> simp [plan, hv] at hpl

/-- … it is the `TypeError` (witness: 2 qubits, 1 classical bit, `add_measurement("M", targets=[1])`;
the other three repairs are present) … -/
theorem unstored_measurement_counterexample :
    renderErr { spanFix := true, insideNode := true, globalBox := true } {} { N := 2, C := 1, ops := [.measNS [1]] }
      = some .type := by decide +kernel

/-- … and with the repair `measBox` it is a covered element (`opOk`), so `draw_succeeds`,
`equal_width_partial`, `labels_in_order` (label `M` on its target) apply to it … -/
theorem unstored_measurement_covered (v : Variant) (hv : v.measBox = true) (N t0 : Nat) (h : t0 < N) :
    opOk v N (.measNS [t0]) = true := by simp [opOk, hv, h]

/-- … drawn as the box `M` on its target with **no link**: in the middle column of the box the
frames above and below the letter are unbroken (`─`, neither `╥` nor `╨`), and the iteration
appends nothing to any other wire (its plan is the single box, `plan_measNS`). -/
theorem unstored_measurement_box (v : Variant) (sty : Style) (c : Circ) (st : St) (hc : circOk v sty c = true)
    (h : layoutSt v sty c = .ok st) (pre post : List Op) (t0 : Nat)
    (hops : c.ops = pre ++ .measNS [t0] :: post) :
    ∃ col, cell st t0 1 col = some 'M' ∧ cell st t0 0 col = some '─' ∧ cell st t0 2 col = some '─' := by
  obtain ⟨xs, pl, hpl, hcells⟩ := piece_in_picture hc h hops
  have hop : opOk v c.N (.measNS [t0]) = true := by
    simp only [circOk, Bool.and_eq_true, List.all_eq_true] at hc
    exact hc.2 _ (by rw [hops]; simp)
  have hm : v.measBox = true := by
    simp only [opOk, Bool.and_eq_true] at hop
    exact hop.1
  rw [plan_measNS v hm] at hpl
  cases hpl
  simp only [] at hcells
  obtain ⟨gM, gT, gB⟩ := drawSingleq_M_glyphs sty.pad
  have hbox : (t0, drawSingleq sty.pad ['M']) ∈ updSingleq [t0] (drawSingleq sty.pad ['M']) := by
    simp [updSingleq]
  exact ⟨xs + (drawSingleq sty.pad ['M']).top.length / 2,
    hcells _ hbox 1 _ _ (by simpa [Seg.row] using gM),
    hcells _ hbox 0 _ _ (by simpa [Seg.row] using gT),
    hcells _ hbox 2 _ _ (by simpa [Seg.row] using gB)⟩

example : circOk Variant.repaired {} { N := 2, C := 1, ops := [.gate ['H'] none [1] none, .measNS [1], .meas [0] 0] } = true ∧
    rowWidths Variant.repaired {} { N := 2, C := 1, ops := [.gate ['H'] none [1] none, .measNS [1], .meas [0] 0] }
      = some (List.replicate 9 23) ∧
    (∃ rows, render Variant.repaired {} { N := 2, C := 1, ops := [.gate ['H'] none [1] none, .measNS [1], .meas [0] 0] } = .ok rows ∧
      (rows[1]?.map (readLabels 1)) = some [['H'], ['M']]) := by
  refine ⟨by decide +kernel, by decide +kernel, _, rfl, by decide +kernel⟩

/-! ## a renderer object used twice (`r.layout()` called again; fixes/C20-5)

The contract of every entry point is "the picture of the circuit as it is now, drawn from empty
rows": `render v sty c` is a function of the current fields of the circuit and of the style only —
no state survives a drawing in the model (and the harness checks on every case that drawing leaves
the circuit's gate list and the fields of its gates unchanged, and that a circuit whose gates were
re-assigned / appended / removed after a drawing is drawn like a freshly built one). -/

/-- **`layout()` twice on one renderer, repaired tree**: the second call draws exactly the picture a
fresh renderer draws for the circuit as it is then — whatever the first call drew. -/
theorem relayout_is_fresh (v : Variant) (hv : v.resetLayout = true) (sty : Style) (c0 c : Circ) (st0 : St)
    (h0 : layoutSt v sty c0 = .ok st0) : render2 v sty c0 c = render v sty c := by
  unfold render2 relayoutSt
  rw [h0]
  simp only [hv, if_true, render, layoutSt]

/-- **shipped tree: the second `layout()` of a renderer object is not the picture of the circuit**
(2 qubits, one `X`, default style, nothing changed between the calls): the drawing has rows of width 16, the second
call prints rows of width 44, the middle row of `q0` carries its label and the gate twice
(` q0 : q0 :…`, `labels_in_order` reads `X, X`). -/
theorem relayout_counterexample :
    ∃ rows, render2 { spanFix := true, insideNode := true, globalBox := true, measBox := true } {}
        { N := 2, C := 0, ops := [.gate ['X'] none [0] none] } { N := 2, C := 0, ops := [.gate ['X'] none [0] none] } = .ok rows ∧
      rowWidths { spanFix := true, insideNode := true, globalBox := true, measBox := true } {}
        { N := 2, C := 0, ops := [.gate ['X'] none [0] none] } = some (List.replicate 6 16) ∧
      rows[4]?.map (readLabels 1) = some [['X'], ['X']] ∧
      (rows[4]?.map fun r => r.take 10) = some [' ','q','0',' ',':',' ','q','0',' ',':'] ∧
      rows.map List.length = List.replicate 6 44 := by
  refine ⟨_, rfl, by decide +kernel, by decide +kernel, by decide +kernel, by decide +kernel⟩

example : ∃ st0, layoutSt Variant.repaired exStyle exCirc = .ok st0 := ⟨_, rfl⟩

end QipVerif.C20
