import QipVerif.Lemmas.RenderLabels2
/-! C20: `labels_in_order` — the invariant through `layout`. -/
namespace QipVerif.Render
variable {v : Variant}

theorem step_reads {sty : Style} {N C : Nat} {st st' : St} {op : Op} (h : step v sty N C st op = .ok st')
    (ht : noGlyph (opText op) = true) (q : Nat) (L : List Str) (w : Wire) (hq : st[q]? = some w) (hw : Reads L w) :
    ∃ w', st'[q]? = some w' ∧ Reads (L ++ (opLabels N op q).map (padded sty.pad)) w' := by
  obtain ⟨pl, hpl, _, _, _, rfl⟩ := step_ok h
  obtain ⟨hclosed, hboxes⟩ := plan_boxes hpl ht q
  simp only [place, applyActs_eq, manageLayers_eq, adjustPad_eq, modAll_getElem?, hq, Option.map_some]
  refine ⟨_, rfl, ?_⟩
  rw [← hboxes]
  apply reads_compAt q pl.acts hclosed
  apply compAt_pred (Reads L)
  · intro a ha w hw
    obtain ⟨b, _, rfl⟩ := List.mem_map.mp ha
    exact (reads_stable L).2 _ _ _ _ hw
  apply compAt_pred (Reads L)
  · intro a ha w hw
    obtain ⟨b, _, rfl⟩ := List.mem_map.mp ha
    exact (reads_stable L).1 _ _ _ hw
  exact hw

theorem steps_reads {sty : Style} {N C : Nat} {ops : List Op} {st st' : St} (h : steps v sty N C st ops = .ok st')
    (ht : ∀ op ∈ ops, noGlyph (opText op) = true) (q : Nat) (L : List Str) (w : Wire)
    (hq : st[q]? = some w) (hw : Reads L w) :
    ∃ w', st'[q]? = some w' ∧ Reads (L ++ (ops.flatMap fun op => opLabels N op q).map (padded sty.pad)) w' := by
  induction ops generalizing st L w with
  | nil => cases h; exact ⟨w, hq, by simpa using hw⟩
  | cons op ops ih =>
    unfold steps at h
    split at h
    · cases h
    · rename_i st1 h1
      obtain ⟨w1, hq1, hw1⟩ := step_reads h1 (ht op (List.mem_cons_self ..)) q L w hq hw
      obtain ⟨w2, hq2, hw2⟩ := ih h (fun o ho => ht o (List.mem_cons_of_mem _ ho)) _ w1 hq1 hw1
      refine ⟨w2, hq2, ?_⟩
      simpa [List.flatMap_cons, List.map_append, List.append_assoc] using hw2

theorem digit_noGlyph : ∀ k, k < 10 → Char.ofNat (48 + k) ≠ '┤' ∧ Char.ofNat (48 + k) ≠ '├' := by decide

theorem digitsAux_noGlyph (fuel n : Nat) (acc : Str) (h : noGlyph acc = true) : noGlyph (digitsAux fuel n acc) = true := by
  induction fuel generalizing n acc with
  | zero => exact h
  | succ fuel ih =>
    have hd := digit_noGlyph (n % 10) (Nat.mod_lt _ (by omega))
    have h' : noGlyph (Char.ofNat (48 + n % 10) :: acc) = true := noGlyph_cons hd.1 hd.2 h
    simp only [digitsAux]
    split
    · exact h'
    · exact ih _ _ h'

theorem wireLabels_noGlyph {sty : Style} {N C : Nat}
    (hl : ∀ ls, sty.labels = some ls → ∀ l ∈ ls, noGlyph l = true) : ∀ l ∈ wireLabels sty N C, noGlyph l = true := by
  intro l hmem
  unfold wireLabels at hmem
  cases hs : sty.labels with
  | none =>
    rw [hs] at hmem
    simp only [defaultLabels, List.mem_append, List.mem_map] at hmem
    rcases hmem with ⟨i, _, rfl⟩ | ⟨i, _, rfl⟩
    · exact noGlyph_cons (by decide) (by decide) (digitsAux_noGlyph _ _ _ rfl)
    · exact noGlyph_cons (by decide) (by decide) (digitsAux_noGlyph _ _ _ rfl)
  | some ls =>
    rw [hs] at hmem
    rcases List.mem_append.mp hmem with h | h
    · exact hl ls hs l (List.mem_of_mem_drop h)
    · exact hl ls hs l (List.mem_of_mem_take h)

theorem initWire_reads (N q : Nat) : Reads [] (initWire N q) := by
  unfold Reads initWire
  split <;> exact scan_noGlyph_none _ (by decide)

theorem labelWire_reads (m : Nat) (l : Str) (w : Wire) (hl : noGlyph l = true) (hw : Reads [] w) :
    Reads [] (labelWire m l w) := by
  unfold Reads at *
  simp only [labelWire, scan_append]
  rw [scan_noGlyph_none]
  · simp [hw]
  · unfold labelPrefix
    exact noGlyph_cons (by decide) (by decide) (noGlyph_append hl (noGlyph_cons (by decide) (by decide)
      (noGlyph_append (noGlyph_rep _ _ (by decide) (by decide)) (by decide))))

theorem labels_reads {sty : Style} {N C : Nat} {st0 : St} (h : addWireLabels sty N C (initSt N C) = .ok st0)
    (hl : ∀ ls, sty.labels = some ls → ∀ l ∈ ls, noGlyph l = true) (q : Nat) (w : Wire) (hq : st0[q]? = some w) :
    Reads [] w := by
  have hg := addLabelsFrom_get (addWireLabels_ok h) q
  simp only [Nat.zero_le, if_true, Nat.sub_zero] at hg
  have hlt : q < N + C := by
    obtain ⟨hk, _⟩ := List.getElem?_eq_some_iff.mp hq
    rw [addLabelsFrom_length (addWireLabels_ok h), initSt_length] at hk
    exact hk
  rw [initSt_get N C q hlt, hq] at hg
  cases hlab : (wireLabels sty N C)[q]? with
  | none =>
    rw [hlab] at hg
    cases hg
    exact initWire_reads N q
  | some l =>
    rw [hlab] at hg
    simp only [Option.map_some, Option.some.injEq] at hg
    subst hg
    exact labelWire_reads _ l _ (wireLabels_noGlyph hl l (List.mem_of_getElem? hlab)) (initWire_reads N q)

/-- **`labels_in_order` on the state**: when `layout` prints, the middle row of wire `q` reads as
the labels the circuit elements contribute to `q`, in circuit order. -/
theorem layoutSt_reads {sty : Style} {c : Circ} {st : St} (h : layoutSt v sty c = .ok st)
    (hl : ∀ ls, sty.labels = some ls → ∀ l ∈ ls, noGlyph l = true)
    (ht : ∀ op ∈ c.ops, noGlyph (opText op) = true) (q : Nat) (w : Wire) (hq : st[q]? = some w) :
    readLabels sty.pad w.mid = c.ops.flatMap fun op => opLabels c.N op q := by
  obtain ⟨st0, st1, h0, h1, rfl⟩ := layoutSt_ok h
  have hq0 : ∃ w0, st0[q]? = some w0 := by
    obtain ⟨hk, _⟩ := List.getElem?_eq_some_iff.mp hq
    rw [finalPad_length, steps_induct (fun s => s.length = st0.length)
      (fun _ _ _ hs hst => (step_length hst).trans hs) h1 rfl] at hk
    exact ⟨st0[q], List.getElem?_eq_getElem hk⟩
  obtain ⟨w0, hw0⟩ := hq0
  obtain ⟨w1, hq1, hw1⟩ := steps_reads h1 ht q [] w0 hw0 (labels_reads h0 hl q w0 hw0)
  have hfin : Reads ([] ++ (c.ops.flatMap fun op => opLabels c.N op q).map (padded sty.pad)) w := by
    simp only [finalPad, adjustPad_eq, modAll_getElem?, hq1, Option.map_some, Option.some.injEq] at hq
    subst hq
    apply compAt_pred (Reads _) _ _ _ _ hw1
    intro a ha w hw
    obtain ⟨b, _, rfl⟩ := List.mem_map.mp ha
    exact (reads_stable _).1 _ _ _ hw
  unfold Reads at hfin
  unfold readLabels readBoxes
  rw [hfin]
  simp only [List.nil_append, List.map_map]
  conv => rhs; rw [← List.map_id (c.ops.flatMap fun op => opLabels c.N op q)]
  apply List.map_congr_left
  intro t _
  simp [strip_padded]

end QipVerif.Render
