import QipVerif.Lemmas.ComposeSlices
import QipVerif.Lemmas.ConcatAllGaps
import QipVerif.Lemmas.ConcatCompile
/-!
# C06: concatenated rectangular pulses → merged slices → slice product = ordered product of the instructions

`RI` is a scheduled rectangular instruction (pulse label or none, start, duration, coefficient — all `Rat`).
`chanJ l J` is the channel C12's grouping loop builds for the label `l` (`chanOf_map_toInstr`), `closedChannelT` (C12) its
compiled grid/coefficients, `sortU` of all grids the merged grid of `get_full_coeffs` (C14), `slices`/`runAnalytically`
(C14) what `run_analytically` multiplies.  `channels_sliceProd`: that product is the ordered product of
`exp(−i·d·c·H_l)` over the instructions, in the order of the list, provided the list order is compatible with the time
order (`Compatible`), every channel is `ValidG` (C12: non-overlapping, gaps `0` or above the tolerance).
-/
set_option linter.unusedSectionVars false
namespace QipVerif.Compose
open QipVerif.MatExp QipVerif.TimeOrdered QipVerif.Grid QipVerif.Concat Matrix

variable {n : Type*} [Fintype n] [DecidableEq n]

/-- a scheduled rectangular instruction: pulse label (`none`: no pulse, IDLE), start, duration, coefficient -/
structure RI where
  chan : Option ℕ
  s : Rat
  d : Rat
  c : Rat

/-- the instruction as C12's `compile` sees it -/
def RI.toInstr (j : RI) : Concat.Instr :=
  ⟨.scalar j.d, match j.chan with | none => [] | some l => [(l, .scalar j.c)]⟩

/-- the channel of the label `l`: its instructions in list order, `(start, rectangular wave)` -/
def chanJ (l : ℕ) (J : List RI) : List (Rat × Wave) :=
  J.filterMap fun j => if j.chan = some l then some (j.s, Wave.scalar j.d j.c) else none

/-- **tie to C12's grouping**: the channel `chanOf l` of the (instruction, start) pairs is `chanJ l` -/
theorem chanOf_map_toInstr (l : ℕ) (J : List RI) : chanOf l (J.map fun j => (j.toInstr, j.s)) = chanJ l J := by
  induction J with
  | nil => rfl
  | cons j J ih =>
    unfold chanOf chanJ at *
    rw [List.map_cons, List.flatMap_cons, List.filterMap_cons, ih]
    obtain ⟨ch, s, d, c⟩ := j
    cases ch with
    | none => simp [RI.toInstr, pulsesOf]
    | some l' =>
      by_cases h : l' = l
      · subst h; simp [RI.toInstr, pulsesOf, mkWave]
      · have h' : ¬ (some l' = some l) := fun e => h (Option.some.inj e)
        simp [RI.toInstr, pulsesOf, h, h']

theorem mem_chanJ {l : ℕ} {J : List RI} {sw : Rat × Wave} (h : sw ∈ chanJ l J) :
    ∃ j ∈ J, j.chan = some l ∧ sw = (j.s, Wave.scalar j.d j.c) := by
  unfold chanJ at h
  obtain ⟨j, hj, hf⟩ := List.mem_filterMap.mp h
  by_cases hc : j.chan = some l
  · rw [if_pos hc] at hf; exact ⟨j, hj, hc, (Option.some.inj hf).symm⟩
  · rw [if_neg hc] at hf; cases hf

theorem chanJ_mem {l : ℕ} {J : List RI} {j : RI} (hj : j ∈ J) (hc : j.chan = some l) :
    (j.s, Wave.scalar j.d j.c) ∈ chanJ l J := by
  unfold chanJ
  exact List.mem_filterMap.mpr ⟨j, hj, by rw [if_pos hc]⟩

/-! ## the scheduled function of a channel as a sum over its instructions -/

/-- the coefficient an instruction puts on its channel at time `t` -/
def RI.act (j : RI) (t : Rat) : Rat := if j.s ≤ t ∧ t < j.s + j.d then j.c else 0

theorem specAt_eq_sum (ch : List (Rat × Wave)) : ∀ last, Chain last ch → ∀ t,
    specAt ch t = (ch.map fun sw => if sw.1 ≤ t ∧ t < sw.1 + sw.2.dur then waveAt sw.2 (t - sw.1) else 0).sum := by
  induction ch with
  | nil => intro _ _ _; rfl
  | cons sw rest ih =>
    intro last hc t
    obtain ⟨s, w⟩ := sw
    obtain ⟨hw, hls, hrest⟩ := hc
    simp only [specAt, List.map_cons, List.sum_cons]
    by_cases hin : s ≤ t ∧ t < s + w.dur
    · rw [if_pos hin, if_pos hin]
      have : (rest.map fun sw => if sw.1 ≤ t ∧ t < sw.1 + sw.2.dur then waveAt sw.2 (t - sw.1) else 0).sum = 0 := by
        apply List.sum_eq_zero
        intro x hx
        obtain ⟨sw, hsw, rfl⟩ := List.mem_map.mp hx
        have := chain_starts hrest sw hsw
        rw [if_neg (fun h => by have := h.1; have := hin.2; linarith)]
      rw [this, add_zero]
    · rw [if_neg hin, if_neg hin, zero_add]
      exact ih _ hrest t

theorem act_eq (j : RI) (t : Rat) :
    (if j.s ≤ t ∧ t < j.s + (Wave.scalar j.d j.c).dur then waveAt (Wave.scalar j.d j.c) (t - j.s) else 0) = j.act t := by
  unfold RI.act
  show (if j.s ≤ t ∧ t < j.s + j.d then (if 0 ≤ t - j.s ∧ t - j.s < j.d then j.c else 0) else 0) = _
  by_cases hin : j.s ≤ t ∧ t < j.s + j.d
  · rw [if_pos hin, if_pos hin, if_pos ⟨by linarith [hin.1], by linarith [hin.2]⟩]
  · rw [if_neg hin, if_neg hin]

theorem specAt_chanJ (l : ℕ) (J : List RI) (hc : Chain 0 (chanJ l J)) (t : Rat) :
    specAt (chanJ l J) t = (J.map fun j => if j.chan = some l then j.act t else 0).sum := by
  rw [specAt_eq_sum _ 0 hc t]
  clear hc
  induction J with
  | nil => rfl
  | cons j J ih =>
    unfold chanJ at ih ⊢
    rw [List.filterMap_cons, List.map_cons, List.sum_cons]
    by_cases h : j.chan = some l
    · rw [if_pos h, if_pos h]
      simp only [List.map_cons, List.sum_cons]
      rw [ih]
      congr 1
      exact act_eq j t
    · rw [if_neg h, if_neg h, zero_add]
      exact ih

/-! ## the Hamiltonian of a slice: sum over labels = sum over instructions -/

/-- the generator of an instruction: coefficient times the control Hamiltonian of its label -/
noncomputable def RI.gen (H : ℕ → Matrix n n ℂ) (j : RI) : Matrix n n ℂ :=
  match j.chan with
  | some l => (((j.c : ℚ) : ℝ) : ℂ) • H l
  | none => 0

/-- the window of an instruction -/
noncomputable def RI.win (H : ℕ → Matrix n n ℂ) (j : RI) : Win n :=
  ⟨((j.s : ℚ) : ℝ), (((j.s + j.d : Rat) : ℚ) : ℝ), j.gen H⟩

theorem sum_single_label (ls : List ℕ) (hnd : ls.Nodup) (l0 : ℕ) (h0 : l0 ∈ ls) (f : ℕ → Matrix n n ℂ) :
    (ls.map fun l => if l0 = l then f l else 0).sum = f l0 := by
  induction ls with
  | nil => simp at h0
  | cons a ls ih =>
    obtain ⟨ha, hnd'⟩ := List.nodup_cons.mp hnd
    rw [List.map_cons, List.sum_cons]
    by_cases h : l0 = a
    · subst h
      rw [if_pos rfl]
      have : (ls.map fun l => if l0 = l then f l else 0).sum = 0 := by
        apply List.sum_eq_zero
        intro x hx
        obtain ⟨l, hl, rfl⟩ := List.mem_map.mp hx
        rw [if_neg (fun e => ha (by rw [e]; exact hl))]
      rw [this, add_zero]
    · rw [if_neg h, zero_add]
      exact ih hnd' (by rcases List.mem_cons.mp h0 with h' | h'; exact absurd h' h; exact h')

/-- `Σ_l (Σ_{j on l} a_j) • H_l = Σ_j a_j • H_{label j}` -/
theorem sum_labels_eq_sum_instrs (H : ℕ → Matrix n n ℂ) (ls : List ℕ) (hnd : ls.Nodup) (a : RI → Rat) (J : List RI)
    (hJ : ∀ j ∈ J, ∀ l, j.chan = some l → l ∈ ls) :
    (ls.map fun l => ((((J.map fun j => if j.chan = some l then a j else 0).sum : Rat) : ℝ) : ℂ) • H l).sum =
      (J.map fun j => match j.chan with
        | some l => (((a j : ℚ) : ℝ) : ℂ) • H l
        | none => 0).sum := by
  induction J with
  | nil =>
    simp only [List.map_nil, List.sum_nil]
    apply List.sum_eq_zero
    intro x hx
    obtain ⟨l, _, rfl⟩ := List.mem_map.mp hx
    simp
  | cons j J ih =>
    have ih' := ih (fun j' hj' => hJ j' (by simp [hj']))
    simp only [List.map_cons, List.sum_cons]
    rw [← ih']
    have hsplit : (ls.map fun l => (((((if j.chan = some l then a j else 0) +
          (J.map fun j => if j.chan = some l then a j else 0).sum : Rat) : ℝ)) : ℂ) • H l) =
        ls.map fun l => ((((((if j.chan = some l then a j else 0 : Rat) : ℝ)) : ℂ) • H l) +
          ((((J.map fun j => if j.chan = some l then a j else 0).sum : Rat) : ℝ) : ℂ) • H l) := by
      apply List.map_congr_left
      intro l _
      rw [← add_smul]
      congr 1
      push_cast
      rfl
    rw [hsplit, List.sum_map_add]
    congr 1
    cases hch : j.chan with
    | none =>
      apply List.sum_eq_zero
      intro x hx
      obtain ⟨l, _, rfl⟩ := List.mem_map.mp hx
      simp
    | some l0 =>
      have hl0 := hJ j (by simp) l0 hch
      have := sum_single_label ls hnd l0 hl0 (fun l => (((a j : ℚ) : ℝ) : ℂ) • H l)
      show _ = (((a j : ℚ) : ℝ) : ℂ) • H l0
      rw [← this]
      congr 1
      apply List.map_congr_left
      intro l _
      by_cases h : l0 = l
      · subst h; simp
      · have h' : ¬ (some l0 = some l) := fun e => h (Option.some.inj e)
        rw [if_neg h, if_neg h']; simp

/-- the generator a window contributes on an aligned slice is its coefficient at the slice's left end -/
theorem RI.gen_slice (H : ℕ → Matrix n n ℂ) (j : RI) (a b : Rat) (hab : a < b)
    (hal : (j.win H).On ((a : ℚ) : ℝ) ((b : ℚ) : ℝ) ∨ (j.win H).e ≤ ((a : ℚ) : ℝ) ∨ ((b : ℚ) : ℝ) ≤ (j.win H).s) :
    (j.win H).gen ((a : ℚ) : ℝ) ((b : ℚ) : ℝ) =
      match j.chan with
      | some l => (((j.act a : ℚ) : ℝ) : ℂ) • H l
      | none => 0 := by
  unfold Win.gen
  have hon : (j.win H).On ((a : ℚ) : ℝ) ((b : ℚ) : ℝ) ↔ j.s ≤ a ∧ a < j.s + j.d := by
    unfold Win.On RI.win
    simp only
    constructor
    · rintro ⟨h1, h2⟩
      have h1' : j.s ≤ a := by exact_mod_cast h1
      have h2' : b ≤ j.s + j.d := by exact_mod_cast h2
      exact ⟨h1', by linarith⟩
    · rintro ⟨h1, h2⟩
      rcases hal with h | h | h
      · exact h
      · exfalso
        have : j.s + j.d ≤ a := by
          have : (((j.s + j.d : Rat) : ℚ) : ℝ) ≤ ((a : ℚ) : ℝ) := h
          exact_mod_cast this
        linarith
      · exfalso
        have : b ≤ j.s := by
          have : ((b : ℚ) : ℝ) ≤ ((j.s : ℚ) : ℝ) := h
          exact_mod_cast this
        linarith
  unfold RI.act
  by_cases h : j.s ≤ a ∧ a < j.s + j.d
  · rw [if_pos (hon.mpr h), if_pos h]
    cases hch : j.chan with
    | none => simp [RI.win, RI.gen, hch]
    | some l => simp [RI.win, RI.gen, hch]
  · rw [if_neg (fun h' => h (hon.mp h')), if_neg h]
    cases hch : j.chan with
    | none => rfl
    | some l => simp

/-- the windows of the instructions that carry a pulse -/
noncomputable def wins (H : ℕ → Matrix n n ℂ) (J : List RI) : List (Win n) :=
  (J.filter fun j => j.chan.isSome).map (RI.win H)

theorem sum_filter_zero {α : Type*} (p : α → Bool) (F : α → Matrix n n ℂ) (l : List α)
    (h : ∀ x ∈ l, p x = false → F x = 0) : ((l.filter p).map F).sum = (l.map F).sum := by
  induction l with
  | nil => rfl
  | cons x l ih =>
    have ih' := ih (fun y hy => h y (by simp [hy]))
    by_cases hp : p x = true
    · rw [List.filter_cons_of_pos hp, List.map_cons, List.sum_cons, List.map_cons, List.sum_cons, ih']
    · have hp' : p x = false := by simpa using hp
      rw [List.filter_cons_of_neg hp, List.map_cons, List.sum_cons, h x (by simp) hp', zero_add, ih']

theorem ordProdL_filter_one {α : Type*} (p : α → Bool) (F : α → Matrix n n ℂ) (l : List α)
    (h : ∀ x ∈ l, p x = false → F x = 1) : ordProdL ((l.filter p).map F) = ordProdL (l.map F) := by
  induction l with
  | nil => rfl
  | cons x l ih =>
    have ih' := ih (fun y hy => h y (by simp [hy]))
    by_cases hp : p x = true
    · rw [List.filter_cons_of_pos hp, List.map_cons, List.map_cons]
      simp only [ordProdL, ih']
    · have hp' : p x = false := by simpa using hp
      rw [List.filter_cons_of_neg hp, List.map_cons]
      simp only [ordProdL, h x (by simp) hp', mul_one, ih']

/-- **the Hamiltonian `run_analytically` forms on an aligned slice** (`Σ_l c_l(a)·H_l`, `c_l` the scheduled function of
channel `l`) **is the sum of the generators of the windows containing the slice** -/
theorem slice_ham_eq (H : ℕ → Matrix n n ℂ) (ls : List ℕ) (hnd : ls.Nodup) (J : List RI)
    (hJ : ∀ j ∈ J, ∀ l, j.chan = some l → l ∈ ls) (hch : ∀ l ∈ ls, Chain 0 (chanJ l J))
    (a b : Rat) (hab : a < b)
    (hal : ∀ w ∈ wins H J, w.On ((a : ℚ) : ℝ) ((b : ℚ) : ℝ) ∨ w.e ≤ ((a : ℚ) : ℝ) ∨ ((b : ℚ) : ℝ) ≤ w.s) :
    linComb 0 (ls.map H) (ls.map fun l => specAt (chanJ l J) a) = winHam (wins H J) ((a : ℚ) : ℝ) ((b : ℚ) : ℝ) := by
  unfold linComb winHam wins
  rw [zero_add, List.zipWith_map_left, List.zipWith_map_right, List.zipWith_self, List.map_map]
  have h1 : (ls.map fun l => (((specAt (chanJ l J) a : ℚ) : ℝ) : ℂ) • H l) =
      ls.map fun l => ((((J.map fun j => if j.chan = some l then j.act a else 0).sum : Rat) : ℝ) : ℂ) • H l := by
    apply List.map_congr_left
    intro l hl
    rw [specAt_chanJ l J (hch l hl) a]
  rw [h1, sum_labels_eq_sum_instrs H ls hnd (fun j => j.act a) J hJ]
  rw [sum_filter_zero (fun j : RI => j.chan.isSome) ((fun w : Win n => w.gen ((a : ℚ) : ℝ) ((b : ℚ) : ℝ)) ∘ RI.win H) J]
  · apply congrArg
    apply List.map_congr_left
    intro j hj
    simp only [Function.comp]
    by_cases hs : j.chan.isSome = true
    · rw [RI.gen_slice H j a b hab (hal _ (List.mem_map.mpr ⟨j, List.mem_filter.mpr ⟨hj, hs⟩, rfl⟩))]
    · have hn : j.chan = none := by simpa using hs
      unfold Win.gen RI.win RI.gen
      simp [hn]
  · intro j _ hs
    have hn : j.chan = none := by simpa using hs
    simp only [Function.comp]
    unfold Win.gen RI.win RI.gen
    simp [hn]

/-- the slice Hamiltonians over the whole merged grid -/
theorem sliceHams_eq_winHams (H : ℕ → Matrix n n ℂ) (ls : List ℕ) (hnd : ls.Nodup) (J : List RI)
    (hJ : ∀ j ∈ J, ∀ l, j.chan = some l → l ∈ ls) (hch : ∀ l ∈ ls, Chain 0 (chanJ l J))
    : ∀ (T : List Rat), T.Pairwise (· < ·) → (∀ w ∈ wins H J, w.Aligned (gridR T)) →
    sliceHams 0 (ls.map H) (slices T (ls.map fun l => T.map (specAt (chanJ l J)))) = winHams (wins H J) (gridR T)
  | [], _, _ => by simp [slices, sliceHams, gridR, winHams]
  | [a], _, _ => by simp [slices, sliceHams, gridR, winHams]
  | a :: b :: rest, hs, hal => by
    have hab : a < b := (List.pairwise_cons.mp hs).1 b (by simp)
    rw [slices_sampled]
    have ih := sliceHams_eq_winHams H ls hnd J hJ hch (b :: rest) (List.pairwise_cons.mp hs).2
      (fun w hw => (hal w hw).2)
    simp only [sliceHams, List.map_cons, gridR, winHams] at ih ⊢
    rw [ih, slice_ham_eq H ls hnd J hJ hch a b hab (fun w hw => (hal w hw).1)]

/-! ## grid points of a channel of rectangular pulses -/

theorem proc_scalar (d c : Rat) : (Wave.scalar d c).proc = ⟨[d], [c], d, .discrete⟩ := rfl

/-- start and end of every instruction of a channel of rectangular pulses are points of the tolerance-free list -/
theorem mem_pureLoop_scalar (ch : List (Rat × Wave)) : ∀ last, Chain last ch →
    (∀ sw ∈ ch, ∃ d c, sw.2 = Wave.scalar d c) →
    ∀ sw ∈ ch, (sw.1 = last ∨ sw.1 ∈ (pureLoop last ch).1) ∧ sw.1 + sw.2.dur ∈ (pureLoop last ch).1 := by
  induction ch with
  | nil => intro _ _ _ sw h; simp at h
  | cons x rest ih =>
    intro last hc hsc sw hsw
    obtain ⟨s, w⟩ := x
    obtain ⟨hw, hls, hrest⟩ := hc
    obtain ⟨d, c, hwe⟩ := hsc (s, w) (by simp)
    simp only at hwe
    subst hwe
    have hpl : (pureLoop last ((s, Wave.scalar d c) :: rest)).1 =
        (if last < s then [s] else []) ++ ([d + s] ++ (pureLoop (s + d) rest).1) := by
      simp only [pureLoop, proc_scalar, idlePure_discrete, Wave.dur, List.map_cons, List.map_nil]
    rw [hpl]
    rcases List.mem_cons.mp hsw with rfl | hsw
    · simp only [Wave.dur]
      constructor
      · by_cases h : last < s
        · right; rw [if_pos h]; simp
        · left; linarith
      · apply List.mem_append_right; rw [add_comm]; simp
    · obtain ⟨h1, h2⟩ := ih (s + d) hrest (fun y hy => hsc y (by simp [hy])) sw hsw
      constructor
      · right
        apply List.mem_append_right
        rcases h1 with h1 | h1
        · rw [h1, add_comm]; simp
        · simp [h1]
      · apply List.mem_append_right
        simp [h2]

/-! ## the compiled channels and the merged grid -/

/-- C12's closed form of the compiled channel of label `l` -/
def compiledJ (thr τ : Rat) (pm : Mode) (final ms : Rat) (J : List RI) (l : ℕ) : List Rat × List Rat :=
  closedChannelT thr τ pm final ms (chanJ l J)

theorem chanJ_scalar (l : ℕ) (J : List RI) : ∀ sw ∈ chanJ l J, ∃ d c, sw.2 = Wave.scalar d c := by
  intro sw h
  obtain ⟨j, _, _, rfl⟩ := mem_chanJ h
  exact ⟨_, _, rfl⟩

theorem chanJ_discrete (l : ℕ) (J : List RI) : ∀ sw ∈ chanJ l J, sw.2.mode = .discrete := by
  intro sw h
  obtain ⟨d, c, hw⟩ := chanJ_scalar l J sw h
  rw [hw]; rfl

/-- **what C12 gives for the channel of a label** (non-empty, `ValidG`): the grid starts at 0, increases strictly, has one
more point than coefficients, contains start and end of every instruction of the channel, and its step function is the
scheduled function -/
theorem compiledJ_spec (thr τ : Rat) (hthr : 0 ≤ thr) (hτ : 0 < τ) (pm : Mode) (final ms : Rat) (hms : 0 < ms)
    (J : List RI) (l : ℕ) (hne : chanJ l J ≠ []) (hv : ValidG thr 0 (chanJ l J)) :
    let gc := compiledJ thr τ pm final ms J l
    gc.1.head? = some 0 ∧ gc.1.Pairwise (· < ·) ∧ gc.2.length + 1 = gc.1.length ∧ 2 ≤ gc.1.length ∧
    (∀ t, stepAt gc.1 gc.2 t = specAt (chanJ l J) t) ∧
    (∀ j ∈ J, j.chan = some l → j.s ∈ gc.1 ∧ j.s + j.d ∈ gc.1) := by
  intro gc
  have hc : Chain 0 (chanJ l J) := ValidG.chain hv
  have hgc : gc = closedChannel τ pm final ms (chanJ l J) := by
    show closedChannelT thr τ pm final ms (chanJ l J) = _
    simp only [closedChannelT, closedChannel, pureLoopT_eq_of_validG thr hthr _ 0 hv]
  match hch : chanJ l J, hne with
  | (s, w) :: rest, _ =>
    rw [hch] at hc hgc
    have hall := chanJ_discrete l J
    have hsc := chanJ_scalar l J
    rw [hch] at hall hsc
    obtain ⟨h1, h2, h3, _, h5, _, _⟩ := closedChannel_is_schedule τ hτ pm final ms hms s w rest hc
    rw [← hgc] at h1 h2 h3 h5
    have hlen := h3 (hall (s, w) (by simp))
    have hmem : ∀ j ∈ J, j.chan = some l → j.s ∈ gc.1 ∧ j.s + j.d ∈ gc.1 := by
      intro j hj hjl
      have hin : (j.s, Wave.scalar j.d j.c) ∈ (s, w) :: rest := by rw [← hch]; exact chanJ_mem hj hjl
      obtain ⟨m1, m2⟩ := mem_pureLoop_scalar _ 0 hc hsc _ hin
      have hg1 : gc.1 = 0 :: ((pureLoop 0 ((s, w) :: rest)).1 ++
          padPts τ pm final ms (endOf 0 ((s, w) :: rest))) := by
        rw [hgc]
        have hz : headChunk true ((s, w) :: rest) = ([0], []) := by
          simp [headChunk, zeroChunk, hall (s, w) (by simp)]
        simp [closedChannel, hz]
      rw [hg1]
      constructor
      · rcases m1 with m1 | m1
        · simp only at m1; rw [m1]; simp
        · simp only at m1; simp [m1]
      · simp only [Wave.dur] at m2; simp [m2]
    refine ⟨h1, h2, hlen, ?_, h5 hall, hmem⟩
    -- at least two points: `0` and the end of the first instruction
    obtain ⟨j, hj, hjl, hsw⟩ := mem_chanJ (show (s, w) ∈ chanJ l J by rw [hch]; simp)
    obtain ⟨m1, m2⟩ := hmem j hj hjl
    have hw : WaveOK (Wave.scalar j.d j.c) := by
      have := chain_all_ok hc (s, w) (by simp)
      rw [hsw] at this; exact this
    have hd : 0 < j.d := hw
    have hs0 : 0 ≤ j.s := by
      have := chain_starts hc (s, w) (by simp)
      rw [hsw] at this; exact this
    match hg : gc.1, h1, m2 with
    | [], h1, _ => simp at h1
    | [a], h1, m2 =>
      simp at h1 m2
      linarith
    | a :: b :: r, _, _ => simp

theorem mem_gridR {T : List Rat} {q : Rat} (h : q ∈ T) : ((q : ℚ) : ℝ) ∈ gridR T := by
  unfold gridR; exact List.mem_map.mpr ⟨q, h, rfl⟩

/-- **specRows_sliceProd** (the core, for any grid): labels `ls` (distinct), rectangular instructions with labels in `ls`, every
channel a chain; a grid `T` that increases strictly from `0` and contains start and end of every pulse; list order compatible
with the time order.  Then the slice product over `T` of the rows "scheduled function of channel `l` sampled on `T`" is the
ordered product of `exp(−i·d_j·c_j·H_{l_j})`. -/
theorem specRows_sliceProd (H : ℕ → Matrix n n ℂ) (ls : List ℕ) (hnd : ls.Nodup) (J : List RI)
    (hJ : ∀ j ∈ J, ∀ l, j.chan = some l → l ∈ ls) (hchain : ∀ l ∈ ls, Chain 0 (chanJ l J))
    (T : List Rat) (hT : T.Pairwise (· < ·)) (h0T : T.head? = some 0)
    (hmem : ∀ j ∈ J, ∀ l, j.chan = some l → j.s ∈ T ∧ j.s + j.d ∈ T)
    (hcomp : J.Pairwise fun u v => Commute (u.gen H) (v.gen H) ∨ u.s + u.d ≤ v.s) :
    ordProdL (runAnalytically 0 (ls.map H) (slices T (ls.map fun l => T.map (specAt (chanJ l J))))) =
      ordProdL (J.map fun j => evolve (j.gen H) ((j.d : ℚ) : ℝ)) := by
  rw [ordProdL_runAnalytically 0 (ls.map H) ls (fun l => specAt (chanJ l J)) T]
  have hfacts : ∀ j ∈ J, ∀ l, j.chan = some l → 0 < j.d ∧ 0 ≤ j.s ∧ j.s ∈ T ∧ j.s + j.d ∈ T := by
    intro j hj l hjl
    have hl := hJ j hj l hjl
    have hin := chanJ_mem hj hjl
    have hw : WaveOK (Wave.scalar j.d j.c) := chain_all_ok (hchain l hl) _ hin
    have hs0 := chain_starts (hchain l hl) _ hin
    obtain ⟨m1, m2⟩ := hmem j hj l hjl
    exact ⟨hw, hs0, m1, m2⟩
  have hwins : ∀ w ∈ wins H J, ∃ j ∈ J, ∃ l, j.chan = some l ∧ w = j.win H := by
    intro w hw
    unfold wins at hw
    obtain ⟨j, hj, rfl⟩ := List.mem_map.mp hw
    obtain ⟨hj1, hj2⟩ := List.mem_filter.mp hj
    obtain ⟨l, hl⟩ := Option.isSome_iff_exists.mp hj2
    exact ⟨j, hj1, l, hl, rfl⟩
  have hal : ∀ w ∈ wins H J, w.Aligned (gridR T) := by
    intro w hw
    obtain ⟨j, hj, l, hjl, rfl⟩ := hwins w hw
    obtain ⟨_, _, m1, m2⟩ := hfacts j hj l hjl
    exact Win.aligned_of_mem _ _ (gridR_pairwise hT) (mem_gridR m1) (mem_gridR m2)
  rw [sliceHams_eq_winHams H ls hnd J hJ hchain T hT hal]
  match hTe : T, h0T with
  | a :: T', h0T =>
    simp only [List.head?_cons, Option.some.injEq] at h0T
    subst h0T
    have hgr : gridR (0 :: T') = ((0 : ℚ) : ℝ) :: gridR T' := rfl
    rw [hgr] at hal ⊢
    rw [sliceProd_eq_windows (wins H J) (gridR T') _ (by rw [← hgr]; exact gridR_pairwise hT)]
    · -- the product over the windows is the product over all instructions
      unfold wins
      rw [List.map_map]
      rw [ordProdL_filter_one (fun j : RI => j.chan.isSome)
        ((fun w : Win n => evolve w.A (w.e - w.s)) ∘ RI.win H) J]
      · congr 1
        apply List.map_congr_left
        intro j _
        simp only [Function.comp, RI.win]
        congr 1
        push_cast; ring
      · intro j _ hs
        have hn : j.chan = none := by simpa using hs
        simp only [Function.comp, RI.win, RI.gen, hn]
        exact evolve_zero_ham _
    · intro w hw
      obtain ⟨j, hj, l, hjl, rfl⟩ := hwins w hw
      obtain ⟨hd, _, _, _⟩ := hfacts j hj l hjl
      show ((j.s : ℚ) : ℝ) ≤ (((j.s + j.d : Rat) : ℚ) : ℝ)
      have : j.s ≤ j.s + j.d := by linarith
      exact_mod_cast this
    · unfold Compatible wins
      rw [List.pairwise_map]
      refine List.Pairwise.filter _ (hcomp.imp ?_)
      intro u v h
      rcases h with h | h
      · exact Or.inl h
      · right
        show (((u.s + u.d : Rat) : ℚ) : ℝ) ≤ ((v.s : ℚ) : ℝ)
        exact_mod_cast h
    · exact hal
    · intro w hw
      obtain ⟨j, hj, l, hjl, rfl⟩ := hwins w hw
      obtain ⟨_, hs0, _, _⟩ := hfacts j hj l hjl
      show ((0 : ℚ) : ℝ) ≤ ((j.s : ℚ) : ℝ)
      exact_mod_cast hs0
    · intro w hw z hz
      obtain ⟨j, hj, l, hjl, rfl⟩ := hwins w hw
      obtain ⟨_, _, _, m2⟩ := hfacts j hj l hjl
      rw [← hgr] at hz
      unfold gridR at hz
      rw [List.getLast?_map] at hz
      obtain ⟨q, hq, rfl⟩ := Option.map_eq_some_iff.mp hz
      show (((j.s + j.d : Rat) : ℚ) : ℝ) ≤ ((q : ℚ) : ℝ)
      have := le_getLast _ q hT hq _ m2
      exact_mod_cast this


/-- **channels_sliceProd.**  Labels `ls` (distinct), instructions `J` (rectangular, labels in `ls`), every label's channel
non-empty and `ValidG` (C12: sorted, non-overlapping, idle gaps `0` or above the tolerance `thr`), the list order compatible
with the time order (a pair whose generators do not commute is separated in time, in list order).  With the compiled
channels of C12 (`closedChannelT`), the merged grid `T` of C14 (`sortU` of all grid points) and the rows of
`get_full_coeffs` (`stepAt` of every channel on `T`): the product of the slice exponentials `run_analytically` forms is the
ordered product of `exp(−i·d_j·c_j·H_{l_j})` over the instructions. -/
theorem channels_sliceProd (H : ℕ → Matrix n n ℂ) (thr τ : Rat) (hthr : 0 ≤ thr) (hτ : 0 < τ) (pm : Mode)
    (final ms : Rat) (hms : 0 < ms) (ls : List ℕ) (hne : ls ≠ []) (hnd : ls.Nodup) (J : List RI)
    (hJ : ∀ j ∈ J, ∀ l, j.chan = some l → l ∈ ls)
    (hch : ∀ l ∈ ls, chanJ l J ≠ [] ∧ ValidG thr 0 (chanJ l J))
    (hcomp : J.Pairwise fun u v => Commute (u.gen H) (v.gen H) ∨ u.s + u.d ≤ v.s) :
    let chans := ls.map (compiledJ thr τ pm final ms J)
    let T := sortU (chans.map (·.1)).flatten
    ordProdL (runAnalytically 0 (ls.map H) (slices T (chans.map fun c => T.map (stepAt c.1 c.2)))) =
      ordProdL (J.map fun j => evolve (j.gen H) ((j.d : ℚ) : ℝ)) := by
  intro chans T
  have hspec := fun l hl => compiledJ_spec thr τ hthr hτ pm final ms hms J l (hch l hl).1 (hch l hl).2
  have hchain : ∀ l ∈ ls, Chain 0 (chanJ l J) := fun l hl => ValidG.chain (hch l hl).2
  have hT : T.Pairwise (· < ·) := sortU_pairwise _
  have hsubT : ∀ l ∈ ls, ∀ p ∈ (compiledJ thr τ pm final ms J l).1, p ∈ T := by
    intro l hl p hp
    exact mem_sortU.mpr (List.mem_flatten.mpr ⟨_, List.mem_map.mpr ⟨_, List.mem_map.mpr ⟨l, hl, rfl⟩, rfl⟩, hp⟩)
  -- rows: the scheduled functions sampled on the merged grid
  have hrows : (chans.map fun c => T.map (stepAt c.1 c.2)) = ls.map fun l => T.map (specAt (chanJ l J)) := by
    simp only [chans, List.map_map]
    apply List.map_congr_left
    intro l hl
    apply List.map_congr_left
    intro t _
    exact (hspec l hl).2.2.2.2.1 t
  rw [hrows]
  -- the merged grid starts at 0
  obtain ⟨l0, hl0⟩ := List.exists_mem_of_ne_nil ls hne
  have h0T : T.head? = some 0 := by
    apply head_sortU_zero
    · have := (hspec l0 hl0).1
      have hmem : (0 : Rat) ∈ (compiledJ thr τ pm final ms J l0).1 := by
        match hg : (compiledJ thr τ pm final ms J l0).1, this with
        | a :: r, this => simp at this; simp [this]
      exact List.mem_flatten.mpr ⟨_, List.mem_map.mpr ⟨_, List.mem_map.mpr ⟨l0, hl0, rfl⟩, rfl⟩, hmem⟩
    · intro x hx
      obtain ⟨g, hg, hxg⟩ := List.mem_flatten.mp hx
      obtain ⟨c, hc, rfl⟩ := List.mem_map.mp hg
      obtain ⟨l, hl, rfl⟩ := List.mem_map.mp hc
      obtain ⟨hh, hp, _⟩ := hspec l hl
      match hcl : (compiledJ thr τ pm final ms J l).1, hh, hp, hxg with
      | a :: rest, hh, hp, hxg =>
        simp at hh; subst hh
        rcases List.mem_cons.mp hxg with rfl | h
        · exact le_rfl
        · exact le_of_lt ((List.pairwise_cons.mp hp).1 x h)
  exact specRows_sliceProd H ls hnd J hJ hchain T hT h0T
    (fun j hj l hjl => by
      have hl := hJ j hj l hjl
      obtain ⟨m1, m2⟩ := (hspec l hl).2.2.2.2.2 j hj hjl
      exact ⟨hsubT l hl _ m1, hsubT l hl _ m2⟩) hcomp

/-- **channels_sliceProd_all** — with the control channels that receive no pulse.  `all`: the labels of every control of the
processor (distinct), `ls ⊆ all` the labels in use.  The rows of `get_full_coeffs` are the step functions of the compiled
channels for the labels in use and rows of zeros for the others; the control list is `all.map H`.  Same conclusion. -/
theorem channels_sliceProd_all (H : ℕ → Matrix n n ℂ) (thr τ : Rat) (hthr : 0 ≤ thr) (hτ : 0 < τ) (pm : Mode)
    (final ms : Rat) (hms : 0 < ms) (all : List ℕ) (hall : all.Nodup) (ls : List ℕ) (hne : ls ≠ [])
    (hsub : ∀ l ∈ ls, l ∈ all) (J : List RI)
    (hJ : ∀ j ∈ J, ∀ l, j.chan = some l → l ∈ ls)
    (hch : ∀ l ∈ ls, chanJ l J ≠ [] ∧ ValidG thr 0 (chanJ l J))
    (hcomp : J.Pairwise fun u v => Commute (u.gen H) (v.gen H) ∨ u.s + u.d ≤ v.s) :
    let chans := ls.map (compiledJ thr τ pm final ms J)
    let T := sortU (chans.map (·.1)).flatten
    ordProdL (runAnalytically 0 (all.map H) (slices T (all.map fun l =>
        if l ∈ ls then T.map (stepAt (compiledJ thr τ pm final ms J l).1 (compiledJ thr τ pm final ms J l).2)
        else T.map fun _ => (0 : Rat)))) =
      ordProdL (J.map fun j => evolve (j.gen H) ((j.d : ℚ) : ℝ)) := by
  intro chans T
  have hspec := fun l hl => compiledJ_spec thr τ hthr hτ pm final ms hms J l (hch l hl).1 (hch l hl).2
  have hchain : ∀ l ∈ ls, Chain 0 (chanJ l J) := fun l hl => ValidG.chain (hch l hl).2
  have hT : T.Pairwise (· < ·) := sortU_pairwise _
  have hsubT : ∀ l ∈ ls, ∀ p ∈ (compiledJ thr τ pm final ms J l).1, p ∈ T := by
    intro l hl p hp
    exact mem_sortU.mpr (List.mem_flatten.mpr ⟨_, List.mem_map.mpr ⟨_, List.mem_map.mpr ⟨l, hl, rfl⟩, rfl⟩, hp⟩)
  have hempty : ∀ l, l ∉ ls → chanJ l J = [] := by
    intro l hl
    by_contra hne'
    obtain ⟨sw, hsw⟩ := List.exists_mem_of_ne_nil _ hne'
    obtain ⟨j, hj, hjl, _⟩ := mem_chanJ hsw
    exact hl (hJ j hj l hjl)
  have hrows : (all.map fun l =>
        if l ∈ ls then T.map (stepAt (compiledJ thr τ pm final ms J l).1 (compiledJ thr τ pm final ms J l).2)
        else T.map fun _ => (0 : Rat)) = all.map fun l => T.map (specAt (chanJ l J)) := by
    apply List.map_congr_left
    intro l _
    by_cases hl : l ∈ ls
    · rw [if_pos hl]
      apply List.map_congr_left
      intro t _
      exact (hspec l hl).2.2.2.2.1 t
    · rw [if_neg hl, hempty l hl]
      rfl
  rw [hrows]
  -- the merged grid starts at 0
  obtain ⟨l0, hl0⟩ := List.exists_mem_of_ne_nil ls hne
  have h0T : T.head? = some 0 := by
    apply head_sortU_zero
    · have := (hspec l0 hl0).1
      have hmem : (0 : Rat) ∈ (compiledJ thr τ pm final ms J l0).1 := by
        match hg : (compiledJ thr τ pm final ms J l0).1, this with
        | a :: r, this => simp at this; simp [this]
      exact List.mem_flatten.mpr ⟨_, List.mem_map.mpr ⟨_, List.mem_map.mpr ⟨l0, hl0, rfl⟩, rfl⟩, hmem⟩
    · intro x hx
      obtain ⟨g, hg, hxg⟩ := List.mem_flatten.mp hx
      obtain ⟨c, hc, rfl⟩ := List.mem_map.mp hg
      obtain ⟨l, hl, rfl⟩ := List.mem_map.mp hc
      obtain ⟨hh, hp, _⟩ := hspec l hl
      match hcl : (compiledJ thr τ pm final ms J l).1, hh, hp, hxg with
      | a :: rest, hh, hp, hxg =>
        simp at hh; subst hh
        rcases List.mem_cons.mp hxg with rfl | h
        · exact le_rfl
        · exact le_of_lt ((List.pairwise_cons.mp hp).1 x h)
  have hchain' : ∀ l ∈ all, Chain 0 (chanJ l J) := by
    intro l _
    by_cases hl : l ∈ ls
    · exact hchain l hl
    · rw [hempty l hl]; trivial
  exact specRows_sliceProd H all hall J (fun j hj l hjl => hsub l (hJ j hj l hjl)) hchain' T hT h0T
    (fun j hj l hjl => by
      have hl := hJ j hj l hjl
      obtain ⟨m1, m2⟩ := (hspec l hl).2.2.2.2.2 j hj hjl
      exact ⟨hsubT l hl _ m1, hsubT l hl _ m2⟩) hcomp

end QipVerif.Compose
