import QipVerif.Lemmas.ZyzExact

/-!
# C17 — `_cphase_to_cnot`: controlled phase as CNOTs and z-rotations

Two-qubit operators are matrices over `Fin 2 × Fin 2`, index = (control bit, target bit), which is
the order of the compact operator of `Gate("CPHASE", targets=[t], controls=[c])` and of `cphase(θ)`.
The list `_cphase_to_cnot(targets, controls, λ)` returns is obtained from the REGENERATED
`cphaseTemplate` and the ZYZ_PauliX tuple of `diag(1, e^{iλ})`.
-/
namespace QipVerif.Zyz
open Matrix Complex
open QipVerif.Gen.Zyz

abbrev M4 := Matrix (Fin 2 × Fin 2) (Fin 2 × Fin 2) ℂ

/-- a gate placed on the (control, target) pair -/
inductive P2
  | one (g : GName) (x : ℝ) (q : Qb)   -- single-qubit gate on `targets` or `controls`
  | phase (x : ℝ)                       -- GLOBALPHASE
  | cnot                                -- CNOT, control = `controls`, target = `targets`

/-- single-qubit operator on the target qubit -/
def onT (A : M2) : M4 := fun p q => if p.1 = q.1 then A p.2 q.2 else 0
/-- single-qubit operator on the control qubit -/
def onC (A : M2) : M4 := fun p q => if p.2 = q.2 then A p.1 q.1 else 0
def cnotMat : M4 := fun p q => if p.1 = q.1 ∧ p.2 = (if q.1 = 1 then 1 - q.2 else q.2) then 1 else 0
/-- `cphase(λ)`: diag(1, 1, 1, e^{iλ}) -/
noncomputable def cphaseMat (l : ℝ) : M4 :=
  fun p q => if p = q then (if p.1 = 1 ∧ p.2 = 1 then cexp (I * l) else 1) else 0

noncomputable def P2.den : P2 → M4
  | .one g x .targets => onT (gateMat g x)
  | .one g x .controls => onC (gateMat g x)
  | .phase x => cexp (I * x) • (1 : M4)
  | .cnot => cnotMat

noncomputable def circDen2 : List P2 → M4
  | [] => 1
  | g :: gs => circDen2 gs * g.den

/-- the rotation `_cphase_to_cnot` decomposes: `Qobj([[1, 0], [0, exp(1j*arg_value)]])` -/
noncomputable def phaseRot (l : ℝ) : M2 := !![1, 0; 0, cexp (I * l)]

/-- one template entry, given the decomposed tuple `dec` and `arg_value = l`
(`none`: a shape the model does not cover, e.g. a rotation left on its original qubit) -/
noncomputable def cpEntry (dec : List (GName × ℝ)) (l : ℝ) : CpEntry → Option P2
  | .dec k q extra =>
    match dec[k]?, q with
    | some (.GLOBALPHASE, x), _ => some (.phase (x + Coef.val extra * l))
    | some (g, x), some q => some (.one g (x + Coef.val extra * l) q)
    | _, _ => none
  | .gate .CNOT .targets (some .controls) none => some .cnot
  | .gate .RZ q none (some c) => some (.one .RZ (Coef.val c * l) q)
  | _ => none

/-- model of `_cphase_to_cnot(targets, controls, l)` -/
noncomputable def cphaseToCnot (l : ℝ) : Option (List P2) :=
  if cphaseMethod = "ZYZ_PauliX" then
    cphaseTemplate.mapM (cpEntry (gatesOf zyzPauliX (phaseRot l)) l)
  else none

/-! ## the angles extracted from `diag(1, e^{iλ})` for `−π < λ ≤ π` -/

theorem arg_exp_I {t : ℝ} (h1 : -Real.pi < t) (h2 : t ≤ Real.pi) : Complex.arg (cexp (I * t)) = t := by
  rw [mul_comm, Complex.exp_mul_I]; exact Complex.arg_cos_add_sin_mul_I ⟨h1, h2⟩

theorem normConst_phaseRot {l : ℝ} (h1 : -Real.pi < l) (h2 : l ≤ Real.pi) :
    normConst (phaseRot l) = cexp (I * ((l / 2 : ℝ) : ℂ)) := by
  have hd : (phaseRot l).det = cexp (I * l) := by simp [phaseRot, Matrix.det_fin_two]
  rw [normConst, csqrt, hd, Complex.cpow_def_of_ne_zero (Complex.exp_ne_zero _),
    Complex.log_exp (by simpa using h1) (by simpa using h2)]
  congr 1; push_cast; ring

theorem atoms_phaseRot {l : ℝ} (h1 : -Real.pi < l) (h2 : l ≤ Real.pi) :
    atomA (phaseRot l) (normConst (phaseRot l)) = l / 2 ∧ atomB (phaseRot l) (normConst (phaseRot l)) = 0 ∧
    atomT (phaseRot l) (normConst (phaseRot l)) = 0 ∧ atomN (normConst (phaseRot l)) = -(l / 2) := by
  have hpi := Real.pi_pos
  rw [normConst_phaseRot h1 h2]
  have hinv : 1 / cexp (I * ((l / 2 : ℝ) : ℂ)) = cexp (I * ((-(l / 2) : ℝ) : ℂ)) := by
    rw [one_div, ← Complex.exp_neg]; congr 1; push_cast; ring
  have hconj : (starRingEnd ℂ) (cexp (I * ((-(l / 2) : ℝ) : ℂ))) = cexp (I * ((l / 2 : ℝ) : ℂ)) := by
    rw [← Complex.exp_conj, map_mul, Complex.conj_I, Complex.conj_ofReal]; congr 1; push_cast; ring
  have hA : atomA (phaseRot l) (cexp (I * ((l / 2 : ℝ) : ℂ))) = l / 2 := by
    simp only [atomA, normalised, phaseRot, negConj_eq, hinv]
    simp only [Matrix.of_apply, Matrix.cons_val', Matrix.cons_val_zero, Matrix.cons_val_fin_one, one_mul, hconj]
    exact arg_exp_I (by linarith) (by linarith)
  refine ⟨hA, ?_, ?_, ?_⟩
  · simp [atomB, normalised, phaseRot, negConj_eq]
  · have hn : ‖negConj (normalised (phaseRot l) (cexp (I * ((l / 2 : ℝ) : ℂ))) 0 0)‖ = 1 := by
      simp only [normalised, phaseRot, negConj_eq, hinv]
      simp only [Matrix.of_apply, Matrix.cons_val', Matrix.cons_val_zero, Matrix.cons_val_fin_one, one_mul, hconj]
      rw [mul_comm]; exact Complex.norm_exp_ofReal_mul_I _
    have hb : ‖negConj (normalised (phaseRot l) (cexp (I * ((l / 2 : ℝ) : ℂ))) 0 1)‖ = 0 := by
      simp [normalised, phaseRot, negConj_eq]
    rw [atomT, arctan2, hn, hb]
    exact Complex.arg_one
  · rw [atomN, hinv]; exact arg_exp_I (by linarith) (by linarith)

/-- what `decompose_one_qubit_gate(diag(1, e^{iλ}), "ZYZ_PauliX")` returns, `−π < λ ≤ π` -/
theorem gatesOf_phaseRot {l : ℝ} (h1 : -Real.pi < l) (h2 : l ≤ Real.pi) :
    gatesOf zyzPauliX (phaseRot l) =
      [(.RZ, l / 2), (.RY, 0), (.X, 0), (.RY, 0), (.RZ, -(l / 2)), (.X, 0), (.RZ, 0), (.GLOBALPHASE, l / 2)] := by
  obtain ⟨hA, hB, hT, hN⟩ := atoms_phaseRot h1 h2
  rw [gatesOf, gatesWith, inst_zyzPauliX, ret_0, ret_1, ret_2, ret_3, hA, hB, hT, hN]
  simp
  ring

/-- the list `_cphase_to_cnot(t, c, λ)` returns, `−π < λ ≤ π` -/
theorem cphaseToCnot_eq {l : ℝ} (h1 : -Real.pi < l) (h2 : l ≤ Real.pi) :
    cphaseToCnot l = some [.one .RZ (l / 2) .targets, .cnot, .one .RZ (-(l / 2)) .targets, .cnot,
      .one .RZ (l / 2) .controls, .phase (l / 2 + l / 4)] := by
  rw [cphaseToCnot, gatesOf_phaseRot h1 h2]
  simp [cphaseMethod, cphaseTemplate, cpEntry, Coef.val]
  refine ⟨?_, ?_⟩ <;> ring

/-- the 4×4 identity, for **every** real `l`:
`phase(3l/4) · Rz_c(l/2) · CNOT · Rz_t(−l/2) · CNOT · Rz_t(l/2) = e^{i l/2} · CPHASE(l)` -/
theorem cnot_expansion_identity (l : ℝ) :
    circDen2 [.one .RZ (l / 2) .targets, .cnot, .one .RZ (-(l / 2)) .targets, .cnot,
      .one .RZ (l / 2) .controls, .phase (l / 2 + l / 4)] = cexp (I * ((l / 2 : ℝ) : ℂ)) • cphaseMat l := by
  ext ⟨p1, p2⟩ ⟨q1, q2⟩
  fin_cases p1 <;> fin_cases p2 <;> fin_cases q1 <;> fin_cases q2 <;>
    simp [circDen2, P2.den, gateMat, Rz, onT, onC, cnotMat, cphaseMat, Matrix.mul_apply,
      Fintype.sum_prod_type, Fin.sum_univ_two, Matrix.smul_apply] <;>
    (simp only [← Complex.exp_add]; congr 1; ring)

end QipVerif.Zyz
