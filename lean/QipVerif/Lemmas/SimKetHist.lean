import QipVerif.Model.SimKet
/-!
# C01 — histories on live gate objects: every evaluation reads the current public fields
-/
namespace QipVerif.SimKet

variable {A β : Type}

theorem runHist_cons_eval (ev : List (GateReq A) → β) (gs : List (GateReq A)) (rest : List HistOp) :
    runHist ev gs (.eval :: rest) = ev gs :: runHist ev gs rest := rfl

theorem runHist_cons (ev : List (GateReq A) → β) (gs : List (GateReq A)) (op : HistOp) (rest : List HistOp) :
    runHist ev gs (op :: rest) =
      (match op with | .eval => [ev gs] | _ => []) ++ runHist ev (applyHist gs op) rest := by
  cases op <;> rfl

theorem runHist_append (ev : List (GateReq A) → β) (gs : List (GateReq A)) (a b : List HistOp) :
    runHist ev gs (a ++ b) = runHist ev gs a ++ runHist ev (a.foldl applyHist gs) b := by
  induction a generalizing gs with
  | nil => rfl
  | cons op rest ih =>
    rw [List.cons_append, runHist_cons, runHist_cons, ih, List.foldl_cons, List.append_assoc]

/-- the answer of an evaluation after any history is the answer for fresh objects carrying the current fields -/
theorem runHist_eval_last (ev : List (GateReq A) → β) (gs : List (GateReq A)) (ops : List HistOp) :
    runHist ev gs (ops ++ [.eval]) = runHist ev gs ops ++ [ev (ops.foldl applyHist gs)] := by
  rw [runHist_append]; rfl

theorem setTargets_allQubits (r : GateReq A) (t : List Nat) :
    (r.setTargets t).allQubits = if r.controlsNone then t else r.controls ++ t := rfl

theorem setControls_allQubits (r : GateReq A) (c : Option (List Nat)) :
    (r.setControls c).allQubits = match c with | none => r.targets | some l => l ++ r.targets := by
  cases c <;> rfl

end QipVerif.SimKet
