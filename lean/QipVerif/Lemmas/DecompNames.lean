import QipVerif.Gen.DecompTables
namespace QipVerif.Decomp
open QipVerif QipVerif.Gen

/-- names a `_gate_*` template may emit -/
def tempNames : List GName := [.RX, .RY, .RZ, .CNOT, .GLOBALPHASE]

theorem gateRule_names (n : GName) (body : List TGate) (h : gateRule n = .templ body) :
    body.all (fun t => tempNames.contains t.name) = true := by
  cases n <;> simp only [gateRule, reduceCtorEq] at h <;> (cases h; decide)

theorem basisRule_names (y n : GName) (body : List TGate) (h : basisRule y n = some body) :
    (n = .CNOT ∨ (y = .ISWAP ∧ n = .SWAP)) ∧
    body.all (fun t => t.name == y || [GName.RX, .RY, .RZ, .GLOBALPHASE].contains t.name) = true := by
  cases y <;> cases n <;> simp only [basisRule, reduceCtorEq] at h <;> (cases h; decide)

theorem basisRule_CNOT (y : GName) (hy : [GName.CSIGN, .ISWAP, .SQRTSWAP, .SQRTISWAP].contains y = true) :
    (basisRule y .CNOT).isSome = true := by
  cases y <;> simp at hy <;> decide

theorem basisRule_ISWAP_SWAP : (basisRule .ISWAP .SWAP).isSome = true := by decide

theorem TGate_inst_name (g : Gate) (t : TGate) (g' : Gate) (h : t.inst g = some g') : g'.name = t.name := by
  unfold TGate.inst at h
  split at h
  · cases h; rfl
  · cases h

theorem mapM_names {g : Gate} : ∀ (body : List TGate) (gs : List Gate),
    body.mapM (TGate.inst g) = some gs → gs.map (·.name) = body.map (·.name) := by
  intro body
  induction body with
  | nil => intro gs h; simp at h; subst h; rfl
  | cons t ts ih =>
    intro gs h
    rw [List.mapM_cons] at h
    cases h1 : t.inst g with
    | none => simp [h1] at h
    | some g' =>
      cases h2 : ts.mapM (TGate.inst g) with
      | none => simp [h1, h2] at h
      | some gs' =>
        simp [h1, h2] at h
        subst h
        simp [ih gs' h2, TGate_inst_name g t g' h1]

theorem instBody_all {g : Gate} {body : List TGate} {gs : List Gate} (p : GName → Bool)
    (h : instBody g body = some gs) (hb : body.all (fun t => p t.name) = true) :
    gs.all (fun g' => p g'.name) = true := by
  have hn := mapM_names body gs h
  rw [List.all_eq_true] at hb ⊢
  intro g' hg'
  have : g'.name ∈ gs.map (·.name) := List.mem_map.mpr ⟨g', hg', rfl⟩
  rw [hn] at this
  obtain ⟨t, ht, hte⟩ := List.mem_map.mp this
  rw [← hte]; exact hb t ht


end QipVerif.Decomp
