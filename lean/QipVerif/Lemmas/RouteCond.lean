import QipVerif.Lemmas.RouteC
/-!
# C07: a dropped classical condition changes the operator (witness over ℂ)

The exact library CNOT is not the identity, so a routed CNOT that has lost its classical condition
differs from the input whenever the condition does not hold.
-/
namespace QipVerif
open Matrix

theorem toMatD_cnot_ne_one : toMatD 2 GateE.cnot ≠ 1 := by
  intro h
  have h2 := congrFun (congrFun h ![1, 0]) ![1, 0]
  rw [toMatD_two_apply] at h2
  have hz : GateE.cnot.m.get (2 * (1 : Fin 2).val + (0 : Fin 2).val) (2 * (1 : Fin 2).val + (0 : Fin 2).val) =
      Cyc.zero := by decide
  rw [hz] at h2
  simp at h2

namespace Route

theorem interpH_cnot_ne_one (α : ℕ → ℝ) : interpH 2 α ⟨.CNOT, [0], [1], 0, 0⟩ ≠ 1 := by
  rw [interpH_cnot_two]; exact toMatD_cnot_ne_one

/-- convention: on two qubits RZX on targets (0, 1) is the matrix of the gate class itself -/
theorem interpH_rzx_two (α : ℕ → ℝ) (a x : ℕ) :
    interpH 2 α ⟨.RZX, [], [0, 1], a, x⟩ = mat2 (Gen.G.cls_RZX_ (α a)) := by
  rw [interpH_two α (a := 0) (b := 1) (by simp [nCtl, GName.isCtl]) rfl,
    place2_ok (by decide) (by decide) (by decide)]
  exact pair_embed_self _ _

end Route
end QipVerif
