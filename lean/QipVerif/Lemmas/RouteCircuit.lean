import QipVerif.Lemmas.RouteSpec
/-!
# C07: from one routed gate to whole circuits

Well-formedness of input gates, the per-gate specification of `routeGate` in one statement,
and the list recursion of `toChain` (pass-through, concatenation).
-/
namespace QipVerif.Route

/-- the router rewrites this gate -/
def Handled (g : Gate) : Prop := g.name.isCtl = true ∨ g.name.isSwp = true

instance (g : Gate) : Decidable (Handled g) := by unfold Handled; infer_instance

/-- A handled gate as the gate library builds it, on two distinct qubits of the register:
one control and one target for CNOT/CSIGN, two targets and no control for the exchange-type
gates.  Unhandled gates are unconstrained. -/
def WellFormed (N : Nat) (g : Gate) : Prop :=
  (g.name.isCtl = true → ∃ c t, g.controls = [c] ∧ g.targets = [t] ∧ c ≠ t ∧ c < N ∧ t < N) ∧
  (g.name.isSwp = true → ∃ t0 t1, g.controls = [] ∧ g.targets = [t0, t1] ∧ t0 ≠ t1 ∧ t0 < N ∧ t1 < N)

theorem isCtl_false_of_isSwp {n : GName} (h : n.isSwp = true) : n.isCtl = false := by
  cases n <;> simp_all [GName.isSwp, GName.isCtl]

theorem routeGate_ctl {N : Nat} {setup : Setup} {g : Gate} {c t : Nat} (hnm : g.name.isCtl = true)
    (hC : g.controls = [c]) (hT : g.targets = [t]) :
    routeGate N setup g = routeCtl .fixed N setup g c t := by
  simp [routeGate, routeGateV, hnm, hC, hT]

theorem routeGate_swp {N : Nat} {setup : Setup} {g : Gate} {t0 t1 : Nat} (hnm : g.name.isSwp = true)
    (hT : g.targets = [t0, t1]) :
    routeGate N setup g = .ok (routeSwp .fixed N setup g t0 t1) := by
  simp [routeGate, routeGateV, hnm, isCtl_false_of_isSwp hnm, hT]

/-- pass-through of everything the router does not handle (measurements included) -/
theorem routeGate_other {N : Nat} {setup : Setup} {g : Gate} (h : ¬ Handled g) :
    routeGate N setup g = .ok [g] := by
  unfold Handled at h
  have h1 : g.name.isCtl = false := by cases hc : g.name.isCtl <;> simp_all
  have h2 : g.name.isSwp = false := by cases hc : g.name.isSwp <;> simp_all
  simp [routeGate, routeGateV, h1, h2, fixed_measFix]

/-- Per-gate specification in one statement. -/
theorem routeGate_handled_spec (N : Nat) (setup : Setup) (hs : setup = .linear ∨ setup = .circular)
    (g : Gate) (hw : WellFormed N g) (hh : Handled g) :
    ∃ out S G a b, routeGate N setup g = .ok out ∧ g.qubits = [a, b] ∧ a ≠ b ∧ a < N ∧ b < N ∧
      Routed setup N a b out S G ∧ G.name = g.name ∧
      (G.qubits = [track S a, track S b] ∨ G.qubits = [track S b, track S a]) := by
  rcases hh with hnm | hnm
  · obtain ⟨c, t, hC, hT, hct, hc, ht⟩ := hw.1 hnm
    obtain ⟨out, S, h1, h2⟩ := routeCtl_spec N setup hs g c t hnm hC hT hct hc ht
    exact ⟨out, S, _, c, t, by rw [routeGate_ctl hnm hC hT, h1], by simp [Gate.qubits, hC, hT], hct, hc, ht,
      h2, rfl, Or.inl rfl⟩
  · obtain ⟨t0, t1, hC, hT, h01, h0, h1⟩ := hw.2 hnm
    obtain ⟨S, p, q, h2, h3⟩ := routeSwp_spec N setup hs g t0 t1 h01 h0 h1
    refine ⟨_, S, _, t0, t1, routeGate_swp hnm hT, by simp [Gate.qubits, hC, hT], h01, h0, h1, h2, rfl, ?_⟩
    rcases h3 with ⟨rfl, rfl⟩ | ⟨rfl, rfl⟩
    · exact Or.inl rfl
    · exact Or.inr rfl

theorem mem_swaps {h : Gate} {S : List (Nat × Nat)} (hm : h ∈ swaps S) : ∃ p ∈ S, h = swapG p.1 p.2 := by
  simp only [swaps, List.mem_map] at hm
  obtain ⟨p, hp, rfl⟩ := hm
  exact ⟨p, hp, rfl⟩

/-- the members of a routed gate's output -/
theorem Routed.mem {setup : Setup} {N a b : Nat} {out : List Gate} {S : List (Nat × Nat)} {G : Gate}
    (hr : Routed setup N a b out S G) {h : Gate} (hm : h ∈ out) :
    h = G ∨ ∃ p ∈ S, h = swapG p.1 p.2 := by
  rw [hr.out_eq] at hm
  rcases List.mem_append.mp hm with hm | hm
  · exact Or.inr (mem_swaps hm)
  · rcases List.mem_cons.mp hm with rfl | hm
    · exact Or.inl rfl
    · obtain ⟨p, hp, rfl⟩ := mem_swaps hm
      exact Or.inr ⟨p, List.mem_reverse.mp hp, rfl⟩

theorem Routed.track_lt {setup : Setup} {N a b : Nat} {out : List Gate} {S : List (Nat × Nat)} {G : Gate}
    (hr : Routed setup N a b out S G) {x : Nat} (hx : x < N) : track S x < N :=
  Route.track_lt (fun p hp => ⟨(hr.swaps_ok p hp).1, (hr.swaps_ok p hp).2.1⟩) hx

/-! ## the list recursion -/

theorem toChain_cons (N : Nat) (setup : Setup) (g : Gate) (gs out : List Gate) :
    toChain N setup (g :: gs) = .ok out ↔
      ∃ a b, routeGate N setup g = .ok a ∧ toChain N setup gs = .ok b ∧ out = a ++ b := by
  simp only [toChain, toChainV, routeGate]
  cases h1 : routeGateV Variant.fixed N setup g <;> cases h2 : toChainV Variant.fixed N setup gs <;> simp
  exact eq_comm

theorem toChain_append (N : Nat) (setup : Setup) (gs₁ gs₂ out : List Gate) :
    toChain N setup (gs₁ ++ gs₂) = .ok out ↔
      ∃ a b, toChain N setup gs₁ = .ok a ∧ toChain N setup gs₂ = .ok b ∧ out = a ++ b := by
  induction gs₁ generalizing out with
  | nil =>
    constructor
    · intro h; exact ⟨[], out, rfl, h, rfl⟩
    · rintro ⟨a, b, ha, hb, rfl⟩
      have : a = [] := by simpa [toChain, toChainV] using ha.symm
      simpa [this] using hb
  | cons g gs ih =>
    rw [List.cons_append, toChain_cons]
    constructor
    · rintro ⟨a, b, ha, hb, rfl⟩
      obtain ⟨a', b', ha', hb', rfl⟩ := (ih b).mp hb
      exact ⟨a ++ a', b', (toChain_cons ..).mpr ⟨a, a', ha, ha', rfl⟩, hb', by simp⟩
    · rintro ⟨a, b, ha, hb, rfl⟩
      obtain ⟨a₁, a₂, h1, h2, rfl⟩ := (toChain_cons ..).mp ha
      exact ⟨a₁, a₂ ++ b, h1, (ih _).mpr ⟨a₂, b, h2, hb, rfl⟩, by simp⟩

/-- the output of a circuit is the concatenation of the per-gate outputs, in order -/
theorem toChain_concat (N : Nat) (setup : Setup) (gs out : List Gate) :
    toChain N setup gs = .ok out ↔
      ∃ parts : List (List Gate),
        gs.map (routeGate N setup) = parts.map Except.ok ∧ out = parts.flatten := by
  induction gs generalizing out with
  | nil =>
    constructor
    · intro h
      have : out = [] := by simpa [toChain, toChainV] using h.symm
      exact ⟨[], rfl, by simp [this]⟩
    · rintro ⟨parts, hp, rfl⟩
      cases parts with
      | nil => rfl
      | cons a l => simp at hp
  | cons g gs ih =>
    rw [toChain_cons]
    constructor
    · rintro ⟨a, b, ha, hb, rfl⟩
      obtain ⟨parts, hp, rfl⟩ := (ih b).mp hb
      exact ⟨a :: parts, by simp [ha, hp], by simp⟩
    · rintro ⟨parts, hp, rfl⟩
      cases parts with
      | nil => simp at hp
      | cons a l =>
        simp only [List.map_cons, List.cons.injEq] at hp
        exact ⟨a, l.flatten, hp.1, (ih _).mpr ⟨l, hp.2, rfl⟩, by simp⟩

/-- routing a circuit of well-formed gates never raises -/
theorem toChain_total (N : Nat) (setup : Setup) (hs : setup = .linear ∨ setup = .circular)
    (gs : List Gate) (hw : ∀ g ∈ gs, WellFormed N g) : ∃ out, toChain N setup gs = .ok out := by
  induction gs with
  | nil => exact ⟨[], rfl⟩
  | cons g gs ih =>
    obtain ⟨b, hb⟩ := ih (fun g hg => hw g (List.mem_cons_of_mem _ hg))
    by_cases hh : Handled g
    · obtain ⟨a, _, _, _, _, ha, _⟩ := routeGate_handled_spec N setup hs g (hw g (List.mem_cons_self ..)) hh
      exact ⟨a ++ b, (toChain_cons ..).mpr ⟨a, b, ha, hb, rfl⟩⟩
    · exact ⟨[g] ++ b, (toChain_cons ..).mpr ⟨[g], b, routeGate_other hh, hb, rfl⟩⟩

/-- every output gate comes from the routing of some input gate -/
theorem toChain_mem {N : Nat} {setup : Setup} {gs out : List Gate} (ho : toChain N setup gs = .ok out)
    {h : Gate} (hm : h ∈ out) : ∃ g ∈ gs, ∃ a, routeGate N setup g = .ok a ∧ h ∈ a := by
  induction gs generalizing out with
  | nil =>
    have : out = [] := by simpa [toChain, toChainV] using ho.symm
    simp [this] at hm
  | cons g gs ih =>
    obtain ⟨a, b, ha, hb, rfl⟩ := (toChain_cons ..).mp ho
    rcases List.mem_append.mp hm with hm | hm
    · exact ⟨g, List.mem_cons_self .., a, ha, hm⟩
    · obtain ⟨g', hg', a', ha', hm'⟩ := ih hb hm
      exact ⟨g', List.mem_cons_of_mem _ hg', a', ha', hm'⟩

/-- everything emitted for a handled gate is itself a handled-name gate (a SWAP or the gate's name) -/
theorem routeGate_out_handled (N : Nat) (setup : Setup) (hs : setup = .linear ∨ setup = .circular)
    (g : Gate) (hw : WellFormed N g) (hh : Handled g) (a : List Gate) (ha : routeGate N setup g = .ok a) :
    ∀ h ∈ a, Handled h := by
  obtain ⟨out, S, G, x, y, h1, -, -, -, -, hr, hn, -⟩ := routeGate_handled_spec N setup hs g hw hh
  rw [h1] at ha; cases ha
  intro h hm
  rcases hr.mem hm with rfl | ⟨p, -, rfl⟩
  · unfold Handled at hh ⊢; rw [hn]; exact hh
  · exact Or.inr rfl

/-- unhandled gates come out unchanged, in order, and nothing else unhandled is emitted -/
theorem toChain_unhandled_order (N : Nat) (setup : Setup) (hs : setup = .linear ∨ setup = .circular)
    (gs : List Gate) (hw : ∀ g ∈ gs, WellFormed N g) (out : List Gate) (ho : toChain N setup gs = .ok out) :
    out.filter (fun h => !decide (Handled h)) = gs.filter (fun h => !decide (Handled h)) := by
  induction gs generalizing out with
  | nil =>
    have : out = [] := by simpa [toChain, toChainV] using ho.symm
    simp [this]
  | cons g gs ih =>
    obtain ⟨a, b, ha, hb, rfl⟩ := (toChain_cons ..).mp ho
    have := ih (fun g hg => hw g (List.mem_cons_of_mem _ hg)) b hb
    rw [List.filter_append, this]
    by_cases hh : Handled g
    · have hall := routeGate_out_handled N setup hs g (hw g (List.mem_cons_self ..)) hh a ha
      have : a.filter (fun h => !decide (Handled h)) = [] := by
        rw [List.filter_eq_nil_iff]; intro h hm; simp [hall h hm]
      simp [this, hh]
    · rw [routeGate_other hh] at ha; cases ha
      simp [hh]

/-! ## `adjacent_gates` is the open-chain router restricted to handled gates -/

theorem adjGate_eq_routeGate (N : Nat) (g : Gate) (hh : Handled g) :
    adjGateV .fixed g = routeGate N .linear g := by
  rcases hh with hnm | hnm
  · cases hT : g.targets <;> cases hC : g.controls <;>
      simp [adjGateV, routeGate, routeGateV, hnm, hT, hC, routeCtl]
  · have := isCtl_false_of_isSwp hnm
    rcases hT : g.targets with _ | ⟨t0, _ | ⟨t1, l⟩⟩ <;>
      simp [adjGateV, routeGate, routeGateV, hnm, this, hT, routeSwp]

theorem not_isMeas_of_handled {g : Gate} (hh : Handled g) : isMeas g = false := by
  unfold Handled at hh
  unfold isMeas
  cases hn : g.name <;> simp_all [GName.isCtl, GName.isSwp]

theorem adjLoop_eq_toChain (N : Nat) (gs : List Gate) (hh : ∀ g ∈ gs, Handled g) :
    adjLoopV .fixed gs = toChain N .linear gs := by
  induction gs with
  | nil => rfl
  | cons g gs ih =>
    have h1 := adjGate_eq_routeGate N g (hh g (List.mem_cons_self ..))
    have h2 := ih (fun g hg => hh g (List.mem_cons_of_mem _ hg))
    simp only [adjLoopV, toChain, toChainV, routeGate] at h1 h2 ⊢
    rw [h1, h2]
    cases routeGateV Variant.fixed N Setup.linear g <;> cases toChainV Variant.fixed N Setup.linear gs <;> rfl

end QipVerif.Route
