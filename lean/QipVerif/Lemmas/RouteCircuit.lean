import QipVerif.Lemmas.RouteSpec
/-!
# C07: from one routed gate to whole circuits

Well-formedness of input gates, the per-gate specification of the router in one statement,
and the list recursion of `toChainV` (pass-through, concatenation).

Everything is proved for `Variant.rep cc` (the four repairs `fixes/C07-1..4`, with or without the
classical-condition repair `fixes/C07-5`) and for **every** `setup` (`Setup.eff`); the lemmas
without the suffix `V` are the instances for `routeGate` / `toChain` (= `Variant.fixed = Variant.rep
false`) and the two documented setups, in the form the transpilation lemmas (C13) use them.
-/
namespace QipVerif.Route

/-- the router rewrites this gate -/
def Handled (g : Gate) : Prop := g.name.isCtl = true ∨ g.name.isSwp = true

instance (g : Gate) : Decidable (Handled g) := by unfold Handled; infer_instance

/-- A handled gate as the gate library builds it, on two distinct qubits of the register:
one control and one target for CNOT/CSIGN, two targets and no control for the exchange-type
gates.  Unhandled gates are unconstrained. -/
def WellFormed (N : Nat) (g : Gate) : Prop :=
  (g.name.isCtl = true → ∃ c t, g.controls = [c] ∧ g.targets = [t] ∧ c ≠ t ∧ c < N ∧ t < N) ∧
  (g.name.isSwp = true → ∃ t0 t1, g.controls = [] ∧ g.targets = [t0, t1] ∧ t0 ≠ t1 ∧ t0 < N ∧ t1 < N)

/-- the router of the variant `rz` (is `fixes/C13-3.patch` in place) rewrites this gate -/
def HandledV (rz : Bool) (g : Gate) : Prop := Handled g ∨ (rz = true ∧ g.name.isOrd = true)

instance (rz : Bool) (g : Gate) : Decidable (HandledV rz g) := by unfold HandledV; infer_instance

theorem handledV_false (g : Gate) : HandledV false g ↔ Handled g := by simp [HandledV]

/-- … and an ordered two-target gate (RZX), when it is routed, has two distinct in-range targets and no control -/
def WellFormedV (rz : Bool) (N : Nat) (g : Gate) : Prop :=
  WellFormed N g ∧
  (rz = true → g.name.isOrd = true →
    ∃ t0 t1, g.controls = [] ∧ g.targets = [t0, t1] ∧ t0 ≠ t1 ∧ t0 < N ∧ t1 < N)

theorem wellFormedV_false (N : Nat) (g : Gate) : WellFormedV false N g ↔ WellFormed N g := by simp [WellFormedV]

theorem isCtl_false_of_isOrd {n : GName} (h : n.isOrd = true) : n.isCtl = false := by
  cases n <;> simp_all [GName.isOrd, GName.isCtl]

theorem isSwp_false_of_isOrd {n : GName} (h : n.isOrd = true) : n.isSwp = false := by
  cases n <;> simp_all [GName.isOrd, GName.isSwp]

theorem isOrd_false_of_isSwp {n : GName} (h : n.isSwp = true) : n.isOrd = false := by
  cases n <;> simp_all [GName.isOrd, GName.isSwp]

theorem isCtl_false_of_isSwp {n : GName} (h : n.isSwp = true) : n.isCtl = false := by
  cases n <;> simp_all [GName.isSwp, GName.isCtl]

theorem routeGateV_ctl {cc rz : Bool} {N : Nat} {setup : Setup} {g : Gate} {c t : Nat} (hnm : g.name.isCtl = true)
    (hC : g.controls = [c]) (hT : g.targets = [t]) :
    routeGateV (.rep cc rz) N setup g = routeCtl (.rep cc rz) N setup g c t := by
  simp [routeGateV, hnm, hC, hT]

theorem routeGateV_swp {cc rz : Bool} {N : Nat} {setup : Setup} {g : Gate} {t0 t1 : Nat} (hnm : g.name.isSwp = true)
    (hT : g.targets = [t0, t1]) :
    routeGateV (.rep cc rz) N setup g = .ok (routeSwp (.rep cc rz) N setup g t0 t1) := by
  simp [routeGateV, hnm, isCtl_false_of_isSwp hnm, hT]

theorem routeGateV_ord {cc : Bool} {N : Nat} {setup : Setup} {g : Gate} {t0 t1 : Nat} (hnm : g.name.isOrd = true)
    (hT : g.targets = [t0, t1]) :
    routeGateV (.rep cc true) N setup g = .ok (routeSwp (.rep cc true) N setup g t0 t1) := by
  simp [routeGateV, hnm, isCtl_false_of_isOrd hnm, hT, rep_rzFix]

/-- pass-through of everything the router does not handle (measurements included) -/
theorem routeGateV_other {cc rz : Bool} {N : Nat} {setup : Setup} {g : Gate} (h : ¬ HandledV rz g) :
    routeGateV (.rep cc rz) N setup g = .ok [g] := by
  unfold HandledV Handled at h
  have h1 : g.name.isCtl = false := by cases hc : g.name.isCtl <;> simp_all
  have h2 : g.name.isSwp = false := by cases hc : g.name.isSwp <;> simp_all
  have h3 : (rz && g.name.isOrd) = false := by
    cases rz <;> cases hc : g.name.isOrd <;> simp_all
  simp [routeGateV, h1, h2, h3, rep_measFix, rep_rzFix]

/-- Per-gate specification in one statement (every `setup`, both values of `ccFix`). -/
theorem routeGateV_handled_spec (cc rz : Bool) (N : Nat) (setup : Setup)
    (g : Gate) (hw : WellFormedV rz N g) (hh : HandledV rz g) :
    ∃ out S G a b, routeGateV (.rep cc rz) N setup g = .ok out ∧ g.qubits = [a, b] ∧ a ≠ b ∧ a < N ∧ b < N ∧
      Routed setup.eff N a b out S G ∧ G.name = g.name ∧
      (G.qubits = [track S a, track S b] ∨ G.qubits = [track S b, track S a]) ∧
      G.extra = (Variant.rep cc rz).cond g := by
  rcases hh with (hnm | hnm) | ⟨hrz, hnm⟩
  · obtain ⟨c, t, hC, hT, hct, hc, ht⟩ := hw.1.1 hnm
    obtain ⟨out, S, h1, h2⟩ := routeCtl_specV cc rz N setup g c t hnm hC hT hct hc ht
    exact ⟨out, S, _, c, t, by rw [routeGateV_ctl hnm hC hT, h1], by simp [Gate.qubits, hC, hT], hct, hc, ht,
      h2, rfl, Or.inl rfl, rfl⟩
  · obtain ⟨t0, t1, hC, hT, h01, h0, h1⟩ := hw.1.2 hnm
    obtain ⟨S, p, q, h2, h3⟩ := routeSwp_specV cc rz N setup g t0 t1 h01 h0 h1
    refine ⟨_, S, _, t0, t1, routeGateV_swp hnm hT, by simp [Gate.qubits, hC, hT], h01, h0, h1, h2, rfl, ?_, rfl⟩
    rcases h3 with ⟨rfl, rfl⟩ | ⟨-, rfl, rfl⟩
    · exact Or.inl rfl
    · exact Or.inr rfl
  · subst hrz
    obtain ⟨t0, t1, hC, hT, h01, h0, h1⟩ := hw.2 rfl hnm
    obtain ⟨S, p, q, h2, h3⟩ := routeSwp_specV cc true N setup g t0 t1 h01 h0 h1
    refine ⟨_, S, _, t0, t1, routeGateV_ord hnm hT, by simp [Gate.qubits, hC, hT], h01, h0, h1, h2, rfl, ?_, rfl⟩
    rcases h3 with ⟨rfl, rfl⟩ | ⟨-, rfl, rfl⟩
    · exact Or.inl rfl
    · exact Or.inr rfl

theorem mem_swaps {h : Gate} {S : List (Nat × Nat)} (hm : h ∈ swaps S) : ∃ p ∈ S, h = swapG p.1 p.2 := by
  simp only [swaps, List.mem_map] at hm
  obtain ⟨p, hp, rfl⟩ := hm
  exact ⟨p, hp, rfl⟩

/-- the members of a routed gate's output -/
theorem Routed.mem {setup : Setup} {N a b : Nat} {out : List Gate} {S : List (Nat × Nat)} {G : Gate}
    (hr : Routed setup N a b out S G) {h : Gate} (hm : h ∈ out) :
    h = G ∨ ∃ p ∈ S, h = swapG p.1 p.2 := by
  rw [hr.out_eq] at hm
  rcases List.mem_append.mp hm with hm | hm
  · exact Or.inr (mem_swaps hm)
  · rcases List.mem_cons.mp hm with rfl | hm
    · exact Or.inl rfl
    · obtain ⟨p, hp, rfl⟩ := mem_swaps hm
      exact Or.inr ⟨p, List.mem_reverse.mp hp, rfl⟩

theorem Routed.track_lt {setup : Setup} {N a b : Nat} {out : List Gate} {S : List (Nat × Nat)} {G : Gate}
    (hr : Routed setup N a b out S G) {x : Nat} (hx : x < N) : track S x < N :=
  Route.track_lt (fun p hp => ⟨(hr.swaps_ok p hp).1, (hr.swaps_ok p hp).2.1⟩) hx

/-! ## the list recursion -/

theorem toChainV_nil {v : Variant} {N : Nat} {setup : Setup} {out : List Gate}
    (h : toChainV v N setup [] = .ok out) : out = [] := by
  simpa [toChainV] using h.symm

theorem toChainV_cons (v : Variant) (N : Nat) (setup : Setup) (g : Gate) (gs out : List Gate) :
    toChainV v N setup (g :: gs) = .ok out ↔
      ∃ a b, routeGateV v N setup g = .ok a ∧ toChainV v N setup gs = .ok b ∧ out = a ++ b := by
  simp only [toChainV]
  cases h1 : routeGateV v N setup g <;> cases h2 : toChainV v N setup gs <;> simp
  exact eq_comm

theorem toChainV_append (v : Variant) (N : Nat) (setup : Setup) (gs₁ gs₂ out : List Gate) :
    toChainV v N setup (gs₁ ++ gs₂) = .ok out ↔
      ∃ a b, toChainV v N setup gs₁ = .ok a ∧ toChainV v N setup gs₂ = .ok b ∧ out = a ++ b := by
  induction gs₁ generalizing out with
  | nil =>
    constructor
    · intro h; exact ⟨[], out, rfl, h, rfl⟩
    · rintro ⟨a, b, ha, hb, rfl⟩
      have : a = [] := toChainV_nil ha
      simpa [this] using hb
  | cons g gs ih =>
    rw [List.cons_append, toChainV_cons]
    constructor
    · rintro ⟨a, b, ha, hb, rfl⟩
      obtain ⟨a', b', ha', hb', rfl⟩ := (ih b).mp hb
      exact ⟨a ++ a', b', (toChainV_cons ..).mpr ⟨a, a', ha, ha', rfl⟩, hb', by simp⟩
    · rintro ⟨a, b, ha, hb, rfl⟩
      obtain ⟨a₁, a₂, h1, h2, rfl⟩ := (toChainV_cons ..).mp ha
      exact ⟨a₁, a₂ ++ b, h1, (ih _).mpr ⟨a₂, b, h2, hb, rfl⟩, by simp⟩

/-- the output of a circuit is the concatenation of the per-gate outputs, in order -/
theorem toChainV_concat (v : Variant) (N : Nat) (setup : Setup) (gs out : List Gate) :
    toChainV v N setup gs = .ok out ↔
      ∃ parts : List (List Gate),
        gs.map (routeGateV v N setup) = parts.map Except.ok ∧ out = parts.flatten := by
  induction gs generalizing out with
  | nil =>
    constructor
    · intro h
      have : out = [] := toChainV_nil h
      exact ⟨[], rfl, by simp [this]⟩
    · rintro ⟨parts, hp, rfl⟩
      cases parts with
      | nil => rfl
      | cons a l => simp at hp
  | cons g gs ih =>
    rw [toChainV_cons]
    constructor
    · rintro ⟨a, b, ha, hb, rfl⟩
      obtain ⟨parts, hp, rfl⟩ := (ih b).mp hb
      exact ⟨a :: parts, by simp [ha, hp], by simp⟩
    · rintro ⟨parts, hp, rfl⟩
      cases parts with
      | nil => simp at hp
      | cons a l =>
        simp only [List.map_cons, List.cons.injEq] at hp
        exact ⟨a, l.flatten, hp.1, (ih _).mpr ⟨l, hp.2, rfl⟩, by simp⟩

/-- routing a circuit of well-formed gates never raises -/
theorem toChainV_total (cc rz : Bool) (N : Nat) (setup : Setup)
    (gs : List Gate) (hw : ∀ g ∈ gs, WellFormedV rz N g) : ∃ out, toChainV (.rep cc rz) N setup gs = .ok out := by
  induction gs with
  | nil => exact ⟨[], rfl⟩
  | cons g gs ih =>
    obtain ⟨b, hb⟩ := ih (fun g hg => hw g (List.mem_cons_of_mem _ hg))
    by_cases hh : HandledV rz g
    · obtain ⟨a, _, _, _, _, ha, _⟩ := routeGateV_handled_spec cc rz N setup g (hw g (List.mem_cons_self ..)) hh
      exact ⟨a ++ b, (toChainV_cons ..).mpr ⟨a, b, ha, hb, rfl⟩⟩
    · exact ⟨[g] ++ b, (toChainV_cons ..).mpr ⟨[g], b, routeGateV_other hh, hb, rfl⟩⟩

/-- every output gate comes from the routing of some input gate -/
theorem toChainV_mem {v : Variant} {N : Nat} {setup : Setup} {gs out : List Gate}
    (ho : toChainV v N setup gs = .ok out)
    {h : Gate} (hm : h ∈ out) : ∃ g ∈ gs, ∃ a, routeGateV v N setup g = .ok a ∧ h ∈ a := by
  induction gs generalizing out with
  | nil =>
    have : out = [] := toChainV_nil ho
    simp [this] at hm
  | cons g gs ih =>
    obtain ⟨a, b, ha, hb, rfl⟩ := (toChainV_cons ..).mp ho
    rcases List.mem_append.mp hm with hm | hm
    · exact ⟨g, List.mem_cons_self .., a, ha, hm⟩
    · obtain ⟨g', hg', a', ha', hm'⟩ := ih hb hm
      exact ⟨g', List.mem_cons_of_mem _ hg', a', ha', hm'⟩

/-- everything emitted for a handled gate is itself a handled-name gate (a SWAP or the gate's name) -/
theorem routeGateV_out_handled (cc rz : Bool) (N : Nat) (setup : Setup)
    (g : Gate) (hw : WellFormedV rz N g) (hh : HandledV rz g) (a : List Gate) (ha : routeGateV (.rep cc rz) N setup g = .ok a) :
    ∀ h ∈ a, HandledV rz h := by
  obtain ⟨out, S, G, x, y, h1, -, -, -, -, hr, hn, -⟩ := routeGateV_handled_spec cc rz N setup g hw hh
  rw [h1] at ha; cases ha
  intro h hm
  rcases hr.mem hm with rfl | ⟨p, -, rfl⟩
  · unfold HandledV Handled at hh ⊢; rw [hn]; exact hh
  · exact Or.inl (Or.inr rfl)

/-- unhandled gates come out unchanged, in order, and nothing else unhandled is emitted -/
theorem toChainV_unhandled_order (cc rz : Bool) (N : Nat) (setup : Setup)
    (gs : List Gate) (hw : ∀ g ∈ gs, WellFormedV rz N g) (out : List Gate) (ho : toChainV (.rep cc rz) N setup gs = .ok out) :
    out.filter (fun h => !decide (HandledV rz h)) = gs.filter (fun h => !decide (HandledV rz h)) := by
  induction gs generalizing out with
  | nil =>
    have : out = [] := toChainV_nil ho
    simp [this]
  | cons g gs ih =>
    obtain ⟨a, b, ha, hb, rfl⟩ := (toChainV_cons ..).mp ho
    have := ih (fun g hg => hw g (List.mem_cons_of_mem _ hg)) b hb
    rw [List.filter_append, this]
    by_cases hh : HandledV rz g
    · have hall := routeGateV_out_handled cc rz N setup g (hw g (List.mem_cons_self ..)) hh a ha
      have : a.filter (fun h => !decide (HandledV rz h)) = [] := by
        rw [List.filter_eq_nil_iff]; intro h hm; simp [hall h hm]
      simp [this, hh]
    · rw [routeGateV_other hh] at ha; cases ha
      simp [hh]

/-! ## the classical condition only matters for gates that carry one -/

theorem mkCtl_extra (nm : GName) (x : Nat) (b : Bool) (lo hi : Nat) : (mkCtl nm x b lo hi).extra = x := by
  cases b <;> rfl

theorem mkSwp_extra (nm : GName) (a x lo hi : Nat) : (mkSwp nm a x lo hi).extra = x := rfl

theorem mkOrd_false (nm : GName) (a x : Nat) : mkOrd nm a x false = mkSwp nm a x := by
  funext lo hi; rfl

theorem mkOrd_extra (nm : GName) (a x : Nat) (fl : Bool) (lo hi : Nat) : (mkOrd nm a x fl lo hi).extra = x := by
  cases fl <;> rfl

/-- a gate without a classical condition is routed identically whether or not conditions are kept -/
theorem routeGateV_cc_irrelevant (cc rz : Bool) (N : Nat) (setup : Setup) (g : Gate) (hx : g.extra = 0) :
    routeGateV (.rep cc rz) N setup g = routeGateV (.rep false rz) N setup g := by
  cases cc
  · rfl
  · have hc : (Variant.rep true rz).cond g = (Variant.rep false rz).cond g := by simp [rep_cond, hx]
    have hre : ∀ e j h, h.extra = 0 → reidxCtl1 (.rep true rz) N e j h = reidxCtl1 (.rep false rz) N e j h := by
      intro e j h hh
      simp [reidxCtl1, Variant.cond, hh, lowIdx, Variant.rep]
    have hrs : ∀ e j h, h.extra = 0 → reidxSwp1 (.rep true rz) N e j h = reidxSwp1 (.rep false rz) N e j h := by
      intro e j h hh
      simp [reidxSwp1, Variant.cond, hh, lowIdx, Variant.rep]
    have hfrom : ∀ (f f' : Nat → Gate → Gate) (l : List Gate) (j : Nat),
        (∀ j h, h ∈ l → f j h = f' j h) → reidxFrom f j l = reidxFrom f' j l := by
      intro f f' l
      induction l with
      | nil => intros; rfl
      | cons h l ih =>
        intro j hf
        simp only [reidxFrom]
        rw [hf j h (List.mem_cons_self ..), ih (j + 1) (fun j h hm => hf j h (List.mem_cons_of_mem _ hm))]
    have hloop : ∀ (mkA mkB : Nat → Nat → Gate) (s e fuel i : Nat), (∀ a b, (mkA a b).extra = 0) →
        (∀ a b, (mkB a b).extra = 0) → ∀ h ∈ loop mkA mkB s e fuel i, h.extra = 0 := by
      intro mkA mkB s e fuel
      induction fuel with
      | zero => intro i _ _ h hm; simp [loop] at hm
      | succ f ih =>
        intro i hA hB h hm
        rw [loop] at hm
        split at hm
        · split at hm
          · rcases List.mem_cons.mp hm with rfl | hm
            · exact hA _ _
            · exact ih _ hA hB h hm
          · split at hm
            · simp only [List.mem_cons] at hm
              rcases hm with rfl | rfl | rfl | hm
              · rfl
              · exact hB _ _
              · rfl
              · exact ih _ hA hB h hm
            · simp only [List.mem_cons] at hm
              rcases hm with rfl | rfl | hm
              · rfl
              · rfl
              · exact ih _ hA hB h hm
        · simp at hm
    have hctl : ∀ c t, routeCtl (.rep true rz) N setup g c t = routeCtl (.rep false rz) N setup g c t := by
      intro c t
      simp only [routeCtl, hc, rep_roleFix]
      split
      · rfl
      · split
        · congr 1
          apply hfrom
          intro j h hm
          refine hre _ j h (hloop _ _ _ _ _ _ ?_ ?_ h hm) <;>
            (intro a b; rw [mkCtl_extra]; simp [rep_cond])
        · rfl
    have hswp : ∀ t0 t1, routeSwp (.rep true rz) N setup g t0 t1 = routeSwp (.rep false rz) N setup g t0 t1 := by
      intro t0 t1
      simp only [routeSwp, hc, rep_argFix, rep_rzFix]
      split
      · rfl
      · apply hfrom
        intro j h hm
        refine hrs _ j h (hloop _ _ _ _ _ _ ?_ ?_ h hm) <;>
          (intro a b; rw [mkOrd_extra]; simp [rep_cond])
    unfold routeGateV
    rcases hT : g.targets with _ | ⟨t0, _ | ⟨t1, l⟩⟩ <;> rcases hC : g.controls with _ | ⟨c, l'⟩ <;>
      simp only [hctl, hswp, rep_rzFix, rep_measFix] <;> rfl

/-- a gate that is not an ordered two-target gate (RZX) is routed identically whether or not such
gates are routed -/
theorem routeGateV_rz_irrelevant (cc rz : Bool) (N : Nat) (setup : Setup) (g : Gate) (ho : g.name.isOrd = false) :
    routeGateV (.rep cc rz) N setup g = routeGateV (.rep cc false) N setup g := by
  have hswp : ∀ t0 t1, routeSwp (.rep cc rz) N setup g t0 t1 = routeSwp (.rep cc false) N setup g t0 t1 := by
    intro t0 t1
    have hre : reidxSwp1 (.rep cc rz) N = reidxSwp1 (.rep cc false) N := by
      funext e j h; rfl
    simp only [routeSwp, rep_argFix, rep_rzFix, ho, Bool.and_false, Bool.false_and, rep_cond, hre]
  have hctl : ∀ c t, routeCtl (.rep cc rz) N setup g c t = routeCtl (.rep cc false) N setup g c t := by
    intro c t
    have hre : reidxCtl1 (.rep cc rz) N = reidxCtl1 (.rep cc false) N := by
      funext e j h; rfl
    simp only [routeCtl, rep_roleFix, rep_cond, hre]
  unfold routeGateV
  rcases hT : g.targets with _ | ⟨t0, _ | ⟨t1, l⟩⟩ <;> rcases hC : g.controls with _ | ⟨c, l'⟩ <;>
    simp only [hctl, hswp, rep_rzFix, rep_measFix, ho, Bool.and_false] <;> rfl

theorem toChainV_cc_irrelevant (cc rz : Bool) (N : Nat) (setup : Setup) (gs : List Gate)
    (hx : ∀ g ∈ gs, g.extra = 0) : toChainV (.rep cc rz) N setup gs = toChainV (.rep false rz) N setup gs := by
  induction gs with
  | nil => rfl
  | cons g gs ih =>
    simp only [toChainV]
    rw [routeGateV_cc_irrelevant cc rz N setup g (hx g (List.mem_cons_self ..)),
      ih (fun g hg => hx g (List.mem_cons_of_mem _ hg))]

theorem toChainV_rz_irrelevant (cc rz : Bool) (N : Nat) (setup : Setup) (gs : List Gate)
    (ho : ∀ g ∈ gs, g.name.isOrd = false) : toChainV (.rep cc rz) N setup gs = toChainV (.rep cc false) N setup gs := by
  induction gs with
  | nil => rfl
  | cons g gs ih =>
    simp only [toChainV]
    rw [routeGateV_rz_irrelevant cc rz N setup g (ho g (List.mem_cons_self ..)),
      ih (fun g hg => ho g (List.mem_cons_of_mem _ hg))]

/-! ## `adjacent_gates` is the open-chain router restricted to handled gates -/

theorem adjGate_eq_routeGateV (cc rz : Bool) (N : Nat) (g : Gate) (hh : Handled g) :
    adjGateV (.rep cc rz) g = routeGateV (.rep cc rz) N .linear g := by
  rcases hh with hnm | hnm
  · cases hT : g.targets <;> cases hC : g.controls <;>
      simp [adjGateV, routeGateV, hnm, hT, hC, routeCtl]
  · have := isCtl_false_of_isSwp hnm
    rcases hT : g.targets with _ | ⟨t0, _ | ⟨t1, l⟩⟩ <;>
      simp [adjGateV, routeGateV, hnm, this, hT, routeSwp, isOrd_false_of_isSwp hnm, mkOrd_false]

theorem not_isMeas_of_handled {g : Gate} (hh : Handled g) : isMeas g = false := by
  unfold Handled at hh
  unfold isMeas
  cases hn : g.name <;> simp_all [GName.isCtl, GName.isSwp]

theorem adjLoop_eq_toChainV (cc rz : Bool) (N : Nat) (gs : List Gate) (hh : ∀ g ∈ gs, Handled g) :
    adjLoopV (.rep cc rz) gs = toChainV (.rep cc rz) N .linear gs := by
  induction gs with
  | nil => rfl
  | cons g gs ih =>
    have h1 := adjGate_eq_routeGateV cc rz N g (hh g (List.mem_cons_self ..))
    have h2 := ih (fun g hg => hh g (List.mem_cons_of_mem _ hg))
    simp only [adjLoopV, toChainV] at h1 h2 ⊢
    rw [h1, h2]
    cases routeGateV (Variant.rep cc rz) N Setup.linear g <;> cases toChainV (Variant.rep cc rz) N Setup.linear gs <;> rfl

/-! ## instances for `routeGate` / `toChain` (`Variant.fixed`) and the two documented setups -/

theorem routeGate_ctl {N : Nat} {setup : Setup} {g : Gate} {c t : Nat} (hnm : g.name.isCtl = true)
    (hC : g.controls = [c]) (hT : g.targets = [t]) :
    routeGate N setup g = routeCtl .fixed N setup g c t := routeGateV_ctl (cc := false) (rz := false) hnm hC hT

theorem routeGate_swp {N : Nat} {setup : Setup} {g : Gate} {t0 t1 : Nat} (hnm : g.name.isSwp = true)
    (hT : g.targets = [t0, t1]) :
    routeGate N setup g = .ok (routeSwp .fixed N setup g t0 t1) := routeGateV_swp (cc := false) (rz := false) hnm hT

theorem routeGate_other {N : Nat} {setup : Setup} {g : Gate} (h : ¬ Handled g) :
    routeGate N setup g = .ok [g] := routeGateV_other (cc := false) (rz := false) (fun hv => h ((handledV_false g).mp hv))

theorem routeGate_handled_spec (N : Nat) (setup : Setup) (hs : setup = .linear ∨ setup = .circular)
    (g : Gate) (hw : WellFormed N g) (hh : Handled g) :
    ∃ out S G a b, routeGate N setup g = .ok out ∧ g.qubits = [a, b] ∧ a ≠ b ∧ a < N ∧ b < N ∧
      Routed setup N a b out S G ∧ G.name = g.name ∧
      (G.qubits = [track S a, track S b] ∨ G.qubits = [track S b, track S a]) := by
  obtain ⟨out, S, G, a, b, h1, h2, h3, h4, h5, h6, h7, h8, -⟩ := routeGateV_handled_spec false false N setup g
    ((wellFormedV_false N g).mpr hw) ((handledV_false g).mpr hh)
  rw [Setup.eff_of_doc hs] at h6
  exact ⟨out, S, G, a, b, h1, h2, h3, h4, h5, h6, h7, h8⟩

theorem toChain_cons (N : Nat) (setup : Setup) (g : Gate) (gs out : List Gate) :
    toChain N setup (g :: gs) = .ok out ↔
      ∃ a b, routeGate N setup g = .ok a ∧ toChain N setup gs = .ok b ∧ out = a ++ b :=
  toChainV_cons .fixed N setup g gs out

theorem toChain_append (N : Nat) (setup : Setup) (gs₁ gs₂ out : List Gate) :
    toChain N setup (gs₁ ++ gs₂) = .ok out ↔
      ∃ a b, toChain N setup gs₁ = .ok a ∧ toChain N setup gs₂ = .ok b ∧ out = a ++ b :=
  toChainV_append .fixed N setup gs₁ gs₂ out

theorem toChain_concat (N : Nat) (setup : Setup) (gs out : List Gate) :
    toChain N setup gs = .ok out ↔
      ∃ parts : List (List Gate),
        gs.map (routeGate N setup) = parts.map Except.ok ∧ out = parts.flatten :=
  toChainV_concat .fixed N setup gs out

theorem toChain_total (N : Nat) (setup : Setup) (_hs : setup = .linear ∨ setup = .circular)
    (gs : List Gate) (hw : ∀ g ∈ gs, WellFormed N g) : ∃ out, toChain N setup gs = .ok out :=
  toChainV_total false false N setup gs (fun g hg => (wellFormedV_false N g).mpr (hw g hg))

theorem toChain_mem {N : Nat} {setup : Setup} {gs out : List Gate} (ho : toChain N setup gs = .ok out)
    {h : Gate} (hm : h ∈ out) : ∃ g ∈ gs, ∃ a, routeGate N setup g = .ok a ∧ h ∈ a :=
  toChainV_mem (v := .fixed) ho hm

theorem routeGate_out_handled (N : Nat) (setup : Setup) (_hs : setup = .linear ∨ setup = .circular)
    (g : Gate) (hw : WellFormed N g) (hh : Handled g) (a : List Gate) (ha : routeGate N setup g = .ok a) :
    ∀ h ∈ a, Handled h := fun h hm => (handledV_false h).mp
      (routeGateV_out_handled false false N setup g ((wellFormedV_false N g).mpr hw) ((handledV_false g).mpr hh) a ha h hm)

theorem toChain_unhandled_order (N : Nat) (setup : Setup) (_hs : setup = .linear ∨ setup = .circular)
    (gs : List Gate) (hw : ∀ g ∈ gs, WellFormed N g) (out : List Gate) (ho : toChain N setup gs = .ok out) :
    out.filter (fun h => !decide (Handled h)) = gs.filter (fun h => !decide (Handled h)) := by
  have := toChainV_unhandled_order false false N setup gs (fun g hg => (wellFormedV_false N g).mpr (hw g hg)) out ho
  have e : (fun h : Gate => !decide (HandledV false h)) = (fun h => !decide (Handled h)) := by
    funext h; simp [handledV_false]
  rwa [e] at this

theorem adjGate_eq_routeGate (N : Nat) (g : Gate) (hh : Handled g) :
    adjGateV .fixed g = routeGate N .linear g := adjGate_eq_routeGateV false false N g hh

theorem adjLoop_eq_toChain (N : Nat) (gs : List Gate) (hh : ∀ g ∈ gs, Handled g) :
    adjLoopV .fixed gs = toChain N .linear gs := adjLoop_eq_toChainV false false N gs hh

end QipVerif.Route
