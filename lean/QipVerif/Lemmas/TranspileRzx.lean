import QipVerif.Lemmas.TranspileTop
/-!
# C13: the router that also routes RZX (`fixes/C13-3.patch`)

`transpileVR tables pre rz …` (`Model/Transpile.lean`) is `transpile` with the router given by `rz`.

* `rz = false`: it is the model the other lemma files are about (`transpileVR_false`);
* a circuit of the class (resolvable library gates — no RZX) is transpiled identically by both routers
  (`transpileVR_eq`, `transpileDR_eq`), so every theorem about `Gen.transpile` / `transpileD` holds for
  the current source whatever its router;
* with `rz = true` and RZX admitted to the class (`InClassX`), the gates that reach the native stage are
  library gates on coupled qubits (`stagesR_fixed`), hence so are the gates of the transpiled circuit.
-/
namespace QipVerif.Transpile
open QipVerif QipVerif.Decomp QipVerif.Gen

theorem encName_not_ord (cx : Ctx) (n : GName) : (encName cx n).isOrd = false := by
  cases n <;> rfl

theorem toRouteR_false (cx : Ctx) (g : Gate) : toRouteR false cx g = toRoute cx g := by
  simp [toRouteR, toRoute, encNameR]

theorem toRouteR_of_ne (rz : Bool) (cx : Ctx) (g : Gate) (h : g.name ≠ .RZX) : toRouteR rz cx g = toRoute cx g := by
  have : (g.name == GName.RZX) = false := by simpa using h
  simp [toRouteR, toRoute, encNameR, this]

theorem routeStageR_false (N : Nat) (s : Route.Setup) (gs : List Gate) :
    routeStageR false N s gs = routeStage N s gs := by
  have : gs.map (toRouteR false (ctxOf gs)) = gs.map (toRoute (ctxOf gs)) :=
    List.map_congr_left (fun g _ => toRouteR_false _ g)
  simp only [routeStageR, routeStage, this]
  rfl

/-- without RZX the two routers agree -/
theorem routeStageR_noRzx (rz : Bool) (N : Nat) (s : Route.Setup) (gs : List Gate) (h : ∀ g ∈ gs, g.name ≠ .RZX) :
    routeStageR rz N s gs = routeStage N s gs := by
  have hm : gs.map (toRouteR rz (ctxOf gs)) = gs.map (toRoute (ctxOf gs)) :=
    List.map_congr_left (fun g hg => toRouteR_of_ne rz _ g (h g hg))
  have hirr := Route.toChainV_rz_irrelevant false rz N s (gs.map (toRoute (ctxOf gs))) (by
    intro r hr
    obtain ⟨g, -, rfl⟩ := List.mem_map.mp hr
    exact encName_not_ord _ g.name)
  simp only [routeStageR, routeStage, hm, hirr]
  rfl

theorem topoStageR_noRzx (rz : Bool) (spec : DeviceSpec) (N : Nat) (gs : List Gate) (h : ∀ g ∈ gs, g.name ≠ .RZX) :
    topoStageR rz spec N gs = topoStage spec N gs := by
  unfold topoStageR topoStage
  cases spec.topo with
  | none => rfl
  | some s => simp only [routeStageR_noRzx rz N s gs h]

theorem resolvable_ne_rzx {n : GName} (h : resolvable.contains n = true) : n ≠ .RZX := by
  intro e; subst e; revert h; decide

/-- **a circuit of the class is transpiled identically whichever router the source has** -/
theorem transpileVR_eq (pre rz : Bool) {spec : DeviceSpec} {N : Nat} {gs : List Gate}
    (hn : spec.native.isSome = true) (hg : ∀ g ∈ gs, InClass N g) :
    transpileVR tables pre rz spec N gs = transpileV tables pre spec N gs := by
  unfold transpileVR transpileV
  cases h0 : preStage tables pre spec gs with
  | error e => rfl
  | ok g0 =>
    have hfree : ∀ x ∈ g0, x.name ≠ .RZX := by
      cases pre with
      | false =>
        rw [preStage_false] at h0; cases h0
        exact fun x hx => resolvable_ne_rzx (hg x hx).2
      | true => exact fun x hx => resolvable_ne_rzx (preStage_small hn hg h0 x hx).2.1
    simp only [topoStageR_noRzx rz spec N g0 hfree]

theorem transpileDR_eq (pre guard rz : Bool) {spec specSmall : DeviceSpec} {M N : Nat} {gs : List Gate}
    (hn : spec.native.isSome = true) (hns : specSmall.native.isSome = true) (hg : ∀ g ∈ gs, InClass N g) :
    transpileDR tables pre guard rz spec specSmall M N gs = transpileD tables pre guard spec specSmall M N gs := by
  unfold transpileDR transpileD
  split
  · rfl
  · by_cases hlt : N < M
    · simp only [if_pos hlt, transpileVR_eq pre rz hns hg]
    · simp only [if_neg hlt, transpileVR_eq pre rz hn hg]

/-! ## RZX in the class (`rz = true`) -/

/-- the class with RZX admitted (native on SCQubits; every other device refuses it in the native stage) -/
def InClassX (N : Nat) (g : Gate) : Prop :=
  shapedB N g = true ∧ (resolvable.contains g.name = true ∨ g.name = .RZX)

def SmallX (N : Nat) (g : Gate) : Prop :=
  shapedB N g = true ∧ (resolvable.contains g.name = true ∨ g.name = .RZX) ∧ g.qubits.length ≤ 2

theorem shaped_rzx {N : Nat} {g : Gate} (hs : shapedB N g = true) (hn : g.name = .RZX) :
    ∃ t0 t1, g.controls = [] ∧ g.targets = [t0, t1] ∧ t0 ≠ t1 ∧ t0 < N ∧ t1 < N := by
  obtain ⟨h1, h2, h3⟩ := (shaped_iff N g).mp hs
  rw [hn] at h1
  have h1' : (0, 2) = (g.controls.length, g.targets.length) := by simpa [shapeOf] using h1
  simp only [Prod.mk.injEq] at h1'
  have hc := len0 h1'.1.symm
  obtain ⟨a, b, ht⟩ := len2 h1'.2.symm
  simp only [Gate.qubits, hc, ht, List.nil_append, List.nodup_cons, List.mem_cons,
    List.not_mem_nil, or_false, not_false_eq_true, List.nodup_nil, and_true, forall_eq_or_imp, forall_eq] at h2 h3
  exact ⟨a, b, hc, ht, h2, h3.1, h3.2⟩

theorem preStageX_small {N : Nat} {spec : DeviceSpec} {gs g0 : List Gate} (hn : spec.native.isSome = true)
    (hg : ∀ g ∈ gs, InClassX N g) (h : preStage tables true spec gs = .ok g0) : ∀ x ∈ g0, SmallX N x := by
  unfold preStage at h
  simp only [hn, Bool.and_self, if_true] at h
  split at h
  · rename_i out ho
    cases h
    intro x hx
    obtain ⟨g, hgm, a, ha, hxa⟩ := preExpand_mem ho x hx
    rcases (hg g hgm).2 with hr | hr
    · obtain ⟨h1, h2, h3⟩ := (expandOne_small ⟨(hg g hgm).1, hr⟩ ha x hxa).1
      exact ⟨h1, Or.inl h2, h3⟩
    · obtain ⟨t0, t1, hC, hT, -⟩ := shaped_rzx (hg g hgm).1 hr
      have hq : g.qubits.length = 2 := by simp [Gate.qubits, hC, hT]
      unfold expandOne at ha
      rw [if_neg (by omega)] at ha
      cases ha
      rw [List.mem_singleton.mp hxa]
      exact ⟨(hg g hgm).1, Or.inr hr, by omega⟩
  · cases h

theorem routeStageR_ok {rz : Bool} {N : Nat} {setup : Route.Setup} {gs out : List Gate}
    (ho : routeStageR rz N setup gs = .ok out) :
    ∃ out', Route.toChainV (.rep false rz) N setup (gs.map (toRouteR rz (ctxOf gs))) = .ok out' ∧
      out = out'.map (ofRoute (ctxOf gs)) := by
  unfold routeStageR at ho
  simp only at ho
  split at ho
  · rename_i o h; cases ho; exact ⟨o, h, rfl⟩
  · cases ho

/-- **every gate the routing stage with RZX emits** is a library gate of the class on coupled qubits -/
theorem routeStageR_small (N : Nat) (s : Route.Setup) (hs : s = .linear ∨ s = .circular)
    (g0 g1 : List Gate) (hg : ∀ g ∈ g0, SmallX N g) (ho : routeStageR true N s g0 = .ok g1) :
    ∀ x ∈ g1, InClassX N x ∧ gateCoupledB (some s) N x = true := by
  obtain ⟨out', ho', rfl⟩ := routeStageR_ok ho
  intro x hx
  obtain ⟨r, hr, rfl⟩ := List.mem_map.mp hx
  obtain ⟨g', hg', a, ha, hra⟩ := Route.toChainV_mem ho' hr
  obtain ⟨g, hgm, rfl⟩ := List.mem_map.mp hg'
  obtain ⟨hnm, hang⟩ := mem_ctx hgm
  obtain ⟨hsh, hcl, hlen⟩ := hg g hgm
  by_cases hz : g.name = .RZX
  · -- RZX: swap-in, RZX on the tracked targets in their order, swap-out
    obtain ⟨t0, t1, hC, hT, h01, h0, h1⟩ := shaped_rzx hsh hz
    have hname : (toRouteR true (ctxOf g0) g).name = .RZX := by simp [toRouteR, encNameR, hz]
    have hT' : (toRouteR true (ctxOf g0) g).targets = [t0, t1] := hT
    obtain ⟨S, p, q, h2, h3⟩ := Route.routeSwp_specV false true N s (toRouteR true (ctxOf g0) g) t0 t1 h01 h0 h1
    rw [Route.Setup.eff_of_doc hs] at h2
    rw [Route.routeGateV_ord (by rw [hname]; rfl) hT'] at ha
    cases ha
    rw [h2.out_eq] at hra
    have hS := fun p hp => (⟨(h2.swaps_ok p hp).1, (h2.swaps_ok p hp).2.1⟩ : p.1 < N ∧ p.2 < N)
    have hpq : p ≠ q ∧ p < N ∧ q < N ∧ Route.Adj s N p q := by
      rcases h3 with ⟨rfl, rfl⟩ | ⟨-, rfl, rfl⟩
      · exact ⟨fun h => h01 (Route.track_inj h), Route.track_lt hS h0, Route.track_lt hS h1, h2.adj⟩
      · exact ⟨fun h => h01 (Route.track_inj h).symm, Route.track_lt hS h1, Route.track_lt hS h0, h2.adj.symm⟩
    rcases mem_routed hra with rfl | ⟨p', hp', rfl⟩
    · have hG : (ofRoute (ctxOf g0) ⟨(toRouteR true (ctxOf g0) g).name, [], [p, q], (toRouteR true (ctxOf g0) g).arg,
          (Route.Variant.rep false true).cond (toRouteR true (ctxOf g0) g)⟩).name = .RZX := by
        simp only [ofRoute, hname, decName]
      refine ⟨⟨?_, Or.inr hG⟩, coupled_adj s N _ p q rfl hpq.2.2.2⟩
      rw [shaped_iff]
      refine ⟨by rw [hG]; rfl, by simp [Gate.qubits, ofRoute, hpq.1], ?_⟩
      intro y hy
      simp [Gate.qubits, ofRoute] at hy
      rcases hy with rfl | rfl
      · exact hpq.2.1
      · exact hpq.2.2.1
    · have hsw := h2.swaps_ok p' hp'
      have hnmS : (ofRoute (ctxOf g0) (Route.swapG p'.1 p'.2)).name = .SWAP := rfl
      exact ⟨⟨shaped_swap hsw.1 hsw.2.1 hsw.2.2.1, Or.inl (by rw [hnmS]; decide)⟩,
        coupled_adj s N _ p'.1 p'.2 rfl hsw.2.2.2⟩
  · -- any other gate: both routers agree, the lemmas about the router without RZX apply
    have hres : resolvable.contains g.name = true := by
      rcases hcl with h | h
      · exact h
      · exact absurd h hz
    rw [toRouteR_of_ne true _ g hz] at ha
    rw [Route.routeGateV_rz_irrelevant false true N s _ (encName_not_ord _ g.name)] at ha
    by_cases hh : handledName g.name = true
    · obtain ⟨k1, k2, k3, -⟩ := routeGate_handled_out (ctxOf g0) N s hs g hsh hh hang a ha
      obtain ⟨i, j, hq, hadj⟩ := k3 r hra
      refine ⟨⟨k2 r hra, Or.inl ?_⟩, coupled_adj s N _ i j hq hadj⟩
      rcases k1 r hra with h | h
      · rw [h]; exact hres
      · rw [h]; decide
    · have hnh : ¬ Route.Handled (toRoute (ctxOf g0) g) := fun hc => hh ((handled_toRoute _ g).mp hc)
      rw [show Route.routeGateV (Route.Variant.rep false false) N s (toRoute (ctxOf g0) g) =
        Route.routeGate N s (toRoute (ctxOf g0) g) from rfl, Route.routeGate_other hnh] at ha
      cases ha
      rw [List.mem_singleton.mp hra, ofRoute_toRoute _ g (by simpa using hh) hnm hang]
      refine ⟨⟨hsh, Or.inl hres⟩, coupled_small _ N g ?_⟩
      rw [shaped_arity hsh] at hlen ⊢
      exact unhandled_small hres (by simpa using hh) hlen

theorem routeStageR_total (N : Nat) (s : Route.Setup) (g0 : List Gate) (hsh : ∀ g ∈ g0, SmallX N g) :
    ∃ out, routeStageR true N s g0 = .ok out := by
  have hw : ∀ r ∈ g0.map (toRouteR true (ctxOf g0)), Route.WellFormedV true N r := by
    intro r hr
    obtain ⟨g, hg, rfl⟩ := List.mem_map.mp hr
    by_cases hz : g.name = .RZX
    · have hname : (toRouteR true (ctxOf g0) g).name = .RZX := by simp [toRouteR, encNameR, hz]
      refine ⟨⟨fun h => ?_, fun h => ?_⟩, fun _ _ => shaped_rzx (hsh g hg).1 hz⟩
      · rw [hname] at h; cases h
      · rw [hname] at h; cases h
    · rw [toRouteR_of_ne true _ g hz]
      refine ⟨wellFormed_toRoute _ N g (hsh g hg).1, fun _ h => ?_⟩
      rw [show (toRoute (ctxOf g0) g).name = encName (ctxOf g0) g.name from rfl, encName_not_ord] at h
      cases h
  obtain ⟨out', ho'⟩ := Route.toChainV_total false true N s _ hw
  exact ⟨out'.map (ofRoute (ctxOf g0)), by simp only [routeStageR, ho']⟩

/-- what enters the native stage, repaired composition with the RZX router: in-class and coupled gates -/
theorem stagesR_fixed {spec : DeviceSpec} {N : Nat} {gs out : List Gate} (hn : spec.native.isSome = true)
    (ht : TopoOK spec) (hg : ∀ g ∈ gs, InClassX N g) (h : transpileVR tables true true spec N gs = .ok out) :
    ∃ g1, (∀ x ∈ g1, InClassX N x ∧ gateCoupledB spec.topo N x = true) ∧ nativeStage tables spec g1 = .ok out := by
  unfold transpileVR at h
  split at h
  · cases h
  · rename_i g0 h0
    split at h
    · cases h
    · rename_i g1 h1
      refine ⟨g1, ?_, h⟩
      have hsm := preStageX_small hn hg h0
      unfold topoStageR at h1
      split at h1
      · rename_i hnone
        cases h1
        intro x hx
        rw [hnone]
        exact ⟨⟨(hsm x hx).1, (hsm x hx).2.1⟩, coupled_none N x⟩
      · rename_i s hsome
        have hs := linCirc hsome ht
        obtain ⟨o, ho⟩ := routeStageR_total N s g0 hsm
        rw [ho] at h1
        cases h1
        rw [hsome]
        exact routeStageR_small N s hs g0 _ hsm ho

end QipVerif.Transpile
