import QipVerif.Model.Sched
import Mathlib.Data.List.Perm.Basic
import Mathlib.Data.List.Nodup
/-!
# List scheduling (`find_topological_order`) for an arbitrary re-ordering oracle

Generic facts about `topoLoop` / `topo` over an abstract graph `E : Nat → Nat → Bool` on the
nodes `0..n-1`, an abstract conflict predicate `sh` and an arbitrary oracle `O` that returns a
permutation of the available list in every round:

* `topo_perm`        the cycles, flattened, are a permutation of `0..n-1` (needs acyclicity, given
                     as a rank function `key` that increases along every edge);
* `topo_edge_order`  an edge `i → j` puts `i` in a strictly earlier cycle than `j`;
* `topo_pairwise`    with the constraint switched on, the members of a cycle are pairwise conflict-free;
* `topo_conflict_order` a recorded conflict edge `i → j` puts `i` in a strictly earlier cycle than `j`.
-/
namespace QipVerif.Sched

variable {n : Nat} {E sh : Nat → Nat → Bool}

theorem mem_predsOf {i j : Nat} : i ∈ predsOf n E j ↔ i < n ∧ E i j = true := by
  simp [predsOf, List.mem_filter, List.mem_range]

theorem mem_succsOf {i j : Nat} : j ∈ succsOf n E i ↔ j < n ∧ E i j = true := by
  simp [succsOf, List.mem_filter, List.mem_range]

/-- State invariant of the scheduling loop. -/
structure Inv (n : Nat) (E : Nat → Nat → Bool) (avail done : List Nat) : Prop where
  nodup : (avail ++ done).Nodup
  avail_lt : ∀ j ∈ avail, j < n
  done_lt : ∀ j ∈ done, j < n
  avail_ready : ∀ j ∈ avail, ∀ p, p < n → E p j = true → p ∈ done
  done_ready : ∀ j ∈ done, ∀ p, p < n → E p j = true → p ∈ done
  complete : ∀ j, j < n → (∀ p, p < n → E p j = true → p ∈ done) → j ∈ avail ∨ j ∈ done

theorem Inv.perm {a a' d : List Nat} (h : Inv n E a d) (hp : a.Perm a') : Inv n E a' d where
  nodup := (List.Perm.nodup_iff (hp.append_right d)).mp h.nodup
  avail_lt := fun j hj => h.avail_lt j (hp.mem_iff.mpr hj)
  done_lt := h.done_lt
  avail_ready := fun j hj => h.avail_ready j (hp.mem_iff.mpr hj)
  done_ready := h.done_ready
  complete := fun j hj hr => (h.complete j hj hr).imp (fun x => hp.mem_iff.mp x) id

theorem Inv.start : Inv n E (startNodes n E) [] where
  nodup := by simpa [startNodes] using List.Nodup.filter _ List.nodup_range
  avail_lt := fun j hj => by
    simp only [startNodes, List.mem_filter, List.mem_range] at hj; exact hj.1
  done_lt := fun j hj => by simp at hj
  avail_ready := fun j hj p hp he => by
    simp only [startNodes, List.mem_filter, List.mem_range, List.isEmpty_iff] at hj
    have : p ∈ predsOf n E j := mem_predsOf.mpr ⟨hp, he⟩
    rw [hj.2] at this; simp at this
  done_ready := fun j hj => by simp at hj
  complete := fun j hj hr => by
    left
    simp only [startNodes, List.mem_filter, List.mem_range, List.isEmpty_iff]
    refine ⟨hj, ?_⟩
    apply List.eq_nil_iff_forall_not_mem.mpr
    intro p hp
    have := mem_predsOf.mp hp
    have := hr p this.1 this.2
    simp at this

/-! ## `release` -/

theorem release_fst (todo done avail : List Nat) :
    (release n E todo done avail).1 = todo.reverse ++ done := by
  induction todo generalizing done avail with
  | nil => simp [release]
  | cons node rest ih => simp [release, ih]

theorem mem_released {node : Nat} {done : List Nat} {s : Nat} :
    s ∈ (succsOf n E node).filter (fun s => (predsOf n E s).all (fun p => (node :: done).contains p)) ↔
      s < n ∧ E node s = true ∧ ∀ p, p < n → E p s = true → p = node ∨ p ∈ done := by
  simp only [List.mem_filter, mem_succsOf, List.all_eq_true, mem_predsOf, List.contains_iff_mem,
    List.mem_cons, and_imp, and_assoc]

theorem release_inv (todo done avail : List Nat) (h : Inv n E (todo ++ avail) done) :
    Inv n E (release n E todo done avail).2 (release n E todo done avail).1 := by
  induction todo generalizing done avail with
  | nil => simpa [release] using h
  | cons node rest ih =>
    simp only [release]
    apply ih
    have hnd := h.nodup
    have hnode_avail : node ∈ node :: rest ++ avail := by simp
    have hnode_notdone : node ∉ done := by
      intro hd
      have := (List.nodup_append.mp hnd).2.2 node hnode_avail node hd
      exact this rfl
    -- facts about the newly released nodes
    have hmem : ∀ s, s ∈ (succsOf n E node).filter
        (fun s => (predsOf n E s).all (fun p => (node :: done).contains p)) ↔
        s < n ∧ E node s = true ∧ ∀ p, p < n → E p s = true → p = node ∨ p ∈ done :=
      fun s => mem_released
    have hnew_nodup : ((succsOf n E node).filter
        (fun s => (predsOf n E s).all (fun p => (node :: done).contains p))).Nodup :=
      List.Nodup.filter _ (List.Nodup.filter _ List.nodup_range)
    generalize (succsOf n E node).filter
        (fun s => (predsOf n E s).all (fun p => (node :: done).contains p)) = new at hmem hnew_nodup
    have hnew : ∀ s, s ∈ new →
        s < n ∧ E node s = true ∧ (∀ p, p < n → E p s = true → p = node ∨ p ∈ done) ∧
        s ∉ (node :: rest ++ avail) ∧ s ∉ done := by
      intro s hs
      have ⟨h1, h2, h3⟩ := (hmem s).mp hs
      refine ⟨h1, h2, h3, ?_, ?_⟩
      · intro hmem
        exact hnode_notdone (h.avail_ready s hmem node (h.avail_lt node hnode_avail) h2)
      · intro hmem
        exact hnode_notdone (h.done_ready s hmem node (h.avail_lt node hnode_avail) h2)
    have hnd' : (node :: (rest ++ avail)).Nodup ∧ done.Nodup ∧
        ∀ a ∈ node :: (rest ++ avail), ∀ b ∈ done, a ≠ b := by
      simpa using List.nodup_append.mp hnd
    obtain ⟨hA, hD, hAD⟩ := hnd'
    have hA' := List.nodup_cons.mp hA
    constructor
    · -- nodup
      rw [← List.append_assoc, List.nodup_append]
      refine ⟨?_, ?_, ?_⟩
      · rw [List.nodup_append]
        refine ⟨hA'.2, hnew_nodup, ?_⟩
        intro a ha b hb hab
        subst hab
        exact (hnew a hb).2.2.2.1 (by simp only [List.cons_append, List.mem_cons]; right; exact ha)
      · rw [List.nodup_cons]; exact ⟨hnode_notdone, hD⟩
      · intro a ha b hb hab
        subst hab
        rcases List.mem_append.mp ha with ha | ha
        · rcases List.mem_cons.mp hb with hb | hb
          · subst hb; exact hA'.1 ha
          · exact hAD a (List.mem_cons_of_mem _ ha) a hb rfl
        · rcases List.mem_cons.mp hb with hb | hb
          · subst hb
            exact (hnew a ha).2.2.2.1 (by simp)
          · exact (hnew a ha).2.2.2.2 hb
    · intro j hj
      rw [← List.append_assoc] at hj
      rcases List.mem_append.mp hj with hj | hj
      · exact h.avail_lt j (by simp only [List.cons_append, List.mem_cons]; right; exact hj)
      · exact (hnew j hj).1
    · intro j hj
      rcases List.mem_cons.mp hj with hj | hj
      · subst hj; exact h.avail_lt _ hnode_avail
      · exact h.done_lt j hj
    · intro j hj p hp he
      rw [← List.append_assoc] at hj
      rcases List.mem_append.mp hj with hj | hj
      · exact List.mem_cons_of_mem _
          (h.avail_ready j (by simp only [List.cons_append, List.mem_cons]; right; exact hj) p hp he)
      · rcases (hnew j hj).2.2.1 p hp he with h1 | h1
        · subst h1; simp
        · exact List.mem_cons_of_mem _ h1
    · intro j hj p hp he
      rcases List.mem_cons.mp hj with hj | hj
      · subst hj; exact List.mem_cons_of_mem _ (h.avail_ready _ hnode_avail p hp he)
      · exact List.mem_cons_of_mem _ (h.done_ready j hj p hp he)
    · intro j hj hr
      by_cases hall : ∀ p, p < n → E p j = true → p ∈ done
      · rcases h.complete j hj hall with h1 | h1
        · rcases List.mem_cons.mp (by simpa using h1 : j ∈ node :: (rest ++ avail)) with h2 | h2
          · right; subst h2; simp
          · left; rw [← List.append_assoc]; exact List.mem_append_left _ h2
        · right; exact List.mem_cons_of_mem _ h1
      · left
        rw [← List.append_assoc]
        apply List.mem_append_right
        apply (hmem j).mpr
        refine ⟨hj, ?_, ?_⟩
        · by_contra hne
          apply hall
          intro p hp he
          rcases List.mem_cons.mp (hr p hp he) with h1 | h1
          · subst h1; exact absurd he hne
          · exact h1
        · intro p hp he
          exact List.mem_cons.mp (hr p hp he)

/-! ## the greedy cycle of `_add_dependency_among_commuting_gates` -/

theorem greedy_eq (cyc l : List Nat) : ∃ l', l'.Sublist l ∧ greedy sh cyc l = cyc ++ l' := by
  induction l generalizing cyc with
  | nil => exact ⟨[], List.Sublist.refl _, by simp [greedy]⟩
  | cons x l ih =>
    obtain ⟨l', hs, he⟩ := ih (gstep sh cyc x)
    rw [greedy, he]
    unfold gstep
    split
    · exact ⟨l', hs.cons x, rfl⟩
    · exact ⟨x :: l', hs.cons_cons x, by simp⟩

/-- members of one greedy cycle are pairwise conflict-free -/
theorem greedy_pairwise (cyc l : List Nat) (h : cyc.Pairwise (fun a b => sh b a = false)) :
    (greedy sh cyc l).Pairwise (fun a b => sh b a = false) := by
  induction l generalizing cyc with
  | nil => simpa [greedy] using h
  | cons x l ih =>
    simp only [greedy]
    apply ih
    simp only [gstep]
    split
    · exact h
    · rename_i hany
      rw [List.pairwise_append]
      refine ⟨h, by simp, ?_⟩
      intro a ha b hb
      simp only [List.mem_singleton] at hb
      subst hb
      simp only [List.any_eq_true, not_exists, not_and, Bool.not_eq_true] at hany
      exact hany a ha

/-- the cycle chosen in one round, its conflict edges, and what stays available -/
def roundCycle (sh : Nat → Nat → Bool) (constraint : Bool) (av : List Nat) : List Nat :=
  if constraint then greedy sh [] av else av

def roundConf (sh : Nat → Nat → Bool) (constraint : Bool) (av : List Nat) : Edges :=
  if constraint then conflicts sh [] av else []

def roundRest (sh : Nat → Nat → Bool) (constraint : Bool) (av : List Nat) : List Nat :=
  av.filter (fun i => !(roundCycle sh constraint av).contains i)

theorem roundCycle_sublist (constraint : Bool) (av : List Nat) : (roundCycle sh constraint av).Sublist av := by
  unfold roundCycle
  split
  · obtain ⟨l', hs, he⟩ := greedy_eq (sh := sh) [] av
    simpa [he] using hs
  · exact List.Sublist.refl _

theorem roundCycle_ne_nil (constraint : Bool) (av : List Nat) (h : av ≠ []) : roundCycle sh constraint av ≠ [] := by
  unfold roundCycle
  split
  · cases av with
    | nil => exact absurd rfl h
    | cons x l =>
      obtain ⟨l', _, he⟩ := greedy_eq (sh := sh) (gstep sh [] x) l
      rw [greedy, he]
      simp [gstep]
  · exact h

theorem sublist_filter_perm {l' av : List Nat} (hs : l'.Sublist av) (hnd : av.Nodup) :
    (l' ++ av.filter (fun i => !l'.contains i)).Perm av := by
  rw [List.perm_ext_iff_of_nodup _ hnd]
  · intro a
    simp only [List.mem_append, List.mem_filter, List.contains_eq_mem, Bool.not_eq_true', decide_eq_false_iff_not]
    constructor
    · rintro (h | h)
      · exact hs.subset h
      · exact h.1
    · intro h
      by_cases h' : a ∈ l'
      · exact Or.inl h'
      · exact Or.inr ⟨h, h'⟩
  · rw [List.nodup_append]
    refine ⟨hs.nodup hnd, hnd.filter _, ?_⟩
    intro a ha b hb hab
    subst hab
    simp only [List.mem_filter, List.contains_eq_mem, Bool.not_eq_true', decide_eq_false_iff_not] at hb
    exact hb.2 ha

theorem round_perm (constraint : Bool) (av : List Nat) (hnd : av.Nodup) :
    (roundCycle sh constraint av ++ roundRest sh constraint av).Perm av :=
  sublist_filter_perm (roundCycle_sublist constraint av) hnd

/-- unfolding of one round of the loop -/
theorem topoLoop_succ (constraint : Bool) (O : Nat → List Nat → List Nat) (fuel r : Nat) (avail done : List Nat)
    (h : avail ≠ []) :
    topoLoop n E sh constraint O (fuel + 1) r avail done =
      (roundCycle sh constraint (O r avail) ::
        (topoLoop n E sh constraint O fuel (r + 1)
          (release n E (roundCycle sh constraint (O r avail)) done (roundRest sh constraint (O r avail))).2
          (release n E (roundCycle sh constraint (O r avail)) done (roundRest sh constraint (O r avail))).1).1,
       roundConf sh constraint (O r avail) ++
        (topoLoop n E sh constraint O fuel (r + 1)
          (release n E (roundCycle sh constraint (O r avail)) done (roundRest sh constraint (O r avail))).2
          (release n E (roundCycle sh constraint (O r avail)) done (roundRest sh constraint (O r avail))).1).2) := by
  have : avail.isEmpty = false := by cases avail <;> simp_all
  simp only [topoLoop, this, roundCycle, roundConf, roundRest]
  rfl

theorem topoLoop_nil (constraint : Bool) (O : Nat → List Nat → List Nat) (fuel r : Nat) (done : List Nat) :
    topoLoop n E sh constraint O fuel r [] done = ([], []) := by
  cases fuel <;> simp [topoLoop]

/-- state after one round -/
theorem round_inv (constraint : Bool) {av done : List Nat} (h : Inv n E av done) :
    Inv n E (release n E (roundCycle sh constraint av) done (roundRest sh constraint av)).2
      (release n E (roundCycle sh constraint av) done (roundRest sh constraint av)).1 := by
  apply release_inv
  have hnd : av.Nodup := (List.nodup_append.mp h.nodup).1
  exact h.perm (round_perm constraint av hnd).symm

theorem release_snd_subset (todo done avail : List Nat) :
    ∀ x ∈ avail, x ∈ (release n E todo done avail).2 := by
  induction todo generalizing done avail with
  | nil => intro x hx; simpa [release] using hx
  | cons node rest ih =>
    intro x hx
    simp only [release]
    exact ih _ _ x (List.mem_append_left _ hx)

theorem subset_greedy (cyc l : List Nat) : ∀ x ∈ cyc, x ∈ greedy sh cyc l := by
  obtain ⟨l', _, he⟩ := greedy_eq (sh := sh) cyc l
  intro x hx; rw [he]; exact List.mem_append_left _ hx

/-- a recorded conflict edge `x → y`: `x` is in the cycle, `y` was a candidate, conflicts with `x`
and is not in the cycle -/
theorem conflicts_mem (cyc l : List Nat) : ∀ x y, (x, y) ∈ conflicts sh cyc l →
    x ∈ greedy sh cyc l ∧ y ∈ l ∧ sh y x = true ∧ (y ∉ cyc → l.Nodup → y ∉ greedy sh cyc l) := by
  induction l generalizing cyc with
  | nil => intro x y h; simp [conflicts] at h
  | cons i2 rest ih =>
    intro x y h
    simp only [conflicts, List.mem_append, List.mem_map, List.mem_filter, Prod.mk.injEq] at h
    rcases h with ⟨a, ⟨ha, hsa⟩, rfl, rfl⟩ | h
    · have hg : gstep sh cyc i2 = cyc := by
        simp only [gstep, ite_eq_left_iff, List.any_eq_true, not_exists, not_and, Bool.not_eq_true]
        intro hno; exact absurd hsa (by simp [hno a ha])
      refine ⟨?_, by simp, hsa, ?_⟩
      · rw [greedy]; exact subset_greedy _ _ a (by rw [hg]; exact ha)
      · intro hy hnd
        rw [greedy, hg]
        obtain ⟨l', hs, he⟩ := greedy_eq (sh := sh) cyc rest
        rw [he, List.mem_append]
        rintro (h1 | h1)
        · exact hy h1
        · exact (List.nodup_cons.mp hnd).1 (hs.subset h1)
    · obtain ⟨h1, h2, h3, h4⟩ := ih (gstep sh cyc i2) x y h
      refine ⟨by simpa [greedy] using h1, List.mem_cons_of_mem _ h2, h3, ?_⟩
      intro hy hnd
      simp only [greedy]
      apply h4 _ (List.nodup_cons.mp hnd).2
      intro hmem
      simp only [gstep] at hmem
      split at hmem
      · exact hy hmem
      · rcases List.mem_append.mp hmem with h5 | h5
        · exact hy h5
        · simp only [List.mem_singleton] at h5
          subst h5
          exact (List.nodup_cons.mp hnd).1 h2

/-! ## the loop -/

section loop
variable (O : Nat → List Nat → List Nat) (hO : ∀ r l, (O r l).Perm l) (constraint : Bool)
variable (key : Nat → Nat) (hkey : ∀ i j, i < n → j < n → E i j = true → key i < key j)
include hO

theorem oracle_ne_nil {r : Nat} {avail : List Nat} (h : avail ≠ []) : O r avail ≠ [] := by
  intro h0
  have := (hO r avail).length_eq
  rw [h0] at this
  exact h (List.eq_nil_of_length_eq_zero this.symm)

omit hO in
include hkey in
theorem all_done_of_avail_nil {done : List Nat} (h : Inv n E [] done) : ∀ j, j < n → j ∈ done := by
  intro j
  induction hk : key j using Nat.strongRecOn generalizing j with
  | _ k ih =>
    intro hj
    have := h.complete j hj (fun p hp he => ih (key p) (by rw [← hk]; exact hkey p j hp hj he) p rfl hp)
    simpa using this

include hkey in
/-- **partition**: together with what was already done, the cycles are a permutation of `0..n-1` -/
theorem topoLoop_perm : ∀ fuel r avail done, Inv n E avail done → n ≤ fuel + done.length →
    (done ++ (topoLoop n E sh constraint O fuel r avail done).1.flatten).Perm (List.range n) := by
  intro fuel
  induction fuel with
  | zero =>
    intro r avail done h hf
    simp only [topoLoop, List.flatten_nil, List.append_nil]
    have hD := (List.nodup_append.mp h.nodup).2.1
    exact (List.subperm_of_subset hD (fun x hx => List.mem_range.mpr (h.done_lt x hx))).perm_of_length_le
      (by simpa using hf)
  | succ fuel ih =>
    intro r avail done h hf
    by_cases hav : avail = []
    · subst hav
      rw [topoLoop_nil]
      simp only [List.flatten_nil, List.append_nil]
      have hD := (List.nodup_append.mp h.nodup).2.1
      rw [List.perm_ext_iff_of_nodup hD List.nodup_range]
      intro a
      rw [List.mem_range]
      exact ⟨h.done_lt a, all_done_of_avail_nil key hkey h a⟩
    · rw [topoLoop_succ _ _ _ _ _ _ hav]
      have hav' : Inv n E (O r avail) done := h.perm (hO r avail).symm
      have hI := round_inv (sh := sh) constraint hav'
      have hne := roundCycle_ne_nil (sh := sh) constraint (O r avail) (oracle_ne_nil O hO hav)
      have hpos := List.length_pos_of_ne_nil hne
      have := ih (r + 1) _ _ hI (by rw [release_fst]; simp only [List.length_append, List.length_reverse]; omega)
      simp only [release_fst] at this ⊢
      simp only [List.flatten_cons]
      refine List.Perm.trans ?_ this
      rw [← List.append_assoc]
      apply List.Perm.append_right
      exact List.perm_append_comm.trans ((List.reverse_perm _).symm.append_right done)

/-- **order**: every predecessor of a scheduled node was done before or sits in a strictly earlier cycle -/
theorem topoLoop_edge_order : ∀ fuel r avail done, Inv n E avail done →
    ∀ (b : Nat) (c : List Nat), (topoLoop n E sh constraint O fuel r avail done).1[b]? = some c → ∀ j ∈ c, ∀ i, i < n → E i j = true →
      i ∈ done ∨ ∃ a c', a < b ∧ (topoLoop n E sh constraint O fuel r avail done).1[a]? = some c' ∧ i ∈ c' := by
  intro fuel
  induction fuel with
  | zero => intro r avail done h b c hb; simp [topoLoop] at hb
  | succ fuel ih =>
    intro r avail done h b c hb j hj i hi he
    by_cases hav : avail = []
    · subst hav; rw [topoLoop_nil] at hb; simp at hb
    · rw [topoLoop_succ _ _ _ _ _ _ hav] at hb ⊢
      have hav' : Inv n E (O r avail) done := h.perm (hO r avail).symm
      have hI := round_inv (sh := sh) constraint hav'
      cases b with
      | zero =>
        simp only [List.getElem?_cons_zero, Option.some.injEq] at hb
        subst hb
        left
        exact hav'.avail_ready j ((roundCycle_sublist constraint _).subset hj) i hi he
      | succ b =>
        simp only [List.getElem?_cons_succ] at hb
        rcases ih (r + 1) _ _ hI b c hb j hj i hi he with h1 | ⟨a, c', hab, hc', hic'⟩
        · rw [release_fst] at h1
          rcases List.mem_append.mp h1 with h2 | h2
          · right
            exact ⟨0, _, Nat.succ_pos _, by simp, List.mem_reverse.mp h2⟩
          · left; exact h2
        · right
          exact ⟨a + 1, c', Nat.succ_lt_succ hab, by simpa using hc', hic'⟩

omit hO in
/-- **exclusivity**: with the constraint on, the members of every cycle are pairwise conflict-free -/
theorem topoLoop_pairwise : ∀ fuel r avail done,
    ∀ c ∈ (topoLoop n E sh true O fuel r avail done).1, c.Pairwise (fun a b => sh b a = false) := by
  intro fuel
  induction fuel with
  | zero => intro r avail done c hc; simp [topoLoop] at hc
  | succ fuel ih =>
    intro r avail done c hc
    by_cases hav : avail = []
    · subst hav; rw [topoLoop_nil] at hc; simp at hc
    · rw [topoLoop_succ _ _ _ _ _ _ hav] at hc
      rcases List.mem_cons.mp hc with h1 | h1
      · subst h1
        simpa [roundCycle] using greedy_pairwise (sh := sh) [] (O r avail) List.Pairwise.nil
      · exact ih _ _ _ c h1

include hkey in
/-- a recorded conflict edge `x → y` puts `x` in a strictly earlier cycle than `y` -/
theorem topoLoop_conflict_order : ∀ fuel r avail done, Inv n E avail done → n ≤ fuel + done.length →
    ∀ x y, (x, y) ∈ (topoLoop n E sh constraint O fuel r avail done).2 →
      ∃ (a b : Nat) (ca cb : List Nat), a < b ∧
        (topoLoop n E sh constraint O fuel r avail done).1[a]? = some ca ∧
        (topoLoop n E sh constraint O fuel r avail done).1[b]? = some cb ∧ x ∈ ca ∧ y ∈ cb ∧ sh y x = true := by
  intro fuel
  induction fuel with
  | zero => intro r avail done h hf x y hxy; simp [topoLoop] at hxy
  | succ fuel ih =>
    intro r avail done h hf x y hxy
    by_cases hav : avail = []
    · subst hav; rw [topoLoop_nil] at hxy; simp at hxy
    · have hav' : Inv n E (O r avail) done := h.perm (hO r avail).symm
      have hI := round_inv (sh := sh) constraint hav'
      have hne := roundCycle_ne_nil (sh := sh) constraint (O r avail) (oracle_ne_nil O hO hav)
      have hpos := List.length_pos_of_ne_nil hne
      have hfuel : n ≤ fuel + (release n E (roundCycle sh constraint (O r avail)) done
          (roundRest sh constraint (O r avail))).1.length := by
        rw [release_fst]; simp only [List.length_append, List.length_reverse]; omega
      have hperm := topoLoop_perm (sh := sh) O hO constraint key hkey fuel (r + 1) _ _ hI hfuel
      rw [topoLoop_succ _ _ _ _ _ _ hav] at hxy ⊢
      rcases List.mem_append.mp hxy with h1 | h1
      · -- an edge recorded in this round
        have hnd : (O r avail).Nodup := (List.nodup_append.mp hav'.nodup).1
        cases constraint with
        | false => simp [roundConf] at h1
        | true =>
          simp only [roundConf, if_true] at h1
          obtain ⟨hx, hy, hs, hny⟩ := conflicts_mem (sh := sh) [] (O r avail) x y h1
          have hny' := hny (by simp) hnd
          have hyrest : y ∈ roundRest sh true (O r avail) := by
            simp only [roundRest, roundCycle, if_true, List.mem_filter, List.contains_eq_mem, Bool.not_eq_true',
              decide_eq_false_iff_not]
            exact ⟨hy, hny'⟩
          have hyav := release_snd_subset (n := n) (E := E) (roundCycle sh true (O r avail)) done _ y hyrest
          have hyn : y ∈ List.range n := List.mem_range.mpr (hI.avail_lt y hyav)
          have hynd : y ∉ (release n E (roundCycle sh true (O r avail)) done (roundRest sh true (O r avail))).1 :=
            fun hd => (List.nodup_append.mp hI.nodup).2.2 y hyav y hd rfl
          rcases List.mem_append.mp (hperm.mem_iff.mpr hyn) with h2 | h2
          · exact absurd h2 hynd
          · obtain ⟨cb, hcb, hycb⟩ := List.mem_flatten.mp h2
            obtain ⟨b, hb⟩ := List.mem_iff_getElem?.mp hcb
            exact ⟨0, b + 1, roundCycle sh true (O r avail), cb, Nat.succ_pos _, by simp, by simpa using hb,
              by simpa [roundCycle] using hx, hycb, hs⟩
      · obtain ⟨a, b, ca, cb, hab, hca, hcb, hx, hy, hs⟩ := ih (r + 1) _ _ hI hfuel x y h1
        exact ⟨a + 1, b + 1, ca, cb, Nat.succ_lt_succ hab, by simpa using hca, by simpa using hcb, hx, hy, hs⟩

end loop

/-! ## positions in a cycles list -/

/-- index of the cycle containing `x` (what `gate_cycles_indices[x]` is) -/
def posOf (cs : List (List Nat)) (x : Nat) : Nat := cs.findIdx (fun c => c.contains x)

theorem cycleIndices_eq (n : Nat) (cs : List (List Nat)) : cycleIndices n cs = (List.range n).map (posOf cs) := rfl

theorem posOf_of_mem {cs : List (List Nat)} (hnd : cs.flatten.Nodup) {a : Nat} {c : List Nat} {x : Nat}
    (h : cs[a]? = some c) (hx : x ∈ c) : posOf cs x = a := by
  obtain ⟨ha, hc⟩ := List.getElem?_eq_some_iff.mp h
  subst hc
  unfold posOf
  rw [List.findIdx_eq ha]
  refine ⟨by simpa using hx, ?_⟩
  intro j hja
  have hdis := (List.nodup_flatten.mp hnd).2
  have := (List.pairwise_iff_getElem.mp hdis) j a (by omega) ha hja
  simp only [List.contains_eq_mem, decide_eq_false_iff_not]
  intro hxj
  exact this hxj hx

theorem exists_pos_of_mem_flatten {cs : List (List Nat)} {x : Nat} (h : x ∈ cs.flatten) :
    ∃ (a : Nat) (c : List Nat), cs[a]? = some c ∧ x ∈ c := by
  obtain ⟨c, hc, hxc⟩ := List.mem_flatten.mp h
  obtain ⟨a, ha⟩ := List.mem_iff_getElem?.mp hc
  exact ⟨a, c, ha, hxc⟩

/-! ## `topo` -/

section topo
variable (O : Nat → List Nat → List Nat) (hO : ∀ r l, (O r l).Perm l) (constraint : Bool)
variable (key : Nat → Nat) (hkey : ∀ i j, i < n → j < n → E i j = true → key i < key j)
include hO hkey

/-- **partition** -/
theorem topo_perm : (topo n E sh constraint O).1.flatten.Perm (List.range n) := by
  have := topoLoop_perm (sh := sh) O hO constraint key hkey n 0 (startNodes n E) [] Inv.start (by simp)
  simpa [topo] using this

theorem topo_nodup : (topo n E sh constraint O).1.flatten.Nodup :=
  (List.Perm.nodup_iff (topo_perm O hO constraint key hkey)).mpr List.nodup_range

theorem topo_mem {x : Nat} (hx : x < n) : x ∈ (topo n E sh constraint O).1.flatten :=
  (topo_perm (sh := sh) O hO constraint key hkey).mem_iff.mpr (List.mem_range.mpr hx)

theorem topo_lt {x : Nat} (hx : x ∈ (topo n E sh constraint O).1.flatten) : x < n :=
  List.mem_range.mp ((topo_perm (sh := sh) O hO constraint key hkey).mem_iff.mp hx)

/-- **order** -/
theorem topo_edge_pos {i j : Nat} (hi : i < n) (hj : j < n) (he : E i j = true) :
    posOf (topo n E sh constraint O).1 i < posOf (topo n E sh constraint O).1 j := by
  have hnd := topo_nodup (sh := sh) O hO constraint key hkey
  obtain ⟨b, c, hb, hjc⟩ := exists_pos_of_mem_flatten (topo_mem (sh := sh) O hO constraint key hkey hj)
  have := topoLoop_edge_order (sh := sh) O hO constraint n 0 (startNodes n E) [] Inv.start b c
    (by simpa [topo] using hb) j hjc i hi he
  rcases this with h1 | ⟨a, c', hab, hc', hic'⟩
  · simp at h1
  · rw [posOf_of_mem hnd hb hjc, posOf_of_mem hnd (by simpa [topo] using hc') hic']
    exact hab

/-- recorded conflict edges go from a strictly earlier cycle to a later one -/
theorem topo_conflict_pos {x y : Nat} (h : (x, y) ∈ (topo n E sh constraint O).2) :
    posOf (topo n E sh constraint O).1 x < posOf (topo n E sh constraint O).1 y ∧ x < n ∧ y < n ∧ sh y x = true := by
  have hnd := topo_nodup (sh := sh) O hO constraint key hkey
  obtain ⟨a, b, ca, cb, hab, hca, hcb, hx, hy, hs⟩ :=
    topoLoop_conflict_order (sh := sh) O hO constraint key hkey n 0 (startNodes n E) [] Inv.start (by simp) x y
      (by simpa [topo] using h)
  have hca' : (topo n E sh constraint O).1[a]? = some ca := by simpa [topo] using hca
  have hcb' : (topo n E sh constraint O).1[b]? = some cb := by simpa [topo] using hcb
  refine ⟨by rw [posOf_of_mem hnd hca' hx, posOf_of_mem hnd hcb' hy]; exact hab, ?_, ?_, hs⟩
  · exact topo_lt (sh := sh) O hO constraint key hkey
      (List.mem_flatten.mpr ⟨ca, List.mem_iff_getElem?.mpr ⟨a, hca'⟩, hx⟩)
  · exact topo_lt (sh := sh) O hO constraint key hkey
      (List.mem_flatten.mpr ⟨cb, List.mem_iff_getElem?.mpr ⟨b, hcb'⟩, hy⟩)

omit hO hkey in
/-- **exclusivity** -/
theorem topo_pairwise : ∀ c ∈ (topo n E sh true O).1, c.Pairwise (fun a b => sh b a = false) := by
  intro c hc
  exact topoLoop_pairwise (sh := sh) O n 0 (startNodes n E) [] c (by simpa [topo] using hc)

end topo

end QipVerif.Sched
