import QipVerif.Lemmas.QasmImportFaithful
import QipVerif.Lemmas.QasmNat
/-!
# User gate definitions: `_custom_gate` as a recursion over the body (C04)

Structural part, no matrices: `customGate` unfolded into named step functions (`leafI`, `oneI`,
`bodyI`), parameter substitution keeps expressions evaluable (`ArgsOk`), and the importer's qubit map
`qB` agrees with the standard's `lookupQ` on formal qubits.
-/
namespace QipVerif.Qasm.Import
open QipVerif.Qasm

/-! ## `customGate` with named steps -/

/-- the importer's qubit map inside a body -/
def qB (ρ : List (Str × BReg)) (a : Str) : BReg := ((ρ.find? (fun e => e.1 == a)).map (·.2)).getD (.inr a)

/-- one body statement after substitution: a built-in / `qelib1.inc` gate, or a nested user gate -/
def leafI (defs : List GateDef) (fuel : Nat) (n : Str) (vs : List Expr) (rs : List BReg) :
    Except Err (List IGate) :=
  if Gen.customChecksRepeat && bregDup rs then .error .value else
  if predefined n then
    match bregsResolved rs with
    | none => .error .value
    | some l => addPredefined n l vs none none
  else customGate defs fuel n vs rs

def oneI (defs : List GateDef) (fuel : Nat) (σ : List (Str × Expr)) (ρ : List (Str × BReg)) :
    GOp → Except Err (List IGate)
  | .barrier _ => .ok []
  | .U a b c x =>
    match evalParams [a.subst σ, b.subst σ, c.subst σ] with
    | .error e => .error e
    | .ok vs => leafI defs fuel cs!"U" vs [qB ρ x]
  | .CX a b => leafI defs fuel cs!"CX" [] [qB ρ a, qB ρ b]
  | .call n ps qs =>
    match evalParams (ps.map (Expr.subst σ)) with
    | .error e => .error e
    | .ok vs => leafI defs fuel n vs (qs.map (qB ρ))

def bodyI (defs : List GateDef) (fuel : Nat) (σ : List (Str × Expr)) (ρ : List (Str × BReg)) :
    List GOp → Except Err (List IGate)
  | [] => .ok []
  | g :: gs =>
    match oneI defs fuel σ ρ g with
    | .error e => .error e
    | .ok a =>
      match bodyI defs fuel σ ρ gs with
      | .error e => .error e
      | .ok b => .ok (a ++ b)

def stepI (defs : List GateDef) (fuel : Nat) (σ : List (Str × Expr)) (ρ : List (Str × BReg))
    (acc : List IGate) (g : GOp) : Except Err (List IGate) :=
  match oneI defs fuel σ ρ g with
  | .error e => .error e
  | .ok l => .ok (acc ++ l)

theorem foldlM_stepI (defs : List GateDef) (fuel : Nat) (σ : List (Str × Expr)) (ρ : List (Str × BReg))
    (body : List GOp) (acc : List IGate) :
    body.foldlM (stepI defs fuel σ ρ) acc =
      match bodyI defs fuel σ ρ body with
      | .ok b => .ok (acc ++ b)
      | .error e => .error e := by
  induction body generalizing acc with
  | nil => simp [List.foldlM, bodyI, pure, Except.pure]
  | cons g gs ih =>
    rw [List.foldlM_cons]
    simp only [stepI, bodyI, bind, Except.bind]
    cases oneI defs fuel σ ρ g with
    | error e => rfl
    | ok l =>
      simp only []
      rw [ih]
      cases bodyI defs fuel σ ρ gs <;> simp

/-- **`customGate` unfolded** -/
theorem customGate_succ (defs : List GateDef) (fuel : Nat) (name : Str) (args : List Expr) (regs : List BReg) :
    customGate defs (fuel + 1) name args regs =
      match defs.find? (fun d => d.name == name) with
      | none => .error .key
      | some d =>
        if ¬ (args.length = d.params.length ∧ regs.length = d.qargs.length) then .error .value else
        match evalParams args with
        | .error e => .error e
        | .ok vals => bodyI defs fuel (d.params.zip vals) (d.qargs.zip regs) d.body := by
  rw [customGate]
  cases hf : defs.find? (fun d => d.name == name) with
  | none => rfl
  | some d =>
    simp only []
    split
    · rfl
    · cases hev : evalParams args with
      | error e => rfl
      | ok vals =>
        simp only []
        have := foldlM_stepI defs fuel (d.params.zip vals) (d.qargs.zip regs) d.body []
        simp only [List.nil_append] at this
        refine Eq.trans ?_ (this.trans ?_)
        · congr 1
        · cases bodyI defs fuel (d.params.zip vals) (d.qargs.zip regs) d.body <;> rfl

/-! ## expressions that stay evaluable under substitution -/

/-- no division by a literal zero, and no divisor that is a bare formal parameter (which a call could
instantiate with a literal zero: Python raises `ZeroDivisionError`) -/
def divSafe : Expr → Bool
  | .div a b => divSafe a && divSafe b &&
      (match b with | .lit s => !pyNumIsZero s | .id _ => false | _ => true)
  | .neg e => divSafe e
  | .fn _ e => divSafe e
  | .add a b | .sub a b | .mul a b | .pow a b => divSafe a && divSafe b
  | _ => true

/-- actual parameters the importer evaluates without an exception -/
structure ArgsOk (ps : List Expr) : Prop where
  sup : ps.all Expr.supported = true
  closed : ps.all (Expr.closedIn []) = true
  div : ∀ e ∈ ps, divZero e = false

theorem ArgsOk.eval {ps : List Expr} (h : ArgsOk ps) : evalParams ps = .ok ps :=
  evalParams_ok ps h.sup h.closed h.div

theorem find_zip_mem {β : Type} (p : Str → Bool) : ∀ (ks : List Str) (vs : List β) (x : Str × β),
    (ks.zip vs).find? (fun e => p e.1) = some x → x.2 ∈ vs := by
  intro ks vs x h
  have := List.mem_of_find?_eq_some h
  exact (List.of_mem_zip this).2

theorem supported_subst (σ : List (Str × Expr)) (hσ : ∀ x ∈ σ, x.2.supported = true) (e : Expr)
    (h : e.supported = true) : (e.subst σ).supported = true := by
  induction e with
  | id s =>
    simp only [Expr.subst]
    cases hf : σ.find? (fun e => e.1 == s) with
    | none => rfl
    | some x => exact hσ x (List.mem_of_find?_eq_some hf)
  | pow a b => simp [Expr.supported] at h
  | fn f e => simp [Expr.supported] at h
  | neg e ih => simpa [Expr.subst, Expr.supported] using ih (by simpa [Expr.supported] using h)
  | add a b iha ihb | sub a b iha ihb | mul a b iha ihb | div a b iha ihb =>
    simp only [Expr.supported, Bool.and_eq_true] at h
    simp [Expr.subst, Expr.supported, iha h.1, ihb h.2]
  | _ => rfl

theorem closed_subst (params : List Str) (ps : List Expr) (hl : params.length = ps.length)
    (hc : ∀ x ∈ ps, x.closedIn [] = true) (e : Expr) (h : e.closedIn params = true) :
    (e.subst (params.zip ps)).closedIn [] = true := by
  induction e with
  | id s =>
    simp only [Expr.closedIn, List.contains_eq_mem, decide_eq_true_eq] at h
    simp only [Expr.subst]
    have hs := find_zip_isSome s params ps (by simpa using h) (Nat.le_of_eq hl)
    cases hf : (params.zip ps).find? (fun e => e.1 == s) with
    | none => rw [hf] at hs; cases hs
    | some x => exact hc _ (find_zip_mem (fun k => k == s) params ps x hf)
  | neg e ih => simpa [Expr.subst, Expr.closedIn] using ih (by simpa [Expr.closedIn] using h)
  | fn f e ih => simpa [Expr.subst, Expr.closedIn] using ih (by simpa [Expr.closedIn] using h)
  | add a b iha ihb | sub a b iha ihb | mul a b iha ihb | div a b iha ihb | pow a b iha ihb =>
    simp only [Expr.closedIn, Bool.and_eq_true] at h
    simp [Expr.subst, Expr.closedIn, iha h.1, ihb h.2]
  | _ => rfl

theorem divZero_subst (σ : List (Str × Expr)) (hσ : ∀ x ∈ σ, divZero x.2 = false) (e : Expr)
    (h : divSafe e = true) : divZero (e.subst σ) = false := by
  induction e with
  | id s =>
    simp only [Expr.subst]
    cases hf : σ.find? (fun e => e.1 == s) with
    | none => rfl
    | some x => exact hσ x (List.mem_of_find?_eq_some hf)
  | neg e ih => simpa [Expr.subst, divZero] using ih (by simpa [divSafe] using h)
  | fn f e ih => simpa [Expr.subst, divZero] using ih (by simpa [divSafe] using h)
  | add a b iha ihb | sub a b iha ihb | mul a b iha ihb | pow a b iha ihb =>
    simp only [divSafe, Bool.and_eq_true] at h
    simp [Expr.subst, divZero, iha h.1, ihb h.2]
  | div a b iha ihb =>
    simp only [divSafe, Bool.and_eq_true] at h
    obtain ⟨⟨ha, hb⟩, hlit⟩ := h
    simp only [Expr.subst, divZero, iha ha, ihb hb, Bool.false_or]
    cases b with
    | lit s => simpa [Expr.subst] using hlit
    | id s => simp at hlit
    | _ => rfl
  | _ => rfl

/-- parameter expressions of a body statement -/
def gopParams : GOp → List Expr
  | .U a b c _ => [a, b, c]
  | .call _ ps _ => ps
  | _ => []

/-- the substituted parameters of a body statement are evaluable -/
theorem argsOk_subst (params : List Str) (ps : List Expr) (hl : params.length = ps.length) (hps : ArgsOk ps)
    (es : List Expr) (hsup : es.all Expr.supported = true) (hcl : es.all (Expr.closedIn params) = true)
    (hdiv : ∀ e ∈ es, divSafe e = true) : ArgsOk (es.map (Expr.subst (params.zip ps))) := by
  have hσs : ∀ x ∈ params.zip ps, x.2.supported = true := fun x hx =>
    List.all_eq_true.mp hps.sup _ (List.of_mem_zip hx).2
  have hσd : ∀ x ∈ params.zip ps, divZero x.2 = false := fun x hx => hps.div _ (List.of_mem_zip hx).2
  refine ⟨?_, ?_, ?_⟩
  · rw [List.all_eq_true]
    intro e he
    obtain ⟨e0, h0, rfl⟩ := List.mem_map.mp he
    exact supported_subst _ hσs e0 (List.all_eq_true.mp hsup e0 h0)
  · rw [List.all_eq_true]
    intro e he
    obtain ⟨e0, h0, rfl⟩ := List.mem_map.mp he
    exact closed_subst params ps hl (fun x hx => List.all_eq_true.mp hps.closed x hx) e0
      (List.all_eq_true.mp hcl e0 h0)
  · intro e he
    obtain ⟨e0, h0, rfl⟩ := List.mem_map.mp he
    exact divZero_subst _ hσd e0 (hdiv e0 h0)

/-! ## the two qubit maps agree -/

theorem qB_eq (qargs : List Str) (regs : List Nat) (hl : regs.length = qargs.length) (x : Str)
    (hx : x ∈ qargs) : qB (qargs.zip (regs.map Sum.inl)) x = .inl (lookupQ (qargs.zip regs) x) := by
  have hs := find_zip_isSome x qargs regs (by simpa using hx) (Nat.le_of_eq hl.symm)
  have hm := find_zip_map (Sum.inl : Nat → BReg) (fun k => k == x) qargs regs
  simp only [qB, lookupQ]
  rw [hm]
  cases hf : (qargs.zip regs).find? (fun e => e.1 == x) with
  | none => rw [hf] at hs; cases hs
  | some y => rfl

theorem lookupQ_cons_ne (a : Str) (r : Nat) (qargs : List Str) (regs : List Nat) (x : Str) (h : (a == x) = false) :
    lookupQ ((a, r) :: qargs.zip regs) x = lookupQ (qargs.zip regs) x := by
  simp [lookupQ, List.find?_cons, h]

theorem lookupQ_mem : ∀ (qargs : List Str) (regs : List Nat), regs.length = qargs.length → ∀ x ∈ qargs,
    lookupQ (qargs.zip regs) x ∈ regs := by
  intro qargs
  induction qargs with
  | nil => intro regs _ x hx; cases hx
  | cons a as ih =>
    intro regs hl x hx
    cases regs with
    | nil => simp at hl
    | cons r rs =>
      by_cases hax : (a == x) = true
      · simp [lookupQ, List.find?_cons, hax]
      · have hax' : (a == x) = false := by simpa using hax
        rw [List.zip_cons_cons, lookupQ_cons_ne a r as rs x hax']
        have hx' : x ∈ as := by
          rcases List.mem_cons.mp hx with rfl | h
          · simp at hax
          · exact h
        exact List.mem_cons_of_mem _ (ih rs (by simpa using hl) x hx')

theorem lookupQ_inj : ∀ (qargs : List Str) (regs : List Nat), regs.length = qargs.length → regs.Nodup →
    ∀ x ∈ qargs, ∀ y ∈ qargs, lookupQ (qargs.zip regs) x = lookupQ (qargs.zip regs) y → x = y := by
  intro qargs
  induction qargs with
  | nil => intro regs _ _ x hx; cases hx
  | cons a as ih =>
    intro regs hl hn x hx y hy hxy
    cases regs with
    | nil => simp at hl
    | cons r rs =>
      have hl' : rs.length = as.length := by simpa using hl
      have hn' := List.nodup_cons.mp hn
      by_cases hax : (a == x) = true
      · by_cases hay : (a == y) = true
        · have h1 : a = x := by simpa using hax
          have h2 : a = y := by simpa using hay
          exact h1.symm.trans h2
        · have hay' : (a == y) = false := by simpa using hay
          have hy' : y ∈ as := by
            rcases List.mem_cons.mp hy with rfl | h
            · simp at hay
            · exact h
          rw [List.zip_cons_cons, lookupQ_cons_ne a r as rs y hay'] at hxy
          have : lookupQ ((a, r) :: as.zip rs) x = r := by simp [lookupQ, List.find?_cons, hax]
          rw [this] at hxy
          exact absurd (hxy ▸ lookupQ_mem as rs hl' y hy') hn'.1
      · have hax' : (a == x) = false := by simpa using hax
        have hx' : x ∈ as := by
          rcases List.mem_cons.mp hx with rfl | h
          · simp at hax
          · exact h
        by_cases hay : (a == y) = true
        · rw [List.zip_cons_cons, lookupQ_cons_ne a r as rs x hax'] at hxy
          have : lookupQ ((a, r) :: as.zip rs) y = r := by simp [lookupQ, List.find?_cons, hay]
          rw [this] at hxy
          exact absurd (hxy ▸ lookupQ_mem as rs hl' x hx') hn'.1
        · have hay' : (a == y) = false := by simpa using hay
          have hy' : y ∈ as := by
            rcases List.mem_cons.mp hy with rfl | h
            · simp at hay
            · exact h
          rw [List.zip_cons_cons, lookupQ_cons_ne a r as rs x hax', lookupQ_cons_ne a r as rs y hay'] at hxy
          exact ih rs hl' hn'.2 x hx' y hy' hxy

/-- the images of distinct formal qubits are distinct qubits of the call -/
theorem lookupQ_map_nodup (qargs : List Str) (regs : List Nat) (hl : regs.length = qargs.length)
    (hn : regs.Nodup) : ∀ qs : List Str, (∀ x ∈ qs, x ∈ qargs) → qs.Nodup →
    (qs.map (lookupQ (qargs.zip regs))).Nodup := by
  intro qs
  induction qs with
  | nil => intro _ _; exact List.nodup_nil
  | cons x xs ih =>
    intro hsub hnd
    have hnd' := List.nodup_cons.mp hnd
    rw [List.map_cons, List.nodup_cons]
    refine ⟨?_, ih (fun y hy => hsub y (by simp [hy])) hnd'.2⟩
    intro hmem
    obtain ⟨y, hy, hxy⟩ := List.mem_map.mp hmem
    have := lookupQ_inj qargs regs hl hn y (hsub y (by simp [hy])) x (hsub x (by simp)) hxy
    exact hnd'.1 (this ▸ hy)

theorem bregsResolved_inl (l : List Nat) : bregsResolved (l.map Sum.inl) = some l := by
  induction l with
  | nil => rfl
  | cons a as ih => simp [bregsResolved, ih]

theorem breg_beq (a x : Nat) : ((Sum.inl a : BReg) == Sum.inl x) = (a == x) := rfl

theorem contains_inl (a : Nat) : ∀ l : List Nat, (l.map (Sum.inl : Nat → BReg)).contains (Sum.inl a) = l.contains a := by
  intro l
  induction l with
  | nil => rfl
  | cons x xs ih =>
    simp only [List.map_cons, List.contains_cons, ih, breg_beq]

theorem bregDup_inl (l : List Nat) (h : l.Nodup) : bregDup (l.map Sum.inl) = false := by
  induction l with
  | nil => rfl
  | cons a as ih =>
    have hn := List.nodup_cons.mp h
    simp only [List.map_cons, bregDup, ih hn.2, Bool.or_false, contains_inl]
    simpa using hn.1

theorem map_qB (qargs : List Str) (regs : List Nat) (hl : regs.length = qargs.length) (qs : List Str)
    (hsub : ∀ x ∈ qs, x ∈ qargs) :
    qs.map (qB (qargs.zip (regs.map Sum.inl))) = (qs.map (lookupQ (qargs.zip regs))).map Sum.inl := by
  rw [List.map_map]
  apply List.map_congr_left
  intro x hx
  exact qB_eq qargs regs hl x (hsub x hx)

end QipVerif.Qasm.Import
