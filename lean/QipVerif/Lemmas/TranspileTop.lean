import QipVerif.Lemmas.TranspileConv
import QipVerif.Lemmas.TranspileStay
import QipVerif.Props.C03
import QipVerif.Gen.DeviceTables
/-!
# C13: the stages of `transpile` composed

Table facts about the regenerated rule tables (`gateRule_ok`, `basisRule_ok`), shaped gates stay
shaped through `resolve_gates` (`resolve_shaped`), the pre-decomposition, the class of circuits
that reach the router, coupling through routing + decomposition (`stages_coupled`), the output
alphabet (`stages_names`) and refusal (`stages_refuse`).
-/
namespace QipVerif.Transpile
open QipVerif QipVerif.Decomp QipVerif.Gen

/-! ## the regenerated rule tables only address qubits of the rewritten gate, in its shape -/

theorem gateRule_ok (n : GName) (body : List TGate) (h : gateRule n = .templ body) : ruleOk n body = true := by
  cases n <;> simp only [gateRule, reduceCtorEq] at h <;> (cases h; decide)

theorem basisRule_ok (y n : GName) (body : List TGate) (h : basisRule y n = some body) : ruleOk n body = true := by
  cases y <;> cases n <;> simp only [basisRule, reduceCtorEq] at h <;> (cases h; decide)

theorem ruleOk_all {N : Nat} {g : Gate} (hg : shapedB N g = true) {body : List TGate}
    (h : ruleOk g.name body = true) : body.all (tgateOk g.controls.length g.targets.length) = true := by
  have hs := ((shapedB_iff N g).mp hg).1
  unfold ruleOk at h
  rw [hs] at h
  exact h

/-! ## shaped gates stay shaped -/

/-- `h` acts on qubits of `g`, and is a library gate on distinct in-range qubits if `g` is -/
def ShapedRel (N : Nat) (g h : Gate) : Prop := StaysOn g h ∧ (shapedB N g = true → shapedB N h = true)

theorem shaped_marker (N : Nat) (a : Ang) : shapedB N ⟨.GLOBALPHASE, [], [], a⟩ = true := by
  simp [shapedB, shapeOf, Gate.qubits]

/-- a one-qubit gate re-labelled as another one-qubit gate on the same target -/
theorem shaped_retarget {N : Nat} {g : Gate} (hg : shapedB N g = true) (n : GName) (a : Ang)
    (h1 : shapeOf g.name = some (0, 1)) (h2 : shapeOf n = some (0, 1)) :
    shapedB N ⟨n, g.targets, [], a⟩ = true := by
  obtain ⟨hs, hn, hr⟩ := (shapedB_iff N g).mp hg
  rw [h1] at hs
  simp only [Option.some.injEq, Prod.mk.injEq] at hs
  have hc : g.controls = [] := List.eq_nil_of_length_eq_zero hs.1.symm
  rw [shapedB_iff]
  simp only [Gate.qubits, hc, List.nil_append, List.length_nil] at hn hr ⊢
  exact ⟨by rw [h2, ← hs.2], hn, hr⟩

theorem shapedRel (N : Nat) : RuleRel tables (ShapedRel N) where
  refl := fun _ => ⟨fun _ hq => hq, id⟩
  trans := fun _ _ _ h1 h2 => ⟨fun q hq => h1.1 q (h2.1 q hq), fun h => h2.2 (h1.2 h)⟩
  pauli := by
    intro g
    have st := (staysOn_rel tables).pauli g
    refine ⟨⟨st.1, ?_⟩, fun m hm => ⟨st.2 m hm, ?_⟩⟩
    · intro hg
      rcases pauliSub_cases g with ⟨_, h2⟩ | ⟨hx, _, n, hn, h2⟩
      · rw [h2]; exact hg
      · rw [h2]
        apply shaped_retarget hg
        · rcases hx with h | h | h <;> rw [h] <;> rfl
        · rcases hn with h | h | h <;> rw [h] <;> rfl
    · intro _
      rcases pauliSub_cases g with ⟨h1, _⟩ | ⟨_, h1, _⟩
      · rw [h1] at hm; cases hm
      · rw [h1] at hm; rw [List.mem_singleton.mp hm]; exact shaped_marker N _
  gate := by
    intro g body out hr hi h hh
    refine ⟨(staysOn_rel tables).gate g body out hr hi h hh, fun hg => ?_⟩
    obtain ⟨t, ht, hti⟩ := instBody_mem hi h hh
    exact inst_shaped hg ((List.all_eq_true.mp (ruleOk_all hg (gateRule_ok g.name body hr))) t ht) hti
  basis := by
    intro y g body out hr hi h hh
    refine ⟨(staysOn_rel tables).basis y g body out hr hi h hh, fun hg => ?_⟩
    obtain ⟨t, ht, hti⟩ := instBody_mem hi h hh
    exact inst_shaped hg ((List.all_eq_true.mp (ruleOk_all hg (basisRule_ok y g.name body hr))) t ht) hti
  elim := by
    intro b1 g h hh
    refine ⟨(staysOn_rel tables).elim b1 g h hh, fun hg => ?_⟩
    rcases elim1q_cases b1 g h hh with rfl | ⟨hx, n, a, hn, rfl⟩
    · exact hg
    · apply shaped_retarget hg
      · rcases hx with h | h | h <;> rw [h] <;> rfl
      · rcases hn with h | h | h <;> rw [h] <;> rfl

/-- **`resolve_gates` on a circuit of shaped gates**: every output gate is shaped and acts on
qubits of one input gate -/
theorem resolve_shaped {N : Nat} {keep : Bool} {b : BasisSpec} {gs out : List Gate}
    (hg : ∀ g ∈ gs, shapedB N g = true) (h : resolve tables keep b gs = .ok out) :
    ∀ x ∈ out, shapedB N x = true ∧ ∃ g ∈ gs, StaysOn g x := by
  intro x hx
  obtain ⟨g, hgm, hr⟩ := resolve_rel (shapedRel N) h x hx
  exact ⟨hr.2 (hg g hgm), g, hgm, hr.1⟩

/-! ## arity -/

def arity (n : GName) : Nat := match shapeOf n with | some (a, b) => a + b | none => 0

theorem shaped_arity {N : Nat} {g : Gate} (hg : shapedB N g = true) : g.qubits.length = arity g.name := by
  have hs := ((shapedB_iff N g).mp hg).1
  simp [arity, hs, Gate.qubits]

/-- a resolvable gate that is neither routed nor a three-qubit gate acts on at most one qubit -/
theorem unhandled_small {n : GName} (hr : resolvable.contains n = true) (hh : handledName n = false)
    (ha : arity n ≤ 2) : arity n ≤ 1 := by
  revert hr hh ha
  cases n <;> simp [resolvable, handledName, arity, shapeOf]

/-! ## coupling -/

theorem coupledB_adj (s : Route.Setup) (N i j : Nat) : coupledB (some s) N i j = true ↔ Route.Adj s N i j := by
  simp [coupledB, Route.Adj, or_assoc]

theorem coupled_iff (topo : Option Route.Setup) (N : Nat) (h : Gate) : gateCoupledB topo N h = true ↔
    ∀ p ∈ h.qubits, ∀ q ∈ h.qubits, p ≠ q → coupledB topo N p q = true := by
  simp only [gateCoupledB, List.all_eq_true, Bool.or_eq_true, beq_iff_eq]
  constructor
  · intro H p hp q hq hne
    rcases H p hp q hq with h | h
    · exact absurd h hne
    · exact h
  · intro H p hp q hq
    by_cases hpq : p = q
    · exact Or.inl hpq
    · exact Or.inr (H p hp q hq hpq)

theorem coupled_small (topo : Option Route.Setup) (N : Nat) (h : Gate) (hl : h.qubits.length ≤ 1) :
    gateCoupledB topo N h = true := by
  rw [coupled_iff]
  intro p hp q hq hne
  match hq' : h.qubits, hl with
  | [], _ => rw [hq'] at hp; cases hp
  | [x], _ =>
    rw [hq'] at hp hq
    rw [List.mem_singleton.mp hp, List.mem_singleton.mp hq] at hne
    exact absurd rfl hne

theorem coupled_adj (s : Route.Setup) (N : Nat) (h : Gate) (i j : Nat) (hq : h.qubits = [i, j])
    (ha : Route.Adj s N i j) : gateCoupledB (some s) N h = true := by
  rw [coupled_iff, hq]
  intro p hp q hq' hne
  rw [coupledB_adj]
  simp only [List.mem_cons, List.not_mem_nil, or_false] at hp hq'
  rcases hp with rfl | rfl <;> rcases hq' with rfl | rfl
  · exact absurd rfl hne
  · exact ha
  · exact ha.symm
  · exact absurd rfl hne

theorem coupled_none (N : Nat) (h : Gate) : gateCoupledB none N h = true := by
  rw [coupled_iff]; intros; rfl

theorem coupled_stays (topo : Option Route.Setup) (N : Nat) {g h : Gate} (hs : StaysOn g h)
    (hg : gateCoupledB topo N g = true) : gateCoupledB topo N h = true := by
  rw [coupled_iff] at hg ⊢
  exact fun p hp q hq hne => hg p (hs p hp) q (hs q hq) hne

/-! ## the class of circuits that reaches the router -/

/-- a library gate on distinct in-range qubits, resolvable, on at most two qubits -/
def Small (N : Nat) (g : Gate) : Prop :=
  shapedB N g = true ∧ resolvable.contains g.name = true ∧ g.qubits.length ≤ 2

/-- a library gate on distinct in-range qubits with a resolvable name (C03's and C13's input class) -/
def InClass (N : Nat) (g : Gate) : Prop := shapedB N g = true ∧ resolvable.contains g.name = true

/-- whichever way the tree reads a string basis (`Gen.strExact`), `"CNOT"` is: all three rotations, CNOT -/
theorem splitBasis_cnot_any (ex : Bool) :
    ∃ inB, splitBasis (normBasis ex (.str .CNOT)) = .ok ([.RX, .RY, .RZ], [.CNOT], inB) := by
  cases ex <;> exact ⟨_, rfl⟩

theorem splitBasis_strCNOT : ∃ inB, splitBasis cnotBasis = .ok ([.RX, .RY, .RZ], [.CNOT], inB) :=
  splitBasis_cnot_any _

/-- the pre-decomposition of one (in-class) gate yields small gates -/
theorem expandOne_small {N : Nat} {g : Gate} (hg : InClass N g) {a : List Gate}
    (h : expandOne tables g = .ok a) : ∀ x ∈ a, Small N x ∧ StaysOn g x := by
  unfold expandOne at h
  split at h
  · obtain ⟨inB, hsb⟩ := splitBasis_strCNOT
    have hnames := resolve_names_core true cnotBasis [g] a _ _ inB hsb (by simp) (by decide)
      (by decide) (by decide) (by simpa using hg.2) h
    have hsh := resolve_shaped (N := N) (fun x hx => by rw [List.mem_singleton.mp hx]; exact hg.1) h
    intro x hx
    obtain ⟨hxs, g', hg', hst⟩ := hsh x hx
    rw [List.mem_singleton.mp hg'] at hst
    have hn := (List.all_eq_true.mp hnames) x hx
    refine ⟨⟨hxs, ?_, ?_⟩, hst⟩
    · revert hn; cases x.name <;> simp [allowedOk, resolvable]
    · rw [shaped_arity hxs]
      revert hn; cases x.name <;> simp [allowedOk, arity, shapeOf]
  · rename_i hsm
    cases h
    intro x hx
    rw [List.mem_singleton.mp hx]
    exact ⟨⟨hg.1, hg.2, by omega⟩, fun _ hq => hq⟩

theorem preExpand_mem {T : Tables} : ∀ {gs out : List Gate}, preExpand T gs = .ok out →
    ∀ x ∈ out, ∃ g ∈ gs, ∃ a, expandOne T g = .ok a ∧ x ∈ a := by
  intro gs
  induction gs with
  | nil => intro out h; simp [preExpand] at h; subst h; simp
  | cons g gs ih =>
    intro out h
    unfold preExpand at h
    split at h
    · cases h
    · rename_i a ha
      split at h
      · cases h
      · rename_i b hb
        cases h
        intro x hx
        rcases List.mem_append.mp hx with hx | hx
        · exact ⟨g, List.mem_cons_self .., a, ha, hx⟩
        · obtain ⟨g', hg', a', ha', hx'⟩ := ih hb x hx
          exact ⟨g', List.mem_cons_of_mem _ hg', a', ha', hx'⟩

theorem preExpand_sub {T : Tables} : ∀ {gs out : List Gate}, preExpand T gs = .ok out →
    ∀ g ∈ gs, ∃ a, expandOne T g = .ok a ∧ ∀ x ∈ a, x ∈ out := by
  intro gs
  induction gs with
  | nil => intro out _ g hg; cases hg
  | cons g0 gs ih =>
    intro out h g hg
    unfold preExpand at h
    split at h
    · cases h
    · rename_i a ha
      split at h
      · cases h
      · rename_i b hb
        cases h
        rcases List.mem_cons.mp hg with rfl | hg
        · exact ⟨a, ha, fun x hx => List.mem_append_left _ hx⟩
        · obtain ⟨a', ha', hsub⟩ := ih hb g hg
          exact ⟨a', ha', fun x hx => List.mem_append_right _ (hsub x hx)⟩

/-- after the pre-decomposition every gate is small -/
theorem preStage_small {N : Nat} {spec : DeviceSpec} {gs g0 : List Gate} (hn : spec.native.isSome = true)
    (hg : ∀ g ∈ gs, InClass N g) (h : preStage tables true spec gs = .ok g0) : ∀ x ∈ g0, Small N x := by
  unfold preStage at h
  simp only [hn, Bool.and_self, if_true] at h
  split at h
  · rename_i out ho
    cases h
    intro x hx
    obtain ⟨g, hgm, a, ha, hxa⟩ := preExpand_mem ho x hx
    exact (expandOne_small (hg g hgm) ha x hxa).1
  · cases h

/-! ## routing then decomposition -/

theorem linCirc {spec : DeviceSpec} {s : Route.Setup} (_ : spec.topo = some s)
    (ht : spec.topo = none ∨ spec.topo = some .linear ∨ spec.topo = some .circular) :
    s = .linear ∨ s = .circular := by
  rcases ht with h | h | h <;> simp_all

/-- inversion of the topology stage on shaped circuits -/
theorem topoStage_ok {spec : DeviceSpec} {N : Nat} {g0 g1 : List Gate}
    (ht : spec.topo = none ∨ spec.topo = some .linear ∨ spec.topo = some .circular)
    (hsh : ∀ g ∈ g0, shapedB N g = true) (h : topoStage spec N g0 = .ok g1) :
    (spec.topo = none ∧ g1 = g0) ∨
      ∃ s, spec.topo = some s ∧ (s = .linear ∨ s = .circular) ∧ routeStage N s g0 = .ok g1 := by
  unfold topoStage at h
  split at h
  · rename_i hn; cases h; exact Or.inl ⟨hn, rfl⟩
  · rename_i s hsome
    have hs := linCirc hsome ht
    obtain ⟨o, ho⟩ := routeStage_total N s hs g0 hsh
    rw [ho] at h
    cases h
    exact Or.inr ⟨s, hsome, hs, ho⟩

/-- after the topology stage: every gate is in class, and coupled -/
theorem topoStage_small {spec : DeviceSpec} {N : Nat} {g0 g1 : List Gate}
    (ht : spec.topo = none ∨ spec.topo = some .linear ∨ spec.topo = some .circular)
    (hg : ∀ g ∈ g0, Small N g) (h : topoStage spec N g0 = .ok g1) :
    ∀ x ∈ g1, InClass N x ∧ gateCoupledB spec.topo N x = true := by
  rcases topoStage_ok ht (fun g hgm => (hg g hgm).1) h with ⟨hn, rfl⟩ | ⟨s, hsome, hs, ho⟩
  · intro x hx
    rw [hn]
    exact ⟨⟨(hg x hx).1, (hg x hx).2.1⟩, coupled_none N x⟩
  · intro x hx
    rw [hsome]
    rcases routeStage_mem N s hs g0 g1 (fun g hgm _ => (hg g hgm).1) ho x hx with ⟨hxm, hnh⟩ | hr
    · obtain ⟨h1, h2, h3⟩ := hg x hxm
      refine ⟨⟨h1, h2⟩, coupled_small _ N x ?_⟩
      rw [shaped_arity h1] at h3 ⊢
      exact unhandled_small h2 hnh h3
    · obtain ⟨g, hgm, hh, hnm⟩ := hr.from_handled
      obtain ⟨i, j, hq, hadj⟩ := hr.adj
      refine ⟨⟨hr.shaped, ?_⟩, coupled_adj s N x i j hq hadj⟩
      rcases hnm with h | h
      · rw [h]; exact (hg g hgm).2.1
      · rw [h]; decide

/-- **coupling survives the decomposition into native gates** -/
theorem nativeStage_coupled {spec : DeviceSpec} {N : Nat} {g1 out : List Gate}
    (hg : ∀ x ∈ g1, gateCoupledB spec.topo N x = true) (h : nativeStage tables spec g1 = .ok out) :
    ∀ x ∈ out, gateCoupledB spec.topo N x = true := by
  unfold nativeStage at h
  split at h
  · cases h; exact hg
  · rename_i b _
    split at h
    · rename_i o ho
      cases h
      intro x hx
      obtain ⟨g, hgm, hst⟩ := resolve_stays tables ho x hx
      exact coupled_stays _ N hst (hg g hgm)
    · cases h

/-- the output alphabet of the native stage -/
theorem nativeStage_names {spec : DeviceSpec} {b : List GName} (hb : spec.native = some b)
    (hv : C03.validBasis (.list b) = true) {g1 out : List Gate}
    (hg : ∀ x ∈ g1, resolvable.contains x.name = true) (h : nativeStage tables spec g1 = .ok out) :
    ∀ x ∈ out, (C03.allowed (.list b)).contains x.name = true := by
  unfold nativeStage at h
  rw [hb] at h
  simp only at h
  split at h
  · rename_i o ho
    cases h
    exact List.all_eq_true.mp (C03.resolve_names true (.list b) g1 _ hv (List.all_eq_true.mpr hg) ho)
  · cases h

/-! ## refusal -/

/-- the native stage refuses this gate name: not a Pauli, not a two-qubit basis gate, not the
SWAP exception, and its rule raises or does not exist while the name is not in the native list -/
def refusedName (b : List GName) (n : GName) : Bool :=
  match splitBasis (.list b) with
  | .ok (_, b2, inB) =>
    n != .X && n != .Y && n != .Z && !b2.contains n && !(n == .SWAP && b2.contains .ISWAP) &&
      (decide (gateRule n = .notImplemented) || (decide (gateRule n = .missing) && !inB n))
  | .error _ => false

theorem nativeStage_refuses {spec : DeviceSpec} {b : List GName} (hb : spec.native = some b)
    {g1 : List Gate} {g : Gate} (hg : g ∈ g1) (hr : refusedName b g.name = true) :
    ∃ e, nativeStage tables spec g1 = .error e := by
  unfold refusedName at hr
  split at hr
  · rename_i b1 b2 inB hs
    simp only [Bool.and_eq_true, bne_iff_ne, ne_eq, Bool.not_eq_true', Bool.or_eq_true, decide_eq_true_eq,
      Bool.and_eq_false_imp, beq_iff_eq] at hr
    obtain ⟨⟨⟨⟨⟨hx, hy⟩, hz⟩, h1⟩, h2⟩, h3⟩ := hr
    obtain ⟨e, he⟩ := C03.resolve_refuses true (.list b) g1 g hg b1 b2 inB hs ⟨hx, hy, hz⟩ h1
      (by rintro ⟨hsw, hi⟩; have := h2 hsw; rw [this] at hi; cases hi)
      (by rcases h3 with h | ⟨h, hi⟩
          · exact Or.inl h
          · exact Or.inr ⟨h, by simpa using hi⟩)
    exact ⟨.decomp e, by unfold nativeStage; rw [hb]; simp only [he]⟩
  · cases hr

/-- a refused name is not one of the two three-qubit gates, which have rules -/
theorem refused_not_big {b : List GName} {n : GName} (hr : refusedName b n = true) : arity n ≤ 2 := by
  unfold refusedName at hr
  split at hr
  · cases n <;> simp [arity, shapeOf] <;> simp [gateRule] at hr
  · cases hr

/-! ## the composed stages -/

/-- the devices' topologies are those the router knows -/
def TopoOK (spec : DeviceSpec) : Prop :=
  spec.topo = none ∨ spec.topo = some .linear ∨ spec.topo = some .circular

/-- inversion of `transpileV` -/
theorem transpileV_ok {pre : Bool} {spec : DeviceSpec} {N : Nat} {gs out : List Gate}
    (h : transpileV tables pre spec N gs = .ok out) :
    ∃ g0 g1, preStage tables pre spec gs = .ok g0 ∧ topoStage spec N g0 = .ok g1 ∧
      nativeStage tables spec g1 = .ok out := by
  unfold transpileV at h
  split at h
  · cases h
  · rename_i g0 h0
    split at h
    · cases h
    · rename_i g1 h1
      exact ⟨g0, g1, h0, h1, h⟩

theorem preStage_false {spec : DeviceSpec} {gs : List Gate} : preStage tables false spec gs = .ok gs := by
  simp [preStage]

/-- what enters the native stage, repaired composition: in-class and coupled gates -/
theorem stages_fixed {spec : DeviceSpec} {N : Nat} {gs out : List Gate} (hn : spec.native.isSome = true)
    (ht : TopoOK spec) (hg : ∀ g ∈ gs, InClass N g) (h : transpileV tables true spec N gs = .ok out) :
    ∃ g1, (∀ x ∈ g1, InClass N x ∧ gateCoupledB spec.topo N x = true) ∧ nativeStage tables spec g1 = .ok out := by
  obtain ⟨g0, g1, h0, h1, h2⟩ := transpileV_ok h
  exact ⟨g1, topoStage_small ht (preStage_small hn hg h0) h1, h2⟩

/-- … and the composition as found, for circuits without gates on more than two qubits -/
theorem stages_old {spec : DeviceSpec} {N : Nat} {gs out : List Gate}
    (ht : TopoOK spec) (hg : ∀ g ∈ gs, InClass N g) (h2q : ∀ g ∈ gs, g.qubits.length ≤ 2)
    (h : transpileV tables false spec N gs = .ok out) :
    ∃ g1, (∀ x ∈ g1, InClass N x ∧ gateCoupledB spec.topo N x = true) ∧ nativeStage tables spec g1 = .ok out := by
  obtain ⟨g0, g1, h0, h1, h2⟩ := transpileV_ok h
  rw [preStage_false] at h0
  cases h0
  exact ⟨g1, topoStage_small ht (fun g hgm => ⟨(hg g hgm).1, (hg g hgm).2, h2q g hgm⟩) h1, h2⟩

/-- **refusal, either composition**: a shaped gate whose name the native stage refuses makes
`transpile` raise, whatever else the circuit contains -/
theorem transpileV_refuses (pre : Bool) {spec : DeviceSpec} {b : List GName} (hb : spec.native = some b)
    (ht : TopoOK spec) (N : Nat) (gs : List Gate) (g : Gate) (hg : g ∈ gs) (hsh : shapedB N g = true)
    (hr : refusedName b g.name = true) : ∃ e, transpileV tables pre spec N gs = .error e := by
  unfold transpileV
  cases h0 : preStage tables pre spec gs with
  | error e => exact ⟨e, rfl⟩
  | ok g0 =>
    simp only
    -- the gate survives the pre-decomposition: it acts on at most two qubits
    have hg0 : g ∈ g0 := by
      unfold preStage at h0
      split at h0
      · split at h0
        · rename_i o ho
          cases h0
          obtain ⟨a, ha, hsub⟩ := preExpand_sub ho g hg
          have hsmall : ¬ g.qubits.length > 2 := by
            rw [shaped_arity hsh]; have := refused_not_big hr; omega
          unfold expandOne at ha
          rw [if_neg hsmall] at ha
          cases ha
          exact hsub g (List.mem_singleton.mpr rfl)
        · cases h0
      · cases h0; exact hg
    cases h1 : topoStage spec N g0 with
    | error e => exact ⟨e, rfl⟩
    | ok g1 =>
      simp only
      have hg1 : ∃ x ∈ g1, x.name = g.name := by
        unfold topoStage at h1
        split at h1
        · cases h1; exact ⟨g, hg0, rfl⟩
        · rename_i s hsome
          split at h1
          · rename_i o ho
            cases h1
            exact routeStage_keeps_name N s (linCirc hsome ht) g0 _ g hg0 (fun _ => hsh) ho
          · cases h1; exact ⟨g, hg0, rfl⟩
          · cases h1
      obtain ⟨x, hx, hxn⟩ := hg1
      exact nativeStage_refuses hb hx (by rw [hxn]; exact hr)

end QipVerif.Transpile
