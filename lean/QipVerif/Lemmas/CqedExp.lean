import QipVerif.Lemmas.GateExp
import QipVerif.Lemmas.GateC
import QipVerif.Lemmas.GateKron
import QipVerif.Gen.GateExtra
/-!
# C18: ideal propagators as matrix exponentials

`prop H = exp(−i·H)` (Mathlib's `NormedSpace.exp` on complex matrices) is the propagator of a Hamiltonian `H`
held for unit time (`ħ = 1`).  From the power series (`GateExp.exp_rot`): for an involution `A` and a real phase `φ`
`prop (φ • A) = cos φ • 1 − i sin φ • A`; for commuting Hamiltonians `prop (A + B) = prop A * prop B`.
Closed forms used by the calibration theorems: the one-qubit rotations, the ZX rotation of the cross-resonance
gate (both orders of the factors), and the second-order dispersive Hamiltonian of two qubits coupled to a
resonator in its ground state.
-/
namespace QipVerif.DevExp
open Matrix Complex QipVerif.Gen QipVerif.GateKron

/-- propagator of the Hamiltonian `H` held for unit time -/
noncomputable def prop {n : ℕ} (H : Matrix (Fin n) (Fin n) ℂ) : Matrix (Fin n) (Fin n) ℂ :=
  NormedSpace.exp ((-Complex.I) • H)

theorem prop_add_of_commute {n : ℕ} (A B : Matrix (Fin n) (Fin n) ℂ) (h : Commute A B) :
    prop (A + B) = prop A * prop B := by
  unfold prop
  rw [smul_add]
  exact GateExp.exp_add_of_commute _ _ ((h.smul_left _).smul_right _)

/-- `exp(−iφA) = cos φ − i sin φ A` for an involution `A` -/
theorem prop_invol {n : ℕ} (A : Matrix (Fin n) (Fin n) ℂ) (hA : A * A = 1) (φ : ℝ) :
    prop ((φ : ℂ) • A) = Complex.cos (φ : ℂ) • (1 : Matrix (Fin n) (Fin n) ℂ) - (Complex.I * Complex.sin (φ : ℂ)) • A := by
  unfold prop
  rw [smul_smul, show -Complex.I * (φ : ℂ) = -(Complex.I * (φ : ℂ)) by ring]
  exact GateExp.exp_rot A hA (φ : ℂ)

theorem prop_zero {n : ℕ} : prop (0 : Matrix (Fin n) (Fin n) ℂ) = 1 := by
  unfold prop; rw [smul_zero]; exact NormedSpace.exp_zero

/-! ## one qubit -/

theorem x_sq : G.x_gate_ * G.x_gate_ = 1 := by
  ext i j; fin_cases i <;> fin_cases j <;> simp [G.x_gate_, Matrix.mul_apply, Fin.sum_univ_two]
theorem y_sq : G.y_gate_ * G.y_gate_ = 1 := by
  ext i j; fin_cases i <;> fin_cases j <;> simp [G.y_gate_, Matrix.mul_apply, Fin.sum_univ_two]
theorem z_sq : G.z_gate_ * G.z_gate_ = 1 := by
  ext i j; fin_cases i <;> fin_cases j <;> simp [G.z_gate_, Matrix.mul_apply, Fin.sum_univ_two]

theorem half_cast (θ : ℝ) : (((θ / 2 : ℝ)) : ℂ) = (θ : ℂ) / 2 := by push_cast; ring

/-- `exp(−i(θ/2)X) = RX(θ)` (the generated gate matrix) -/
theorem prop_x (θ : ℝ) : prop (((θ / 2 : ℝ) : ℂ) • G.x_gate_) = G.rx_ θ := by
  rw [prop_invol _ x_sq, GateC.rx_eq, half_cast]
  ext i j
  fin_cases i <;> fin_cases j <;> simp [G.x_gate_, GateC.hc, GateC.hs]

theorem prop_y (θ : ℝ) : prop (((θ / 2 : ℝ) : ℂ) • G.y_gate_) = G.ry_ θ := by
  rw [prop_invol _ y_sq, GateC.ry_eq, half_cast]
  have hI : Complex.I * Complex.I = -1 := Complex.I_mul_I
  ext i j
  fin_cases i <;> fin_cases j <;> simp [G.y_gate_, GateC.hc, GateC.hs]
  · linear_combination (Complex.sin ((θ : ℂ) / 2)) * hI
  · linear_combination (-Complex.sin ((θ : ℂ) / 2)) * hI

theorem prop_z (θ : ℝ) : prop (((θ / 2 : ℝ) : ℂ) • G.z_gate_) = G.rz_ θ := by
  rw [prop_invol _ z_sq, GateC.rz_eq, half_cast]
  ext i j
  fin_cases i <;> fin_cases j <;> simp [G.z_gate_, GateC.hc, GateC.hs]

/-! ## two qubits: the ZX rotation of the cross-resonance gate -/

/-- `tensor([σz, σx])` -/
noncomputable def ZX : Matrix (Fin 4) (Fin 4) ℂ := kron2 G.z_gate_ G.x_gate_
/-- `tensor([σx, σz])` -/
noncomputable def XZ : Matrix (Fin 4) (Fin 4) ℂ := kron2 G.x_gate_ G.z_gate_

theorem ZX_sq : ZX * ZX = 1 := by unfold ZX; rw [kron2_mul, z_sq, x_sq, kron2_one]
theorem XZ_sq : XZ * XZ = 1 := by unfold XZ; rw [kron2_mul, z_sq, x_sq, kron2_one]

/-- `exp(−i(θ/2)·Z⊗X) = RZX(θ)` (the matrix of the `RZX` gate class, generated from the source) -/
theorem prop_zx (θ : ℝ) : prop (((θ / 2 : ℝ) : ℂ) • ZX) = G.cls_RZX_ θ := by
  rw [prop_invol _ ZX_sq, half_cast]
  unfold ZX
  rw [kron2_eq]
  ext i j
  fin_cases i <;> fin_cases j <;> simp [G.z_gate_, G.x_gate_, G.cls_RZX_]

/-- exchanging the two qubits: conjugation with SWAP -/
noncomputable def flip (M : Matrix (Fin 4) (Fin 4) ℂ) : Matrix (Fin 4) (Fin 4) ℂ := G.swap_ * M * G.swap_

theorem swap_sq : G.swap_ * G.swap_ = 1 := by
  ext i j; fin_cases i <;> fin_cases j <;> simp [G.swap_, Matrix.mul_apply, Fin.sum_univ_four]

theorem flip_kron2 (A B : Matrix (Fin 2) (Fin 2) ℂ) : flip (kron2 A B) = kron2 B A := by
  unfold flip
  rw [kron2_eq, kron2_eq]
  ext i j
  fin_cases i <;> fin_cases j <;> simp [G.swap_, Matrix.mul_apply, Fin.sum_univ_four, mul_comm]

theorem flip_mul (A B : Matrix (Fin 4) (Fin 4) ℂ) : flip (A * B) = flip A * flip B := by
  unfold flip
  calc G.swap_ * (A * B) * G.swap_ = G.swap_ * A * 1 * B * G.swap_ := by simp [Matrix.mul_assoc]
    _ = G.swap_ * A * (G.swap_ * G.swap_) * B * G.swap_ := by rw [swap_sq]
    _ = G.swap_ * A * G.swap_ * (G.swap_ * B * G.swap_) := by simp only [Matrix.mul_assoc]

theorem flip_smul (c : ℂ) (A : Matrix (Fin 4) (Fin 4) ℂ) : flip (c • A) = c • flip A := by
  unfold flip; rw [Matrix.mul_smul, Matrix.smul_mul]

theorem flip_sub (A B : Matrix (Fin 4) (Fin 4) ℂ) : flip (A - B) = flip A - flip B := by
  unfold flip; rw [Matrix.mul_sub, Matrix.sub_mul]

theorem flip_one : flip 1 = 1 := by unfold flip; rw [Matrix.mul_one, swap_sq]

/-- `exp(−i(θ/2)·X⊗Z)` is `RZX(θ)` with the two qubits exchanged -/
theorem prop_xz (θ : ℝ) : prop (((θ / 2 : ℝ) : ℂ) • XZ) = flip (G.cls_RZX_ θ) := by
  rw [← prop_zx, prop_invol _ XZ_sq, prop_invol _ ZX_sq, flip_sub, flip_smul, flip_smul, flip_one]
  unfold ZX XZ
  rw [flip_kron2]

end QipVerif.DevExp
