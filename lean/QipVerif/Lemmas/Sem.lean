import QipVerif.Lemmas.Den
import QipVerif.Lemmas.MatBridge
import QipVerif.Lemmas.GateC
/-!
# Denotation of the model's gate lists over ℂ

`semG N ρ g` is the placed operator a library gate `g` of the circuit IR denotes on an `N`-qubit
register, for a valuation `ρ` of the symbolic angles: the generated matrices `Gen.G.*` of the
rotations and controlled rotations at the real angle, `e^{iθ}` for a GLOBALPHASE marker, and the
exact matrices of the fixed gates (`gateE`, mapped to ℂ by `toMatD`).  `denG` multiplies a circuit in order.
This is the specification object of every "same unitary" theorem (C03, C07, C13 …).
-/
namespace QipVerif
open Matrix

/-- real value of an exact/symbolic angle under a valuation of the symbols -/
noncomputable def Ang.eval (ρ : ℕ → ℝ) (a : Ang) : ℝ :=
  (match a.sym with | some j => ((a.cn : ℝ) / (a.cd : ℝ)) * ρ j | none => 0) + (a.p8 : ℝ) * (Real.pi / 8)

/-- a 2×2 matrix indexed by `Fin 2` as an operator on one qubit (`St 1`) -/
noncomputable def mat1 (M : Matrix (Fin 2) (Fin 2) ℂ) : Matrix (St 1) (St 1) ℂ :=
  fun x y => M (x 0) (y 0)

theorem mat1_mul (A B : Matrix (Fin 2) (Fin 2) ℂ) : mat1 (A * B) = mat1 A * mat1 B := by
  ext x y
  simp only [mat1, Matrix.mul_apply]
  exact (Fintype.sum_equiv (Equiv.funUnique (Fin 1) (Fin 2)) _ _ (fun z => rfl)).symm

theorem mat1_smul (c : ℂ) (A : Matrix (Fin 2) (Fin 2) ℂ) : mat1 (c • A) = c • mat1 A := by
  ext x y; simp [mat1]

theorem mat1_one : mat1 (1 : Matrix (Fin 2) (Fin 2) ℂ) = 1 := by
  ext x y
  simp only [mat1, Matrix.one_apply]
  have : x 0 = y 0 ↔ x = y := by
    constructor
    · intro h; funext i; rw [Fin.eq_zero i]; exact h
    · intro h; rw [h]
  simp [this]

/-- the empty placement (GLOBALPHASE acts on no qubit) -/
def Tg.empty (N : ℕ) : Tg 0 N := ⟨Fin.elim0, fun a => a.elim0⟩

/-- block_diag(1, M) on two qubits, control first (most significant): the controlled one-qubit
operator of CRX / CRY / CRZ / CPHASE -/
noncomputable def ctrl1 (M : Matrix (Fin 2) (Fin 2) ℂ) : Matrix (St 2) (St 2) ℂ :=
  fun x y => if x 0 = 0 then (if y 0 = 0 ∧ x 1 = y 1 then 1 else 0)
             else (if y 0 = 0 then 0 else M (x 1) (y 1))

/-- the compact complex matrix of a library gate with real angle θ: (arity, matrix) -/
noncomputable def compactC (name : GName) (θ : ℝ) : Option (Σ m : ℕ, Matrix (St m) (St m) ℂ) :=
  match name with
  | .RX => some ⟨1, mat1 (Gen.G.rx_ θ)⟩
  | .RY => some ⟨1, mat1 (Gen.G.ry_ θ)⟩
  | .RZ => some ⟨1, mat1 (Gen.G.rz_ θ)⟩
  | .PHASEGATE => some ⟨1, mat1 (Gen.G.phasegate_ θ)⟩
  | .GLOBALPHASE => some ⟨0, GateC.phase θ • (1 : Matrix (St 0) (St 0) ℂ)⟩
  | .CRX => some ⟨2, ctrl1 (Gen.G.rx_ θ)⟩
  | .CRY => some ⟨2, ctrl1 (Gen.G.ry_ θ)⟩
  | .CRZ => some ⟨2, ctrl1 (Gen.G.rz_ θ)⟩
  | .CPHASE => some ⟨2, ctrl1 (Gen.G.phasegate_ θ)⟩
  | n => match gateE n 0 with
         | some (m, D) => some ⟨m, toMatD m D⟩
         | none => none

/-- the placed operator of a gate on an `N`-qubit register (`none`: unknown gate or malformed
placement: wrong number of qubits, repeated qubit, qubit ≥ N) -/
noncomputable def semG (N : ℕ) (ρ : ℕ → ℝ) (g : Gate) : Option (PGate N) :=
  match compactC g.name (g.arg.eval ρ) with
  | none => none
  | some ⟨m, U⟩ =>
    if h : g.qubits.length = m ∧ g.qubits.Nodup ∧ ∀ q ∈ g.qubits, q < N then
      some ⟨m, h.1 ▸ tgOfList N g.qubits h.2.1 h.2.2, U⟩
    else none

/-- denotation of a circuit (first gate applied first) -/
noncomputable def denG (N : ℕ) (ρ : ℕ → ℝ) (gs : List Gate) : Option (Matrix (St N) (St N) ℂ) :=
  (gs.mapM (semG N ρ)).map denP

end QipVerif
