import QipVerif.Model.CircHeap
/-! The dictionary of a fresh circuit stays empty whatever happens to OTHER circuit objects (C09, cross-object histories). -/
namespace QipVerif.CircHeap

/-- every circuit holds an existing dictionary object -/
def WF (h : Heap) : Prop := ∀ c d : Nat, h.circ[c]? = some d → d < h.dicts.length

theorem wf_empty : WF ⟨[], []⟩ := by intro c d h; simp at h

theorem step_dicts_length (h : Heap) (op : Op) : h.dicts.length ≤ (step h op).dicts.length := by
  cases op with
  | newDefault => simp [step]
  | newDict es => simp [step]
  | newWith d => simp only [step]; split <;> simp
  | setUser c name tag =>
    simp only [step]
    split
    · split <;> simp
    · simp
  | addCircuit dst src ov =>
    simp only [step]
    split
    · split <;> simp
    · simp

theorem step_circ (h : Heap) (op : Op) :
    (step h op).circ = h.circ ∨ ∃ d, (step h op).circ = h.circ ++ [d] ∧ d < (step h op).dicts.length ∧
      (op = .newDefault → d = h.dicts.length) ∧ (∀ d', op = .newWith d' → d = d') := by
  cases op with
  | newDefault => exact Or.inr ⟨h.dicts.length, by simp [step], by simp [step], (fun _ => rfl), (fun _ h' => by cases h')⟩
  | newDict es => exact Or.inl (by simp [step])
  | newWith d =>
    simp only [step]
    by_cases hd : d < h.dicts.length
    · rw [if_pos hd]; exact Or.inr ⟨d, rfl, hd, (fun h' => by cases h'), (fun d' h' => by cases h'; rfl)⟩
    · rw [if_neg hd]; exact Or.inl rfl
  | setUser c name tag =>
    left; simp only [step]
    split
    · split <;> rfl
    · rfl
  | addCircuit dst src ov =>
    left; simp only [step]
    split
    · split <;> rfl
    · rfl

theorem step_wf (h : Heap) (op : Op) (hw : WF h) : WF (step h op) := by
  intro c d hc
  have hl := step_dicts_length h op
  rcases step_circ h op with he | ⟨d0, he, hd0, _, _⟩
  · rw [he] at hc; exact Nat.lt_of_lt_of_le (hw c d hc) hl
  · rw [he] at hc
    by_cases hlt : c < h.circ.length
    · rw [List.getElem?_append_left hlt] at hc; exact Nat.lt_of_lt_of_le (hw c d hc) hl
    · have hge : h.circ.length ≤ c := Nat.le_of_not_lt hlt
      rw [List.getElem?_append_right hge] at hc
      cases hcc : c - h.circ.length with
      | zero => rw [hcc] at hc; simp at hc; rw [← hc]; exact hd0
      | succ k => rw [hcc] at hc; simp at hc

theorem run_wf (ops : List Op) (h : Heap) (hw : WF h) : WF (run h ops) := by
  induction ops generalizing h with
  | nil => exact hw
  | cons op ops ih => exact ih (step h op) (step_wf h op hw)

/-- circuit `n` holds the dictionary `dn`, nobody else does, and it is empty -/
def Inv (n dn : Nat) (h : Heap) : Prop :=
  h.circ[n]? = some dn ∧ (∀ c, c ≠ n → h.circ[c]? ≠ some dn) ∧ h.dicts[dn]? = some []

theorem inv_lt {n dn : Nat} {h : Heap} (hi : Inv n dn h) : n < h.circ.length ∧ dn < h.dicts.length := by
  obtain ⟨h1, _, h3⟩ := hi
  constructor
  · by_cases hn : n < h.circ.length
    · exact hn
    · rw [List.getElem?_eq_none (Nat.le_of_not_lt hn)] at h1; cases h1
  · by_cases hn : dn < h.dicts.length
    · exact hn
    · rw [List.getElem?_eq_none (Nat.le_of_not_lt hn)] at h3; cases h3

theorem set_other {α : Type} (l : List α) (i j : Nat) (a : α) (hij : i ≠ j) : (l.set i a)[j]? = l[j]? := by
  rw [List.getElem?_set_ne hij]

theorem step_inv (n dn : Nat) (h : Heap) (op : Op) (ha : op.avoids n dn = true) (hi : Inv n dn h) :
    Inv n dn (step h op) := by
  obtain ⟨hn, hdn⟩ := inv_lt hi
  obtain ⟨h1, h2, h3⟩ := hi
  have circ_app : ∀ d, d ≠ dn → Inv n dn ⟨h.dicts, h.circ ++ [d]⟩ ∧ True := by
    intro d hd
    refine ⟨⟨by rw [List.getElem?_append_left hn]; exact h1, ?_, h3⟩, trivial⟩
    intro c hc
    by_cases hlt : c < h.circ.length
    · rw [List.getElem?_append_left hlt]; exact h2 c hc
    · have hge : h.circ.length ≤ c := Nat.le_of_not_lt hlt
      rw [List.getElem?_append_right hge]
      cases hcc : c - h.circ.length with
      | zero => simp; exact hd
      | succ k => simp
  cases op with
  | newDefault =>
    have := (circ_app h.dicts.length (Nat.ne_of_gt hdn)).1
    obtain ⟨a, b, c⟩ := this
    exact ⟨a, b, by simp only [step]; rw [List.getElem?_append_left hdn]; exact h3⟩
  | newDict es => exact ⟨h1, h2, by simp only [step]; rw [List.getElem?_append_left hdn]; exact h3⟩
  | newWith d =>
    have hd : d ≠ dn := by simpa [Op.avoids] using ha
    simp only [step]
    by_cases hdl : d < h.dicts.length
    · rw [if_pos hdl]; exact (circ_app d hd).1
    · rw [if_neg hdl]; exact ⟨h1, h2, h3⟩
  | setUser c name tag =>
    have hc : c ≠ n := by simpa [Op.avoids] using ha
    cases hcc : h.circ[c]? with
    | none => simp only [step, hcc]; exact ⟨h1, h2, h3⟩
    | some d =>
      have hd : d ≠ dn := fun e => h2 c hc (by rw [hcc, e])
      cases hdd : h.dicts[d]? with
      | none => simp only [step, hcc, hdd]; exact ⟨h1, h2, h3⟩
      | some D =>
        simp only [step, hcc, hdd]
        exact ⟨h1, h2, by simp only; rw [set_other _ _ _ _ hd]; exact h3⟩
  | addCircuit dst src ov =>
    have hc : dst ≠ n := by simpa [Op.avoids] using ha
    cases hcc : h.circ[dst]? with
    | none => simp only [step, hcc]; exact ⟨h1, h2, h3⟩
    | some d =>
      have hd : d ≠ dn := fun e => h2 dst hc (by rw [hcc, e])
      cases hss : h.circ[src]? with
      | none => simp only [step, hcc, hss]; exact ⟨h1, h2, h3⟩
      | some ds =>
        cases hdd : h.dicts[d]? with
        | none => simp only [step, hcc, hss, hdd]; exact ⟨h1, h2, h3⟩
        | some D =>
          cases hds : h.dicts[ds]? with
          | none => simp only [step, hcc, hss, hdd, hds]; exact ⟨h1, h2, h3⟩
          | some Ds =>
            simp only [step, hcc, hss, hdd, hds]
            exact ⟨h1, h2, by simp only; rw [set_other _ _ _ _ hd]; exact h3⟩

theorem run_inv (n dn : Nat) (ops : List Op) (h : Heap) (ha : ops.all (Op.avoids n dn) = true) (hi : Inv n dn h) :
    Inv n dn (run h ops) := by
  induction ops generalizing h with
  | nil => exact hi
  | cons op ops ih =>
    simp only [List.all_cons, Bool.and_eq_true] at ha
    exact ih (step h op) ha.2 (step_inv n dn h op ha.1 hi)

/-- a default-constructed circuit on a well-formed heap: its dictionary is new, empty and its own -/
theorem newDefault_inv (h : Heap) (hw : WF h) : Inv h.circ.length h.dicts.length (step h .newDefault) := by
  refine ⟨by simp [step], ?_, by simp [step]⟩
  intro c hc
  simp only [step]
  by_cases hlt : c < h.circ.length
  · rw [List.getElem?_append_left hlt]
    intro e
    exact absurd (hw c _ e) (Nat.lt_irrefl _)
  · have hge : h.circ.length ≤ c := Nat.le_of_not_lt hlt
    rw [List.getElem?_append_right hge]
    cases hcc : c - h.circ.length with
    | zero => exact absurd (by omega : c = h.circ.length) hc
    | succ k => simp

theorem resolve_of_inv {n dn : Nat} {h : Heap} (hi : Inv n dn h) (name : String) : resolve h n name = none := by
  obtain ⟨h1, _, h3⟩ := hi
  simp [resolve, h1, h3]

end QipVerif.CircHeap
