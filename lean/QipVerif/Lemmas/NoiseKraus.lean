import QipVerif.Lemmas.NoiseSol
import Mathlib.LinearAlgebra.Matrix.PosDef
import Mathlib.LinearAlgebra.Matrix.Kronecker
/-! Operator-sum (Kraus) form of maps on matrices, lifting of a map on one tensor factor to the
joint system, and the operator-sum form of the explicit qubit solution (C15: positivity). -/
namespace QipVerif.Noise
open Matrix Kronecker ComplexOrder

section Kraus
set_option linter.unusedSectionVars false
variable {m n ι : Type} [Fintype m] [DecidableEq m] [Fintype n] [DecidableEq n] [Fintype ι]

/-- `R ↦ Σ_k c_k · K_k R K_k†` -/
noncomputable def krausMap (c : ι → ℝ) (K : ι → Matrix m m ℂ) (R : Matrix m m ℂ) : Matrix m m ℂ :=
  ∑ k, (c k) • (K k * R * (K k)ᴴ)

/-- a map in operator-sum form with non-negative weights preserves positive semidefiniteness -/
theorem krausMap_posSemidef (c : ι → ℝ) (K : ι → Matrix m m ℂ) (hc : ∀ k, 0 ≤ c k)
    {R : Matrix m m ℂ} (hR : R.PosSemidef) : (krausMap c K R).PosSemidef := by
  unfold krausMap
  exact posSemidef_sum _ fun k _ => (hR.mul_mul_conjTranspose_same (K k)).smul (hc k)

/-- the blocks of a matrix on a joint system `m × n` w.r.t. the second factor -/
def blockL (ρ : Matrix (m × n) (m × n) ℂ) (k l : n) : Matrix m m ℂ := fun i j => ρ (i, k) (j, l)

/-- the blocks w.r.t. the first factor -/
def blockR (ρ : Matrix (m × n) (m × n) ℂ) (i j : m) : Matrix n n ℂ := fun k l => ρ (i, k) (j, l)

/-- `Φ ⊗ id`: a map on the first factor applied to a matrix of the joint system -/
def liftL (Φ : Matrix m m ℂ → Matrix m m ℂ) (ρ : Matrix (m × n) (m × n) ℂ) :
    Matrix (m × n) (m × n) ℂ := fun a b => Φ (blockL ρ a.2 b.2) a.1 b.1

/-- `id ⊗ Φ` -/
def liftR (Φ : Matrix n n ℂ → Matrix n n ℂ) (ρ : Matrix (m × n) (m × n) ℂ) :
    Matrix (m × n) (m × n) ℂ := fun a b => Φ (blockR ρ a.1 b.1) a.2 b.2

omit [Fintype m] [DecidableEq m] [Fintype n] [DecidableEq n] in
theorem blockL_liftL (Φ : Matrix m m ℂ → Matrix m m ℂ) (ρ : Matrix (m × n) (m × n) ℂ) (k l : n) :
    blockL (liftL Φ ρ) k l = Φ (blockL ρ k l) := rfl

omit [Fintype m] [DecidableEq m] [Fintype n] [DecidableEq n] in
theorem blockR_liftR (Φ : Matrix n n ℂ → Matrix n n ℂ) (ρ : Matrix (m × n) (m × n) ℂ) (i j : m) :
    blockR (liftR Φ ρ) i j = Φ (blockR ρ i j) := rfl

/-- conjugation with `A ⊗ 1` is the lift of conjugation with `A` -/
theorem kron_one_conj (A : Matrix m m ℂ) (ρ : Matrix (m × n) (m × n) ℂ) :
    (A ⊗ₖ (1 : Matrix n n ℂ)) * ρ * (A ⊗ₖ (1 : Matrix n n ℂ))ᴴ = liftL (fun R => A * R * Aᴴ) ρ := by
  ext ⟨i, k⟩ ⟨j, l⟩
  simp [liftL, blockL, Matrix.mul_apply, Fintype.sum_prod_type, Matrix.one_apply, apply_ite,
    Finset.sum_mul]

theorem one_kron_conj (B : Matrix n n ℂ) (ρ : Matrix (m × n) (m × n) ℂ) :
    ((1 : Matrix m m ℂ) ⊗ₖ B) * ρ * ((1 : Matrix m m ℂ) ⊗ₖ B)ᴴ = liftR (fun R => B * R * Bᴴ) ρ := by
  ext ⟨i, k⟩ ⟨j, l⟩
  simp [liftR, blockR, Matrix.mul_apply, Fintype.sum_prod_type, Matrix.one_apply, apply_ite,
    Finset.sum_mul]

/-- the lift of an operator-sum map is the operator-sum map of the operators `K ⊗ 1` -/
theorem liftL_krausMap (c : ι → ℝ) (K : ι → Matrix m m ℂ) (ρ : Matrix (m × n) (m × n) ℂ) :
    liftL (krausMap c K) ρ = krausMap c (fun k => K k ⊗ₖ (1 : Matrix n n ℂ)) ρ := by
  simp only [krausMap, kron_one_conj]
  ext a b
  simp [liftL, krausMap, Matrix.sum_apply]

theorem liftR_krausMap (c : ι → ℝ) (K : ι → Matrix n n ℂ) (ρ : Matrix (m × n) (m × n) ℂ) :
    liftR (krausMap c K) ρ = krausMap c (fun k => (1 : Matrix m m ℂ) ⊗ₖ K k) ρ := by
  simp only [krausMap, one_kron_conj]
  ext a b
  simp [liftR, krausMap, Matrix.sum_apply]

end Kraus

/-! ### The qubit solution in operator-sum form -/

/-- weights and operators: `diag(1, h)`, `diag(1, −h)`, `|0⟩⟨1|` with `h = e^{−γt/2}`,
`l = e^{−(Γ − γ/2) t}` -/
noncomputable def kr2c (h l : ℝ) : Fin 3 → ℝ := ![(1 + l) / 2, (1 - l) / 2, 1 - h * h]
noncomputable def kr2K (h : ℝ) : Fin 3 → Matrix (Fin 2) (Fin 2) ℂ :=
  ![!![1, 0; 0, (h : ℂ)], !![1, 0; 0, -(h : ℂ)], a2]

theorem kraus2_eq (h l : ℝ) (ρ : Matrix (Fin 2) (Fin 2) ℂ) :
    krausMap (kr2c h l) (kr2K h) ρ =
      !![ρ 0 0 + (1 - ((h * h : ℝ) : ℂ)) * ρ 1 1, ((l * h : ℝ) : ℂ) * ρ 0 1;
         ((l * h : ℝ) : ℂ) * ρ 1 0, ((h * h : ℝ) : ℂ) * ρ 1 1] := by
  ext i j
  fin_cases i <;> fin_cases j <;>
  · simp only [krausMap, Fin.sum_univ_three, Matrix.add_apply, Matrix.smul_apply, Matrix.mul_apply,
      Fin.sum_univ_two, conjTranspose_apply, Complex.real_smul]
    simp [kr2c, kr2K, a2]
    try ring

theorem dec_half_sq (γ t : ℝ) : Real.exp (-(γ * t) / 2) * Real.exp (-(γ * t) / 2) = Real.exp (-(γ * t)) := by
  rw [← Real.exp_add]; congr 1; ring

theorem dec_split (γ Γ t : ℝ) :
    Real.exp (-((Γ - γ / 2) * t)) * Real.exp (-(γ * t) / 2) = Real.exp (-(Γ * t)) := by
  rw [← Real.exp_add]; congr 1; ring

/-- **the explicit qubit solution is an operator-sum map** (for every `γ`, `Γ`, `t`) -/
theorem relaxSol2_kraus (γ Γ t : ℝ) (ρ : Matrix (Fin 2) (Fin 2) ℂ) :
    relaxSol2 γ Γ ρ t =
      krausMap (kr2c (Real.exp (-(γ * t) / 2)) (Real.exp (-((Γ - γ / 2) * t))))
        (kr2K (Real.exp (-(γ * t) / 2))) ρ := by
  rw [kraus2_eq, dec_half_sq, dec_split]
  rfl

/-- the weights are non-negative exactly in the physical regime `γ t ≥ 0`, `(Γ − γ/2) t ≥ 0` -/
theorem kr2c_nonneg (γ Γ t : ℝ) (hγ : 0 ≤ γ * t) (hΓ : 0 ≤ (Γ - γ / 2) * t) :
    ∀ k, 0 ≤ kr2c (Real.exp (-(γ * t) / 2)) (Real.exp (-((Γ - γ / 2) * t))) k := by
  have h1 : Real.exp (-((Γ - γ / 2) * t)) ≤ 1 := Real.exp_le_one_iff.mpr (by linarith)
  have h2 : Real.exp (-(γ * t)) ≤ 1 := Real.exp_le_one_iff.mpr (by linarith)
  have h3 := Real.exp_pos (-((Γ - γ / 2) * t))
  intro k
  fin_cases k
  · show 0 ≤ (1 + Real.exp (-((Γ - γ / 2) * t))) / 2
    linarith
  · show 0 ≤ (1 - Real.exp (-((Γ - γ / 2) * t))) / 2
    linarith
  · show 0 ≤ 1 - Real.exp (-(γ * t) / 2) * Real.exp (-(γ * t) / 2)
    rw [dec_half_sq]; linarith

end QipVerif.Noise
