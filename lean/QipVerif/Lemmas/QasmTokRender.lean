import QipVerif.Lemmas.QasmTokItems
/-!
# The tokenizer on rendered programs (C04)

`tokenize_render`: for EVERY program of the class `TokClass` (all statement kinds of the AST; identifiers,
numerals and file names made of plain characters; any number of statements, operands, parameters; parameter
expressions of any depth; `if(c==k)` with and without parameter list; gate definitions with bodies),
`_tokenize` applied to the text rendered one statement per line returns exactly the token lists
`tokensOf` of its statements, in order.

`readTokens_render`: the same through the pre-processing of `read_qasm` (strip, comment handling, header)
for programs whose rendered lines contain no `//`.
-/
namespace QipVerif.Qasm.Tok
open QipVerif.Qasm

deriving instance DecidableEq for Except

/-! ## the loop over commands -/

theorem tokenizeCmds_cons (c : Str) (cs : List Str) (ts : List Str) (l : List (List Str))
    (h1 : tokenizeLine c = .ok ts) (h2 : tokenizeCmds cs = .ok l) : tokenizeCmds (c :: cs) = .ok (ts :: l) := by
  simp [tokenizeCmds, h1, h2]

theorem tokenizeCmds_append (a b : List Str) (x y : List (List Str)) (ha : tokenizeCmds a = .ok x)
    (hb : tokenizeCmds b = .ok y) : tokenizeCmds (a ++ b) = .ok (x ++ y) := by
  induction a generalizing x with
  | nil =>
    simp only [tokenizeCmds, Except.ok.injEq] at ha
    subst ha; simpa using hb
  | cons c cs ih =>
    simp only [tokenizeCmds] at ha
    cases h1 : tokenizeLine c with
    | error e => simp [h1] at ha
    | ok ts =>
      cases h2 : tokenizeCmds cs with
      | error e => simp [h1, h2] at ha
      | ok l =>
        simp only [h1, h2, Except.ok.injEq] at ha
        subst ha
        exact tokenizeCmds_cons c (cs ++ b) ts (l ++ y) h1 (ih l h2)

theorem tokenizeLine_eq (cmd : Str) : tokenizeLine cmd = tokenizeLineF (cmd.length + 1) (cmd ++ []) := by
  simp [tokenizeLine]

/-! ## one line ending in `;` -/

theorem padLine_semi : padLine [';'] = [';'] := by decide

theorem lineCommands_semi (X : Str) (h1 : (padLine X).all okL = true) (h2 : padLine X ≠ []) :
    lineCommands (X ++ [';']) = [padLine X] := by
  have hno : ';' ∉ padLine X := not_mem_of_all h1 (by decide)
  unfold lineCommands
  rw [padLine_append, padLine_semi, splitOn_append ';' _ [] hno]
  cases hp : padLine X with
  | nil => exact absurd hp h2
  | cons c cs => simp [splitOn]

theorem callP_okL (name : Str) (hn : name.all plain = true) (pi : List (Str × Str))
    (hpi : ∀ it ∈ pi, ParamItem it) (qi : List (Str × List Str × Str)) (hqi : ∀ it ∈ qi, OpndItem it) :
    (callP name (pi.map (·.1)) (qi.map (·.1))).all okL = true := by
  have hP := params_all pi hpi
  have hQ : (padLine (intercal [','] (qi.map (·.1)))).all okL = true :=
    all_imp (fun c hc => by simp only [Bool.and_eq_true] at hc; exact hc.1.1) (opnds_all qi hqi)
  have hN : name.all okL = true := all_imp (fun c hc => okP_okL (okQ_okP (plain_okQ hc))) hn
  unfold callP
  split
  · simp only [List.all_append, List.all_cons, hN, hQ, Bool.and_true, Bool.true_and]; decide
  · simp only [List.all_append, List.all_cons, List.all_nil, hN, hP, hQ, Bool.and_true, Bool.true_and]
    decide

theorem shape_okL (body : Str) (toks : List Str) (h : OpShape body toks) : (padLine body).all okL = true := by
  rcases h with ⟨hall, _⟩ | ⟨name, pi, qi, hname, _, _, hpi, hqi, rfl, _⟩
  · exact all_imp (fun c hc => by simp only [Bool.and_eq_true] at hc; exact hc.1.1) hall
  · obtain ⟨_, _, _, hn4⟩ := isWord_parts hname
    rw [padLine_callText _ _ _ hn4]
    exact callP_okL name hn4 pi hpi qi hqi

theorem callP_ne (name : Str) (hn : name ≠ []) (ps qs : List Str) : callP name ps qs ≠ [] := by
  unfold callP
  cases name with
  | nil => exact absurd rfl hn
  | cons c cs => split <;> simp

theorem shape_ne (body : Str) (toks : List Str) (h : OpShape body toks) (hne : toks ≠ []) :
    padLine body ≠ [] := by
  rcases h with ⟨_, hs⟩ | ⟨name, pi, qi, hname, _, _, hpi, hqi, rfl, _⟩
  · intro hp
    have := hs [] [] rfl rfl
    rw [hp] at this
    exact hne (by simpa using this.symm)
  · obtain ⟨hn1, _, _, hn4⟩ := isWord_parts hname
    rw [padLine_callText _ _ _ hn4]
    exact callP_ne name hn1 _ _

/-- **a statement `body;` on a line of its own** -/
theorem stmt_line (body : Str) (toks : List Str) (h : OpShape body toks) (hne : toks ≠ []) :
    tokenizeCmds (lineCommands (body ++ [';'])) = .ok [toks] := by
  rw [lineCommands_semi body (shape_okL body toks h) (shape_ne body toks h hne)]
  apply tokenizeCmds_cons _ _ _ _ _ rfl
  rw [tokenizeLine_eq]
  exact shape_tokens _ body toks h [] rfl

/-- **a statement `if(cond) body;` on a line of its own** -/
theorem if_line (body : Str) (toks : List Str) (h : OpShape body toks) (cond : Str)
    (hc : cond.all plain = true) :
    tokenizeCmds (lineCommands ((cs!"if(" ++ cond ++ cs!") " ++ body) ++ [';'])) =
      .ok [[cs!"if", cs!"(", cond, cs!")"] ++ toks] := by
  have hp : padLine (cs!"if(" ++ cond ++ cs!") " ++ body) = cs!"if ( " ++ cond ++ cs!" )  " ++ padLine body := by
    simp only [padLine_append, padLine_plain cond hc]
    rfl
  have hall : (padLine (cs!"if(" ++ cond ++ cs!") " ++ body)).all okL = true := by
    rw [hp]
    simp only [List.all_append, shape_okL body toks h,
      all_imp (fun c hc' => okP_okL (okQ_okP (plain_okQ hc'))) hc, Bool.and_true]
    decide
  rw [lineCommands_semi _ hall (by rw [hp]; simp)]
  exact tokenizeCmds_cons _ _ _ _ (shape_if_tokens body toks h cond hc) rfl

/-! ## tokens are never empty lists -/

theorem callToks_ne (name : Str) (ps q1 q3 : List Str) : callToks name ps q1 q3 ≠ [] := by
  unfold callToks; split <;> simp

theorem qopToks_ne (op : QOp) : qopToks op ≠ [] := by
  cases op <;> simp [qopToks, callToks_ne]

theorem gopToks_ne (g : GOp) : gopToks g ≠ [] := by
  cases g <;> simp [gopToks, callToks_ne]

/-! ## heads of definitions -/

theorem isWord_gate : isWord cs!"gate" = true := by decide
theorem isWord_opaque : isWord cs!"opaque" = true := by decide

theorem head_word (kw : Str) (hkw : isWord kw = true) (hpad : padLine (kw ++ [' ']) = kw ++ [' ']) :
    Head (kw ++ [' ']) [kw] := by
  obtain ⟨h1, h2, h3, h4⟩ := isWord_parts hkw
  refine ⟨hpad, ?_, ?_, ?_, ?_⟩
  · simp only [List.all_append, word_all_okB h4, Bool.true_and]; decide
  · intro rest
    rw [List.append_assoc, splitBy_word sepC kw _ h1 h2 (by simp [startsSep, sepC_space]),
      List.singleton_append, splitBy_sep sepC _ sepC_space]; rfl
  · intro rest
    rw [List.append_assoc, splitBy_word isWs kw _ h1 h3 (by simp [startsSep, isWs_space]),
      List.singleton_append, splitBy_sep isWs _ isWs_space]; rfl
  · simp [strip_word h3]

theorem head_gate : Head cs!"gate " [cs!"gate"] := head_word cs!"gate" isWord_gate (by decide)
theorem head_opaque : Head cs!"opaque " [cs!"opaque"] := head_word cs!"opaque" isWord_opaque (by decide)

theorem reIfHead_gate (t : Str) : reIfHead (cs!"gate " ++ t) = false := by
  show reIfHead ('g' :: _) = false
  unfold reIfHead
  rw [wsStar_cons_nws _ _ (by decide), lit_cons_ne _ _ (by decide)]; rfl

theorem reIfHead_opaque (t : Str) : reIfHead (cs!"opaque " ++ t) = false := by
  show reIfHead ('o' :: _) = false
  unfold reIfHead
  rw [wsStar_cons_nws _ _ (by decide), lit_cons_ne _ _ (by decide)]; rfl

/-- tokens of a definition head `kw name(formals) qargs` followed by blanks -/
theorem defHead_tokens (kw : Str) (hh : Head (kw ++ [' ']) [kw]) (hif : ∀ t, reIfHead ((kw ++ [' ']) ++ t) = false)
    (name : Str) (ps qs : List Str) (hn : isWord name = true) (hps : ps.all isWord = true)
    (hqs : qs.all isWord = true) (w : Str) (hw : allSp w = true) :
    tokenizeLine ((kw ++ [' ']) ++ callP name ps qs ++ w) = .ok (kw :: callToks name ps qs qs) := by
  have := callP_tokens (((kw ++ [' ']) ++ callP name ps qs ++ w).length) (kw ++ [' ']) [kw] hh name hn
    (ps.map fun q => (q, q)) (wordParams ps hps) (qs.map fun q => (q, [q], q)) (wordItems qs hqs) w hw
    (fun _ rest => by rw [List.append_assoc]; exact hif _)
  simpa [tokenizeLine, List.map_map, Function.comp_def, List.flatMap_map] using this

theorem defHead_okL (kw : Str) (hkw : isWord kw = true) (name : Str) (ps qs : List Str)
    (hn : isWord name = true) (hps : ps.all isWord = true) (hqs : qs.all isWord = true) :
    ((kw ++ [' ']) ++ callP name ps qs).all okL = true := by
  obtain ⟨_, _, _, hn4⟩ := isWord_parts hn
  obtain ⟨_, _, _, hk4⟩ := isWord_parts hkw
  have := callP_okL name hn4 (ps.map fun q => (q, q)) (wordParams ps hps)
    (qs.map fun q => (q, [q], q)) (wordItems qs hqs)
  simp only [List.map_map, Function.comp_def, List.map_id'] at this
  simp only [List.all_append, this, all_imp (fun c hc => okP_okL (okQ_okP (plain_okQ hc))) hk4, Bool.and_true,
    Bool.true_and]
  decide

/-! ## the statements -/

theorem tokenize_close : tokenizeCmds (lineCommands cs!"}") = .ok [[], [cs!"}"], []] := by decide
theorem tokenizeLine_open : tokenizeLine cs!" { " = .ok [cs!"{"] := by decide
theorem tokenizeLine_blank : tokenizeLine cs!" " = .ok [] := by decide
theorem padLine_open : padLine cs!" {" = cs!"  ; { ; " := by decide

theorem body_cmds (body : List GOp) (h : body.all gopOk' = true) :
    tokenizeCmds ((body.map GOp.render).flatMap lineCommands) = .ok (body.map gopToks) := by
  induction body with
  | nil => rfl
  | cons g gs ih =>
    simp only [List.all_cons, Bool.and_eq_true] at h
    simp only [List.map_cons, List.flatMap_cons]
    have h1 : tokenizeCmds (lineCommands g.render) = .ok [gopToks g] := by
      rw [gop_render]; exact stmt_line _ _ (gop_shape g h.1) (gopToks_ne g)
    have := tokenizeCmds_append _ _ _ _ h1 (ih h.2)
    simpa using this

/-- the commands of one statement and what is left of them after empty token lists are dropped -/
theorem stmt_cmds (s : Stmt) (h : stmtOk s = true) :
    ∃ L, tokenizeCmds (s.render.flatMap lineCommands) = .ok L ∧
      L.filter (fun ts => !ts.isEmpty) = tokensOf s := by
  cases s with
  | version => exact ⟨[[cs!"OPENQASM", cs!"2.0"]], by decide, rfl⟩
  | incl f =>
    have hw : isWord ('"' :: f ++ ['"']) = true := by
      have hf : f.all plain = true := h
      simp only [isWord, List.cons_append, List.isEmpty_cons, Bool.not_false, List.all_cons, List.all_append,
        hf, List.all_nil, Bool.and_true, Bool.true_and]
      decide
    have hs := plainShape cs!"include" (by decide) [('"' :: f ++ ['"'], ['"' :: f ++ ['"']], '"' :: f ++ ['"'])]
      (by
        intro it hit
        simp only [List.mem_cons, List.not_mem_nil, or_false] at hit
        subst hit; exact wordItem hw)
    have hr : (Stmt.incl f).render = [(cs!"include" ++ ' ' :: intercal [','] ['"' :: f ++ ['"']]) ++ [';']] := by
      simp [Stmt.render, intercal]
    refine ⟨[[cs!"include", '"' :: f ++ ['"']]], ?_, rfl⟩
    rw [hr]
    simpa using stmt_line _ _ hs (by simp)
  | qreg n k =>
    have hs := plainShape cs!"qreg" (by decide)
      [((Arg.idx n k).render, argToks1 (.idx n k), argTok3 (.idx n k))]
      (by
        intro it hit
        simp only [List.mem_cons, List.not_mem_nil, or_false] at hit
        subst hit; exact argItem (a := .idx n k) h)
    have hr : (Stmt.qreg n k).render = [(cs!"qreg" ++ ' ' :: intercal [','] [(Arg.idx n k).render]) ++ [';']] := by
      simp [Stmt.render, intercal, Arg.render]
    refine ⟨[[cs!"qreg", n, cs!"[", natDigits k, cs!"]"]], ?_, rfl⟩
    rw [hr]
    simpa [argToks1] using stmt_line _ _ hs (by simp)
  | creg n k =>
    have hs := plainShape cs!"creg" (by decide)
      [((Arg.idx n k).render, argToks1 (.idx n k), argTok3 (.idx n k))]
      (by
        intro it hit
        simp only [List.mem_cons, List.not_mem_nil, or_false] at hit
        subst hit; exact argItem (a := .idx n k) h)
    have hr : (Stmt.creg n k).render = [(cs!"creg" ++ ' ' :: intercal [','] [(Arg.idx n k).render]) ++ [';']] := by
      simp [Stmt.render, intercal, Arg.render]
    refine ⟨[[cs!"creg", n, cs!"[", natDigits k, cs!"]"]], ?_, rfl⟩
    rw [hr]
    simpa [argToks1] using stmt_line _ _ hs (by simp)
  | qop op =>
    refine ⟨[qopToks op], ?_, by simp [tokensOf, qopToks_ne]⟩
    simp only [Stmt.render, List.flatMap_cons, List.flatMap_nil, List.append_nil]
    rw [qop_render]; exact stmt_line _ _ (qop_shape op h) (qopToks_ne op)
  | ifc c k op =>
    simp only [stmtOk, Bool.and_eq_true] at h
    have hcond : (c ++ cs!"==" ++ natDigits k).all plain = true := by
      simp only [List.all_append, h.1, natDigits_plain, Bool.and_true, Bool.true_and]; decide
    refine ⟨[[cs!"if", cs!"(", c ++ cs!"==" ++ natDigits k, cs!")"] ++ qopToks op], ?_, by simp [tokensOf]⟩
    have hr : (Stmt.ifc c k op).render =
        [(cs!"if(" ++ (c ++ cs!"==" ++ natDigits k) ++ cs!") " ++ qopBody op) ++ [';']] := by
      simp [Stmt.render, qop_render]
    rw [hr]
    simpa using if_line _ _ (qop_shape op h.2) _ hcond
  | barrier qs =>
    have hs := plainShape cs!"barrier" isWord_barrier (qs.map fun a => (a.render, argToks1 a, argTok3 a))
      (argItems qs h)
    have hr : (Stmt.barrier qs).render =
        [(cs!"barrier" ++ ' ' :: intercal [','] (qs.map Arg.render)) ++ [';']] := by
      simp [Stmt.render]
    refine ⟨[cs!"barrier" :: qs.flatMap argToks1], ?_, by simp [tokensOf]⟩
    rw [hr]
    simpa [List.map_map, Function.comp_def, List.flatMap_map] using stmt_line _ _ hs (by simp)
  | «opaque» n ps qs =>
    simp only [stmtOk, Bool.and_eq_true] at h
    obtain ⟨_, _, _, hn4⟩ := isWord_parts h.1.1
    have hr : (Stmt.opaque n ps qs).render = [(cs!"opaque " ++ callText n ps qs) ++ [';']] := by
      simp [Stmt.render, callText, renderFormals, paren]
    have hp : padLine (cs!"opaque " ++ callText n ps qs) = (cs!"opaque" ++ [' ']) ++ callP n ps qs := by
      rw [padLine_append, padLine_callText _ _ _ hn4]; rfl
    refine ⟨[cs!"opaque" :: callToks n ps qs qs], ?_, by simp [tokensOf]⟩
    rw [hr]
    simp only [List.flatMap_cons, List.flatMap_nil, List.append_nil]
    rw [lineCommands_semi _ (by rw [hp]; exact defHead_okL _ isWord_opaque n ps qs h.1.1 h.1.2 h.2)
      (by rw [hp]; simp), hp]
    apply tokenizeCmds_cons _ _ _ _ _ rfl
    have := defHead_tokens cs!"opaque" head_opaque reIfHead_opaque n ps qs h.1.1 h.1.2 h.2 [] rfl
    simpa using this
  | gate d =>
    simp only [stmtOk, Bool.and_eq_true] at h
    obtain ⟨hn1, _, _, hn4⟩ := isWord_parts h.1.1.1
    -- the head line
    have hp : padLine (cs!"gate " ++ callText d.name d.params d.qargs) = (cs!"gate" ++ [' ']) ++ callP d.name d.params d.qargs := by
      rw [padLine_append, padLine_callText _ _ _ hn4]; rfl
    have hokl := defHead_okL _ isWord_gate d.name d.params d.qargs h.1.1.1 h.1.1.2 h.1.2
    have hhead : lineCommands (cs!"gate " ++ callText d.name d.params d.qargs ++ cs!" {") =
        [(cs!"gate" ++ [' ']) ++ callP d.name d.params d.qargs ++ cs!"  ", cs!" { ", cs!" "] := by
      unfold lineCommands
      rw [padLine_append, hp, padLine_open]
      have hno : ';' ∉ (cs!"gate" ++ [' ']) ++ callP d.name d.params d.qargs ++ cs!"  " := by
        have h0 : ';' ∉ (cs!"gate" ++ [' ']) ++ callP d.name d.params d.qargs := not_mem_of_all hokl (by decide)
        intro hm
        rcases List.mem_append.mp hm with hm | hm
        · exact h0 hm
        · revert hm; decide
      have e : (cs!"gate" ++ [' ']) ++ callP d.name d.params d.qargs ++ cs!"  ; { ; " =
          ((cs!"gate" ++ [' ']) ++ callP d.name d.params d.qargs ++ cs!"  ") ++ ';' :: cs!" { ; " := by
        simp [List.append_assoc]
      rw [e, splitOn_append ';' _ _ hno]
      have : splitOn ';' cs!" { ; " = [cs!" { ", cs!" "] := by decide
      rw [this]
      simp
    have h1 : tokenizeCmds (lineCommands (cs!"gate " ++ callText d.name d.params d.qargs ++ cs!" {")) =
        .ok [cs!"gate" :: callToks d.name d.params d.qargs d.qargs, [cs!"{"], []] := by
      rw [hhead]
      apply tokenizeCmds_cons _ _ _ _
        (defHead_tokens cs!"gate" head_gate reIfHead_gate d.name d.params d.qargs h.1.1.1 h.1.1.2 h.1.2 cs!"  "
          (by decide))
      apply tokenizeCmds_cons _ _ _ _ tokenizeLine_open
      exact tokenizeCmds_cons _ _ _ _ tokenizeLine_blank rfl
    have hr : (Stmt.gate d).render =
        (cs!"gate " ++ callText d.name d.params d.qargs ++ cs!" {") :: (d.body.map GOp.render ++ [cs!"}"]) := by
      simp [Stmt.render, callText, renderFormals, paren]
    refine ⟨[cs!"gate" :: callToks d.name d.params d.qargs d.qargs, [cs!"{"], []] ++
      (d.body.map gopToks ++ [[], [cs!"}"], []]), ?_, ?_⟩
    · rw [hr]
      simp only [List.flatMap_cons, List.flatMap_append, List.flatMap_nil, List.append_nil]
      exact tokenizeCmds_append _ _ _ _ h1
        (tokenizeCmds_append _ _ _ _ (body_cmds d.body h.2) tokenize_close)
    · have hb : (d.body.map gopToks).filter (fun ts => !ts.isEmpty) = d.body.map gopToks := by
        rw [List.filter_eq_self]
        intro ts hts
        simp only [List.mem_map] at hts
        obtain ⟨g, _, rfl⟩ := hts
        simpa using gopToks_ne g
      simp [tokensOf, List.filter_append, hb, List.filter_cons]

/-! ## the theorem -/

theorem program_cmds (p : Program) (h : TokClass p = true) :
    ∃ L, tokenizeCmds ((renderProgram p).flatMap lineCommands) = .ok L ∧
      L.filter (fun ts => !ts.isEmpty) = p.flatMap tokensOf := by
  induction p with
  | nil => exact ⟨[], rfl, rfl⟩
  | cons s ss ih =>
    simp only [TokClass, List.all_cons, Bool.and_eq_true] at h
    obtain ⟨L1, h1, f1⟩ := stmt_cmds s h.1
    obtain ⟨L2, h2, f2⟩ := ih h.2
    refine ⟨L1 ++ L2, ?_, ?_⟩
    · simp only [renderProgram, List.flatMap_cons, List.flatMap_append] at h2 ⊢
      exact tokenizeCmds_append _ _ _ _ h1 h2
    · simp [List.filter_append, f1, f2]

/-- **`_tokenize` on a rendered program returns the token lists of its statements** — every program of
`TokClass` -/
theorem tokenize_render (p : Program) (h : TokClass p = true) :
    tokenize (renderProgram p) = .ok (p.flatMap tokensOf) := by
  obtain ⟨L, h1, h2⟩ := program_cmds p h
  simp [tokenize, h1, h2]

/-! ## non-vacuity: nested parentheses behind an `if`, a definition with a body, measurements -/

/-- ```
include "qelib1.inc";
qreg q[2];
creg c[2];
gate g(p,lam) a,b {
U(p/2,0,-(lam+pi)) a;
cx a,b;
barrier a,b;
}
if(c==1) u2(1,(pi+pi)*(1.25-pi)) q[0];
if(c==3) measure q[1] -> c[0];
g(-(pi/2),sin(pi)) q[0],q[1];
measure q -> c;
barrier q[0],q;
``` -/
def exProg : Program :=
  [.incl cs!"qelib1.inc", .qreg cs!"q" 2, .creg cs!"c" 2,
   .gate ⟨cs!"g", [cs!"p", cs!"lam"], [cs!"a", cs!"b"],
     [.U (.div (.id cs!"p") (.lit cs!"2")) (.lit cs!"0") (.neg (.add (.id cs!"lam") .pi)) cs!"a",
      .call cs!"cx" [] [cs!"a", cs!"b"], .barrier [cs!"a", cs!"b"]]⟩,
   .ifc cs!"c" 1 (.call cs!"u2" [.lit cs!"1", .mul (.add .pi .pi) (.sub (.lit cs!"1.25") .pi)] [.idx cs!"q" 0]),
   .ifc cs!"c" 3 (.measure (.idx cs!"q" 1) (.idx cs!"c" 0)),
   .qop (.call cs!"g" [.neg (.div .pi (.lit cs!"2")), .fn cs!"sin" .pi] [.idx cs!"q" 0, .idx cs!"q" 1]),
   .qop (.measure (.whole cs!"q") (.whole cs!"c")),
   .barrier [.idx cs!"q" 0, .whole cs!"q"]]

example : TokClass exProg = true := by decide

example : tokenize (renderProgram exProg) = .ok (exProg.flatMap tokensOf) :=
  tokenize_render exProg (by decide)

end QipVerif.Qasm.Tok
