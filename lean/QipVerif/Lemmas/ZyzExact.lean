import QipVerif.Lemmas.ZyzModel

/-!
# C17 — the three decompositions are exact on all of U(2)
-/
namespace QipVerif.Zyz
open Matrix Complex
open QipVerif.Gen.Zyz

theorem negConj_eq (z : ℂ) : negConj z = (starRingEnd ℂ) z := by
  apply Complex.ext <;> simp [negConj]

/-- the principal square root squares to its argument -/
theorem csqrt_mul_self (z : ℂ) : csqrt z * csqrt z = z := by
  unfold csqrt
  by_cases hz : z = 0
  · subst hz; simp
  · rw [← Complex.cpow_add _ _ hz]; norm_num

/-- a square root of a unit complex number is a unit complex number -/
theorem norm_sqrt_unit {n d : ℂ} (hn : n * n = d) (hd : ‖d‖ = 1) : ‖n‖ = 1 := by
  have h : ‖n‖ ^ 2 = 1 := by rw [sq, ← norm_mul, hn, hd]
  exact eq_one_of_sq_eq_one (norm_nonneg n) h

/-- the core: `Ph(−N)·Rz(A+B)·Ry(−2T)·Rz(A−B) = U` where `A B T N` are the four atoms. -/
theorem core_exact (U : M2) (hU : U ∈ Matrix.unitaryGroup (Fin 2) ℂ) (n : ℂ) (hn : n * n = U.det) :
    Ph (-atomN n) * (Rz (atomA U n + atomB U n) * (Ry (-(2 * atomT U n)) * Rz (atomA U n - atomB U n))) = U := by
  have hn1 : ‖n‖ = 1 := norm_sqrt_unit hn (unitary_norm_det hU)
  have hn0 : n ≠ 0 := by intro h0; rw [h0, norm_zero] at hn1; exact zero_ne_one hn1
  have hcn : n * (starRingEnd ℂ) n = 1 := by
    rw [Complex.mul_conj, Complex.normSq_eq_norm_sq, hn1]; norm_num
  have hcinv : (starRingEnd ℂ) (1 / n) = n := by
    have hcn0 : (starRingEnd ℂ) n ≠ 0 := (map_ne_zero _).mpr hn0
    rw [map_div₀, map_one, div_eq_iff hcn0, hcn]
  -- the two entries of the normalised first row
  set a : ℂ := U 0 0 * (1 / n) with ha
  set b : ℂ := U 0 1 * (1 / n) with hb
  have hna : n * a = U 0 0 := by rw [ha]; field_simp
  have hnb : n * b = U 0 1 := by rw [hb]; field_simp
  have hca : n * (starRingEnd ℂ) a = U 1 1 := by
    rw [unitary_u11 hU, ha, map_mul, hcinv, ← hn]; ring
  have hcb : n * (starRingEnd ℂ) b = -(U 1 0) := by
    rw [unitary_u10 hU, hb, map_mul, hcinv, ← hn]; ring
  have hnorm : ‖(starRingEnd ℂ) a‖ ^ 2 + ‖(starRingEnd ℂ) b‖ ^ 2 = 1 := by
    have h1 := unitary_norm_row hU
    rw [ha, hb, Complex.norm_conj, Complex.norm_conj, norm_mul, norm_mul, norm_div, norm_one, hn1]
    simpa using h1
  obtain ⟨hcos, hsin⟩ := cos_sin_arg_unit hnorm
  -- atoms
  have hA : atomA U n = ((starRingEnd ℂ) a).arg := by simp [atomA, normalised, negConj_eq, ha]
  have hB : atomB U n = ((starRingEnd ℂ) b).arg := by simp [atomB, normalised, negConj_eq, hb]
  have hT : atomT U n = Complex.arg ⟨‖(starRingEnd ℂ) a‖, ‖(starRingEnd ℂ) b‖⟩ := by
    simp [atomT, arctan2, normalised, negConj_eq, ha, hb]
  have hcosC : Complex.cos (((-(2 * atomT U n) : ℝ) : ℂ) / 2) = (‖(starRingEnd ℂ) a‖ : ℂ) := by
    rw [show ((-(2 * atomT U n) : ℝ) : ℂ) / 2 = ((-(atomT U n) : ℝ) : ℂ) by push_cast; ring,
      ← Complex.ofReal_cos, Real.cos_neg, hT, hcos]
  have hsinC : Complex.sin (((-(2 * atomT U n) : ℝ) : ℂ) / 2) = -(‖(starRingEnd ℂ) b‖ : ℂ) := by
    rw [show ((-(2 * atomT U n) : ℝ) : ℂ) / 2 = ((-(atomT U n) : ℝ) : ℂ) by push_cast; ring,
      ← Complex.ofReal_sin, Real.sin_neg, hT, hsin]; push_cast; ring
  have hphase : cexp (I * ((-atomN n : ℝ) : ℂ)) = n := by
    have := exp_neg_arg_inv hn1
    simpa [atomN] using this
  have eA := norm_mul_exp_arg ((starRingEnd ℂ) a)
  have eA' := norm_mul_exp_neg_arg ((starRingEnd ℂ) a)
  have eB := norm_mul_exp_arg ((starRingEnd ℂ) b)
  have eB' := norm_mul_exp_neg_arg ((starRingEnd ℂ) b)
  rw [Complex.conj_conj] at eA' eB'
  rw [Complex.norm_conj] at eA eA' eB eB'
  rw [prod_entries, hphase, hcosC, hsinC]
  have e1 : ((atomA U n - atomB U n : ℝ) + (atomA U n + atomB U n : ℝ) : ℂ) / 2 = (((starRingEnd ℂ) a).arg : ℂ) := by
    rw [hA]; push_cast; ring
  have e2 : ((atomA U n - atomB U n : ℝ) - (atomA U n + atomB U n : ℝ) : ℂ) / 2 = -(((starRingEnd ℂ) b).arg : ℂ) := by
    rw [hB]; push_cast; ring
  rw [e1, e2]
  ext i j
  fin_cases i <;> fin_cases j <;> simp [Matrix.smul_apply]
  · linear_combination hna + n * eA'
  · linear_combination hnb + n * eB'
  · linear_combination -hcb - n * eB
  · linear_combination hca + n * eA

/-! ## the three methods -/

theorem circDen_zyz (r0 r1 r2 r3 : ℝ) :
    circDen (inst zyz r0 r1 r2 r3) = Ph r3 * (Rz r2 * (Ry r1 * Rz r0)) := by
  simp [inst_zyz, circDen, gateMat, mul_assoc]

theorem circDen_zxz (r0 r1 r2 r3 : ℝ) :
    circDen (inst zxz r0 r1 r2 r3) = Ph r3 * (Rz r2 * (Ry r1 * Rz r0)) := by
  have h : circDen (inst zxz r0 r1 r2 r3)
      = Ph r3 * (Rz (r2 + Real.pi / 2) * (Rx r1 * Rz (r0 - Real.pi / 2))) := by
    simp [inst_zxz, circDen, gateMat, mul_assoc]
  rw [h, ← Rz_mul r2 (Real.pi / 2), show r0 - Real.pi / 2 = -(Real.pi / 2) + r0 by ring,
    ← Rz_mul (-(Real.pi / 2)) r0, ← Rz_Rx_Rz r1]
  simp only [mul_assoc]

theorem Xg_mul_Xg : Xg * Xg = 1 := by
  ext i j
  fin_cases i <;> fin_cases j <;> simp [Xg, Matrix.mul_apply, Fin.sum_univ_two]

theorem circDen_zyzPauliX (r0 r1 r2 r3 : ℝ) :
    circDen (inst zyzPauliX r0 r1 r2 r3) = Ph r3 * (Rz r2 * (Ry r1 * Rz r0)) := by
  have h : circDen (inst zyzPauliX r0 r1 r2 r3)
      = Ph r3 * (Rz ((-r0 + r2) / 2) * ((Xg * Rz (-(r0 + r2) / 2) * Xg) * (Xg * Ry (-r1 / 2) * Xg)
          * (Ry (r1 / 2) * Rz r0))) := by
    have hx : ∀ A B : M2, Xg * A * Xg * (Xg * B * Xg) = Xg * (A * (B * Xg)) := by
      intro A B
      calc Xg * A * Xg * (Xg * B * Xg) = Xg * A * (Xg * Xg) * B * Xg := by simp only [mul_assoc]
        _ = Xg * (A * (B * Xg)) := by rw [Xg_mul_Xg]; simp only [mul_one, mul_assoc]
    rw [hx]
    simp [inst_zyzPauliX, circDen, gateMat, mul_assoc]
  rw [h, X_Rz_X, X_Ry_X]
  have e1 : Rz ((-r0 + r2) / 2) * (Rz (-(-(r0 + r2) / 2)) * Ry (-(-r1 / 2)) * (Ry (r1 / 2) * Rz r0))
      = (Rz ((-r0 + r2) / 2) * Rz (-(-(r0 + r2) / 2))) * ((Ry (-(-r1 / 2)) * Ry (r1 / 2)) * Rz r0) := by
    simp only [mul_assoc]
  rw [e1, Rz_mul, Ry_mul, show (-r0 + r2) / 2 + -(-(r0 + r2) / 2) = r2 by ring,
    show -(-r1 / 2) + r1 / 2 = r1 by ring]

/-- ZYZ with any square root `n` of the determinant as `normalization_constant` -/
theorem zyz_exact_with (U : M2) (hU : U ∈ Matrix.unitaryGroup (Fin 2) ℂ) (n : ℂ) (hn : n * n = U.det) :
    circDen (gatesWith zyz U n) = U := by
  rw [gatesWith, circDen_zyz, ret_0, ret_1, ret_2, ret_3]; exact core_exact U hU n hn

theorem zxz_exact_with (U : M2) (hU : U ∈ Matrix.unitaryGroup (Fin 2) ℂ) (n : ℂ) (hn : n * n = U.det) :
    circDen (gatesWith zxz U n) = U := by
  rw [gatesWith, circDen_zxz, ret_0, ret_1, ret_2, ret_3]; exact core_exact U hU n hn

theorem zyzPauliX_exact_with (U : M2) (hU : U ∈ Matrix.unitaryGroup (Fin 2) ℂ) (n : ℂ) (hn : n * n = U.det) :
    circDen (gatesWith zyzPauliX U n) = U := by
  rw [gatesWith, circDen_zyzPauliX, ret_0, ret_1, ret_2, ret_3]; exact core_exact U hU n hn

theorem normConst_sq (U : M2) : normConst U * normConst U = U.det := csqrt_mul_self _

end QipVerif.Zyz
