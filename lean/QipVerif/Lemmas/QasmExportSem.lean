import QipVerif.Lemmas.QasmExportValid
/-!
# Static semantics of the exported program (C10)

`flatten (programOf c)` succeeds for every circuit of the class and yields exactly one flat
operation per gate: the call `qasmName(params) controls++targets` (or the built-in `U`).
-/
namespace QipVerif.Qasm.Export
open QipVerif.Qasm

/-! ## table facts -/

def baseEntryOk (e : Str × Str) : Bool :=
  e.2 == cs!"U" ||
  ((match shapeOf e.1, qelib1.reverse.find? (fun q => q.name == e.2) with
    | some (nc, nt, np), some d => d.params.length == np && d.qargs.length == nc + nt
    | _, _ => false) && Gen.qasmDefns.all (fun e' => lower e'.1 != e.2))

theorem base_ok : Gen.gateNameToQasm.all baseEntryOk = true := by decide

theorem lower_inj_on_defs : ∀ e ∈ Gen.qasmDefns, ∀ e' ∈ Gen.qasmDefns, lower e.1 = lower e'.1 → e.1 = e'.1 := by
  decide

def calleesOk : Bool :=
  Gen.qasmDefns.all fun e =>
    match defOf e.1 with
    | some d => d.body.all fun g =>
        match g with
        | .call n _ _ => Gen.qasmDefns.all (fun e' => lower e'.1 != n)
        | _ => true
    | none => false

theorem callees_ok : calleesOk = true := by decide

/-! ## `flattenFrom` over concatenations -/

theorem flattenFrom_append {env e1 e2 : Env} {a b : Program} {o1 o2 : List FlatOp}
    (ha : flattenFrom env a = .ok (e1, o1)) (hb : flattenFrom e1 b = .ok (e2, o2)) :
    flattenFrom env (a ++ b) = .ok (e2, o1 ++ o2) := by
  induction a generalizing env o1 with
  | nil =>
    simp only [flattenFrom, Except.ok.injEq, Prod.mk.injEq] at ha
    obtain ⟨rfl, rfl⟩ := ha
    simpa using hb
  | cons s ss ih =>
    simp only [flattenFrom, bind, Except.bind] at ha
    cases hs : flattenStmt env s with
    | error e => simp [hs] at ha
    | ok r =>
      obtain ⟨env', ops⟩ := r
      simp only [hs] at ha
      cases hr : flattenFrom env' ss with
      | error e => simp [hr] at ha
      | ok r2 =>
        obtain ⟨env'', ops'⟩ := r2
        simp only [hr, Except.ok.injEq, Prod.mk.injEq] at ha
        obtain ⟨rfl, rfl⟩ := ha
        have := ih hr
        simp [flattenFrom, bind, Except.bind, hs, this, List.append_assoc]

/-! ## the environment after the header and the declarations -/

def qregsOf (N : Nat) : Regs := { regs := [(cs!"q", 0, N)], total := N }
def cregsOf (M : Nat) : Regs := if M ≠ 0 then { regs := [(cs!"c", 0, M)], total := M } else {}

theorem flatten_prefix (N M : Nat) :
    flattenFrom {} ([.version, .incl cs!"qelib1.inc"] ++
        (.qreg cs!"q" N :: (if M ≠ 0 then [.creg cs!"c" M] else []))) =
      .ok ({ qregs := qregsOf N, cregs := cregsOf M, gates := qelib1.reverse }, []) := by
  have h1 : (cs!"qelib1.inc" != cs!"qelib1.inc") = false := by decide
  have h2 : qelib1.any (fun d => (({} : Env).sig? d.name).isSome) = false := by decide
  by_cases hM : M = 0
  · simp [flattenFrom, flattenStmt, bind, Except.bind, h1, h2, hM, Regs.find?, Regs.add, qregsOf, cregsOf]
  · have h3 : (cs!"q" == cs!"c") = false := by decide
    simp [flattenFrom, flattenStmt, bind, Except.bind, h1, h2, hM, Regs.find?, Regs.add, qregsOf, cregsOf, h3]

/-! ## the definitions -/

/-- definitions of the table -/
def IsTableDef (d : GateDef) : Prop := ∃ n s, lookup Gen.qasmDefns n = some s ∧ defOf n = some d

theorem find_append_none {G Q : List GateDef} {p : GateDef → Bool} (h : ∀ d ∈ G, p d = false) :
    (G ++ Q).find? p = Q.find? p := by
  rw [List.find?_append]
  have : G.find? p = none := List.find?_eq_none.mpr (fun d hd => by simp [h d hd])
  simp [this]

theorem gopsOk_prefix (G Q : List GateDef) (ps qs : List Str) (body : List GOp)
    (h : ∀ g ∈ body, ∀ n es as, g = GOp.call n es as → ∀ d ∈ G, (d.name == n) = false) :
    gopsOk (G ++ Q) ps qs body = gopsOk Q ps qs body := by
  induction body with
  | nil => rfl
  | cons g gs ih =>
    have ih' := ih (fun g' hg' => h g' (by simp [hg']))
    have hg : gopOk (G ++ Q) ps qs g = gopOk Q ps qs g := by
      cases g with
      | call n es as =>
        have := h _ (by simp) n es as rfl
        simp only [gopOk, find_append_none this]
      | _ => rfl
    simp [gopsOk, hg, ih']

theorem tableDef_name {d : GateDef} (h : IsTableDef d) : ∃ e ∈ Gen.qasmDefns, d.name = lower e.1 := by
  obtain ⟨n, s, hs, hd⟩ := h
  obtain ⟨d', _, _, _, hd', _, _, hn, _⟩ := def_facts hs
  rw [hd] at hd'; cases hd'
  exact ⟨(n, s), lookup_mem hs, hn⟩

/-- one definition: accepted, the environment gains it -/
theorem flatten_def (env : Env) (G : List GateDef) (hG : env.gates = G ++ qelib1.reverse)
    (hGt : ∀ d ∈ G, IsTableDef d) (d : GateDef) (hd : IsTableDef d) (hnew : ∀ d' ∈ G, (d'.name == d.name) = false) :
    flattenStmt env (.gate d) = .ok ({ env with gates := d :: env.gates }, []) := by
  obtain ⟨n, s, hs, hdn⟩ := hd
  obtain ⟨d', nc, nt, np, hd', _, _, hn, hp, hq, _, _, hfree, hbody, _, _⟩ := def_facts hs
  rw [hdn] at hd'; cases hd'
  have hsig : (env.sig? d.name).isSome = false := by
    simp only [Env.sig?, hG, find_append_none hnew, hfree]; rfl
  have hb : gopsOk env.gates d.params d.qargs d.body = .ok () := by
    rw [hG, gopsOk_prefix G _ _ _ _ ?_, hbody]
    intro g hg m es as he d2 hd2
    obtain ⟨e2, he2, hn2⟩ := tableDef_name (hGt d2 hd2)
    have hc := callees_ok
    simp only [calleesOk, List.all_eq_true] at hc
    have h1 := hc _ (lookup_mem hs)
    simp only [hdn, List.all_eq_true] at h1
    have h2 := h1 g hg
    subst he
    simp only [List.all_eq_true, bne_iff_ne, ne_eq] at h2
    have := h2 _ he2
    rw [hn2]
    simpa using this
  simp [flattenStmt, hsig, hp, hq, hb, bind, Except.bind]

/-- all definitions of a duplicate-free list of table names -/
theorem flatten_defs (names : List Str) (hn : names.Nodup)
    (hk : ∀ n ∈ names, (lookup Gen.qasmDefns n).isSome = true)
    (env : Env) (G : List GateDef) (hG : env.gates = G ++ qelib1.reverse) (hGt : ∀ d ∈ G, IsTableDef d)
    (hdis : ∀ n ∈ names, ∀ d' ∈ G, (d'.name == lower n) = false) :
    flattenFrom env (names.filterMap fun n => (defOf n).map Stmt.gate) =
      .ok ({ env with gates := (names.filterMap defOf).reverse ++ env.gates }, []) := by
  induction names generalizing env G with
  | nil => simp [flattenFrom]
  | cons n ns ih =>
    obtain ⟨s, hs⟩ := Option.isSome_iff_exists.mp (hk n (by simp))
    obtain ⟨d, nc, nt, np, hd, _, _, hname, _⟩ := def_facts hs
    have htd : IsTableDef d := ⟨n, s, hs, hd⟩
    have h1 := flatten_def env G hG hGt d htd (fun d' hd' => by rw [hname]; exact hdis n (by simp) d' hd')
    have hnd := List.nodup_cons.mp hn
    have h2 := ih hnd.2 (fun m hm => hk m (by simp [hm])) { env with gates := d :: env.gates } (d :: G)
      (by simp [hG]) (fun d' hd' => by
        rcases List.mem_cons.mp hd' with rfl | h
        · exact htd
        · exact hGt d' h)
      (fun m hm d' hd' => by
        rcases List.mem_cons.mp hd' with rfl | h
        · -- distinct library names have distinct definition names
          rw [hname]
          obtain ⟨s', hs'⟩ := Option.isSome_iff_exists.mp (hk m (by simp [hm]))
          have hne : n ≠ m := fun e => hnd.1 (e ▸ hm)
          have h1' := lookup_mem hs
          have h2' := lookup_mem hs'
          cases hcon : (lower n == lower m) with
          | false => rfl
          | true =>
            exact absurd (lower_inj_on_defs _ h1' _ h2' (by simpa using hcon)) hne
        · exact hdis m (by simp [hm]) d' h)
    simp only [List.filterMap_cons, hd, Option.map_some, flattenFrom, bind, Except.bind, h1, h2]
    simp

/-! ## the gate applications -/

/-- the flat operation (standard's static semantics) a gate of the class is exported as -/
def flatOf (g : Gate) : FlatOp :=
  let ps := (argNums g.arg).map numExpr
  let qs := qubitsOf g
  if qasmName g.name == cs!"U" then
    .U none (ps.getD 0 .pi) (ps.getD 1 .pi) (ps.getD 2 .pi) (qs.getD 0 0)
  else .call none (qasmName g.name) ps qs

def flatOfOp : Op → Option FlatOp
  | .gate g => some (flatOf g)
  | _ => none

theorem numExpr_supported (x : Num) : (numExpr x).supported = true := by
  unfold numExpr; split <;> rfl
theorem numExpr_closed (x : Num) : (numExpr x).closedIn [] = true := by
  unfold numExpr; split <;> rfl

theorem resolveArgs_idx (N : Nat) (idx : List Nat) (h : ∀ i ∈ idx, i < N) :
    resolveArgs (qregsOf N) (idx.map (Arg.idx cs!"q")) = .ok (idx.map Sum.inl) := by
  induction idx with
  | nil => rfl
  | cons i r ih =>
    have hi : i < N := h i (by simp)
    have := ih (fun j hj => h j (by simp [hj]))
    have hf : (qregsOf N).find? cs!"q" = some (0, N) := by simp [Regs.find?, qregsOf]
    simp [resolveArgs, resolveArg, hf, hi, this, bind, Except.bind]

theorem broadcastSize_inl (idx : List Nat) :
    broadcastSize (idx.map (Sum.inl : Nat → Nat ⊕ List Nat)) = .ok none := by
  induction idx with
  | nil => rfl
  | cons i r ih => simpa [broadcastSize] using ih

theorem pick_inl (idx : List Nat) : (idx.map (Sum.inl : Nat → Nat ⊕ List Nat)).map (pick 0) = idx := by
  induction idx with
  | nil => rfl
  | cons i r ih => simp only [List.map_cons, pick, ih]

theorem broadcast_inl (idx : List Nat) (h : idx.Nodup) :
    broadcast (idx.map (Sum.inl : Nat → Nat ⊕ List Nat)) = .ok [idx] := by
  have e := pick_inl idx
  simp [broadcast, broadcastSize_inl, bind, Except.bind, pure, Except.pure, e, h, pick]

/-- the environment in which the applications are checked -/
def finalEnv (c : Circuit) : Env :=
  { qregs := qregsOf c.N, cregs := cregsOf c.numCbits,
    gates := ((addedNames c.ops Gen.gateNameToQasm).filterMap defOf).reverse ++ qelib1.reverse }

theorem mem_added_defs {c : Circuit} {d : GateDef}
    (h : d ∈ ((addedNames c.ops Gen.gateNameToQasm).filterMap defOf).reverse) :
    ∃ n, n ∈ addedNames c.ops Gen.gateNameToQasm ∧ defOf n = some d := by
  simpa [List.mem_filterMap] using h

theorem defOf_some_lookup {n : Str} {d : GateDef} (h : defOf n = some d) :
    ∃ s, lookup Gen.qasmDefns n = some s := by
  unfold defOf at h
  cases hl : lookup Gen.qasmDefns n with
  | none => simp [hl] at h
  | some s => exact ⟨s, rfl⟩

theorem sig_of_good (c : Circuit) (hc : GoodCircuit c) (g : Gate) (hg : Op.gate g ∈ c.ops)
    (hgood : GoodGate c.N g) (hU : qasmName g.name ≠ cs!"U") :
    (finalEnv c).sig? (qasmName g.name) =
      some ⟨qasmName g.name, (argNums g.arg).length, (qubitsOf g).length⟩ := by
  obtain ⟨t, ts, ht⟩ := targets_ne_nil hgood
  have hql : (qubitsOf g).length = (ctrlList g).length + (g.targets.getD []).length := by
    simp [qubitsOf]
  have hmem := shapeOf_mem hgood.shape
  rcases shape_names _ hmem with ⟨h1, _⟩ | ⟨h1, h2⟩
  · -- a `qelib1.inc` gate
    obtain ⟨q, hq⟩ := Option.isSome_iff_exists.mp h1
    have hqn : qasmName g.name = q := by simp [qasmName, hq]
    have hb := List.all_eq_true.mp base_ok _ (lookup_mem hq)
    simp only [baseEntryOk, Bool.or_eq_true, beq_iff_eq, Bool.and_eq_true] at hb
    rcases hb with hb | ⟨hb1, hb2⟩
    · exact absurd (hqn.trans hb) hU
    · rw [hgood.shape] at hb1
      cases hf : qelib1.reverse.find? (fun d => d.name == q) with
      | none => simp [hf] at hb1
      | some d =>
        simp only [hf, Bool.and_eq_true, beq_iff_eq] at hb1
        have hdn : d.name = q := by simpa using List.find?_some hf
        have hnone : ∀ d' ∈ ((addedNames c.ops Gen.gateNameToQasm).filterMap defOf).reverse,
            (d'.name == q) = false := by
          intro d' hd'
          obtain ⟨n, _, hdef⟩ := mem_added_defs hd'
          obtain ⟨s, hs⟩ := defOf_some_lookup hdef
          obtain ⟨d2, _, _, _, hd2, _, _, hname, _⟩ := def_facts hs
          rw [hdef] at hd2; cases hd2
          have := List.all_eq_true.mp hb2 _ (lookup_mem hs)
          rw [hname]
          simpa using this
        simp only [Env.sig?, finalEnv, find_append_none hnone, hqn, hf, Option.map_some, GateDef.sig,
          Option.some.injEq, Sig.mk.injEq]
        exact ⟨hdn, hb1.1, by rw [hql]; exact hb1.2⟩
  · -- a gate with an emitted definition
    obtain ⟨s, hs⟩ := Option.isSome_iff_exists.mp h2
    obtain ⟨d, nc, nt, np, hd, hsh, _, hname, _, _, hnp, hnq, _⟩ := def_facts hs
    have h1' : lookup Gen.gateNameToQasm g.name = none := by simpa using h1
    have hqn : qasmName g.name = lower g.name := by simp [qasmName, h1']
    have hin : g.name ∈ addedNames c.ops Gen.gateNameToQasm := by
      rcases addedNames_mem c.ops Gen.gateNameToQasm g hg with h | h
      · rw [h1'] at h; cases h
      · exact h
    have hdin : d ∈ ((addedNames c.ops Gen.gateNameToQasm).filterMap defOf).reverse := by
      simp only [List.mem_reverse, List.mem_filterMap]
      exact ⟨g.name, hin, hd⟩
    have hsome : (((addedNames c.ops Gen.gateNameToQasm).filterMap defOf).reverse.find?
        (fun d' => d'.name == lower g.name)).isSome = true := by
      rw [List.find?_isSome]
      exact ⟨d, hdin, by simp [hname]⟩
    obtain ⟨d', hd'⟩ := Option.isSome_iff_exists.mp hsome
    have hd'n : d'.name = lower g.name := by simpa using List.find?_some hd'
    obtain ⟨n', _, hdef'⟩ := mem_added_defs (List.mem_of_find?_eq_some hd')
    obtain ⟨s', hs'⟩ := defOf_some_lookup hdef'
    obtain ⟨d2, _, _, _, hd2, _, _, hname2, _⟩ := def_facts hs'
    rw [hdef'] at hd2; cases hd2
    have hnn : n' = g.name :=
      lower_inj_on_defs _ (lookup_mem hs') _ (lookup_mem hs) (hname2.symm.trans hd'n)
    subst hnn
    rw [hd] at hdef'; cases hdef'
    rw [hgood.shape] at hsh
    simp only [Option.some.injEq, Prod.mk.injEq] at hsh
    obtain ⟨rfl, rfl, rfl⟩ := hsh
    simp only [Env.sig?, finalEnv, List.find?_append, hqn, hd', Option.some_or, Option.map_some, GateDef.sig,
      Option.some.injEq, Sig.mk.injEq]
    exact ⟨hname, hnp, by rw [hql]; exact hnq⟩

/-- one application of the class: accepted, and it is the flat operation `flatOf g` -/
theorem flatten_gate (c : Circuit) (hc : GoodCircuit c) (g : Gate) (hg : Op.gate g ∈ c.ops)
    (hgood : GoodGate c.N g) :
    flattenStmt (finalEnv c) (stmtOf g) = .ok (finalEnv c, [flatOf g]) := by
  have hres := resolveArgs_idx c.N (qubitsOf g) hgood.range
  have hb := broadcast_inl (qubitsOf g) hgood.nodup
  have hsup : ((argNums g.arg).map numExpr).all Expr.supported = true := by
    simp [List.all_eq_true, numExpr_supported]
  have hcl : ((argNums g.arg).map numExpr).all (Expr.closedIn []) = true := by
    simp [List.all_eq_true, numExpr_closed]
  rcases qasmName_facts hgood with ⟨hU, hs⟩ | ⟨hU, _, _⟩
  · have hsh := hgood.shape
    rw [hs] at hsh
    simp only [Option.some.injEq, Prod.mk.injEq] at hsh
    obtain ⟨h0, h1, h3⟩ := hsh
    obtain ⟨t, ts, ht⟩ := targets_ne_nil hgood
    have hc0 : ctrlList g = [] := List.eq_nil_of_length_eq_zero h0.symm
    have hts : ts = [] := by
      simp only [ht, Option.getD_some, List.length_cons] at h1
      exact List.eq_nil_of_length_eq_zero (by omega)
    subst hts
    have hqs : qubitsOf g = [t] := by simp [qubitsOf, ht, hc0]
    rw [hqs] at hres hb
    match hx : argNums g.arg, h3 with
    | [a, b, c'], _ =>
      simp only [List.map_cons, List.map_nil] at hres hb
      simp [stmtOf, flatOf, hU, hx, hqs, flattenStmt, flattenQOp, condOf, finalEnv, bind, Except.bind,
        numExpr_supported, numExpr_closed, hres, hb]
  · have hUb : (qasmName g.name == cs!"U") = false := by simpa using hU
    have hsig := sig_of_good c hc g hg hgood hU
    have hres' : resolveArgs (finalEnv c).qregs ((qubitsOf g).map (Arg.idx cs!"q")) =
        .ok ((qubitsOf g).map Sum.inl) := hres
    simp [stmtOf, flatOf, hUb, flattenStmt, flattenQOp, condOf, bind, Except.bind, hsig, hsup, hcl, hres', hb]

theorem flatten_gates (c : Circuit) (hc : GoodCircuit c) : ∀ ops : List Op, (∀ op ∈ ops, op ∈ c.ops) →
    flattenFrom (finalEnv c) (ops.filterMap stmtOfOp) =
      .ok (finalEnv c, ops.filterMap flatOfOp) := by
  intro ops
  induction ops with
  | nil => intro _; rfl
  | cons op ops ih =>
    intro hsub
    obtain ⟨g, rfl, hg⟩ := hc op (hsub op (by simp))
    have h1 := flatten_gate c hc g (hsub _ (by simp)) hg
    have h2 := ih (fun o ho => hsub o (by simp [ho]))
    simp [flattenFrom, bind, Except.bind, h1, h2, stmtOfOp, flatOfOp]

/-- **static semantics of the exported program**: no complaint; the register has `c.N` qubits;
the operations are the calls of the circuit, in order -/
theorem flatten_programOf (c : Circuit) (hc : GoodCircuit c) :
    flatten (programOf c) =
      .ok (finalEnv c, c.ops.filterMap flatOfOp) := by
  have h1 := flatten_prefix c.N c.numCbits
  have hadded : ∀ n ∈ addedNames c.ops Gen.gateNameToQasm, (lookup Gen.qasmDefns n).isSome = true := by
    intro n hn
    obtain ⟨h0, g, hg, rfl⟩ := addedNames_not_in _ _ n hn
    rcases good_names c hc g hg with h | h
    · rw [h] at h0; cases h0
    · exact h
  have h2 := flatten_defs (addedNames c.ops Gen.gateNameToQasm) (addedNames_nodup _ _) hadded
    { qregs := qregsOf c.N, cregs := cregsOf c.numCbits, gates := qelib1.reverse } [] (by simp)
    (by simp) (by simp)
  have h3 := flatten_gates c hc c.ops (fun _ h => h)
  have h12 := flattenFrom_append h1 h2
  have h123 := flattenFrom_append h12 h3
  simpa [flatten, programOf, finalEnv, List.append_assoc] using h123

/-! ## header, acceptance -/

theorem headerOk_programOf (c : Circuit) : headerOk (programOf c) = true := by
  have h : ∀ s ∈ (c.ops.filterMap stmtOfOp), s ≠ Stmt.version := by
    intro s hs
    obtain ⟨op, _, hop⟩ := List.mem_filterMap.mp hs
    cases op with
    | meas ts st => simp [stmtOfOp] at hop
    | gate g =>
      simp only [stmtOfOp, Option.some.injEq] at hop
      subst hop
      unfold stmtOf
      split <;> simp
  have h2 : ∀ s ∈ ((addedNames c.ops Gen.gateNameToQasm).filterMap fun n => (defOf n).map Stmt.gate),
      s ≠ Stmt.version := by
    intro s hs
    obtain ⟨n, _, hn⟩ := List.mem_filterMap.mp hs
    cases hd : defOf n with
    | none => simp [hd] at hn
    | some d => simp [hd] at hn; subst hn; simp
  simp only [programOf, List.cons_append, List.nil_append, headerOk, Bool.not_eq_true', List.contains_eq_mem,
    decide_eq_false_iff_not, List.mem_cons, List.mem_append, reduceCtorEq, false_or, not_or]
  refine ⟨⟨?_, fun hh => h2 _ hh rfl⟩, fun hh => h _ hh rfl⟩
  split <;> simp

/-! ## refusal -/

theorem defsLoop_refuses (ops : List Op) (m : List (Str × Str))
    (hm : ∀ k, (lookup m k).isSome = true →
      (lookup Gen.gateNameToQasm k).isSome = true ∨ (lookup Gen.qasmDefns k).isSome = true)
    (g : Gate) (hg : Op.gate g ∈ ops) (hb : lookup Gen.gateNameToQasm g.name = none)
    (hd : lookup Gen.qasmDefns g.name = none) : ∃ e, defsLoop ops m = .error e := by
  induction ops generalizing m with
  | nil => cases hg
  | cons op ops ih =>
    cases op with
    | meas ts st =>
      simp only [List.mem_cons, reduceCtorEq, false_or] at hg
      simpa [defsLoop] using ih m hm hg
    | gate g' =>
      simp only [defsLoop]
      by_cases hl : (lookup m g'.name).isSome = true
      · simp only [hl, if_true]
        rcases List.mem_cons.mp hg with hh | hh
        · cases hh
          rcases hm _ hl with h | h
          · rw [hb] at h; cases h
          · rw [hd] at h; cases h
        · exact ih m hm hh
      · simp only [hl, Bool.false_eq_true, if_false]
        cases hq : lookup Gen.qasmDefns g'.name with
        | none =>
          simp only [qasmDefns, hq]
          by_cases hr : g'.name ∈ Gen.resolveAttrError
          · exact ⟨.attr, by simp [hr]⟩
          · exact ⟨.notImpl, by simp [hr]⟩
        | some s =>
          simp only [qasmDefns, hq]
          rcases List.mem_cons.mp hg with hh | hh
          · cases hh; rw [hd] at hq; cases hq
          · obtain ⟨e, he⟩ := ih (m ++ [(g'.name, lower g'.name)]) (fun k hk => by
              cases hmk : lookup m k with
              | some v => exact hm k (by simp [hmk])
              | none =>
                rw [lookup_append, hmk] at hk
                simp only [Option.none_or, lookup, List.find?_cons, List.find?_nil] at hk
                by_cases he : (g'.name == k) = true
                · have : g'.name = k := by simpa using he
                  right; rw [← this, hq]; rfl
                · simp [he] at hk) hh
            exact ⟨e, by simp [he]⟩

end QipVerif.Qasm.Export
