import QipVerif.Lemmas.EmbedFlatKron
/-!
# `Qobj.permute` on flat indices is the permutation of subsystems (C08, flat-index model)

For every tensor structure `dimsA` (positive dimensions) and every `order` that is a permutation of the
positions, QuTiP's `_Indexer` sends the flat index `idx` to the flat index (radix
`new_dimensions[p] = dimsA[order[p]]`) whose digit `p` is digit `order[p]` of `idx` (`permute_digits`);
the map is injective on `[0, ∏ dimsA)` (`single_inj`), its explicit inverse is `unpermute` on the digits
(`single_preimage`), `index.all()` has `∏ dimsA` entries (`indexerSize_eq`), and therefore
`np.argsort(index.all())[X]` is the flat index with the un-permuted digits (`indexAll_idxOf`).
-/
namespace QipVerif.EmbedFlat
open QipVerif.Embed

/-- `new_dimensions` -/
def ndOf (dimsA order : List Nat) : List Nat := order.map (fun o => dimsA.getD o 0)

theorem digits_valid (dims : List Nat) (idx : Nat) (hpos : ∀ d ∈ dims, 0 < d) :
    ValidDigits dims (digits dims idx) := by
  refine ⟨digits_length dims idx, fun i h1 h2 => ?_⟩
  have a := digits_getD dims idx i h2
  have b := digitAt_lt dims idx i h2 hpos
  simp only [List.getD_eq_getElem?_getD, List.getElem?_eq_getElem h1, List.getElem?_eq_getElem h2,
    Option.getD_some] at a b
  omega

section
variable {dimsA order : List Nat}

theorem perm_lt (hperm : order.Perm (List.range dimsA.length)) {o : Nat} (ho : o ∈ order) :
    o < dimsA.length := List.mem_range.mp (hperm.subset ho)

theorem perm_mem (hperm : order.Perm (List.range dimsA.length)) {j : Nat} (hj : j < dimsA.length) :
    j ∈ order := hperm.symm.subset (List.mem_range.mpr hj)

theorem perm_len (hperm : order.Perm (List.range dimsA.length)) : order.length = dimsA.length := by
  rw [hperm.length_eq, List.length_range]

theorem ndOf_length : (ndOf dimsA order).length = order.length := by simp [ndOf]

theorem ndOf_pos (hperm : order.Perm (List.range dimsA.length)) (hpos : ∀ d ∈ dimsA, 0 < d) :
    ∀ d ∈ ndOf dimsA order, 0 < d := by
  intro d hd
  obtain ⟨o, ho, rfl⟩ := List.mem_map.mp hd
  have := perm_lt hperm ho
  simp only [List.getD_eq_getElem?_getD, List.getElem?_eq_getElem this, Option.getD_some]
  exact hpos _ (List.getElem_mem this)

/-- **Meaning of `Qobj.permute` on flat indices.** -/
theorem permute_digits (hperm : order.Perm (List.range dimsA.length)) (hpos : ∀ d ∈ dimsA, 0 < d)
    (idx : Nat) :
    single dimsA (cumprod order (ndOf dimsA order)) idx < prodL (ndOf dimsA order) ∧
    digits (ndOf dimsA order) (single dimsA (cumprod order (ndOf dimsA order)) idx)
      = order.map (fun o => (digits dimsA idx).getD o 0) := by
  have hlo := perm_len hperm
  have hln : (ndOf dimsA order).length = dimsA.length := by rw [ndOf_length, hlo]
  rw [single_eq_undigits dimsA (ndOf dimsA order) order (by rw [hln]; exact hperm) hln.symm idx]
  apply digits_undigits
  · simp [ndOf]
  · intro i h1 h2
    have hi : i < order.length := by simpa using h1
    have ho := perm_lt hperm (List.getElem_mem hi)
    have a := digits_getD dimsA idx order[i] ho
    have b := digitAt_lt dimsA idx order[i] ho hpos
    simp only [ndOf, List.getElem_map]
    omega

/-- explicit preimage: un-permute the digits -/
theorem single_preimage (hperm : order.Perm (List.range dimsA.length)) (hpos : ∀ d ∈ dimsA, 0 < d)
    (X : Nat) (hX : X < prodL (ndOf dimsA order)) :
    undigits dimsA (unpermute order (digits (ndOf dimsA order) X)) < prodL dimsA ∧
    single dimsA (cumprod order (ndOf dimsA order))
      (undigits dimsA (unpermute order (digits (ndOf dimsA order) X))) = X := by
  have hlo := perm_len hperm
  have hnd : order.Nodup := hperm.symm.nodup List.nodup_range
  have hln : (ndOf dimsA order).length = dimsA.length := by rw [ndOf_length, hlo]
  have hposn := ndOf_pos hperm hpos
  -- the un-permuted digit list is valid for `dimsA`
  have hv := digits_valid (ndOf dimsA order) X hposn
  have hval : ∀ i (h1 : i < (unpermute order (digits (ndOf dimsA order) X)).length) (h2 : i < dimsA.length),
      (unpermute order (digits (ndOf dimsA order) X))[i] < dimsA[i] := by
    intro i h1 h2
    have hm := perm_mem hperm h2
    have hidx : order.idxOf i < order.length := List.idxOf_lt_length_of_mem hm
    have hidx' : order.idxOf i < (digits (ndOf dimsA order) X).length := by rw [hv.1, ndOf_length]; exact hidx
    have hidx'' : order.idxOf i < (ndOf dimsA order).length := by rw [ndOf_length]; exact hidx
    have := hv.2 (order.idxOf i) hidx' hidx''
    simp only [unpermute, List.getElem_map, List.getElem_range, List.getD_eq_getElem?_getD,
      List.getElem?_eq_getElem hidx', Option.getD_some]
    have e : (ndOf dimsA order)[order.idxOf i] = dimsA[i] := by
      simp only [ndOf, List.getElem_map, List.getElem_idxOf hidx, List.getD_eq_getElem?_getD,
        List.getElem?_eq_getElem h2, Option.getD_some]
    omega
  have hlen : (unpermute order (digits (ndOf dimsA order) X)).length = dimsA.length := by
    simp [unpermute, hlo]
  obtain ⟨h1, h2⟩ := digits_undigits dimsA _ hlen hval
  refine ⟨h1, ?_⟩
  rw [single_eq_undigits dimsA (ndOf dimsA order) order (by rw [hln]; exact hperm) hln.symm, h2]
  have : order.map (fun o => (unpermute order (digits (ndOf dimsA order) X)).getD o 0)
      = digits (ndOf dimsA order) X := by
    apply List.ext_getElem
    · rw [List.length_map, hv.1, ndOf_length]
    · intro p hp1 hp2
      have hp : p < order.length := by simpa using hp1
      have ho := perm_lt hperm (List.getElem_mem hp)
      simp only [List.getElem_map, unpermute, List.getD_eq_getElem?_getD]
      rw [List.getElem?_eq_getElem (by simp; omega)]
      simp only [List.getElem_map, List.getElem_range, Option.getD_some, hnd.idxOf_getElem p hp,
        List.getElem?_eq_getElem hp2]
  rw [this, undigits_digits _ _ hX]

/-- `_Indexer.single` is injective on the flat indices of the argument -/
theorem single_inj (hperm : order.Perm (List.range dimsA.length)) (hpos : ∀ d ∈ dimsA, 0 < d)
    (i i' : Nat) (hi : i < prodL dimsA) (hi' : i' < prodL dimsA)
    (h : single dimsA (cumprod order (ndOf dimsA order)) i = single dimsA (cumprod order (ndOf dimsA order)) i') :
    i = i' := by
  have e1 := (permute_digits hperm hpos i).2
  have e2 := (permute_digits hperm hpos i').2
  rw [h, e2] at e1
  have hd : digits dimsA i = digits dimsA i' := by
    apply List.ext_getElem
    · simp [digits_length]
    · intro j h1 h2
      have hj : j < dimsA.length := by simpa [digits_length] using h1
      have hm := perm_mem hperm hj
      have hidx : order.idxOf j < order.length := List.idxOf_lt_length_of_mem hm
      have := congrArg (fun l => l[order.idxOf j]?) e1
      simp only [List.getElem?_map, List.getElem?_eq_getElem hidx, Option.map_some,
        List.getElem_idxOf hidx, List.getD_eq_getElem?_getD, List.getElem?_eq_getElem h1,
        List.getElem?_eq_getElem h2, Option.getD_some, Option.some.injEq] at this
      exact this.symm
  rw [← undigits_digits dimsA i hi, ← undigits_digits dimsA i' hi', hd]

theorem prodL_ndOf (hperm : order.Perm (List.range dimsA.length)) :
    prodL (ndOf dimsA order) = prodL dimsA := by
  have h1 : (ndOf dimsA order).Perm ((List.range dimsA.length).map (fun o => dimsA.getD o 0)) :=
    hperm.map _
  have h2 : (List.range dimsA.length).map (fun o => dimsA.getD o 0) = dimsA := by
    apply List.ext_getElem
    · simp
    · intro i h1 h2; simp [List.getD_eq_getElem?_getD, h2]
  rw [h2] at h1
  rw [prodL_eq_prod, prodL_eq_prod, h1.prod_eq]

/-- `self.size = cumprod[order[0]] * new_dimensions[0]` is the total dimension -/
theorem indexerSize_eq (hperm : order.Perm (List.range dimsA.length)) (h0 : 0 < dimsA.length) :
    indexerSize order (ndOf dimsA order) = prodL dimsA := by
  have hlo := perm_len hperm
  have hnd : order.Nodup := hperm.symm.nodup List.nodup_range
  have h0' : 0 < order.length := by omega
  have ho : order.getD 0 0 = order[0] := by simp [List.getD_eq_getElem?_getD, h0']
  unfold indexerSize
  rw [ho, cumprod_get order _ hnd ndOf_length order[0] (by
      rw [hlo]; exact perm_lt hperm (List.getElem_mem h0')) (List.getElem_mem h0'),
    hnd.idxOf_getElem 0 h0', ← prodL_ndOf hperm]
  have h0n : 0 < (ndOf dimsA order).length := by rw [ndOf_length]; exact h0'
  have e := prodL_drop (ndOf dimsA order) 0 h0n
  rw [List.drop_zero] at e
  rw [e, Nat.mul_comm]
  simp [List.getD_eq_getElem?_getD, h0n]

theorem idxOf_range_map (f : Nat → Nat) (n i0 X : Nat) (h0 : i0 < n) (hf : f i0 = X)
    (hu : ∀ i, i < n → f i = X → i = i0) : ((List.range n).map f).idxOf X = i0 := by
  unfold List.idxOf
  rw [List.findIdx_eq (by simpa using h0)]
  constructor
  · simp [hf]
  · intro j hj
    have hjn : j < n := by omega
    simp only [List.getElem_map, List.getElem_range, beq_eq_false_iff_ne, ne_eq]
    intro h
    have := hu j hjn h
    omega

/-- `np.argsort(index.all())[X]` (the row of the argument that is placed at row `X` of the result) is the
flat index with the un-permuted digits. -/
theorem indexAll_idxOf (hperm : order.Perm (List.range dimsA.length)) (hpos : ∀ d ∈ dimsA, 0 < d)
    (X : Nat) (hX : X < prodL (ndOf dimsA order)) :
    (indexAll dimsA order (ndOf dimsA order)).idxOf X =
      undigits dimsA (unpermute order (digits (ndOf dimsA order) X)) := by
  by_cases h0 : 0 < dimsA.length
  · obtain ⟨h1, h2⟩ := single_preimage hperm hpos X hX
    unfold indexAll
    rw [indexerSize_eq hperm h0]
    exact idxOf_range_map _ _ _ X h1 h2 (fun i hi hfi => single_inj hperm hpos i _ hi h1 (hfi.trans h2.symm))
  · have hA : dimsA = [] := List.length_eq_zero_iff.mp (by omega)
    have hO : order = [] := List.length_eq_zero_iff.mp (by rw [perm_len hperm]; omega)
    subst hA hO
    simp [indexAll, indexerSize, cumprod, cumLoop, undigits]

/-- the placement read forwards (`_indices_csr_full`): input row `n` is output row `index.all()[n]` -/
theorem permuteEntries_scatter (hperm : order.Perm (List.range dimsA.length)) (hpos : ∀ d ∈ dimsA, 0 < d)
    (inp : Nat → Nat → Entry) (n m : Nat) (hn : n < prodL dimsA) (hm : m < prodL dimsA) :
    permuteEntries (indexAll dimsA order (ndOf dimsA order)) inp
      (single dimsA (cumprod order (ndOf dimsA order)) n)
      (single dimsA (cumprod order (ndOf dimsA order)) m) = inp n m := by
  have key : ∀ n, n < prodL dimsA →
      (indexAll dimsA order (ndOf dimsA order)).idxOf (single dimsA (cumprod order (ndOf dimsA order)) n) = n := by
    intro n hn
    by_cases h0 : 0 < dimsA.length
    · unfold indexAll
      rw [indexerSize_eq hperm h0]
      exact idxOf_range_map _ _ _ _ hn rfl (fun i hi hfi => single_inj hperm hpos i _ hi hn hfi)
    · have hA : dimsA = [] := List.length_eq_zero_iff.mp (by omega)
      have hO : order = [] := List.length_eq_zero_iff.mp (by rw [perm_len hperm]; omega)
      subst hA hO
      simp only [prodL, Nat.lt_one_iff] at hn
      subst hn
      simp [indexAll, indexerSize, cumprod, cumLoop]
  unfold permuteEntries
  rw [key n hn, key m hm]

end
end QipVerif.EmbedFlat
