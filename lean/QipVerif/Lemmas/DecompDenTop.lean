import QipVerif.Lemmas.DecompDenStages
/-!
# C03 — composition: dispatch, the main loop, the two-qubit basis pass, elimination, `resolve`
-/
namespace QipVerif.Decomp
open QipVerif QipVerif.Gen Matrix GateC

/-! ## well-formedness is preserved by the tables -/

def wfT (t : TGate) : Bool := !(rotXYZ.contains t.name) || t.controls.isEmpty

theorem gateRule_wfT (n : GName) (body : List TGate) (h : gateRule n = .templ body) :
    body.all wfT = true := by
  cases n <;> simp only [gateRule, reduceCtorEq] at h <;> (cases h; decide)

theorem basisRule_wfT (y n : GName) (body : List TGate) (h : basisRule y n = some body) :
    body.all wfT = true := by
  cases y <;> cases n <;> simp only [basisRule, reduceCtorEq] at h <;> (cases h; decide)

theorem inst_wf (g : Gate) (t : TGate) (g' : Gate) (h : t.inst g = some g') (ht : wfT t = true) :
    wf1 g' = true := by
  unfold TGate.inst at h
  split at h
  · rename_i ts cs h1 h2
    cases h
    simp only [wfT, Bool.or_eq_true, List.isEmpty_iff] at ht
    simp only [wf1, Bool.or_eq_true, List.isEmpty_iff]
    rcases ht with hn | hc
    · exact Or.inl hn
    · right
      rw [hc] at h2
      simp at h2
      exact h2
  · cases h

theorem instBody_wf (g : Gate) (body : List TGate) (out : List Gate) (h : instBody g body = some out)
    (hb : body.all wfT = true) : ∀ x ∈ out, wf1 x = true := by
  intro x hx
  obtain ⟨t, ht, hi⟩ := mapM_mem _ body out h x hx
  exact inst_wf g t x hi (List.all_eq_true.mp hb t ht)

/-! ## dispatch -/

/-- the model's template halves a fixed PHASEGATE angle by integer division: exact for even `p8` -/
def phOK (g : Gate) : Bool := g.name != .PHASEGATE || g.arg.p8 % 2 == 0

theorem dispatch_den (N : ℕ) (ρ : ℕ → ℝ) (b2 : List GName) (inB : GName → Bool) (g : Gate)
    (M : Matrix (St N) (St N) ℂ) (hw : wf1 g = true) (hp : phOK g = true) (hM : semD N ρ g = some M)
    (out : List Gate) (h : dispatch tables b2 inB g = .ok out) :
    denG N ρ out = some M ∧ ∀ x ∈ out, wf1 x = true := by
  have hself : denG N ρ [g] = some M ∧ ∀ x ∈ [g], wf1 x = true :=
    ⟨by rw [denG_single]; exact hM, by intro x hx; simp at hx; subst hx; exact hw⟩
  unfold dispatch at h
  split at h
  · cases h; exact hself
  · split at h
    · cases h; exact hself
    · split at h
      · cases h; exact hself
      · cases h
      · split at h
        · cases h; exact hself
        · cases h
      · rename_i body hr
        split at h
        · rename_i gs hi
          cases h
          refine ⟨?_, instBody_wf g body _ hi (gateRule_wfT g.name body hr)⟩
          by_cases hP : g.name = .PHASEGATE
          · have : body = gate_PHASEGATE := by
              rw [hP] at hr; simp only [tables, gateRule] at hr; cases hr; rfl
            subst this
            have heven : g.arg.p8 % 2 = 0 := by simpa [phOK, hP] using hp
            exact phasegate_rule_den N ρ g M hP heven hM _ hi
          · by_cases hG : g.name = .GLOBALPHASE
            · have : body = gate_GLOBALPHASE := by
                rw [hG] at hr; simp only [tables, gateRule] at hr; cases hr; rfl
              subst this
              exact globalphase_rule_den N ρ g M hG hM _ hi
            · exact gateRule_lift g.name body hr hP hG N ρ g rfl M hM _ hi
        · cases h

/-! ## one gate of the loop, and the loop -/

theorem pauliSub_pre_wf (g0 : Gate) : ∀ x ∈ (pauliSub g0).1, wf1 x = true := by
  unfold pauliSub
  split
  · intro x hx; simp at hx; subst hx; rfl
  · split
    · intro x hx; simp at hx; subst hx; rfl
    · split
      · intro x hx; simp at hx; subst hx; rfl
      · intro x hx; cases hx

theorem pauliSub_phOK (g0 : Gate) (hp : phOK g0 = true) : phOK (pauliSub g0).2 = true := by
  unfold pauliSub
  split
  · rfl
  · split
    · rfl
    · split
      · rfl
      · exact hp

/-- input gates the theorem covers -/
def inputOK (g : Gate) : Bool := wf1 g && phOK g

theorem resolveOne_den (N : ℕ) (ρ : ℕ → ℝ) (b2 : List GName) (inB : GName → Bool) (g0 : Gate)
    (M : Matrix (St N) (St N) ℂ) (hok : inputOK g0 = true) (hM : semD N ρ g0 = some M)
    (pre out : List Gate) (h : resolveOne tables b2 inB g0 = .ok (pre, out)) :
    ∃ (c : ℂ) (M1 : Matrix (St N) (St N) ℂ), denG N ρ pre = some (c • 1) ∧ denG N ρ out = some M1 ∧
      c • M1 = M ∧ (∀ x ∈ pre, wf1 x = true) ∧ ∀ x ∈ out, wf1 x = true := by
  simp only [inputOK, Bool.and_eq_true] at hok
  unfold resolveOne at h
  split at h
  · rename_i o hd
    cases h
    obtain ⟨c, M1, h1, h2, h3⟩ := pauliSub_den N ρ g0 M hok.1 hM
    obtain ⟨h4, h5⟩ := dispatch_den N ρ b2 inB _ M1 (pauliSub_wf g0 hok.1) (pauliSub_phOK g0 hok.2) h2 _ hd
    exact ⟨c, M1, h1, h4, h3, pauliSub_pre_wf g0, h5⟩
  · cases h

theorem resolveAll_den (N : ℕ) (ρ : ℕ → ℝ) (b2 : List GName) (inB : GName → Bool) (gs : List Gate) :
    ∀ (U : Matrix (St N) (St N) ℂ) (P R : List Gate), (∀ g ∈ gs, inputOK g = true) →
      denG N ρ gs = some U → resolveAll tables b2 inB gs = .ok (P, R) →
      ∃ (c : ℂ) (V : Matrix (St N) (St N) ℂ), denG N ρ P = some (c • 1) ∧ denG N ρ R = some V ∧
        c • V = U ∧ (∀ x ∈ P, wf1 x = true) ∧ ∀ x ∈ R, wf1 x = true := by
  induction gs with
  | nil =>
    intro U P R _ hU h
    simp only [resolveAll, Except.ok.injEq, Prod.mk.injEq] at h
    obtain ⟨rfl, rfl⟩ := h
    rw [denG_nil] at hU; cases hU
    exact ⟨1, 1, by simp [denG_nil], denG_nil N ρ, by simp, by simp, by simp⟩
  | cons g gs ih =>
    intro U P R hok hU h
    obtain ⟨Mg, Ugs, hg, hgs, rfl⟩ := denG_cons_inv N ρ g gs U hU
    unfold resolveAll at h
    cases h1 : resolveOne tables b2 inB g with
    | error e => simp [h1] at h
    | ok pr =>
      obtain ⟨p, r⟩ := pr
      cases h2 : resolveAll tables b2 inB gs with
      | error e => simp [h1, h2] at h
      | ok prs =>
        obtain ⟨ps, rs⟩ := prs
        simp only [h1, h2, Except.ok.injEq, Prod.mk.injEq] at h
        obtain ⟨rfl, rfl⟩ := h
        obtain ⟨c1, M1, hp1, hr1, hc1, hwp1, hwr1⟩ :=
          resolveOne_den N ρ b2 inB g Mg (hok g List.mem_cons_self) hg p r h1
        obtain ⟨c2, V2, hp2, hr2, hc2, hwp2, hwr2⟩ :=
          ih Ugs ps rs (fun x hx => hok x (List.mem_cons_of_mem _ hx)) hgs h2
        refine ⟨c2 * c1, V2 * M1, ?_, denG_append_some N ρ r rs M1 V2 hr1 hr2, ?_, ?_, ?_⟩
        · rw [denG_append_some N ρ p ps _ _ hp1 hp2]
          simp [smul_smul, mul_comm]
        · rw [← hc1, ← hc2]
          simp [smul_smul, mul_comm]
        · intro x hx
          rcases List.mem_append.mp hx with h | h
          · exact hwp1 x h
          · exact hwp2 x h
        · intro x hx
          rcases List.mem_append.mp hx with h | h
          · exact hwr1 x h
          · exact hwr2 x h

/-! ## the two-qubit basis pass -/

theorem basisPass_den (N : ℕ) (ρ : ℕ → ℝ) (y : GName) (gs : List Gate) :
    ∀ (V : Matrix (St N) (St N) ℂ) (out : List Gate), (∀ x ∈ gs, wf1 x = true) →
      denG N ρ gs = some V → basisPass tables y gs = .ok out →
      denG N ρ out = some V ∧ ∀ x ∈ out, wf1 x = true := by
  induction gs with
  | nil =>
    intro V out _ hV h
    simp only [basisPass, Except.ok.injEq] at h
    subst h
    exact ⟨hV, by simp⟩
  | cons g gs ih =>
    intro V out hw hV h
    obtain ⟨A, R, hg, hgs, rfl⟩ := denG_cons_inv N ρ g gs V hV
    unfold basisPass at h
    cases h1 : basisPass tables y gs with
    | error e => simp [h1] at h
    | ok rest =>
      obtain ⟨hrest, hwrest⟩ := ih R rest (fun x hx => hw x (List.mem_cons_of_mem _ hx)) hgs h1
      simp only [h1] at h
      split at h
      · cases h
        refine ⟨denG_cons_some N ρ g rest A R hg hrest, ?_⟩
        intro x hx
        rcases List.mem_cons.mp hx with rfl | hx'
        · exact hw x List.mem_cons_self
        · exact hwrest x hx'
      · rename_i body hb
        split at h
        · rename_i o hi
          cases h
          have hb' : basisRule y g.name = some body := hb
          have ho := basisRule_lift y g.name body hb' N ρ g rfl A hg o hi
          refine ⟨denG_append_some N ρ o rest A R ho hrest, ?_⟩
          intro x hx
          rcases List.mem_append.mp hx with h | h
          · exact instBody_wf g body o hi (basisRule_wfT y g.name body hb') x h
          · exact hwrest x h
        · cases h

/-! ## elimination over the whole list -/

theorem elimAll_den (N : ℕ) (ρ : ℕ → ℝ) (b1 : List GName) (gs : List Gate) :
    ∀ (V : Matrix (St N) (St N) ℂ), (∀ x ∈ gs, wf1 x = true) → denG N ρ gs = some V →
      denG N ρ (gs.flatMap (elim1q b1)) = some V := by
  induction gs with
  | nil => intro V _ hV; simpa using hV
  | cons g gs ih =>
    intro V hw hV
    obtain ⟨A, R, hg, hgs, rfl⟩ := denG_cons_inv N ρ g gs V hV
    rw [List.flatMap_cons]
    exact denG_append_some N ρ _ _ A R (elim1q_den N ρ b1 g A (hw g List.mem_cons_self) hg)
      (ih R (fun x hx => hw x (List.mem_cons_of_mem _ hx)) hgs)

/-! ## `resolve` -/

theorem resolve_den_core (N : ℕ) (ρ : ℕ → ℝ) (b : BasisSpec) (gs out : List Gate)
    (hok : ∀ g ∈ gs, inputOK g = true)
    (h : resolve tables true b gs = .ok out)
    (U : Matrix (St N) (St N) ℂ) (hU : denG N ρ gs = some U) : denG N ρ out = some U := by
  unfold resolve at h
  cases hs : splitBasis b with
  | error e => simp [hs] at h
  | ok r =>
    obtain ⟨b1, b2, inB⟩ := r
    simp only [hs] at h
    cases hr : resolveAll tables b2 inB gs with
    | error e => simp [hr] at h
    | ok pr =>
      obtain ⟨markers, temp⟩ := pr
      simp only [hr] at h
      obtain ⟨c, V, hP, hR, hcV, hwP, hwR⟩ := resolveAll_den N ρ b2 inB gs U markers temp hok hU hr
      -- whatever stage 2 returns is `markers ++ X` with the denotation of `temp`
      have join : ∀ X : List Gate, denG N ρ X = some V → (∀ x ∈ X, wf1 x = true) →
          denG N ρ (markers ++ X) = some U ∧ ∀ x ∈ markers ++ X, wf1 x = true := by
        intro X hX hwX
        refine ⟨?_, ?_⟩
        · rw [denG_append_some N ρ markers X _ _ hP hX, ← hcV]
          simp
        · intro x hx
          rcases List.mem_append.mp hx with h | h
          · exact hwP x h
          · exact hwX x h
      have fin : ∀ o : List Gate, denG N ρ o = some U → (∀ x ∈ o, wf1 x = true) →
          denG N ρ (if b1.length = 2 then o.flatMap (elim1q b1) else o) = some U := by
        intro o ho hwo
        split
        · exact elimAll_den N ρ b1 o U hwo ho
        · exact ho
      cases hf : List.find? b2.contains [GName.CSIGN, .ISWAP, .SQRTSWAP, .SQRTISWAP] with
      | none =>
        simp only [hf, if_true] at h
        cases h
        obtain ⟨h1, h2⟩ := join temp hR hwR
        exact fin _ h1 h2
      | some y =>
        simp only [hf] at h
        cases hb : basisPass tables y temp with
        | error e => simp [hb] at h
        | ok o =>
          simp only [hb] at h
          cases h
          obtain ⟨h1, h2⟩ := basisPass_den N ρ y temp V o hwR hR hb
          obtain ⟨h3, h4⟩ := join o h1 h2
          exact fin _ h3 h4

end QipVerif.Decomp
