import QipVerif.Lemmas.Sem
/-!
# C03 — working interface of the complex denotation `semG`/`denG` of the circuit IR

`semD` is the operator of one gate (the `den` of its placed gate) written without dependent
casts (`tgL`), `denG` unfolds by `denG_cons`/`denG_append`, GLOBALPHASE markers and one-qubit
gates have closed forms, and renaming the qubits of a gate list along an injective placement
relabels its denotation (`denG_rename`, the localisation lemma at the level of the IR).
-/
namespace QipVerif
open Matrix

/-- the placement given by a duplicate-free in-range list of qubits whose length is known to be `m` -/
def tgL (N : ℕ) (qs : List Nat) (m : ℕ) (hm : qs.length = m) (hn : qs.Nodup) (hr : ∀ q ∈ qs, q < N) :
    Tg m N where
  f := fun i => ⟨qs[i.val]'(hm ▸ i.isLt), hr _ (List.getElem_mem _)⟩
  inj := by
    intro a b hab
    have h1 : qs[a.val]'(hm ▸ a.isLt) = qs[b.val]'(hm ▸ b.isLt) := by simpa using congrArg Fin.val hab
    exact Fin.ext ((List.Nodup.getElem_inj_iff hn).mp h1)

theorem tgL_eq (N : ℕ) (qs : List Nat) (m : ℕ) (hm : qs.length = m) (hn : qs.Nodup) (hr : ∀ q ∈ qs, q < N) :
    hm ▸ tgOfList N qs hn hr = tgL N qs m hm hn hr := by
  subst hm; rfl

/-- the operator a gate applies on the `N`-qubit register -/
noncomputable def semD (N : ℕ) (ρ : ℕ → ℝ) (g : Gate) : Option (Matrix (St N) (St N) ℂ) :=
  (semG N ρ g).map PGate.den

theorem semD_eq (N : ℕ) (ρ : ℕ → ℝ) (g : Gate) :
    semD N ρ g = match compactC g.name (g.arg.eval ρ) with
      | none => none
      | some ⟨m, U⟩ =>
        if h : g.qubits.length = m ∧ g.qubits.Nodup ∧ ∀ q ∈ g.qubits, q < N then
          some ((tgL N g.qubits m h.1 h.2.1 h.2.2).embed U)
        else none := by
  unfold semD semG
  cases hc : compactC g.name (g.arg.eval ρ) with
  | none => simp
  | some mU =>
    obtain ⟨m, U⟩ := mU
    simp only []
    split
    · rename_i h
      simp [PGate.den, tgL_eq]
    · simp

/-- sufficient condition in the form used below -/
theorem semD_of (N : ℕ) (ρ : ℕ → ℝ) (g : Gate) (m : ℕ) (U : Matrix (St m) (St m) ℂ)
    (hc : compactC g.name (g.arg.eval ρ) = some ⟨m, U⟩)
    (hm : g.qubits.length = m) (hn : g.qubits.Nodup) (hr : ∀ q ∈ g.qubits, q < N) :
    semD N ρ g = some ((tgL N g.qubits m hm hn hr).embed U) := by
  rw [semD_eq, hc]
  simp only []
  rw [dif_pos ⟨hm, hn, hr⟩]

/-- inversion -/
theorem semD_inv (N : ℕ) (ρ : ℕ → ℝ) (g : Gate) (M : Matrix (St N) (St N) ℂ) (h : semD N ρ g = some M) :
    ∃ (m : ℕ) (U : Matrix (St m) (St m) ℂ) (hm : g.qubits.length = m) (hn : g.qubits.Nodup)
      (hr : ∀ q ∈ g.qubits, q < N),
      compactC g.name (g.arg.eval ρ) = some ⟨m, U⟩ ∧ M = (tgL N g.qubits m hm hn hr).embed U := by
  rw [semD_eq] at h
  cases hc : compactC g.name (g.arg.eval ρ) with
  | none => rw [hc] at h; cases h
  | some mU =>
    obtain ⟨m, U⟩ := mU
    rw [hc] at h
    simp only [] at h
    split at h
    · rename_i hh
      cases h
      exact ⟨m, U, hh.1, hh.2.1, hh.2.2, rfl, rfl⟩
    · cases h

theorem denG_nil (N : ℕ) (ρ : ℕ → ℝ) : denG N ρ [] = some 1 := by
  simp [denG, denP]

theorem denG_cons (N : ℕ) (ρ : ℕ → ℝ) (g : Gate) (gs : List Gate) :
    denG N ρ (g :: gs) = match semD N ρ g, denG N ρ gs with
      | some A, some R => some (R * A)
      | _, _ => none := by
  unfold denG semD
  rw [List.mapM_cons]
  cases h1 : semG N ρ g with
  | none => simp
  | some p =>
    cases h2 : gs.mapM (semG N ρ) with
    | none => simp
    | some ps => simp [denP]

theorem denG_cons_some (N : ℕ) (ρ : ℕ → ℝ) (g : Gate) (gs : List Gate) (A R : Matrix (St N) (St N) ℂ)
    (h1 : semD N ρ g = some A) (h2 : denG N ρ gs = some R) : denG N ρ (g :: gs) = some (R * A) := by
  rw [denG_cons, h1, h2]

theorem denG_cons_inv (N : ℕ) (ρ : ℕ → ℝ) (g : Gate) (gs : List Gate) (W : Matrix (St N) (St N) ℂ)
    (h : denG N ρ (g :: gs) = some W) :
    ∃ A R, semD N ρ g = some A ∧ denG N ρ gs = some R ∧ W = R * A := by
  rw [denG_cons] at h
  cases h1 : semD N ρ g with
  | none => simp [h1] at h
  | some A =>
    cases h2 : denG N ρ gs with
    | none => simp [h1, h2] at h
    | some R =>
      simp only [h1, h2, Option.some.injEq] at h
      exact ⟨A, R, rfl, rfl, h.symm⟩

theorem denG_single (N : ℕ) (ρ : ℕ → ℝ) (g : Gate) : denG N ρ [g] = semD N ρ g := by
  rw [denG_cons, denG_nil]
  cases semD N ρ g <;> simp

theorem denG_append_some (N : ℕ) (ρ : ℕ → ℝ) (a b : List Gate) (A B : Matrix (St N) (St N) ℂ)
    (ha : denG N ρ a = some A) (hb : denG N ρ b = some B) : denG N ρ (a ++ b) = some (B * A) := by
  induction a generalizing A with
  | nil =>
    rw [denG_nil] at ha; cases ha
    simpa using hb
  | cons g gs ih =>
    obtain ⟨G, R, hg, hR, rfl⟩ := denG_cons_inv N ρ g gs A ha
    rw [List.cons_append, denG_cons_some N ρ g (gs ++ b) G (B * R) hg (ih R hR), Matrix.mul_assoc]

theorem denG_append_inv (N : ℕ) (ρ : ℕ → ℝ) (a b : List Gate) (W : Matrix (St N) (St N) ℂ)
    (h : denG N ρ (a ++ b) = some W) :
    ∃ A B, denG N ρ a = some A ∧ denG N ρ b = some B ∧ W = B * A := by
  induction a generalizing W with
  | nil =>
    exact ⟨1, W, denG_nil N ρ, by simpa using h, by simp⟩
  | cons g gs ih =>
    rw [List.cons_append] at h
    obtain ⟨G, R, hg, hR, rfl⟩ := denG_cons_inv N ρ g (gs ++ b) W h
    obtain ⟨A, B, hA, hB, rfl⟩ := ih R hR
    exact ⟨A * G, B, denG_cons_some N ρ g gs G A hg hA, hB, by rw [Matrix.mul_assoc]⟩

/-- replacing a sub-circuit by one with the same denotation -/
theorem denG_congr_left (N : ℕ) (ρ : ℕ → ℝ) (a a' b : List Gate) (W : Matrix (St N) (St N) ℂ)
    (h : denG N ρ (a ++ b) = some W) (ha : ∀ A, denG N ρ a = some A → denG N ρ a' = some A) :
    denG N ρ (a' ++ b) = some W := by
  obtain ⟨A, B, hA, hB, rfl⟩ := denG_append_inv N ρ a b W h
  exact denG_append_some N ρ a' b A B (ha A hA) hB

/-! ## GLOBALPHASE markers -/

theorem compactC_gphase (θ : ℝ) :
    compactC .GLOBALPHASE θ = some ⟨0, GateC.phase θ • (1 : Matrix (St 0) (St 0) ℂ)⟩ := rfl

theorem semD_gphase (N : ℕ) (ρ : ℕ → ℝ) (g : Gate) (hname : g.name = .GLOBALPHASE) (hq : g.qubits = []) :
    semD N ρ g = some (GateC.phase (g.arg.eval ρ) • 1) := by
  have hc : compactC g.name (g.arg.eval ρ) = some ⟨0, GateC.phase (g.arg.eval ρ) • (1 : Matrix (St 0) (St 0) ℂ)⟩ := by
    rw [hname]; rfl
  rw [semD_of N ρ g 0 _ hc (by rw [hq]; rfl) (by rw [hq]; exact List.nodup_nil) (by rw [hq]; simp),
    Tg.embed_smul, Tg.embed_one]

theorem semD_gphase_inv (N : ℕ) (ρ : ℕ → ℝ) (g : Gate) (hname : g.name = .GLOBALPHASE)
    (M : Matrix (St N) (St N) ℂ) (h : semD N ρ g = some M) :
    g.qubits = [] ∧ M = GateC.phase (g.arg.eval ρ) • 1 := by
  obtain ⟨m, U, hm, hn, hr, hc, rfl⟩ := semD_inv N ρ g M h
  rw [hname, compactC_gphase] at hc
  cases hc
  have hq : g.qubits = [] := List.length_eq_zero_iff.mp hm
  refine ⟨hq, ?_⟩
  rw [Tg.embed_smul, Tg.embed_one]

/-! ## Renaming qubits: localisation at the level of the IR -/

/-- rename the qubits of a gate -/
def Gate.rename (f : Nat → Nat) (g : Gate) : Gate := ⟨g.name, g.targets.map f, g.controls.map f, g.arg⟩

theorem Gate.rename_qubits (f : Nat → Nat) (g : Gate) : (g.rename f).qubits = g.qubits.map f := by
  simp [Gate.rename, Gate.qubits]

theorem Tg.ext' {k N : ℕ} (a b : Tg k N) (h : ∀ i, a.f i = b.f i) : a = b := by
  cases a; cases b
  congr
  funext i; exact h i

/-- **Localisation (one gate).**  If `f` agrees with the placement `q : Tg m N` on `0 … m−1`, the
renamed gate applies on the `N`-qubit register the `q`-embedding of what the gate applies on the
`m`-qubit register. -/
theorem semD_rename {m N : ℕ} (ρ : ℕ → ℝ) (q : Tg m N) (f : Nat → Nat)
    (hf : ∀ i : Fin m, f i.val = (q.f i).val) (g : Gate) (A : Matrix (St m) (St m) ℂ)
    (h : semD m ρ g = some A) : semD N ρ (g.rename f) = some (q.embed A) := by
  obtain ⟨m', U, hm, hn, hr, hc, rfl⟩ := semD_inv m ρ g A h
  have hinj : ∀ a ∈ g.qubits, ∀ b ∈ g.qubits, f a = f b → a = b := by
    intro a ha b hb hab
    have h1 := hf ⟨a, hr a ha⟩
    have h2 := hf ⟨b, hr b hb⟩
    simp only at h1 h2
    have : q.f ⟨a, hr a ha⟩ = q.f ⟨b, hr b hb⟩ := Fin.ext (by rw [← h1, ← h2, hab])
    simpa using congrArg Fin.val (q.inj this)
  have hn' : (g.rename f).qubits.Nodup := by
    rw [Gate.rename_qubits]; exact List.Nodup.map_on hinj hn
  have hr' : ∀ x ∈ (g.rename f).qubits, x < N := by
    intro x hx
    rw [Gate.rename_qubits, List.mem_map] at hx
    obtain ⟨a, ha, rfl⟩ := hx
    rw [hf ⟨a, hr a ha⟩]; exact (q.f _).isLt
  have hm' : (g.rename f).qubits.length = m' := by rw [Gate.rename_qubits, List.length_map, hm]
  rw [semD_of N ρ (g.rename f) m' U hc hm' hn' hr', Tg.embed_comp]
  congr 2
  apply Tg.ext'
  intro i
  apply Fin.ext
  simp only [tgL, Tg.comp, Function.comp, Gate.rename_qubits, List.getElem_map]
  exact hf ⟨_, _⟩

/-- **Localisation (circuits).** -/
theorem denG_rename {m N : ℕ} (ρ : ℕ → ℝ) (q : Tg m N) (f : Nat → Nat)
    (hf : ∀ i : Fin m, f i.val = (q.f i).val) (gs : List Gate) (A : Matrix (St m) (St m) ℂ)
    (h : denG m ρ gs = some A) : denG N ρ (gs.map (Gate.rename f)) = some (q.embed A) := by
  induction gs generalizing A with
  | nil =>
    rw [denG_nil] at h; cases h
    rw [List.map_nil, denG_nil, Tg.embed_one]
  | cons g gs ih =>
    obtain ⟨G, R, hg, hR, rfl⟩ := denG_cons_inv m ρ g gs A h
    rw [List.map_cons, denG_cons_some N ρ _ _ _ _ (semD_rename ρ q f hf g G hg) (ih R hR), Tg.embed_mul]

end QipVerif
