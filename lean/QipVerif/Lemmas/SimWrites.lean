import QipVerif.Lemmas.SimStat
/-!
# Bookkeeping of classical bits: the bits reported for a record are the record's writes applied, in
# program order, to the initial bits (so the last write to a bit wins)
-/
namespace QipVerif.Sim
variable {Q P : Type}

/-- walk the operations; every measurement consumes the next outcome of the record and stores it -/
def applyWrites : List Op → List Int → Option (List Int) → Option (List Int)
  | [], _, bits => bits
  | .gate _ :: ops, r, bits => applyWrites ops r bits
  | .meas _ store :: ops, i :: r, bits => applyWrites ops r (writeBit bits store i)
  | .meas _ _ :: _, [], bits => bits

theorem brRun_alive_of_alive [Mul P] (B : Backend Q P) (b : Br Q P) (ops : List Op)
    (h : (brRun B b ops).st.isSome) : b.st.isSome := by
  cases hs : b.st with
  | some q => rfl
  | none => rw [brRun_dead B b hs ops, hs] at h; exact h

/-- **Bits of a surviving record.** -/
theorem brRun_bits [Mul P] (B : Backend Q P) :
    ∀ (ops : List Op) (b : Br Q P), b.rest.length = numMeasOps ops → (brRun B b ops).st.isSome →
      (brRun B b ops).bits = applyWrites ops b.rest b.bits := by
  intro ops
  induction ops with
  | nil => intro b _ _; rfl
  | cons op ops ih =>
    intro b hlen hlive
    have hstep : brRun B b (op :: ops) = brRun B (brStep B b op) ops := by simp [brRun]
    rw [hstep] at hlive ⊢
    have halive1 := brRun_alive_of_alive B _ ops hlive
    cases op with
    | gate g =>
      have hb : (brStep B b (.gate g)).rest = b.rest ∧ (brStep B b (.gate g)).bits = b.bits := by
        unfold brStep; cases b.st <;> simp <;> split <;> exact ⟨rfl, rfl⟩
      rw [ih _ (by rw [hb.1, hlen, numMeasOps_gate]) hlive, hb.1, hb.2]
      rfl
    | meas t store =>
      rw [numMeasOps_meas] at hlen
      cases hr : b.rest with
      | nil => rw [hr] at hlen; simp at hlen
      | cons i rest =>
        cases hs : b.st with
        | none =>
          have : (brStep B b (.meas t store)).st = none := by simp [brStep, hs]
          rw [this] at halive1; cases halive1
        | some q =>
          have hb : (brStep B b (.meas t store)).rest = rest ∧
              (brStep B b (.meas t store)).bits = writeBit b.bits store i := by
            simp [brStep, hs, hr]
          rw [ih _ (by rw [hb.1]; rw [hr] at hlen; simpa using hlen) hlive, hb.1, hb.2]
          rfl

/-- writing leaves every other bit alone and sets the addressed one (`0 ≤ s < length`) -/
theorem writeBit_set (l : List Int) (s : Nat) (i : Int) (hs : s < l.length) :
    writeBit (some l) (some (s : Int)) i = some (l.set s i) := by
  unfold writeBit QipVerif.Heap.pySet QipVerif.Heap.pyIdx
  simp [hs]

end QipVerif.Sim
