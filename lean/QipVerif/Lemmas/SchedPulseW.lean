import QipVerif.Lemmas.SchedGateW
import QipVerif.Lemmas.SchedPulse
/-!
# The pulse schedule for an arbitrary list of constraint functions (C11)

GENERATED ONCE from `Lemmas/SchedPulse.lean` by replacing `shareIdx ns` by an arbitrary relation `sh`
("not `apply_constraint`").  Non-negativity, earliest start 0, the dependency inequality and the makespan bound hold for
every `sh`; `final_edgeW_of_sh`: with the repaired recording every pair in different cycles that a constraint forbids
(`sh`, the later one as first argument) is an edge of the final graph.
-/
namespace QipVerif.Sched
open Relation

variable (sh : Nat → Nat → Bool)
variable (alap allowPerm fx : Bool) (ns : List Ins)
variable (O2 : Nat → List Nat → List Nat)

theorem finalOrderW_eq : finalOrderW sh alap allowPerm ns O2 = (cyclesGenW sh alap allowPerm ns O2).flatten := by
  unfold finalOrderW cyclesGenW
  simp only
  split <;> rfl

/-- the start time the model returns for instruction `i` -/
def startOfW (i : Nat) : Int :=
  (distStart ns.length (finalEdgesW sh alap allowPerm fx ns O2).has (durIdx ns) (finalOrderW sh alap allowPerm ns O2)).get i - durIdx ns i

theorem startsGenW_getD {i : Nat} (hi : i < ns.length) :
    (startsGenW sh alap allowPerm fx ns O2).getD i 0 = startOfW sh alap allowPerm fx ns O2 i := by
  simp [startsGenW, startOfW, List.getD_eq_getElem?_getD, hi]

theorem startsGenW_length : (startsGenW sh alap allowPerm fx ns O2).length = ns.length := by simp [startsGenW]

theorem depEdges_sub_finalW {x y : Nat} (h : (x, y) ∈ depEdges allowPerm ns) : (x, y) ∈ finalEdgesW sh alap allowPerm fx ns O2 := by
  unfold finalEdgesW passEdges
  simp only
  cases alap with
  | false =>
    simp only [Bool.false_eq_true, if_false]
    exact List.mem_append_left _ (List.mem_append_left _ h)
  | true =>
    simp only [if_true]
    rw [Edges.mem_rev]
    exact List.mem_append_left _ (List.mem_append_left _ (Edges.mem_rev.mpr h))


section main
variable (hO : ∀ r l, (O2 r l).Perm l)
include hO

theorem finalOrderW_perm : (finalOrderW sh alap allowPerm ns O2).Perm (List.range ns.length) := by
  rw [finalOrderW_eq]; exact cyclesGenW_perm sh alap allowPerm ns O2 hO

/-- every edge of the final graph goes from a strictly earlier cycle to a later one -/
theorem finalEdgesW_pos {x y : Nat} (h : (x, y) ∈ finalEdgesW sh alap allowPerm fx ns O2) :
    posOf (cyclesGenW sh alap allowPerm ns O2) x < posOf (cyclesGenW sh alap allowPerm ns O2) y ∧
      x < ns.length ∧ y < ns.length := by
  have hkey := fun (a : Bool) (i j : Nat) (hi : i < ns.length) (hj : j < ns.length) h =>
    passEdges_key a allowPerm ns (i := i) (j := j) hi hj h
  unfold finalEdgesW at h
  simp only at h
  cases alap with
  | false =>
    simp only [Bool.false_eq_true, if_false] at h
    rcases List.mem_append.mp h with h0 | hx
    · rcases List.mem_append.mp h0 with h1 | h1
      · have h1' : (x, y) ∈ depEdges allowPerm ns := by simpa [passEdges] using h1
        have := depEdges_forward allowPerm ns h1'
        exact ⟨cyclesGenW_edge_pos sh false allowPerm ns O2 hO h1', by omega, this.2⟩
      · have := topo_conflict_pos (sh := sh) O2 hO true (passKey false ns.length) (hkey false) h1
        exact ⟨by simpa [cyclesGenW, pass2W] using this.1, this.2.1, this.2.2.1⟩
    · cases fx with
      | false => simp at hx
      | true =>
        simp only [if_true] at hx
        have hnd := topo_nodup (sh := sh) O2 hO true (passKey false ns.length) (hkey false)
        obtain ⟨hp, hmx, hmy, _⟩ := crossEdges_pos (sh := sh) hnd hx
        exact ⟨by simpa [cyclesGenW, pass2W] using hp,
          topo_lt (sh := sh) O2 hO true (passKey false ns.length) (hkey false) hmx,
          topo_lt (sh := sh) O2 hO true (passKey false ns.length) (hkey false) hmy⟩
  | true =>
    simp only [if_true] at h
    rw [Edges.mem_rev] at h
    have hnd := topo_nodup (sh := sh) O2 hO true (passKey true ns.length) (hkey true)
    -- an edge `y → x` of the pass graph whose ends sit in pass cycles `pos y < pos x`
    have fin : posOf (pass2W sh true allowPerm ns O2).1 y < posOf (pass2W sh true allowPerm ns O2).1 x → x < ns.length →
        y < ns.length → posOf (cyclesGenW sh true allowPerm ns O2) x < posOf (cyclesGenW sh true allowPerm ns O2) y ∧
          x < ns.length ∧ y < ns.length := by
      intro hp hx hy
      have hmx := topo_mem (sh := sh) O2 hO true (passKey true ns.length) (hkey true) hx
      have hmy := topo_mem (sh := sh) O2 hO true (passKey true ns.length) (hkey true) hy
      refine ⟨?_, hx, hy⟩
      simp only [cyclesGenW, if_true]
      unfold pass2W at hp ⊢
      rw [posOf_reverse hnd hmx, posOf_reverse hnd hmy]
      have := posOf_lt_length hmx
      omega
    rcases List.mem_append.mp h with h0 | hx
    · rcases List.mem_append.mp h0 with h1 | h1
      · have h1' : (x, y) ∈ depEdges allowPerm ns := by
          simp only [passEdges, if_true] at h1
          exact Edges.mem_rev.mp h1
        have := depEdges_forward allowPerm ns h1'
        exact ⟨cyclesGenW_edge_pos sh true allowPerm ns O2 hO h1', by omega, this.2⟩
      · have hc := topo_conflict_pos (sh := sh) O2 hO true (passKey true ns.length) (hkey true) h1
        exact fin (by simpa [pass2W] using hc.1) hc.2.2.1 hc.2.1
    · cases fx with
      | false => simp at hx
      | true =>
        simp only [if_true] at hx
        obtain ⟨hp, hmy, hmx, _⟩ := crossEdges_pos (sh := sh) hnd hx
        exact fin (by simpa [pass2W] using hp)
          (topo_lt (sh := sh) O2 hO true (passKey true ns.length) (hkey true) hmx)
          (topo_lt (sh := sh) O2 hO true (passKey true ns.length) (hkey true) hmy)

theorem finalOrderW_topo :
    TopoOrder ns.length (finalEdgesW sh alap allowPerm fx ns O2).has (finalOrderW sh alap allowPerm ns O2) := by
  rw [finalOrderW_eq]
  apply topoOrder_of_pos (cyclesGenW_nodup sh alap allowPerm ns O2 hO)
  · intro p hp
    exact (cyclesGenW_perm sh alap allowPerm ns O2 hO).mem_iff.mpr (List.mem_range.mpr hp)
  · intro p y _ hpy
    exact (finalEdgesW_pos sh alap allowPerm fx ns O2 hO (Edges.has_iff.mp hpy)).1

/-- the recurrence of the returned table -/
theorem final_recW {y : Nat} (hy : y < ns.length) :
    (distStart ns.length (finalEdgesW sh alap allowPerm fx ns O2).has (durIdx ns) (finalOrderW sh alap allowPerm ns O2)).get y =
      maxOver (distStart ns.length (finalEdgesW sh alap allowPerm fx ns O2).has (durIdx ns) (finalOrderW sh alap allowPerm ns O2))
        (predsOf ns.length (finalEdgesW sh alap allowPerm fx ns O2).has y) + durIdx ns y := by
  have hp := finalOrderW_perm sh alap allowPerm ns O2 hO
  apply distStart_rec ((List.Perm.nodup_iff hp).mpr List.nodup_range) (finalOrderW_topo sh alap allowPerm fx ns O2 hO)
  exact hp.mem_iff.mpr (List.mem_range.mpr hy)

/-- along an edge of the final graph the target starts after the source has finished -/
theorem edge_ineqW {x y : Nat} (h : (x, y) ∈ finalEdgesW sh alap allowPerm fx ns O2) :
    startOfW sh alap allowPerm fx ns O2 x + durIdx ns x ≤ startOfW sh alap allowPerm fx ns O2 y := by
  obtain ⟨_, hx, hy⟩ := finalEdgesW_pos sh alap allowPerm fx ns O2 hO h
  unfold startOfW
  rw [final_recW sh alap allowPerm fx ns O2 hO hy]
  have : x ∈ predsOf ns.length (finalEdgesW sh alap allowPerm fx ns O2).has y := mem_predsOf.mpr ⟨hx, Edges.has_iff.mpr h⟩
  have := maxOver_ge (distStart ns.length (finalEdgesW sh alap allowPerm fx ns O2).has (durIdx ns)
    (finalOrderW sh alap allowPerm ns O2)) this
  linarith

theorem path_ineqW (hdur : ∀ i, 0 ≤ durIdx ns i) {x y : Nat}
    (h : TransGen (fun a b => (a, b) ∈ finalEdgesW sh alap allowPerm fx ns O2) x y) :
    startOfW sh alap allowPerm fx ns O2 x + durIdx ns x ≤ startOfW sh alap allowPerm fx ns O2 y := by
  induction h with
  | single h1 => exact edge_ineqW sh alap allowPerm fx ns O2 hO h1
  | @tail b c _ h2 ih =>
    have := edge_ineqW sh alap allowPerm fx ns O2 hO h2
    have := hdur b
    linarith

theorem startOfW_nonneg (hdur : ∀ i, 0 ≤ durIdx ns i) {i : Nat} (hi : i < ns.length) :
    0 ≤ startOfW sh alap allowPerm fx ns O2 i := by
  unfold startOfW
  rw [final_recW sh alap allowPerm fx ns O2 hO hi]
  have := maxOver_nonneg (distStart ns.length (finalEdgesW sh alap allowPerm fx ns O2).has (durIdx ns)
    (finalOrderW sh alap allowPerm ns O2)) (predsOf ns.length (finalEdgesW sh alap allowPerm fx ns O2).has i)
    (fun p _ => distStart_nonneg hdur _ p)
  linarith

/-- some instruction starts at time 0 -/
theorem exists_start_zeroW (hne : ns ≠ []) : ∃ i, i < ns.length ∧ startOfW sh alap allowPerm fx ns O2 i = 0 := by
  have hp := finalOrderW_perm sh alap allowPerm ns O2 hO
  have hlen : 0 < ns.length := List.length_pos_of_ne_nil hne
  -- the first node of the order has no predecessor
  cases ho : finalOrderW sh alap allowPerm ns O2 with
  | nil =>
    have := hp.length_eq
    simp [ho] at this
    omega
  | cons y b =>
    have hy : y < ns.length := List.mem_range.mp (hp.mem_iff.mp (by simp [ho]))
    refine ⟨y, hy, ?_⟩
    have htopo := finalOrderW_topo sh alap allowPerm fx ns O2 hO
    have hnp : predsOf ns.length (finalEdgesW sh alap allowPerm fx ns O2).has y = [] := by
      apply List.eq_nil_iff_forall_not_mem.mpr
      intro p hp'
      have := htopo [] y b (by simpa using ho) p (mem_predsOf.mp hp').1 (mem_predsOf.mp hp').2
      simp at this
    unfold startOfW
    rw [final_recW sh alap allowPerm fx ns O2 hO hy, hnp]
    simp [maxOver]

theorem finish_le_sumW (hdur : ∀ i, 0 ≤ durIdx ns i) (i : Nat) :
    startOfW sh alap allowPerm fx ns O2 i + durIdx ns i ≤ (ns.map Ins.dur).sum := by
  have hp := finalOrderW_perm sh alap allowPerm ns O2 hO
  have h1 := distStart_le_sum (n := ns.length) (E := (finalEdgesW sh alap allowPerm fx ns O2).has) hdur
    (finalOrderW sh alap allowPerm ns O2) i
  have h2 : ((finalOrderW sh alap allowPerm ns O2).map (durIdx ns)).sum = ((List.range ns.length).map (durIdx ns)).sum :=
    (hp.map _).sum_eq
  have h3 : (List.range ns.length).map (durIdx ns) = ns.map Ins.dur := by
    have : durIdx ns = Ins.dur ∘ getIns ns := rfl
    rw [this, ← List.map_map, map_getIns_range]
  unfold startOfW
  rw [h2, h3] at h1
  linarith

/-- a dependency path forces the later instruction to wait -/
theorem dep_ineqW (hdur : ∀ i, 0 ≤ durIdx ns i) {i j : Nat} (hij : i < j) (hj : j < ns.length)
    (hs : shareIdx ns i j = true) (hc : commIdx allowPerm ns j i = false) :
    startOfW sh alap allowPerm fx ns O2 i + durIdx ns i ≤ startOfW sh alap allowPerm fx ns O2 j := by
  rcases depEdges_order allowPerm ns hij hj hs with h | h
  · rw [hc] at h; exact absurd h (by simp)
  · exact path_ineqW sh alap allowPerm fx ns O2 hO hdur
      (tg_mono (fun a b hab => depEdges_sub_finalW sh alap allowPerm fx ns O2 hab) h)

/-- with the repaired recording, every pair sitting in different returned cycles that a constraint forbids (asked with
the instruction scheduled later in the pass as first argument: `j` for ASAP, `i` for ALAP) is an edge of the final graph,
directed from the earlier to the later returned cycle -/
theorem final_edge_of_shareW {i j : Nat} (hi : i < ns.length) (hj : j < ns.length)
    (hs' : alap = false → sh j i = true) (hs : alap = true → sh i j = true)
    (hp : posOf (cyclesGenW sh alap allowPerm ns O2) i < posOf (cyclesGenW sh alap allowPerm ns O2) j) :
    (i, j) ∈ finalEdgesW sh alap allowPerm true ns O2 := by
  have hkey := fun (a : Bool) (i j : Nat) (hi : i < ns.length) (hj : j < ns.length) h =>
    passEdges_key a allowPerm ns (i := i) (j := j) hi hj h
  unfold finalEdgesW
  simp only [if_true]
  cases alap with
  | false =>
    simp only [Bool.false_eq_true, if_false]
    apply List.mem_append_right
    have hmi := topo_mem (sh := sh) O2 hO true (passKey false ns.length) (hkey false) hi
    have hmj := topo_mem (sh := sh) O2 hO true (passKey false ns.length) (hkey false) hj
    exact crossEdges_of_pos (sh := sh) (by simpa [pass2W] using hmi) (by simpa [pass2W] using hmj)
      (by simpa [cyclesGenW] using hp) (hs' rfl)
  | true =>
    simp only [if_true]
    rw [Edges.mem_rev]
    apply List.mem_append_right
    have hnd := topo_nodup (sh := sh) O2 hO true (passKey true ns.length) (hkey true)
    have hmi := topo_mem (sh := sh) O2 hO true (passKey true ns.length) (hkey true) hi
    have hmj := topo_mem (sh := sh) O2 hO true (passKey true ns.length) (hkey true) hj
    simp only [cyclesGenW, if_true] at hp
    unfold pass2W at hp
    rw [posOf_reverse hnd hmi, posOf_reverse hnd hmj] at hp
    have := posOf_lt_length hmj
    exact crossEdges_of_pos (sh := sh) (by simpa [pass2W] using hmj) (by simpa [pass2W] using hmi)
      (by simp only [pass2W]; omega) (hs rfl)

/-- two instructions with the same position in the returned cycles list sit in one cycle -/
theorem same_cycle_of_posW {i j : Nat} (hi : i < ns.length) (hj : j < ns.length)
    (hp : posOf (cyclesGenW sh alap allowPerm ns O2) i = posOf (cyclesGenW sh alap allowPerm ns O2) j) :
    ∃ c ∈ cyclesGenW sh alap allowPerm ns O2, i ∈ c ∧ j ∈ c := by
  have hperm := cyclesGenW_perm sh alap allowPerm ns O2 hO
  obtain ⟨c, hc, hic⟩ := mem_getElem_posOf (hperm.mem_iff.mpr (List.mem_range.mpr hi))
  obtain ⟨c', hc', hjc⟩ := mem_getElem_posOf (hperm.mem_iff.mpr (List.mem_range.mpr hj))
  rw [hp, hc'] at hc
  have hcc : c' = c := Option.some.inj hc
  subst hcc
  exact ⟨c', List.mem_iff_getElem?.mpr ⟨_, hc'⟩, hic, hjc⟩

end main

end QipVerif.Sched
