import QipVerif.Lemmas.SimKetResolve
import QipVerif.Lemmas.Sem
/-!
# C01 — circuits of library gates given in the circuit IR: the model's run is `denG`

`denG` (Lemmas/Sem.lean) is the specification object shared by the "same unitary" theorems (C03, C07,
C13 …): the ordered product of `compactC name θ` (the matrices generated from the source, proved equal to
the documented forms in C09) embedded on `controls ++ targets`.  Here the steps of the C01 model are
obtained from the IR gates by reading `compactC` as rows (`libStep`), and every run of the model on them
is shown to be `denG`.
-/
namespace QipVerif.SimKet
open Matrix QipVerif.Embed

/-- a complex matrix on `m` qubits as the rows of `Qobj.full()` -/
noncomputable def rowsOf (m : ℕ) (M : Matrix (St m) (St m) ℂ) : List (List ℂ) :=
  (List.range (2 ^ m)).map fun i => (List.range (2 ^ m)).map fun j => M (dec m i) (dec m j)

theorem rowsOf_len (m : ℕ) (M : Matrix (St m) (St m) ℂ) : ∀ r ∈ rowsOf m M, r.length = 2 ^ m := by
  intro r hr
  obtain ⟨i, _, rfl⟩ := List.mem_map.mp hr
  simp

theorem gateMat_rowsOf (m : ℕ) (M : Matrix (St m) (St m) ℂ) : gateMat m (rowsOf m M) = M := by
  rw [← matOf_ofRows_eq_gateMat m _ (rowsOf_len m M)]
  ext x y
  simp only [matOf, FMat.ofRows, rowsOf, List.getD_eq_getElem?_getD, List.getElem?_map,
    List.getElem?_range (enc_lt x), List.getElem?_range (enc_lt y), Option.map_some, Option.getD_some, dec_enc]

/-- the matrix step of an IR gate at the valuation `ρ` of the symbolic angles: GLOBALPHASE is the scalar
`e^{iθ}` (the name test of the code), any other library gate its compact matrix on `controls ++ targets` -/
noncomputable def libStep (ρ : ℕ → ℝ) (g : Gate) : Option (Op ℂ) :=
  if g.name = .GLOBALPHASE then some (.phase (GateC.phase (g.arg.eval ρ))) else
  match compactC g.name (g.arg.eval ρ) with
  | none => none
  | some ⟨m, U⟩ => some (.gate g.qubits m (rowsOf m U))

theorem compactC_globalphase (θ : ℝ) :
    compactC .GLOBALPHASE θ = some ⟨0, GateC.phase θ • (1 : Matrix (St 0) (St 0) ℂ)⟩ := rfl

/-- a placed gate of `semG` is the step `libStep` gives, well-formed, with the same operator -/
theorem semG_libStep (N : ℕ) (ρ : ℕ → ℝ) (g : Gate) (pg : PGate N) (h : semG N ρ g = some pg) :
    ∃ op, libStep ρ g = some op ∧ WFOp N op ∧ (toPGate N op).den = pg.den := by
  unfold semG at h
  by_cases hg : g.name = .GLOBALPHASE
  · rw [hg, compactC_globalphase] at h
    simp only at h
    split at h
    · rename_i hc
      obtain ⟨h0, _, _⟩ := hc
      have hq : g.qubits = [] := List.eq_nil_of_length_eq_zero h0
      refine ⟨.phase (GateC.phase (g.arg.eval ρ)), by simp [libStep, hg], trivial, ?_⟩
      rw [toPGate_phase_den]
      have := Option.some.inj h
      subst this
      simp [PGate.den, Tg.embed_smul, Tg.embed_one]
    · exact absurd h (by simp)
  · cases hc : compactC g.name (g.arg.eval ρ) with
    | none => simp [hc] at h
    | some mu =>
      obtain ⟨m, U⟩ := mu
      rw [hc] at h
      simp only at h
      split at h
      · rename_i hcond
        obtain ⟨hm, hn, hr⟩ := hcond
        subst hm
        refine ⟨.gate g.qubits g.qubits.length (rowsOf _ U), by simp [libStep, hg, hc],
          ⟨hn, hr, rfl, rowsOf_len _ U⟩, ?_⟩
        rw [toPGate_gate_den N _ _ _ hn hr, gateMat_rowsOf]
        have := Option.some.inj h
        subst this
        rfl
      · exact absurd h (by simp)

theorem mapM_semG_libStep (N : ℕ) (ρ : ℕ → ℝ) (gs : List Gate) (pgs : List (PGate N))
    (h : gs.mapM (semG N ρ) = some pgs) :
    ∃ ops, gs.mapM (libStep ρ) = some ops ∧ (∀ op ∈ ops, WFOp N op) ∧
      denP (ops.map (toPGate N)) = denP pgs := by
  induction gs generalizing pgs with
  | nil =>
    have : pgs = [] := by simpa using h.symm
    subst this
    exact ⟨[], rfl, by simp, rfl⟩
  | cons g gs ih =>
    rw [List.mapM_cons] at h
    cases h1 : semG N ρ g with
    | none => simp [h1] at h
    | some pg =>
      cases h2 : gs.mapM (semG N ρ) with
      | none => simp [h1, h2] at h
      | some rest =>
        have hp : pgs = pg :: rest := by simpa [h1, h2] using h.symm
        subst hp
        obtain ⟨op, g1, g2, g3⟩ := semG_libStep N ρ g pg h1
        obtain ⟨ops, k1, k2, k3⟩ := ih rest h2
        refine ⟨op :: ops, by simp [List.mapM_cons, g1, k1], ?_, ?_⟩
        · intro o ho
          rcases List.mem_cons.mp ho with rfl | ho
          · exact g2
          · exact k2 o ho
        · simp only [List.map_cons, denP, g3, k3]

/-- every circuit that has a denotation `denG` resolves to well-formed steps whose ordered product it is -/
theorem denG_libSteps (N : ℕ) (ρ : ℕ → ℝ) (gs : List Gate) (D : Matrix (St N) (St N) ℂ)
    (h : denG N ρ gs = some D) :
    ∃ ops, gs.mapM (libStep ρ) = some ops ∧ (∀ op ∈ ops, WFOp N op) ∧ denP (ops.map (toPGate N)) = D := by
  unfold denG at h
  cases h1 : gs.mapM (semG N ρ) with
  | none => simp [h1] at h
  | some pgs =>
    obtain ⟨ops, g1, g2, g3⟩ := mapM_semG_libStep N ρ gs pgs h1
    have : denP pgs = D := by simpa [h1] using h
    exact ⟨ops, g1, g2, g3.trans this⟩

end QipVerif.SimKet
