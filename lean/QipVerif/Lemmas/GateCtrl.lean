import QipVerif.Model.Ctrl
import QipVerif.Props.C08
import QipVerif.Lemmas.MatBridge
import QipVerif.Lemmas.GatePathTac
import Mathlib.Data.Matrix.Block
/-! `controlled_gate` (C09): the list-level model `Ctrl.build` meets the specification `Ctrl.specEntry` for every
number of controls, every control value, every single-qubit `U` and every injective placement (composition with
C08's `expand_eq_spec`); over ℂ the result is `Tg.embed` of the block matrix `ctrlN` and is unitary when `U` is. -/
namespace QipVerif.Ctrl
open QipVerif.Embed

/-- a list of `n` binary digits -/
def Bits (n : ℕ) (x : List ℕ) : Prop := x.length = n ∧ ∀ e ∈ x, e < 2

theorem undigits_snoc (m : ℕ) (a : List ℕ) (i : ℕ) (ha : a.length = m) :
    undigits (List.replicate (m + 1) 2) (a ++ [i]) = 2 * undigits (List.replicate m 2) a + i := by
  induction m generalizing a with
  | zero =>
    have : a = [] := List.length_eq_zero_iff.mp ha
    subst this
    simp [undigits, prodL]
  | succ m ih =>
    match a, ha with
    | a0 :: a', ha =>
      have ha' : a'.length = m := by simpa using ha
      have := ih a' ha'
      simp only [List.replicate_succ, List.cons_append, undigits] at this ⊢
      rw [this]
      simp only [prodL, prodL_replicate]
      ring

theorem undigits_inj (m : ℕ) (a c : List ℕ) (ha : Bits m a) (hc : Bits m c)
    (h : undigits (List.replicate m 2) a = undigits (List.replicate m 2) c) : a = c := by
  have va := (digits_undigits (List.replicate m 2) a (by simp [ha.1]) (by
    intro i h1 h2; simp only [List.getElem_replicate]; exact ha.2 _ (List.getElem_mem h1))).2
  have vc := (digits_undigits (List.replicate m 2) c (by simp [hc.1]) (by
    intro i h1 h2; simp only [List.getElem_replicate]; exact hc.2 _ (List.getElem_mem h1))).2
  rw [← va, ← vc, h]

/-- the block matrix on digit lists: controls first, target last -/
theorem blockDigits_snoc (m b : ℕ) (a c : List ℕ) (i j : ℕ) (ha : Bits m a) (hc : Bits m c) (hi : i < 2) (hj : j < 2) :
    blockDigits m b (a ++ [i]) (c ++ [j]) =
      if a = c then (if undigits (List.replicate m 2) a = b then .u i j else if i = j then .one else .zero)
      else .zero := by
  unfold blockDigits blockEntry
  rw [undigits_snoc m a i ha.1, undigits_snoc m c j hc.1]
  have e1 : (2 * undigits (List.replicate m 2) a + i) / 2 = undigits (List.replicate m 2) a := by omega
  have e2 : (2 * undigits (List.replicate m 2) c + j) / 2 = undigits (List.replicate m 2) c := by omega
  have e3 : (2 * undigits (List.replicate m 2) a + i) % 2 = i := by omega
  have e4 : (2 * undigits (List.replicate m 2) c + j) % 2 = j := by omega
  rw [e1, e2, e3, e4]
  by_cases hac : a = c
  · subst hac; simp
  · have : undigits (List.replicate m 2) a ≠ undigits (List.replicate m 2) c := fun h => hac (undigits_inj m a c ha hc h)
    simp [hac, this]

/-- the result of both branches of the code: place the block matrix on the qubits `qs` -/
def placed (N : ℕ) (qs : List ℕ) (m b : ℕ) (x y : List ℕ) : Ent :=
  match Embed.specEntry N qs x y with
  | none => .zero
  | some (a, c) => blockDigits m b a c

theorem pyIndex_nat (len v : ℕ) (h : v < len) : pyIndex len (v : Int) = some v := by
  simp [pyIndex, h]

theorem map_getD_range (N : ℕ) (x : List ℕ) (hx : x.length = N) : (List.range N).map (fun t => x.getD t 0) = x := by
  apply List.ext_getElem
  · simp [hx]
  · intro i h1 h2
    simp only [List.getElem_map, List.getElem_range]
    rw [List.getD_eq_getElem?_getD, List.getElem?_eq_getElem h2, Option.getD_some]

/-- **The code's two branches compute the placed block matrix.**  For every list of controls `cs`, target `t`,
register size `N` (given, or defaulted to m+1) and control value `v < 2^m`, with `cs ++ [t]` duplicate-free and in
range, `build` succeeds with an operator on `N` qubits whose elements are `placed`. -/
theorem build_ok (cs : List ℕ) (t N v : ℕ) (N? : Option ℕ) (hN : N?.getD (cs.length + 1) = N)
    (hn : (cs ++ [t]).Nodup) (hr : ∀ q ∈ cs ++ [t], q < N) (hv : v < 2 ^ cs.length) :
    ∃ r, build (cs.map Int.ofNat) [Int.ofNat t] N? (v : Int) = .ok r ∧ r.K = N ∧
      ∀ x y, x.length = N → y.length = N → r.entry x y = placed N (cs ++ [t]) cs.length v x y := by
  unfold build
  simp only [List.length_map, hN, pyIndex_nat _ _ hv]
  have hcat : cs.map Int.ofNat ++ [Int.ofNat t] = (cs ++ [t]).map Int.ofNat := by simp
  rw [hcat]
  by_cases hs : (cs ++ [t]).map Int.ofNat = (List.range N).map Int.ofNat
  · rw [if_pos hs]
    have hq : cs ++ [t] = List.range N := by
      have := congrArg (List.map Int.toNat) hs
      simpa [List.map_map, Function.comp_def] using this
    have hlen : cs.length + 1 = N := by
      have := congrArg List.length hq; simpa using this
    refine ⟨_, rfl, hlen, ?_⟩
    intro x y hx hy
    unfold placed Embed.specEntry
    rw [hq]
    have hall : (List.range N).all (fun i => (List.range N).contains i || x.getD i 0 == y.getD i 0) = true := by
      rw [List.all_eq_true]; intro i hi; simp [List.mem_range.mp hi]
    rw [if_pos hall, map_getD_range N x hx, map_getD_range N y hy]
  · rw [if_neg hs]
    have hval : validate (List.replicate N 2) ((cs ++ [t]).map Int.ofNat) (List.replicate (cs.length + 1) 2) = .ok (cs ++ [t]) := by
      rw [QipVerif.C08.validate_ok_iff]
      refine ⟨rfl, hn, by simpa using hr, ?_⟩
      rw [List.eq_replicate_iff]
      refine ⟨by simp, ?_⟩
      intro b hb
      obtain ⟨q, hq, rfl⟩ := List.mem_map.mp hb
      have := hr q hq
      simp [List.getD_eq_getElem?_getD, this]
    rw [hval]
    refine ⟨_, rfl, rfl, ?_⟩
    intro x y _ _
    simp only [placed, QipVerif.C08.expand_eq_spec N (cs ++ [t]) x y hn hr]
    cases Embed.specEntry N (cs ++ [t]) x y with
    | none => rfl
    | some p => rfl


theorem getD_lt_two (x : List ℕ) (hx : ∀ e ∈ x, e < 2) (i : ℕ) : x.getD i 0 < 2 := by
  rw [List.getD_eq_getElem?_getD]
  cases h : x[i]? with
  | none => simp
  | some e => simpa using hx e (List.mem_of_getElem? h)

/-- the placed block matrix is the specification: identity outside controls ∪ {target}, controls unchanged, and on
the target `U` exactly when the controls hold `v` -/
theorem placed_eq_spec (N : ℕ) (cs : List ℕ) (t v : ℕ) (x y : List ℕ) (hx : ∀ e ∈ x, e < 2) (hy : ∀ e ∈ y, e < 2) :
    placed N (cs ++ [t]) cs.length v x y = specEntry N cs t v x y := by
  unfold placed Embed.specEntry specEntry
  by_cases hall : (List.range N).all (fun i => (cs ++ [t]).contains i || x.getD i 0 == y.getD i 0) = true
  · rw [if_pos hall]
    simp only [List.map_append, List.map_cons, List.map_nil]
    have ha : Bits cs.length (cs.map fun c => x.getD c 0) :=
      ⟨by simp, fun e he => by obtain ⟨q, _, rfl⟩ := List.mem_map.mp he; exact getD_lt_two x hx q⟩
    have hc : Bits cs.length (cs.map fun c => y.getD c 0) :=
      ⟨by simp, fun e he => by obtain ⟨q, _, rfl⟩ := List.mem_map.mp he; exact getD_lt_two y hy q⟩
    rw [blockDigits_snoc _ _ _ _ _ _ ha hc (getD_lt_two x hx t) (getD_lt_two y hy t)]
    rw [hall, Bool.true_and]
    simp only [beq_iff_eq]
  · rw [if_neg hall]
    have hf : (List.range N).all (fun i => (cs ++ [t]).contains i || x.getD i 0 == y.getD i 0) = false := by
      simpa using hall
    rw [hf, Bool.false_and]
    rfl

/-- `build` meets the specification (list level) -/
theorem build_spec (cs : List ℕ) (t N v : ℕ) (N? : Option ℕ) (hN : N?.getD (cs.length + 1) = N)
    (hn : (cs ++ [t]).Nodup) (hr : ∀ q ∈ cs ++ [t], q < N) (hv : v < 2 ^ cs.length) :
    ∃ r, build (cs.map Int.ofNat) [Int.ofNat t] N? (v : Int) = .ok r ∧ r.K = N ∧
      ∀ x y, Bits N x → Bits N y → r.entry x y = specEntry N cs t v x y := by
  obtain ⟨r, h1, h2, h3⟩ := build_ok cs t N v N? hN hn hr hv
  exact ⟨r, h1, h2, fun x y hx hy => by rw [h3 x y hx.1 hy.1, placed_eq_spec N cs t v x y hx.2 hy.2]⟩


/-! ## Over ℂ: the block matrix on `(ℂ²)^{⊗(m+1)}` and its placement -/
open Matrix

/-- basis states of m+1 qubits ≃ (last qubit = target) × (first m qubits = controls) -/
def splitLast (m : ℕ) : St (m + 1) ≃ Fin 2 × St m := (Fin.snocEquiv (fun _ : Fin (m + 1) => Fin 2)).symm

theorem splitLast_apply (m : ℕ) (a : St (m + 1)) : splitLast m a = (a (Fin.last m), Fin.init a) := rfl

/-- `block_diag(1₂, …, U, …, 1₂)` with `U` as block number `v` of 2^m, as an operator on m+1 qubits
(controls first, first control most significant; target last) -/
noncomputable def ctrlN (m v : ℕ) (U : Matrix (Fin 2) (Fin 2) ℂ) : Matrix (St (m + 1)) (St (m + 1)) ℂ :=
  (Matrix.blockDiagonal (fun b : St m => if enc b = v then U else 1)).submatrix (splitLast m) (splitLast m)

theorem ctrlN_apply (m v : ℕ) (U : Matrix (Fin 2) (Fin 2) ℂ) (a c : St (m + 1)) :
    ctrlN m v U a c = if Fin.init a = Fin.init c then
      (if enc (Fin.init a) = v then U (a (Fin.last m)) (c (Fin.last m))
       else if a (Fin.last m) = c (Fin.last m) then 1 else 0) else 0 := by
  simp only [ctrlN, Matrix.submatrix_apply, splitLast_apply, Matrix.blockDiagonal_apply]
  by_cases h : Fin.init a = Fin.init c
  · rw [if_pos h, if_pos h]
    by_cases hv : enc (Fin.init a) = v
    · rw [if_pos hv, if_pos hv]
    · rw [if_neg hv, if_neg hv, Matrix.one_apply]
  · rw [if_neg h, if_neg h]

theorem ctrlN_mul (m v : ℕ) (U V : Matrix (Fin 2) (Fin 2) ℂ) : ctrlN m v U * ctrlN m v V = ctrlN m v (U * V) := by
  unfold ctrlN
  rw [Matrix.submatrix_mul_equiv, ← Matrix.blockDiagonal_mul]
  congr 2
  funext b
  by_cases h : enc b = v <;> simp [h]

theorem ctrlN_one (m v : ℕ) : ctrlN m v 1 = 1 := by
  unfold ctrlN
  have : (fun b : St m => if enc b = v then (1 : Matrix (Fin 2) (Fin 2) ℂ) else 1) = 1 := by
    funext b; simp
  rw [this, Matrix.blockDiagonal_one, Matrix.submatrix_one_equiv]

theorem ctrlN_conjTranspose (m v : ℕ) (U : Matrix (Fin 2) (Fin 2) ℂ) : (ctrlN m v U)ᴴ = ctrlN m v Uᴴ := by
  unfold ctrlN
  rw [Matrix.conjTranspose_submatrix, Matrix.blockDiagonal_conjTranspose]
  congr 2
  funext b
  by_cases h : enc b = v <;> simp [h]

theorem ctrlN_unitary (m v : ℕ) (U : Matrix (Fin 2) (Fin 2) ℂ) (h : Uᴴ * U = 1) :
    (ctrlN m v U)ᴴ * ctrlN m v U = 1 := by
  rw [ctrlN_conjTranspose, ctrlN_mul, h, ctrlN_one]

end QipVerif.Ctrl

namespace QipVerif.Tg
open Matrix
theorem embed_conjTranspose {k N : ℕ} (t : Tg k N) (U : Matrix (St k) (St k) ℂ) : (t.embed U)ᴴ = t.embed Uᴴ := by
  ext x y
  rw [Matrix.conjTranspose_apply, embed_apply, embed_apply, Matrix.conjTranspose_apply, star_mul']
  congr 1
  by_cases h : ∀ i, i ∉ Set.range t.f → y i = x i
  · rw [if_pos h, if_pos (fun i hi => (h i hi).symm)]; simp
  · rw [if_neg h, if_neg (fun h' => h (fun i hi => (h' i hi).symm))]; simp

theorem embed_unitary {k N : ℕ} (t : Tg k N) (U : Matrix (St k) (St k) ℂ) (h : Uᴴ * U = 1) :
    (t.embed U)ᴴ * t.embed U = 1 := by
  rw [embed_conjTranspose, ← embed_mul, h, embed_one]
end QipVerif.Tg


namespace QipVerif.Ctrl
open Matrix QipVerif.Embed

/-- the number an `Ent` stands for, given the single-qubit operator -/
noncomputable def evalC (U : Matrix (Fin 2) (Fin 2) ℂ) : Ent → ℂ
  | .zero => 0
  | .one => 1
  | .u i j => if h : i < 2 ∧ j < 2 then U ⟨i, h.1⟩ ⟨j, h.2⟩ else 0

theorem evalC_u (U : Matrix (Fin 2) (Fin 2) ℂ) (a b : Fin 2) : evalC U (.u a.val b.val) = U a b := by
  simp [evalC, a.isLt, b.isLt]

/-- the placement given by a duplicate-free in-range list of m+1 qubits (controls, then the target) -/
def tgQ (N : ℕ) (qs : List ℕ) (m : ℕ) (hm : qs.length = m + 1) (hn : qs.Nodup) (hr : ∀ q ∈ qs, q < N) : Tg (m + 1) N where
  f := fun i => ⟨qs[i.val]'(by omega), hr _ (List.getElem_mem _)⟩
  inj := by
    intro a b hab
    have h1 : qs[a.val]'(by omega) = qs[b.val]'(by omega) := by simpa using congrArg Fin.val hab
    exact Fin.ext ((List.Nodup.getElem_inj_iff hn).mp h1)

theorem bitsL_inj {k : ℕ} {a b : St k} (h : bitsL a = bitsL b) : a = b := by
  funext i
  have := List.ofFn_injective h
  exact Fin.ext (congrFun this i)

/-- **Specification = placed block matrix over ℂ.**  For basis states `x y` of the N-qubit register the number the
specification assigns is the matrix element of `ctrlN` embedded on the qubits `cs ++ [t]`. -/
theorem spec_eq_embed (N : ℕ) (cs : List ℕ) (t v : ℕ) (U : Matrix (Fin 2) (Fin 2) ℂ)
    (hn : (cs ++ [t]).Nodup) (hr : ∀ q ∈ cs ++ [t], q < N) (x y : St N) :
    evalC U (specEntry N cs t v (bitsL x) (bitsL y)) =
      (tgQ N (cs ++ [t]) cs.length (by simp) hn hr).embed (ctrlN cs.length v U) x y := by
  set T := tgQ N (cs ++ [t]) cs.length (by simp) hn hr with hT
  rw [Tg.embed_apply, ctrlN_apply]
  have hlt : ∀ q ∈ cs, q < N := fun q hq => hr q (by simp [hq])
  have htN : t < N := hr t (by simp)
  -- the controls' digits
  have hmap : ∀ z : St N, (cs.map fun c => (bitsL z).getD c 0) = bitsL (Fin.init (z ∘ T.f)) := by
    intro z
    apply List.ext_getElem
    · simp
    · intro i h1 h2
      have hi : i < cs.length := by simpa using h1
      rw [List.getElem_map, bitsL_getD z cs[i] (hlt _ (List.getElem_mem hi))]
      have e : (bitsL (Fin.init (z ∘ T.f)))[i]'h2 = ((Fin.init (z ∘ T.f)) ⟨i, hi⟩).val := by simp [bitsL]
      rw [e]
      simp [Fin.init, hT, tgQ, List.getElem_append_left hi]
  have hlast : ∀ z : St N, (bitsL z).getD t 0 = ((z ∘ T.f) (Fin.last cs.length)).val := by
    intro z
    rw [bitsL_getD z t htN]
    simp [hT, tgQ]
  have hcond : ((List.range N).all (fun i => (cs ++ [t]).contains i || (bitsL x).getD i 0 == (bitsL y).getD i 0) = true)
      ↔ (∀ i, i ∉ Set.range T.f → x i = y i) := by
    rw [List.all_eq_true]
    constructor
    · intro h i hi
      have := h i.val (List.mem_range.mpr i.isLt)
      simp only [Bool.or_eq_true, List.contains_iff_mem, beq_iff_eq] at this
      rcases this with hq | hq
      · exfalso; apply hi
        obtain ⟨j, hjl, hje⟩ := List.getElem_of_mem hq
        exact ⟨⟨j, by simpa using hjl⟩, Fin.ext (by simp [hT, tgQ, hje])⟩
      · rw [bitsL_getD x i.val i.isLt, bitsL_getD y i.val i.isLt] at hq
        exact Fin.ext hq
    · intro h i hi
      have hik : i < N := List.mem_range.mp hi
      simp only [Bool.or_eq_true, List.contains_iff_mem, beq_iff_eq]
      by_cases hq : i ∈ cs ++ [t]
      · exact Or.inl hq
      · right
        rw [bitsL_getD x i hik, bitsL_getD y i hik]
        have := h ⟨i, hik⟩ (by
          rintro ⟨j, hj⟩
          apply hq
          have : (cs ++ [t])[j.val]'(by simp; omega) = i := by simpa [hT, tgQ] using congrArg Fin.val hj
          exact this ▸ List.getElem_mem _)
        rw [this]
  unfold specEntry
  rw [hmap x, hmap y, hlast x, hlast y]
  have henc : ∀ z : St cs.length, undigits (List.replicate cs.length 2) (bitsL z) = enc z := fun z => rfl
  rw [henc]
  by_cases hall : (List.range N).all (fun i => (cs ++ [t]).contains i || (bitsL x).getD i 0 == (bitsL y).getD i 0) = true
  · rw [hall, Bool.true_and, if_pos (hcond.mp hall), mul_one]
    by_cases hc : Fin.init (x ∘ T.f) = Fin.init (y ∘ T.f)
    · have hb : (bitsL (Fin.init (x ∘ T.f)) == bitsL (Fin.init (y ∘ T.f))) = true := by rw [hc]; simp
      rw [if_pos hb, if_pos hc]
      by_cases hv : enc (Fin.init (x ∘ T.f)) = v
      · rw [if_pos hv, if_pos hv, evalC_u]
      · rw [if_neg hv, if_neg hv]
        by_cases he : (x ∘ T.f) (Fin.last cs.length) = (y ∘ T.f) (Fin.last cs.length)
        · rw [if_pos (congrArg Fin.val he), if_pos he]; rfl
        · rw [if_neg (fun h => he (Fin.ext h)), if_neg he]; rfl
    · have hb : ¬ (bitsL (Fin.init (x ∘ T.f)) == bitsL (Fin.init (y ∘ T.f))) = true := by
        intro h; exact hc (bitsL_inj (by simpa using h))
      rw [if_neg hb, if_neg hc]; simp [evalC]
  · have hf : (List.range N).all (fun i => (cs ++ [t]).contains i || (bitsL x).getD i 0 == (bitsL y).getD i 0) = false := by
      simpa using hall
    rw [hf, Bool.false_and, if_neg (fun h => hall (hcond.mpr h))]
    simp [evalC]

end QipVerif.Ctrl

namespace QipVerif.Ctrl
open Matrix QipVerif.Embed

theorem controlledGate_lists (ct : Which) (cs ts : List Int) (N? : Option ℕ) (v : Int) :
    controlledGate ct (.list cs) (.list ts) N? v = build cs ts N? v := by cases ct <;> rfl

theorem controlledGate_scalars (ct : Which) (c t : Int) (N? : Option ℕ) (v : Int) :
    controlledGate ct (.scalar c) (.scalar t) N? v = build [c] [t] N? v := by cases ct <;> rfl

theorem pyIndex_neg (len k : ℕ) (hk : 0 < k) (hk2 : k ≤ len) : pyIndex len (-(k : Int)) = some (len - k) := by
  unfold pyIndex
  rw [if_neg (by omega), if_pos (by omega)]
  congr 1
  omega

theorem pyIndex_none (len : ℕ) (v : Int) (h : (len : Int) ≤ v ∨ v < -(len : Int)) : pyIndex len v = none := by
  unfold pyIndex
  rcases h with h | h
  · rw [if_pos (by omega), if_neg (by omega)]
  · rw [if_neg (by omega), if_neg (by omega)]

/-- negative control values wrap around once (Python list indexing): −k selects block 2^m − k -/
theorem build_negative (cs ts : List Int) (N? : Option ℕ) (k : ℕ) (hk : 0 < k) (hk2 : k ≤ 2 ^ cs.length) :
    build cs ts N? (-(k : Int)) = build cs ts N? ((2 ^ cs.length - k : ℕ) : Int) := by
  have e1 := pyIndex_neg (2 ^ cs.length) k hk hk2
  have e2 : pyIndex (2 ^ cs.length) ((2 ^ cs.length - k : ℕ) : Int) = some (2 ^ cs.length - k) :=
    pyIndex_nat _ _ (by omega)
  unfold build
  simp only [e1, e2]

/-- a control value outside [−2^m, 2^m) is refused (IndexError) -/
theorem build_rejects_value (cs ts : List Int) (N? : Option ℕ) (v : Int)
    (h : ((2 ^ cs.length : ℕ) : Int) ≤ v ∨ v < -((2 ^ cs.length : ℕ) : Int)) :
    build cs ts N? v = .error .blockIndex := by
  have := pyIndex_none (2 ^ cs.length) v h
  unfold build
  simp only [this]

/-- the 4×4 block `ctrl U` of the path theorems is `ctrlN` for one control with value 1 -/
theorem ctrlN_one_control (U : Matrix (Fin 2) (Fin 2) ℂ) (a c : St 2) :
    ctrlN 1 1 U a c = GatePath.ctrl U ⟨enc a, enc_lt a⟩ ⟨enc c, enc_lt c⟩ := by
  rw [ctrlN_apply]
  have h0 : ∀ z : St 2, enc z = 2 * (z 0).val + (z 1).val := by
    intro z; simp [enc, bitsL, undigits, prodL, List.ofFn_succ]; ring
  have h1 : ∀ z : St 1, enc z = (z 0).val := by intro z; simp [enc, bitsL, undigits, prodL]
  have hinit : ∀ z : St 2, Fin.init z = (fun _ => z 0) := by
    intro z; funext i; fin_cases i; rfl
  have hlast : Fin.last 1 = (1 : Fin 2) := rfl
  have key : ∀ (a0 a1 c0 c1 : Fin 2),
      (if (fun _ : Fin 1 => a0) = (fun _ => c0) then (if a0.val = 1 then U a1 c1 else if a1 = c1 then 1 else 0) else 0) =
        GatePath.ctrl U ⟨2 * a0.val + a1.val, by omega⟩ ⟨2 * c0.val + c1.val, by omega⟩ := by
    intro a0 a1 c0 c1
    fin_cases a0 <;> fin_cases a1 <;> fin_cases c0 <;> fin_cases c1 <;> simp [GatePath.ctrl, funext_iff]
  simp only [hinit, h1, hlast]
  rw [key (a 0) (a 1) (c 0) (c 1)]
  congr 1 <;> exact Fin.ext (h0 _).symm

end QipVerif.Ctrl
