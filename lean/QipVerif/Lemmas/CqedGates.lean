import QipVerif.Lemmas.CqedSwap
/-!
# C18: the cross-resonance CNOT sequence of `cnot_compiler`

In time order: `RX(−π/2)` on the target, `RZX(π/2)` on (control, target), `RX(−π/2)`, `RY(−π/2)`, `RX(π/2)` on the
control.  As a matrix product (later gates to the left) this is `e^{iπ/4}·CNOT`, for the control on the first qubit
and — conjugating with SWAP — for the control on the second qubit.
-/
set_option linter.unusedSimpArgs false
namespace QipVerif.DevExp
open Matrix Complex QipVerif.Gen QipVerif.GateKron QipVerif.GateC

theorem e_quarter_pi : e (Real.pi / 4) = r2 + Complex.I * r2 := by
  rw [e_eq, cos_quarter_pi, sin_quarter_pi]

theorem r2_pow5 : r2 ^ 5 = r2 / 4 := by rw [show r2 ^ 5 = r2 ^ 4 * r2 by ring, r2_pow4]; ring

/-- control = first qubit of the pair -/
theorem cnot_sequence :
    kron2 (G.rx_ (Real.pi / 2)) 1 * kron2 (G.ry_ (-(Real.pi / 2))) 1 * kron2 (G.rx_ (-(Real.pi / 2))) 1
      * G.cls_RZX_ (Real.pi / 2) * kron2 1 (G.rx_ (-(Real.pi / 2)))
    = e (Real.pi / 4) • G.cnot_ := by
  have hc : Complex.cos (((Real.pi / 2 : ℝ) : ℂ) / 2) = r2 := by
    have := hc_half_pi; unfold hc at this; exact this
  have hs : Complex.sin (((Real.pi / 2 : ℝ) : ℂ) / 2) = r2 := by
    have := hs_half_pi; unfold hs at this; exact this
  rw [kron2_mul, kron2_mul, Matrix.one_mul, Matrix.one_mul, rx_eq, ry_eq, rx_eq, hc_neg, hs_neg, hc_half_pi, hs_half_pi,
    e_quarter_pi, kron2_eq, kron2_eq]
  unfold G.cls_RZX_
  rw [hc, hs]
  ext i j
  fin_cases i <;> fin_cases j <;>
    simp [G.cnot_, Matrix.mul_apply, Fin.sum_univ_four, Fin.sum_univ_two] <;>
    (ring_nf; try simp only [Complex.I_sq, I_pow3, I_pow4, r2_pow2, r2_pow3, r2_pow4, r2_pow5]; try ring_nf)

/-- CNOT with the control on the second qubit -/
noncomputable def cnotRev : Matrix (Fin 4) (Fin 4) ℂ := flip G.cnot_

theorem cnotRev_eq : cnotRev = !![1, 0, 0, 0; 0, 0, 0, 1; 0, 0, 1, 0; 0, 1, 0, 0] := by
  unfold cnotRev flip
  ext i j
  fin_cases i <;> fin_cases j <;> simp [G.cnot_, G.swap_, Matrix.mul_apply, Fin.sum_univ_four]

/-- control = second qubit of the pair: the same sequence with every factor exchanged -/
theorem cnot_sequence_rev :
    kron2 1 (G.rx_ (Real.pi / 2)) * kron2 1 (G.ry_ (-(Real.pi / 2))) * kron2 1 (G.rx_ (-(Real.pi / 2)))
      * flip (G.cls_RZX_ (Real.pi / 2)) * kron2 (G.rx_ (-(Real.pi / 2))) 1
    = e (Real.pi / 4) • cnotRev := by
  have h := congrArg flip cnot_sequence
  rw [flip_mul, flip_mul, flip_mul, flip_mul, flip_kron2, flip_kron2, flip_kron2, flip_kron2, flip_smul] at h
  exact h

/-- the three control-qubit rotations of the sequence are together `RZ(−π/2)` -/
theorem control_rotations : G.rx_ (Real.pi / 2) * G.ry_ (-(Real.pi / 2)) * G.rx_ (-(Real.pi / 2)) = G.rz_ (-(Real.pi / 2)) :=
  elim_RZ (-(Real.pi / 2))

/-- a cross-resonance pulse of total area `θ/π` on the channel `c·tensor(Z/2, X/2)`, `c = 2π`, is `RZX(θ)` -/
theorem prop_zx_area (c θ : ℝ) (hc : c = 2 * Real.pi) :
    prop (((c * (1 / 2 * (1 / 2)) * (θ / Real.pi) : ℝ) : ℂ) • ZX) = G.cls_RZX_ θ := by
  have : c * (1 / 2 * (1 / 2)) * (θ / Real.pi) = θ / 2 := by
    rw [hc]; have := Real.pi_ne_zero; field_simp
  rw [this, prop_zx]

theorem prop_xz_area (c θ : ℝ) (hc : c = 2 * Real.pi) :
    prop (((c * (1 / 2 * (1 / 2)) * (θ / Real.pi) : ℝ) : ℂ) • XZ) = flip (G.cls_RZX_ θ) := by
  have : c * (1 / 2 * (1 / 2)) * (θ / Real.pi) = θ / 2 := by
    rw [hc]; have := Real.pi_ne_zero; field_simp
  rw [this, prop_xz]

theorem r2_ne_zero : r2 ≠ 0 := by
  intro h; have := r2_sq; rw [h] at this; norm_num at this

/-- `RZX(π/2) ≠ RZX(−π/2)`: the pulse compiled from `|θ|` alone is the wrong gate for `θ = −π/2` -/
theorem rzx_sign_matters : G.cls_RZX_ (|(-(Real.pi / 2))|) ≠ G.cls_RZX_ (-(Real.pi / 2)) := by
  rw [abs_neg, abs_of_pos (by positivity)]
  intro h
  have h01 := congrFun (congrFun h 0) 1
  have e1 : Complex.sin (((Real.pi / 2 : ℝ) : ℂ) / 2) = r2 := by have := hs_half_pi; unfold hs at this; exact this
  have e2 : Complex.sin (((-(Real.pi / 2) : ℝ) : ℂ) / 2) = -r2 := by
    have := hs_neg (Real.pi / 2); unfold hs at this; rw [this]; have := hs_half_pi; unfold hs at this; rw [this]
  simp [G.cls_RZX_] at h01
  have e1' : Complex.sin ((Real.pi : ℂ) / 2 / 2) = r2 := by rw [← e1]; push_cast; ring_nf
  have e2' : Complex.sin (-((Real.pi : ℂ) / 2) / 2) = -r2 := by rw [← e2]; push_cast; ring_nf
  rw [e1', e2'] at h01
  have : r2 = 0 := by linear_combination (1 / 2 : ℂ) * h01
  exact r2_ne_zero this

end QipVerif.DevExp
