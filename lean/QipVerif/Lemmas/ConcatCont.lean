import QipVerif.Lemmas.ConcatTop
/-! Sample-level meaning of a compiled *continuous* channel (C12): every grid point inside an instruction's
window `(s, s+duration]` is one of that instruction's sample points and carries its sample; every other
grid point carries 0; every sample point of every instruction (but the first, dropped by the code) is a
grid point. -/
namespace QipVerif.Concat
open QipVerif.Grid (mem_le_last)

/-- the sample of a sampled pulse at exactly the relative time `x` -/
def sampleAt : List Rat → List Rat → Rat → Option Rat
  | a :: tl, c :: cs, x => if a = x then some c else sampleAt tl cs x
  | _, _, _ => none

def Wave.sample : Wave → Rat → Option Rat
  | .arr tl cs, x => sampleAt tl cs x
  | _, _ => none

/-- the (time, coefficient) samples of a pulse that the code keeps: all but the first -/
def Wave.kept : Wave → List (Rat × Rat)
  | .arr tl cs => (tl.zip cs).drop 1
  | _ => []

/-- a grid point with its coefficient is *explained by the schedule*: inside the window `(s, s + duration]`
of an instruction it is one of that instruction's samples, outside all windows the coefficient is 0 -/
def Explained (instrs : List (Rat × Wave)) (xv : Rat × Rat) : Prop :=
  (∃ sw ∈ instrs, sw.1 < xv.1 ∧ xv.1 ≤ sw.1 + sw.2.dur ∧ sw.2.sample (xv.1 - sw.1) = some xv.2) ∨
  ((∀ sw ∈ instrs, ¬ (sw.1 < xv.1 ∧ xv.1 ≤ sw.1 + sw.2.dur)) ∧ xv.2 = 0)

theorem sampleAt_of_mem (tl cs : List Rat) (hp : tl.Pairwise (· < ·)) (y c : Rat) (h : (y, c) ∈ tl.zip cs) :
    sampleAt tl cs y = some c := by
  induction tl generalizing cs with
  | nil => simp at h
  | cons a tl ih =>
    cases cs with
    | nil => simp at h
    | cons c0 cs =>
      simp only [List.zip_cons_cons, List.mem_cons, Prod.mk.injEq] at h
      simp only [sampleAt]
      rcases h with ⟨rfl, rfl⟩ | h
      · simp
      · have hy := (List.of_mem_zip h).1
        have := (List.pairwise_cons.mp hp).1 y hy
        rw [if_neg (by grind)]
        exact ih cs (List.pairwise_cons.mp hp).2 h

theorem mem_zip_zeros {l : List Rat} {xv : Rat × Rat} (h : xv ∈ l.zip (l.map (fun _ => (0 : Rat)))) :
    xv.1 ∈ l ∧ xv.2 = 0 := by
  induction l with
  | nil => simp at h
  | cons a l ih =>
    simp only [List.map_cons, List.zip_cons_cons, List.mem_cons] at h
    rcases h with rfl | h
    · simp
    · have := ih h; exact ⟨by simp [this.1], this.2⟩

theorem chain_starts {instrs : List (Rat × Wave)} : ∀ {last : Rat}, Chain last instrs → ∀ sw ∈ instrs, last ≤ sw.1 := by
  induction instrs with
  | nil => intro _ _ sw h; simp at h
  | cons a rest ih =>
    intro last hc sw h
    obtain ⟨s, w⟩ := a
    rcases List.mem_cons.mp h with rfl | h
    · exact hc.2.1
    · have := ih hc.2.2 sw h
      have := dur_pos (proc_of_ok hc.1)
      have := hc.2.1
      grind

theorem chain_ends {instrs : List (Rat × Wave)} : ∀ {last : Rat}, Chain last instrs →
    ∀ sw ∈ instrs, sw.1 + sw.2.dur ≤ endOf last instrs := by
  induction instrs with
  | nil => intro _ _ sw h; simp at h
  | cons a rest ih =>
    intro last hc sw h
    obtain ⟨s, w⟩ := a
    simp only [endOf]
    rcases List.mem_cons.mp h with rfl | h
    · exact (pureLoop_struct rest _ hc.2.2).2.2.2
    · exact ih hc.2.2 sw h

theorem idl_bounds {m : Mode} {s last step x : Rat} (hs : 0 < step)
    (hx : x ∈ (if last < s then idlePure m s last step else [])) : last < x ∧ x ≤ s := by
  by_cases hlt : last < s
  · rw [if_pos hlt] at hx
    obtain ⟨l, hl, hpw, hle⟩ := idle_ok m s last step hs hlt
    have hpure : idlePure m s last step = l := by simp [idlePure, hl]
    rw [hpure] at hx
    exact ⟨(List.pairwise_cons.mp hpw).1 x hx, hle x hx⟩
  · rw [if_neg hlt] at hx; simp at hx

/-- the kept samples of a continuous wave are its processed points and coefficients -/
theorem kept_eq {w : Wave} (hw : WaveOK w) (hm : w.mode = .continuous) :
    w.proc.gt.zip w.proc.cs = w.kept ∧ ∃ tl cs, w = .arr tl cs ∧ tl.Pairwise (· < ·) ∧ tl.head? = some 0 := by
  match w, hw with
  | .scalar d c, _ => simp [Wave.mode] at hm
  | .arr tl cs, ⟨hh, hp, hl, hc⟩ =>
    have hcont : ¬ (cs.length + 1 = tl.length) := by
      intro h; simp [Wave.mode, h] at hm
    have hlen : cs.length = tl.length := by rcases hc with h | h; exact absurd h hcont; exact h
    refine ⟨?_, tl, cs, rfl, hp, hh⟩
    match tl, hh, hp, hl, hlen, hcont with
    | a :: b :: rest, hh, hp, hl, hlen, hcont =>
      have h1 : ¬ (((a :: b :: rest).length : Int) - 1 = (cs.length : Int)) := by simp at hlen ⊢; omega
      have : (Wave.arr (a :: b :: rest) cs).proc = ⟨b :: rest, cs.drop 1, b - a, .continuous⟩ := by
        simp only [Wave.proc, procPulse]; rw [if_neg h1, if_pos hlen.symm]
      rw [this]
      cases cs with
      | nil => simp at hlen
      | cons c0 cs => simp [Wave.kept]

/-- **Meaning of the tolerance-free lists of a continuous channel.** -/
theorem pureLoop_continuous (instrs : List (Rat × Wave)) : ∀ last, Chain last instrs →
    (∀ sw ∈ instrs, sw.2.mode = .continuous) →
    (∀ xv ∈ (pureLoop last instrs).1.zip (pureLoop last instrs).2, last < xv.1 ∧ Explained instrs xv) ∧
    (∀ sw ∈ instrs, ∀ yc ∈ sw.2.kept, (sw.1 + yc.1, yc.2) ∈ (pureLoop last instrs).1.zip (pureLoop last instrs).2) := by
  induction instrs with
  | nil => intro last _ _; simp [pureLoop]
  | cons a rest ih =>
    intro last hc hmode
    obtain ⟨s, w⟩ := a
    obtain ⟨hw, hls, hrest⟩ := hc
    have hm : w.mode = .continuous := hmode (s, w) (by simp)
    have hp := proc_of_ok hw
    have hdp := dur_pos hp
    obtain ⟨ihA, ihB⟩ := ih (s + w.dur) hrest (fun sw h => hmode sw (by simp [h]))
    obtain ⟨hkept, tl, cs, hweq, htlp, htlh⟩ := kept_eq hw hm
    have hstarts := chain_starts hrest
    -- decomposition of the zipped lists
    have hzip : (pureLoop last ((s, w) :: rest)).1.zip (pureLoop last ((s, w) :: rest)).2 =
        (if last < s then idlePure w.proc.mode s last w.proc.step else []).zip
          ((if last < s then idlePure w.proc.mode s last w.proc.step else []).map (fun _ => (0 : Rat))) ++
        ((w.proc.gt.map (· + s)).zip w.proc.cs ++
          (pureLoop (s + w.dur) rest).1.zip (pureLoop (s + w.dur) rest).2) := by
      simp only [pureLoop]
      rw [List.zip_append (by simp), List.zip_append (by simp [hp.len])]
    have hexec : ∀ xv, xv ∈ (w.proc.gt.map (· + s)).zip w.proc.cs ↔ ∃ yc ∈ w.kept, xv = (yc.1 + s, yc.2) := by
      intro xv
      rw [List.zip_map_left, List.mem_map, hkept]
      constructor
      · rintro ⟨yc, hyc, rfl⟩; exact ⟨yc, hyc, rfl⟩
      · rintro ⟨yc, hyc, rfl⟩; exact ⟨yc, hyc, rfl⟩
    have hkept_mem : ∀ yc ∈ w.kept, yc.1 ∈ w.proc.gt ∧ (yc.1, yc.2) ∈ tl.zip cs := by
      intro yc hyc
      constructor
      · rw [← hkept] at hyc; exact (List.of_mem_zip hyc).1
      · subst hweq; exact List.mem_of_mem_drop hyc
    constructor
    · intro xv hxv
      rw [hzip] at hxv
      rcases List.mem_append.mp hxv with h | h
      · -- idle point
        obtain ⟨hx, hv⟩ := mem_zip_zeros h
        obtain ⟨h1, h2⟩ := idl_bounds hp.step_pos hx
        refine ⟨h1, Or.inr ⟨?_, hv⟩⟩
        intro sw hsw
        rcases List.mem_cons.mp hsw with rfl | hsw
        · simp only; grind
        · have := hstarts sw hsw; grind
      · rcases List.mem_append.mp h with h | h
        · -- a sample of this instruction
          obtain ⟨yc, hyc, rfl⟩ := (hexec xv).mp h
          obtain ⟨hg, hz⟩ := hkept_mem yc hyc
          have hpos := gt_pos hp yc.1 hg
          have hle : yc.1 ≤ w.dur := by
            have hne := hp.gt_ne
            have hl := hp.last
            rw [List.getLast?_eq_some_getLast hne] at hl
            simp only [Option.getD_some] at hl
            have := mem_le_last (List.pairwise_cons.mp hp.gt_inc).2 (List.getLast?_eq_some_getLast hne) yc.1 hg
            grind
          refine ⟨by simp only; grind, Or.inl ⟨(s, w), by simp, by simp only; grind, by simp only; grind, ?_⟩⟩
          subst hweq
          simp only [Wave.sample]
          have : yc.1 + s - s = yc.1 := by grind
          rw [this]
          exact sampleAt_of_mem tl cs htlp yc.1 yc.2 hz
        · -- a point of the later instructions
          obtain ⟨h1, hE⟩ := ihA xv h
          refine ⟨by grind, ?_⟩
          rcases hE with ⟨sw, hsw, hin⟩ | ⟨hno, hv⟩
          · exact Or.inl ⟨sw, by simp [hsw], hin⟩
          · refine Or.inr ⟨?_, hv⟩
            intro sw hsw
            rcases List.mem_cons.mp hsw with rfl | hsw
            · simp only; grind
            · exact hno sw hsw
    · intro sw hsw yc hyc
      rw [hzip]
      rcases List.mem_cons.mp hsw with rfl | hsw
      · apply List.mem_append_right; apply List.mem_append_left
        simp only
        rw [hexec]
        exact ⟨yc, hyc, by simp only [Prod.mk.injEq, and_true]; grind⟩
      · apply List.mem_append_right; apply List.mem_append_right
        exact ihB sw hsw yc hyc

/-- one compiled continuous channel -/
theorem compiled_continuous (τ : Rat) (hτ : 0 < τ) (pm : Mode) (final ms : Rat) (hms : 0 < ms)
    (s : Rat) (w : Wave) (rest : List (Rat × Wave)) (hc : Chain 0 ((s, w) :: rest))
    (hcnt : ∀ sw ∈ (s, w) :: rest, sw.2.mode = .continuous) :
    let instrs := (s, w) :: rest
    let g := (headChunk true instrs).1 ++ (pureLoop 0 instrs).1 ++ padPts τ pm final ms (endOf 0 instrs)
    let c := (headChunk true instrs).2 ++ (pureLoop 0 instrs).2 ++
      (padPts τ pm final ms (endOf 0 instrs)).map (fun _ => (0 : Rat))
    c.length = g.length ∧ (∀ xv ∈ g.zip c, Explained instrs xv) ∧
      (∀ sw ∈ instrs, ∀ yc ∈ sw.2.kept, (sw.1 + yc.1, yc.2) ∈ g.zip c) := by
  intro instrs g c
  have hm : w.mode = .continuous := hcnt (s, w) (by simp)
  have hz : headChunk true instrs = ([0], [0]) := by simp [instrs, headChunk, zeroChunk, hm]
  obtain ⟨hs1, hs2, hs3, hs4⟩ := pureLoop_struct instrs 0 hc
  obtain ⟨hA, hB⟩ := pureLoop_continuous instrs 0 hc hcnt
  have hzip : g.zip c = (0, 0) :: ((pureLoop 0 instrs).1.zip (pureLoop 0 instrs).2 ++
      (padPts τ pm final ms (endOf 0 instrs)).zip ((padPts τ pm final ms (endOf 0 instrs)).map (fun _ => (0 : Rat)))) := by
    simp only [g, c, hz, List.cons_append, List.nil_append, List.zip_cons_cons]
    rw [List.zip_append hs2]
  refine ⟨by simp [g, c, hz, hs2], ?_, ?_⟩
  · intro xv hxv
    rw [hzip] at hxv
    rcases List.mem_cons.mp hxv with rfl | hxv
    · refine Or.inr ⟨?_, rfl⟩
      intro sw hsw
      have := chain_starts hc sw hsw
      simp only; grind
    · rcases List.mem_append.mp hxv with h | h
      · exact (hA xv h).2
      · obtain ⟨hx, hv⟩ := mem_zip_zeros h
        have hgt := (List.pairwise_cons.mp (padPts_pairwise τ hτ pm final ms (endOf 0 instrs) hms)).1 xv.1 hx
        refine Or.inr ⟨?_, hv⟩
        intro sw hsw
        have := chain_ends hc sw hsw
        grind
  · intro sw hsw yc hyc
    rw [hzip]
    exact List.mem_cons_of_mem _ (List.mem_append_left _ (hB sw hsw yc hyc))

end QipVerif.Concat
