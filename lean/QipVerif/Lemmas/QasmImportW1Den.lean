import QipVerif.Lemmas.QasmImportW1
/-!
# Whole programs with user gate definitions (class W₁) — the imported circuit has the standard's unitary (C04)

`denIOps`: unitary of an imported operation list — library gates by `denX`, a user gate (`IOp.custom`,
a `Gate` named `name(args)` whose matrix the importer computes from the temporary circuit `inner`) by
the `denX` of `inner` on the local qubits placed on the gate's targets (`Tg.embed`).
`SegRel1`: the standard's fully expanded operations against the imported operations, segment by
segment, user gates included.
-/
namespace QipVerif.Qasm.Import
open QipVerif QipVerif.Qasm QipVerif.Qasm.Export Matrix

/-! ## unitary of imported operations -/

/-- a user gate: the unitary of its temporary circuit (local qubits `0 … k−1`) placed on the targets -/
noncomputable def denCustom (N : ℕ) (t : List ℕ) (inner : List IGate) : Option (Matrix (St N) (St N) ℂ) :=
  if h : t.Nodup ∧ ∀ q ∈ t, q < N then
    (denX t.length (inner.map xOfI)).map fun M => (tgL N t t.length rfl h.1 h.2).embed M
  else none

noncomputable def denIOp (N : ℕ) : IOp → Option (Matrix (St N) (St N) ℂ)
  | .gate g => denX N [xOfI g]
  | .custom _ t _ _ inner => denCustom N t inner
  | .meas .. => none

/-- product of the operations, first operation applied first -/
noncomputable def denIOps (N : ℕ) : List IOp → Option (Matrix (St N) (St N) ℂ)
  | [] => some 1
  | o :: os =>
    match denIOp N o, denIOps N os with
    | some A, some B => some (B * A)
    | _, _ => none

theorem denIOps_append (N : ℕ) (a b : List IOp) (A B : Matrix (St N) (St N) ℂ)
    (ha : denIOps N a = some A) (hb : denIOps N b = some B) : denIOps N (a ++ b) = some (B * A) := by
  induction a generalizing A with
  | nil =>
    simp only [denIOps, Option.some.injEq] at ha
    subst ha
    simpa using hb
  | cons o os ih =>
    simp only [denIOps] at ha
    cases h1 : denIOp N o with
    | none => simp [h1] at ha
    | some X =>
      cases h2 : denIOps N os with
      | none => simp [h1, h2] at ha
      | some Y =>
        simp only [h1, h2, Option.some.injEq] at ha
        subst ha
        simp only [List.cons_append, denIOps, h1, ih Y h2, Matrix.mul_assoc]

theorem denIOps_single (N : ℕ) (o : IOp) (A : Matrix (St N) (St N) ℂ) (h : denIOp N o = some A) :
    denIOps N [o] = some A := by
  simp [denIOps, h]

/-- library gates: `denIOps` is `denX` -/
theorem denIOps_gates (N : ℕ) : ∀ (gs : List IGate) (B : Matrix (St N) (St N) ℂ),
    denX N (gs.map xOfI) = some B → denIOps N (gs.map IOp.gate) = some B := by
  intro gs
  induction gs with
  | nil =>
    intro B h
    rw [List.map_nil, denX_nil] at h
    simpa [denIOps] using h
  | cons g gs ih =>
    intro B h
    simp only [List.map_cons, denX, List.mapM_cons, Option.map_eq_some_iff] at h
    obtain ⟨l, hl, rfl⟩ := h
    cases hg : semX N (xOfI g) with
    | none => simp [hg] at hl
    | some G =>
      cases hr : (gs.map xOfI).mapM (semX N) with
      | none => simp [hg, hr] at hl
      | some l' =>
        simp only [hg, hr, Option.pure_def, Option.bind_eq_bind, Option.bind_some, Option.some.injEq] at hl
        subst hl
        have h1 : denX N [xOfI g] = some G.den := by
          have := denX_cons N (xOfI g) [] G 1 hg (denX_nil N)
          simpa using this
        have h2 := ih (denP l') (by simp [denX, hr])
        simp only [List.map_cons, denIOps, denIOp, h1, h2]
        simp [denP]

/-- the placement of `custom_place`, whatever the name of the arity -/
theorem denCustom_of (N : ℕ) (t : List ℕ) (inner : List IGate) (k : ℕ) (htl : t.length = k) (hn : t.Nodup)
    (hr : ∀ q ∈ t, q < N) (M : Matrix (St k) (St k) ℂ) (h : denX k (inner.map xOfI) = some M) :
    denCustom N t inner = some ((tgL N t k htl hn hr).embed M) := by
  subst htl
  unfold denCustom
  rw [dif_pos ⟨hn, hr⟩, h]
  rfl

/-! ## segments -/

/-- classical controls / value of an imported gate operation -/
def ctrlOfIOp : IOp → Option (List ℕ) × Option ℕ
  | .gate g => (g.cctrl, g.cval)
  | .custom _ _ cc cv _ => (cc, cv)
  | .meas .. => (none, none)

/-- **segment-wise correspondence, user gates included**: gate segments with equal conditions and equal
unitaries up to a phase; built-ins under a never-true condition against nothing (repaired importer); the
same measurements; barriers have no counterpart -/
inductive SegRel1 (N : ℕ) : List Qasm.Op → List IOp → Prop where
  | nil : SegRel1 N [] []
  | gates (c : Option Cond) (prims : List Prim) (seg : List IOp) (A B : Matrix (St N) (St N) ℂ)
      (rest : List Qasm.Op) (rest' : List IOp) :
      denPrims N ρ0 prims = some A → denIOps N seg = some B → PhaseEqN A B →
      (∀ o ∈ seg, ctrlOfIOp o = (ccOf c, cvOf c)) → SegRel1 N rest rest' →
      SegRel1 N (prims.map (Qasm.Op.prim c) ++ rest) (seg ++ rest')
  | skipped (c : Cond) (prims : List Prim) (rest : List Qasm.Op) (rest' : List IOp) :
      (∀ st : ℕ → Bool, c.holds st = false) → SegRel1 N rest rest' →
      SegRel1 N (prims.map (Qasm.Op.prim (some c)) ++ rest) rest'
  | meas (q b : ℕ) (rest : List Qasm.Op) (rest' : List IOp) :
      SegRel1 N rest rest' → SegRel1 N (.measure none q b :: rest) (.meas q b :: rest')
  | barrier (qs : List ℕ) (rest : List Qasm.Op) (rest' : List IOp) :
      SegRel1 N rest rest' → SegRel1 N (.barrier qs :: rest) rest'

/-! ## flat operations of a program with user definitions -/

/-- **what the standard guarantees about one flat operation** (gate table `U ++ qelib1.inc`) -/
def FlatWf1 (U : List GateDef) (N : Nat) : FlatOp → Prop
  | .U c _ _ _ q => q < N ∧ CondWf c
  | .CX c a b => a < N ∧ b < N ∧ a ≠ b ∧ CondWf c
  | .call c n ps t =>
    (∃ d, (U ++ qelib1.reverse).find? (fun x => x.name == n) = some d ∧ t.length = d.qargs.length ∧
      ps.length = d.params.length) ∧ t.Nodup ∧ (∀ q ∈ t, q < N) ∧ CondWf c ∧ ArgsOk ps
  | .measure c _ _ => c = none
  | .barrier _ => True

theorem gatesOf_ctrl_U (c : Option Cond) (a b l : Expr) (q : ℕ) :
    ctrlOfIOp (.gate ⟨cs!"QASMU", [q], none, .many [a, b, l], ccOf c, cvOf c⟩) = (ccOf c, cvOf c) := rfl

/-- every flat operation: the standard's expansion against the imported operations -/
theorem flats_import_den1 (U : List GateDef) (hU : DefsOk U) (hlen : U.length ≤ 64) (N : ℕ) :
    ∀ fl : List FlatOp, (∀ f ∈ fl, FlatWf1 U N f) →
    ∃ ops, expandOps (U ++ qelib1.reverse) fl = .ok ops ∧
      SegRel1 N ops (fl.flatMap (gatesOf1 (U.map storeDef))) := by
  intro fl
  induction fl with
  | nil => intro _; exact ⟨[], rfl, SegRel1.nil⟩
  | cons f fl ih =>
    intro hall
    obtain ⟨ops, hops, hrel⟩ := ih (fun g hg => hall g (by simp [hg]))
    have hw := hall f (by simp)
    cases f with
    | U c a b l q =>
      obtain ⟨hq, hcv⟩ := hw
      obtain ⟨A, B, h1, h2, h3⟩ := flat_import_U N c a b l q hq
      refine ⟨[Prim.U a b l q].map (Qasm.Op.prim c) ++ ops, ?_, ?_⟩
      · simp [expandOps, expandOp, hops, bind, Except.bind]
      · by_cases hun : condUnsat c = true
        · obtain ⟨c', rfl, hnever⟩ := condUnsat_never c hun
          have := SegRel1.skipped c' [Prim.U a b l q] ops _ hnever hrel
          simpa [List.flatMap_cons, gatesOf1, gatesOf, hun] using this
        · have := SegRel1.gates c [Prim.U a b l q]
            [.gate ⟨cs!"QASMU", [q], none, .many [a, b, l], ccOf c, cvOf c⟩] A B ops _ h1
            (denIOps_single N _ B (by simpa [denIOp] using h2)) h3 (by simp [ctrlOfIOp]) hrel
          simpa [List.flatMap_cons, gatesOf1, gatesOf, hun] using this
    | CX c a b =>
      obtain ⟨ha, hb, hab, hcv⟩ := hw
      obtain ⟨A, B, h1, h2, h3⟩ := flat_import_CX N c a b ha hb hab
      refine ⟨[Prim.CX a b].map (Qasm.Op.prim c) ++ ops, ?_, ?_⟩
      · simp [expandOps, expandOp, hops, bind, Except.bind]
      · by_cases hun : condUnsat c = true
        · obtain ⟨c', rfl, hnever⟩ := condUnsat_never c hun
          have := SegRel1.skipped c' [Prim.CX a b] ops _ hnever hrel
          simpa [List.flatMap_cons, gatesOf1, gatesOf, hun] using this
        · have := SegRel1.gates c [Prim.CX a b]
            [.gate ⟨cs!"CNOT", [b], some [a], .none, ccOf c, cvOf c⟩] A B ops _ h1
            (denIOps_single N _ B (by simpa [denIOp] using h2)) h3 (by simp [ctrlOfIOp]) hrel
          simpa [List.flatMap_cons, gatesOf1, gatesOf, hun] using this
    | call c n ps t =>
      obtain ⟨⟨d, hd, htl, hpl⟩, hn, hr, hcw, hps⟩ := hw
      by_cases hpre : predefined n = true
      · -- a `qelib1.inc` gate: not a user gate, the definitions in front are skipped
        have hnotU : U.find? (fun x => x.name == n) = none := by
          cases hfu : U.find? (fun x => x.name == n) with
          | none => rfl
          | some d' =>
            exfalso
            have hmem := List.mem_of_find?_eq_some hfu
            have hnm : d'.name = n := by simpa using List.find?_some hfu
            obtain ⟨pre, suf, hsplit⟩ := List.append_of_mem hmem
            have := (defsOk_suffix pre (d' :: suf) (hsplit ▸ hU)).2.1
            rw [hnm, hpre] at this
            cases this
        have hdq : qelib1.reverse.find? (fun x => x.name == n) = some d := by
          rw [List.find?_append, hnotU] at hd
          simpa using hd
        have hskip : expandCall (U ++ qelib1.reverse) n ps t = expandCall qelib1.reverse n ps t := by
          apply expandCall_skip
          intro x hx
          have := List.find?_eq_none.mp hnotU x hx
          simpa using this
        rw [List.flatMap_cons, gatesOf1_of_predefined _ _ _ _ _ hpre]
        by_cases hun : condUnsat c = true
        · obtain ⟨c', rfl, hnever⟩ := condUnsat_never c hun
          obtain ⟨prims, h1⟩ : ∃ prims, expandCall qelib1.reverse n ps t = .ok prims := by
            by_cases hid : n = cs!"id"
            · subst hid
              obtain ⟨prims, _, h1, _⟩ := flat_import_id N none ps t d hdq htl hpl hn hr
              exact ⟨prims, h1⟩
            · obtain ⟨prims, _, _, _, h1, _⟩ :=
                flat_import_call N none n ps t (import_sound_of_find hdq hid) d hdq htl hpl hn hr
                  (by simp [cvBad, ccOf, cvOf])
              exact ⟨prims, h1⟩
          refine ⟨prims.map (Qasm.Op.prim (some c')) ++ ops, ?_, ?_⟩
          · simp [expandOps, expandOp, hops, hskip, h1, bind, Except.bind]
          · have := SegRel1.skipped c' prims ops _ hnever hrel
            simpa [gatesOf, hun] using this
        · have hcv := condWf_cvBad hcw hun
          by_cases hid : n = cs!"id"
          · subst hid
            obtain ⟨prims, A, h1, h2, h3, h4⟩ := flat_import_id N c ps t d hdq htl hpl hn hr
            refine ⟨prims.map (Qasm.Op.prim c) ++ ops, ?_, ?_⟩
            · simp [expandOps, expandOp, hops, hskip, h1, bind, Except.bind]
            · have := SegRel1.gates c prims [] A 1 ops _ h3 rfl h4 (by simp) hrel
              simpa [gatesOf, h2, hun] using this
          · obtain ⟨prims, g, A, B, h1, h2, hcc, hcval, h3, h4, h5⟩ :=
              flat_import_call N c n ps t (import_sound_of_find hdq hid) d hdq htl hpl hn hr hcv
            refine ⟨prims.map (Qasm.Op.prim c) ++ ops, ?_, ?_⟩
            · simp [expandOps, expandOp, hops, hskip, h1, bind, Except.bind]
            · have := SegRel1.gates c prims [.gate g] A B ops _ h3
                (denIOps_single N _ B (by simpa [denIOp] using h4)) h5 (by simp [ctrlOfIOp, hcc, hcval]) hrel
              simpa [gatesOf, h2, hun] using this
      · -- a user gate
        have hpre' : predefined n = false := by simpa using hpre
        have hdU := user_not_qelib hpre' hd
        obtain ⟨inner, prims, M, A, k1, k2, k3, k4, k5⟩ := custom_place U hU hlen n d hdU N ps t hps hpl htl hn hr
        refine ⟨prims.map (Qasm.Op.prim c) ++ ops, ?_, ?_⟩
        · simp [expandOps, expandOp, hops, k3, bind, Except.bind]
        · by_cases hun : condUnsat c = true
          · obtain ⟨c', rfl, hnever⟩ := condUnsat_never c hun
            have := SegRel1.skipped c' prims ops _ hnever hrel
            simpa [List.flatMap_cons, gatesOf1, hpre', hun] using this
          · have hden := denCustom_of N t inner d.qargs.length htl hn hr M k2
            have := SegRel1.gates c prims [.custom (customName n ps) t (ccOf c) (cvOf c) inner] A _ ops _ k4
              (denIOps_single N _ _ (by simpa [denIOp] using hden)) k5 (by simp [ctrlOfIOp]) hrel
            simpa [List.flatMap_cons, gatesOf1, hpre', hun, k1] using this
    | measure c q b =>
      have hc : c = none := hw
      subst hc
      refine ⟨Qasm.Op.measure none q b :: ops, ?_, ?_⟩
      · simp [expandOps, expandOp, hops, bind, Except.bind]
      · simpa [List.flatMap_cons, gatesOf1, gatesOf] using SegRel1.meas q b ops _ hrel
    | barrier qs =>
      refine ⟨Qasm.Op.barrier qs :: ops, ?_, ?_⟩
      · simp [expandOps, expandOp, hops, bind, Except.bind]
      · simpa [List.flatMap_cons, gatesOf1, gatesOf] using SegRel1.barrier qs ops _ hrel

/-! ## no condition, no measurement: one unitary -/

theorem segRel1_unitary (N : ℕ) (ops : List Qasm.Op) (iops : List IOp) (h : SegRel1 N ops iops) :
    ∀ prims, opsPrims ops = some prims →
      ∃ A B, denPrims N ρ0 prims = some A ∧ denIOps N iops = some B ∧ PhaseEqN A B := by
  induction h with
  | nil =>
    intro prims hp
    simp only [opsPrims, Option.some.injEq] at hp
    subst hp
    exact ⟨1, 1, denPrims_nil _ _, rfl, PhaseEqN.refl _⟩
  | gates c prims seg A B rest rest' h1 h2 h3 _ _ ih =>
    intro p hp
    obtain ⟨pa, pb, k1, k2, rfl⟩ := opsPrims_append_inv _ _ _ hp
    have := opsPrims_map_inv c prims pa k1
    subst this
    obtain ⟨A2, B2, j1, j2, j3⟩ := ih pb k2
    exact ⟨A2 * A, B2 * B, denPrims_append _ _ _ _ _ _ h1 j1, denIOps_append N _ _ _ _ h2 j2, PhaseEqN.mul j3 h3⟩
  | skipped c prims rest rest' _ _ ih =>
    intro p hp
    obtain ⟨pa, pb, k1, k2, rfl⟩ := opsPrims_append_inv _ _ _ hp
    have := opsPrims_map_inv (some c) prims pa k1
    subst this
    cases pa with
    | nil => simpa using ih pb k2
    | cons x r => simp [opsPrims] at k1
  | meas q b rest rest' _ _ =>
    intro p hp
    simp [opsPrims] at hp
  | barrier qs rest rest' _ ih =>
    intro p hp
    simp only [opsPrims] at hp
    exact ih p hp

/-! ## well-formedness of the flat operations of an accepted program of W₁ -/

theorem flattenQOp_wf1 {env : Env} (U : List GateDef) (hg : env.gates = U ++ qelib1.reverse)
    (hq : RegsOk env.qregs) (cnd : Option (Str × Nat)) (op : QOp) (fl : List FlatOp)
    (hop : isOp (match cnd with | none => Stmt.qop op | some (c, k) => Stmt.ifc c k op) = true)
    (h : flattenQOp env cnd op = .ok fl)
    (hcv : ∀ cond, condOf env cnd = .ok cond → CondWf cond)
    (hz : ∀ e ∈ paramsOf (.qop op), divZero e = false) :
    ∀ f ∈ fl, FlatWf1 U env.qregs.total f := by
  intro f hf
  cases op with
  | U a b l q =>
    obtain ⟨cond, xs, ts, hcond, _, _, hra, hbc, rfl⟩ := flatten_U_inv h
    obtain ⟨t, ht, rfl⟩ := List.mem_map.mp hf
    have hw := broadcast_wf (resolveArgs_bound hq [q] xs hra) hbc t ht
    have hlen : t.length = 1 := by
      rw [broadcast_length hbc t ht, resolveArgs_length [q] xs hra]; rfl
    obtain ⟨x, rfl⟩ : ∃ x, t = [x] := ⟨_, length_one hlen⟩
    exact ⟨hw.2 x (by simp), hcv cond hcond⟩
  | CX a b =>
    obtain ⟨cond, xs, ts, hcond, hra, hbc, rfl⟩ := flatten_CX_inv h
    obtain ⟨t, ht, rfl⟩ := List.mem_map.mp hf
    have hw := broadcast_wf (resolveArgs_bound hq [a, b] xs hra) hbc t ht
    have hlen : t.length = 2 := by
      rw [broadcast_length hbc t ht, resolveArgs_length [a, b] xs hra]; rfl
    obtain ⟨x, y, rfl⟩ : ∃ x y, t = [x, y] := ⟨_, _, length_two hlen⟩
    refine ⟨hw.2 x (by simp), hw.2 y (by simp), ?_, hcv cond hcond⟩
    have := hw.1
    simp only [List.nodup_cons, List.mem_singleton, List.not_mem_nil, not_false_eq_true, List.nodup_nil,
      and_true] at this
    simpa using this
  | call n ps qs =>
    obtain ⟨cond, sg, xs, ts, hcond, hsig, hnp, hnq, hsup, hcl, hra, hbc, rfl⟩ := flatten_call_inv h
    obtain ⟨t, ht, rfl⟩ := List.mem_map.mp hf
    have hw := broadcast_wf (resolveArgs_bound hq qs xs hra) hbc t ht
    simp only [Env.sig?, hg] at hsig
    cases hfd : (U ++ qelib1.reverse).find? (fun d => d.name == n) with
    | none => simp [hfd] at hsig
    | some d =>
      simp only [hfd, Option.map_some, Option.some.injEq] at hsig
      subst hsig
      refine ⟨⟨d, hfd, ?_, hnp.symm⟩, hw.1, hw.2, hcv cond hcond, ⟨hsup, hcl, by simpa [paramsOf] using hz⟩⟩
      rw [broadcast_length hbc t ht, resolveArgs_length qs xs hra]
      exact hnq.symm
  | measure q cb =>
    cases cnd with
    | some ck => simp [isOp] at hop
    | none =>
      simp only [flattenQOp, condOf, bind, Except.bind] at h
      cases hx : resolveArg env.qregs q with
      | error e => simp [hx] at h
      | ok x =>
        cases hy : resolveArg env.cregs cb with
        | error e => simp [hx, hy] at h
        | ok y =>
          simp only [hx, hy] at h
          cases x with
          | inl i =>
            cases y with
            | inl j =>
              simp only [Except.ok.injEq] at h; subst h
              simp only [List.mem_singleton] at hf; subst hf; rfl
            | inr m => cases h
          | inr l =>
            cases y with
            | inl j => cases h
            | inr m =>
              simp only at h
              split at h
              · simp only [Except.ok.injEq] at h; subst h
                obtain ⟨ij, _, rfl⟩ := List.mem_map.mp hf
                rfl
              · cases h
  | reset q => cases cnd <;> simp [isOp] at hop

theorem flattenStmt_wf1 {env env' : Env} (U : List GateDef) (hg : env.gates = U ++ qelib1.reverse)
    (hq : RegsOk env.qregs) (s : Stmt) (hop : isOp s = true) (fl : List FlatOp)
    (h : flattenStmt env s = .ok (env', fl)) (hk : ifRangeOk env s)
    (hz : ∀ e ∈ paramsOf s, divZero e = false) : ∀ f ∈ fl, FlatWf1 U env.qregs.total f := by
  cases s with
  | qop op =>
    simp only [flattenStmt, bind, Except.bind] at h
    cases hqo : flattenQOp env none op with
    | error e => simp [hqo] at h
    | ok fl' =>
      simp only [hqo, Except.ok.injEq, Prod.mk.injEq] at h
      obtain ⟨_, rfl⟩ := h
      exact flattenQOp_wf1 U hg hq none op fl' hop hqo (fun cond hc => Or.inr (cvBad_none cond hc).2)
        (by cases op <;> simpa [paramsOf] using hz)
  | ifc c k op =>
    simp only [flattenStmt, bind, Except.bind] at h
    cases hqo : flattenQOp env (some (c, k)) op with
    | error e => simp [hqo] at h
    | ok fl' =>
      simp only [hqo, Except.ok.injEq, Prod.mk.injEq] at h
      obtain ⟨_, rfl⟩ := h
      refine flattenQOp_wf1 U hg hq (some (c, k)) op fl' hop hqo (fun cond hc => ?_)
        (by cases op <;> simpa [paramsOf] using hz)
      simp only [condOf] at hc
      cases hfe : env.cregs.find? c with
      | none => simp [hfe] at hc
      | some v =>
        obtain ⟨s0, n⟩ := v
        simp only [hfe, Except.ok.injEq] at hc
        subst hc
        by_cases hs : condSkipped n k = true
        · left
          simpa [condUnsat] using hs
        · right
          have hs' : condSkipped n k = false := by simpa using hs
          exact (cvBad_some hfe (cond_fits hfe hk hs') hs' _ (by simp [condOf, hfe])).2
  | barrier qs =>
    simp only [flattenStmt, bind, Except.bind] at h
    cases hra : resolveArgs env.qregs qs with
    | error e => simp [hra] at h
    | ok xs =>
      simp only [hra, Except.ok.injEq, Prod.mk.injEq] at h
      obtain ⟨_, rfl⟩ := h
      intro f hf
      simp only [List.mem_singleton] at hf; subst hf
      trivial
  | _ => simp [isOp] at hop

theorem flattenFrom_wf1 {env : Env} (U : List GateDef) (hg : env.gates = U ++ qelib1.reverse)
    (hq : RegsOk env.qregs) :
    ∀ (ops : List Stmt) (env' : Env) (fl : List FlatOp), ops.all isOp = true →
      (∀ s ∈ ops, ifRangeOk env s) → (∀ s ∈ ops, ∀ e ∈ paramsOf s, divZero e = false) →
      flattenFrom env ops = .ok (env', fl) → ∀ f ∈ fl, FlatWf1 U env.qregs.total f := by
  intro ops
  induction ops with
  | nil =>
    intro env' fl _ _ _ h
    simp only [flattenFrom, Except.ok.injEq, Prod.mk.injEq] at h
    obtain ⟨_, rfl⟩ := h
    intro f hf; cases hf
  | cons s ss ih =>
    intro env' fl hall hkk hz h
    simp only [List.all_cons, Bool.and_eq_true] at hall
    obtain ⟨e1, o1, o2, h1, h2, rfl⟩ := flattenFrom_cons_inv h
    have he1 : e1 = env := flattenStmt_op_env s hall.1 o1 h1
    subst he1
    intro f hf
    rcases List.mem_append.mp hf with hf | hf
    · exact flattenStmt_wf1 U hg hq s hall.1 o1 h1 (hkk s (by simp)) (hz s (by simp)) f hf
    · exact ih env' o2 hall.2 (fun t ht => hkk t (by simp [ht])) (fun t ht => hz t (by simp [ht])) h2 f hf

/-! ## whole programs -/

/-- **Unitary of the imported circuit, segment by segment — programs WITH user gate definitions.** -/
theorem import_den_w1 (p : Program) (decls : List Stmt) (gdefs : List GateDef) (ops : List Stmt)
    (hw : W1 p decls gdefs ops) (env : Env) (fl : List FlatOp) (h : flatten p = .ok (env, fl))
    (hk : ∀ s ∈ ops, ifRangeOk env s) :
    ∃ sops iops, denote p = .ok (env.qregs.total, env.cregs.total, sops) ∧
      importProgram p = .ok (env.qregs.total, env.cregs.total, iops) ∧
      SegRel1 env.qregs.total sops iops := by
  obtain ⟨himp, hgates⟩ := import_refines_w1 p decls gdefs ops hw env fl h hk
  obtain ⟨rfl, hd, ho, hdefs, hfew, hbodies, hz, _⟩ := hw
  -- the flat operations are well formed
  have hwf : ∀ f ∈ fl, FlatWf1 gdefs.reverse env.qregs.total f := by
    obtain ⟨e0, o0, o1, h0, h1, rfl⟩ := flattenFrom_cons_inv (by simpa [flatten] using h)
    simp only [flattenStmt, Except.ok.injEq, Prod.mk.injEq] at h0
    obtain ⟨rfl, rfl⟩ := h0
    obtain ⟨e1, o2, o3, h2, h3, rfl⟩ := flattenFrom_cons_inv h1
    have hinc : flattenStmt ({} : Env) (.incl cs!"qelib1.inc") =
        .ok ({ ({} : Env) with gates := qelib1.reverse }, []) := rfl
    rw [hinc] at h2
    simp only [Except.ok.injEq, Prod.mk.injEq] at h2
    obtain ⟨rfl, rfl⟩ := h2
    obtain ⟨e2, o4, o5, h4, h5, rfl⟩ := flattenFrom_append_inv h3
    obtain ⟨hrq, hgt⟩ := decls_regsOk decls _ e2 o4 hd regsOk_empty h4
    obtain ⟨_, _, _, hfl, _⟩ := decls_rel decls {} _ e2 o4 hd
      ⟨fun _ => rfl, fun _ => rfl, rfl, rfl, fun _ r s n hh => by simp [Regs.find?] at hh⟩ h4
    subst hfl
    obtain ⟨_, hfg⟩ := gdefs_passes gdefs [] {} e2 env ops o5 (by simpa using hdefs) rfl (by simp [hgt])
      hbodies h5
    simp only [List.append_nil] at hfg
    have hee : env = { e2 with gates := gdefs.reverse ++ qelib1.reverse } :=
      flattenFrom_ops_env ops _ env o5 ho hfg
    subst hee
    intro f hf
    simp only [List.nil_append] at hf
    exact flattenFrom_wf1 (env := { e2 with gates := gdefs.reverse ++ qelib1.reverse }) gdefs.reverse rfl hrq
      ops _ o5 ho hk hz hfg f hf
  obtain ⟨sops, hops, hrel⟩ := flats_import_den1 gdefs.reverse hdefs (by simpa using hfew) env.qregs.total fl hwf
  refine ⟨sops, _, ?_, himp, hrel⟩
  simp only [denote, h, bind, Except.bind, hgates, hops]

end QipVerif.Qasm.Import
