import QipVerif.Lemmas.RenderAligned
/-! C20: the layer bookkeeping dominates the row lengths (`len row[w] ≤ Σ layer_list[w]`), hence
equal widths after the final padding — for circuits whose every iteration appends at most one
piece of at most the layer's width to each wire (`opOk`). -/
namespace QipVerif.Render
variable {v : Variant}

/-! ## the decidable hypothesis -/

/-- every wire in the span of the targets is a target -/
def contig (ts : List Nat) : Bool := (pyRange (lmin ts) (lmax ts + 1)).all fun w => decide (w ∈ ts)

/-- A gate with a target list covered by `equal_width_partial`: at least one target, all its qubits
exist, and — unless the tree has the repair `spanFix` — **a box with controls has contiguous
targets** (the shipped code draws a multi-target box over the gap wire, and then draws the control
bridges on the gap wire a second time). -/
def gateOk (v : Variant) (N : Nat) (name : Str) (targets : List Nat) (controls : Option (List Nat)) : Bool :=
  !targets.isEmpty && (targets ++ ctrlList controls).all (fun q => decide (q < N)) &&
    (decide (targets.length = 1 ∧ controls = none) || decide (name = swapName) || !truthy controls ||
      v.spanFix || contig targets)

/-- Circuit elements covered by `equal_width_partial`: a measurement has one target, a qubit;
a gate satisfies `gateOk`; a gate on the whole register is covered iff the tree has the repair
`globalBox`, a measurement without `classical_store` iff it has the repair `measBox` (the shipped
code raises `TypeError` on both). -/
def opOk (v : Variant) (N : Nat) : Op → Bool
  | .meas [t0] _ => decide (t0 < N)
  | .meas _ _ => false
  | .gate name _ targets controls => gateOk v N name targets controls
  | .glob name _ => v.globalBox && gateOk v N name (List.range N) none
  | .measNS [t0] => v.measBox && decide (t0 < N)
  | .measNS _ => false

/-- style / size hypotheses of `equal_width_partial` -/
def styleOk (sty : Style) (N C : Nat) : Bool :=
  decide (0 ≤ sty.ext) && decide (1 ≤ N) &&
    match sty.labels with
    | none => true
    | some l => decide (l.length = N + C)

theorem contig_mem {ts : List Nat} (h : contig ts = true) {w : Nat} (h1 : lmin ts ≤ w) (h2 : w ≤ lmax ts) : w ∈ ts := by
  have := List.all_eq_true.mp h w (mem_pyRange.mpr ⟨h1, by omega⟩)
  simpa using this

/-! ## plans of covered elements -/

structure PlanOk (N C : Nat) (pl : Plan) : Prop where
  wl_nodup : pl.wl.Nodup
  wl_lt : ∀ w ∈ pl.wl, w < N + C
  acts_nodup : (pl.acts.map (·.1)).Nodup
  acts_sub : ∀ a ∈ pl.acts, a.1 ∈ pl.wl
  acts_w : ∀ a ∈ pl.acts, ∃ n, n ≤ pl.width ∧ SegW n a.2
  zero : (∃ w ∈ pl.wl, N ≤ w) → 0 ∈ pl.wl

theorem filterMap_fst_sublist (f : Nat → Option (Nat × Seg)) (hf : ∀ w a, f w = some a → a.1 = w)
    (wl : List Nat) : ((wl.filterMap f).map (·.1)).Sublist wl := by
  induction wl with
  | nil => simp
  | cons x wl ih =>
    rw [List.filterMap_cons]
    cases hx : f x with
    | none => exact ih.cons _
    | some a =>
      simp only [List.map_cons]
      rw [hf x a hx]
      exact ih.cons_cons _

theorem updCbridge_fst {N t0 store : Nat} {wl : List Nat} {width : Nat} :
    ((updCbridge N t0 store wl width).map (·.1)).Sublist wl ∧
    ∀ a ∈ updCbridge N t0 store wl width, a.1 ∈ wl ∧ a.1 ≠ t0 := by
  constructor
  · apply filterMap_fst_sublist
    intro w a h
    split at h
    · cases h
    · split at h <;> cases h <;> rfl
  · intro a ha
    obtain ⟨w, hw, h⟩ := List.mem_filterMap.mp ha
    split at h
    · cases h
    · rename_i hne
      split at h <;> cases h <;> exact ⟨hw, hne⟩

theorem updQbridge_fst {ts cs wl : List Nat} {width : Nat} {isTop : Bool} :
    ((updQbridge v ts cs wl width isTop).map (·.1)).Sublist wl ∧
    ∀ a ∈ updQbridge v ts cs wl width isTop, a.1 ∈ wl ∧ inBox v ts a.1 = false := by
  constructor
  · apply filterMap_fst_sublist
    intro w a h
    split at h
    · cases h
    · split at h
      · split at h <;> cases h <;> rfl
      · cases h; rfl
  · intro a ha
    obtain ⟨w, hw, h⟩ := List.mem_filterMap.mp ha
    split at h
    · cases h
    · rename_i hne
      have hne' : inBox v ts w = false := by simpa using hne
      split at h
      · split at h <;> cases h <;> exact ⟨hw, hne'⟩
      · cases h; exact ⟨hw, hne'⟩

/-- a wire the bridge pass draws lies outside the span of the targets (repaired tree: by its test;
shipped tree: when the targets are contiguous) -/
theorem outside_of_not_inBox {ts : List Nat} {w : Nat} (hv : v.spanFix = true ∨ contig ts = true)
    (h : inBox v ts w = false) : ¬ (lmin ts ≤ w ∧ w ≤ lmax ts) := by
  unfold inBox at h
  rcases hv with hv | hv
  · rw [hv] at h; simpa using h
  · intro hin
    have hm := contig_mem hv hin.1 hin.2
    cases hs : v.spanFix with
    | true => rw [hs] at h; simp at h; omega
    | false => rw [hs] at h; simp at h; exact h hm

theorem updSwap_fst (p : Nat) (wl : List Nat) : (updSwap p wl).map (·.1) = wl := by
  unfold updSwap
  simp only [List.map_map]
  conv => rhs; rw [← List.map_id wl]
  apply List.map_congr_left
  intro w _
  simp only [Function.comp]
  split
  · rfl
  · split <;> rfl

theorem updTargetMultiq_fst (ts cs wl : List Nat) (b : Box) : (updTargetMultiq v ts cs wl b).map (·.1) = wl := by
  unfold updTargetMultiq
  rw [List.map_map]
  exact List.map_snd_zip (l₁ := List.range wl.length) (l₂ := wl) (by simp)

theorem sublist_nodup_mem {l wl : List Nat} (h : l.Sublist wl) (hn : wl.Nodup) : l.Nodup := hn.sublist h

theorem mem_map_fst {acts : List (Nat × Seg)} {w : Nat} (h : w ∈ acts.map (·.1)) : ∃ a ∈ acts, a.1 = w := by
  obtain ⟨a, ha, rfl⟩ := List.mem_map.mp h
  exact ⟨a, ha, rfl⟩

/-- Lemma A for a gate with a target list -/
theorem planGate_ok {p N C : Nat} {name : Str} {argLabel : Option Str} {targets : List Nat}
    {controls : Option (List Nat)} {pl : Plan} (hop : gateOk v N name targets controls = true)
    (h : planGate v p name argLabel targets controls = .ok pl) : PlanOk N C pl := by
  simp only [gateOk, Bool.and_eq_true, Bool.or_eq_true, Bool.not_eq_true', List.all_eq_true, decide_eq_true_eq] at hop
  obtain ⟨⟨hne, hlt⟩, hshape⟩ := hop
  have hne' : targets ≠ [] := by intro h; simp [h] at hne
  have hlt' : ∀ q ∈ targets, q < N := fun q hq => hlt q (List.mem_append_left _ hq)
  have htmax : lmax targets < N := hlt' _ (lmax_mem hne')
  have hmm : lmin targets ≤ lmax targets := lmin_le (lmax_mem hne')
  simp only [planGate] at h
  split at h
  · -- single
    rename_i h1
    cases h
    have hg := drawSingleq_w p (gateText name argLabel)
    obtain ⟨t, ht⟩ : ∃ t, targets = [t] := by
      match targets, h1.1 with
      | [t], _ => exact ⟨t, rfl⟩
    subst ht
    refine ⟨by simp, ?_, by simp [updSingleq], by simp [updSingleq], ?_, ?_⟩
    · intro w hw; have := hlt' w hw; omega
    · intro a ha
      exact ⟨_, by dsimp only; rw [hg.top]; exact Nat.le_refl _, updSingleq_w hg _ a ha⟩
    · rintro ⟨w, hw, hN⟩
      have := hlt' w hw; omega
  · rename_i h1
    split at h
    · -- swap
      split at h
      · cases h
      · cases h
        refine ⟨nodup_pyRange .., ?_, ?_, ?_, ?_, ?_⟩
        · intro w hw; have := mem_pyRange.mp hw; omega
        · rw [updSwap_fst]; exact nodup_pyRange ..
        · intro a ha
          have : a.1 ∈ (updSwap p (pyRange (lmin targets) (lmax targets + 1))).map (·.1) :=
            List.mem_map.mpr ⟨a, ha, rfl⟩
          rwa [updSwap_fst] at this
        · intro a ha
          exact ⟨_, Nat.le_refl _, updSwap_w p _ a ha⟩
        · rintro ⟨w, hw, hN⟩
          have := mem_pyRange.mp hw; omega
    · -- multi-qubit box
      rename_i h2
      split at h
      · cases h
      · have hb := drawMultiq_w v p (gateText name argLabel) targets controls
        have hmne : targets ++ ctrlList controls ≠ [] := by simp [hne']
        have hmmax : lmax (targets ++ ctrlList controls) < N := hlt _ (lmax_mem hmne)
        have htlo : lmin (targets ++ ctrlList controls) ≤ lmin targets :=
          lmin_le (List.mem_append_left _ (lmin_mem hne'))
        have hthi : lmax targets ≤ lmax (targets ++ ctrlList controls) :=
          le_lmax (List.mem_append_left _ (lmax_mem hne'))
        have hwl_lt : ∀ w ∈ pyRange (lmin (targets ++ ctrlList controls)) (lmax (targets ++ ctrlList controls) + 1),
            w < N + C := by
          intro w hw; have := mem_pyRange.mp hw; omega
        have hzero : (∃ w ∈ pyRange (lmin (targets ++ ctrlList controls)) (lmax (targets ++ ctrlList controls) + 1),
            N ≤ w) → 0 ∈ pyRange (lmin (targets ++ ctrlList controls)) (lmax (targets ++ ctrlList controls) + 1) := by
          rintro ⟨w, hw, hN⟩
          have := mem_pyRange.mp hw; omega
        have ha0 := updTargetMultiq_fst (v := v) targets (ctrlList controls) (pyRange (lmin targets) (lmax targets + 1))
          (drawMultiq v p (gateText name argLabel) targets controls)
        have ha0sub : ∀ a ∈ updTargetMultiq v targets (ctrlList controls) (pyRange (lmin targets) (lmax targets + 1))
            (drawMultiq v p (gateText name argLabel) targets controls),
            a.1 ∈ pyRange (lmin targets) (lmax targets + 1) := by
          intro a ha
          have : a.1 ∈ (updTargetMultiq v targets (ctrlList controls) (pyRange (lmin targets) (lmax targets + 1))
            (drawMultiq v p (gateText name argLabel) targets controls)).map (·.1) := List.mem_map.mpr ⟨a, ha, rfl⟩
          rwa [ha0] at this
        have hwidth : 2 ≤ (drawMultiq v p (gateText name argLabel) targets controls).top.length := by
          rw [hb.top]; omega
        split at h
        · -- with controls
          rename_i htr
          have hcontig : v.spanFix = true ∨ contig targets = true := by
            rcases hshape with (((hs | hs) | hs) | hs) | hs
            · exact absurd hs h1
            · exact absurd hs h2
            · rw [hs] at htr; cases htr
            · exact Or.inl hs
            · exact Or.inr hs
          have hcne : ctrlList controls ≠ [] := by
            unfold truthy at htr
            cases controls with
            | none => cases htr
            | some l => intro hl; simp [ctrlList] at hl; subst hl; simp at htr
          have hchi : lmax (ctrlList controls) ≤ lmax (targets ++ ctrlList controls) :=
            le_lmax (List.mem_append_right _ (lmax_mem hcne))
          have hclo : lmin (targets ++ ctrlList controls) ≤ lmin (ctrlList controls) :=
            lmin_le (List.mem_append_right _ (lmin_mem hcne))
          cases h
          -- the three groups of appends
          have hq1 := fun (it : Bool) => @updQbridge_fst v targets (ctrlList controls)
            (pyRange (lmin targets) (lmax (ctrlList controls) + 1))
            (drawMultiq v p (gateText name argLabel) targets controls).top.length it
          have hq2 := fun (it : Bool) => @updQbridge_fst v targets (ctrlList controls)
            (pyRange (lmin (ctrlList controls)) (lmax targets + 1))
            (drawMultiq v p (gateText name argLabel) targets controls).top.length it
          -- wires of the bridges lie strictly outside the span of the targets
          have hout1 : ∀ it, ∀ a ∈ updQbridge v targets (ctrlList controls)
              (pyRange (lmin targets) (lmax (ctrlList controls) + 1))
              (drawMultiq v p (gateText name argLabel) targets controls).top.length it,
              lmax targets < a.1 ∧ a.1 ≤ lmax (ctrlList controls) := by
            intro it a ha
            obtain ⟨hm, hnt⟩ := (hq1 it).2 a ha
            have hm' := mem_pyRange.mp hm
            have := outside_of_not_inBox hcontig hnt
            omega
          have hout2 : ∀ it, ∀ a ∈ updQbridge v targets (ctrlList controls)
              (pyRange (lmin (ctrlList controls)) (lmax targets + 1))
              (drawMultiq v p (gateText name argLabel) targets controls).top.length it,
              a.1 < lmin targets ∧ lmin (ctrlList controls) ≤ a.1 := by
            intro it a ha
            obtain ⟨hm, hnt⟩ := (hq2 it).2 a ha
            have hm' := mem_pyRange.mp hm
            have := outside_of_not_inBox hcontig hnt
            omega
          refine ⟨nodup_pyRange .., hwl_lt, ?_, ?_, ?_, hzero⟩
          · simp only [List.map_append]
            refine List.nodup_append.mpr ⟨List.nodup_append.mpr ⟨?_, ?_, ?_⟩, ?_, ?_⟩
            · rw [ha0]; exact nodup_pyRange ..
            · split
              · exact sublist_nodup_mem (hq1 _).1 (nodup_pyRange ..)
              · simp
            · intro x hx y hy
              rw [ha0] at hx
              have hx' := mem_pyRange.mp hx
              split at hy
              · obtain ⟨a, ha, rfl⟩ := mem_map_fst hy
                have := hout1 _ a ha; omega
              · cases hy
            · split
              · exact sublist_nodup_mem (hq2 _).1 (nodup_pyRange ..)
              · simp
            · intro x hx y hy
              split at hy
              · obtain ⟨a, ha, rfl⟩ := mem_map_fst hy
                have h2' := hout2 _ a ha
                rcases List.mem_append.mp hx with hx | hx
                · rw [ha0] at hx
                  have hx' := mem_pyRange.mp hx; omega
                · split at hx
                  · obtain ⟨a', ha', rfl⟩ := mem_map_fst hx
                    have h1' := hout1 _ a' ha'
                    have : lmin targets ≤ lmax targets := lmin_le (lmax_mem hne')
                    omega
                  · cases hx
              · cases hy
          · intro a ha
            rcases List.mem_append.mp ha with ha | ha
            · rcases List.mem_append.mp ha with ha | ha
              · have := mem_pyRange.mp (ha0sub a ha)
                exact mem_pyRange.mpr ⟨by omega, by omega⟩
              · split at ha
                · have := hout1 _ a ha
                  have : lmin targets ≤ lmax targets := lmin_le (lmax_mem hne')
                  exact mem_pyRange.mpr ⟨by omega, by omega⟩
                · cases ha
            · split at ha
              · have := hout2 _ a ha
                exact mem_pyRange.mpr ⟨by omega, by omega⟩
              · cases ha
          · intro a ha
            rcases List.mem_append.mp ha with ha | ha
            · rcases List.mem_append.mp ha with ha | ha
              · exact ⟨_, by rw [hb.top]; exact Nat.le_refl _, updTargetMultiq_w hb (by omega) _ _ _ _ a ha⟩
              · split at ha
                · exact ⟨_, by dsimp only; omega, updQbridge_w _ _ _ _ _ _ hwidth a ha⟩
                · cases ha
            · split at ha
              · exact ⟨_, by dsimp only; omega, updQbridge_w _ _ _ _ _ _ hwidth a ha⟩
              · cases ha
        · -- without controls
          cases h
          refine ⟨nodup_pyRange .., hwl_lt, ?_, ?_, ?_, hzero⟩
          · rw [ha0]; exact nodup_pyRange ..
          · intro a ha
            have := mem_pyRange.mp (ha0sub a ha)
            exact mem_pyRange.mpr ⟨by omega, by omega⟩
          · intro a ha
            exact ⟨_, by rw [hb.top]; exact Nat.le_refl _, updTargetMultiq_w hb (by omega) _ _ _ _ a ha⟩


/-- on a tree with the repair `measBox` a one-target measurement without `classical_store` is laid
out exactly like the plain one-qubit gate labelled `M` -/
theorem plan_measNS_single {p N C t0 : Nat} (hv : v.measBox = true) :
    plan v p N C (.measNS [t0]) = planGate v p ['M'] none [t0] none := by
  simp [plan, planGate, hv, gateText]

theorem gateOk_single {N t0 : Nat} {name : Str} (h : t0 < N) : gateOk v N name [t0] none = true := by
  simp [gateOk, ctrlList, h]

/-- **Lemma A**: the iteration of a covered element appends at most one piece, of at most the
layer's width, to each wire of its wire list. -/
theorem plan_ok {p N C : Nat} {op : Op} {pl : Plan} (hop : opOk v N op = true) (h : plan v p N C op = .ok pl) :
    PlanOk N C pl := by
  cases op with
  | meas targets store =>
    match targets, hop, h with
    | [], hop, _ => simp [opOk] at hop
    | _ :: _ :: _, hop, _ => simp [opOk] at hop
    | [t0], hop, h =>
      have ht0 : t0 < N := by simpa [opOk] using hop
      simp only [plan] at h
      cases h
      have hw := drawMeas_w p N t0 store
      have hcb := @updCbridge_fst N t0 store (pyRange 0 (t0 + 1) ++ pyRange (store + N) (N + C))
        (drawMeas p N t0 store).top.length
      refine ⟨?_, ?_, ?_, ?_, ?_, ?_⟩
      · refine List.nodup_append.mpr ⟨nodup_pyRange .., nodup_pyRange .., ?_⟩
        intro a ha b hb
        have := mem_pyRange.mp ha; have := mem_pyRange.mp hb; omega
      · intro w hw'
        rcases List.mem_append.mp hw' with h' | h' <;> have := mem_pyRange.mp h' <;> omega
      · simp only [updSingleq, List.map_cons, List.map_nil, List.cons_append, List.nil_append]
        refine List.nodup_cons.mpr ⟨?_, sublist_nodup_mem hcb.1 ?_⟩
        · intro hmem
          obtain ⟨a, ha, ha1⟩ := mem_map_fst hmem
          exact (hcb.2 a ha).2 ha1
        · refine List.nodup_append.mpr ⟨nodup_pyRange .., nodup_pyRange .., ?_⟩
          intro a ha b hb
          have := mem_pyRange.mp ha; have := mem_pyRange.mp hb; omega
      · intro a ha
        rcases List.mem_append.mp ha with h' | h'
        · simp only [updSingleq, List.map_cons, List.map_nil, List.mem_singleton] at h'
          subst h'
          exact List.mem_append_left _ (mem_pyRange.mpr ⟨by omega, by omega⟩)
        · exact (hcb.2 a h').1
      · intro a ha
        rcases List.mem_append.mp ha with h' | h'
        · exact ⟨p * 2 + 5, by dsimp only; rw [hw.top]; omega, updSingleq_w hw _ a h'⟩
        · exact ⟨_, by dsimp only; rw [hw.top]; omega, updCbridge_w _ _ _ _ _ a h'⟩
      · intro _
        exact List.mem_append_left _ (mem_pyRange.mpr ⟨by omega, by omega⟩)
  | gate name argLabel targets controls => exact planGate_ok hop h
  | glob name argLabel =>
    simp only [opOk, Bool.and_eq_true] at hop
    simp only [plan, hop.1, if_true] at h
    exact planGate_ok hop.2 h
  | measNS targets =>
    match targets, hop, h with
    | [], hop, _ => simp [opOk] at hop
    | _ :: _ :: _, hop, _ => simp [opOk] at hop
    | [t0], hop, h =>
      simp only [opOk, Bool.and_eq_true, decide_eq_true_eq] at hop
      rw [plan_measNS_single hop.1] at h
      exact planGate_ok (gateOk_single (name := ['M']) hop.2) h

end QipVerif.Render
