import QipVerif.Lemmas.GridMerge
/-! The advance step of `_fill_coeff` in its two shapes (C14, fixes/C14-7.patch): `if` (one slot per merged point, the
code as found) and `while` (the index catches up over several slots).  Under the hypotheses of the resampling theorems
(every point of the channel is a merged point, merged points and channel points are equal or more than `tol` apart) the
loop advances at most once per merged point, so the two variants return the same list. -/
namespace QipVerif.Grid

/-- the variant `w = false` is the loop of the code as found -/
theorem fillLoopW_false (tol : Rat) (oldT oldC : List Rat) (first last : Rat) (i : Nat) (ts : List Rat) :
    fillLoopW false tol oldT oldC first last i ts = fillLoop tol oldT oldC first last i ts := by
  induction ts generalizing i with
  | nil => simp [fillLoopW, fillLoop]
  | cons t rest ih =>
    unfold fillLoopW fillLoop
    by_cases c1 : first - t > tol
    · rw [if_pos c1, if_pos c1, ih]
    · rw [if_neg c1, if_neg c1]
      by_cases c2 : t - last > tol
      · rw [if_pos c2, if_pos c2, ih]
      · rw [if_neg c2, if_neg c2]
        unfold nextInd
        simp only [Bool.false_eq_true, if_false]
        cases h : oldT[i + 1]? with
        | none => rfl
        | some nxt =>
          simp only
          cases hc : oldC[if nxt ≤ t + tol then i + 1 else i]? with
          | none => rfl
          | some c => simp only; rw [ih]

theorem fillW_false (tol : Rat) (oldT oldC full : List Rat) : fillW false tol oldT oldC full = fill tol oldT oldC full := by
  unfold fillW fill
  cases full with
  | nil => rfl
  | cons a l =>
    simp only
    cases oldT.head? <;> cases oldT.getLast? <;> simp only [fillLoopW_false]

/-- one iteration is all the `while` loop does when the point after the next one is beyond `t + tol` -/
theorem catchUp_one (tol : Rat) (oldT : List Rat) (t : Rat) (i fuel : Nat) (hi1 : i + 1 < oldT.length) (hf : 1 ≤ fuel)
    (hnext : ∀ h2 : i + 2 < oldT.length, t + tol < oldT[i + 2]) :
    catchUp tol oldT t fuel i = if oldT[i + 1] ≤ t + tol then i + 1 else i := by
  match fuel, hf with
  | f + 1, _ =>
    unfold catchUp
    rw [List.getElem?_eq_getElem hi1]
    simp only
    by_cases c : oldT[i + 1] ≤ t + tol
    · rw [if_pos c, if_pos c]
      cases f with
      | zero => rfl
      | succ f' =>
        unfold catchUp
        by_cases h2 : i + 2 < oldT.length
        · rw [show i + 1 + 1 = i + 2 from rfl, List.getElem?_eq_getElem h2]
          simp only
          have := hnext h2
          rw [if_neg (by grind)]
        · rw [show i + 1 + 1 = i + 2 from rfl, List.getElem?_eq_none (by omega)]
    · rw [if_neg c, if_neg c]

/-- `fillLoop_eq` for both shapes of the advance step -/
theorem fillLoopW_eq (w : Bool) (tol : Rat) (oldT C : List Rat) (first last : Rat) (htol : 0 ≤ tol)
    (hp : oldT.Pairwise (· < ·)) (hlenC : C.length = oldT.length)
    (hfirst : oldT.head? = some first) (hlast : oldT.getLast? = some last)
    (ts : List Rat) (i : Nat)
    (hts : ts.Pairwise (· < ·))
    (hi : i < oldT.length)
    (hge : ∀ t ∈ ts, oldT[i] ≤ t)
    (hin : ∀ j (hj : j < oldT.length), i < j → oldT[j] ∈ ts)
    (hstrict : i + 1 = oldT.length → ∀ t ∈ ts, last < t)
    (hsep : ∀ t ∈ ts, ∀ p ∈ oldT, p = t ∨ p - t > tol ∨ t - p > tol) :
    fillLoopW w tol oldT C first last i ts = .ok (ts.map (codeAt oldT C)) := by
  induction ts generalizing i with
  | nil => simp [fillLoopW]
  | cons t rest ih =>
    have hn : oldT.length - 1 < oldT.length := by omega
    have hlast' : oldT[oldT.length - 1] = last := by
      rw [List.getLast?_eq_getElem?, List.getElem?_eq_getElem hn] at hlast; exact Option.some.inj hlast
    have hfirst' : oldT[0] = first := by
      rw [List.head?_eq_getElem?, List.getElem?_eq_getElem (by omega)] at hfirst; exact Option.some.inj hfirst
    have hrest : rest.Pairwise (· < ·) := (List.pairwise_cons.mp hts).2
    have htr : ∀ t' ∈ rest, t < t' := (List.pairwise_cons.mp hts).1
    have hit : oldT[i] ≤ t := hge t (by simp)
    have h0i : first ≤ oldT[i] := hfirst' ▸ le_of_pairwise hp (by omega) hi (by omega)
    have hmax := mem_le_last hp hlast
    have hseprest : ∀ t ∈ rest, ∀ p ∈ oldT, p = t ∨ p - t > tol ∨ t - p > tol :=
      fun t' ht' => hsep t' (by simp [ht'])
    unfold fillLoopW
    have c1 : ¬ (first - t > tol) := by grind
    rw [if_neg c1]
    by_cases c2 : t - last > tol
    · -- beyond the channel's end
      rw [if_pos c2]
      have hrec := ih i hrest hi (fun t' ht' => hge t' (by simp [ht']))
        (fun j hj hij => by
          have := hin j hj hij
          rcases List.mem_cons.mp this with h | h
          · exfalso; have := hmax _ (List.getElem_mem hj); grind
          · exact h)
        (fun h t' ht' => hstrict h t' (by simp [ht'])) hseprest
      rw [hrec]
      have hne : ¬ (oldT.getLast? = some t) := by
        rw [hlast]; intro h; cases h; grind
      have hz : stepAt oldT C t = 0 := stepAt_ge_all _ _ _ (fun p hp' => by have := hmax p hp'; grind)
      simp [codeAt, hne, hz]
    · rw [if_neg c2]
      have htl : t ≤ last := by
        have := hsep t (by simp) last (hlast' ▸ List.getElem_mem hn)
        grind
      have hi1 : i + 1 < oldT.length := by
        rcases Nat.lt_or_ge (i + 1) oldT.length with h | h
        · exact h
        · exfalso
          have := hstrict (by omega) t (by simp)
          grind
      -- the advance step: both shapes move by at most one slot here
      have hadv : nextInd w tol oldT t i = some (if oldT[i + 1] ≤ t + tol then i + 1 else i) := by
        unfold nextInd
        cases w with
        | false => simp [List.getElem?_eq_getElem hi1]
        | true =>
          simp only [if_true]
          congr 1
          apply catchUp_one tol oldT t i oldT.length hi1 (by omega)
          intro h2
          have h1t : t ≤ oldT[i + 1] := by
            rcases List.mem_cons.mp (hin (i + 1) hi1 (by omega)) with h | h
            · rw [h]; exact Rat.le_refl
            · exact Rat.le_of_lt (htr _ h)
          have h12 := lt_of_pairwise hp hi1 h2 (by omega)
          have := hsep t (by simp) oldT[i + 2] (List.getElem_mem h2)
          grind
      rw [hadv]
      simp only
      by_cases c3 : oldT[i + 1] ≤ t + tol
      · -- the running index advances: t is the next grid point of the channel
        rw [if_pos c3]
        have hle : oldT[i + 1] ≤ t := by
          have := hsep t (by simp) oldT[i + 1] (List.getElem_mem hi1)
          grind
        have heq : oldT[i + 1] = t := by
          rcases List.mem_cons.mp (hin (i + 1) hi1 (by omega)) with h | h
          · exact h
          · have := htr _ h; grind
        have hc : i + 1 < C.length := by omega
        rw [List.getElem?_eq_getElem hc]
        simp only
        have hrec := ih (i + 1) hrest hi1 (fun t' ht' => by have := htr t' ht'; grind)
          (fun j hj hij => by
            rcases List.mem_cons.mp (hin j hj (by omega)) with h | h
            · exfalso; have := lt_of_pairwise hp hi1 hj hij; grind
            · exact h)
          (fun h t' ht' => by
            have : oldT[i + 1] = last := by rw [← hlast']; congr 1; omega
            have := htr t' ht'; grind)
          hseprest
        rw [hrec]
        have hcode : codeAt oldT C t = C[i + 1] := by
          unfold codeAt
          by_cases hl : oldT.getLast? = some t
          · rw [if_pos hl]
            have : t = last := by rw [hlast] at hl; exact (Option.some.inj hl).symm
            have hidx : i + 1 = oldT.length - 1 := by
              rcases Nat.lt_or_ge (i + 1) (oldT.length - 1) with h | h
              · exfalso; have := lt_of_pairwise hp hi1 hn h; grind
              · omega
            rw [List.getLast?_eq_getElem?, List.getElem?_eq_getElem (by omega)]
            simp only [Option.getD_some]
            congr 1; omega
          · rw [if_neg hl]
            have hi2 : i + 2 < oldT.length := by
              rcases Nat.lt_or_ge (i + 2) oldT.length with h | h
              · exact h
              · exfalso; apply hl; rw [hlast, ← heq, ← hlast']; congr 2; omega
            exact stepAt_slot oldT C t hp (i + 1) hi2 hc (by grind)
              (by have := lt_of_pairwise hp hi1 hi2 (by omega); grind)
        simp [hcode]
      · -- same slot
        rw [if_neg c3]
        have hc : i < C.length := by omega
        rw [List.getElem?_eq_getElem hc]
        simp only
        have hlt : t < oldT[i + 1] := by grind
        have hrec := ih i hrest hi (fun t' ht' => hge t' (by simp [ht']))
          (fun j hj hij => by
            rcases List.mem_cons.mp (hin j hj hij) with h | h
            · exfalso; have := le_of_pairwise hp hi1 hj (by omega); grind
            · exact h)
          (fun h => by omega) hseprest
        rw [hrec]
        have hcode : codeAt oldT C t = C[i] := by
          unfold codeAt
          have hl : ¬ (oldT.getLast? = some t) := by
            rw [hlast]; intro h; cases h
            have := hmax _ (List.getElem_mem hi1); grind
          rw [if_neg hl]
          exact stepAt_slot oldT C t hp i hi1 hc hit hlt
        simp [hcode]

/-- `Grid.fill_eq_code` for both shapes of the advance step -/
theorem fillW_eq_code (w : Bool) (tol : Rat) (oldT oldC T : List Rat) (htol : 0 ≤ tol)
    (hp : oldT.Pairwise (· < ·)) (hlen : 2 ≤ oldT.length)
    (hC : oldC.length + 1 = oldT.length ∨ oldC.length = oldT.length)
    (hT : T.Pairwise (· < ·)) (hsub : ∀ p ∈ oldT, p ∈ T)
    (hge : ∀ t ∈ T, ∀ first, oldT.head? = some first → first ≤ t)
    (hsep : ∀ t ∈ T, ∀ p ∈ oldT, p = t ∨ p - t > tol ∨ t - p > tol) :
    fillW w tol oldT oldC T = .ok (T.map (codeAt oldT (padCoeff oldT oldC))) := by
  unfold fillW
  cases hTT : T with
  | nil => simp
  | cons t0 ts =>
    simp only
    rw [← hTT]
    have hn : oldT.length - 1 < oldT.length := by omega
    have hh : oldT.head? = some oldT[0] := by rw [List.head?_eq_getElem?, List.getElem?_eq_getElem (by omega)]
    have hl : oldT.getLast? = some oldT[oldT.length - 1] := by
      rw [List.getLast?_eq_getElem?, List.getElem?_eq_getElem hn]
    rw [hh, hl]
    simp only
    have hlenC : (padCoeff oldT oldC).length = oldT.length := by
      unfold padCoeff
      rcases hC with h | h
      · rw [if_pos (by omega)]; simp; omega
      · rw [if_neg (by omega)]; exact h
    exact fillLoopW_eq w tol oldT _ _ _ htol hp hlenC hh hl T 0 hT (by omega)
      (fun t ht => hge t ht _ hh) (fun j hj _ => hsub _ (List.getElem_mem hj)) (fun h => by omega) hsep

/-- **the two shapes of the advance step agree** under the hypotheses of the resampling theorems -/
theorem fillW_eq_fill (w : Bool) (tol : Rat) (oldT oldC T : List Rat) (htol : 0 ≤ tol)
    (hp : oldT.Pairwise (· < ·)) (hlen : 2 ≤ oldT.length)
    (hC : oldC.length + 1 = oldT.length ∨ oldC.length = oldT.length)
    (hT : T.Pairwise (· < ·)) (hsub : ∀ p ∈ oldT, p ∈ T)
    (hge : ∀ t ∈ T, ∀ first, oldT.head? = some first → first ≤ t)
    (hsep : ∀ t ∈ T, ∀ p ∈ oldT, p = t ∨ p - t > tol ∨ t - p > tol) :
    fillW w tol oldT oldC T = fill tol oldT oldC T := by
  rw [fillW_eq_code w tol oldT oldC T htol hp hlen hC hT hsub hge hsep,
    fill_eq_code tol oldT oldC T htol hp hlen hC hT hsub hge hsep]

theorem mapMExcept_congr {α β ε : Type} (f g : α → Except ε β) (l : List α) (h : ∀ a ∈ l, f a = g a) :
    mapMExcept f l = mapMExcept g l := by
  induction l with
  | nil => rfl
  | cons a as ih =>
    unfold mapMExcept
    rw [h a (by simp), ih (fun b hb => h b (by simp [hb]))]

/-- the same with the hypotheses of the property theorems: channel grids strictly increasing from 0 with at least one slot,
distinct points of the channels more than `tol` apart, `T` the merged grid -/
theorem fillW_eq_fill_grids (w : Bool) (tol : Rat) (grids : List (List Rat)) (T tl cs : List Rat) (htol : 0 ≤ tol)
    (hgr : ∀ g ∈ grids, g.Pairwise (· < ·) ∧ g.head? = some 0 ∧ 2 ≤ g.length) (hsep : SepAll tol grids) (hmem : tl ∈ grids)
    (hT : fullTlist tol grids = some T)
    (hlen : cs.length + 1 = tl.length ∨ cs.length = tl.length) :
    fillW w tol tl cs T = fill tol tl cs T := by
  have hne : grids ≠ [] := by intro h; simp [h] at hmem
  have hTeq : T = sortU grids.flatten := by
    have := fullTlist_eq_sortU hne hsep; rw [hT] at this; exact Option.some.inj this
  have hTp : T.Pairwise (· < ·) := fullTlist_pairwise hT
  obtain ⟨hp, hh, hl⟩ := hgr tl hmem
  have hmemT : ∀ t ∈ T, ∃ g ∈ grids, t ∈ g := fullTlist_subset hT
  have hnonneg : ∀ t ∈ T, (0 : Rat) ≤ t := by
    intro t ht
    obtain ⟨g, hg, htg⟩ := hmemT t ht
    obtain ⟨hgp, hgh, hgl⟩ := hgr g hg
    match g, hgh with
    | a :: rest, hgh =>
      simp at hgh; subst hgh
      rcases List.mem_cons.mp htg with rfl | h
      · exact Rat.le_refl
      · exact Rat.le_of_lt ((List.pairwise_cons.mp hgp).1 t h)
  apply fillW_eq_fill w tol tl cs T htol hp hl hlen hTp
  · intro p hpm; rw [hTeq, mem_sortU, List.mem_flatten]; exact ⟨tl, hmem, hpm⟩
  · intro t ht first hf; rw [hh] at hf; cases hf; exact hnonneg t ht
  · intro t ht p hpm
    obtain ⟨g, hg, htg⟩ := hmemT t ht
    have htri : p < t ∨ p = t ∨ t < p := by grind
    rcases htri with h | h | h
    · right; right; exact hsep tl hmem p hpm g hg t htg h
    · left; exact h
    · right; left; exact hsep g hg t htg tl hmem p hpm h

theorem fullCoeffsW_false (tol : Rat) (chans : List Chan) : fullCoeffsW false tol chans = fullCoeffs tol chans := by
  unfold fullCoeffsW fullCoeffs
  by_cases hv : (!valid chans) = true
  · rw [if_pos hv, if_pos hv]
  · rw [if_neg hv, if_neg hv]
    cases procTlist tol chans with
    | none => rfl
    | some T =>
      simp only
      congr 1
      apply mapMExcept_congr
      intro a _
      cases a <;> simp only [fillW_false]

/-- **get_full_coeffs with either shape of the advance step** returns the same rows under the hypotheses of the
resampling theorems -/
theorem fullCoeffsW_eq (w : Bool) (tol : Rat) (chans : List (List Rat × List Rat)) (htol : 0 ≤ tol) (hne : chans ≠ [])
    (hgr : ∀ c ∈ chans, c.1.Pairwise (· < ·) ∧ c.1.head? = some 0 ∧ 2 ≤ c.1.length)
    (hlen : ∀ c ∈ chans, c.2.length + 1 = c.1.length ∨ c.2.length = c.1.length)
    (hsep : SepAll tol (chans.map (·.1))) :
    fullCoeffsW w tol (chans.map fun c => Chan.arr c.1 c.2) = fullCoeffs tol (chans.map fun c => Chan.arr c.1 c.2) := by
  have hgrids : ∀ l : List (List Rat × List Rat),
      (l.map fun c => Chan.arr c.1 c.2).filterMap Chan.grid? = l.map (·.1) := by
    intro l; induction l <;> simp_all [Chan.grid?]
  have hne' : chans.map (·.1) ≠ [] := by simpa using hne
  have hT := fullTlist_eq_sortU hne' hsep
  unfold fullCoeffsW fullCoeffs
  by_cases hv : (!valid (chans.map fun c => Chan.arr c.1 c.2)) = true
  · rw [if_pos hv, if_pos hv]
  · rw [if_neg hv, if_neg hv]
    simp only [procTlist, hgrids chans, hT]
    congr 1
    apply mapMExcept_congr
    intro a ha
    obtain ⟨c, hc, rfl⟩ := List.mem_map.mp ha
    simp only
    exact fillW_eq_fill_grids w tol (chans.map (·.1)) _ c.1 c.2 htol
      (fun g hg => by obtain ⟨c', hc', rfl⟩ := List.mem_map.mp hg; exact hgr c' hc')
      hsep (List.mem_map.mpr ⟨c, hc, rfl⟩) hT (hlen c hc)

theorem normCoeff_len (zl : Bool) (tl cs : List Rat) (hlen : cs.length + 1 = tl.length ∨ cs.length = tl.length)
    (h2l : 2 ≤ tl.length) :
    (normCoeff zl tl cs).length + 1 = tl.length ∨ (normCoeff zl tl cs).length = tl.length := by
  unfold normCoeff
  split
  · rename_i h
    simp only [Bool.and_eq_true, beq_iff_eq] at h
    have h2 := h.2
    right
    simp only [List.length_append, List.length_dropLast, List.length_cons, List.length_nil]
    omega
  · exact hlen

/-- the same for both padding variants -/
theorem fullCoeffsVW_eq (zl w : Bool) (tol : Rat) (chans : List (List Rat × List Rat)) (htol : 0 ≤ tol) (hne : chans ≠ [])
    (hgr : ∀ c ∈ chans, c.1.Pairwise (· < ·) ∧ c.1.head? = some 0 ∧ 2 ≤ c.1.length)
    (hlen : ∀ c ∈ chans, c.2.length + 1 = c.1.length ∨ c.2.length = c.1.length)
    (hsep : SepAll tol (chans.map (·.1))) :
    fullCoeffsVW zl w tol (chans.map fun c => Chan.arr c.1 c.2) = fullCoeffsV zl tol (chans.map fun c => Chan.arr c.1 c.2) := by
  unfold fullCoeffsVW fullCoeffsV
  have hmap : (chans.map fun c => Chan.arr c.1 c.2).map (Chan.norm zl) =
      (chans.map fun c => (c.1, normCoeff zl c.1 c.2)).map fun c => Chan.arr c.1 c.2 := by
    simp [List.map_map, Function.comp_def, Chan.norm]
  rw [hmap]
  have h1 : (chans.map fun c => (c.1, normCoeff zl c.1 c.2)).map (·.1) = chans.map (·.1) := by
    simp [List.map_map, Function.comp_def]
  exact fullCoeffsW_eq w tol _ htol (by simpa using hne)
    (by intro c hc; obtain ⟨c', hc', rfl⟩ := List.mem_map.mp hc; exact hgr c' hc')
    (by intro c hc; obtain ⟨c', hc', rfl⟩ := List.mem_map.mp hc; exact normCoeff_len zl c'.1 c'.2 (hlen c' hc') (hgr c' hc').2.2)
    (by rw [h1]; exact hsep)

/-! ### the repaired loop without any separation hypothesis

With the `while` loop the running index at the merged point `t` is the LAST slot that has begun by `t + tol`, whatever the
distances between the points are; the value returned is therefore the channel's step function at a time within `tol` of `t`. -/

/-- the two lists have the same length and are related position by position -/
def All2 (P : Rat → Rat → Prop) : List Rat → List Rat → Prop
  | [], [] => True
  | t :: ts, r :: rs => P t r ∧ All2 P ts rs
  | _, _ => False

theorem All2.imp {P Q : Rat → Rat → Prop} (h : ∀ a b, P a b → Q a b) : ∀ {l r : List Rat}, All2 P l r → All2 Q l r
  | [], [], _ => trivial
  | _ :: _, _ :: _, ⟨h1, h2⟩ => ⟨h _ _ h1, All2.imp h h2⟩
  | [], _ :: _, h' => h'.elim
  | _ :: _, [], h' => h'.elim

theorem All2.get {P : Rat → Rat → Prop} : ∀ {l r : List Rat}, All2 P l r →
    l.length = r.length ∧ ∀ k (h1 : k < l.length) (h2 : k < r.length), P l[k] r[k]
  | [], [], _ => ⟨rfl, fun k h1 _ => by simp at h1⟩
  | t :: ts, r :: rs, ⟨h1, h2⟩ => by
    obtain ⟨hl, hk⟩ := All2.get h2
    refine ⟨by simp [hl], fun k h1' h2' => ?_⟩
    cases k with
    | zero => exact h1
    | succ k => simpa using hk k (by simpa using h1') (by simpa using h2')
  | [], _ :: _, h' => h'.elim
  | _ :: _, [], h' => h'.elim

theorem catchUp_spec (tol : Rat) (oldT : List Rat) (t : Rat) (fuel i : Nat) (hi : i < oldT.length)
    (hf : oldT.length ≤ fuel + i + 1) :
    ∃ J, catchUp tol oldT t fuel i = J ∧ i ≤ J ∧ ∃ hJ : J < oldT.length,
      (J = i ∨ oldT[J] ≤ t + tol) ∧ (∀ h : J + 1 < oldT.length, t + tol < oldT[J + 1]) := by
  induction fuel generalizing i with
  | zero =>
    exact ⟨i, by unfold catchUp; rfl, Nat.le_refl _, hi, Or.inl rfl, fun h => by omega⟩
  | succ f ih =>
    by_cases h1 : i + 1 < oldT.length
    · by_cases c : oldT[i + 1] ≤ t + tol
      · obtain ⟨J, e, a, hJ, c', d⟩ := ih (i + 1) h1 (by omega)
        refine ⟨J, ?_, by omega, hJ, Or.inr ?_, d⟩
        · unfold catchUp; rw [List.getElem?_eq_getElem h1]; simp only; rw [if_pos c]; exact e
        · rcases c' with e' | e'
          · subst e'; exact c
          · exact e'
      · refine ⟨i, ?_, Nat.le_refl _, hi, Or.inl rfl, fun h => by grind⟩
        unfold catchUp; rw [List.getElem?_eq_getElem h1]; simp only; rw [if_neg c]
    · refine ⟨i, ?_, Nat.le_refl _, hi, Or.inl rfl, fun h => by omega⟩
      unfold catchUp; rw [List.getElem?_eq_none (by omega)]

/-- value of the repaired loop at every merged point: the step function of the (padded, zero-terminated) coefficient
array at a time within `tol` -/
theorem fillLoopW_true_near (tol : Rat) (oldT C : List Rat) (first last : Rat) (htol : 0 ≤ tol)
    (hp : oldT.Pairwise (· < ·)) (hlenC : C.length = oldT.length)
    (hfirst : oldT.head? = some first) (hlast : oldT.getLast? = some last) (hz : C.getLast? = some 0)
    (ts : List Rat) (i : Nat) (hts : ts.Pairwise (· < ·)) (hi : i < oldT.length)
    (hinv : ∀ t ∈ ts, first - t ≤ tol → oldT[i] ≤ t + tol) :
    ∃ rs, fillLoopW true tol oldT C first last i ts = .ok rs ∧
      All2 (fun t r => ∃ s, t - tol ≤ s ∧ s ≤ t + tol ∧ r = stepAt oldT C s) ts rs := by
  induction ts generalizing i with
  | nil => exact ⟨[], by simp [fillLoopW], trivial⟩
  | cons t rest ih =>
    have hn : oldT.length - 1 < oldT.length := by omega
    have hlast' : oldT[oldT.length - 1] = last := by
      rw [List.getLast?_eq_getElem?, List.getElem?_eq_getElem hn] at hlast; exact Option.some.inj hlast
    have hfirst' : oldT[0] = first := by
      rw [List.head?_eq_getElem?, List.getElem?_eq_getElem (by omega)] at hfirst; exact Option.some.inj hfirst
    have hrest : rest.Pairwise (· < ·) := (List.pairwise_cons.mp hts).2
    have htr : ∀ t' ∈ rest, t < t' := (List.pairwise_cons.mp hts).1
    have hmax := mem_le_last hp hlast
    have hmin : ∀ p ∈ oldT, first ≤ p := by
      intro p hpm
      obtain ⟨j, hj, rfl⟩ := List.getElem_of_mem hpm
      exact hfirst' ▸ le_of_pairwise hp (by omega) hj (by omega)
    unfold fillLoopW
    by_cases c1 : first - t > tol
    · rw [if_pos c1]
      obtain ⟨rs, hrs, hall⟩ := ih i hrest hi (fun t' ht' h => hinv t' (by simp [ht']) h)
      refine ⟨0 :: rs, by rw [hrs], ⟨⟨t, by grind, by grind, ?_⟩, hall⟩⟩
      exact (stepAt_lt_head oldT C t (fun p hpm => by have := hmin p hpm; grind)).symm
    · rw [if_neg c1]
      by_cases c2 : t - last > tol
      · rw [if_pos c2]
        obtain ⟨rs, hrs, hall⟩ := ih i hrest hi (fun t' ht' h => hinv t' (by simp [ht']) h)
        refine ⟨0 :: rs, by rw [hrs], ⟨⟨t, by grind, by grind, ?_⟩, hall⟩⟩
        exact (stepAt_ge_all oldT C t (fun p hpm => by have := hmax p hpm; grind)).symm
      · rw [if_neg c2]
        have hit : oldT[i] ≤ t + tol := hinv t (by simp) (by grind)
        obtain ⟨J, hJe, hJ1, hJ2, hJ3, hJ4⟩ := catchUp_spec tol oldT t oldT.length i hi (by omega)
        simp only [nextInd, if_true, hJe]
        have hJle : oldT[J] ≤ t + tol := by
          rcases hJ3 with e | e
          · subst e; exact hit
          · exact e
        have hcJ : J < C.length := by omega
        rw [List.getElem?_eq_getElem hcJ]
        simp only
        obtain ⟨rs, hrs, hall⟩ := ih J hrest hJ2 (fun t' ht' _ => by have := htr t' ht'; grind)
        refine ⟨C[J] :: rs, by rw [hrs], ⟨?_, hall⟩⟩
        by_cases hJl : J + 1 < oldT.length
        · -- a slot of the channel: [oldT[J], oldT[J+1])
          have hnx := hJ4 hJl
          by_cases hle : oldT[J] ≤ t
          · exact ⟨t, by grind, by grind, (stepAt_slot oldT C t hp J hJl hcJ hle (by grind)).symm⟩
          · exact ⟨oldT[J], by grind, hJle,
              (stepAt_slot oldT C oldT[J] hp J hJl hcJ Rat.le_refl (lt_of_pairwise hp hJ2 hJl (by omega))).symm⟩
        · -- the channel's last point: the padded coefficient is 0, and so is the step function from there on
          have hJe : J = oldT.length - 1 := by omega
          have hC0 : C[J] = 0 := by
            rw [List.getLast?_eq_getElem?, List.getElem?_eq_getElem (by omega)] at hz
            have := Option.some.inj hz
            rw [← this]; congr 1; omega
          have hlJ : oldT[J] = last := by rw [← hlast']; congr 1
          by_cases hle : last ≤ t
          · exact ⟨t, by grind, by grind, by
              rw [hC0]; exact (stepAt_ge_all oldT C t (fun p hpm => by have := hmax p hpm; grind)).symm⟩
          · exact ⟨last, by grind, by rw [← hlJ]; exact hJle, by
              rw [hC0]; exact (stepAt_ge_all oldT C last (fun p hpm => hmax p hpm)).symm⟩

/-- **the repaired `_fill_coeff` without any hypothesis on the distances**: for a strictly increasing channel grid (at
least one slot), a zero-terminated coefficient array (`LastZero`) and ANY strictly increasing `T`, the value at every point
`t` of `T` is the channel's step function at some time within `tol` of `t`. -/
theorem fillW_true_near (tol : Rat) (oldT oldC T : List Rat) (htol : 0 ≤ tol)
    (hp : oldT.Pairwise (· < ·)) (hlen : 2 ≤ oldT.length) (hz : LastZero oldT oldC) (hT : T.Pairwise (· < ·)) :
    ∃ rs, fillW true tol oldT oldC T = .ok rs ∧
      All2 (fun t r => ∃ s, t - tol ≤ s ∧ s ≤ t + tol ∧ r = stepAt oldT oldC s) T rs := by
  unfold fillW
  cases hTT : T with
  | nil => exact ⟨[], rfl, trivial⟩
  | cons t0 ts =>
    simp only
    rw [← hTT]
    have hn : oldT.length - 1 < oldT.length := by omega
    have hh : oldT.head? = some oldT[0] := by rw [List.head?_eq_getElem?, List.getElem?_eq_getElem (by omega)]
    have hl : oldT.getLast? = some oldT[oldT.length - 1] := by
      rw [List.getLast?_eq_getElem?, List.getElem?_eq_getElem hn]
    rw [hh, hl]
    simp only
    have hpad : (padCoeff oldT oldC).length = oldT.length ∧ (padCoeff oldT oldC).getLast? = some 0 ∧
        ∀ s, stepAt oldT (padCoeff oldT oldC) s = stepAt oldT oldC s := by
      unfold padCoeff
      rcases hz with h | ⟨h, h0⟩
      · rw [if_pos (by omega)]
        exact ⟨by simp; omega, by simp, fun s => stepAt_append oldT oldC [0] s (by omega)⟩
      · rw [if_neg (by omega)]
        exact ⟨h, h0, fun _ => rfl⟩
    obtain ⟨rs, hrs, hall⟩ := fillLoopW_true_near tol oldT _ _ _ htol hp hpad.1 hh hl hpad.2.1 T 0 hT (by omega)
      (fun t _ h => by grind)
    refine ⟨rs, hrs, ?_⟩
    refine All2.imp ?_ hall
    rintro t r ⟨s, h1, h2, h3⟩
    exact ⟨s, h1, h2, by rw [h3, hpad.2.2 s]⟩

end QipVerif.Grid
