import QipVerif.Lemmas.CqedReal
/-!
# C18: what the compiler models produce for the native gates (over ℝ)

Unfolding lemmas for `Model/Cqed.lean`: the instruction(s) compiled for RX / RZ / ISWAP / SQRTISWAP by the cavity
compiler and for RX / RY / RZX / CNOT by the superconducting compiler, with the hardware parameter of the addressed
qubit visible in the statement.
-/
namespace QipVerif.DevModel
open QipVerif.Dev QipVerif.Gen QipVerif.DevReal

/-! ## cavity QED -/

theorem cq_lookup_RX : CQ.gateCompiler.lookup "RX" = some (.rotation "sx" "sx") := by decide
theorem cq_lookup_RZ : CQ.gateCompiler.lookup "RZ" = some (.rotation "sz" "sz") := by decide
theorem cq_lookup_ISWAP : CQ.gateCompiler.lookup "ISWAP" = some (.exchange 0) := by decide
theorem cq_lookup_SQRTISWAP : CQ.gateCompiler.lookup "SQRTISWAP" = some (.exchange 1) := by decide
theorem cq_lookup_GLOBALPHASE : CQ.gateCompiler.lookup "GLOBALPHASE" = some .phase := by decide

theorem cq_get_sx (P : CQ.HW ℝ) : P.get? "sx" = some P.deltamax := by
  unfold CQ.HW.get?
  have : (CQ.paramAlias.lookup "sx").getD "sx" = "deltamax" := by decide
  simp [this]
theorem cq_get_sz (P : CQ.HW ℝ) : P.get? "sz" = some P.epsmax := by
  unfold CQ.HW.get?
  have : (CQ.paramAlias.lookup "sz").getD "sz" = "epsmax" := by decide
  simp [this]

/-- the instruction `_rotation_compiler` builds for a gate on qubit `t` with the strength `Ω` -/
noncomputable def cqRotInstr (g : GateRec ℝ) (op : String) (t : Nat) (Ω : ℝ) : Instr ℝ :=
  ⟨g, true, [CQ.pulseDur CQ.rectT0 Ω (CQ.rotArea Real.pi g.arg)],
    [⟨op ++ toString t, [CQ.pulseCoeff CQ.rectC0 Ω (CQ.rotArea Real.pi g.arg)]⟩]⟩

theorem cq_rotation_eq (P : CQ.HW ℝ) (g : GateRec ℝ) (op par : String) (t : Nat) (rest : List Nat) (l : List ℝ) (Ω : ℝ)
    (ht : g.targets = t :: rest) (hp : P.get? par = some l) (hΩ : l[t]? = some Ω) :
    CQ.rotation Real.pi P g op par = .ok (cqRotInstr g op t Ω) := by
  unfold CQ.rotation
  simp [ht, hp, hΩ, cqRotInstr]

/-- **RX on qubit `t`** is compiled to one rectangular pulse on `sx<t>` with the strength `deltamax[t]` -/
theorem cq_compile_RX (P : CQ.HW ℝ) (t : Nat) (θ Ω : ℝ) (hΩ : P.deltamax[t]? = some Ω) :
    CQ.compileGate Real.pi P ⟨"RX", [t], [], θ⟩ = .ok ([cqRotInstr ⟨"RX", [t], [], θ⟩ "sx" t Ω], none) := by
  unfold CQ.compileGate
  simp only [cq_lookup_RX]
  rw [cq_rotation_eq P _ "sx" "sx" t [] P.deltamax Ω rfl (cq_get_sx P) hΩ]

/-- **RZ on qubit `t`**: one rectangular pulse on `sz<t>` with the strength `epsmax[t]` -/
theorem cq_compile_RZ (P : CQ.HW ℝ) (t : Nat) (θ Ω : ℝ) (hΩ : P.epsmax[t]? = some Ω) :
    CQ.compileGate Real.pi P ⟨"RZ", [t], [], θ⟩ = .ok ([cqRotInstr ⟨"RZ", [t], [], θ⟩ "sz" t Ω], none) := by
  unfold CQ.compileGate
  simp only [cq_lookup_RZ]
  rw [cq_rotation_eq P _ "sz" "sz" t [] P.epsmax Ω rfl (cq_get_sz P) hΩ]

/-- the exchange instruction: the four held channels and the duration -/
theorem cq_exchInstr_eq (P : CQ.HW ℝ) (g : GateRec ℝ) (k q1 q2 : Nat) (pr : CQ.Pair ℝ) :
    CQ.exchInstr P g k q1 q2 pr =
      ⟨g, true, [CQ.pulseDur CQ.rectT0 (CQ.swapJ pr.g1 pr.g2 pr.D1 pr.D2) (CQ.swapArea (CQ.swapJ pr.g1 pr.g2 pr.D1 pr.D2) (CQ.exchArea k))],
        [⟨"sz" ++ toString q1, [pr.wq1 - P.w0]⟩, ⟨"sz" ++ toString q2, [pr.wq2 - P.w0]⟩,
         ⟨"g" ++ toString q1, [pr.g1]⟩, ⟨"g" ++ toString q2, [pr.g2]⟩]⟩ := by
  unfold CQ.exchInstr
  simp [CQ.swapHeld, CQ.refOf, CQ.swapHeldCoef, List.range, List.range.loop]

/-- the pair data are read at the two targets, in their order: `D = sqrt(eps² + delta²) − w0`, `g` -/
theorem cq_pair_eq (P : CQ.HW ℝ) (q1 q2 : Nat) (e1 d1 g1 e2 d2 g2 : ℝ)
    (h1 : P.eps[q1]? = some e1) (h2 : P.delta[q1]? = some d1) (h3 : P.g[q1]? = some g1)
    (h4 : P.eps[q2]? = some e2) (h5 : P.delta[q2]? = some d2) (h6 : P.g[q2]? = some g2) :
    CQ.pair? P q1 q2 = some ⟨Real.sqrt (e1 * e1 + d1 * d1), Real.sqrt (e2 * e2 + d2 * d2), g1, g2,
      Real.sqrt (e1 * e1 + d1 * d1) - P.w0, Real.sqrt (e2 * e2 + d2 * d2) - P.w0⟩ := by
  unfold CQ.pair?
  simp [h1, h2, h3, h4, h5, h6, cq_compWq_eq, cq_compDelta_eq]

/-- **ISWAP / SQRTISWAP on `(q1, q2)`**: the exchange instruction, then `RZ(κ)` on `q1`, `RZ(κ)` on `q2`, and `κ` added
to the global phase (`κ = exchCorr k`) -/
theorem cq_compile_exchange (P : CQ.HW ℝ) (name : String) (k q1 q2 : Nat) (pr : CQ.Pair ℝ) (Ω1 Ω2 : ℝ)
    (hl : CQ.gateCompiler.lookup name = some (.exchange k)) (hp : CQ.pair? P q1 q2 = some pr)
    (h1 : P.epsmax[q1]? = some Ω1) (h2 : P.epsmax[q2]? = some Ω2) (g : GateRec ℝ) (hn : g.name = name)
    (ht : g.targets = [q1, q2]) :
    CQ.compileGate Real.pi P g = .ok ([CQ.exchInstr P g k q1 q2 pr,
        cqRotInstr ⟨"RZ", [q1], [], CQ.exchCorr Real.pi k⟩ "sz" q1 Ω1,
        cqRotInstr ⟨"RZ", [q2], [], CQ.exchCorr Real.pi k⟩ "sz" q2 Ω2], some (CQ.exchCorr Real.pi k)) := by
  unfold CQ.compileGate
  rw [hn]
  simp only [hl, ht, hp]
  have hc : CQ.corrections Real.pi P k q1 q2 CQ.swapCorrections = .ok
      [cqRotInstr ⟨"RZ", [q1], [], CQ.exchCorr Real.pi k⟩ "sz" q1 Ω1, cqRotInstr ⟨"RZ", [q2], [], CQ.exchCorr Real.pi k⟩ "sz" q2 Ω2] := by
    unfold CQ.swapCorrections
    simp only [CQ.corrections, cq_lookup_RZ, CQ.refOf]
    rw [cq_rotation_eq P _ "sz" "sz" q1 [] P.epsmax Ω1 rfl (cq_get_sz P) h1,
      cq_rotation_eq P _ "sz" "sz" q2 [] P.epsmax Ω2 rfl (cq_get_sz P) h2]
  rw [hc]

/-! ## global-phase bookkeeping -/

/-- what one gate adds to `compiler.global_phase`: its angle for GLOBALPHASE, the correction angle for the exchange
gates, nothing otherwise -/
noncomputable def cqPhaseOf (g : GateRec ℝ) : ℝ :=
  match CQ.gateCompiler.lookup g.name with
  | some .phase => g.arg
  | some (.exchange k) => CQ.exchCorr Real.pi k
  | _ => 0

theorem cq_compileGate_phase (P : CQ.HW ℝ) (g : GateRec ℝ) (is : List (Instr ℝ)) (dph : Option ℝ)
    (h : CQ.compileGate Real.pi P g = .ok (is, dph)) : dph.getD 0 = cqPhaseOf g := by
  unfold CQ.compileGate at h
  unfold cqPhaseOf
  split at h
  · cases h
  · rename_i op par hl
    rw [hl]
    split at h
    · cases h
    · cases h; rfl
  · rename_i k hl
    rw [hl]
    split at h
    · split at h
      · cases h
      · split at h
        · cases h
        · cases h; rfl
    · cases h
  · rename_i hl; rw [hl]; cases h; rfl
  · rename_i hl; rw [hl]; cases h; rfl
  · rename_i hl; rw [hl]; cases h; rfl

theorem compileLoop_phase (drop : Bool) (step : GateRec ℝ → Except Err (Step ℝ)) (phaseOf : GateRec ℝ → ℝ)
    (hstep : ∀ g is dph, step g = .ok (is, dph) → dph.getD 0 = phaseOf g) :
    ∀ (gs : List (GateRec ℝ)) (ph : ℝ) (is : List (Instr ℝ)) (ph' : ℝ),
      compileLoop drop step gs ph = .ok (is, ph') → ph' = ph + (gs.map phaseOf).sum := by
  intro gs
  induction gs with
  | nil => intro ph is ph' h; simp [compileLoop] at h; simp [h.2]
  | cons g gs ih =>
    intro ph is ph' h
    unfold compileLoop at h
    cases hs : step g with
    | error e => rw [hs] at h; cases h
    | ok r =>
      obtain ⟨is0, dph⟩ := r
      have hd := hstep g is0 dph hs
      rw [hs] at h
      simp only at h
      cases dph with
      | none =>
        simp only at h
        cases hr : compileLoop drop step gs ph with
        | error e => rw [hr] at h; cases h
        | ok r2 =>
          obtain ⟨rest, ph2⟩ := r2
          rw [hr] at h
          have := ih _ _ _ hr
          simp only [Except.ok.injEq, Prod.mk.injEq] at h
          rw [← h.2, this, List.map_cons, List.sum_cons, ← hd]; simp
      | some d =>
        simp only at h
        cases hr : compileLoop drop step gs (DArith.add ph d) with
        | error e => rw [hr] at h; cases h
        | ok r2 =>
          obtain ⟨rest, ph2⟩ := r2
          rw [hr] at h
          have := ih _ _ _ hr
          simp only [Except.ok.injEq, Prod.mk.injEq] at h
          rw [← h.2, this, List.map_cons, List.sum_cons, ← hd]; simp [add_assoc]

/-- **the reported global phase** of a compiled gate list is the sum of the GLOBALPHASE angles and of the correction
angles of the exchange gates, whatever the compiler carried before (`compile` resets it) -/
theorem cq_compile_phase (P : CQ.HW ℝ) (ph0 : ℝ) (gs : List (GateRec ℝ)) (is : List (Instr ℝ)) (ph : ℝ)
    (h : CQ.compile Real.pi P ph0 gs = .ok (is, ph)) (hr : CQ.compileResetsPhase = true) :
    ph = (gs.map cqPhaseOf).sum := by
  unfold CQ.compile at h
  rw [hr] at h
  have := compileLoop_phase _ _ cqPhaseOf (cq_compileGate_phase P) gs _ is ph h
  rw [this]; simp

end QipVerif.DevModel
