import QipVerif.Model.SpinChain
import Mathlib.Tactic.Ring
/-!
# C06: the coupling label chosen by `_swap_compiler`

For every chain length `N ≥ 2`, both topologies and every two distinct qubits `a, b < N`: the label
`g<k>` the compiler emits names a coupling of the model that connects exactly `a` and `b` **iff** the two
qubits are neighbours (or the wrap-around pair of a ring).
-/
namespace QipVerif.SpinChain
open QipVerif QipVerif.Gen.SC

/-- the index `k` of the label `g<k>` chosen for an exchange gate on targets `[a, b]` -/
def chosenLabel (N a b : Nat) : Int :=
  swapLabelIdx (N : Int) (swapQ1 (a : Int) (b : Int)) (swapQ2 (a : Int) (b : Int))

theorem prefix_eq : (swapPrefix == ctlG_prefix) = true := by decide

theorem control_g (circular : Bool) (N : Nat) (n : Int) :
    control? circular N swapPrefix n =
      if 0 ≤ n ∧ n < numCoupling circular (N : Int) then
        some (.pair ctlG_terms (ctlG_qubits (N : Int) n).1 (ctlG_qubits (N : Int) n).2) else none := by
  unfold control?
  rw [if_pos prefix_eq]

theorem emod_succ_lt {n N : Int} (h0 : 0 ≤ n) (h : n + 1 < N) : (n + 1) % N = n + 1 :=
  Int.emod_eq_of_lt (by omega) h

theorem emod_succ_eq {n N : Int} (h : n + 1 = N) : (n + 1) % N = 0 := by
  rw [h]; exact Int.emod_self

/-- the chosen label, case by case -/
theorem chosenLabel_lt {N a b : Nat} (h : a < b) :
    chosenLabel N a b = if (N ≠ 2 ∧ a = 0 ∧ b + 1 = N) then (b : Int) else (a : Int) := by
  unfold chosenLabel swapLabelIdx swapQ1 swapQ2 imin imax
  have h1 : (a : Int) ≤ (b : Int) := by omega
  rw [if_pos h1, if_pos h1]
  by_cases hc : N ≠ 2 ∧ a = 0 ∧ b + 1 = N
  · rw [if_pos hc]
    have : (((N : Int) != (2 : Int)) && ((a : Int) == (0 : Int)) && ((b : Int) == ((N : Int) - (1 : Int)))) = true := by
      simp only [Bool.and_eq_true, bne_iff_ne, beq_iff_eq]
      omega
    rw [if_pos this]
  · rw [if_neg hc]
    have : ¬ ((((N : Int) != (2 : Int)) && ((a : Int) == (0 : Int)) && ((b : Int) == ((N : Int) - (1 : Int)))) = true) := by
      simp only [Bool.and_eq_true, bne_iff_ne, beq_iff_eq]
      omega
    rw [if_neg this]

theorem chosenLabel_symm (N a b : Nat) : chosenLabel N a b = chosenLabel N b a := by
  unfold chosenLabel swapQ1 swapQ2 imin imax
  by_cases h : (a : Int) ≤ (b : Int)
  · by_cases h' : (b : Int) ≤ (a : Int)
    · have : (a : Int) = (b : Int) := by omega
      rw [this]
    · rw [if_pos h, if_pos h, if_neg h', if_neg h']
  · have h' : (b : Int) ≤ (a : Int) := by omega
    rw [if_neg h, if_neg h, if_pos h', if_pos h']

theorem connects_symm (circular : Bool) (N : Nat) (n : Int) (a b : Nat) :
    connects circular N n a b = connects circular N n b a := by
  unfold connects
  split
  · rw [Bool.or_comm]
  · rfl

theorem adjacent_symm (circular : Bool) (N a b : Nat) : adjacent circular N a b = adjacent circular N b a := by
  unfold adjacent
  cases circular <;> simp only [Bool.false_and, Bool.or_false, Bool.true_and]
  · rw [Bool.or_comm]
  · rw [Bool.or_comm (a + 1 == b), Bool.or_comm (a == 0 && b + 1 == N)]

theorem adjacent_iff (circular : Bool) (N a b : Nat) :
    adjacent circular N a b = true ↔
      (a + 1 = b ∨ b + 1 = a ∨ (circular = true ∧ ((a = 0 ∧ b + 1 = N) ∨ (b = 0 ∧ a + 1 = N)))) := by
  unfold adjacent
  simp only [Bool.or_eq_true, Bool.and_eq_true, beq_iff_eq, or_assoc]

theorem connects_iff (circular : Bool) (N : Nat) (n : Int) (a b : Nat) :
    connects circular N n a b = true ↔
      (0 ≤ n ∧ n < numCoupling circular (N : Int)) ∧
        ((n = (a : Int) ∧ (n + 1) % (N : Int) = (b : Int)) ∨ (n = (b : Int) ∧ (n + 1) % (N : Int) = (a : Int))) := by
  unfold connects
  rw [control_g]
  by_cases h : 0 ≤ n ∧ n < numCoupling circular (N : Int)
  · rw [if_pos h]
    simp only [ctlG_qubits, Bool.or_eq_true, Bool.and_eq_true, beq_iff_eq, h, and_self, true_and]
  · rw [if_neg h]
    simp [h]

/-- **the label rule, ordered case** -/
theorem label_lt (circular : Bool) {N a b : Nat} (hN : 2 ≤ N) (hb : b < N) (hab : a < b) :
    connects circular N (chosenLabel N a b) a b = adjacent circular N a b := by
  rw [Bool.eq_iff_iff, connects_iff, adjacent_iff, chosenLabel_lt hab]
  have hnc : numCoupling circular (N : Int) = if circular = true then (N : Int) else (N : Int) - 1 := by
    unfold numCoupling; cases circular <;> simp
  by_cases hc : N ≠ 2 ∧ a = 0 ∧ b + 1 = N
  · -- the wrap pair of a chain with N ≠ 2: label g<b>, coupling (b, (b+1) % N) = (N-1, 0)
    rw [if_pos hc]
    obtain ⟨h2, ha0, hbN⟩ := hc
    have hm : ((b : Int) + 1) % (N : Int) = 0 := emod_succ_eq (by omega)
    rw [hm, hnc]
    cases circular <;> simp only [Bool.false_eq_true, if_false, if_true, false_and, or_false, true_and] <;> omega
  · rw [if_neg hc, hnc]
    by_cases hlast : a + 1 = N
    · omega
    · have hm : ((a : Int) + 1) % (N : Int) = (a : Int) + 1 := emod_succ_lt (by omega) (by omega)
      rw [hm]
      have hc' : N = 2 ∨ a ≠ 0 ∨ b + 1 ≠ N := by
        by_contra hh
        exact hc ⟨by omega, by omega, by omega⟩
      cases circular <;> simp only [Bool.false_eq_true, if_false, if_true, false_and, or_false, true_and] <;> omega

/-- **the label rule**: for every `N ≥ 2`, both topologies, every two distinct qubits -/
theorem label_rule (circular : Bool) {N a b : Nat} (hN : 2 ≤ N) (ha : a < N) (hb : b < N) (hab : a ≠ b) :
    connects circular N (chosenLabel N a b) a b = adjacent circular N a b := by
  rcases Nat.lt_or_gt_of_ne hab with h | h
  · exact label_lt circular hN hb h
  · rw [chosenLabel_symm, connects_symm, adjacent_symm]
    exact label_lt circular hN ha h

end QipVerif.SpinChain
