import QipVerif.Lemmas.QasmTokRender
/-!
# `read_qasm` before `_tokenize` on rendered programs (C04)

`preLines_render`: the pre-processing of `read_qasm` (strip every line, drop empty and `//` lines, cut a
trailing comment, pop and test the header) leaves a rendered program as it is, minus the header line —
for programs of `TokClass` whose rendered lines contain no `//` (`noComment`, a decidable condition on the
text; `a//b` as an identifier would be cut by the real importer as well).

`readTokens_render`: `read_qasm` up to and including `_tokenize` on `OPENQASM 2.0;` + the rendered program
returns the token lists `tokensOf` of its statements.
-/
namespace QipVerif.Qasm.Tok
open QipVerif.Qasm

/-- no rendered line contains `//` -/
def noComment (p : Program) : Bool := (renderProgram p).all fun l => cutComment l == l

/-- the line starts and ends with a non-blank character -/
def Ends (l : Str) : Prop :=
  (∃ a t, l = a :: t ∧ isWs a = false) ∧ (∃ m b, l = m ++ [b] ∧ isWs b = false)

theorem strip_ends {l : Str} (h : Ends l) : strip l = l := by
  obtain ⟨⟨a, t, h1, ha⟩, ⟨m, b, h2, hb⟩⟩ := h
  have e : a :: t = m ++ [b] := h1.symm.trans h2
  unfold strip
  rw [h1, stripL_cons_nws _ ha, e]
  exact stripR_snoc_nws _ hb

theorem ends_ne {l : Str} (h : Ends l) : l ≠ [] := by
  obtain ⟨⟨a, t, h1, _⟩, _⟩ := h
  rw [h1]; simp

theorem isWs_semi : isWs ';' = false := by decide

theorem word_head {n : Str} (h : isWord n = true) : ∃ a t, n = a :: t ∧ isWs a = false := by
  obtain ⟨h1, _, h3, _⟩ := isWord_parts h
  cases n with
  | nil => exact absurd rfl h1
  | cons a t => exact ⟨a, t, rfl, h3 a (by simp)⟩

theorem qopBody_head (op : QOp) (h : qopOk op = true) : ∃ a t, qopBody op = a :: t ∧ isWs a = false := by
  cases op with
  | U a b c q => exact ⟨'U', _, rfl, by decide⟩
  | CX a b => exact ⟨'C', _, rfl, by decide⟩
  | call n ps qs =>
    simp only [qopOk, callOk, Bool.and_eq_true] at h
    obtain ⟨a, t, rfl, ha⟩ := word_head h.1.1.1
    exact ⟨a, _, rfl, ha⟩
  | measure q c => exact ⟨'m', _, rfl, by decide⟩
  | reset q => exact ⟨'r', _, rfl, by decide⟩

theorem gopBody_head (g : GOp) (h : gopOk' g = true) : ∃ a t, gopBody g = a :: t ∧ isWs a = false := by
  cases g with
  | U a b c q => exact ⟨'U', _, rfl, by decide⟩
  | CX a b => exact ⟨'C', _, rfl, by decide⟩
  | call n ps qs =>
    simp only [gopOk', callOk, Bool.and_eq_true] at h
    obtain ⟨a, t, rfl, ha⟩ := word_head h.1.1.1
    exact ⟨a, _, rfl, ha⟩
  | barrier qs => exact ⟨'b', _, rfl, by decide⟩

theorem ends_semi (X : Str) (h : ∃ a t, X = a :: t ∧ isWs a = false) : Ends (X ++ [';']) := by
  obtain ⟨a, t, rfl, ha⟩ := h
  exact ⟨⟨a, t ++ [';'], rfl, ha⟩, ⟨a :: t, ';', rfl, isWs_semi⟩⟩

/-- every rendered line starts and ends with a non-blank character -/
theorem stmt_ends (s : Stmt) (h : stmtOk s = true) : ∀ l ∈ s.render, Ends l := by
  intro l hl
  cases s with
  | version =>
    simp only [Stmt.render, List.mem_singleton] at hl; subst hl
    exact ends_semi cs!"OPENQASM 2.0" ⟨'O', _, rfl, by decide⟩
  | incl f =>
    simp only [Stmt.render, List.mem_singleton] at hl; subst hl
    have : cs!"include \"" ++ f ++ cs!"\";" = (cs!"include \"" ++ f ++ cs!"\"") ++ [';'] := by simp
    rw [this]; exact ends_semi _ ⟨'i', _, rfl, by decide⟩
  | qreg n k =>
    simp only [Stmt.render, List.mem_singleton] at hl; subst hl
    have : cs!"qreg " ++ n ++ '[' :: natDigits k ++ cs!"];" = (cs!"qreg " ++ n ++ '[' :: natDigits k ++ cs!"]") ++ [';'] := by
      simp
    rw [this]; exact ends_semi _ ⟨'q', _, rfl, by decide⟩
  | creg n k =>
    simp only [Stmt.render, List.mem_singleton] at hl; subst hl
    have : cs!"creg " ++ n ++ '[' :: natDigits k ++ cs!"];" = (cs!"creg " ++ n ++ '[' :: natDigits k ++ cs!"]") ++ [';'] := by
      simp
    rw [this]; exact ends_semi _ ⟨'c', _, rfl, by decide⟩
  | qop op =>
    simp only [Stmt.render, List.mem_singleton] at hl; subst hl
    rw [qop_render]; exact ends_semi _ (qopBody_head op h)
  | ifc c k op =>
    simp only [Stmt.render, List.mem_singleton] at hl; subst hl
    rw [qop_render]
    have : cs!"if(" ++ c ++ cs!"==" ++ natDigits k ++ cs!") " ++ (qopBody op ++ [';']) =
        (cs!"if(" ++ c ++ cs!"==" ++ natDigits k ++ cs!") " ++ qopBody op) ++ [';'] := by simp
    rw [this]; exact ends_semi _ ⟨'i', _, rfl, by decide⟩
  | barrier qs =>
    simp only [Stmt.render, List.mem_singleton] at hl; subst hl
    exact ends_semi _ ⟨'b', _, rfl, by decide⟩
  | «opaque» n ps qs =>
    simp only [Stmt.render, List.mem_singleton] at hl; subst hl
    exact ends_semi _ ⟨'o', _, rfl, by decide⟩
  | gate d =>
    simp only [stmtOk, Bool.and_eq_true] at h
    simp only [Stmt.render, List.cons_append, List.nil_append, List.mem_cons, List.mem_append, List.mem_map,
      List.mem_singleton, List.not_mem_nil, or_false] at hl
    rcases hl with rfl | ⟨g, hg, rfl⟩ | rfl
    · refine ⟨⟨'g', _, rfl, by decide⟩, ⟨cs!"gate " ++ d.name ++ renderFormals d.params ++ ' ' :: intercal [','] d.qargs ++ [' '],
        '{', by simp, by decide⟩⟩
    · rw [gop_render]; exact ends_semi _ (gopBody_head g ((List.all_eq_true.mp h.2) g hg))
    · exact ⟨⟨'}', [], rfl, by decide⟩, ⟨[], '}', rfl, by decide⟩⟩

theorem program_ends (p : Program) (h : TokClass p = true) : ∀ l ∈ renderProgram p, Ends l := by
  intro l hl
  simp only [renderProgram, List.mem_flatMap] at hl
  obtain ⟨s, hs, hl⟩ := hl
  exact stmt_ends s ((List.all_eq_true.mp h) s hs) l hl

theorem take2_of_cut {l : Str} (hne : l ≠ []) (hc : cutComment l = l) : (l.take 2 == cs!"//") = false := by
  cases l with
  | nil => exact absurd rfl hne
  | cons a t =>
    cases t with
    | nil => simp
    | cons b u =>
      by_cases h : a = '/' ∧ b = '/'
      · obtain ⟨rfl, rfl⟩ := h
        simp [cutComment] at hc
      · simp only [List.take, beq_eq_false_iff_ne, ne_eq, List.cons.injEq, and_true]
        exact h

/-- the three list passes of `read_qasm` leave lines of this kind untouched -/
theorem pre_passes (ls : List Str) (h : ∀ l ∈ ls, Ends l ∧ cutComment l = l) :
    ((ls.map strip).filter fun x => !(x.take 2 == cs!"//") && !x.isEmpty).map cutComment = ls := by
  induction ls with
  | nil => rfl
  | cons l rest ih =>
    have hl := h l (by simp)
    have ih' := ih (fun x hx => h x (by simp [hx]))
    have hne := ends_ne hl.1
    have h2 := take2_of_cut hne hl.2
    have he : l.isEmpty = false := by cases l <;> simp at hne ⊢
    simp only [List.map_cons, strip_ends hl.1]
    rw [List.filter_cons_of_pos (by simp [h2, he])]
    simp only [List.map_cons, hl.2, ih']

/-- **the pre-processing of `read_qasm` on a rendered program**: the header is popped, nothing else changes -/
theorem preLines_render (p : Program) (h : TokClass p = true) (hc : noComment p = true) :
    preLines (renderProgram (.version :: p)) = .ok (renderProgram p) := by
  have hall : ∀ l ∈ renderProgram (.version :: p), Ends l ∧ cutComment l = l := by
    intro l hl
    have hl' : l = header ∨ l ∈ renderProgram p := by
      simpa [renderProgram, Stmt.render, header] using hl
    rcases hl' with rfl | hl'
    · exact ⟨stmt_ends .version rfl _ (by simp [Stmt.render, header]), by decide⟩
    · refine ⟨program_ends p h l hl', ?_⟩
      have := (List.all_eq_true.mp hc) l hl'
      simpa using this
  unfold preLines
  simp only [pre_passes _ hall]
  have : renderProgram (.version :: p) = header :: renderProgram p := by
    simp [renderProgram, Stmt.render, header]
  rw [this]
  simp

/-- **`read_qasm` up to and including `_tokenize` on a rendered program** -/
theorem readTokens_render (p : Program) (h : TokClass p = true) (hc : noComment p = true) :
    readTokens (renderProgram (.version :: p)) = .ok (p.flatMap tokensOf) := by
  simp [readTokens, preLines_render p h hc, tokenize_render p h]

/-! ## non-vacuity: nested parentheses behind an `if`, a definition with a body, measurements -/

example : TokClass exProg = true ∧ noComment exProg = true := by decide

example : readTokens (renderProgram (.version :: exProg)) = .ok (exProg.flatMap tokensOf) :=
  readTokens_render exProg (by decide) (by decide)

/-- the same by evaluation of the model, with the tokens written out -/
example : tokenize (renderProgram exProg) = .ok
    [[cs!"include", cs!"\"qelib1.inc\""],
     [cs!"qreg", cs!"q", cs!"[", cs!"2", cs!"]"],
     [cs!"creg", cs!"c", cs!"[", cs!"2", cs!"]"],
     [cs!"gate", cs!"g", cs!"(", cs!"p", cs!"lam", cs!")", cs!"a", cs!"b"],
     [cs!"{"],
     [cs!"U", cs!"(", cs!"p/2", cs!"0", cs!"- ( lam+pi )", cs!")", cs!"a"],
     [cs!"cx", cs!"a", cs!"b"],
     [cs!"barrier", cs!"a", cs!"b"],
     [cs!"}"],
     [cs!"if", cs!"(", cs!"c==1", cs!")", cs!"u2", cs!"(", cs!"1", cs!"( pi+pi ) * ( 1.25-pi )", cs!")", cs!"q [ 0 ]"],
     [cs!"if", cs!"(", cs!"c==3", cs!")", cs!"measure", cs!"q", cs!"[", cs!"1", cs!"]", cs!"->", cs!"c", cs!"[", cs!"0", cs!"]"],
     [cs!"g", cs!"(", cs!"- ( pi/2 )", cs!"sin ( pi )", cs!")", cs!"q [ 0 ]", cs!"q [ 1 ]"],
     [cs!"measure", cs!"q", cs!"->", cs!"c"],
     [cs!"barrier", cs!"q", cs!"[", cs!"0", cs!"]", cs!"q"]] := by decide

end QipVerif.Qasm.Tok
