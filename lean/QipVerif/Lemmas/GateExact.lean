import QipVerif.Lemmas.MatBridge
import QipVerif.Lemmas.DecompDenEC
import QipVerif.Lemmas.GateDoc
import QipVerif.Lemmas.GateCtrl
/-! The exact gate library `gateE` (ℤ[ζ₁₆][½], `Model/Circuit.lean`) of every FIXED gate, read over ℂ by `toMatD`,
is the matrix `Gen.G.*` generated from the source of gates.py, on flat indices (`matN`).  This ties the exact
semantics used by C01 / C03 / C07 / C13 (`compactC` for fixed gates) to the translated source as theorems. -/
namespace QipVerif.GateExact
open QipVerif QipVerif.Gen Complex Matrix

/-- a 2^k × 2^k matrix on flat indices as an operator on k qubits (first qubit most significant) -/
noncomputable def matN (k : ℕ) (M : Matrix (Fin (2 ^ k)) (Fin (2 ^ k)) ℂ) : Matrix (St k) (St k) ℂ :=
  fun x y => M ⟨enc x, enc_lt x⟩ ⟨enc y, enc_lt y⟩

theorem toMatD_eq_matN (k : ℕ) (D : DMat) (M : Matrix (Fin (2 ^ k)) (Fin (2 ^ k)) ℂ)
    (h : ∀ i j : Fin (2 ^ k), ((1 : ℂ) / 2 ^ D.e) * Cyc.toC (D.m.get i.val j.val) = M i j) : toMatD k D = matN k M := by
  ext x y
  simp only [toMatD, toMat, matN, Matrix.smul_apply, smul_eq_mul]
  exact h ⟨enc x, enc_lt x⟩ ⟨enc y, enc_lt y⟩

theorem matN_mul (k : ℕ) (A B : Matrix (Fin (2 ^ k)) (Fin (2 ^ k)) ℂ) : matN k (A * B) = matN k A * matN k B := by
  ext x y
  simp only [matN, Matrix.mul_apply]
  exact (Fintype.sum_equiv (stEquiv k) _ _ (fun z => rfl)).symm

theorem matN_one (k : ℕ) : matN k 1 = 1 := by
  ext x y
  simp only [matN, Matrix.one_apply]
  by_cases h : x = y
  · subst h; simp
  · have : enc x ≠ enc y := fun he => h (enc_inj he)
    simp [h, this]

theorem matN_conjTranspose (k : ℕ) (A : Matrix (Fin (2 ^ k)) (Fin (2 ^ k)) ℂ) : (matN k A)ᴴ = matN k Aᴴ := rfl

theorem toC_sqrt2 : Cyc.toC Cyc.sqrt2 = ((Real.sqrt 2 : ℝ) : ℂ) := by
  have h : Cyc.sqrt2 = Cyc.cos2 2 := by decide
  rw [h, Cyc.toC_cos2]
  rw [show ((2 : ℤ) : ℂ) * ((Real.pi : ℂ) / 8) = (Real.pi : ℂ) / 4 by push_cast; ring, GateC.cos_pi4]
  unfold GateC.r2; ring

theorem x_def : GateE.x = ⟨0, [[Cyc.zero, Cyc.one], [Cyc.one, Cyc.zero]]⟩ := rfl
theorem y_def : GateE.y = ⟨0, [[Cyc.zero, Cyc.neg Cyc.I], [Cyc.I, Cyc.zero]]⟩ := rfl
theorem zg_def : GateE.zg = ⟨0, [[Cyc.one, Cyc.zero], [Cyc.zero, Cyc.neg Cyc.one]]⟩ := rfl
theorem s_def : GateE.s = ⟨0, [[Cyc.one, Cyc.zero], [Cyc.zero, Cyc.I]]⟩ := rfl
theorem t_def : GateE.t = ⟨0, [[Cyc.one, Cyc.zero], [Cyc.zero, Cyc.zpow 2]]⟩ := rfl
theorem snot_def : GateE.snot = ⟨1, [[Cyc.sqrt2, Cyc.sqrt2], [Cyc.sqrt2, Cyc.neg Cyc.sqrt2]]⟩ := rfl
theorem sqrtnot_def : GateE.sqrtnot = ⟨1, [[Cyc.add Cyc.one Cyc.I, Cyc.sub Cyc.one Cyc.I], [Cyc.sub Cyc.one Cyc.I, Cyc.add Cyc.one Cyc.I]]⟩ := rfl
theorem cnot_def : GateE.cnot = ⟨0, [[Cyc.one, Cyc.zero, Cyc.zero, Cyc.zero], [Cyc.zero, Cyc.one, Cyc.zero, Cyc.zero], [Cyc.zero, Cyc.zero, Cyc.zero, Cyc.one], [Cyc.zero, Cyc.zero, Cyc.one, Cyc.zero]]⟩ := rfl
theorem csign_def : GateE.csign = ⟨0, [[Cyc.one, Cyc.zero, Cyc.zero, Cyc.zero], [Cyc.zero, Cyc.one, Cyc.zero, Cyc.zero], [Cyc.zero, Cyc.zero, Cyc.one, Cyc.zero], [Cyc.zero, Cyc.zero, Cyc.zero, Cyc.neg Cyc.one]]⟩ := rfl
theorem cy_def : GateE.cy = ⟨0, [[Cyc.one, Cyc.zero, Cyc.zero, Cyc.zero], [Cyc.zero, Cyc.one, Cyc.zero, Cyc.zero], [Cyc.zero, Cyc.zero, Cyc.zero, Cyc.neg Cyc.I], [Cyc.zero, Cyc.zero, Cyc.I, Cyc.zero]]⟩ := rfl
theorem cs_def : GateE.cs = ⟨0, [[Cyc.one, Cyc.zero, Cyc.zero, Cyc.zero], [Cyc.zero, Cyc.one, Cyc.zero, Cyc.zero], [Cyc.zero, Cyc.zero, Cyc.one, Cyc.zero], [Cyc.zero, Cyc.zero, Cyc.zero, Cyc.I]]⟩ := rfl
theorem ct_def : GateE.ct = ⟨0, [[Cyc.one, Cyc.zero, Cyc.zero, Cyc.zero], [Cyc.zero, Cyc.one, Cyc.zero, Cyc.zero], [Cyc.zero, Cyc.zero, Cyc.one, Cyc.zero], [Cyc.zero, Cyc.zero, Cyc.zero, Cyc.zpow 2]]⟩ := rfl
theorem swap_def : GateE.swap = ⟨0, [[Cyc.one, Cyc.zero, Cyc.zero, Cyc.zero], [Cyc.zero, Cyc.zero, Cyc.one, Cyc.zero], [Cyc.zero, Cyc.one, Cyc.zero, Cyc.zero], [Cyc.zero, Cyc.zero, Cyc.zero, Cyc.one]]⟩ := rfl
theorem iswap_def : GateE.iswap = ⟨0, [[Cyc.one, Cyc.zero, Cyc.zero, Cyc.zero], [Cyc.zero, Cyc.zero, Cyc.I, Cyc.zero], [Cyc.zero, Cyc.I, Cyc.zero, Cyc.zero], [Cyc.zero, Cyc.zero, Cyc.zero, Cyc.one]]⟩ := rfl
theorem sqrtswap_def : GateE.sqrtswap = ⟨1, [[Cyc.ofInt 2, Cyc.zero, Cyc.zero, Cyc.zero], [Cyc.zero, Cyc.add Cyc.one Cyc.I, Cyc.sub Cyc.one Cyc.I, Cyc.zero], [Cyc.zero, Cyc.sub Cyc.one Cyc.I, Cyc.add Cyc.one Cyc.I, Cyc.zero], [Cyc.zero, Cyc.zero, Cyc.zero, Cyc.ofInt 2]]⟩ := rfl
theorem sqrtiswap_def : GateE.sqrtiswap = ⟨1, [[Cyc.ofInt 2, Cyc.zero, Cyc.zero, Cyc.zero], [Cyc.zero, Cyc.sqrt2, Cyc.mul Cyc.I Cyc.sqrt2, Cyc.zero], [Cyc.zero, Cyc.mul Cyc.I Cyc.sqrt2, Cyc.sqrt2, Cyc.zero], [Cyc.zero, Cyc.zero, Cyc.zero, Cyc.ofInt 2]]⟩ := rfl
theorem berkeley_def : GateE.berkeley = ⟨1, [[Cyc.cos2 1, Cyc.zero, Cyc.zero, Cyc.mul Cyc.I (Cyc.sin2 1)], [Cyc.zero, Cyc.cos2 3, Cyc.mul Cyc.I (Cyc.sin2 3), Cyc.zero], [Cyc.zero, Cyc.mul Cyc.I (Cyc.sin2 3), Cyc.cos2 3, Cyc.zero], [Cyc.mul Cyc.I (Cyc.sin2 1), Cyc.zero, Cyc.zero, Cyc.cos2 1]]⟩ := rfl
theorem fredkin_def : GateE.fredkin = ⟨0, [[Cyc.one, Cyc.zero, Cyc.zero, Cyc.zero, Cyc.zero, Cyc.zero, Cyc.zero, Cyc.zero], [Cyc.zero, Cyc.one, Cyc.zero, Cyc.zero, Cyc.zero, Cyc.zero, Cyc.zero, Cyc.zero], [Cyc.zero, Cyc.zero, Cyc.one, Cyc.zero, Cyc.zero, Cyc.zero, Cyc.zero, Cyc.zero], [Cyc.zero, Cyc.zero, Cyc.zero, Cyc.one, Cyc.zero, Cyc.zero, Cyc.zero, Cyc.zero], [Cyc.zero, Cyc.zero, Cyc.zero, Cyc.zero, Cyc.one, Cyc.zero, Cyc.zero, Cyc.zero], [Cyc.zero, Cyc.zero, Cyc.zero, Cyc.zero, Cyc.zero, Cyc.zero, Cyc.one, Cyc.zero], [Cyc.zero, Cyc.zero, Cyc.zero, Cyc.zero, Cyc.zero, Cyc.one, Cyc.zero, Cyc.zero], [Cyc.zero, Cyc.zero, Cyc.zero, Cyc.zero, Cyc.zero, Cyc.zero, Cyc.zero, Cyc.one]]⟩ := rfl
theorem toffoli_def : GateE.toffoli = ⟨0, [[Cyc.one, Cyc.zero, Cyc.zero, Cyc.zero, Cyc.zero, Cyc.zero, Cyc.zero, Cyc.zero], [Cyc.zero, Cyc.one, Cyc.zero, Cyc.zero, Cyc.zero, Cyc.zero, Cyc.zero, Cyc.zero], [Cyc.zero, Cyc.zero, Cyc.one, Cyc.zero, Cyc.zero, Cyc.zero, Cyc.zero, Cyc.zero], [Cyc.zero, Cyc.zero, Cyc.zero, Cyc.one, Cyc.zero, Cyc.zero, Cyc.zero, Cyc.zero], [Cyc.zero, Cyc.zero, Cyc.zero, Cyc.zero, Cyc.one, Cyc.zero, Cyc.zero, Cyc.zero], [Cyc.zero, Cyc.zero, Cyc.zero, Cyc.zero, Cyc.zero, Cyc.one, Cyc.zero, Cyc.zero], [Cyc.zero, Cyc.zero, Cyc.zero, Cyc.zero, Cyc.zero, Cyc.zero, Cyc.zero, Cyc.one], [Cyc.zero, Cyc.zero, Cyc.zero, Cyc.zero, Cyc.zero, Cyc.zero, Cyc.one, Cyc.zero]]⟩ := rfl

/-- evaluation of the entries of the exact matrices over ℂ -/
macro "exact_entries" : tactic => `(tactic|
  simp [CMat.get, Cyc.toC_neg, Cyc.toC_add, Cyc.toC_sub, Cyc.toC_mul, Cyc.toC_I, Cyc.toC_ofInt, toC_sqrt2])

theorem x_exact : toMatD 1 GateE.x = matN 1 G.x_gate_ := by
  rw [x_def]; apply toMatD_eq_matN; intro i j
  fin_cases i <;> fin_cases j <;> simp [CMat.get, G.x_gate_]
theorem y_exact : toMatD 1 GateE.y = matN 1 G.y_gate_ := by
  rw [y_def]; apply toMatD_eq_matN; intro i j
  fin_cases i <;> fin_cases j <;> simp [CMat.get, G.y_gate_, Cyc.toC_neg, Cyc.toC_I]
theorem z_exact : toMatD 1 GateE.zg = matN 1 G.z_gate_ := by
  rw [zg_def]; apply toMatD_eq_matN; intro i j
  fin_cases i <;> fin_cases j <;> simp [CMat.get, G.z_gate_, Cyc.toC_neg]
theorem s_exact : toMatD 1 GateE.s = matN 1 G.s_gate_ := by
  rw [s_def]; apply toMatD_eq_matN; intro i j
  fin_cases i <;> fin_cases j <;> simp [CMat.get, G.s_gate_, Cyc.toC_I]

theorem toC_zpow2 : Cyc.toC (Cyc.zpow 2) = Complex.exp (I * (Real.pi : ℂ) / 4) := by
  rw [Cyc.toC_zpow]; congr 1; push_cast; ring

theorem t_exact : toMatD 1 GateE.t = matN 1 G.t_gate_ := by
  rw [t_def]; apply toMatD_eq_matN; intro i j
  fin_cases i <;> fin_cases j <;> simp [CMat.get, G.t_gate_, toC_zpow2]
theorem snot_exact : toMatD 1 GateE.snot = matN 1 G.snot_ := by
  have h2 := GateDoc.sqrt2_sq
  have hne := GateDoc.sqrt2_ne
  rw [snot_def]; apply toMatD_eq_matN; intro i j
  fin_cases i <;> fin_cases j <;> simp [CMat.get, G.snot_, Cyc.toC_neg, toC_sqrt2]
  all_goals (field_simp; first | ring1 | linear_combination h2)
theorem sqrtnot_exact : toMatD 1 GateE.sqrtnot = matN 1 G.sqrtnot_ := by
  rw [sqrtnot_def]; apply toMatD_eq_matN; intro i j
  fin_cases i <;> fin_cases j <;> simp [CMat.get, G.sqrtnot_, Cyc.toC_add, Cyc.toC_sub, Cyc.toC_I]
  all_goals ring
theorem cnot_exact : toMatD 2 GateE.cnot = matN 2 G.cnot_ := by
  rw [cnot_def]; apply toMatD_eq_matN; intro i j
  fin_cases i <;> fin_cases j <;> simp [CMat.get, G.cnot_]
theorem csign_exact : toMatD 2 GateE.csign = matN 2 G.csign_ := by
  rw [csign_def]; apply toMatD_eq_matN; intro i j
  fin_cases i <;> fin_cases j <;> simp [CMat.get, G.csign_, Cyc.toC_neg]
theorem cz_exact : toMatD 2 GateE.csign = matN 2 G.cz_gate_ := by
  rw [csign_def]; apply toMatD_eq_matN; intro i j
  fin_cases i <;> fin_cases j <;> simp [CMat.get, G.cz_gate_, Cyc.toC_neg]
theorem cy_exact : toMatD 2 GateE.cy = matN 2 G.cy_gate_ := by
  rw [cy_def]; apply toMatD_eq_matN; intro i j
  fin_cases i <;> fin_cases j <;> simp [CMat.get, G.cy_gate_, Cyc.toC_neg, Cyc.toC_I]
theorem cs_exact : toMatD 2 GateE.cs = matN 2 G.cs_gate_ := by
  rw [cs_def]; apply toMatD_eq_matN; intro i j
  fin_cases i <;> fin_cases j <;> simp [CMat.get, G.cs_gate_, Cyc.toC_I]
theorem ct_exact : toMatD 2 GateE.ct = matN 2 G.ct_gate_ := by
  rw [ct_def]; apply toMatD_eq_matN; intro i j
  fin_cases i <;> fin_cases j <;> simp [CMat.get, G.ct_gate_, toC_zpow2]
theorem swap_exact : toMatD 2 GateE.swap = matN 2 G.swap_ := by
  rw [swap_def]; apply toMatD_eq_matN; intro i j
  fin_cases i <;> fin_cases j <;> simp [CMat.get, G.swap_]
theorem iswap_exact : toMatD 2 GateE.iswap = matN 2 G.iswap_ := by
  rw [iswap_def]; apply toMatD_eq_matN; intro i j
  fin_cases i <;> fin_cases j <;> simp [CMat.get, G.iswap_, Cyc.toC_I]
theorem sqrtswap_exact : toMatD 2 GateE.sqrtswap = matN 2 G.sqrtswap_ := by
  rw [sqrtswap_def]; apply toMatD_eq_matN; intro i j
  fin_cases i <;> fin_cases j <;> simp [CMat.get, G.sqrtswap_, Cyc.toC_add, Cyc.toC_sub, Cyc.toC_I, Cyc.toC_ofInt]
  all_goals ring
theorem sqrtiswap_exact : toMatD 2 GateE.sqrtiswap = matN 2 G.sqrtiswap_ := by
  have h2 := GateDoc.sqrt2_sq
  have hne := GateDoc.sqrt2_ne
  rw [sqrtiswap_def]; apply toMatD_eq_matN; intro i j
  fin_cases i <;> fin_cases j <;> simp [CMat.get, G.sqrtiswap_, Cyc.toC_mul, Cyc.toC_I, Cyc.toC_ofInt, toC_sqrt2]
  all_goals (field_simp; first | ring1 | linear_combination h2)
theorem berkeley_exact : toMatD 2 GateE.berkeley = matN 2 G.berkeley_ := by
  rw [berkeley_def]; apply toMatD_eq_matN; intro i j
  have e3 : (3 : ℂ) * ((Real.pi : ℂ) / 8) = 3 * (Real.pi : ℂ) / 8 := by ring
  fin_cases i <;> fin_cases j <;>
    simp [CMat.get, G.berkeley_, Cyc.toC_mul, Cyc.toC_I, Cyc.toC_cos2, Cyc.toC_sin2]
  all_goals ((try rw [e3]); try ring)
theorem fredkin_exact : toMatD 3 GateE.fredkin = matN 3 G.fredkin_ := by
  rw [fredkin_def]; apply toMatD_eq_matN; intro i j
  fin_cases i <;> fin_cases j <;> simp [CMat.get, G.fredkin_]
theorem toffoli_exact : toMatD 3 GateE.toffoli = matN 3 G.toffoli_ := by
  rw [toffoli_def]; apply toMatD_eq_matN; intro i j
  fin_cases i <;> fin_cases j <;> simp [CMat.get, G.toffoli_]

/-- the complex semantics `compactC` of every fixed library gate (used by the circuit denotation `semG` of C01, C03,
C07, C13 …) is the matrix generated from the source of gates.py -/
theorem compactC_fixed_is_source (θ : ℝ) :
    compactC .X θ = some ⟨1, matN 1 G.x_gate_⟩ ∧
    compactC .Y θ = some ⟨1, matN 1 G.y_gate_⟩ ∧
    compactC .Z θ = some ⟨1, matN 1 G.z_gate_⟩ ∧
    compactC .S θ = some ⟨1, matN 1 G.s_gate_⟩ ∧
    compactC .T θ = some ⟨1, matN 1 G.t_gate_⟩ ∧
    compactC .SNOT θ = some ⟨1, matN 1 G.snot_⟩ ∧
    compactC .SQRTNOT θ = some ⟨1, matN 1 G.sqrtnot_⟩ ∧
    compactC .CNOT θ = some ⟨2, matN 2 G.cnot_⟩ ∧
    compactC .CSIGN θ = some ⟨2, matN 2 G.csign_⟩ ∧
    compactC .CZ θ = some ⟨2, matN 2 G.cz_gate_⟩ ∧
    compactC .CY θ = some ⟨2, matN 2 G.cy_gate_⟩ ∧
    compactC .CS θ = some ⟨2, matN 2 G.cs_gate_⟩ ∧
    compactC .CT θ = some ⟨2, matN 2 G.ct_gate_⟩ ∧
    compactC .SWAP θ = some ⟨2, matN 2 G.swap_⟩ ∧
    compactC .ISWAP θ = some ⟨2, matN 2 G.iswap_⟩ ∧
    compactC .SQRTSWAP θ = some ⟨2, matN 2 G.sqrtswap_⟩ ∧
    compactC .SQRTISWAP θ = some ⟨2, matN 2 G.sqrtiswap_⟩ ∧
    compactC .BERKELEY θ = some ⟨2, matN 2 G.berkeley_⟩ ∧
    compactC .FREDKIN θ = some ⟨3, matN 3 G.fredkin_⟩ ∧
    compactC .TOFFOLI θ = some ⟨3, matN 3 G.toffoli_⟩ :=
  ⟨by simp only [compactC, gateE, x_exact],
   by simp only [compactC, gateE, y_exact],
   by simp only [compactC, gateE, z_exact],
   by simp only [compactC, gateE, s_exact],
   by simp only [compactC, gateE, t_exact],
   by simp only [compactC, gateE, snot_exact],
   by simp only [compactC, gateE, sqrtnot_exact],
   by simp only [compactC, gateE, cnot_exact],
   by simp only [compactC, gateE, csign_exact],
   by simp only [compactC, gateE, cz_exact],
   by simp only [compactC, gateE, cy_exact],
   by simp only [compactC, gateE, cs_exact],
   by simp only [compactC, gateE, ct_exact],
   by simp only [compactC, gateE, swap_exact],
   by simp only [compactC, gateE, iswap_exact],
   by simp only [compactC, gateE, sqrtswap_exact],
   by simp only [compactC, gateE, sqrtiswap_exact],
   by simp only [compactC, gateE, berkeley_exact],
   by simp only [compactC, gateE, fredkin_exact],
   by simp only [compactC, gateE, toffoli_exact]⟩

/-- the controlled one-qubit operator `ctrl1` of the circuit semantics (CRX, CRY, CRZ, CPHASE in `compactC`) is the 4×4
block `ctrl M` on flat indices, i.e. `ctrlN` with one control and control value 1 -/
theorem ctrl1_eq_matN (M : Matrix (Fin 2) (Fin 2) ℂ) : ctrl1 M = matN 2 (GatePath.ctrl M) := by
  ext x y
  have key : ∀ (a0 a1 c0 c1 : Fin 2),
      (if a0 = 0 then (if c0 = 0 ∧ a1 = c1 then (1 : ℂ) else 0) else (if c0 = 0 then 0 else M a1 c1)) =
        GatePath.ctrl M ⟨2 * a0.val + a1.val, by omega⟩ ⟨2 * c0.val + c1.val, by omega⟩ := by
    intro a0 a1 c0 c1
    fin_cases a0 <;> fin_cases a1 <;> fin_cases c0 <;> fin_cases c1 <;> simp [GatePath.ctrl]
  simp only [ctrl1, matN]
  rw [key (x 0) (x 1) (y 0) (y 1)]
  congr 1 <;> exact Fin.ext (enc_two_fn _).symm

theorem ctrl1_eq_ctrlN (M : Matrix (Fin 2) (Fin 2) ℂ) : ctrl1 M = Ctrl.ctrlN 1 1 M := by
  ext x y
  rw [ctrl1_eq_matN, Ctrl.ctrlN_one_control]; rfl

end QipVerif.GateExact
