import QipVerif.Model.Concat
/-! Basic facts for the concatenation model (C12): well-formed waves, `linspace10`, `arange`, `idle`. -/
namespace QipVerif.Concat

/-! ### waves -/

def Wave.step : Wave → Rat
  | .scalar t _ => t
  | .arr (a :: b :: _) _ => b - a
  | _ => 0

def Wave.dur : Wave → Rat
  | .scalar t _ => t
  | .arr tl _ => tl.getLast?.getD 0
  | .mixed tl _ => tl.getLast?.getD 0

def Wave.mode : Wave → Mode
  | .scalar _ _ => .discrete
  | .arr tl cs => if cs.length + 1 = tl.length then .discrete else .continuous
  | .mixed _ _ => .discrete

/-- a waveform as the property quantifies it: positive duration; sampled pulses start at 0, increase
strictly, have at least one step, and as many coefficients as steps (discrete) or as samples (continuous) -/
def WaveOK : Wave → Prop
  | .scalar t _ => 0 < t
  | .arr tl cs => tl.head? = some 0 ∧ tl.Pairwise (· < ·) ∧ 2 ≤ tl.length ∧
      (cs.length + 1 = tl.length ∨ cs.length = tl.length)
  | .mixed _ _ => False

structure ProcOK (w : Wave) (p : Proc) : Prop where
  step_pos : 0 < p.step
  step_eq : p.step = w.step
  mode_eq : p.mode = w.mode
  gt_inc : (0 :: p.gt).Pairwise (· < ·)
  gt_ne : p.gt ≠ []
  len : p.cs.length = p.gt.length
  last : p.gt.getLast?.getD 0 = w.dur
  head : p.gt.head? = some p.step

theorem procPulse_ok (w : Wave) (h : WaveOK w) : ∃ p, procPulse w = .ok p ∧ ProcOK w p := by
  match w, h with
  | .scalar t c, h =>
    refine ⟨⟨[t], [c], t, .discrete⟩, rfl, ?_⟩
    have h' : 0 < t := h
    exact ⟨h', rfl, rfl, by simpa using h', by simp, rfl, rfl, rfl⟩
  | .arr tl cs, ⟨hh, hp, hl, hc⟩ =>
    match tl, hh, hp, hl, hc with
    | a :: b :: rest, hh, hp, hl, hc =>
      simp at hh; subst hh
      have hb : (0 : Rat) < b := (List.pairwise_cons.mp hp).1 b (by simp)
      rcases hc with hc | hc
      · refine ⟨⟨b :: rest, cs, b - 0, .discrete⟩, ?_, ?_⟩
        · have : ((0 :: b :: rest).length : Int) - 1 = (cs.length : Int) := by simp at hc ⊢; omega
          simp only [procPulse]; rw [if_pos this]
        · refine ⟨by grind, rfl, ?_, hp, by simp, by simp at hc ⊢; omega, ?_, by simp; grind⟩
          · simp [Wave.mode, hc]
          · simp [Wave.dur, List.getLast?_cons_cons]
      · refine ⟨⟨b :: rest, cs.drop 1, b - 0, .continuous⟩, ?_, ?_⟩
        · have h1 : ¬ (((0 :: b :: rest).length : Int) - 1 = (cs.length : Int)) := by simp at hc ⊢; omega
          simp only [procPulse]; rw [if_neg h1, if_pos hc.symm]
        · refine ⟨by grind, rfl, ?_, hp, by simp, by simp at hc ⊢; omega, ?_, by simp; grind⟩
          · have : ¬ (cs.length + 1 = (0 :: b :: rest).length) := by omega
            simp only [Wave.mode]; rw [if_neg this]
          · simp [Wave.dur, List.getLast?_cons_cons]

/-! ### affine point lists -/

theorem affine_pairwise (a d : Rat) (hd : 0 < d) (n : Nat) :
    ((List.range n).map (fun (i : Nat) => a + (i : Rat) * d)).Pairwise (· < ·) := by
  rw [List.pairwise_map]
  refine List.Pairwise.imp ?_ List.pairwise_lt_range
  intro i j hij
  have : (i : Rat) < (j : Rat) := Rat.natCast_lt_natCast.mpr hij
  have := Rat.mul_lt_mul_of_pos_right this hd
  grind

theorem mem_affine {a d x : Rat} {n : Nat} (h : x ∈ (List.range n).map (fun (i : Nat) => a + (i : Rat) * d)) :
    ∃ i : Nat, i < n ∧ x = a + (i : Rat) * d := by
  obtain ⟨i, hi, rfl⟩ := List.mem_map.mp h
  exact ⟨i, List.mem_range.mp hi, rfl⟩

theorem linspace10_pairwise (a b : Rat) (h : a < b) : (linspace10 a b).Pairwise (· < ·) :=
  affine_pairwise a ((b - a) / 9) (by grind) 10

theorem mem_linspace10 {a b x : Rat} (h : a < b) (hx : x ∈ linspace10 a b) : a ≤ x ∧ x ≤ b := by
  obtain ⟨i, hi, rfl⟩ := mem_affine hx
  have h0 : (0 : Rat) ≤ (i : Rat) := by have := Rat.natCast_le_natCast.mpr (Nat.zero_le i); simpa using this
  have h9 : (i : Rat) ≤ 9 := by have := Rat.natCast_le_natCast.mpr (show i ≤ 9 by omega); simpa using this
  have hd : 0 < (b - a) / 9 := by grind
  have e1 := Rat.mul_le_mul_of_nonneg_right h0 (Rat.le_of_lt hd)
  have e2 := Rat.mul_le_mul_of_nonneg_right h9 (Rat.le_of_lt hd)
  constructor <;> grind

theorem arange_pairwise (a stop step : Rat) (h : 0 < step) : (arange a stop step).Pairwise (· < ·) :=
  affine_pairwise a step h _

theorem mem_arange {a stop step x : Rat} (h : 0 < step) (hx : x ∈ arange a stop step) : a ≤ x ∧ x < stop := by
  obtain ⟨i, hi, rfl⟩ := mem_affine hx
  have h0 : (0 : Rat) ≤ (i : Rat) := by have := Rat.natCast_le_natCast.mpr (Nat.zero_le i); simpa using this
  have e1 := Rat.mul_le_mul_of_nonneg_right h0 (Rat.le_of_lt h)
  have hlt : ((i : Int) : Rat) < (stop - a) / step := Rat.lt_ceil_iff.mp (by omega)
  rw [Rat.intCast_natCast] at hlt
  have := (Rat.lt_div_iff h).mp hlt
  constructor <;> grind

/-! ### idle points -/

/-- the idle points lie in `(last, start]`, increase strictly, whatever the mode -/
theorem idle_ok (m : Mode) (start last step : Rat) (hs : 0 < step) (hgap : last < start) :
    ∃ l, idle m start last step = .ok l ∧ (last :: l).Pairwise (· < ·) ∧ ∀ x ∈ l, x ≤ start := by
  cases m with
  | discrete =>
    exact ⟨[start], rfl, by simp [hgap], by simp⟩
  | continuous =>
    unfold idle
    by_cases h3 : start - last > 3 * step
    · simp only [h3, if_true]
      refine ⟨_, rfl, ?_, ?_⟩
      · have hA := linspace10_pairwise (last + step / 5) (last + step) (by grind)
        have hB := linspace10_pairwise (start - step) start (by grind)
        refine List.pairwise_cons.mpr ⟨?_, List.pairwise_append.mpr ⟨hA, hB, ?_⟩⟩
        · intro x hx
          rcases List.mem_append.mp hx with hx | hx
          · have := mem_linspace10 (by grind) hx; grind
          · have := mem_linspace10 (by grind) hx; grind
        · intro x hx y hy
          have := mem_linspace10 (by grind) hx
          have := mem_linspace10 (by grind) hy
          grind
      · intro x hx
        rcases List.mem_append.mp hx with hx | hx
        · have := mem_linspace10 (by grind) hx; grind
        · have := mem_linspace10 (by grind) hx; grind
    · have hne : ¬ (step = 0) := by grind
      simp only [h3, if_false, hne]
      refine ⟨_, rfl, ?_, ?_⟩
      · refine List.pairwise_cons.mpr ⟨?_, arange_pairwise _ _ _ hs⟩
        intro x hx; have := mem_arange hs hx; grind
      · intro x hx; have := mem_arange hs hx; grind

theorem absR_nonneg_eq {x : Rat} (h : 0 ≤ x) : absR x = x := by simp [absR, h]

end QipVerif.Concat
