import QipVerif.Lemmas.GridStep
/-! The resampling loop `_fill_coeff` returns the channel's step function (C14). -/
namespace QipVerif.Grid

/-- What the code returns at one merged point: the value of the slot containing it, except that
at the channel's *final* grid point it returns the last entry of the (padded) coefficient array. -/
def codeAt (oldT C : List Rat) (t : Rat) : Rat :=
  if oldT.getLast? = some t then C.getLast?.getD 0 else stepAt oldT C t

theorem lt_of_pairwise {l : List Rat} (hp : l.Pairwise (· < ·)) {i j : Nat} (hi : i < l.length) (hj : j < l.length)
    (h : i < j) : l[i] < l[j] := List.pairwise_iff_getElem.mp hp i j hi hj h

theorem le_of_pairwise {l : List Rat} (hp : l.Pairwise (· < ·)) {i j : Nat} (hi : i < l.length) (hj : j < l.length)
    (h : i ≤ j) : l[i] ≤ l[j] := by
  rcases Nat.lt_or_eq_of_le h with h | h
  · exact Rat.le_of_lt (lt_of_pairwise hp hi hj h)
  · subst h; exact Rat.le_refl

theorem mem_le_last {l : List Rat} (hp : l.Pairwise (· < ·)) {last : Rat} (hl : l.getLast? = some last) :
    ∀ p ∈ l, p ≤ last := by
  intro p hpm
  obtain ⟨i, hi, rfl⟩ := List.getElem_of_mem hpm
  rw [List.getLast?_eq_getElem?] at hl
  have hn : l.length - 1 < l.length := by omega
  rw [List.getElem?_eq_getElem hn] at hl
  cases hl
  exact le_of_pairwise hp hi hn (by omega)

theorem fillLoop_eq (tol : Rat) (oldT C : List Rat) (first last : Rat) (htol : 0 ≤ tol)
    (hp : oldT.Pairwise (· < ·)) (hlenC : C.length = oldT.length)
    (hfirst : oldT.head? = some first) (hlast : oldT.getLast? = some last)
    (ts : List Rat) (i : Nat)
    (hts : ts.Pairwise (· < ·))
    (hi : i < oldT.length)
    (hge : ∀ t ∈ ts, oldT[i] ≤ t)
    (hin : ∀ j (hj : j < oldT.length), i < j → oldT[j] ∈ ts)
    (hstrict : i + 1 = oldT.length → ∀ t ∈ ts, last < t)
    (hsep : ∀ t ∈ ts, ∀ p ∈ oldT, p = t ∨ p - t > tol ∨ t - p > tol) :
    fillLoop tol oldT C first last i ts = .ok (ts.map (codeAt oldT C)) := by
  induction ts generalizing i with
  | nil => simp [fillLoop]
  | cons t rest ih =>
    have hn : oldT.length - 1 < oldT.length := by omega
    have hlast' : oldT[oldT.length - 1] = last := by
      rw [List.getLast?_eq_getElem?, List.getElem?_eq_getElem hn] at hlast; exact Option.some.inj hlast
    have hfirst' : oldT[0] = first := by
      rw [List.head?_eq_getElem?, List.getElem?_eq_getElem (by omega)] at hfirst; exact Option.some.inj hfirst
    have hrest : rest.Pairwise (· < ·) := (List.pairwise_cons.mp hts).2
    have htr : ∀ t' ∈ rest, t < t' := (List.pairwise_cons.mp hts).1
    have hit : oldT[i] ≤ t := hge t (by simp)
    have h0i : first ≤ oldT[i] := hfirst' ▸ le_of_pairwise hp (by omega) hi (by omega)
    have hmax := mem_le_last hp hlast
    have hseprest : ∀ t ∈ rest, ∀ p ∈ oldT, p = t ∨ p - t > tol ∨ t - p > tol :=
      fun t' ht' => hsep t' (by simp [ht'])
    unfold fillLoop
    have c1 : ¬ (first - t > tol) := by grind
    rw [if_neg c1]
    by_cases c2 : t - last > tol
    · -- beyond the channel's end
      rw [if_pos c2]
      have hrec := ih i hrest hi (fun t' ht' => hge t' (by simp [ht']))
        (fun j hj hij => by
          have := hin j hj hij
          rcases List.mem_cons.mp this with h | h
          · exfalso; have := hmax _ (List.getElem_mem hj); grind
          · exact h)
        (fun h t' ht' => hstrict h t' (by simp [ht'])) hseprest
      rw [hrec]
      have hne : ¬ (oldT.getLast? = some t) := by
        rw [hlast]; intro h; cases h; grind
      have hz : stepAt oldT C t = 0 := stepAt_ge_all _ _ _ (fun p hp' => by have := hmax p hp'; grind)
      simp [codeAt, hne, hz]
    · rw [if_neg c2]
      have htl : t ≤ last := by
        have := hsep t (by simp) last (hlast' ▸ List.getElem_mem hn)
        grind
      have hi1 : i + 1 < oldT.length := by
        rcases Nat.lt_or_ge (i + 1) oldT.length with h | h
        · exact h
        · exfalso
          have := hstrict (by omega) t (by simp)
          grind
      rw [List.getElem?_eq_getElem hi1]
      simp only
      by_cases c3 : oldT[i + 1] ≤ t + tol
      · -- the running index advances: t is the next grid point of the channel
        rw [if_pos c3]
        have hle : oldT[i + 1] ≤ t := by
          have := hsep t (by simp) oldT[i + 1] (List.getElem_mem hi1)
          grind
        have heq : oldT[i + 1] = t := by
          rcases List.mem_cons.mp (hin (i + 1) hi1 (by omega)) with h | h
          · exact h
          · have := htr _ h; grind
        have hc : i + 1 < C.length := by omega
        rw [List.getElem?_eq_getElem hc]
        simp only
        have hrec := ih (i + 1) hrest hi1 (fun t' ht' => by have := htr t' ht'; grind)
          (fun j hj hij => by
            rcases List.mem_cons.mp (hin j hj (by omega)) with h | h
            · exfalso; have := lt_of_pairwise hp hi1 hj hij; grind
            · exact h)
          (fun h t' ht' => by
            have : oldT[i + 1] = last := by rw [← hlast']; congr 1; omega
            have := htr t' ht'; grind)
          hseprest
        rw [hrec]
        have hcode : codeAt oldT C t = C[i + 1] := by
          unfold codeAt
          by_cases hl : oldT.getLast? = some t
          · rw [if_pos hl]
            have : t = last := by rw [hlast] at hl; exact (Option.some.inj hl).symm
            have hidx : i + 1 = oldT.length - 1 := by
              rcases Nat.lt_or_ge (i + 1) (oldT.length - 1) with h | h
              · exfalso; have := lt_of_pairwise hp hi1 hn h; grind
              · omega
            rw [List.getLast?_eq_getElem?, List.getElem?_eq_getElem (by omega)]
            simp only [Option.getD_some]
            congr 1; omega
          · rw [if_neg hl]
            have hi2 : i + 2 < oldT.length := by
              rcases Nat.lt_or_ge (i + 2) oldT.length with h | h
              · exact h
              · exfalso; apply hl; rw [hlast, ← heq, ← hlast']; congr 2; omega
            exact stepAt_slot oldT C t hp (i + 1) hi2 hc (by grind)
              (by have := lt_of_pairwise hp hi1 hi2 (by omega); grind)
        simp [hcode]
      · -- same slot
        rw [if_neg c3]
        have hc : i < C.length := by omega
        rw [List.getElem?_eq_getElem hc]
        simp only
        have hlt : t < oldT[i + 1] := by grind
        have hrec := ih i hrest hi (fun t' ht' => hge t' (by simp [ht']))
          (fun j hj hij => by
            rcases List.mem_cons.mp (hin j hj hij) with h | h
            · exfalso; have := le_of_pairwise hp hi1 hj (by omega); grind
            · exact h)
          (fun h => by omega) hseprest
        rw [hrec]
        have hcode : codeAt oldT C t = C[i] := by
          unfold codeAt
          have hl : ¬ (oldT.getLast? = some t) := by
            rw [hlast]; intro h; cases h
            have := hmax _ (List.getElem_mem hi1); grind
          rw [if_neg hl]
          exact stepAt_slot oldT C t hp i hi1 hc hit hlt
        simp [hcode]

end QipVerif.Grid
