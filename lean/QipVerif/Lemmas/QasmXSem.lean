import QipVerif.Lemmas.QasmDenN
/-!
# Specification object for circuits with QASM-specific gates (C04, C10)

`denG` (Lemmas/Sem.lean) is the complex denotation of the circuit IR.  The IR has one angle per
gate and no user gates, so it cannot express `QASMU(θ,φ,λ)` nor the user gates the importer installs
(`u2`, `sdg`, `tdg`, `cu3`, `ch` of `_get_qiskit_gates`).  `denX` extends it conservatively: a gate
carries a list of real arguments; `compactX` is `compactC` for every library gate of the IR
(`semX_eq_semG`), the generated matrix `Gen.G.qasmu_gate_` for `QASMU`, and for the user gates the
bodies of `_get_qiskit_gates` (recognised literally by the translator, see `Gen.userGates`):
`u2(φ,λ) = qasmu_gate([π/2, φ, λ])`, `sdg = rz(−π/2)`, `tdg = rz(−π/4)`,
`cu3 = controlled_gate(qasmu_gate(args))`, `ch = controlled_gate(snot())`.
-/
namespace QipVerif.Qasm
open Matrix QipVerif

/-- a gate of a `QubitCircuit`: library name, qubits (controls first, then targets), real arguments -/
structure XGate where
  name : GName
  qubits : List Nat
  args : List ℝ

/-- user gates of `_get_qiskit_gates` -/
noncomputable def userGateX (s : String) (args : List ℝ) : Option (Σ m : ℕ, Matrix (St m) (St m) ℂ) :=
  if s = "u2" then
    match args with
    | [φ, l] => some ⟨1, mat1 (Gen.G.qasmu_gate_ (Real.pi / 2) φ l)⟩
    | _ => none
  else if s = "sdg" then some ⟨1, mat1 (Gen.G.rz_ (-1 * Real.pi / 2))⟩
  else if s = "tdg" then some ⟨1, mat1 (Gen.G.rz_ (-1 * Real.pi / 4))⟩
  else if s = "cu3" then
    match args with
    | [θ, φ, l] => some ⟨2, ctrl1 (Gen.G.qasmu_gate_ θ φ l)⟩
    | _ => none
  else if s = "ch" then some ⟨2, ctrl1 Gen.G.snot_⟩
  else none

/-- compact matrix of a gate with real arguments -/
noncomputable def compactX (n : GName) (args : List ℝ) : Option (Σ m : ℕ, Matrix (St m) (St m) ℂ) :=
  match n with
  | .QASMU =>
    match args with
    | [θ, φ, l] => some ⟨1, mat1 (Gen.G.qasmu_gate_ θ φ l)⟩
    | _ => none
  | .other s => userGateX s args
  | n => compactC n (args.headD 0)

/-- the placed operator of a gate on an `N`-qubit register -/
noncomputable def semX (N : ℕ) (g : XGate) : Option (PGate N) :=
  match compactX g.name g.args with
  | none => none
  | some ⟨m, U⟩ =>
    if h : g.qubits.length = m ∧ g.qubits.Nodup ∧ ∀ q ∈ g.qubits, q < N then
      some ⟨m, tgL N g.qubits m h.1 h.2.1 h.2.2, U⟩
    else none

/-- denotation of a gate list (first gate applied first) -/
noncomputable def denX (N : ℕ) (gs : List XGate) : Option (Matrix (St N) (St N) ℂ) :=
  (gs.mapM (semX N)).map denP

theorem semX_of (N : ℕ) (g : XGate) (m : ℕ) (U : Matrix (St m) (St m) ℂ)
    (hc : compactX g.name g.args = some ⟨m, U⟩)
    (hm : g.qubits.length = m) (hn : g.qubits.Nodup) (hr : ∀ q ∈ g.qubits, q < N) :
    semX N g = some ⟨m, tgL N g.qubits m hm hn hr, U⟩ := by
  unfold semX
  rw [hc]
  simp only []
  rw [dif_pos ⟨hm, hn, hr⟩]

/-- `semX` is `semG` on the gates of the circuit IR -/
theorem semX_eq_semG (N : ℕ) (ρ : ℕ → ℝ) (g : Gate) (h1 : g.name ≠ .QASMU) (h2 : ∀ s, g.name ≠ .other s) :
    (semX N ⟨g.name, g.qubits, [g.arg.eval ρ]⟩).map PGate.den = semD N ρ g := by
  have hc : compactX g.name [g.arg.eval ρ] = compactC g.name (g.arg.eval ρ) := by
    cases hn : g.name <;> simp_all [compactX]
  rw [semD_eq]
  unfold semX
  simp only [hc]
  cases compactC g.name (g.arg.eval ρ) with
  | none => rfl
  | some mU =>
    obtain ⟨m, U⟩ := mU
    simp only []
    split
    · rfl
    · rfl

theorem denX_nil (N : ℕ) : denX N [] = some 1 := by simp [denX, denP]

theorem denX_cons (N : ℕ) (g : XGate) (gs : List XGate) (G : PGate N) (R : Matrix (St N) (St N) ℂ)
    (hg : semX N g = some G) (hr : denX N gs = some R) : denX N (g :: gs) = some (R * G.den) := by
  simp only [denX, Option.map_eq_some_iff] at hr ⊢
  obtain ⟨l, hl, rfl⟩ := hr
  exact ⟨G :: l, by simp [List.mapM_cons, hg, hl], rfl⟩

/-- for circuits of IR gates `denX` is `denG` -/
theorem denX_eq_denG (N : ℕ) (ρ : ℕ → ℝ) (gs : List Gate)
    (h : ∀ g ∈ gs, g.name ≠ .QASMU ∧ ∀ s, g.name ≠ .other s) :
    denX N (gs.map fun g => ⟨g.name, g.qubits, [g.arg.eval ρ]⟩) = denG N ρ gs := by
  induction gs with
  | nil => simp [denX, denG]
  | cons g gs ih =>
    have hg := semX_eq_semG N ρ g (h g (by simp)).1 (h g (by simp)).2
    have ih' := ih (fun x hx => h x (by simp [hx]))
    simp only [denX, denG, semD, List.map_cons, List.mapM_cons] at hg ih' ⊢
    cases h1 : semX N ⟨g.name, g.qubits, [g.arg.eval ρ]⟩ with
    | none =>
      rw [h1] at hg
      cases h2 : semG N ρ g with
      | none => simp
      | some G => rw [h2] at hg; cases hg
    | some G =>
      rw [h1] at hg
      cases h2 : semG N ρ g with
      | none => rw [h2] at hg; cases hg
      | some G' =>
        rw [h2] at hg
        simp only [Option.map_some, Option.some.injEq] at hg
        cases h3 : (gs.map fun g => (⟨g.name, g.qubits, [g.arg.eval ρ]⟩ : XGate)).mapM (semX N) with
        | none =>
          rw [h3] at ih'
          cases h4 : gs.mapM (semG N ρ) with
          | none => simp
          | some l' => rw [h4] at ih'; cases ih'
        | some l =>
          rw [h3] at ih'
          cases h4 : gs.mapM (semG N ρ) with
          | none => rw [h4] at ih'; cases ih'
          | some l' =>
            rw [h4] at ih'
            simp only [Option.map_some, Option.some.injEq] at ih'
            simp [denP, hg, ih']

end QipVerif.Qasm
