import QipVerif.Lemmas.RenderBasic
/-! C20: every piece a `_draw_*` / `_update_*` method produces has three parts of one length. -/
namespace QipVerif.Render

/-- the three parts of a segment have length `n` -/
structure SegW (n : Nat) (g : Seg) : Prop where
  top : g.top.length = n
  mid : g.mid.length = n
  bot : g.bot.length = n

/-- the three parts of a segment have one length -/
def SegOk (g : Seg) : Prop := g.top.length = g.mid.length ∧ g.bot.length = g.mid.length

theorem SegW.ok {n : Nat} {g : Seg} (h : SegW n g) : SegOk g := ⟨by rw [h.top, h.mid], by rw [h.bot, h.mid]⟩

@[simp] theorem rep_length (k : Nat) (c : Char) : (rep k c).length = k := by simp [rep]

theorem setChar_length (s : Str) (i : Nat) (c : Char) (h : i < s.length) :
    (setChar s i c).length = s.length := by
  simp only [setChar, List.length_append, List.length_take, List.length_cons, List.length_drop]
  omega

theorem drawSingleq_w (p : Nat) (name : Str) : SegW (p * 2 + name.length + 4) (drawSingleq p name) := by
  constructor <;> simp [drawSingleq] <;> omega

theorem drawMeas_w (p N t0 store : Nat) : SegW (p * 2 + 5) (drawMeas p N t0 store) := by
  have h := drawSingleq_w p ['M']
  simp only [List.length_cons, List.length_nil] at h
  unfold drawMeas
  split
  · exact ⟨h.top, h.mid, by simp only []; rw [setChar_length _ _ _ (by rw [h.bot]; omega), h.bot]⟩
  · exact ⟨by simp only []; rw [setChar_length _ _ _ (by rw [h.bot, h.top]; omega), h.top], h.mid, h.bot⟩

/-- the five parts of a multi-qubit box have length `n` -/
structure BoxW (n : Nat) (b : Box) : Prop where
  top : b.top.length = n
  midFrame : b.midFrame.length = n
  midConnect : b.midConnect.length = n
  midLabel : b.midLabel.length = n
  bot : b.bot.length = n

theorem drawMultiq_w (v : Variant) (p : Nat) (text : Str) (ts : List Nat) (cs : Option (List Nat)) :
    BoxW (p * 2 + text.length + 4) (drawMultiq v p text ts cs) := by
  have e : ∀ (a b : Char) , ((' ' : Char) :: a :: (rep (p * 2 + text.length) '─' ++ [b, ' '])).length
      = p * 2 + text.length + 4 := by intro a b; simp
  unfold drawMultiq
  split
  · constructor
    · simp only []
      split
      · rw [setChar_length _ _ _ (by rw [e, e]; omega), e]
      · exact e ..
    · simp; omega
    · simp; omega
    · simp; omega
    · simp only []
      split
      · rw [setChar_length _ _ _ (by rw [e]; omega), e]
      · exact e ..
  · constructor <;> simp <;> omega

theorem updSingleq_w {n : Nat} {g : Seg} (hg : SegW n g) (wl : List Nat) :
    ∀ a ∈ updSingleq wl g, SegW n a.2 := by
  intro a ha
  obtain ⟨w, _, rfl⟩ := List.mem_map.mp ha
  exact hg

theorem updCbridge_w (N t0 store : Nat) (wl : List Nat) (width : Nat) :
    ∀ a ∈ updCbridge N t0 store wl width, SegW (width / 2 * 2 + 1) a.2 := by
  intro a ha
  obtain ⟨w, _, hw⟩ := List.mem_filterMap.mp ha
  split at hw
  · cases hw
  · split at hw
    · cases hw; constructor <;> simp <;> omega
    · cases hw
      constructor
      · simp; omega
      · simp only []; split <;> simp <;> omega
      · simp; omega

theorem targetSeg_w {n : Nat} {b : Box} (hb : BoxW n b) (hn : 2 ≤ n) (v : Variant) (ts cs : List Nat) (m i w : Nat) :
    SegW n (targetSeg v ts cs m b i w) := by
  unfold targetSeg
  split
  · exact ⟨hb.top, hb.midLabel, hb.bot⟩
  · split
    · exact ⟨hb.midFrame, hb.midLabel, hb.bot⟩
    · split
      · exact ⟨hb.top, hb.midConnect, hb.midFrame⟩
      · refine ⟨hb.midFrame, ?_, hb.midFrame⟩
        simp only []
        split
        · rw [setChar_length _ _ _ (by rw [hb.midFrame]; omega), hb.midFrame]
        · exact hb.midFrame

theorem updTargetMultiq_w {n : Nat} {b : Box} (hb : BoxW n b) (hn : 2 ≤ n) (v : Variant) (ts cs wl : List Nat) :
    ∀ a ∈ updTargetMultiq v ts cs wl b, SegW n a.2 := by
  intro a ha
  obtain ⟨x, _, rfl⟩ := List.mem_map.mp ha
  exact targetSeg_w hb hn v ts cs _ _ _

theorem updQbridge_w (v : Variant) (ts cs wl : List Nat) (width : Nat) (isTop : Bool) (hw : 2 ≤ width) :
    ∀ a ∈ updQbridge v ts cs wl width isTop, SegW (width / 2 * 2) a.2 := by
  intro a ha
  obtain ⟨w, _, h⟩ := List.mem_filterMap.mp ha
  have h1 : 1 ≤ width / 2 := by omega
  split at h
  · cases h
  · split at h
    · split at h
      · cases h
        constructor
        · simp only []; split <;> simp <;> omega
        · simp; omega
        · simp only []; split <;> simp <;> omega
      · cases h; constructor <;> simp <;> omega
    · cases h; constructor <;> simp <;> omega

theorem updSwap_w (p : Nat) (wl : List Nat) : ∀ a ∈ updSwap p wl, SegW (4 * p + 1) a.2 := by
  intro a ha
  obtain ⟨w, _, rfl⟩ := List.mem_map.mp ha
  split
  · constructor <;> simp <;> omega
  · split
    · constructor <;> simp <;> omega
    · constructor <;> simp <;> omega

theorem planGate_acts_segOk {v : Variant} {p : Nat} {name : Str} {argLabel : Option Str} {targets : List Nat}
    {controls : Option (List Nat)} {pl : Plan} (h : planGate v p name argLabel targets controls = .ok pl) :
    ∀ a ∈ pl.acts, SegOk a.2 := by
  intro a ha
  unfold planGate at h
  simp only [] at h
  split at h
  · cases h
    exact (updSingleq_w (drawSingleq_w p _) _ a ha).ok
  · split at h
    · split at h
      · cases h
      · cases h; exact (updSwap_w p _ a ha).ok
    · split at h
      · cases h
      · have hb := drawMultiq_w v p (gateText name argLabel) targets controls
        have hw : 2 ≤ (drawMultiq v p (gateText name argLabel) targets controls).top.length := by
          rw [hb.top]; omega
        have hn : 2 ≤ p * 2 + (gateText name argLabel).length + 4 := by omega
        split at h
        · cases h
          rcases List.mem_append.mp ha with ha | ha
          · rcases List.mem_append.mp ha with ha | ha
            · exact (updTargetMultiq_w hb hn _ _ _ _ a ha).ok
            · split at ha
              · exact (updQbridge_w _ _ _ _ _ _ hw a ha).ok
              · cases ha
          · split at ha
            · exact (updQbridge_w _ _ _ _ _ _ hw a ha).ok
            · cases ha
        · cases h
          exact (updTargetMultiq_w hb hn _ _ _ _ a ha).ok

/-- Every append of every iteration of `layout` adds pieces of one length to the three rows
of its wire — for every circuit element, valid or not, and every variant of the tree. -/
theorem plan_acts_segOk {v : Variant} {p N C : Nat} {op : Op} {pl : Plan} (h : plan v p N C op = .ok pl) :
    ∀ a ∈ pl.acts, SegOk a.2 := by
  cases op with
  | meas targets store =>
    intro a ha
    simp only [plan] at h
    split at h
    · cases h
    · rename_i t0 rest
      cases h
      rcases List.mem_append.mp ha with ha | ha
      · exact (updSingleq_w (drawMeas_w p N t0 _) _ a ha).ok
      · exact (updCbridge_w _ _ _ _ _ a ha).ok
  | gate name argLabel targets controls => exact planGate_acts_segOk h
  | glob name argLabel =>
    simp only [plan] at h
    split at h
    · exact planGate_acts_segOk h
    · cases h
  | measNS targets =>
    intro a ha
    simp only [plan] at h
    split at h
    · split at h
      · cases h
      · cases h
        exact (updSingleq_w (drawSingleq_w p ['M']) _ a ha).ok
    · split at h <;> cases h

end QipVerif.Render
