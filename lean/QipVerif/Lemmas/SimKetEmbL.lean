import QipVerif.Lemmas.SimKetDm
import QipVerif.Lemmas.EmbedPerm
/-!
# C01 — a lazy model matrix placed on a list of qubits, as a complex operator (`embL`), and its laws

`embL N l A` is C08's specification read off directly for a list `l` of qubits and a model matrix `A`
(no dependent types: the sub-state index is computed from the list).  For duplicate-free in-range
lists it is `Tg.embed` of `matOf` (`embL_eq_embed`); the laws used by the compact-product proof are
multiplicativity, `expand_operator` followed by placement = placement along the composed list,
Kronecker product = product of placements on disjoint lists, and commutation on disjoint lists.
-/
namespace QipVerif.SimKet
open Matrix QipVerif.Embed

/-- flat index of the sub-state of `x` on the qubits `l` (first listed qubit most significant) -/
def encL {N : ℕ} (l : List ℕ) (x : St N) : ℕ :=
  undigits (List.replicate l.length 2) (l.map fun q => (bitsL x).getD q 0)

/-- the operator of a model matrix `A` placed on the qubits `l` of an `N`-qubit register -/
noncomputable def embL (N : ℕ) (l : List ℕ) (A : FMat ℂ) : Matrix (St N) (St N) ℂ :=
  fun x y => A.get (encL l x) (encL l y) * (if ∀ i : Fin N, i.val ∉ l → x i = y i then 1 else 0)

theorem mem_range_tg {N k : ℕ} (t : Tg k N) (l : List ℕ) (hl : l.length = k)
    (hf : ∀ j : Fin k, (t.f j).val = l.getD j.val 0) (i : Fin N) : i ∈ Set.range t.f ↔ i.val ∈ l := by
  subst hl
  constructor
  · rintro ⟨j, rfl⟩
    rw [hf j, List.getD_eq_getElem?_getD, List.getElem?_eq_getElem j.isLt, Option.getD_some]
    exact List.getElem_mem _
  · intro h
    obtain ⟨j, hj, hje⟩ := List.getElem_of_mem h
    refine ⟨⟨j, hj⟩, Fin.ext ?_⟩
    rw [hf, List.getD_eq_getElem?_getD, List.getElem?_eq_getElem hj, Option.getD_some, hje]

/-- **general bridge**: a placement whose `j`-th qubit is `l[j]` embeds `matOf` as `embL … l` -/
theorem embed_eq_embL {N k : ℕ} (t : Tg k N) (l : List ℕ) (hl : l.length = k)
    (hf : ∀ j : Fin k, (t.f j).val = l.getD j.val 0) (A : FMat ℂ) :
    t.embed (matOf k A) = embL N l A := by
  ext x y
  rw [Tg.embed_apply]
  have hbits : ∀ z : St N, bitsL (z ∘ t.f) = l.map (fun q => (bitsL z).getD q 0) := by
    intro z
    subst hl
    apply List.ext_getElem
    · simp
    · intro j h1 h2
      have hj : j < l.length := by simpa using h1
      simp only [bitsL, List.getElem_ofFn, Function.comp, List.getElem_map]
      have e := hf ⟨j, hj⟩
      rw [List.getD_eq_getElem?_getD, List.getElem?_eq_getElem hj, Option.getD_some] at e
      have hlt : l[j] < N := e ▸ (t.f ⟨j, hj⟩).isLt
      rw [List.getD_eq_getElem?_getD, List.getElem?_eq_getElem (by simpa using hlt), Option.getD_some]
      simp only [List.getElem_ofFn]
      congr 2
      exact Fin.ext e
  have henc : ∀ z : St N, enc (z ∘ t.f) = encL l z := by
    intro z
    simp only [enc, encL, hbits z, hl]
  have hcond : (∀ i, i ∉ Set.range t.f → x i = y i) ↔ (∀ i : Fin N, i.val ∉ l → x i = y i) := by
    constructor
    · intro h i hi; exact h i (fun hm => hi ((mem_range_tg t l hl hf i).mp hm))
    · intro h i hi; exact h i (fun hm => hi ((mem_range_tg t l hl hf i).mpr hm))
  simp only [embL, matOf, henc]
  by_cases hc : ∀ i, i ∉ Set.range t.f → x i = y i
  · rw [if_pos hc, if_pos (hcond.mp hc)]
  · rw [if_neg hc, if_neg (fun h => hc (hcond.mpr h))]

theorem tgOfList_f {N : ℕ} (l : List ℕ) (hn : l.Nodup) (hr : ∀ q ∈ l, q < N) (j : Fin l.length) :
    ((tgOfList N l hn hr).f j).val = l.getD j.val 0 := by
  simp [tgOfList, List.getD_eq_getElem?_getD]

/-- for a duplicate-free in-range list, `embL` is the embedding of C08 -/
theorem embL_eq_embed (N : ℕ) (l : List ℕ) (hn : l.Nodup) (hr : ∀ q ∈ l, q < N) (A : FMat ℂ) :
    embL N l A = (tgOfList N l hn hr).embed (matOf l.length A) :=
  (embed_eq_embL (tgOfList N l hn hr) l rfl (tgOfList_f l hn hr) A).symm

theorem embL_mulF (N : ℕ) (l : List ℕ) (hn : l.Nodup) (hr : ∀ q ∈ l, q < N) (A B : FMat ℂ)
    (hA : A.n = 2 ^ l.length) (hB : B.n = 2 ^ l.length) :
    embL N l (FMat.mulF opsC A B) = embL N l A * embL N l B := by
  rw [embL_eq_embed N l hn hr, embL_eq_embed N l hn hr, embL_eq_embed N l hn hr, matOf_mulF _ _ _ hA hB,
    Tg.embed_mul]

theorem embL_comm (N : ℕ) (la lb : List ℕ) (hna : la.Nodup) (hra : ∀ q ∈ la, q < N) (hnb : lb.Nodup)
    (hrb : ∀ q ∈ lb, q < N) (hd : ∀ q ∈ la, q ∉ lb) (A B : FMat ℂ) :
    embL N la A * embL N lb B = embL N lb B * embL N la A := by
  rw [embL_eq_embed N la hna hra, embL_eq_embed N lb hnb hrb]
  apply Tg.embed_comm_of_disjoint
  rw [Set.disjoint_left]
  intro i h1 h2
  exact hd _ ((mem_range_tg _ la rfl (tgOfList_f la hna hra) i).mp h1)
    ((mem_range_tg _ lb rfl (tgOfList_f lb hnb hrb) i).mp h2)


/-- `expand_operator` on a register of `|r|` qubits followed by placement on the list `r`
= placement along the composed list (C08's `embed_comp`) -/
theorem embL_expandV (N : ℕ) (r : List ℕ) (hnr : r.Nodup) (hrr : ∀ q ∈ r, q < N)
    (tl : List ℕ) (hnt : tl.Nodup) (hrt : ∀ p ∈ tl, p < r.length) (m : ℕ) (hm : m = tl.length) (U : FMat ℂ) :
    ∃ E, expandV opsC r.length tl m U = .ok E ∧ E.n = 2 ^ r.length ∧
      embL N r E = embL N (tl.map fun p => r.getD p 0) U := by
  subst hm
  obtain ⟨E, hE, hEn, hEm⟩ := matOf_expandV r.length tl hnt hrt U
  refine ⟨E, hE, hEn, ?_⟩
  rw [embL_eq_embed N r hnr hrr, hEm, Tg.embed_comp]
  apply embed_eq_embL _ _ (by simp)
  intro j
  simp only [Tg.comp, Function.comp, tgOfList]
  rw [List.getD_eq_getElem?_getD, List.getElem?_map, List.getElem?_eq_getElem j.isLt]
  have hp : tl[j.val] < r.length := hrt _ (List.getElem_mem j.isLt)
  simp [List.getD_eq_getElem?_getD, List.getElem?_eq_getElem hp]

/-- `expand_operator` alone: the expanded matrix is the placement on the register itself -/
theorem matOf_expandV_embL (N : ℕ) (tl : List ℕ) (hnt : tl.Nodup) (hrt : ∀ p ∈ tl, p < N) (m : ℕ)
    (hm : m = tl.length) (U : FMat ℂ) :
    ∃ E, expandV opsC N tl m U = .ok E ∧ E.n = 2 ^ N ∧ matOf N E = embL N tl U := by
  subst hm
  obtain ⟨E, hE, hEn, hEm⟩ := matOf_expandV N tl hnt hrt U
  exact ⟨E, hE, hEn, by rw [hEm, embL_eq_embed N tl hnt hrt]⟩

theorem encL_lt {N : ℕ} (l : List ℕ) (x : St N) : encL l x < 2 ^ l.length := by
  have := (digits_undigits (List.replicate l.length 2) (l.map fun q => (bitsL x).getD q 0) (by simp)
    (by
      intro i h1 h2
      have hi : i < l.length := by simpa using h1
      simp only [List.getElem_map, List.getElem_replicate]
      rw [List.getD_eq_getElem?_getD]
      cases h : (bitsL x)[l[i]]? with
      | none => simp
      | some v =>
        have hm := List.mem_of_getElem? h
        simp only [bitsL, List.mem_ofFn] at hm
        obtain ⟨j, rfl⟩ := hm
        simpa using (x j).isLt)).1
  rwa [prodL_replicate] at this

theorem encL_append {N : ℕ} (la lb : List ℕ) (x : St N) :
    encL (la ++ lb) x = encL la x * 2 ^ lb.length + encL lb x := by
  unfold encL
  rw [List.length_append, ← List.replicate_append_replicate, List.map_append,
    undigits_append _ _ _ _ (by simp), prodL_replicate]

theorem enc_comp_eq_encL {N k : ℕ} (t : Tg k N) (l : List ℕ) (hl : l.length = k)
    (hf : ∀ j : Fin k, (t.f j).val = l.getD j.val 0) (z : St N) : enc (z ∘ t.f) = encL l z := by
  subst hl
  have hbits : bitsL (z ∘ t.f) = l.map (fun q => (bitsL z).getD q 0) := by
    apply List.ext_getElem
    · simp
    · intro j h1 h2
      have hj : j < l.length := by simpa using h1
      simp only [bitsL, List.getElem_ofFn, Function.comp, List.getElem_map]
      have e := hf ⟨j, hj⟩
      rw [List.getD_eq_getElem?_getD, List.getElem?_eq_getElem hj, Option.getD_some] at e
      have hlt : l[j] < N := e ▸ (t.f ⟨j, hj⟩).isLt
      rw [List.getD_eq_getElem?_getD, List.getElem?_eq_getElem (by simpa using hlt), Option.getD_some]
      simp only [List.getElem_ofFn]
      congr 2
      exact Fin.ext e
  simp only [enc, encL, hbits]

/-- **Kronecker product = product of the placements on disjoint lists** -/
theorem embL_kron (N : ℕ) (la lb : List ℕ) (hna : la.Nodup) (hra : ∀ q ∈ la, q < N) (hnb : lb.Nodup)
    (hrb : ∀ q ∈ lb, q < N) (hd : ∀ q ∈ la, q ∉ lb) (A B : FMat ℂ) (hB : B.n = 2 ^ lb.length) :
    embL N (la ++ lb) (FMat.kron opsC A B) = embL N la A * embL N lb B := by
  have hdis : Disjoint (Set.range (tgOfList N la hna hra).f) (Set.range (tgOfList N lb hnb hrb).f) := by
    rw [Set.disjoint_left]
    intro i h1 h2
    exact hd _ ((mem_range_tg _ la rfl (tgOfList_f la hna hra) i).mp h1)
      ((mem_range_tg _ lb rfl (tgOfList_f lb hnb hrb) i).mp h2)
  rw [embL_eq_embed N la hna hra, embL_eq_embed N lb hnb hrb]
  ext x y
  rw [Tg.embed_mul_embed_apply _ _ hdis]
  simp only [matOf, enc_comp_eq_encL _ la rfl (tgOfList_f la hna hra), enc_comp_eq_encL _ lb rfl (tgOfList_f lb hnb hrb)]
  simp only [embL, FMat.kron, encL_append, hB]
  have hpos : 0 < 2 ^ lb.length := Nat.pos_of_ne_zero (by positivity)
  have dv : ∀ z : St N, (encL la z * 2 ^ lb.length + encL lb z) / 2 ^ lb.length = encL la z := by
    intro z
    rw [Nat.add_comm, Nat.add_mul_div_right _ _ hpos, Nat.div_eq_of_lt (encL_lt lb z), Nat.zero_add]
  have md : ∀ z : St N, (encL la z * 2 ^ lb.length + encL lb z) % 2 ^ lb.length = encL lb z := by
    intro z
    rw [Nat.add_comm, Nat.add_mul_mod_self_right, Nat.mod_eq_of_lt (encL_lt lb z)]
  simp only [dv, md]
  have hcond : (∀ i : Fin N, i.val ∉ la ++ lb → x i = y i) ↔
      (∀ i, i ∉ Set.range (tgOfList N la hna hra).f → i ∉ Set.range (tgOfList N lb hnb hrb).f → x i = y i) := by
    constructor
    · intro h i h1 h2
      apply h i
      rw [List.mem_append]
      rintro (hm | hm)
      · exact h1 ((mem_range_tg _ la rfl (tgOfList_f la hna hra) i).mpr hm)
      · exact h2 ((mem_range_tg _ lb rfl (tgOfList_f lb hnb hrb) i).mpr hm)
    · intro h i hi
      rw [List.mem_append, not_or] at hi
      exact h i (fun hm => hi.1 ((mem_range_tg _ la rfl (tgOfList_f la hna hra) i).mp hm))
        (fun hm => hi.2 ((mem_range_tg _ lb rfl (tgOfList_f lb hnb hrb) i).mp hm))
  by_cases hc : ∀ i : Fin N, i.val ∉ la ++ lb → x i = y i
  · rw [if_pos hc, if_pos (hcond.mp hc)]; rfl
  · rw [if_neg hc, if_neg (fun h => hc (hcond.mpr h))]; simp

theorem embL_nil_ident (N : ℕ) : embL N [] (FMat.ident opsC 1) = 1 := by
  ext x y
  simp only [embL, encL, FMat.ident, Matrix.one_apply]
  by_cases h : x = y
  · subst h; simp [undigits, opsC]
  · have : ¬ ∀ i : Fin N, i.val ∉ ([] : List ℕ) → x i = y i := by
      intro hc; exact h (funext fun i => hc i (by simp))
    have h2 : ¬ ∀ i : Fin N, x i = y i := fun hc => h (funext hc)
    simp [h, h2]

end QipVerif.SimKet
