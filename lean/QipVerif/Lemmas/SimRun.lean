import QipVerif.Lemmas.SimBranch
namespace QipVerif.Sim
open QipVerif.Heap
variable {Q P : Type}

/-- attribute values right after `initialize` -/
def fields0 [One P] (st : Q) (mr : Option (List Int)) : Fields Q P :=
  { st := some st, form := .qobj, prob := 1, opIndex := 0, mres := mr, mind := 0, mixed := [] }

/-- the bits a run starts from, given the VALUE of the caller's `cbits` argument -/
def initBits (c : Circuit) (arg : Option (List Int)) : Option (List Int) :=
  match arg with
  | some l => if truthy l && l.length == c.ncb then some l
              else if c.ncb > 0 then some (List.replicate c.ncb 0) else none
  | none => if c.ncb > 0 then some (List.replicate c.ncb 0) else none

/-- the caller's argument refers to an existing list -/
def CbOk (w : World Q P) (cb : Option Ref) : Prop := ∀ r : Nat, cb = some r → r < w.heap.size

/-- `initialize` creates its own list: the repaired code, or no list passed -/
def Fresh (cfg : Cfg) (cb : Option Ref) : Prop := cfg.copyCbits = true ∨ cb = none

theorem initRun_fresh [One P] (cfg : Cfg) (c : Circuit) (w : World Q P) (st : Q) (cb : Option Ref)
    (mr : Option (List Int)) (hf : Fresh cfg cb) :
    initRun cfg c w st cb mr =
      { w with heap := (match initBits c (cb.map w.heap.get) with
                        | some l => (w.heap.alloc l).1
                        | none => w.heap),
               sim := some { cbits := (initBits c (cb.map w.heap.get)).map (fun _ => w.heap.size),
                             f := fields0 st mr } } := by
  unfold initRun initBits fields0
  cases cb with
  | none =>
    by_cases h : c.ncb > 0 <;> simp [h, Heap.alloc_ref]
  | some r =>
    have hc : cfg.copyCbits = true := by
      rcases hf with h | h
      · exact h
      · cases h
    by_cases h1 : (truthy (w.heap.get r) && (w.heap.get r).length == c.ncb) = true
    · simp [h1, hc, Heap.alloc_ref]
    · by_cases h : c.ncb > 0 <;> simp [h1, h, Heap.alloc_ref]

theorem Heap.put_get_self (h : Heap) (r : Ref) (hr : r < h.size) : h.put r (h.get r) = h := by
  cases h with | mk cells =>
  simp only [Heap.put, Heap.get, Heap.size] at *
  congr 1
  apply List.ext_getElem (by simp)
  intro i h1 h2
  by_cases hi : i = r
  · subst hi; simp [List.getD_eq_getElem?_getD, hr]
  · rw [List.getElem_set_ne (Ne.symm hi)]

theorem applyOut_zero (w : World Q P) (s : SimState Q P) (hs : w.sim = some s) (hok : RefOk w.heap s.cbits) :
    applyOut w s.cbits ⟨toCore w.heap s, w.rng, none, []⟩ = w := by
  unfold applyOut toCore writeBack
  cases w with | mk heap sim rng log comp proc =>
  simp only at hs hok ⊢
  subst hs
  cases s with | mk cbits f =>
  cases cbits with
  | none => simp
  | some r => simp [Heap.put_get_self heap r (hok r rfl)]

/-- `runLoop` is the lifted `coreRunLoop` (also for an empty circuit) -/
theorem runLoop_eq_lift' [Mul P] (B : Backend Q P) (cfg : Cfg) (mode : Mode) (c : Circuit) (n : Nat)
    (w : World Q P) (s : SimState Q P) (hs : w.sim = some s) (hok : RefOk w.heap s.cbits) :
    runLoop B cfg mode c n w =
      (applyOut w s.cbits (coreRunLoop B cfg mode c n (toCore w.heap s) w.rng),
       (coreRunLoop B cfg mode c n (toCore w.heap s) w.rng).err) := by
  rw [runLoop_eq_lift B cfg mode c n w s hs hok]
  by_cases hn : n = 0
  · subst hn
    simp only [↓reduceIte, coreRunLoop]
    rw [applyOut_zero w s hs hok]
  · simp [hn]

/-- the pure run: the loop, then the `state` property read by `CircuitResult(self.state, …)` -/
structure RunOut (Q P : Type) where
  bits : Option (List Int)
  f : Fields Q P
  rng : List Int
  evs : List Ev
  res : Except Err (Option Q × P)

def coreRun [One P] [Mul P] (B : Backend Q P) (cfg : Cfg) (mode : Mode) (c : Circuit)
    (bits0 : Option (List Int)) (st : Q) (mr : Option (List Int)) (rng : List Int) : RunOut Q P :=
  let o := coreRunLoop B cfg mode c c.ops.length ⟨bits0, fields0 st mr⟩ rng
  match o.err with
  | some e => ⟨o.core.bits, o.core.f, o.rng, o.evs, .error e⟩
  | none =>
    match getter cfg o.core.f with
    | (f, some e) => ⟨o.core.bits, f, o.rng, o.evs, .error e⟩
    | (f, none) => ⟨o.core.bits, f, o.rng, o.evs, .ok (f.st, f.prob)⟩

theorem coreRun_bits_isSome [One P] [Mul P] (B : Backend Q P) (cfg : Cfg) (mode : Mode) (c : Circuit)
    (bits0 : Option (List Int)) (st : Q) (mr : Option (List Int)) (rng : List Int) :
    (coreRun B cfg mode c bits0 st mr rng).bits.isSome = bits0.isSome := by
  unfold coreRun
  simp only
  split
  · exact coreRunLoop_bits_isSome ..
  · split <;> exact coreRunLoop_bits_isSome ..

/-- the result object built from a pure run, given the reference of the run's own list -/
def mkResult (ro : RunOut Q P) (ref : Option Ref) : Except Err (Result Q P) :=
  match ro.res with
  | .error e => .error e
  | .ok (q, p) =>
    .ok { states := [q], probs := [p],
          cbits := if (match ro.bits with | some l => truthy l | none => false) then some [ref] else none }

theorem Heap.alloc_put_cells (h : Heap) (l l' : List Int) : ((h.alloc l).1.put h.size l').cells = h.cells ++ [l'] := by
  simp [Heap.alloc, Heap.put, Heap.size]

/-- **`run` on a list of its own** (repaired `initialize`, or no list passed): one new cell holding the
final bits is appended to the heap, nothing else in the heap changes, and everything returned is a
function of the argument VALUES only. -/
theorem run_fresh [One P] [Mul P] (B : Backend Q P) (cfg : Cfg) (mode : Mode) (c : Circuit) (w : World Q P)
    (st : Q) (cb : Option Ref) (mr : Option (List Int)) (hf : Fresh cfg cb) :
    run B cfg mode c w st cb mr =
      (let ro := coreRun B cfg mode c (initBits c (cb.map w.heap.get)) st mr w.rng
       let ref := ro.bits.map (fun _ => w.heap.size)
       ({ w with heap := ⟨w.heap.cells ++ ro.bits.toList⟩, sim := some { cbits := ref, f := ro.f },
                 rng := ro.rng, log := w.log ++ ro.evs },
        mkResult ro ref)) := by
  unfold run
  rw [initRun_fresh cfg c w st cb mr hf]
  generalize hb0 : initBits c (cb.map w.heap.get) = bits0
  cases bits0 with
  | none =>
    simp only [Option.map_none]
    rw [runLoop_eq_lift' B cfg mode c c.ops.length _ { cbits := none, f := fields0 st mr } rfl
      (by intro r hr; cases hr)]
    have hiso := coreRun_bits_isSome B cfg mode c none st mr w.rng
    have hiso' := coreRunLoop_bits_isSome B cfg mode c c.ops.length ⟨none, fields0 st mr⟩ w.rng
    unfold coreRun at hiso ⊢
    unfold mkResult
    simp only [toCore, Option.map_none] at *
    generalize coreRunLoop B cfg mode c c.ops.length ⟨none, fields0 st mr⟩ w.rng = o at *
    have hbn : o.core.bits = none := by
      cases h : o.core.bits with
      | none => rfl
      | some l => simp [h] at hiso'
    cases herr : o.err with
    | some e => simp [applyOut, writeBack, hbn]
    | none =>
      simp only [applyOut, writeBack]
      cases hg : getter cfg o.core.f with
      | mk f e =>
        cases e with
        | some e => simp [hbn]
        | none => simp [hbn, cbitsTruthy]
  | some l0 =>
    simp only [Option.map_some]
    rw [runLoop_eq_lift' B cfg mode c c.ops.length _ { cbits := some w.heap.size, f := fields0 st mr } rfl
      (by intro r hr; cases hr; simp [Heap.size_alloc])]
    have hiso' := coreRunLoop_bits_isSome B cfg mode c c.ops.length ⟨some l0, fields0 st mr⟩ w.rng
    unfold coreRun mkResult
    simp only [toCore, Option.map_some, Heap.get_alloc_new] at *
    generalize coreRunLoop B cfg mode c c.ops.length ⟨some l0, fields0 st mr⟩ w.rng = o at *
    obtain ⟨l1, hl1⟩ : ∃ l1, o.core.bits = some l1 := by
      cases h : o.core.bits with
      | none => simp [h] at hiso'
      | some l => exact ⟨l, rfl⟩
    have hheap : (writeBack (w.heap.alloc l0).1 (some w.heap.size) (some l1)) = ⟨w.heap.cells ++ [l1]⟩ := by
      simp only [writeBack]
      have := Heap.alloc_put_cells w.heap l0 l1
      cases hp : (w.heap.alloc l0).1.put w.heap.size l1 with | mk cells => rw [hp] at this; simp_all
    have hget : (⟨w.heap.cells ++ [l1]⟩ : Heap).get w.heap.size = l1 := by
      simp [Heap.get, Heap.size, List.getD_eq_getElem?_getD]
    cases herr : o.err with
    | some e => simp [applyOut, hl1, hheap]
    | none =>
      simp only [applyOut, hl1, hheap]
      cases hg : getter cfg o.core.f with
      | mk f e =>
        cases e with
        | some e => simp [hl1]
        | none => simp [hl1, cbitsTruthy, hget]

end QipVerif.Sim
