import Mathlib.Analysis.SpecialFunctions.Trigonometric.Basic
import Mathlib.LinearAlgebra.Matrix.Notation
import QipVerif.Model.QasmExport
/-!
# ℂ-denotation of expanded OpenQASM programs and the documented library matrices (C04, C10)

`Model/QasmSpec.lean` expands a program to the built-ins `U(θ,φ,λ)` and `CX` with symbolic
parameter expressions.  Here the expressions are evaluated in ℝ and the built-ins become
matrices: `U(θ,φ,λ) := Rz(φ)·Ry(θ)·Rz(λ)` and `CX` (OpenQASM 2.0 paper, eq. (2)).
Registers of one, two and three qubits are index types `Fin 2`, `Fin 2 × Fin 2`,
`Fin 2 × Fin 2 × Fin 2`, the first qubit being the first component.

The second half restates the *documented* matrices of the qutip-qip gates the importer's
shortcuts and the exporter's definitions stand for (docstrings of `operations/gates.py`;
C09 ties them to the code).
-/
namespace QipVerif.Qasm
open Matrix Complex

/-! ## values of literals and expressions -/

/-- value of an exponent part `e±ddd` (`[]` = 1) -/
noncomputable def expVal : Str → ℝ
  | _ :: '-' :: ds => (10 : ℝ)⁻¹ ^ digitsVal ds
  | _ :: '+' :: ds => (10 : ℝ) ^ digitsVal ds
  | _ :: ds => (10 : ℝ) ^ digitsVal ds
  | [] => 1

/-- value of an `nninteger` / `real` literal -/
noncomputable def litVal (s : Str) : ℝ :=
  let (ip, r) := spanDigits s
  match r with
  | '.' :: r' =>
    let (fp, e) := spanDigits r'
    ((digitsVal ip : ℝ) + (digitsVal fp : ℝ) / 10 ^ fp.length) * expVal e
  | e => (digitsVal ip : ℝ) * expVal e

/-- real value of a parameter expression under an assignment of the formal parameters;
`^` and the functions are outside the supported subset (`flatten` refuses them) and get 0 -/
noncomputable def Expr.eval (env : Str → ℝ) : Expr → ℝ
  | .pi => Real.pi
  | .lit s => litVal s
  | .id s => env s
  | .neg e => - e.eval env
  | .add a b => a.eval env + b.eval env
  | .sub a b => a.eval env - b.eval env
  | .mul a b => a.eval env * b.eval env
  | .div a b => a.eval env / b.eval env
  | .pow _ _ => 0
  | .fn _ _ => 0

/-! ## the built-ins -/

abbrev M1 := Matrix (Fin 2) (Fin 2) ℂ
abbrev Q2 := Fin 2 × Fin 2
abbrev M2 := Matrix Q2 Q2 ℂ
abbrev Q3 := Fin 2 × Fin 2 × Fin 2
abbrev M3 := Matrix Q3 Q3 ℂ

noncomputable def Rz (a : ℝ) : M1 := !![exp (-(I * a / 2)), 0; 0, exp (I * a / 2)]
noncomputable def Ry (a : ℝ) : M1 := !![(Real.cos (a / 2) : ℂ), -(Real.sin (a / 2) : ℂ); (Real.sin (a / 2) : ℂ), (Real.cos (a / 2) : ℂ)]
/-- `U(θ,φ,λ) := Rz(φ) Ry(θ) Rz(λ)` -/
noncomputable def Umat (θ φ l : ℝ) : M1 := Rz φ * Ry θ * Rz l

/-- a one-qubit operator on the first / second qubit of two -/
def on0 (U : M1) : M2 := Matrix.of fun x y => if x.2 = y.2 then U x.1 y.1 else 0
def on1 (U : M1) : M2 := Matrix.of fun x y => if x.1 = y.1 then U x.2 y.2 else 0
/-- controlled-`U`: control = first qubit -/
def ctrl (U : M1) : M2 := Matrix.of fun x y =>
  if x.1 = 0 then (if x = y then 1 else 0) else if y.1 = 1 then U x.2 y.2 else 0
/-- controlled-`U`: control = second qubit -/
def ctrlRev (U : M1) : M2 := Matrix.of fun x y =>
  if x.2 = 0 then (if x = y then 1 else 0) else if y.2 = 1 then U x.1 y.1 else 0

def Xm : M1 := !![0, 1; 1, 0]

/-- a one-qubit operator on qubit `q` of three -/
def on3 (q : Nat) (U : M1) : M3 := Matrix.of fun x y =>
  match q with
  | 0 => if x.2 = y.2 then U x.1 y.1 else 0
  | 1 => if x.1 = y.1 ∧ x.2.2 = y.2.2 then U x.2.1 y.2.1 else 0
  | _ => if x.1 = y.1 ∧ x.2.1 = y.2.1 then U x.2.2 y.2.2 else 0

/-- bit `q` of a three-qubit basis state -/
def bit3 (x : Q3) (q : Nat) : Fin 2 := match q with | 0 => x.1 | 1 => x.2.1 | _ => x.2.2
/-- `CX a b` on three qubits as a permutation matrix -/
def cx3 (a b : Nat) : M3 := Matrix.of fun x y =>
  if (b = 0 ∨ x.1 = y.1) ∧ (b = 1 ∨ x.2.1 = y.2.1) ∧ (b = 2 ∨ x.2.2 = y.2.2) ∧
      bit3 x b = bit3 y b + bit3 y a then 1 else 0

/-- matrices of the built-ins on one / two / three qubits -/
noncomputable def Prim.mat1 (env : Str → ℝ) : Prim → M1
  | .U a b c _ => Umat (a.eval env) (b.eval env) (c.eval env)
  | .CX _ _ => 1
noncomputable def Prim.mat2 (env : Str → ℝ) : Prim → M2
  | .U a b c 0 => on0 (Umat (a.eval env) (b.eval env) (c.eval env))
  | .U a b c _ => on1 (Umat (a.eval env) (b.eval env) (c.eval env))
  | .CX 0 _ => ctrl Xm
  | .CX _ _ => ctrlRev Xm
noncomputable def Prim.mat3 (env : Str → ℝ) : Prim → M3
  | .U a b c q => on3 q (Umat (a.eval env) (b.eval env) (c.eval env))
  | .CX a b => cx3 a b

/-- a list of built-ins in program order: later operations multiply from the left -/
noncomputable def den1 (env : Str → ℝ) (ps : List Prim) : M1 := ps.foldl (fun M g => g.mat1 env * M) 1
noncomputable def den2 (env : Str → ℝ) (ps : List Prim) : M2 := ps.foldl (fun M g => g.mat2 env * M) 1
noncomputable def den3 (env : Str → ℝ) (ps : List Prim) : M3 := ps.foldl (fun M g => g.mat3 env * M) 1

/-- equality up to ONE global phase -/
def PhaseEq {n : Type} (A B : Matrix n n ℂ) : Prop := ∃ α : ℝ, A = exp (I * α) • B

/-! ## expansion of a definition with its formal parameters left symbolic -/

/-- the definition `name` of `gates` expanded to built-ins on the local qubits `0,1,…`, the
formal parameters staying identifiers (evaluate with an environment) -/
def expandDef (gates : List GateDef) (name : Str) : Except SpecErr (List Prim) :=
  match gates.find? (fun d => d.name == name) with
  | some d => expandCall gates name (d.params.map Expr.id) (List.range d.qargs.length)
  | none => .error .undeclaredGate

/-- the gate definition the exporter emits for the library gate `gname` (parsed from the
generated table `Gen.qasmDefns` by the strict recogniser) -/
def exportDef (gname : Str) : Option GateDef :=
  match Export.lookup Gen.qasmDefns gname with
  | some s => match parseLine s with
    | some (some (.gate d)) => some d
    | _ => none
  | none => none

/-- environment `name ↦ value` -/
def envOf (l : List (Str × ℝ)) : Str → ℝ := fun s =>
  match l.find? (fun e => e.1 == s) with
  | some e => e.2
  | none => 0

/-! ## documented matrices of the library gates -/

noncomputable def RXm (θ : ℝ) : M1 :=
  !![(Real.cos (θ / 2) : ℂ), -I * Real.sin (θ / 2); -I * Real.sin (θ / 2), (Real.cos (θ / 2) : ℂ)]
noncomputable def RYm (θ : ℝ) : M1 := Ry θ
noncomputable def RZm (θ : ℝ) : M1 := Rz θ
def Ym : M1 := !![0, -I; I, 0]
def Zm : M1 := !![1, 0; 0, -1]
noncomputable def Hm : M1 := !![(1 / Real.sqrt 2 : ℂ), (1 / Real.sqrt 2 : ℂ); (1 / Real.sqrt 2 : ℂ), -(1 / Real.sqrt 2 : ℂ)]
def Sm : M1 := !![1, 0; 0, I]
noncomputable def Tm : M1 := !![1, 0; 0, exp (I * Real.pi / 4)]
/-- `sqrtnot()` of qutip-qip: `[[.5+.5i, .5-.5i], [.5-.5i, .5+.5i]]` -/
noncomputable def SQRTNOTm : M1 := !![(1 + I) / 2, (1 - I) / 2; (1 - I) / 2, (1 + I) / 2]
/-- `QASMU(θ,φ,λ) = RZ(φ) RY(θ) RZ(λ)` -/
noncomputable def QASMUm (θ φ l : ℝ) : M1 := RZm φ * RYm θ * RZm l
/-- `cphase(θ) = diag(1,1,1,e^{iθ})` -/
noncomputable def CPHASEm (θ : ℝ) : M2 := ctrl !![1, 0; 0, exp (I * θ)]
def SWAPm : M2 := Matrix.of fun x y => if x.1 = y.2 ∧ x.2 = y.1 then 1 else 0
/-- Toffoli: controls = first two qubits -/
def TOFFOLIm : M3 := Matrix.of fun x y =>
  if x.1 = y.1 ∧ x.2.1 = y.2.1 ∧ x.2.2 = y.2.2 + y.1 * y.2.1 then 1 else 0

end QipVerif.Qasm
