import QipVerif.Model.Render
/-! Helper lemmas for C20 (text renderer): list folds of per-wire updates, `max`/`min`
of lists, lengths of the glyph segments.  Core Lean only. -/
namespace QipVerif.Render

/-! ## max / min / sum -/

theorem foldl_max_ge (l : List Nat) (a : Nat) : a ≤ l.foldl max a ∧ ∀ x ∈ l, x ≤ l.foldl max a := by
  induction l generalizing a with
  | nil => simp
  | cons b l ih =>
    simp only [List.foldl_cons, List.mem_cons, forall_eq_or_imp]
    have h := ih (max a b)
    exact ⟨by omega, by omega, h.2⟩

theorem le_lmax {l : List Nat} {x : Nat} (h : x ∈ l) : x ≤ lmax l := by
  cases l with
  | nil => cases h
  | cons a l =>
    have := foldl_max_ge l a
    rcases List.mem_cons.mp h with rfl | h
    · exact this.1
    · exact this.2 x h

theorem foldl_min_le (l : List Nat) (a : Nat) : l.foldl min a ≤ a ∧ ∀ x ∈ l, l.foldl min a ≤ x := by
  induction l generalizing a with
  | nil => simp
  | cons b l ih =>
    simp only [List.foldl_cons, List.mem_cons, forall_eq_or_imp]
    have h := ih (min a b)
    exact ⟨by omega, by omega, h.2⟩

theorem lmin_le {l : List Nat} {x : Nat} (h : x ∈ l) : lmin l ≤ x := by
  cases l with
  | nil => cases h
  | cons a l =>
    have := foldl_min_le l a
    rcases List.mem_cons.mp h with rfl | h
    · exact this.1
    · exact this.2 x h

theorem foldl_max_mem (l : List Nat) (a : Nat) : l.foldl max a = a ∨ l.foldl max a ∈ l := by
  induction l generalizing a with
  | nil => simp
  | cons b l ih =>
    simp only [List.foldl_cons, List.mem_cons]
    rcases ih (max a b) with h | h
    · rw [h]; rcases Nat.le_total a b with h' | h'
      · right; left; omega
      · left; omega
    · right; right; exact h

theorem lmax_mem {l : List Nat} (h : l ≠ []) : lmax l ∈ l := by
  cases l with
  | nil => exact absurd rfl h
  | cons a l =>
    rcases foldl_max_mem l a with h | h
    · simp [lmax, h]
    · exact List.mem_cons_of_mem _ h

theorem foldl_min_mem (l : List Nat) (a : Nat) : l.foldl min a = a ∨ l.foldl min a ∈ l := by
  induction l generalizing a with
  | nil => simp
  | cons b l ih =>
    simp only [List.foldl_cons, List.mem_cons]
    rcases ih (min a b) with h | h
    · rw [h]; rcases Nat.le_total a b with h' | h'
      · left; omega
      · right; left; omega
    · right; right; exact h

theorem lmin_mem {l : List Nat} (h : l ≠ []) : lmin l ∈ l := by
  cases l with
  | nil => exact absurd rfl h
  | cons a l =>
    rcases foldl_min_mem l a with h | h
    · simp [lmin, h]
    · exact List.mem_cons_of_mem _ h

theorem foldl_imax_ge (l : List Int) (a : Int) : a ≤ l.foldl max a ∧ ∀ x ∈ l, x ≤ l.foldl max a := by
  induction l generalizing a with
  | nil => simp
  | cons b l ih =>
    simp only [List.foldl_cons, List.mem_cons, forall_eq_or_imp]
    have h := ih (max a b)
    exact ⟨by omega, by omega, h.2⟩

theorem le_imax {l : List Int} {x : Int} (h : x ∈ l) : x ≤ imax l := by
  cases l with
  | nil => cases h
  | cons a l =>
    have := foldl_imax_ge l a
    rcases List.mem_cons.mp h with rfl | h
    · exact this.1
    · exact this.2 x h

theorem foldl_add_eq (l : List Int) (a : Int) : l.foldl (· + ·) a = a + l.foldl (· + ·) 0 := by
  induction l generalizing a with
  | nil => simp
  | cons b l ih => simp only [List.foldl_cons]; rw [ih (a + b), ih (0 + b)]; omega

theorem isum_append_single (l : List Int) (x : Int) : isum (l ++ [x]) = isum l + x := by
  simp [isum, List.foldl_append]

/-! ## Python ranges -/

theorem mem_pyRange {a b x : Nat} : x ∈ pyRange a b ↔ a ≤ x ∧ x < b := by
  simp only [pyRange, List.mem_range'_1]; omega

theorem nodup_pyRange (a b : Nat) : (pyRange a b).Nodup := List.nodup_range' ..

/-! ## Replaying per-wire updates -/

/-- all three `for wire in …: state[wire] = f(state[wire])` loops of the renderer -/
def modAll (l : List (Nat × (Wire → Wire))) (st : St) : St := l.foldl (fun s a => s.modify a.1 a.2) st

/-- what the updates in `l` do to wire `i` -/
def compAt (i : Nat) : List (Nat × (Wire → Wire)) → Wire → Wire
  | [], w => w
  | a :: l, w => compAt i l (if a.1 = i then a.2 w else w)

theorem modAll_length (l : List (Nat × (Wire → Wire))) (st : St) : (modAll l st).length = st.length := by
  induction l generalizing st with
  | nil => rfl
  | cons a l ih => simp only [modAll, List.foldl_cons] at ih ⊢; rw [ih]; simp

theorem modAll_getElem? (l : List (Nat × (Wire → Wire))) (st : St) (i : Nat) :
    (modAll l st)[i]? = (st[i]?).map (compAt i l) := by
  induction l generalizing st with
  | nil => simp [modAll, compAt]
  | cons a l ih =>
    simp only [modAll, List.foldl_cons] at ih ⊢
    rw [ih, List.getElem?_modify]
    cases st[i]? with
    | none => simp
    | some w => by_cases h : a.1 = i <;> simp [compAt, h]

theorem compAt_not_mem (i : Nat) (l : List (Nat × (Wire → Wire))) (h : i ∉ l.map (·.1)) (w : Wire) :
    compAt i l w = w := by
  induction l generalizing w with
  | nil => rfl
  | cons a l ih =>
    simp only [List.map_cons, List.mem_cons, not_or] at h
    simp only [compAt, if_neg (Ne.symm h.1)]
    exact ih h.2 w

theorem compAt_map_nodup (i : Nat) (wl : List Nat) (f : Nat → Wire → Wire) (hn : wl.Nodup) (w : Wire) :
    compAt i (wl.map fun x => (x, f x)) w = if i ∈ wl then f i w else w := by
  induction wl generalizing w with
  | nil => simp [compAt]
  | cons a wl ih =>
    have hn' := List.nodup_cons.mp hn
    simp only [List.map_cons, compAt]
    by_cases h : a = i
    · subst h
      rw [if_pos rfl, compAt_not_mem _ _ (by simpa [Function.comp_def] using hn'.1)]
      simp
    · rw [if_neg h, ih hn'.2]
      have : i ≠ a := Ne.symm h
      simp [this]

theorem compAt_pred (P : Wire → Prop) (i : Nat) (l : List (Nat × (Wire → Wire)))
    (h : ∀ a ∈ l, ∀ w, P w → P (a.2 w)) (w : Wire) (hw : P w) : P (compAt i l w) := by
  induction l generalizing w with
  | nil => exact hw
  | cons a l ih =>
    simp only [compAt]
    apply ih (fun b hb => h b (List.mem_cons_of_mem _ hb))
    by_cases h' : a.1 = i
    · rw [if_pos h']; exact h a (List.mem_cons_self ..) w hw
    · rw [if_neg h']; exact hw

theorem adjustPad_eq (N : Nat) (wl : List Nat) (x : Int) (st : St) :
    adjustPad N wl x st = modAll (wl.map fun w => (w, padWire (w < N) x)) st := by
  simp [adjustPad, modAll, List.foldl_map]

theorem manageLayers_eq (width : Nat) (wl : List Nat) (layer : Nat) (x : Int) (st : St) :
    manageLayers width wl layer x st = modAll (wl.map fun w => (w, manageWire width layer x)) st := by
  simp [manageLayers, modAll, List.foldl_map]

theorem applyActs_eq (acts : List (Nat × Seg)) (st : St) :
    applyActs acts st = modAll (acts.map fun a => (a.1, appendSeg a.2)) st := by
  simp [applyActs, modAll, List.foldl_map]

end QipVerif.Render
