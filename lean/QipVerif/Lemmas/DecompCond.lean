import QipVerif.Lemmas.DecompFields
/-!
# C03 — classically controlled gates: resolution commutes with execution (`keepCond = true`)

With `fixes/C03-2` every gate emitted for an input gate carries the classical condition of that
gate.  Hence, for every assignment `σ` of the classical bits, the gates of the resolved circuit
that the simulator executes are exactly the resolution of the gates of the input it executes:
`resolveF_executed`.  (A circuit handed to `resolve_gates` has no measurement, so `σ` does not
change during a run.)  For arbitrary tables.
-/
namespace QipVerif.Decomp
open QipVerif

theorem active_of_cond {σ : Nat → Bool} {x f : FGate} (h : x.cond = f.cond) :
    x.active σ = f.active σ := by
  simp only [FGate.active, h]

/-- a block of gates that all carry the condition of `f` is executed as a whole or not at all -/
theorem executed_block (σ : Nat → Bool) (f : FGate) (blk : List FGate) (h : ∀ x ∈ blk, x.cond = f.cond) :
    executed σ blk = if f.active σ then blk else [] := by
  unfold executed
  split
  · rename_i ha
    exact List.filter_eq_self.mpr (fun x hx => by rw [active_of_cond (h x hx)]; exact ha)
  · rename_i ha
    exact List.filter_eq_nil_iff.mpr (fun x hx => by rw [active_of_cond (h x hx)]; exact ha)

theorem executed_append (σ : Nat → Bool) (a b : List FGate) :
    executed σ (a ++ b) = executed σ a ++ executed σ b := List.filter_append ..

theorem executed_cons (σ : Nat → Bool) (f : FGate) (fs : List FGate) :
    executed σ (f :: fs) = (if f.active σ then [f] else []) ++ executed σ fs := by
  unfold executed
  by_cases h : f.active σ = true <;> simp [h]

theorem built_cond (f : FGate) (g : Gate) (l : Lab) : (built true f g l).cond = f.cond := rfl

theorem withLabs_cond (f : FGate) (labs : List TLab) (gs : List Gate) :
    ∀ x ∈ withLabs true f labs gs, x.cond = f.cond := by
  intro x hx
  simp only [withLabs, List.mem_map] at hx
  obtain ⟨p, _, rfl⟩ := hx
  rfl

theorem instBodyF_cond (f : FGate) (body : List TGate) (labs : List TLab) (out : List FGate)
    (h : instBodyF true f body labs = some out) : ∀ x ∈ out, x.cond = f.cond := by
  unfold instBodyF at h
  cases hi : instBody f.g body with
  | none => simp [hi] at h
  | some gs =>
    simp only [hi, Option.map_some, Option.some.injEq] at h
    subst h
    exact withLabs_cond f labs gs

theorem pauliSubF_cond (f : FGate) :
    (∀ x ∈ (pauliSubF true f).1, x.cond = f.cond) ∧ (pauliSubF true f).2.cond = f.cond := by
  unfold pauliSubF
  split
  · refine ⟨?_, rfl⟩
    intro x hx
    simp only [List.mem_map] at hx
    obtain ⟨m, _, rfl⟩ := hx
    rfl
  · exact ⟨fun x hx => by simp at hx, rfl⟩

theorem dispatchF_cond (T : Tables) (L : LabTables) (b2 : List GName) (inB : GName → Bool) (f : FGate)
    (out : List FGate) (h : dispatchF T L true b2 inB f = .ok out) : ∀ x ∈ out, x.cond = f.cond := by
  have self : ∀ x ∈ [f], x.cond = f.cond := by intro x hx; simp at hx; rw [hx]
  unfold dispatchF at h
  split at h
  · cases h; exact self
  · split at h
    · cases h; exact self
    · split at h
      · cases h; exact self
      · cases h
      · split at h
        · cases h; exact self
        · cases h
      · split at h
        · rename_i gs hi
          cases h
          exact instBodyF_cond f _ _ _ hi
        · cases h

theorem resolveOneF_cond (T : Tables) (L : LabTables) (b2 : List GName) (inB : GName → Bool) (f : FGate)
    (p r : List FGate) (h : resolveOneF T L true b2 inB f = .ok (p, r)) :
    (∀ x ∈ p, x.cond = f.cond) ∧ ∀ x ∈ r, x.cond = f.cond := by
  unfold resolveOneF at h
  split at h
  · rename_i out hd
    cases h
    refine ⟨(pauliSubF_cond f).1, ?_⟩
    intro x hx
    rw [dispatchF_cond T L b2 inB _ _ hd x hx, (pauliSubF_cond f).2]
  · cases h

theorem resolveAllF_executed (T : Tables) (L : LabTables) (b2 : List GName) (inB : GName → Bool)
    (σ : Nat → Bool) (fs : List FGate) : ∀ (P R : List FGate),
    resolveAllF T L true b2 inB fs = .ok (P, R) →
    resolveAllF T L true b2 inB (executed σ fs) = .ok (executed σ P, executed σ R) := by
  induction fs with
  | nil =>
    intro P R h
    simp only [resolveAllF, Except.ok.injEq, Prod.mk.injEq] at h
    obtain ⟨rfl, rfl⟩ := h
    rfl
  | cons f fs ih =>
    intro P R h
    unfold resolveAllF at h
    cases h1 : resolveOneF T L true b2 inB f with
    | error e => simp [h1] at h
    | ok pr =>
      obtain ⟨p, r⟩ := pr
      cases h2 : resolveAllF T L true b2 inB fs with
      | error e => simp [h1, h2] at h
      | ok prs =>
        obtain ⟨ps, rs⟩ := prs
        simp only [h1, h2, Except.ok.injEq, Prod.mk.injEq] at h
        obtain ⟨rfl, rfl⟩ := h
        obtain ⟨hp, hr⟩ := resolveOneF_cond T L b2 inB f p r h1
        have ih' := ih ps rs h2
        rw [executed_cons, executed_append, executed_append, executed_block σ f p hp, executed_block σ f r hr]
        by_cases ha : f.active σ = true
        · simp only [ha, if_true, List.singleton_append]
          unfold resolveAllF
          simp only [h1, ih']
        · have ha' : f.active σ = false := by simpa using ha
          simp only [ha', Bool.false_eq_true, if_false, List.nil_append]
          exact ih'

theorem basisPassF_executed (T : Tables) (L : LabTables) (y : GName) (σ : Nat → Bool) (fs : List FGate) :
    ∀ out : List FGate, basisPassF T L true y fs = .ok out →
      basisPassF T L true y (executed σ fs) = .ok (executed σ out) := by
  induction fs with
  | nil =>
    intro out h
    simp only [basisPassF, Except.ok.injEq] at h
    subst h
    rfl
  | cons f fs ih =>
    intro out h
    unfold basisPassF at h
    cases h1 : basisPassF T L true y fs with
    | error e => simp [h1] at h
    | ok rest =>
      have ih' := ih rest h1
      simp only [h1] at h
      rw [executed_cons]
      cases hb : T.basisRule y f.g.name with
      | none =>
        simp only [hb, Except.ok.injEq] at h
        subst h
        rw [executed_cons]
        by_cases ha : f.active σ = true
        · simp only [ha, if_true, List.singleton_append]
          unfold basisPassF
          simp only [ih', hb]
        · have ha' : f.active σ = false := by simpa using ha
          simp only [ha', Bool.false_eq_true, if_false, List.nil_append]
          exact ih'
      | some body =>
        simp only [hb] at h
        cases hi : instBodyF true f body (L.basisLab y f.g.name) with
        | none => simp [hi] at h
        | some o =>
          simp only [hi, Except.ok.injEq] at h
          subst h
          rw [executed_append, executed_block σ f o (instBodyF_cond f _ _ _ hi)]
          by_cases ha : f.active σ = true
          · simp only [ha, if_true, List.singleton_append]
            unfold basisPassF
            simp only [ih', hb, hi]
          · have ha' : f.active σ = false := by simpa using ha
            simp only [ha', Bool.false_eq_true, if_false, List.nil_append]
            exact ih'

theorem elim1qF_cond (b1 : List GName) (f : FGate) : ∀ x ∈ elim1qF true b1 f, x.cond = f.cond := by
  intro x hx
  unfold elim1qF at hx
  split at hx
  · simp only [List.mem_map] at hx
    obtain ⟨p, _, rfl⟩ := hx
    rfl
  · simp at hx; rw [hx]

theorem elimAllF_executed (b1 : List GName) (σ : Nat → Bool) (fs : List FGate) :
    (executed σ fs).flatMap (elim1qF true b1) = executed σ (fs.flatMap (elim1qF true b1)) := by
  induction fs with
  | nil => rfl
  | cons f fs ih =>
    rw [executed_cons, List.flatMap_append, List.flatMap_cons, executed_append, ih,
      executed_block σ f _ (elim1qF_cond b1 f)]
    by_cases ha : f.active σ = true <;> simp [ha]

/-- **Resolution commutes with execution.**  With the condition handed on (`keepCond`), for every
assignment of the classical bits the executed part of the resolved circuit is the resolution of the
executed part of the input (in particular it is accepted). -/
theorem resolveF_executed (T : Tables) (L : LabTables) (v : FVariant) (hk : v.keepCond = true)
    (b : BasisSpec) (σ : Nat → Bool) (fs out : List FGate) (h : resolveF T L v b fs = .ok out) :
    resolveF T L v b (executed σ fs) = .ok (executed σ out) := by
  unfold resolveF at h ⊢
  rw [hk] at h ⊢
  cases hs : splitBasis (normBasis v.exactStr b) with
  | error e => simp [hs] at h
  | ok r =>
    obtain ⟨b1, b2, inB⟩ := r
    simp only [hs] at h ⊢
    cases ha : resolveAllF T L true b2 inB fs with
    | error e => simp [ha] at h
    | ok pr =>
      obtain ⟨markers, temp⟩ := pr
      simp only [ha] at h
      simp only [resolveAllF_executed T L b2 inB σ fs markers temp ha]
      have fin : ∀ o : List FGate,
          (if b1.length = 2 then (executed σ o).flatMap (elim1qF true b1) else executed σ o)
            = executed σ (if b1.length = 2 then o.flatMap (elim1qF true b1) else o) := by
        intro o
        split
        · exact elimAllF_executed b1 σ o
        · rfl
      cases hf : List.find? b2.contains [GName.CSIGN, .ISWAP, .SQRTSWAP, .SQRTISWAP] with
      | none =>
        simp only [hf] at h ⊢
        cases h
        by_cases hm : v.keepMarkers = true
        · simp only [hm, if_true, ← executed_append, fin]
        · have hm' : v.keepMarkers = false := by simpa using hm
          simp only [hm', Bool.false_eq_true, if_false, fin]
      | some y =>
        simp only [hf] at h ⊢
        cases hb : basisPassF T L true y temp with
        | error e => simp [hb] at h
        | ok o =>
          simp only [hb] at h
          cases h
          simp only [basisPassF_executed T L y σ temp o hb, ← executed_append, fin]

end QipVerif.Decomp
