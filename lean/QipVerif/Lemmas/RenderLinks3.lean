import QipVerif.Lemmas.RenderLinks2
/-! C20: `links_reach` — the explicit plans of the three linked element kinds. -/
namespace QipVerif.Render

theorem nodup_lmin_lt_lmax {ts : List Nat} (hn : ts.Nodup) (h2 : 2 ≤ ts.length) : lmin ts < lmax ts := by
  match ts, hn, h2 with
  | a :: b :: rest, hn, _ =>
    have hab : a ≠ b := by
      intro h; subst h
      exact (List.nodup_cons.mp hn).1 (List.mem_cons_self ..)
    have h1 : lmin (a :: b :: rest) ≤ a := lmin_le (List.mem_cons_self ..)
    have h2 : lmin (a :: b :: rest) ≤ b := lmin_le (List.mem_cons_of_mem _ (List.mem_cons_self ..))
    have h3 : a ≤ lmax (a :: b :: rest) := le_lmax (List.mem_cons_self ..)
    have h4 : b ≤ lmax (a :: b :: rest) := le_lmax (List.mem_cons_of_mem _ (List.mem_cons_self ..))
    omega

/-- the plan of a boxed gate with (non-empty) controls -/
theorem plan_multi (p N C : Nat) (name : Str) (lab : Option Str) (ts cs : List Nat)
    (hswap : name ≠ swapName) (hne : ts ≠ []) (hcs : cs ≠ []) :
    plan p N C (.gate name lab ts (some cs)) = .ok
      { wl := pyRange (lmin (ts ++ cs)) (lmax (ts ++ cs) + 1)
        width := (drawMultiq p (gateText name lab) ts (some cs)).top.length
        acts := updTargetMultiq ts (pyRange (lmin ts) (lmax ts + 1)) (drawMultiq p (gateText name lab) ts (some cs)) ++
          (if lmax cs > lmin ts then updQbridge ts cs (pyRange (lmin ts) (lmax cs + 1))
            (drawMultiq p (gateText name lab) ts (some cs)).top.length true else []) ++
          (if lmin cs < lmax ts then updQbridge ts cs (pyRange (lmin cs) (lmax ts + 1))
            (drawMultiq p (gateText name lab) ts (some cs)).top.length false else []) } := by
  have h1 : ¬ (ts.length = 1 ∧ (some cs : Option (List Nat)) = none) := by simp
  have hne' : ts.isEmpty = false := by cases ts <;> simp_all
  have htr : truthy (some cs) = true := by cases cs <;> simp_all [truthy]
  simp only [plan, if_neg h1, if_neg hswap, hne', htr, ctrlList, Option.getD_some, Bool.false_eq_true, if_false, if_true]
  congr 3
  · by_cases h : lmax cs > lmin ts <;> simp [h]
  · by_cases h : lmin cs < lmax ts <;> simp [h]

theorem plan_swap (p N C : Nat) (lab : Option Str) (ts : List Nat) (cs : Option (List Nat))
    (h1 : ¬ (ts.length = 1 ∧ cs = none)) (hne : ts ≠ []) :
    plan p N C (.gate swapName lab ts cs) = .ok
      { wl := pyRange (lmin ts) (lmax ts + 1), width := 4 * p + 1,
        acts := updSwap p (pyRange (lmin ts) (lmax ts + 1)) } := by
  have hne' : ts.isEmpty = false := by cases ts <;> simp_all
  simp only [plan, if_neg h1, hne', if_true, Bool.false_eq_true, if_false]

theorem plan_meas (p N C t0 s : Nat) :
    plan p N C (.meas [t0] s) = .ok
      { wl := pyRange 0 (t0 + 1) ++ pyRange (s + N) (N + C), width := (drawMeas p N t0 s).top.length,
        acts := updSingleq [t0] (drawMeas p N t0 s) ++
          updCbridge N t0 s (pyRange 0 (t0 + 1) ++ pyRange (s + N) (N + C)) (drawMeas p N t0 s).top.length } := rfl

/-! ## the example circuit used for the non-vacuity checks in Props/C20 -/

/-- a non-trivial covered circuit: TOFFOLI with controls on both sides, a SWAP, a measurement, a
two-target box with two controls, `align_layer=True`, `gate_pad=1.2`, custom wire labels -/
def exCirc : Circ := { N := 4, C := 2, ops :=
  [.gate ['T','O','F','F','O','L','I'] none [1] (some [0, 3]), .gate ['S','W','A','P'] none [0, 2] none, .meas [2] 1,
   .gate ['C','U'] (some ['x',' ','y']) [2, 3] (some [0, 1])] }
def exStyle : Style :=
  { padNum := 6, padDen := 5, align := true, labels := some [['a'], ['b','b'], ['q','0'], ['q','1'], [], ['q','3']] }


end QipVerif.Render
