import QipVerif.Lemmas.RenderLinks2
/-! C20: `links_reach` — the explicit plans of the three linked element kinds. -/
namespace QipVerif.Render
variable {v : Variant}

theorem nodup_lmin_lt_lmax {ts : List Nat} (hn : ts.Nodup) (h2 : 2 ≤ ts.length) : lmin ts < lmax ts := by
  match ts, hn, h2 with
  | a :: b :: rest, hn, _ =>
    have hab : a ≠ b := by
      intro h; subst h
      exact (List.nodup_cons.mp hn).1 (List.mem_cons_self ..)
    have h1 : lmin (a :: b :: rest) ≤ a := lmin_le (List.mem_cons_self ..)
    have h2 : lmin (a :: b :: rest) ≤ b := lmin_le (List.mem_cons_of_mem _ (List.mem_cons_self ..))
    have h3 : a ≤ lmax (a :: b :: rest) := le_lmax (List.mem_cons_self ..)
    have h4 : b ≤ lmax (a :: b :: rest) := le_lmax (List.mem_cons_of_mem _ (List.mem_cons_self ..))
    omega

/-- the plan of a boxed gate with (non-empty) controls -/
theorem plan_multi (v : Variant) (p N C : Nat) (name : Str) (lab : Option Str) (ts cs : List Nat)
    (hswap : name ≠ swapName) (hne : ts ≠ []) (hcs : cs ≠ []) :
    plan v p N C (.gate name lab ts (some cs)) = .ok
      { wl := pyRange (lmin (ts ++ cs)) (lmax (ts ++ cs) + 1)
        width := (drawMultiq v p (gateText name lab) ts (some cs)).top.length
        acts := updTargetMultiq v ts cs (pyRange (lmin ts) (lmax ts + 1)) (drawMultiq v p (gateText name lab) ts (some cs)) ++
          (if isTop v cs ts = true then updQbridge v ts cs (pyRange (lmin ts) (lmax cs + 1))
            (drawMultiq v p (gateText name lab) ts (some cs)).top.length true else []) ++
          (if isBot v cs ts = true then updQbridge v ts cs (pyRange (lmin cs) (lmax ts + 1))
            (drawMultiq v p (gateText name lab) ts (some cs)).top.length false else []) } := by
  have h1 : ¬ (ts.length = 1 ∧ (some cs : Option (List Nat)) = none) := by simp
  have hne' : ts.isEmpty = false := by cases ts <;> simp_all
  have htr : truthy (some cs) = true := by cases cs <;> simp_all [truthy]
  simp only [plan, planGate, if_neg h1, if_neg hswap, hne', htr, ctrlList, Option.getD_some, Bool.false_eq_true,
    if_false, if_true]
  rfl

theorem plan_swap (v : Variant) (p N C : Nat) (lab : Option Str) (ts : List Nat) (cs : Option (List Nat))
    (h1 : ¬ (ts.length = 1 ∧ cs = none)) (hne : ts ≠ []) :
    plan v p N C (.gate swapName lab ts cs) = .ok
      { wl := pyRange (lmin ts) (lmax ts + 1), width := 4 * p + 1,
        acts := updSwap p (pyRange (lmin ts) (lmax ts + 1)) } := by
  have hne' : ts.isEmpty = false := by cases ts <;> simp_all
  simp only [plan, planGate, if_neg h1, hne', if_true, Bool.false_eq_true, if_false]

theorem plan_measNS (v : Variant) (hv : v.measBox = true) (p N C t0 : Nat) :
    plan v p N C (.measNS [t0]) = .ok
      { wl := [t0], width := (drawSingleq p ['M']).top.length, acts := updSingleq [t0] (drawSingleq p ['M']) } := by
  simp [plan, hv]

theorem plan_meas (v : Variant) (p N C t0 s : Nat) :
    plan v p N C (.meas [t0] s) = .ok
      { wl := pyRange 0 (t0 + 1) ++ pyRange (s + N) (N + C), width := (drawMeas p N t0 s).top.length,
        acts := updSingleq [t0] (drawMeas p N t0 s) ++
          updCbridge N t0 s (pyRange 0 (t0 + 1) ++ pyRange (s + N) (N + C)) (drawMeas p N t0 s).top.length } := rfl

/-! ## facts about the two variants of the box-span tests -/

theorem isTop_of_above (v : Variant) {ts cs : List Nat} (hne : ts ≠ []) {ctl : Nat} (hc : ctl ∈ cs)
    (h : lmax ts < ctl) : isTop v cs ts = true := by
  have h1 : ctl ≤ lmax cs := le_lmax hc
  have h2 : lmin ts ≤ lmax ts := lmin_le (lmax_mem hne)
  unfold isTop
  split <;> simp <;> omega

theorem isBot_of_below (v : Variant) {ts cs : List Nat} (hne : ts ≠ []) {ctl : Nat} (hc : ctl ∈ cs)
    (h : ctl < lmin ts) : isBot v cs ts = true := by
  have h1 : lmin cs ≤ ctl := lmin_le hc
  have h2 : lmin ts ≤ lmax ts := lmin_le (lmax_mem hne)
  unfold isBot
  split <;> simp <;> omega

theorem not_inBox_of_outside (v : Variant) {ts : List Nat} {w : Nat} (h : lmax ts < w ∨ w < lmin ts) :
    ¬ inBox v ts w = true := by
  unfold inBox
  split
  · simp; omega
  · simp only [decide_eq_true_eq]
    intro hm
    have := le_lmax hm
    have := lmin_le hm
    omega

theorem setChar_get_lt (s : Str) {i j : Nat} (c : Char) (hi : i < s.length) (hj : j < i) :
    (setChar s i c)[j]? = s[j]? := by
  unfold setChar
  rw [List.getElem?_append_left (by simp; omega), List.getElem?_take]
  simp [hj]

/-! ## validity implies coverage on a repaired tree -/

def Op.isGlob : Op → Bool
  | .glob _ _ => true
  | _ => false

/-- does the tree draw this kind of element at all: gates on the whole register need the repair
`globalBox`, measurements without `classical_store` the repair `measBox` -/
def Variant.supports (v : Variant) : Op → Bool
  | .glob _ _ => v.globalBox
  | .measNS _ => v.measBox
  | _ => true

theorem supports_repaired (op : Op) : Variant.repaired.supports op = true := by cases op <;> rfl

theorem opOk_of_valid {v : Variant} (hv : v.spanFix = true) {N C : Nat} {op : Op}
    (hg : v.supports op = true) (h : opValid N C op = true) (hN : 1 ≤ N) : opOk v N op = true := by
  cases op with
  | measNS targets =>
    match targets, h with
    | [t0], h =>
      have hm : v.measBox = true := hg
      simp only [opValid, decide_eq_true_eq] at h
      simp [opOk, h, hm]
  | meas targets store =>
    match targets, h with
    | [t0], h =>
      simp only [opValid, Bool.and_eq_true, decide_eq_true_eq] at h
      simp [opOk, h.1]
  | gate name argLabel targets controls =>
    simp only [opValid, Bool.and_eq_true] at h
    simp only [opOk, gateOk, Bool.and_eq_true, Bool.or_eq_true]
    exact ⟨h.1, Or.inl (Or.inr hv)⟩
  | glob name argLabel =>
    have hgb : v.globalBox = true := hg
    simp only [opOk, gateOk, hgb, Bool.true_and, Bool.and_eq_true, Bool.or_eq_true]
    refine ⟨⟨?_, ?_⟩, Or.inl (Or.inr hv)⟩
    · cases N with
      | zero => omega
      | succ n => simp [List.range_succ]
    · simp [ctrlList]

theorem circOk_of_valid {v : Variant} (hv : v.spanFix = true) {sty : Style} {c : Circ}
    (hg : ∀ op ∈ c.ops, v.supports op = true) (h : circValid sty c = true) :
    circOk v sty c = true := by
  simp only [circValid, circOk, Bool.and_eq_true, List.all_eq_true] at h ⊢
  exact ⟨h.1, fun op hop => opOk_of_valid hv (hg op hop) (h.2 op hop) (styleOk_N h.1)⟩

/-- the exception of a drawing, if any -/
def renderErr (v : Variant) (sty : Style) (c : Circ) : Option Err :=
  match render v sty c with
  | .error e => some e
  | .ok _ => none

/-- every element of a circuit whose loop runs through has a plan -/
theorem steps_plan_ok {v : Variant} {sty : Style} {N C : Nat} {ops : List Op} {st st' : St}
    (h : steps v sty N C st ops = .ok st') : ∀ op ∈ ops, ∃ pl, plan v sty.pad N C op = .ok pl := by
  induction ops generalizing st with
  | nil => intro op hop; cases hop
  | cons o ops ih =>
    unfold steps at h
    split at h
    · cases h
    · rename_i st1 h1
      intro op hop
      rcases List.mem_cons.mp hop with rfl | hop
      · obtain ⟨pl, hpl, _⟩ := step_ok h1
        exact ⟨pl, hpl⟩
      · exact ih h op hop

theorem control_trichotomy {ts cs : List Nat} (hnd : (ts ++ cs).Nodup) (hne : ts ≠ []) {ctl : Nat} (hc : ctl ∈ cs) :
    lmax ts < ctl ∨ ctl < lmin ts ∨ (lmin ts < ctl ∧ ctl < lmax ts) := by
  have hnt : ctl ∉ ts := fun h => (List.nodup_append.mp hnd).2.2 ctl h ctl hc rfl
  have h1 : ctl ≠ lmin ts := fun h => hnt (h ▸ lmin_mem hne)
  have h2 : ctl ≠ lmax ts := fun h => hnt (h ▸ lmax_mem hne)
  omega

/-! ## the example circuit used for the non-vacuity checks in Props/C20 -/

/-- a non-trivial covered circuit: TOFFOLI with controls on both sides, a SWAP, a measurement, a
two-target box with two controls, `align_layer=True`, `gate_pad=1.2`, custom wire labels -/
def exCirc : Circ := { N := 4, C := 2, ops :=
  [.gate ['T','O','F','F','O','L','I'] none [1] (some [0, 3]), .gate ['S','W','A','P'] none [0, 2] none, .meas [2] 1,
   .gate ['C','U'] (some ['x',' ','y']) [2, 3] (some [0, 1])] }
def exStyle : Style :=
  { padNum := 6, padDen := 5, align := true, labels := some [['a'], ['b','b'], ['q','0'], ['q','1'], [], ['q','3']] }


end QipVerif.Render
