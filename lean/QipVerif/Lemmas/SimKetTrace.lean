import QipVerif.Model.SimKet
/-!
# C01 — the step-by-step trajectory: the state after step `k` is the run of the first `k` steps

The model is immutable: a state handed out after step `k` is a value and cannot change when later steps
are taken.  This file states what that value is, for arbitrary scalars.
-/
namespace QipVerif.SimKet

variable {α : Type}

theorem traceKet_length (o : Ops α) (ops : List (Op α)) (st : Tensor α) (l : List (Tensor α))
    (h : traceKet o ops st = .ok l) : l.length = ops.length := by
  induction ops generalizing st l with
  | nil => simp [traceKet] at h; subst h; rfl
  | cons op rest ih =>
    simp only [traceKet] at h
    cases h1 : stepKet o op st with
    | error e => simp [h1] at h
    | ok s =>
      cases h2 : traceKet o rest s with
      | error e => simp [h1, h2] at h
      | ok l' =>
        simp only [h1, h2, Except.ok.injEq] at h
        subst h
        simp [ih s l' h2]

/-- the `k`-th recorded state is the run of the first `k + 1` steps -/
theorem traceKet_prefix (o : Ops α) (ops : List (Op α)) (st : Tensor α) (l : List (Tensor α))
    (h : traceKet o ops st = .ok l) (k : Nat) (hk : k < l.length) :
    runKet o (ops.take (k + 1)) st = .ok l[k] := by
  induction ops generalizing st l k with
  | nil => simp [traceKet] at h; subst h; simp at hk
  | cons op rest ih =>
    simp only [traceKet] at h
    cases h1 : stepKet o op st with
    | error e => simp [h1] at h
    | ok s =>
      cases h2 : traceKet o rest s with
      | error e => simp [h1, h2] at h
      | ok l' =>
        simp only [h1, h2, Except.ok.injEq] at h
        subst h
        cases k with
        | zero => simp [runKet, h1]
        | succ k =>
          have hk' : k < l'.length := by simpa using hk
          simp only [List.take_succ_cons, runKet, h1, List.getElem_cons_succ]
          exact ih s l' h2 k hk'

theorem traceKet_ok_of_run (o : Ops α) (ops : List (Op α)) (st T : Tensor α) (h : runKet o ops st = .ok T) :
    ∃ l, traceKet o ops st = .ok l := by
  induction ops generalizing st with
  | nil => exact ⟨[], rfl⟩
  | cons op rest ih =>
    simp only [runKet] at h
    cases h1 : stepKet o op st with
    | error e => simp [h1] at h
    | ok s =>
      simp only [h1] at h
      obtain ⟨l', hl⟩ := ih s h
      exact ⟨s :: l', by simp [traceKet, h1, hl]⟩

/-- the same for density-matrix mode -/
theorem traceDm_prefix (o : Ops α) (N : Nat) (ops : List (Op α)) (ρ : FMat α) (l : List (FMat α))
    (h : traceDm o N ops ρ = .ok l) (k : Nat) (hk : k < l.length) :
    (runDm o N (ops.take (k + 1)) ρ).toOption.map (·.rows) = some l[k].rows := by
  induction ops generalizing ρ l k with
  | nil => simp [traceDm] at h; subst h; simp at hk
  | cons op rest ih =>
    simp only [traceDm] at h
    cases h1 : stepDm o N op ρ with
    | error e => simp [h1] at h
    | ok s =>
      cases h2 : traceDm o N rest s with
      | error e => simp [h1, h2] at h
      | ok l' =>
        simp only [h1, h2, Except.ok.injEq] at h
        subst h
        cases k with
        | zero => simp [runDm, h1, Except.toOption]
        | succ k =>
          have hk' : k < l'.length := by simpa using hk
          simp only [List.take_succ_cons, runDm, h1, List.getElem_cons_succ]
          exact ih s l' h2 k hk'

end QipVerif.SimKet
