import QipVerif.Lemmas.RouteCircuit
import QipVerif.Model.Transpile
/-!
# C13: the conversion between the circuit IR and the router's gates, and the routing stage

`ofRoute cx (toRoute cx g) = g` for every gate of the circuit the symbol table was built from;
what `routeStage` (C07's `toChain` on the converted circuit) emits, gate by gate: an unhandled gate
of the input, unchanged, or a two-qubit library gate on neighbours of the topology that carries
the name of a handled input gate or is a SWAP.
-/
namespace QipVerif.Transpile
open QipVerif

/-- names the router rewrites -/
def handledName (n : GName) : Bool :=
  [GName.CNOT, .CSIGN, .SWAP, .ISWAP, .SQRTISWAP, .SQRTSWAP, .BERKELEY, .SWAPalpha].contains n

theorem getD_pos {α : Type} [DecidableEq α] (a d : α) (l : List α) (h : a ∈ l) : l.getD (pos a l) d = a := by
  induction l with
  | nil => cases h
  | cons b l ih =>
    unfold pos
    by_cases hb : b = a
    · simp [hb]
    · rw [if_neg hb]
      rcases List.mem_cons.mp h with rfl | h
      · exact absurd rfl hb
      · simpa using ih h

theorem decName_encName (cx : Ctx) (n : GName) (h : handledName n = true ∨ n ∈ cx.names) :
    decName cx (encName cx n) = n := by
  by_cases hh : handledName n = true
  · revert hh; cases n <;> simp [handledName, encName, decName]
  · have hm : n ∈ cx.names := by
      rcases h with h | h
      · exact absurd h hh
      · exact h
    have : encName cx n = .other (pos n cx.names) := by
      revert hh; cases n <;> simp [handledName, encName]
    rw [this]
    simp only [decName]
    exact getD_pos n _ cx.names hm

theorem decAng_encAng (cx : Ctx) (a : Ang) (h : a ∈ cx.angs) : decAng cx (encAng cx a) = a := by
  unfold encAng
  by_cases ha : a = {}
  · rw [if_pos ha, ha]; rfl
  · rw [if_neg ha]
    simp only [decAng]
    exact getD_pos a _ cx.angs h

theorem ofRoute_toRoute (cx : Ctx) (g : Gate) (hh : handledName g.name = false) (hn : g.name ∈ cx.names)
    (ha : g.arg ∈ cx.angs) : ofRoute cx (toRoute cx g) = g := by
  cases g with
  | mk n ts cs a =>
    have hc : ¬ (n = .CNOT ∨ n = .CSIGN) := by
      rintro (h | h) <;> (rw [h] at hh; cases hh)
    simp only [ofRoute, toRoute, if_neg hc, Gate.mk.injEq, true_and]
    exact ⟨decName_encName cx n (Or.inr hn), decAng_encAng cx a ha⟩

theorem mem_ctx {gs : List Gate} {g : Gate} (hg : g ∈ gs) :
    g.name ∈ (ctxOf gs).names ∧ g.arg ∈ (ctxOf gs).angs :=
  ⟨List.mem_map.mpr ⟨g, hg, rfl⟩, List.mem_map.mpr ⟨g, hg, rfl⟩⟩

theorem isCtl_encName (cx : Ctx) (n : GName) : (encName cx n).isCtl = (n == .CNOT || n == .CSIGN) := by
  cases n <;> rfl

theorem isSwp_encName (cx : Ctx) (n : GName) :
    (encName cx n).isSwp = (handledName n && !(n == .CNOT || n == .CSIGN)) := by
  cases n <;> rfl

theorem handled_toRoute (cx : Ctx) (g : Gate) : Route.Handled (toRoute cx g) ↔ handledName g.name = true := by
  unfold Route.Handled
  simp only [toRoute, isCtl_encName, isSwp_encName]
  cases g.name <;> simp [handledName]

theorem ofRoute_qubits (cx : Ctx) (r : Route.Gate) : (ofRoute cx r).qubits = r.qubits := rfl

/-! ## shaped gates are well-formed for the router -/

theorem shaped_iff (N : Nat) (g : Gate) : shapedB N g = true ↔
    shapeOf g.name = some (g.controls.length, g.targets.length) ∧ g.qubits.Nodup ∧ ∀ q ∈ g.qubits, q < N := by
  simp [shapedB, and_assoc]

theorem len1 {l : List Nat} (h : l.length = 1) : ∃ a, l = [a] := by
  match l, h with
  | [a], _ => exact ⟨a, rfl⟩

theorem len2 {l : List Nat} (h : l.length = 2) : ∃ a b, l = [a, b] := by
  match l, h with
  | [a, b], _ => exact ⟨a, b, rfl⟩

theorem len0 {l : List Nat} (h : l.length = 0) : l = [] := List.eq_nil_of_length_eq_zero h

/-- shape of a CNOT / CSIGN -/
theorem shaped_ctl {N : Nat} {g : Gate} (hs : shapedB N g = true) (hn : g.name = .CNOT ∨ g.name = .CSIGN) :
    ∃ c t, g.controls = [c] ∧ g.targets = [t] ∧ c ≠ t ∧ c < N ∧ t < N := by
  obtain ⟨h1, h2, h3⟩ := (shaped_iff N g).mp hs
  have hsh : shapeOf g.name = some (1, 1) := by rcases hn with h | h <;> rw [h] <;> rfl
  rw [hsh] at h1
  simp only [Option.some.injEq, Prod.mk.injEq] at h1
  obtain ⟨c, hc⟩ := len1 h1.1.symm
  obtain ⟨t, ht⟩ := len1 h1.2.symm
  simp only [Gate.qubits, hc, ht, List.cons_append, List.nil_append, List.nodup_cons, List.mem_cons,
    List.not_mem_nil, or_false, not_false_eq_true, List.nodup_nil, and_true, forall_eq_or_imp, forall_eq] at h2 h3
  exact ⟨c, t, hc, ht, h2, h3.1, h3.2⟩

/-- shape of an exchange-type gate -/
theorem shaped_swp {N : Nat} {g : Gate} (hs : shapedB N g = true) (hh : handledName g.name = true)
    (hn : ¬ (g.name = .CNOT ∨ g.name = .CSIGN)) :
    ∃ t0 t1, g.controls = [] ∧ g.targets = [t0, t1] ∧ t0 ≠ t1 ∧ t0 < N ∧ t1 < N := by
  obtain ⟨h1, h2, h3⟩ := (shaped_iff N g).mp hs
  have hsh : shapeOf g.name = some (0, 2) := by
    revert hh hn; cases g.name <;> simp [handledName, shapeOf]
  rw [hsh] at h1
  simp only [Option.some.injEq, Prod.mk.injEq] at h1
  have hc := len0 h1.1.symm
  obtain ⟨a, b, ht⟩ := len2 h1.2.symm
  simp only [Gate.qubits, hc, ht, List.nil_append, List.nodup_cons, List.mem_cons,
    List.not_mem_nil, or_false, not_false_eq_true, List.nodup_nil, and_true, forall_eq_or_imp, forall_eq] at h2 h3
  exact ⟨a, b, hc, ht, h2, h3.1, h3.2⟩

theorem wellFormed_toRoute (cx : Ctx) (N : Nat) (g : Gate) (hs : shapedB N g = true) :
    Route.WellFormed N (toRoute cx g) := by
  constructor
  · intro hc
    rw [show (toRoute cx g).name = encName cx g.name from rfl, isCtl_encName] at hc
    have hn : g.name = .CNOT ∨ g.name = .CSIGN := by simpa using hc
    exact shaped_ctl hs hn
  · intro hc
    rw [show (toRoute cx g).name = encName cx g.name from rfl, isSwp_encName] at hc
    simp only [Bool.and_eq_true, Bool.not_eq_true', Bool.or_eq_false_iff, beq_eq_false_iff_ne] at hc
    exact shaped_swp hs hc.1 (by rintro (h | h); exact hc.2.1 h; exact hc.2.2 h)

/-! ## what the routing stage emits -/

/-- the members of `swaps S ++ G :: swaps S.reverse` -/
theorem mem_routed {S : List (Nat × Nat)} {G r : Route.Gate}
    (hm : r ∈ Route.swaps S ++ G :: Route.swaps S.reverse) : r = G ∨ ∃ p ∈ S, r = Route.swapG p.1 p.2 := by
  rcases List.mem_append.mp hm with hm | hm
  · exact Or.inr (Route.mem_swaps hm)
  · rcases List.mem_cons.mp hm with rfl | hm
    · exact Or.inl rfl
    · obtain ⟨p, hp, rfl⟩ := Route.mem_swaps hm
      exact Or.inr ⟨p, List.mem_reverse.mp hp, rfl⟩

/-- a routed gate of the output: a two-qubit library gate on neighbours -/
structure RoutedGate (N : Nat) (setup : Route.Setup) (gs : List Gate) (h : Gate) : Prop where
  from_handled : ∃ g ∈ gs, handledName g.name = true ∧ (h.name = g.name ∨ h.name = .SWAP)
  shaped : shapedB N h = true
  adj : ∃ i j, h.qubits = [i, j] ∧ Route.Adj setup N i j

theorem shaped_swap {N i j : Nat} (hi : i < N) (hj : j < N) (hij : i ≠ j) :
    shapedB N ⟨.SWAP, [i, j], [], {}⟩ = true := by
  rw [shaped_iff]
  refine ⟨rfl, by simp [Gate.qubits, hij], ?_⟩
  intro q hq
  simp [Gate.qubits] at hq
  rcases hq with rfl | rfl <;> assumption

/-- one handled, shaped gate through the router -/
theorem routeGate_handled_out (cx : Ctx) (N : Nat) (setup : Route.Setup)
    (hs : setup = .linear ∨ setup = .circular) (g : Gate) (hsh : shapedB N g = true)
    (hh : handledName g.name = true) (ha : g.arg ∈ cx.angs) (a : List Route.Gate)
    (hr : Route.routeGate N setup (toRoute cx g) = .ok a) :
    (∀ r ∈ a, (ofRoute cx r).name = g.name ∨ (ofRoute cx r).name = .SWAP) ∧
    (∀ r ∈ a, shapedB N (ofRoute cx r) = true) ∧
    (∀ r ∈ a, ∃ i j, (ofRoute cx r).qubits = [i, j] ∧ Route.Adj setup N i j) ∧
    (∃ r ∈ a, (ofRoute cx r).name = g.name) := by
  have hdec : decName cx (encName cx g.name) = g.name := decName_encName cx g.name (Or.inl hh)
  have hswapG : ∀ i j, ofRoute cx (Route.swapG i j) = ⟨.SWAP, [i, j], [], {}⟩ := fun i j => rfl
  by_cases hn : g.name = .CNOT ∨ g.name = .CSIGN
  · obtain ⟨c, t, hC, hT, hct, hc, ht⟩ := shaped_ctl hsh hn
    have hnm : (toRoute cx g).name.isCtl = true := by
      rw [show (toRoute cx g).name = encName cx g.name from rfl, isCtl_encName]; simpa using hn
    obtain ⟨out, S, h1, h2⟩ := Route.routeCtl_spec N setup hs (toRoute cx g) c t hnm hC hT hct hc ht
    rw [Route.routeGate_ctl hnm hC hT, h1] at hr
    cases hr
    have hS := fun p hp => (⟨(h2.swaps_ok p hp).1, (h2.swaps_ok p hp).2.1⟩ : p.1 < N ∧ p.2 < N)
    have hG : ofRoute cx ⟨(toRoute cx g).name, [Route.track S c], [Route.track S t], 0, 0⟩ =
        ⟨g.name, [Route.track S t], [Route.track S c], {}⟩ := by
      simp only [ofRoute, toRoute, hdec, decAng]
    have hne : Route.track S c ≠ Route.track S t := fun h => hct (Route.track_inj h)
    have hGs : shapedB N ⟨g.name, [Route.track S t], [Route.track S c], {}⟩ = true := by
      rw [shaped_iff]
      refine ⟨by rcases hn with h | h <;> rw [h] <;> rfl, by simp [Gate.qubits, hne], ?_⟩
      intro q hq
      simp [Gate.qubits] at hq
      rcases hq with rfl | rfl
      · exact Route.track_lt hS hc
      · exact Route.track_lt hS ht
    rw [h2.out_eq]
    refine ⟨?_, ?_, ?_, ⟨_, List.mem_append_right _ (List.mem_cons_self ..), by rw [hG]⟩⟩
    · intro r hm
      rcases mem_routed hm with rfl | ⟨p, _, rfl⟩
      · rw [hG]; exact Or.inl rfl
      · exact Or.inr rfl
    · intro r hm
      rcases mem_routed hm with rfl | ⟨p, hp, rfl⟩
      · rw [hG]; exact hGs
      · rw [hswapG]
        exact shaped_swap (h2.swaps_ok p hp).1 (h2.swaps_ok p hp).2.1 (h2.swaps_ok p hp).2.2.1
    · intro r hm
      rcases mem_routed hm with rfl | ⟨p, hp, rfl⟩
      · rw [hG]; exact ⟨_, _, rfl, h2.adj⟩
      · exact ⟨p.1, p.2, rfl, (h2.swaps_ok p hp).2.2.2⟩
  · obtain ⟨t0, t1, hC, hT, h01, h0, h1'⟩ := shaped_swp hsh hh hn
    have hnm : (toRoute cx g).name.isSwp = true := by
      rw [show (toRoute cx g).name = encName cx g.name from rfl, isSwp_encName, hh]
      simp only [Bool.true_and, Bool.not_eq_true', Bool.or_eq_false_iff, beq_eq_false_iff_ne]
      exact ⟨fun h => hn (Or.inl h), fun h => hn (Or.inr h)⟩
    obtain ⟨S, p, q, h2, h3⟩ := Route.routeSwp_spec N setup hs (toRoute cx g) t0 t1 h01 h0 h1'
    rw [Route.routeGate_swp hnm hT] at hr
    cases hr
    have hS := fun p hp => (⟨(h2.swaps_ok p hp).1, (h2.swaps_ok p hp).2.1⟩ : p.1 < N ∧ p.2 < N)
    have hG : ofRoute cx ⟨(toRoute cx g).name, [], [p, q], (toRoute cx g).arg, 0⟩ = ⟨g.name, [p, q], [], g.arg⟩ := by
      simp only [ofRoute, toRoute, if_neg hn, hdec, decAng_encAng cx g.arg ha]
    have hpq : p ≠ q ∧ p < N ∧ q < N ∧ Route.Adj setup N p q := by
      rcases h3 with ⟨rfl, rfl⟩ | ⟨rfl, rfl⟩
      · exact ⟨fun h => h01 (Route.track_inj h), Route.track_lt hS h0, Route.track_lt hS h1', h2.adj⟩
      · exact ⟨fun h => h01 (Route.track_inj h).symm, Route.track_lt hS h1', Route.track_lt hS h0, h2.adj.symm⟩
    have hGs : shapedB N ⟨g.name, [p, q], [], g.arg⟩ = true := by
      rw [shaped_iff]
      refine ⟨?_, by simp [Gate.qubits, hpq.1], ?_⟩
      · revert hh hn; cases g.name <;> simp [handledName, shapeOf]
      · intro x hx
        simp [Gate.qubits] at hx
        rcases hx with rfl | rfl
        · exact hpq.2.1
        · exact hpq.2.2.1
    rw [h2.out_eq]
    refine ⟨?_, ?_, ?_, ⟨_, List.mem_append_right _ (List.mem_cons_self ..), by rw [hG]⟩⟩
    · intro r hm
      rcases mem_routed hm with rfl | ⟨p, _, rfl⟩
      · rw [hG]; exact Or.inl rfl
      · exact Or.inr rfl
    · intro r hm
      rcases mem_routed hm with rfl | ⟨p', hp, rfl⟩
      · rw [hG]; exact hGs
      · rw [hswapG]
        exact shaped_swap (h2.swaps_ok p' hp).1 (h2.swaps_ok p' hp).2.1 (h2.swaps_ok p' hp).2.2.1
    · intro r hm
      rcases mem_routed hm with rfl | ⟨p', hp, rfl⟩
      · rw [hG]; exact ⟨p, q, rfl, hpq.2.2.2⟩
      · exact ⟨p'.1, p'.2, rfl, (h2.swaps_ok p' hp).2.2.2⟩

/-- inversion of `routeStage` -/
theorem routeStage_ok {N : Nat} {setup : Route.Setup} {gs out : List Gate}
    (ho : routeStage N setup gs = .ok out) :
    ∃ out', Route.toChain N setup (gs.map (toRoute (ctxOf gs))) = .ok out' ∧
      out = out'.map (ofRoute (ctxOf gs)) := by
  unfold routeStage at ho
  simp only at ho
  split at ho
  · rename_i o h; cases ho; exact ⟨o, h, rfl⟩
  · cases ho

/-- **every gate the routing stage emits** is an unhandled input gate, unchanged, or a routed gate -/
theorem routeStage_mem (N : Nat) (setup : Route.Setup) (hs : setup = .linear ∨ setup = .circular)
    (gs out : List Gate) (hsh : ∀ g ∈ gs, handledName g.name = true → shapedB N g = true)
    (ho : routeStage N setup gs = .ok out) :
    ∀ h ∈ out, (h ∈ gs ∧ handledName h.name = false) ∨ RoutedGate N setup gs h := by
  obtain ⟨out', ho', rfl⟩ := routeStage_ok ho
  intro h hm
  obtain ⟨r, hr, rfl⟩ := List.mem_map.mp hm
  obtain ⟨g', hg', a, ha, hra⟩ := Route.toChain_mem ho' hr
  obtain ⟨g, hg, rfl⟩ := List.mem_map.mp hg'
  obtain ⟨hnm, hang⟩ := mem_ctx hg
  by_cases hh : handledName g.name = true
  · obtain ⟨h1, h2, h3, _⟩ := routeGate_handled_out (ctxOf gs) N setup hs g (hsh g hg hh) hh hang a ha
    exact Or.inr ⟨⟨g, hg, hh, h1 r hra⟩, h2 r hra, h3 r hra⟩
  · have hnh : ¬ Route.Handled (toRoute (ctxOf gs) g) := fun hc => hh ((handled_toRoute _ g).mp hc)
    rw [Route.routeGate_other hnh] at ha
    cases ha
    simp only [List.mem_singleton] at hra
    subst hra
    rw [ofRoute_toRoute _ g (by simpa using hh) hnm hang]
    exact Or.inl ⟨hg, by simpa using hh⟩

/-- every input gate is routed into a part of the output -/
theorem toChain_sub {N : Nat} {setup : Route.Setup} {gs out : List Route.Gate}
    (ho : Route.toChain N setup gs = .ok out) {g : Route.Gate} (hg : g ∈ gs) :
    ∃ a, Route.routeGate N setup g = .ok a ∧ ∀ r ∈ a, r ∈ out := by
  induction gs generalizing out with
  | nil => cases hg
  | cons x xs ih =>
    obtain ⟨a, b, ha, hb, rfl⟩ := (Route.toChain_cons ..).mp ho
    rcases List.mem_cons.mp hg with rfl | hg
    · exact ⟨a, ha, fun r hr => List.mem_append_left _ hr⟩
    · obtain ⟨a', ha', hsub⟩ := ih hb hg
      exact ⟨a', ha', fun r hr => List.mem_append_right _ (hsub r hr)⟩

/-- **nothing disappears in the routing stage**: a gate of the input (shaped, if the router handles
it) leaves a gate of the same name in the output -/
theorem routeStage_keeps_name (N : Nat) (setup : Route.Setup) (hs : setup = .linear ∨ setup = .circular)
    (gs out : List Gate) (g : Gate) (hg : g ∈ gs) (hsh : handledName g.name = true → shapedB N g = true)
    (ho : routeStage N setup gs = .ok out) : ∃ h ∈ out, h.name = g.name := by
  obtain ⟨out', ho', rfl⟩ := routeStage_ok ho
  obtain ⟨a, ha, hsub⟩ := toChain_sub ho' (List.mem_map.mpr ⟨g, hg, rfl⟩)
  obtain ⟨hnm, hang⟩ := mem_ctx hg
  by_cases hh : handledName g.name = true
  · obtain ⟨_, _, _, r, hr, hrn⟩ := routeGate_handled_out (ctxOf gs) N setup hs g (hsh hh) hh hang a ha
    exact ⟨_, List.mem_map.mpr ⟨r, hsub r hr, rfl⟩, hrn⟩
  · have hnh : ¬ Route.Handled (toRoute (ctxOf gs) g) := fun hc => hh ((handled_toRoute _ g).mp hc)
    rw [Route.routeGate_other hnh] at ha
    cases ha
    refine ⟨_, List.mem_map.mpr ⟨_, hsub _ (List.mem_singleton.mpr rfl), rfl⟩, ?_⟩
    rw [ofRoute_toRoute _ g (by simpa using hh) hnm hang]

/-- routing a circuit whose handled gates are shaped never raises -/
theorem routeStage_total (N : Nat) (setup : Route.Setup) (hs : setup = .linear ∨ setup = .circular)
    (gs : List Gate) (hsh : ∀ g ∈ gs, shapedB N g = true) : ∃ out, routeStage N setup gs = .ok out := by
  have hw : ∀ r ∈ gs.map (toRoute (ctxOf gs)), Route.WellFormed N r := by
    intro r hr
    obtain ⟨g, hg, rfl⟩ := List.mem_map.mp hr
    exact wellFormed_toRoute _ N g (hsh g hg)
  obtain ⟨out', ho'⟩ := Route.toChain_total N setup hs _ hw
  exact ⟨out'.map (ofRoute (ctxOf gs)), by simp only [routeStage, ho']⟩

end QipVerif.Transpile
