import QipVerif.Lemmas.ComposeSpinChain
import QipVerif.Props.C12
import QipVerif.Props.C14
/-!
# C06: compile → concatenate → get_full_coeffs → run_analytically, composed

`pulses_product` chains the MODEL functions of C12 (`Concat.schedule`, `Concat.groupPulses`, `Concat.compileS
Gen.concatSrc`) and C14 (`Grid.fullCoeffsV true`, `Grid.slices`, `Grid.runAnalytically`) on a rational spin-chain
instruction list and proves that the product of the slice exponentials equals the product of the instructions' ideal
propagators (`instrPropExp`) in scheduled order.  It uses the theorems `C12.compile_source_channels_scalar`,
`C12.compile_source_end_to_end_scalar`, `C14.fullCoeffs_eq_repaired` and `Compose.channels_sliceProd`.
-/
set_option linter.unusedSectionVars false
namespace QipVerif.SpinChain
open QipVerif QipVerif.Gen QipVerif.Gen.SC Matrix QipVerif.MatExp QipVerif.Compose QipVerif.Grid

theorem chanLookup_not_mem (l : ℕ) : ∀ (groups : List (ℕ × List (Rat × Concat.Wave))), l ∉ groups.map (·.1) →
    Concat.chanLookup l groups = []
  | [], _ => rfl
  | (l', ch) :: rest, h => by
    simp only [List.map_cons, List.mem_cons, not_or] at h
    simp only [Concat.chanLookup]
    rw [if_neg (fun e => h.1 e.symm)]
    exact chanLookup_not_mem l rest h.2

theorem timeTol_nonneg (chans : List (List (Rat × Concat.Wave))) : 0 ≤ Gen.concatSrc.timeTol chans := by
  unfold Concat.Src.timeTol
  refine Rat.mul_nonneg (by decide +kernel) ?_
  cases h : Gen.concatSrc.cat.gapRef with
  | step => exact Rat.le_refl
  | maxStart => exact Concat.maxStart_nonneg chans
  | maxEnd => exact Concat.maxEnd_nonneg chans

/-- channels with one coefficient per slot are not touched by the padding variants of C14 -/
theorem fullCoeffsV_discrete (zl : Bool) (tol : Rat) (chans : List (List Rat × List Rat))
    (h : ∀ c ∈ chans, c.2.length + 1 = c.1.length) :
    fullCoeffsV zl tol (chans.map fun c => Chan.arr c.1 c.2) = fullCoeffs tol (chans.map fun c => Chan.arr c.1 c.2) := by
  unfold fullCoeffsV
  congr 1
  rw [List.map_map]
  apply List.map_congr_left
  intro c hc
  have := h c hc
  have hne : ¬ (c.2.length = c.1.length) := by omega
  simp [Chan.norm, normCoeff, hne]

/-! ## `get_full_coeffs` with control channels that carry no pulse -/

theorem lookup_zip_map {β : Type} (ls : List ℕ) (G : ℕ → β) (l : ℕ) :
    (ls.zip (ls.map G)).lookup l = if l ∈ ls then some (G l) else none := by
  induction ls with
  | nil => rfl
  | cons a r ih =>
    simp only [List.map_cons, List.zip_cons_cons, List.lookup_cons, List.mem_cons]
    by_cases h : l = a
    · subst h; simp
    · have h' : (l == a) = false := by simpa using h
      rw [h', ih]
      by_cases hr : l ∈ r
      · rw [if_pos hr, if_pos (Or.inr hr)]
      · rw [if_neg hr, if_neg (by rintro (e | e); exact h e; exact hr e)]


/-- a control channel of the processor: compiled grid/coefficients, or no pulse at all (`tlist is None and coeff is None`) -/
def optChan : Option (List Rat × List Rat) → Chan
  | none => .absent
  | some c => .arr c.1 c.2

/-- the row `get_full_coeffs` returns for it on the merged grid `T` -/
def rowOf (T : List Rat) : Option (List Rat × List Rat) → List Rat
  | none => T.map fun _ => 0
  | some c => T.map (stepAt c.1 c.2)

theorem optChan_grids (cs : List (Option (List Rat × List Rat))) :
    (cs.map optChan).filterMap Chan.grid? = (cs.filterMap id).map (·.1) := by
  induction cs with
  | nil => rfl
  | cons o rest ih =>
    cases o with
    | none => simp only [List.map_cons, optChan, List.filterMap_cons, Chan.grid?, id]; exact ih
    | some c => simp only [List.map_cons, optChan, List.filterMap_cons, Chan.grid?, id, ih]

/-- **`get_full_coeffs` (every variant) on a channel list with absent entries**: the merged grid is that of the channels that
carry a pulse (`used`, in any order), a channel without pulse gets a row of zeros -/
theorem fullCoeffsVW_mixed (zl w : Bool) (tol : Rat) (htol : 0 ≤ tol) (used : List (List Rat × List Rat))
    (cs : List (Option (List Rat × List Rat))) (hmem : ∀ c, some c ∈ cs ↔ c ∈ used) (hne : used ≠ [])
    (hgr : ∀ c ∈ used, C14.GoodGrid c.1) (hlen : ∀ c ∈ used, c.2.length + 1 = c.1.length)
    (hsep : SepAll tol (used.map (·.1))) :
    fullCoeffsVW zl w tol (cs.map optChan) =
      .ok (sortU (used.map (·.1)).flatten, cs.map (rowOf (sortU (used.map (·.1)).flatten))) := by
  set T := sortU (used.map (·.1)).flatten with hTdef
  -- the padding variant does not touch these channels
  have hnorm : (cs.map optChan).map (Chan.norm zl) = cs.map optChan := by
    rw [List.map_map]
    apply List.map_congr_left
    intro o ho
    cases o with
    | none => rfl
    | some c =>
      have := hlen c ((hmem c).mp ho)
      have hne2 : ¬ (c.2.length = c.1.length) := by omega
      simp [optChan, Chan.norm, normCoeff, hne2]
  -- the grids that enter the merged grid
  have hmemG : ∀ g, g ∈ (cs.filterMap id).map (·.1) ↔ g ∈ used.map (·.1) := by
    intro g
    simp only [List.mem_map, List.mem_filterMap, id]
    constructor
    · rintro ⟨c, ⟨o, ho, rfl⟩, rfl⟩; exact ⟨c, (hmem c).mp ho, rfl⟩
    · rintro ⟨c, hc, rfl⟩; exact ⟨c, ⟨some c, (hmem c).mpr hc, rfl⟩, rfl⟩
  set G' := (cs.filterMap id).map (·.1) with hG'
  obtain ⟨c0, hc0⟩ := List.exists_mem_of_ne_nil used hne
  have hne' : G' ≠ [] := by
    intro h
    have : c0.1 ∈ G' := (hmemG c0.1).mpr (List.mem_map.mpr ⟨c0, hc0, rfl⟩)
    rw [h] at this; simp at this
  have hsep' : SepAll tol G' := by
    intro g hg x hx g' hg' y hy hxy
    exact hsep g ((hmemG g).mp hg) x hx g' ((hmemG g').mp hg') y hy hxy
  have hTl := fullTlist_eq_sortU hne' hsep'
  have hTeq : sortU G'.flatten = T := by
    apply List.Pairwise.eq_of_mem_iff (sortU_pairwise _) (sortU_pairwise _)
    intro x
    rw [mem_sortU, mem_sortU, List.mem_flatten, List.mem_flatten]
    constructor
    · rintro ⟨g, hg, hx⟩; exact ⟨g, (hmemG g).mp hg, hx⟩
    · rintro ⟨g, hg, hx⟩; exact ⟨g, (hmemG g).mpr hg, hx⟩
  rw [hTeq] at hTl
  have hgr' : ∀ g ∈ G', g.Pairwise (· < ·) ∧ g.head? = some 0 ∧ 2 ≤ g.length := by
    intro g hg
    obtain ⟨c, hc, rfl⟩ := List.mem_map.mp ((hmemG g).mp hg)
    exact hgr c hc
  have hvalid : valid (cs.map optChan) = true := by
    simp only [valid, List.all_map, List.all_eq_true]
    intro o ho
    cases o with
    | none => rfl
    | some c =>
      have := hlen c ((hmem c).mp ho)
      simp [optChan]; left; omega
  unfold fullCoeffsVW fullCoeffsW
  rw [hnorm, hvalid]
  have hTl' : fullTlist tol ((cs.filterMap id).map (·.1)) = some T := hTl
  simp only [Bool.not_true, Bool.false_eq_true, if_false, procTlist, optChan_grids cs, hTl']
  rw [mapMExcept_ok _
    (fun (ch : Chan) => match ch with
      | .arr tl cs' => T.map (stepAt tl cs')
      | .absent => T.map fun _ => (0 : Rat)
      | .const _ _ => [])
    (cs.map optChan)
    (by
      intro a ha
      obtain ⟨o, ho, rfl⟩ := List.mem_map.mp ha
      cases o with
      | none => rfl
      | some c =>
        have hc := (hmem c).mp ho
        have hin : c.1 ∈ G' := (hmemG c.1).mpr (List.mem_map.mpr ⟨c, hc, rfl⟩)
        simp only [optChan]
        rw [fillW_eq_fill_grids w tol G' T c.1 c.2 htol hgr' hsep' hin hTl (Or.inl (hlen c hc))]
        exact C14.fill_eq_step tol G' T c.1 c.2 htol hgr' hsep' hin hTl (Or.inl (hlen c hc)))]
  simp only [List.map_map]
  congr 2
  apply List.map_congr_left
  intro o _
  cases o <;> rfl

/-- pulses whose control Hamiltonians act on a common qubit do not overlap in time (start times `st0` in compile order) -/
def PulseDisjoint (circular : Bool) (N : ℕ) (isQ : List (Instr Rat)) (st0 : List Rat) : Prop :=
  ∀ a b (ha : a < isQ.length) (hb : b < isQ.length), a ≠ b →
    (∃ q, q ∈ chanQubits circular N isQ[a] ∧ q ∈ chanQubits circular N isQ[b]) →
    st0.getD a 0 + isQ[a].dur ≤ st0.getD b 0 ∨ st0.getD b 0 + isQ[b].dur ≤ st0.getD a 0

/-- instructions whose GATES share a qubit (`used_qubits` of the two instructions intersect — C11's `timetable_valid`) do not
overlap in time -/
def GateDisjoint (isQ : List (Instr Rat)) (st0 : List Rat) : Prop :=
  ∀ a b (ha : a < isQ.length) (hb : b < isQ.length), a ≠ b → Shares isQ[a].gate isQ[b].gate →
    st0.getD a 0 + isQ[a].dur ≤ st0.getD b 0 ∨ st0.getD b 0 + isQ[b].dur ≤ st0.getD a 0

/-- for instructions whose channel Hamiltonians act on qubits of their gates, C11's condition implies `PulseDisjoint` -/
theorem pulseDisjoint_of_gateDisjoint (circular : Bool) (N : ℕ) (isQ : List (Instr Rat)) (st0 : List Rat)
    (hq : ∀ i ∈ isQ, ∀ q ∈ chanQubits circular N i, q ∈ i.gate.qubits) (h : GateDisjoint isQ st0) :
    PulseDisjoint circular N isQ st0 := by
  intro a b ha hb hab hsh
  obtain ⟨q, h1, h2⟩ := hsh
  exact h a b ha hb hab ⟨q, hq _ (List.getElem_mem ha) q h1, hq _ (List.getElem_mem hb) q h2⟩

/-- **pulses_product.**  Rational instruction list `isQ` (positive durations) whose real cast has the ideal propagators
`ws`; any injective numbering `enc` of the pulse labels; any scheduler answer `sch` that `_schedule` accepts; the channels
`groups` the grouping loop builds, each with idle gaps `0` or above `time_tol` (`ValidG`, C12); pulses on a common qubit
disjoint in time.  Then `compile` (C12's source-driven model) returns for every label the closed-form channel, and if the
distinct grid points of these channels are more than `tol` apart (`SepAll`, C14), `get_full_coeffs` (C14's model) returns a
merged grid and rows (the same for either shape `zl` of the step padding of C14: the channels have one coefficient per slot)
whose slice product — what `run_analytically` multiplies — is the product of the `ws` in scheduled
order. -/
theorem pulses_product (circular : Bool) (N : ℕ) (enc : String × Int → ℕ) (henc : Function.Injective enc)
    (tol : Rat) (htol : 0 ≤ tol) (isQ : List (Instr Rat)) (ws : List (Matrix (St N) (St N) ℂ))
    (hws : (isQ.map castI).mapM (instrPropExp circular N) = some ws) (hpos : ∀ i ∈ isQ, 0 < i.dur)
    (sch : Option (List Rat × List ℕ)) (cis : List Concat.Instr) (st : List Rat)
    (groups : List (ℕ × List (Rat × Concat.Wave)))
    (hs : Concat.schedule (isQ.map (toC enc)) sch = .ok (cis, st))
    (hg : Concat.groupPulses (cis.zip st) [] = some groups) (hgn : groups ≠ [])
    (hvalid : ∀ g ∈ groups, Concat.ValidG (Gen.concatSrc.timeTol (groups.map (·.2))) 0 g.2)
    (hdisj : PulseDisjoint circular N isQ (schedStarts (isQ.map (toC enc)) sch)) :
    ∃ chans : List (List Rat × List Rat),
      Concat.compileS Gen.concatSrc (isQ.map (toC enc)) sch =
        some (.ok (some ((groups.map (·.1)).zip (chans.map some)))) ∧
      chans.length = groups.length ∧
      (SepAll tol (chans.map (·.1)) → ∃ (T : List Rat) (rows : List (List Rat)),
        (∀ zl w : Bool, fullCoeffsVW zl w tol (chans.map fun c => Chan.arr c.1 c.2) = .ok (T, rows)) ∧
        ordProdL (runAnalytically 0 ((groups.map (·.1)).map (labelHam circular N enc)) (slices T rows)) =
          ordProd ((schedOrder isQ.length sch).map fun k => ws.getD k 1) ∧
        -- the same with EVERY control of the processor in the channel list: `all` = the labels of all controls, a control
        -- that received no pulse is `Chan.absent` (row of zeros), the merged grid is the same
        ∀ (all : List ℕ), all.Nodup → (∀ g ∈ groups, g.1 ∈ all) → ∃ rows' : List (List Rat),
          (∀ zl w : Bool, fullCoeffsVW zl w tol
            (all.map fun l => optChan (((groups.map (·.1)).zip chans).lookup l)) = .ok (T, rows')) ∧
          ordProdL (runAnalytically 0 (all.map (labelHam circular N enc)) (slices T rows')) =
            ordProd ((schedOrder isQ.length sch).map fun k => ws.getD k 1)) := by
  have hdz : ∀ i ∈ isQ.map (toC enc), (i.duration != 0) = true := by
    intro i hi
    obtain ⟨j, hj, rfl⟩ := List.mem_map.mp hi
    have := hpos j hj
    rw [toC_duration]
    simp only [bne_iff_ne, ne_eq]
    intro h0; rw [h0] at this; exact absurd this (lt_irrefl _)
  have hkept : Concat.keptInstrs Gen.concatSrc.cat.dropZero (isQ.map (toC enc)) = isQ.map (toC enc) := by
    unfold Concat.keptInstrs
    split
    · exact List.filter_eq_self.mpr hdz
    · rfl
  have hne : isQ ≠ [] := by
    rintro rfl
    have : Concat.schedule [] sch = .ok (cis, st) := hs
    cases sch with
    | none =>
      simp [Concat.schedule, Concat.cumStarts] at this
      obtain ⟨rfl, rfl⟩ := this
      simp [Concat.groupPulses] at hg
      exact hgn hg
    | some sp =>
      obtain ⟨s0, p0⟩ := sp
      simp only [Concat.schedule] at this
      split at this
      · cases this
      · split at this
        · cases this
        · simp only [Except.ok.injEq, Prod.mk.injEq] at this
          obtain ⟨rfl, rfl⟩ := this
          have : (p0.filterMap fun i => ([] : List Concat.Instr)[i]?) = [] := by
            induction p0 with
            | nil => rfl
            | cons a p ih => simp
          rw [this] at hg
          simp [Concat.groupPulses] at hg
          exact hgn hg
  obtain ⟨hσ, hzip, hsorted⟩ := schedule_pairs enc isQ sch cis st (fun i hi => (hpos i hi).le) hs
  set σ := schedOrder isQ.length sch with hσdef
  set st0 := schedStarts (isQ.map (toC enc)) sch with hst0
  set J := schedJ enc isQ st0 σ with hJdef
  set thr := Gen.concatSrc.timeTol (groups.map (·.2)) with hthrdef
  have hthr : 0 ≤ thr := timeTol_nonneg _
  have hτ : (0 : Rat) < Gen.concatSrc.cat.padTol := by decide +kernel
  -- C12: the grouping and the compiled channels
  have hs' : Concat.schedule (Concat.keptInstrs Gen.concatSrc.cat.dropZero (isQ.map (toC enc))) sch = .ok (cis, st) := by
    rw [hkept]; exact hs
  have hne' : Concat.keptInstrs Gen.concatSrc.cat.dropZero (isQ.map (toC enc)) ≠ [] := by
    rw [hkept]; simpa using hne
  have hsc : ∀ i ∈ isQ.map (toC enc), ∃ t, i.tl = .scalar t := by
    intro i hi
    obtain ⟨j, _, rfl⟩ := List.mem_map.mp hi
    exact ⟨_, rfl⟩
  obtain ⟨hnd, hgs, _⟩ := C12.compile_source_channels_scalar (isQ.map (toC enc)) sch cis st groups hsc hne' hs' hg
  obtain ⟨pm, final, ms, hms, _, hcompile⟩ := C12.compile_source_end_to_end_scalar (isQ.map (toC enc)) sch cis st groups
    hsc hne' hs' hg hgn (fun g hgm => Concat.Chain.chainR hthr (Concat.ValidG.chain (hvalid g hgm)))
  have hchan : ∀ g ∈ groups, g.2 = chanJ g.1 J := by
    intro g hgm
    rw [(hgs g hgm).2, hzip, chanOf_map_toInstr]
  set ls := groups.map (·.1) with hls
  have hlsne : ls ≠ [] := by simpa [hls] using hgn
  have hch : ∀ l ∈ ls, chanJ l J ≠ [] ∧ Concat.ValidG thr 0 (chanJ l J) := by
    intro l hl
    obtain ⟨g, hgm, rfl⟩ := List.mem_map.mp hl
    rw [← hchan g hgm]
    exact ⟨(hgs g hgm).1, hvalid g hgm⟩
  have hJl : ∀ j ∈ J, ∀ l, j.chan = some l → l ∈ ls := by
    intro j hj l hjl
    by_contra hnot
    obtain ⟨g1, _, _⟩ := Concat.groupPulses_spec (cis.zip st) [] groups hg
    have h1 := g1 l
    rw [chanLookup_not_mem l groups hnot, hzip, chanOf_map_toInstr] at h1
    have := chanJ_mem hj hjl
    simp only [Concat.chanLookup, List.nil_append] at h1
    rw [← h1] at this
    simp at this
  have hchans : (groups.map (·.2)).map (fun ch => Concat.closedChannelT thr Gen.concatSrc.cat.padTol pm final ms ch) =
      ls.map (compiledJ thr Gen.concatSrc.cat.padTol pm final ms J) := by
    rw [hls, List.map_map, List.map_map]
    apply List.map_congr_left
    intro g hgm
    simp only [Function.comp, compiledJ]
    rw [hchan g hgm]
  refine ⟨ls.map (compiledJ thr Gen.concatSrc.cat.padTol pm final ms J), ?_, by simp [hls], ?_⟩
  · rw [hcompile, ← hchans]; simp only [List.map_map]; rfl
  · intro hsep
    set chans := ls.map (compiledJ thr Gen.concatSrc.cat.padTol pm final ms J) with hchansdef
    have hspec := fun l hl => compiledJ_spec thr Gen.concatSrc.cat.padTol hthr hτ pm final ms hms J l
      (hch l hl).1 (hch l hl).2
    have hfull := C14.fullCoeffs_eq_repaired tol chans htol (by simpa [hchansdef] using hlsne)
      (by
        intro c hc
        obtain ⟨l, hl, rfl⟩ := List.mem_map.mp hc
        obtain ⟨h1, h2, _, h4, _⟩ := hspec l hl
        exact ⟨h2, h1, h4⟩)
      (by
        intro c hc
        obtain ⟨l, hl, rfl⟩ := List.mem_map.mp hc
        exact Or.inl (hspec l hl).2.2.1)
      hsep
    have hnorm : ∀ zl : Bool, fullCoeffsV zl tol (chans.map fun c => Chan.arr c.1 c.2) =
        fullCoeffsV true tol (chans.map fun c => Chan.arr c.1 c.2) := by
      intro zl
      have hl : ∀ c ∈ chans, c.2.length + 1 = c.1.length := by
        intro c hc
        obtain ⟨l, hl, rfl⟩ := List.mem_map.mp hc
        exact (hspec l hl).2.2.1
      rw [fullCoeffsV_discrete zl tol chans hl, fullCoeffsV_discrete true tol chans hl]
    -- both shapes of the advance step of `_fill_coeff` (fixes/C14-7) return the same rows under `SepAll`
    have hshape : ∀ zl w : Bool, fullCoeffsVW zl w tol (chans.map fun c => Chan.arr c.1 c.2) =
        fullCoeffsV zl tol (chans.map fun c => Chan.arr c.1 c.2) := by
      intro zl w
      exact fullCoeffsVW_eq zl w tol chans htol (by simpa [hchansdef] using hlsne)
        (by
          intro c hc
          obtain ⟨l, hl, rfl⟩ := List.mem_map.mp hc
          obtain ⟨h1, h2, _, h4, _⟩ := hspec l hl
          exact ⟨h2, h1, h4⟩)
        (by
          intro c hc
          obtain ⟨l, hl, rfl⟩ := List.mem_map.mp hc
          exact Or.inl (hspec l hl).2.2.1)
        hsep
    have hcomp := schedJ_compatible circular N enc henc isQ st0 σ hσ hsorted hpos hdisj
    -- the product of the generators' exponentials in scheduled order is the product of the `ws`
    have hprodJ : ordProdL (J.map fun j => MatExp.evolve (j.gen (labelHam circular N enc)) ((j.d : ℚ) : ℝ)) =
        ordProd (σ.map fun k => ws.getD k 1) := by
      rw [ordProd_eq_ordProdL]
      congr 1
      rw [hJdef]
      unfold schedJ
      rw [List.map_map]
      apply List.map_congr_left
      intro k hk
      have hk' : k < isQ.length := List.mem_range.mp (hσ.subset hk)
      obtain ⟨hlen, hget⟩ := mapM_some_get _ (isQ.map castI) ws hws
      rw [List.length_map] at hlen
      have hkw : k < ws.length := by omega
      have := hget k (by rw [List.length_map]; exact hk') hkw
      rw [List.getElem_map] at this
      simp only [Function.comp]
      rw [List.getD_eq_getElem?_getD (l := ws), List.getElem?_eq_getElem hkw, Option.getD_some]
      have ek : isQ.getD k dfltI = isQ[k] := by
        rw [List.getD_eq_getElem?_getD, List.getElem?_eq_getElem hk']; rfl
      rw [ek]
      exact (instrPropExp_gen circular N enc henc isQ[k] (st0.getD k 0) ws[k] this).symm
    refine ⟨_, _, fun zl w => (hshape zl w).trans ((hnorm zl).trans hfull), ?_, ?_⟩
    · have key := channels_sliceProd (labelHam circular N enc) thr Gen.concatSrc.cat.padTol hthr hτ pm final ms hms ls
        hlsne hnd J hJl hch hcomp
      simp only at key
      rw [key, hprodJ]
    · intro all hall hsub
      have hsub' : ∀ l ∈ ls, l ∈ all := by
        intro l hl
        obtain ⟨g, hgm, rfl⟩ := List.mem_map.mp hl
        exact hsub g hgm
      have hcs : (all.map fun l => optChan ((ls.zip chans).lookup l)) =
          (all.map fun l => if l ∈ ls then some (compiledJ thr Gen.concatSrc.cat.padTol pm final ms J l) else none).map
            optChan := by
        rw [List.map_map]
        apply List.map_congr_left
        intro l _
        simp only [Function.comp, hchansdef, lookup_zip_map]
      refine ⟨(all.map fun l => if l ∈ ls then some (compiledJ thr Gen.concatSrc.cat.padTol pm final ms J l) else none).map
        (rowOf (sortU (chans.map (·.1)).flatten)), fun zl w => ?_, ?_⟩
      · rw [hcs]
        exact fullCoeffsVW_mixed zl w tol htol chans _
          (by
            intro c
            constructor
            · intro h
              obtain ⟨l, _, hl⟩ := List.mem_map.mp h
              by_cases hls' : l ∈ ls
              · rw [if_pos hls'] at hl
                exact List.mem_map.mpr ⟨l, hls', Option.some.inj hl⟩
              · rw [if_neg hls'] at hl; exact absurd hl (by simp)
            · intro h
              obtain ⟨l, hl, rfl⟩ := List.mem_map.mp h
              exact List.mem_map.mpr ⟨l, hsub' l hl, by rw [if_pos hl]⟩)
          (by simpa [hchansdef] using hlsne)
          (by
            intro c hc
            obtain ⟨l, hl, rfl⟩ := List.mem_map.mp hc
            obtain ⟨h1, h2, _, h4, _⟩ := hspec l hl
            exact ⟨h2, h1, h4⟩)
          (by
            intro c hc
            obtain ⟨l, hl, rfl⟩ := List.mem_map.mp hc
            exact (hspec l hl).2.2.1)
          hsep
      · have key := channels_sliceProd_all (labelHam circular N enc) thr Gen.concatSrc.cat.padTol hthr hτ pm final ms hms
          all hall ls hlsne hsub' J hJl hch hcomp
        simp only at key
        rw [← hprodJ, ← key]
        congr 3
        rw [List.map_map]
        apply List.map_congr_left
        intro l _
        simp only [Function.comp]
        by_cases hl : l ∈ ls
        · rw [if_pos hl, if_pos hl]; rfl
        · rw [if_neg hl, if_neg hl]; rfl

end QipVerif.SpinChain
