import QipVerif.Lemmas.Digits
import QipVerif.Lemmas.CycC
import QipVerif.Lemmas.EmbedAlg
import QipVerif.Model.Circuit
import Mathlib.Algebra.BigOperators.Fin
import Mathlib.Data.Fintype.BigOperators
/-! Bridge between the exact list matrices over ℤ[ζ₁₆] (kernel-evaluated) and complex matrices on
`(ℂ²)^{⊗k}` (Mathlib): `toMat` is multiplicative and maps the exact embedding `embedE` to `Tg.embed`. -/
namespace QipVerif
open Embed

/-! ## Encoding of basis states: big-endian bit lists and flat indices -/
def bitsL {k : ℕ} (x : St k) : List Nat := List.ofFn (fun i => (x i).val)

@[simp] theorem bitsL_length {k : ℕ} (x : St k) : (bitsL x).length = k := by simp [bitsL]

def enc {k : ℕ} (x : St k) : Nat := undigits (List.replicate k 2) (bitsL x)

theorem enc_spec {k : ℕ} (x : St k) :
    enc x < 2 ^ k ∧ digits (List.replicate k 2) (enc x) = bitsL x := by
  have := digits_undigits (List.replicate k 2) (bitsL x) (by simp) (by
    intro i h1 h2
    simp only [bitsL, List.getElem_ofFn, List.getElem_replicate]
    exact (x ⟨i, by simpa using h1⟩).isLt)
  rw [prodL_replicate] at this
  exact this

theorem enc_lt {k : ℕ} (x : St k) : enc x < 2 ^ k := (enc_spec x).1
theorem digits_enc {k : ℕ} (x : St k) : digits (List.replicate k 2) (enc x) = bitsL x := (enc_spec x).2

theorem digits_two_lt (k X : Nat) : ∀ e ∈ digits (List.replicate k 2) X, e < 2 := by
  induction k generalizing X with
  | zero => simp [digits]
  | succ k ih =>
    intro e he
    simp only [List.replicate_succ, digits, List.mem_cons] at he
    rcases he with rfl | he
    · exact Nat.mod_lt _ (by norm_num)
    · exact ih _ e he

def dec (k : ℕ) (X : Nat) : St k := fun i =>
  ⟨(digits (List.replicate k 2) X).getD i.val 0 % 2, Nat.mod_lt _ (by norm_num)⟩

theorem bitsL_dec (k X : Nat) : bitsL (dec k X) = digits (List.replicate k 2) X := by
  apply List.ext_getElem
  · simp [digits_length]
  · intro i h1 h2
    simp only [bitsL, dec, List.getElem_ofFn]
    have hl : i < (digits (List.replicate k 2) X).length := h2
    rw [List.getD_eq_getElem?_getD, List.getElem?_eq_getElem hl, Option.getD_some]
    exact Nat.mod_eq_of_lt (digits_two_lt k X _ (List.getElem_mem hl))

theorem enc_dec (k X : Nat) (h : X < 2 ^ k) : enc (dec k X) = X := by
  unfold enc
  rw [bitsL_dec]
  exact undigits_digits _ _ (by rw [prodL_replicate]; exact h)

theorem dec_enc {k : ℕ} (x : St k) : dec k (enc x) = x := by
  funext i
  apply Fin.ext
  simp only [dec, digits_enc, bitsL]
  rw [List.getD_eq_getElem?_getD, List.getElem?_eq_getElem (by simp), Option.getD_some]
  simp only [List.getElem_ofFn]
  exact Nat.mod_eq_of_lt (x i).isLt

/-- basis states of k qubits ≃ flat indices 0 … 2^k − 1 (first qubit most significant) -/
def stEquiv (k : ℕ) : St k ≃ Fin (2 ^ k) where
  toFun x := ⟨enc x, enc_lt x⟩
  invFun X := dec k X.val
  left_inv x := dec_enc x
  right_inv X := Fin.ext (enc_dec k X.val X.isLt)

theorem sum_range_eq_sum_St (k : ℕ) (f : ℕ → ℂ) :
    ∑ l ∈ Finset.range (2 ^ k), f l = ∑ z : St k, f (enc z) := by
  rw [Finset.sum_range]
  exact (Fintype.sum_equiv (stEquiv k) (fun z => f (enc z)) (fun l => f l.val) (fun z => rfl)).symm

/-! ## Exact matrices as complex matrices -/
open Cyc in
noncomputable def toMat (k : ℕ) (A : CMat) : Matrix (St k) (St k) ℂ :=
  fun x y => Cyc.toC (A.get (enc x) (enc y))

/-- well-formed n × n list matrix -/
def WF (n : ℕ) (A : CMat) : Prop := A.length = n ∧ ∀ r ∈ A, r.length = n

theorem toC_dot (r c : List Cyc) (h : r.length ≤ c.length) :
    Cyc.toC (CMat.dot r c) = ∑ l ∈ Finset.range r.length, Cyc.toC (r.getD l Cyc.zero) * Cyc.toC (c.getD l Cyc.zero) := by
  induction r generalizing c with
  | nil => simp [CMat.dot]
  | cons a as ih =>
    match c, h with
    | b :: bs, h =>
      simp only [CMat.dot, Cyc.toC_add, Cyc.toC_mul, List.length_cons]
      rw [Finset.sum_range_succ', ih bs (by simpa using h)]
      simp [add_comm]

theorem CMat.get_mul (n : ℕ) (A B : CMat) (i j : ℕ) (hi : i < A.length) (hj : j < n) :
    (CMat.mul n A B).get i j = CMat.dot (A.getD i []) (CMat.col B j) := by
  simp only [CMat.get, CMat.mul, CMat.transpose, List.getD_eq_getElem?_getD, List.getElem?_map,
    List.getElem?_eq_getElem hi, Option.map_some, Option.getD_some, List.getElem?_range hj]

theorem toMat_mul (k : ℕ) (A B : CMat) (hA : WF (2 ^ k) A) (hB : WF (2 ^ k) B) :
    toMat k (CMat.mul (2 ^ k) A B) = toMat k A * toMat k B := by
  ext x y
  rw [Matrix.mul_apply]
  simp only [toMat]
  have hx : enc x < A.length := by rw [hA.1]; exact enc_lt x
  rw [CMat.get_mul _ _ _ _ _ hx (enc_lt y)]
  have hrow : (A.getD (enc x) []).length = 2 ^ k := by
    rw [List.getD_eq_getElem?_getD, List.getElem?_eq_getElem hx, Option.getD_some]
    exact hA.2 _ (List.getElem_mem hx)
  rw [toC_dot _ _ (by rw [hrow]; simp [CMat.col, hB.1]), hrow, sum_range_eq_sum_St]
  apply Finset.sum_congr rfl
  intro z _
  congr 2
  simp only [CMat.col, CMat.get]
  rw [List.getD_eq_getElem?_getD, List.getElem?_map]
  have hz : enc z < B.length := by rw [hB.1]; exact enc_lt z
  rw [List.getElem?_eq_getElem hz]
  simp [List.getD_eq_getElem?_getD, List.getElem?_eq_getElem hz]

theorem bitsL_getD {k : ℕ} (x : St k) (i : ℕ) (hi : i < k) : (bitsL x).getD i 0 = (x ⟨i, hi⟩).val := by
  rw [List.getD_eq_getElem?_getD, List.getElem?_eq_getElem (by simpa using hi), Option.getD_some]
  simp [bitsL]

/-- the placement given by a duplicate-free in-range list of qubits -/
def tgOfList (k : ℕ) (qs : List Nat) (hn : qs.Nodup) (hr : ∀ q ∈ qs, q < k) : Tg qs.length k where
  f := fun i => ⟨qs[i.val], hr _ (List.getElem_mem i.isLt)⟩
  inj := by
    intro a b hab
    have h1 : qs[a.val] = qs[b.val] := by simpa using congrArg Fin.val hab
    exact Fin.ext ((List.Nodup.getElem_inj_iff hn).mp h1)

theorem get_embedE (k : ℕ) (qs : List Nat) (U : CMat) (X Y : ℕ) (hX : X < 2 ^ k) (hY : Y < 2 ^ k) :
    (embedE k qs U).get X Y =
      match specEntry k qs (digits (List.replicate k 2) X) (digits (List.replicate k 2) Y) with
      | some (a, b) => U.get (undigits (List.replicate qs.length 2) a) (undigits (List.replicate qs.length 2) b)
      | none => Cyc.zero := by
  simp only [CMat.get, embedE, List.getD_eq_getElem?_getD, List.getElem?_map, List.getElem?_range hX,
    List.getElem?_range hY, Option.map_some, Option.getD_some]
  cases specEntry k qs (digits (List.replicate k 2) X) (digits (List.replicate k 2) Y) <;> rfl

theorem toMat_embedE (k : ℕ) (qs : List Nat) (U : CMat) (hn : qs.Nodup) (hr : ∀ q ∈ qs, q < k) :
    toMat k (embedE k qs U) = (tgOfList k qs hn hr).embed (toMat qs.length U) := by
  ext x y
  rw [Tg.embed_apply]
  simp only [toMat]
  rw [get_embedE k qs U _ _ (enc_lt x) (enc_lt y), digits_enc, digits_enc]
  have hmap : ∀ z : St k, qs.map (fun t => (bitsL z).getD t 0) = bitsL (z ∘ (tgOfList k qs hn hr).f) := by
    intro z
    apply List.ext_getElem
    · simp
    · intro i h1 h2
      have hi : i < qs.length := by simpa using h1
      simp only [List.getElem_map, bitsL, List.getElem_ofFn, Function.comp, tgOfList]
      exact bitsL_getD z qs[i] (hr _ (List.getElem_mem hi))
  have hcond : ((List.range k).all (fun i => qs.contains i || (bitsL x).getD i 0 == (bitsL y).getD i 0) = true)
      ↔ (∀ i, i ∉ Set.range (tgOfList k qs hn hr).f → x i = y i) := by
    rw [List.all_eq_true]
    constructor
    · intro h i hi
      have := h i.val (List.mem_range.mpr i.isLt)
      simp only [Bool.or_eq_true, List.contains_iff_mem, beq_iff_eq] at this
      rcases this with hq | hq
      · exfalso; apply hi
        obtain ⟨j, hj⟩ := List.getElem_of_mem hq
        obtain ⟨hjl, hje⟩ := hj
        exact ⟨⟨j, hjl⟩, Fin.ext (by simp [tgOfList, hje])⟩
      · rw [bitsL_getD x i.val i.isLt, bitsL_getD y i.val i.isLt] at hq
        exact Fin.ext hq
    · intro h i hi
      have hik : i < k := List.mem_range.mp hi
      simp only [Bool.or_eq_true, List.contains_iff_mem, beq_iff_eq]
      by_cases hq : i ∈ qs
      · exact Or.inl hq
      · right
        rw [bitsL_getD x i hik, bitsL_getD y i hik]
        have := h ⟨i, hik⟩ (by
          rintro ⟨j, hj⟩
          apply hq
          have : qs[j.val] = i := by simpa [tgOfList] using congrArg Fin.val hj
          exact this ▸ List.getElem_mem j.isLt)
        rw [this]
  unfold specEntry
  by_cases hc : (List.range k).all (fun i => qs.contains i || (bitsL x).getD i 0 == (bitsL y).getD i 0) = true
  · rw [if_pos hc, if_pos (hcond.mp hc)]
    simp only [hmap, mul_one]
    rfl
  · rw [if_neg hc, if_neg (fun h => hc (hcond.mpr h))]
    simp
theorem enc_inj {k : ℕ} {x y : St k} (h : enc x = enc y) : x = y := by
  have := congrArg (dec k) h
  rwa [dec_enc, dec_enc] at this

theorem get_ident (n i j : ℕ) (hi : i < n) (hj : j < n) :
    (CMat.ident n).get i j = if i = j then Cyc.one else Cyc.zero := by
  simp only [CMat.get, CMat.ident, List.getD_eq_getElem?_getD, List.getElem?_map, List.getElem?_range hi,
    List.getElem?_range hj, Option.map_some, Option.getD_some]

theorem toMat_ident (k : ℕ) : toMat k (CMat.ident (2 ^ k)) = 1 := by
  ext x y
  simp only [toMat, get_ident _ _ _ (enc_lt x) (enc_lt y)]
  by_cases h : x = y
  · subst h; simp
  · have : enc x ≠ enc y := fun he => h (enc_inj he)
    simp [this, Matrix.one_apply_ne h]

theorem toC_get_smul (c : Cyc) (A : CMat) (i j : ℕ) :
    Cyc.toC ((CMat.smul c A).get i j) = Cyc.toC c * Cyc.toC (A.get i j) := by
  simp only [CMat.get, CMat.smul, List.getD_eq_getElem?_getD, List.getElem?_map]
  cases hA : A[i]? with
  | none => simp
  | some r =>
    simp only [Option.map_some, Option.getD_some, List.getElem?_map]
    cases hr : r[j]? with
    | none => simp
    | some v => simp [Cyc.toC_mul]

theorem toMat_smul (k : ℕ) (c : Cyc) (A : CMat) : toMat k (CMat.smul c A) = Cyc.toC c • toMat k A := by
  ext x y
  simp [toMat, toC_get_smul]

theorem WF_mul (n : ℕ) (A B : CMat) (hA : WF n A) : WF n (CMat.mul n A B) := by
  refine ⟨by simp [CMat.mul, hA.1], ?_⟩
  intro r hr
  simp only [CMat.mul, List.mem_map] at hr
  obtain ⟨a, _, rfl⟩ := hr
  simp [CMat.transpose]

theorem WF_ident (n : ℕ) : WF n (CMat.ident n) := by
  refine ⟨by simp [CMat.ident], ?_⟩
  intro r hr
  simp only [CMat.ident, List.mem_map] at hr
  obtain ⟨a, _, rfl⟩ := hr
  simp

theorem WF_smul (n : ℕ) (c : Cyc) (A : CMat) (hA : WF n A) : WF n (CMat.smul c A) := by
  refine ⟨by simp [CMat.smul, hA.1], ?_⟩
  intro r hr
  simp only [CMat.smul, List.mem_map] at hr
  obtain ⟨a, ha, rfl⟩ := hr
  simp [hA.2 a ha]

theorem WF_embedE (k : ℕ) (qs : List Nat) (U : CMat) : WF (2 ^ k) (embedE k qs U) := by
  refine ⟨by simp [embedE], ?_⟩
  intro r hr
  simp only [embedE, List.mem_map] at hr
  obtain ⟨a, _, rfl⟩ := hr
  simp

/-! ## dyadic-scaled matrices -/
noncomputable def toMatD (k : ℕ) (D : DMat) : Matrix (St k) (St k) ℂ := ((1 : ℂ) / 2 ^ D.e) • toMat k D.m

theorem toMatD_mul (k : ℕ) (A B : DMat) (hA : WF (2 ^ k) A.m) (hB : WF (2 ^ k) B.m) :
    toMatD k (DMat.mul (2 ^ k) A B) = toMatD k A * toMatD k B := by
  simp only [toMatD, DMat.mul, toMat_mul k _ _ hA hB, Matrix.smul_mul, Matrix.mul_smul, smul_smul, pow_add]
  congr 1
  field_simp

theorem toMatD_ident (k : ℕ) : toMatD k (DMat.ident (2 ^ k)) = 1 := by
  simp [toMatD, DMat.ident, toMat_ident]

theorem toMatD_smul (k : ℕ) (c : Cyc) (A : DMat) : toMatD k (DMat.smul c A) = Cyc.toC c • toMatD k A := by
  simp only [toMatD, DMat.smul, toMat_smul, smul_smul, mul_comm]

/-- the kernel-decided equality check is sound -/
theorem eqv_sound (k : ℕ) (A B : DMat) (h : DMat.eqv A B = true) : toMatD k A = toMatD k B := by
  simp only [DMat.eqv, decide_eq_true_eq] at h
  have h' := congrArg (toMat k) h
  rw [toMat_smul, toMat_smul, Cyc.toC_ofInt, Cyc.toC_ofInt] at h'
  simp only [toMatD]
  have hA : (2 : ℂ) ^ A.e ≠ 0 := pow_ne_zero _ (by norm_num)
  have hB : (2 : ℂ) ^ B.e ≠ 0 := pow_ne_zero _ (by norm_num)
  push_cast at h'
  have : toMat k A.m = ((2 : ℂ) ^ A.e / 2 ^ B.e) • toMat k B.m := by
    have := congrArg (fun M => ((1 : ℂ) / 2 ^ B.e) • M) h'
    simp only [smul_smul] at this
    rw [show (1 : ℂ) / 2 ^ B.e * 2 ^ B.e = 1 by field_simp, one_smul] at this
    rw [this]; congr 1; ring
  rw [this, smul_smul]
  congr 1
  field_simp

end QipVerif
