import QipVerif.Model.EmbedArgs
import QipVerif.Lemmas.EmbedCount
/-! Helper lemmas for the argument handling of `expand_operator` (C08). Core Lean + Batteries only. -/
namespace QipVerif.EmbedArgs
open QipVerif.Embed

theorem pyGetAll_lt (dims : List Nat) (nn td : List Nat)
    (h : pyGetAll dims (nn.map Int.ofNat) = some td) : ∀ t ∈ nn, t < dims.length := by
  induction nn generalizing td with
  | nil => simp
  | cons a as ih =>
    simp only [List.map_cons, pyGetAll] at h
    simp only [Int.ofNat_eq_natCast] at h
    cases h1 : pyGet dims (a : Int) with
    | none => simp [h1] at h
    | some v =>
      cases h2 : pyGetAll dims (as.map Int.ofNat) with
      | none => simp [h1, h2] at h
      | some w =>
        intro t ht
        rcases List.mem_cons.mp ht with rfl | ht
        · simp only [pyGet, Int.natCast_nonneg, ↓reduceIte, Int.toNat_natCast] at h1
          by_cases hl : t < dims.length
          · exact hl
          · rw [List.getElem?_eq_none (by omega)] at h1; simp at h1
        · exact ih w h2 t ht

/-- `dims[t]` succeeded for every target: none lies below `-len(dims)` -/
theorem pyGetAll_ge (dims : List Nat) (ts : List Int) (td : List Nat) (h : pyGetAll dims ts = some td) :
    ts.any (fun t => decide (t < -(dims.length : Int))) = false := by
  induction ts generalizing td with
  | nil => rfl
  | cons a as ih =>
    simp only [pyGetAll] at h
    cases h1 : pyGet dims a with
    | none => simp [h1] at h
    | some v =>
      cases h2 : pyGetAll dims as with
      | none => simp [h1, h2] at h
      | some w =>
        simp only [List.any_cons, ih w h2, Bool.or_false, decide_eq_false_iff_not, Int.not_lt]
        unfold pyGet at h1
        by_cases h0 : 0 ≤ a
        · omega
        · simp only [h0, ↓reduceIte] at h1
          by_cases h3 : 0 ≤ (dims.length : Int) + a
          · omega
          · simp [h3] at h1

/-- the rest positions of a register of length `N` never reach `dims.length = N` -/
theorem restPos_any_false (N : Nat) (nn : List Nat) : (restPos N nn).any (fun i => N ≤ i) = false := by
  rw [List.any_eq_false]
  intro i hi
  have := (mem_restPos.mp hi).1
  simp; omega

/-- facts established by an accepted (non-cyclic) call -/
theorem expandOne_ok (N : Nat) (dims : List Nat) (ts : List Int) (opL opR reg nn : List Nat)
    (h : expandOne N dims ts opL opR = .ok (reg, nn)) :
    reg = dims.take N ∧ N ≤ dims.length ∧ opL = opR ∧ ts = nn.map Int.ofNat ∧ nn.Nodup ∧ (∀ t ∈ nn, t < N) ∧
      nn.map (fun t => reg.getD t 0) = opL := by
  unfold expandOne at h
  cases hc : checkArgs N dims ts opL opR with
  | error e => simp [hc] at h
  | ok u =>
  cases hb : buildChecks N dims ts with
  | error e => simp [hc, hb] at h
  | ok nn' =>
  simp only [hc, hb, Except.ok.injEq, Prod.mk.injEq] at h
  obtain ⟨hreg, hnn⟩ := h
  subst hnn
  -- unpack the checks
  unfold checkArgs at hc
  by_cases h1 : ts.length ≠ opL.length
  · simp [h1] at hc
  by_cases h2 : ¬ (ts.all fun t => decide (t < (N : Int))) = true
  · simp [h1, h2] at hc
  have h2 := Decidable.not_not.mp h2
  by_cases h3 : opL ≠ opR
  · simp [h1, h2, h3] at hc
  cases h4 : pyGetAll dims ts with
  | none => simp [h1, h2, h3, h4] at hc
  | some td =>
  by_cases h5 : td ≠ opL
  · simp [h1, h2, h3, h4, h5] at hc
  have h1 := Decidable.not_not.mp h1
  have h3 := Decidable.not_not.mp h3
  have h5 := Decidable.not_not.mp h5
  subst h5
  unfold buildChecks at hb
  by_cases h9 : ts.any (fun t => decide (t < -(N : Int))) = true
  · simp [h9] at hb
  by_cases h6 : (restPos N (nonneg ts)).length > N - ts.length
  · simp [h9, h6] at hb
  by_cases h7 : (restPos N (nonneg ts)).any (fun i => decide (dims.length ≤ i)) = true
  · simp [h9, h6, h7] at hb
  by_cases h8 : (restPos N (nonneg ts)).length + ts.length ≠ N
  · simp [h9, h6, h7, h8] at hb
  simp only [h9, h6, h7, h8, ↓reduceIte, Bool.false_eq_true, Except.ok.injEq] at hb
  subst hb
  have hall : ∀ t ∈ ts, t < (N : Int) := by simpa [List.all_eq_true] using h2
  have hlt := nonneg_lt ts N hall
  have hle := nonneg_length_le ts
  have hnd : (nonneg ts).Nodup := nodup_of_restPos_le N _ hlt (by omega)
  have hfull := restPos_length_of_nodup N _ hnd hlt
  have heq : ts = (nonneg ts).map Int.ofNat := nonneg_full ts (by omega)
  have hdl : ∀ t ∈ nonneg ts, t < dims.length := pyGetAll_lt dims (nonneg ts) td (by rw [← heq]; exact h4)
  have hN : N ≤ dims.length := by
    apply Decidable.byContradiction
    intro hlt'
    have hp : dims.length < N := by omega
    by_cases hm : dims.length ∈ nonneg ts
    · exact absurd (hdl _ hm) (Nat.lt_irrefl _)
    · apply h7
      rw [List.any_eq_true]
      exact ⟨dims.length, mem_restPos.mpr ⟨hp, hm⟩, by simp⟩
  refine ⟨hreg.symm, hN, h3, heq, hnd, hlt, ?_⟩
  have h4' := pyGetAll_ofNat dims (nonneg ts) hdl
  rw [← heq, h4] at h4'
  rw [Option.some.inj h4', ← hreg]
  apply List.map_congr_left
  intro t ht
  have := hlt t ht
  simp [List.getD_eq_getElem?_getD, this]

theorem checkArgs_of_wf (dims : List Nat) (nn od : List Nat) (hr : ∀ t ∈ nn, t < dims.length)
    (hd : nn.map (fun t => dims.getD t 0) = od) :
    checkArgs dims.length dims (nn.map Int.ofNat) od od = .ok () := by
  have hall : ((nn.map Int.ofNat).all fun t => decide (t < (dims.length : Int))) = true := by
    rw [List.all_eq_true]; intro t ht
    obtain ⟨n, hn, rfl⟩ := List.mem_map.mp ht
    simpa using hr n hn
  subst hd
  simp [checkArgs, hall, pyGetAll_ofNat dims nn hr]

/-- the results of the cyclic loop are the single calls on the shifted targets -/
theorem cyclicLoop_ok (N : Nat) (dims : List Nat) (ts : List Int) (opL opR : List Nat) (is : List Nat)
    (rs : List (List Nat × List Nat)) (h : cyclicLoop N dims ts opL opR is = .ok rs) :
    rs.length = is.length ∧ ∀ j (h1 : j < is.length) (h2 : j < rs.length),
      expandOne N dims (ts.map (fun t => (t + (is[j] : Int)) % (N : Int))) opL opR = .ok rs[j] := by
  induction is generalizing rs with
  | nil =>
    simp only [cyclicLoop, Except.ok.injEq] at h
    subst h; simp
  | cons i is ih =>
    unfold cyclicLoop at h
    cases h1 : expandOne N dims (ts.map (fun t => (t + (i : Int)) % (N : Int))) opL opR with
    | error e => simp [h1] at h
    | ok r =>
      cases h2 : cyclicLoop N dims ts opL opR is with
      | error e => simp [h1, h2] at h
      | ok rs' =>
        simp only [h1, h2, Except.ok.injEq] at h
        subst h
        obtain ⟨hl, hj⟩ := ih rs' h2
        refine ⟨by simp [hl], ?_⟩
        intro j hj1 hj2
        cases j with
        | zero => simpa using h1
        | succ j => simpa using hj j (by simpa using hj1) (by simpa using hj2)

end QipVerif.EmbedArgs
