import QipVerif.Model.EmbedFlat
import QipVerif.Lemmas.Digits
import Mathlib.Data.List.Perm.Basic
import Mathlib.Algebra.BigOperators.Group.List.Basic
/-!
# Index arithmetic of QuTiP's `_Indexer` (C08, flat-index model)

* `digits_getD`: the digit lists of `Model/Embed.lean` are the usual flat-index digits `digitAt`;
* `undigits_eq_sum`: a flat index is the weighted sum of its digits;
* `cumprod_get`: the constructor's `cumprod` loop leaves at `order[p]` the weight of position `p` in the
  new mixed radix;
* `single_eq_sum`: `_Indexer.single` (with its early `break`) is `Σ_q cumprod[q] * digit_q`;
* `single_eq_undigits`: hence `single idx` is the flat index whose digit `p` is digit `order[p]` of `idx`.
-/
namespace QipVerif.EmbedFlat
open QipVerif.Embed

theorem prodL_append (a b : List Nat) : prodL (a ++ b) = prodL a * prodL b := by
  induction a with
  | nil => simp [prodL]
  | cons d ds ih => simp [prodL, ih, Nat.mul_assoc]

theorem prodL_eq_prod (l : List Nat) : prodL l = l.prod := by
  induction l with
  | nil => rfl
  | cons d ds ih => simp [prodL, ih]

theorem prodL_drop (l : List Nat) (i : Nat) (h : i < l.length) :
    prodL (l.drop i) = l[i] * prodL (l.drop (i + 1)) := by
  rw [List.drop_eq_getElem_cons h]; rfl

theorem prodL_split (l : List Nat) (i : Nat) (h : i < l.length) :
    prodL l = prodL (l.take i) * (l[i] * prodL (l.drop (i + 1))) := by
  conv_lhs => rw [← List.take_append_drop i l]
  rw [prodL_append, prodL_drop l i h]

/-- the digit lists of the digit-tuple model are the flat-index digits -/
theorem digits_getD (dims : List Nat) (idx q : Nat) (hq : q < dims.length) :
    (digits dims idx).getD q 0 = digitAt dims idx q := by
  induction dims generalizing idx q with
  | nil => simp at hq
  | cons d ds ih =>
    cases q with
    | zero => simp [digits, digitAt]
    | succ q =>
      have hq' : q < ds.length := by simpa using hq
      have := ih (idx % prodL ds) q hq'
      simp only [digits, List.getD_cons_succ, this]
      simp only [digitAt, List.drop_succ_cons, List.getD_cons_succ]
      rw [prodL_split ds q hq']
      have e : prodL (ds.take q) * (ds[q] * prodL (ds.drop (q + 1)))
          = prodL (ds.drop (q + 1)) * (prodL (ds.take q) * ds[q]) := by ac_rfl
      rw [e, Nat.mod_mul_right_div_self]
      have : ds.getD q 0 = ds[q] := by simp [List.getD_eq_getElem?_getD, hq']
      rw [this, Nat.mod_mul_left_mod]

theorem digitAt_lt (dims : List Nat) (idx q : Nat) (hq : q < dims.length) (hpos : ∀ d ∈ dims, 0 < d) :
    digitAt dims idx q < dims.getD q 0 := by
  unfold digitAt
  apply Nat.mod_lt
  have : dims.getD q 0 = dims[q] := by simp [List.getD_eq_getElem?_getD, hq]
  rw [this]; exact hpos _ (List.getElem_mem hq)

/-- a flat index is the weighted sum of its digits -/
theorem undigits_eq_sum (dims w : List Nat) :
    undigits dims w = ((List.range dims.length).map (fun p => prodL (dims.drop (p + 1)) * w.getD p 0)).sum := by
  induction dims generalizing w with
  | nil => simp [undigits]
  | cons d ds ih =>
    cases w with
    | nil => simp [undigits]
    | cons v vs =>
      simp only [undigits, List.length_cons, List.range_succ_eq_map, List.map_cons, List.sum_cons,
        List.map_map, ih vs]
      simp [Nat.mul_comm]
      rfl

/-! ### the `cumprod` loop -/

theorem cumLoop_length (order nd : List Nat) (i prev : Nat) (c : List Nat) :
    (cumLoop order nd i prev c).length = c.length := by
  induction i generalizing prev c with
  | zero => rfl
  | succ i ih => simp [cumLoop, ih]

theorem cumLoop_get (order nd : List Nat) (hnd : order.Nodup) (hl : nd.length = order.length)
    (i : Nat) (hi : i < order.length) (prev : Nat) (c : List Nat)
    (hprev : prev = prodL (nd.drop (i + 1))) (j : Nat) (hj : j < c.length) :
    (cumLoop order nd i prev c)[j]? =
      if order.idxOf j < i then some (prodL (nd.drop (order.idxOf j + 1))) else c[j]? := by
  induction i generalizing prev c with
  | zero => simp [cumLoop]
  | succ i ih =>
    have hi' : i < order.length := by omega
    have hp : prev * nd.getD (i + 1) 0 = prodL (nd.drop (i + 1)) := by
      have h1 : i + 1 < nd.length := by omega
      rw [prodL_drop nd (i + 1) h1, hprev, Nat.mul_comm]
      simp [List.getD_eq_getElem?_getD, h1]
    simp only [cumLoop]
    rw [ih hi' _ _ hp (by simpa using hj), hp]
    have ho : order.getD i 0 = order[i] := by simp [List.getD_eq_getElem?_getD, hi']
    rw [ho]
    by_cases h1 : order.idxOf j < i
    · simp [h1, Nat.lt_succ_of_lt h1]
    · by_cases h2 : order.idxOf j = i
      · have hji : order[i] = j := by
          have := List.getElem_idxOf (xs := order) (x := j) (by rw [h2]; exact hi')
          simpa [h2] using this
        simp [h2, hji, hj]
      · have hne : order[i] ≠ j := by
          intro h
          apply h2
          rw [← h]; exact hnd.idxOf_getElem i hi'
        have : ¬ order.idxOf j < i + 1 := by omega
        simp [h1, this, hne]

/-- after the constructor, `cumprod[j]` is the weight of the position of `j` in `order` -/
theorem cumprod_get (order nd : List Nat) (hnd : order.Nodup) (hl : nd.length = order.length)
    (j : Nat) (hj : j < order.length) (hm : j ∈ order) :
    (cumprod order nd).getD j 0 = prodL (nd.drop (order.idxOf j + 1)) := by
  have hn : order.length - 1 < order.length := by omega
  have hidx : order.idxOf j < order.length := List.idxOf_lt_length_of_mem hm
  unfold cumprod
  rw [List.getD_eq_getElem?_getD]
  rw [cumLoop_get order nd hnd hl _ hn 1 _ (by
    rw [Nat.sub_add_cancel (by omega), ← hl, List.drop_length]; rfl) j (by simpa using hj)]
  by_cases h1 : order.idxOf j < order.length - 1
  · simp [h1]
  · have h2 : order.idxOf j = order.length - 1 := by omega
    have ho : order.getD (order.length - 1) 0 = j := by
      have := List.getElem_idxOf (xs := order) (x := j) hidx
      simp only [h2] at this
      simp [List.getD_eq_getElem?_getD, hn, this]
    have hd : nd.drop (order.length - 1 + 1) = [] := by
      rw [Nat.sub_add_cancel (by omega), ← hl, List.drop_length]
    rw [ho]
    simp [h2, hj, hd, prodL]

/-! ### `_Indexer.single` -/

theorem singleLoop_zero (dimsA cum : List Nat) (i out : Nat) : singleLoop dimsA cum i 0 out = out := by
  induction i with
  | zero => rfl
  | succ i _ => simp [singleLoop]

/-- the early `break` changes nothing -/
theorem singleLoop_succ (dimsA cum : List Nat) (i idx out : Nat) :
    singleLoop dimsA cum (i + 1) idx out =
      singleLoop dimsA cum i (idx / dimsA.getD i 0) (out + cum.getD i 0 * (idx % dimsA.getD i 0)) := by
  simp only [singleLoop]
  by_cases h : idx / dimsA.getD i 0 = 0
  · rw [if_pos h, h, singleLoop_zero]
  · rw [if_neg h]

theorem digitAt_take_succ (dimsA : List Nat) (i idx q : Nat) (hi : i < dimsA.length) (hq : q < i) :
    digitAt (dimsA.take (i + 1)) idx q = digitAt (dimsA.take i) (idx / dimsA.getD i 0) q := by
  have hd : dimsA.getD i 0 = dimsA[i] := by simp [List.getD_eq_getElem?_getD, hi]
  unfold digitAt
  rw [List.take_succ_eq_append_getElem hi, hd]
  rw [List.drop_append_of_le_length (by simp; omega), prodL_append]
  have : prodL [dimsA[i]] = dimsA[i] := by simp [prodL]
  rw [this, Nat.div_div_eq_div_mul, Nat.mul_comm]
  congr 1
  simp only [List.getD_eq_getElem?_getD]
  rw [List.getElem?_append_left (by simp; omega)]

theorem digitAt_take_last (dimsA : List Nat) (i idx : Nat) (hi : i < dimsA.length) :
    digitAt (dimsA.take (i + 1)) idx i = idx % dimsA.getD i 0 := by
  have hd : dimsA.getD i 0 = dimsA[i] := by simp [List.getD_eq_getElem?_getD, hi]
  unfold digitAt
  have h1 : (dimsA.take (i + 1)).drop (i + 1) = [] := by
    apply List.drop_eq_nil_of_le; simp; omega
  have h2 : (dimsA.take (i + 1)).getD i 0 = dimsA[i] := by
    simp [List.getD_eq_getElem?_getD, hi]
  rw [h1, h2, hd]; simp [prodL]

theorem singleLoop_eq_sum (dimsA cum : List Nat) (i : Nat) (hi : i ≤ dimsA.length) (idx out : Nat) :
    singleLoop dimsA cum i idx out =
      out + ((List.range i).map (fun q => cum.getD q 0 * digitAt (dimsA.take i) idx q)).sum := by
  induction i generalizing idx out with
  | zero => simp [singleLoop]
  | succ i ih =>
    have hi' : i < dimsA.length := by omega
    rw [singleLoop_succ, ih (by omega), List.range_succ, List.map_append, List.sum_append]
    simp only [List.map_cons, List.map_nil, List.sum_cons, List.sum_nil, Nat.add_zero]
    rw [digitAt_take_last dimsA i idx hi']
    have : (List.range i).map (fun q => cum.getD q 0 * digitAt (dimsA.take (i + 1)) idx q)
        = (List.range i).map (fun q => cum.getD q 0 * digitAt (dimsA.take i) (idx / dimsA.getD i 0) q) := by
      apply List.map_congr_left
      intro q hq
      rw [digitAt_take_succ dimsA i idx q hi' (List.mem_range.mp hq)]
    rw [this]; omega

/-- `_Indexer.single(idx) = Σ_q cumprod[q] * digit_q(idx)` -/
theorem single_eq_sum (dimsA cum : List Nat) (idx : Nat) :
    single dimsA cum idx =
      ((List.range dimsA.length).map (fun q => cum.getD q 0 * digitAt dimsA idx q)).sum := by
  unfold single
  rw [singleLoop_eq_sum dimsA cum _ (Nat.le_refl _), List.take_length]; simp

theorem map_eq_range_map {α : Type} (l : List Nat) (g : Nat → α) :
    l.map g = (List.range l.length).map (fun p => g (l.getD p 0)) := by
  apply List.ext_getElem
  · simp
  · intro i h1 h2
    simp [List.getD_eq_getElem?_getD, (by simpa using h1 : i < l.length)]

/-- With the constructor's `cumprod`, `single idx` is the flat index (radix `dims`) whose digit at
position `p` is digit `order[p]` of `idx` (radix `dimsA`). -/
theorem single_eq_undigits (dimsA dims order : List Nat) (hperm : order.Perm (List.range dims.length))
    (hlA : dimsA.length = dims.length) (idx : Nat) :
    single dimsA (cumprod order dims) idx =
      undigits dims (order.map (fun o => (digits dimsA idx).getD o 0)) := by
  have hlo : order.length = dims.length := by rw [hperm.length_eq, List.length_range]
  have hnd : order.Nodup := hperm.symm.nodup List.nodup_range
  rw [single_eq_sum, undigits_eq_sum, hlA]
  -- the summand as a function of the *argument* position
  let g : Nat → Nat := fun q => prodL (dims.drop (order.idxOf q + 1)) * (digits dimsA idx).getD q 0
  have h1 : (List.range dims.length).map (fun q => (cumprod order dims).getD q 0 * digitAt dimsA idx q)
      = (List.range dims.length).map g := by
    apply List.map_congr_left
    intro q hq
    have hq' : q < dims.length := List.mem_range.mp hq
    have hm : q ∈ order := hperm.symm.subset hq
    show _ = prodL (dims.drop (order.idxOf q + 1)) * (digits dimsA idx).getD q 0
    rw [cumprod_get order dims hnd hlo.symm q (by omega) hm, digits_getD dimsA idx q (by omega)]
  have h2 : ((List.range dims.length).map g).sum = (order.map g).sum :=
    (hperm.symm.map g).sum_eq
  rw [h1, h2, map_eq_range_map order g, hlo]
  congr 1
  apply List.map_congr_left
  intro p hp
  have hp' : p < order.length := by rw [hlo]; exact List.mem_range.mp hp
  have ho : order.getD p 0 = order[p] := by simp [List.getD_eq_getElem?_getD, hp']
  simp only [g, ho, hnd.idxOf_getElem p hp']
  congr 1
  simp [List.getD_eq_getElem?_getD, hp']

end QipVerif.EmbedFlat
