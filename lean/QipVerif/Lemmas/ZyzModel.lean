import QipVerif.Lemmas.ZyzUnitary
import Mathlib.Analysis.SpecialFunctions.Pow.Complex

/-!
# C17 — model of `_angles_for_ZYZ` and of the three method functions

The *non-linear* part (the four atoms) is transcribed by hand from
`decompose_single_qubit_gate.py:_angles_for_ZYZ` and cross-checked against the real function in
Python floats on every run (harness `py/props/c17.py`, `model_atoms`).  Everything *linear* — how
the atoms are combined into alpha/theta/beta/global phase, the signs of the returned tuple, the
gate tuples of the methods — comes from the REGENERATED `Gen/ZyzTables.lean`.

Code being modelled (`n` is `normalization_constant`):
```
n      = np.sqrt(np.linalg.det(input_array))
gpa    = -cmath.phase(1 / n)
V      = input_array * (1 / n)
a_neg  = np.real(V[0][0]) - 1j*np.imag(V[0][0]);  b_neg likewise from V[0][1]
alpha  = phase(a_neg) - phase(b_neg);  beta = phase(a_neg) + phase(b_neg)
theta  = 2*np.arctan2(|b_neg|, |a_neg|)
return (alpha, -theta, beta, gpa)
```
-/
namespace QipVerif.Zyz
open Matrix Complex
open QipVerif.Gen.Zyz

/-- `np.sqrt(z)`: the principal square root (`z ^ (1/2)`, branch cut on the negative real axis) -/
noncomputable def csqrt (z : ℂ) : ℂ := z ^ ((1 : ℂ) / 2)

/-- `normalization_constant = np.sqrt(np.linalg.det(input_array))` -/
noncomputable def normConst (U : M2) : ℂ := csqrt U.det

/-- `input_array * (1 / normalization_constant)` (entrywise) -/
noncomputable def normalised (U : M2) (n : ℂ) : M2 := fun i j => U i j * (1 / n)

/-- `np.real(z) - 1j * np.imag(z)` -/
noncomputable def negConj (z : ℂ) : ℂ := (z.re : ℂ) - I * (z.im : ℂ)

/-- `np.arctan2(y, x)` for real `x y`: the argument of `x + i·y` (0 at the origin, as numpy) -/
noncomputable def arctan2 (y x : ℝ) : ℝ := Complex.arg ⟨x, y⟩

/-- `cmath.phase(a_negative)` -/
noncomputable def atomA (U : M2) (n : ℂ) : ℝ := Complex.arg (negConj (normalised U n 0 0))
/-- `cmath.phase(b_negative)` -/
noncomputable def atomB (U : M2) (n : ℂ) : ℝ := Complex.arg (negConj (normalised U n 0 1))
/-- `np.arctan2(np.absolute(b_negative), np.absolute(a_negative))` -/
noncomputable def atomT (U : M2) (n : ℂ) : ℝ :=
  arctan2 ‖negConj (normalised U n 0 1)‖ ‖negConj (normalised U n 0 0)‖
/-- `cmath.phase(1 / normalization_constant)` -/
noncomputable def atomN (n : ℂ) : ℝ := Complex.arg (1 / n)

/-- value of a local variable of `_angles_for_ZYZ` given by its generated linear form -/
noncomputable def localVal (l : Lin) (U : M2) (n : ℂ) : ℝ :=
  l.eval (atomA U n) (atomB U n) (atomT U n) (atomN n)

def zeroLin : Lin := ⟨⟨0, 1⟩, ⟨0, 1⟩, ⟨0, 1⟩, ⟨0, 1⟩, ⟨0, 1⟩⟩

/-- component `k` of the tuple `_angles_for_ZYZ` returns, when `normalization_constant = n` -/
noncomputable def ret (U : M2) (n : ℂ) (k : Nat) : ℝ :=
  (anglesReturn.getD k zeroLin).eval (localVal localAlpha U n) (localVal localTheta U n)
    (localVal localBeta U n) (localVal localPhase U n)

/-- the gate list a method returns for input `U`, when `normalization_constant = n` -/
noncomputable def gatesWith (t : List GateT) (U : M2) (n : ℂ) : List (GName × ℝ) :=
  inst t (ret U n 0) (ret U n 1) (ret U n 2) (ret U n 3)

/-- the gate list a method returns for input `U` (principal square root, as numpy) -/
noncomputable def gatesOf (t : List GateT) (U : M2) : List (GName × ℝ) := gatesWith t U (normConst U)

/-! ## the returned tuple and the instantiated method tuples in closed form
(these are the lemmas that break when a sign, an order or a coefficient changes in the source) -/

theorem ret_0 (U : M2) (n : ℂ) : ret U n 0 = atomA U n - atomB U n := by
  simp [ret, localVal, anglesReturn, localAlpha, localTheta, localBeta, localPhase, Lin.eval, Coef.val]
  ring
theorem ret_1 (U : M2) (n : ℂ) : ret U n 1 = -(2 * atomT U n) := by
  simp [ret, localVal, anglesReturn, localAlpha, localTheta, localBeta, localPhase, Lin.eval, Coef.val]
theorem ret_2 (U : M2) (n : ℂ) : ret U n 2 = atomA U n + atomB U n := by
  simp [ret, localVal, anglesReturn, localAlpha, localTheta, localBeta, localPhase, Lin.eval, Coef.val]
theorem ret_3 (U : M2) (n : ℂ) : ret U n 3 = -atomN n := by
  simp [ret, localVal, anglesReturn, localAlpha, localTheta, localBeta, localPhase, Lin.eval, Coef.val]

theorem inst_zyz (r0 r1 r2 r3 : ℝ) :
    inst zyz r0 r1 r2 r3 = [(.RZ, r0), (.RY, r1), (.RZ, r2), (.GLOBALPHASE, r3)] := by
  simp [inst, zyz, Lin.eval, Coef.val]

theorem inst_zxz (r0 r1 r2 r3 : ℝ) :
    inst zxz r0 r1 r2 r3 =
      [(.RZ, r0 - Real.pi / 2), (.RX, r1), (.RZ, r2 + Real.pi / 2), (.GLOBALPHASE, r3)] := by
  simp [inst, zxz, Lin.eval, Coef.val]
  constructor <;> ring

theorem inst_zyzPauliX (r0 r1 r2 r3 : ℝ) :
    inst zyzPauliX r0 r1 r2 r3 =
      [(.RZ, r0), (.RY, r1 / 2), (.X, 0), (.RY, -r1 / 2), (.RZ, -(r0 + r2) / 2), (.X, 0),
       (.RZ, (-r0 + r2) / 2), (.GLOBALPHASE, r3)] := by
  simp [inst, zyzPauliX, Lin.eval, Coef.val]
  refine ⟨?_, ?_, ?_, ?_⟩ <;> ring

end QipVerif.Zyz
