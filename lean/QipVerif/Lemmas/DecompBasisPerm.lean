import QipVerif.Model.Decompose
/-!
# C03 — the list form of the basis is read as a set

`resolve_gates` uses the basis list only through membership tests and through the number of
rotations it names; so any reordering of the list gives the same result (for arbitrary tables).
-/
namespace QipVerif.Decomp
open QipVerif

theorem dispatch_congr (T : Tables) (b2 b2' : List GName) (inB inB' : GName → Bool)
    (hb : b2.contains = b2'.contains) (hi : inB = inB') (g : Gate) :
    dispatch T b2 inB g = dispatch T b2' inB' g := by
  unfold dispatch; rw [hb, hi]

theorem resolveAll_congr (T : Tables) (b2 b2' : List GName) (inB inB' : GName → Bool)
    (hb : b2.contains = b2'.contains) (hi : inB = inB') (gs : List Gate) :
    resolveAll T b2 inB gs = resolveAll T b2' inB' gs := by
  induction gs with
  | nil => rfl
  | cons g gs ih =>
    unfold resolveAll resolveOne
    rw [ih, dispatch_congr T b2 b2' inB inB' hb hi]

theorem elim1q_congr (b1 b1' : List GName) (h : b1.contains = b1'.contains) (g : Gate) :
    elim1q b1 g = elim1q b1' g := by
  unfold elim1q; rw [h]

theorem contains_perm {l l' : List GName} (h : l.Perm l') : l.contains = l'.contains := by
  funext n
  have := h.mem_iff (a := n)
  by_cases hm : n ∈ l
  · simp [hm, this.mp hm]
  · have hm' : n ∉ l' := fun x => hm (this.mpr x)
    simp [hm, hm']

/-- **The list form is a set**: reordering the basis list does not change what `resolve_gates` returns. -/
theorem resolve_perm (T : Tables) (keep : Bool) (bs bs' : List GName) (h : bs.Perm bs') (gs : List Gate) :
    resolve T keep (.list bs) gs = resolve T keep (.list bs') gs := by
  have h2 := h.filter basis2qValid.contains
  have h1 := h.filter (fun g => !basis2qValid.contains g && basis1qValid.contains g)
  have hl := h1.length_eq
  unfold resolve splitBasis
  simp only [hl]
  by_cases hc : (bs'.filter (fun g => !basis2qValid.contains g && basis1qValid.contains g)).length = 1
  · simp only [hc, if_true]
  · simp only [hc, if_false]
    have hb1 : (if (bs.filter (fun g => !basis2qValid.contains g && basis1qValid.contains g)).length = 0
          then [GName.RX, .RY, .RZ] else bs.filter (fun g => !basis2qValid.contains g && basis1qValid.contains g)).Perm
        (if (bs'.filter (fun g => !basis2qValid.contains g && basis1qValid.contains g)).length = 0
          then [GName.RX, .RY, .RZ] else bs'.filter (fun g => !basis2qValid.contains g && basis1qValid.contains g)) := by
      rw [hl]; split
      · exact List.Perm.refl _
      · exact h1
    have hi : (fun n => bs.contains n) = fun n => bs'.contains n := by
      have := contains_perm h; funext n; rw [this]
    rw [resolveAll_congr T _ _ _ _ (contains_perm h2) hi gs]
    rw [contains_perm h2]
    rw [hl] at hb1
    have hlen := hb1.length_eq
    have he := funext (elim1q_congr _ _ (contains_perm hb1))
    rw [hlen, he]

end QipVerif.Decomp
