import QipVerif.Lemmas.ConcatPoints
/-! The repaired idle-gap test (fixes/C12-3.patch): `chanLoopG` / `concatenateG` refine the same tolerance-free
lists under a hypothesis that no longer mentions the length of the following pulse (C12). -/
namespace QipVerif.Concat
open QipVerif.Grid (stepAt)

/-- hypotheses for the repaired gap test: well-formed, sorted, non-overlapping, and every idle gap is `0` or exceeds the
absolute threshold `thr` (`= 1e-12 · largest start time`, i.e. the rounding of the scheduled times) -/
def ValidG (thr : Rat) : Rat → List (Rat × Wave) → Prop
  | _, [] => True
  | last, (s, w) :: rest =>
    WaveOK w ∧ last ≤ s ∧ (s - last = 0 ∨ s - last > thr) ∧ ValidG thr (s + w.dur) rest

theorem ValidG.chain {thr : Rat} {instrs : List (Rat × Wave)} :
    ∀ {last : Rat}, ValidG thr last instrs → Chain last instrs := by
  induction instrs with
  | nil => intros; trivial
  | cons sw rest ih =>
    intro last h
    obtain ⟨s, w⟩ := sw
    exact ⟨h.1, h.2.1, ih h.2.2.2⟩

/-- the closed form of one compiled channel: first-pulse chunk, tolerance-free lists, padding -/
def closedChannel (τ : Rat) (pm : Mode) (final ms : Rat) (instrs : List (Rat × Wave)) : List Rat × List Rat :=
  ((headChunk true instrs).1 ++ (pureLoop 0 instrs).1 ++ padPts τ pm final ms (endOf 0 instrs),
   (headChunk true instrs).2 ++ (pureLoop 0 instrs).2 ++ (padPts τ pm final ms (endOf 0 instrs)).map (fun _ => (0 : Rat)))

theorem chanLoopG_refines (thr : Rat) (hthr : 0 ≤ thr) (instrs : List (Rat × Wave)) :
    ∀ (isFirst : Bool) (last : Rat), ValidG thr last instrs →
      chanLoopG thr isFirst last instrs =
        .ok ((headChunk isFirst instrs).1 ++ (pureLoop last instrs).1,
             (headChunk isFirst instrs).2 ++ (pureLoop last instrs).2, endOf last instrs) := by
  induction instrs with
  | nil => intro isFirst last _; simp [chanLoopG, headChunk, pureLoop, endOf]
  | cons sw rest ih =>
    intro isFirst last hv
    obtain ⟨s, w⟩ := sw
    obtain ⟨hw, hls, hgap, hrest⟩ := hv
    obtain ⟨p, hpp, hp⟩ := procPulse_ok w hw
    have hproc := proc_eq hpp
    have hidle : (if absR (s - last) > thr then idle p.mode s last p.step else .ok []) =
        .ok (if last < s then idlePure p.mode s last p.step else []) := by
      rcases hgap with h0 | hg
      · have hls' : ¬ (last < s) := by grind
        have : ¬ (absR (s - last) > thr) := by rw [h0]; simp [absR]; grind
        rw [if_neg this, if_neg hls']
      · have hls' : last < s := by grind
        have : absR (s - last) > thr := by rw [absR_nonneg_eq (by grind)]; exact hg
        rw [if_pos this, if_pos hls']
        obtain ⟨l, hl, _, _⟩ := idle_ok p.mode s last p.step hp.step_pos hls'
        simp [idlePure, hl]
    have hlast := exec_last hp s last
    have hrec := ih false (s + w.dur) hrest
    have hhc : headChunk false rest = ([], []) := by
      cases rest with
      | nil => rfl
      | cons a b => obtain ⟨s', w'⟩ := a; simp [headChunk, zeroChunk]
    unfold chanLoopG
    simp only [hpp, hidle, hlast, hrec, hhc, List.nil_append]
    simp only [headChunk, pureLoop, endOf, hproc, hp.mode_eq]

theorem foldl_max_ge (l : List Rat) (a : Rat) : a ≤ l.foldl (fun a b => if a < b then b else a) a := by
  induction l generalizing a with
  | nil => exact Rat.le_refl
  | cons b l ih =>
    simp only [List.foldl_cons]
    by_cases h : a < b
    · rw [if_pos h]; exact Rat.le_trans (Rat.le_of_lt h) (ih b)
    · rw [if_neg h]; exact ih a

theorem maxStart_nonneg (chans : List (List (Rat × Wave))) : 0 ≤ maxStart chans := foldl_max_ge _ 0

/-- **`_concatenate_pulses` with the repaired gap test**, with or without fixes/C12-2.patch: every channel is the
closed form. -/
theorem concatenateG_channels (ρ τ : Rat) (hρ : 0 ≤ ρ) (hτ : 0 < τ) (chans : List (List (Rat × Wave)))
    (hne : chans ≠ []) (hch : ∀ ch ∈ chans, ch ≠ [] ∧ ValidG (ρ * maxStart chans) 0 ch) :
    ∃ (pm : Mode) (final ms : Rat), 0 < ms ∧ (∀ ch ∈ chans, endOf 0 ch ≤ final) ∧
      ∀ emptyOk, concatenateG emptyOk ρ τ chans = .ok (chans.map fun ch => some (closedChannel τ pm final ms ch)) := by
  have hthr : 0 ≤ ρ * maxStart chans := Rat.mul_nonneg hρ (maxStart_nonneg chans)
  let g : List (Rat × Wave) → List Rat × List Rat × Rat := fun ch =>
    ((headChunk true ch).1 ++ (pureLoop 0 ch).1, (headChunk true ch).2 ++ (pureLoop 0 ch).2, endOf 0 ch)
  have hloop : mapMExcept (chanLoopG (ρ * maxStart chans) true 0) chans = .ok (chans.map g) :=
    mapMExcept_ok' _ g chans (fun ch hc => chanLoopG_refines _ hthr ch true 0 (hch ch hc).2)
  have hany : chans.any (·.isEmpty) = false := by
    rw [List.any_eq_false]; intro ch hc
    have := (hch ch hc).1
    cases ch <;> simp_all
  obtain ⟨final, hfinal, hfle⟩ := maxList_spec ((chans.map g).map (·.2.2)) (by simpa using hne)
  have hprocs_ne : procs chans ≠ [] := by
    obtain ⟨ch, rest, rfl⟩ : ∃ ch rest, chans = ch :: rest := by
      cases chans with
      | nil => exact absurd rfl hne
      | cons a b => exact ⟨a, b, rfl⟩
    obtain ⟨hcne, hcv⟩ := hch ch (by simp)
    cases ch with
    | nil => exact absurd rfl hcne
    | cons sw r =>
      obtain ⟨p, hpp, _⟩ := procPulse_ok sw.2 (ValidG.chain hcv).1
      simp [procs, hpp]
  have hprocs_pos : ∀ p ∈ procs chans, 0 < p.step := by
    intro p hp
    simp only [procs, List.mem_filterMap, List.mem_flatten] at hp
    obtain ⟨sw, ⟨ch, hch', hsw⟩, hp⟩ := hp
    have hw := chain_all_ok (ValidG.chain (hch ch hch').2) sw hsw
    obtain ⟨p', hpp, hpo⟩ := procPulse_ok sw.2 hw
    rw [hpp] at hp
    cases hp
    exact hpo.step_pos
  obtain ⟨ms, hms, hmspos⟩ := minStep_spec (procs chans) hprocs_ne hprocs_pos
  obtain ⟨lastp, hlastp⟩ : ∃ lp, (procs chans).getLast? = some lp :=
    ⟨_, List.getLast?_eq_some_getLast hprocs_ne⟩
  have hends : ∀ ch ∈ chans, endOf 0 ch ≤ final := by
    intro ch hc
    apply hfle
    simp only [List.map_map, List.mem_map, Function.comp]
    exact ⟨ch, hc, rfl⟩
  have hnonempty : ∀ r ∈ chans.map g, r.1.isEmpty = false := by
    intro r hr
    obtain ⟨ch, hc, rfl⟩ := List.mem_map.mp hr
    have := (hch ch hc).1
    cases ch with
    | nil => exact absurd rfl this
    | cons sw rest => obtain ⟨s', w'⟩ := sw; simp [g, headChunk, zeroChunk]
  have hfilter : (chans.map g).filter (fun r => !r.1.isEmpty) = chans.map g := by
    rw [List.filter_eq_self]; intro r hr; simp [hnonempty r hr]
  refine ⟨lastp.mode, final, ms, hmspos, hends, ?_⟩
  intro emptyOk
  unfold concatenateG
  rw [hloop]
  cases emptyOk with
  | true =>
    simp only [if_true, hfilter, hfinal, Option.getD_some, hms, hlastp]
    rw [mapMExcept_ok' (padChanO τ lastp.mode final ms)
      (fun r : List Rat × List Rat × Rat =>
        some (r.1 ++ padPts τ lastp.mode final ms r.2.2, r.2.1 ++ (padPts τ lastp.mode final ms r.2.2).map (fun _ => (0 : Rat))))
      (chans.map g) (by
        intro r hr
        obtain ⟨ch, hc, rfl⟩ := List.mem_map.mp hr
        have h1 := hnonempty (g ch) hr
        unfold padChanO
        simp only [h1, Bool.false_eq_true, if_false]
        rw [padChan_eq τ hτ lastp.mode final ms hmspos _ _ _ (hends ch hc)])]
    rw [List.map_map]
    rfl
  | false =>
    simp only [Bool.false_eq_true, if_false, hany, hfinal, hms, hlastp]
    rw [mapMExcept_ok' (padChanS τ lastp.mode final ms)
      (fun r : List Rat × List Rat × Rat =>
        some (r.1 ++ padPts τ lastp.mode final ms r.2.2, r.2.1 ++ (padPts τ lastp.mode final ms r.2.2).map (fun _ => (0 : Rat))))
      (chans.map g) (by
        intro r hr
        obtain ⟨ch, hc, rfl⟩ := List.mem_map.mp hr
        unfold padChanS
        rw [padChan_eq τ hτ lastp.mode final ms hmspos _ _ _ (hends ch hc)])]
    rw [List.map_map]
    rfl

/-! ### everything the property says, for the closed form, from `Chain` alone -/

theorem closedChannel_is_schedule (τ : Rat) (hτ : 0 < τ) (pm : Mode) (final ms : Rat) (hms : 0 < ms)
    (s : Rat) (w : Wave) (rest : List (Rat × Wave)) (hc : Chain 0 ((s, w) :: rest)) :
    let gc := closedChannel τ pm final ms ((s, w) :: rest)
    gc.1.head? = some 0 ∧ gc.1.Pairwise (· < ·) ∧
    (w.mode = .discrete → gc.2.length + 1 = gc.1.length) ∧ (w.mode = .continuous → gc.2.length = gc.1.length) ∧
    ((∀ sw ∈ (s, w) :: rest, sw.2.mode = .discrete) → ∀ t, stepAt gc.1 gc.2 t = specAt ((s, w) :: rest) t) ∧
    (∀ xv ∈ pairsOf w.mode gc.1 gc.2, PointExplained ((s, w) :: rest) xv) ∧
    (∀ sw ∈ (s, w) :: rest, ∀ yc ∈ sw.2.points, (sw.1 + yc.1, yc.2) ∈ pairsOf w.mode gc.1 gc.2) := by
  intro gc
  have hstruct := pureLoop_struct _ 0 hc
  have hgrid := grid_ok τ hτ pm final ms hms s w rest hc
  have hpts := compiled_points τ hτ pm final ms hms s w rest hc
  refine ⟨rfl, ?_, ?_, ?_, ?_, hpts.1, hpts.2⟩
  · simp only [gc, closedChannel, headChunk_fst, List.append_assoc]; exact hgrid
  · intro hm; simp [gc, closedChannel, headChunk, zeroChunk, hm, hstruct.2.1]
  · intro hm; simp [gc, closedChannel, headChunk, zeroChunk, hm, hstruct.2.1]
  · intro hd t
    have hm : w.mode = .discrete := hd (s, w) (by simp)
    have hz : headChunk true ((s, w) :: rest) = ([0], []) := by simp [headChunk, zeroChunk, hm]
    simp only [gc, closedChannel, hz, List.nil_append, List.cons_append]
    rw [stepAt_pad 0 _ _ _ t hstruct.2.1.symm hgrid]
    exact pureLoop_discrete _ 0 hc hd t

end QipVerif.Concat
