import QipVerif.Lemmas.SimKetC
/-!
# C01 — a whole state-vector run, `compute_unitary`: the model equals the ordered product `denP`
-/
namespace QipVerif.SimKet
open Matrix QipVerif.Embed

/-- well-placed step on `N` qubits: distinct in-range qubits, as many as the matrix has subsystems; the
matrix is given by rows of length `2^m` -/
def WFOp (N : ℕ) : Op ℂ → Prop
  | .phase _ => True
  | .gate qs m U => qs.Nodup ∧ (∀ q ∈ qs, q < N) ∧ qs.length = m ∧ ∀ r ∈ U, r.length = 2 ^ m

/-- the placed operator a step denotes: the gate's matrix embedded on the qubits it names;
GLOBALPHASE is the scalar on the empty placement -/
noncomputable def toPGate (N : ℕ) : Op ℂ → PGate N
  | .phase c => ⟨0, Tg.empty N, c • 1⟩
  | .gate qs _ U =>
    if h : qs.Nodup ∧ (∀ q ∈ qs, q < N) then ⟨qs.length, tgOfList N qs h.1 h.2, gateMat qs.length U⟩
    else ⟨0, Tg.empty N, 1⟩

theorem toPGate_phase_den (N : ℕ) (c : ℂ) : (toPGate N (.phase c)).den = c • 1 := by
  simp [toPGate, PGate.den, Tg.embed_smul, Tg.embed_one]

theorem toPGate_gate_den (N : ℕ) (qs : List ℕ) (m : ℕ) (U : List (List ℂ)) (hn : qs.Nodup) (hr : ∀ q ∈ qs, q < N) :
    (toPGate N (.gate qs m U)).den = (tgOfList N qs hn hr).embed (gateMat qs.length U) := by
  simp only [toPGate]
  rw [dif_pos ⟨hn, hr⟩]
  rfl

theorem slice_phase (N : ℕ) (c : ℂ) (st : Tensor ℂ) (r : List ℕ) :
    slice N ⟨st.shape, st.data.map (opsC.mul c)⟩ r = c • slice N st r := by
  funext x
  simp only [slice, Tensor.get, List.getD_eq_getElem?_getD, List.getElem?_map, Pi.smul_apply, smul_eq_mul]
  cases st.data[undigits st.shape (bitsL x ++ r)]? with
  | none => simp [opsC]
  | some v => simp [opsC]

/-- one step of any kind -/
theorem slice_stepKet (N : ℕ) (op : Op ℂ) (hw : WFOp N op) (st : Tensor ℂ) (ex : List ℕ)
    (hsh : st.shape = List.replicate N 2 ++ ex) :
    ∃ T', stepKet opsC op st = .ok T' ∧ T'.shape = st.shape ∧
      ∀ r, ValidIx ex r → slice N T' r = ((toPGate N op).den).mulVec (slice N st r) := by
  cases op with
  | phase c =>
    refine ⟨_, stepKet_phase opsC c st, rfl, fun r _ => ?_⟩
    rw [slice_phase, toPGate_phase_den, Matrix.smul_mulVec, Matrix.one_mulVec]
  | gate qs m U =>
    obtain ⟨hn, hr, hm, _⟩ := hw
    subst hm
    have hr' : ∀ q ∈ qs, st.shape[q]? = some 2 := by
      intro q hq; rw [hsh]; exact shape_getElem?_lt N ex q (hr q hq)
    have h1 := stepKet_gate opsC qs U st hn hr'
    refine ⟨_, h1, rfl, fun r hv => ?_⟩
    obtain ⟨T'', h1', _, h3'⟩ := slice_stepKet_gate qs hn hr U st ex r hsh hv
    rw [h1] at h1'
    cases h1'
    rw [h3', toPGate_gate_den N qs qs.length U hn hr]


/-- **A whole state-vector run** (all registers, all circuits of well-placed steps, all states, kets and
operator-valued states alike): it succeeds, keeps the shape, and every slice of the final tensor is
the ordered product of the embedded gate matrices applied to the slice of the initial one. -/
theorem slice_runKet (N : ℕ) (ops : List (Op ℂ)) (hw : ∀ op ∈ ops, WFOp N op) (st : Tensor ℂ) (ex : List ℕ)
    (hsh : st.shape = List.replicate N 2 ++ ex) :
    ∃ T', runKet opsC ops st = .ok T' ∧ T'.shape = st.shape ∧
      ∀ r, ValidIx ex r → slice N T' r = (denP (ops.map (toPGate N))).mulVec (slice N st r) := by
  induction ops generalizing st with
  | nil => exact ⟨st, rfl, rfl, fun r _ => by simp [denP]⟩
  | cons op ops ih =>
    obtain ⟨T1, h1, h2, h3⟩ := slice_stepKet N op (hw op (by simp)) st ex hsh
    obtain ⟨T', g1, g2, g3⟩ := ih (fun o ho => hw o (by simp [ho])) T1 (h2 ▸ hsh)
    refine ⟨T', by simp only [runKet, h1, g1], g2.trans h2, fun r hv => ?_⟩
    rw [g3 r hv, h3 r hv, List.map_cons, denP, Matrix.mulVec_mulVec]

/-! ## Kets -/

/-- the ket a tensor of shape `[2]*N` holds (row-major, first qubit most significant) -/
noncomputable def ketOf (N : ℕ) (T : Tensor ℂ) : St N → ℂ := fun x => T.data.getD (enc x) 0

theorem slice_nil (N : ℕ) (T : Tensor ℂ) (h : T.shape = List.replicate N 2) : slice N T [] = ketOf N T := by
  funext x
  simp only [slice, ketOf, Tensor.get, List.append_nil, h]
  rfl

theorem ket_run (N : ℕ) (ops : List (Op ℂ)) (hw : ∀ op ∈ ops, WFOp N op) (amps : List ℂ) :
    ∃ T', runKet opsC ops (ketTensor N amps) = .ok T' ∧ T'.shape = List.replicate N 2 ∧
      ketOf N T' = (denP (ops.map (toPGate N))).mulVec (ketOf N (ketTensor N amps)) := by
  obtain ⟨T', h1, h2, h3⟩ := slice_runKet N ops hw (ketTensor N amps) [] (by simp [ketTensor])
  have hs : T'.shape = List.replicate N 2 := h2
  refine ⟨T', h1, hs, ?_⟩
  have := h3 [] ⟨rfl, fun i h _ => absurd h (by simp)⟩
  rwa [slice_nil N T' hs, slice_nil N _ rfl] at this

/-! ## Operator-valued states and `compute_unitary` -/

theorem prodL_append (a b : List ℕ) : prodL (a ++ b) = prodL a * prodL b := by
  induction a with
  | nil => simp [prodL]
  | cons d ds ih => simp [prodL, ih, Nat.mul_assoc]

theorem undigits_append (a b x y : List ℕ) (h : x.length = a.length) :
    undigits (a ++ b) (x ++ y) = undigits a x * prodL b + undigits b y := by
  induction a generalizing x with
  | nil =>
    have : x = [] := List.length_eq_zero_iff.mp (by simpa using h)
    subst this; simp [undigits]
  | cons d ds ih =>
    match x, h with
    | v :: vs, h =>
      simp only [List.cons_append, undigits, ih vs (by simpa using h), prodL_append]
      rw [Nat.add_mul, Nat.mul_assoc, Nat.add_assoc]

theorem getD_flatten_uniform {β : Type} (rows : List (List β)) (n : ℕ) (h : ∀ r ∈ rows, r.length = n)
    (i j : ℕ) (hj : j < n) (d : β) : rows.flatten.getD (i * n + j) d = (rows.getD i []).getD j d := by
  induction rows generalizing i with
  | nil => simp
  | cons r rs ih =>
    have hr : r.length = n := h r (by simp)
    cases i with
    | zero =>
      simp only [List.flatten_cons, Nat.zero_mul, Nat.zero_add, List.getD_cons_zero]
      rw [List.getD_eq_getElem?_getD, List.getD_eq_getElem?_getD, List.getElem?_append_left (by omega)]
    | succ i =>
      simp only [List.flatten_cons, List.getD_cons_succ]
      rw [List.getD_eq_getElem?_getD, List.getElem?_append_right (by rw [hr, Nat.succ_mul]; omega)]
      have : (i + 1) * n + j - r.length = i * n + j := by rw [hr, Nat.succ_mul]; omega
      rw [this, ← List.getD_eq_getElem?_getD]
      exact ih (fun r' hr' => h r' (by simp [hr'])) i

/-- the operator a tensor of shape `[2]*N ++ [2^N]` holds -/
noncomputable def operOf (N : ℕ) (T : Tensor ℂ) : Matrix (St N) (St N) ℂ :=
  fun x c => T.data.getD (enc x * 2 ^ N + enc c) 0

theorem slice_col (N : ℕ) (T : Tensor ℂ) (h : T.shape = List.replicate N 2 ++ [2 ^ N]) (c : St N) :
    slice N T [enc c] = fun x => operOf N T x c := by
  funext x
  simp only [slice, operOf, Tensor.get, h]
  rw [undigits_append _ _ _ _ (by simp)]
  congr 2
  · simp [prodL, enc]
  · simp [undigits, prodL]

theorem oper_run (N : ℕ) (ops : List (Op ℂ)) (hw : ∀ op ∈ ops, WFOp N op) (rows : List (List ℂ)) :
    ∃ T', runKet opsC ops (operTensor N rows) = .ok T' ∧ T'.shape = List.replicate N 2 ++ [2 ^ N] ∧
      operOf N T' = denP (ops.map (toPGate N)) * operOf N (operTensor N rows) := by
  obtain ⟨T', h1, h2, h3⟩ := slice_runKet N ops hw (operTensor N rows) [2 ^ N] rfl
  have hs : T'.shape = List.replicate N 2 ++ [2 ^ N] := h2
  refine ⟨T', h1, hs, ?_⟩
  ext x c
  have hv : ValidIx [2 ^ N] [enc c] := ⟨rfl, fun i h1 h2 => by
    have : i = 0 := by simpa using h1
    subst this; simpa using enc_lt c⟩
  have := congrFun (h3 [enc c] hv) x
  rw [slice_col N T' hs, slice_col N _ rfl] at this
  simp only [] at this
  rw [this, Matrix.mul_apply]
  rfl

theorem operOf_ident (N : ℕ) : operOf N (operTensor N (FMat.ident opsC (2 ^ N)).rows) = 1 := by
  ext x c
  simp only [operOf, operTensor]
  rw [getD_flatten_uniform _ (2 ^ N) (by simp [FMat.rows, FMat.ident]) _ _ (enc_lt c)]
  simp only [FMat.rows, FMat.ident, List.getD_eq_getElem?_getD, List.getElem?_map, List.getElem?_range (enc_lt x),
    List.getElem?_range (enc_lt c), Option.map_some, Option.getD_some, Matrix.one_apply]
  by_cases h : x = c
  · subst h; simp [opsC]
  · have : enc x ≠ enc c := fun e => h (enc_inj e)
    simp [h, this, opsC]

/-- **`compute_unitary` is the ordered product.** -/
theorem unitary_run (N : ℕ) (ops : List (Op ℂ)) (hw : ∀ op ∈ ops, WFOp N op) :
    ∃ T', computeUnitary opsC N ops = .ok T' ∧ T'.shape = List.replicate N 2 ++ [2 ^ N] ∧
      operOf N T' = denP (ops.map (toPGate N)) := by
  obtain ⟨T', h1, h2, h3⟩ := oper_run N ops hw (FMat.ident opsC (2 ^ N)).rows
  exact ⟨T', h1, h2, by rw [h3, operOf_ident, Matrix.mul_one]⟩

end QipVerif.SimKet
