import QipVerif.Lemmas.QasmLex
import QipVerif.Model.QasmExport
/-!
# The lines the exporter emits are statements of the strict recogniser (C10)

Token lists and parse results of the two shapes of a gate application
(`name q[i],q[j];` and `name(p1,p2) q[i],q[j];`) and of the register declarations,
for arbitrary indices, arbitrary numeric-token parameters and arbitrary lengths.
-/
namespace QipVerif.Qasm.Export
open QipVerif.Qasm

/-! ## numbers -/

/-- the token a numeric text lexes to -/
def numTokD (s : Str) : Tok :=
  match lexRun .idle s with
  | some (_, st) =>
    match st.flush with
    | some [t] => t
    | _ => .real s
  | none => .real s

theorem numTokD_spec {s : Str} (h : isNumToken s = true) :
    ∃ st, Lex .idle s [] st ∧ st.flush = some [numTokD s] ∧
      (numTokD s = .real s ∨ (numTokD s = .nat s ∧ isNNInt s = true)) := by
  obtain ⟨st, hl, hf⟩ := numToken_state h
  refine ⟨st, hl, ?_, ?_⟩
  · unfold numTokD
    rw [show lexRun .idle s = some ([], st) from hl]
    rcases hf with hf | ⟨hf, _⟩ <;> simp [hf]
  · unfold numTokD
    rw [show lexRun .idle s = some ([], st) from hl]
    rcases hf with hf | ⟨hf, hn⟩
    · left; simp [hf]
    · right; simp [hf, hn]

theorem numToken_ne_nil {s : Str} (h : isNumToken s = true) : s ≠ [] := by
  rintro rfl
  simp [isNumToken, lexRun, LexSt.flush] at h

theorem numToken_head {s : Str} (h : isNumToken s = true) : s.head? ≠ some '>' := by
  intro hh
  match s, hh with
  | c :: cs, hh =>
    simp only [List.head?_cons, Option.some.injEq] at hh
    subst hh
    have : lexStep .idle '>' = none := by decide
    simp [isNumToken, lexRun, this] at h

/-- the parameter expression a printed number stands for -/
def numExpr (x : Num) : Expr := if x.neg then .neg (.lit x.txt) else .lit x.txt

def numToks (x : Num) : List Tok := if x.neg then [.sym '-', numTokD x.txt] else [numTokD x.txt]

theorem lex_num_close (x : Num) (h : isNumToken x.txt = true) (c : Char) (hc : c = ',' ∨ c = ')') :
    Lex .idle (x.str ++ [c]) (numToks x ++ [.sym c]) .idle := by
  obtain ⟨st, hl, hf, hk⟩ := numTokD_spec h
  have hclose : Lex st [c] ([numTokD x.txt, .sym c] ++ []) .idle :=
    Lex.cons (lexStep_num_close st _ hf (by rcases hk with h1 | ⟨h1, _⟩ <;> simp [h1]) c hc) (Lex.nil _)
  cases hn : x.neg with
  | false =>
    have := Lex.append hl hclose
    simpa [Num.str, numToks, hn] using this
  | true =>
    have h1 := lex_after_minus hl (numToken_ne_nil h) (numToken_head h)
    have h2 := Lex.append h1 hclose
    have h3 : Lex .idle ('-' :: (x.txt ++ [c])) ([] ++ _) .idle :=
      Lex.cons (st1 := .minus) (by decide) h2
    simpa [Num.str, numToks, hn] using h3

/-- comma-separated tokens of a parameter list -/
def argToks : List Num → List Tok
  | [] => []
  | [x] => numToks x
  | x :: y :: r => numToks x ++ .sym ',' :: argToks (y :: r)

theorem lex_args_close (xs : List Num) (hne : xs ≠ []) (h : ∀ x ∈ xs, isNumToken x.txt = true) :
    Lex .idle (intercal [','] (xs.map Num.str) ++ [')']) (argToks xs ++ [.sym ')']) .idle := by
  induction xs with
  | nil => exact absurd rfl hne
  | cons x r ih =>
    cases r with
    | nil => simpa [intercal, argToks] using lex_num_close x (h x (by simp)) ')' (Or.inr rfl)
    | cons y r' =>
      have h1 := lex_num_close x (h x (by simp)) ',' (Or.inl rfl)
      have h2 := ih (by simp) (fun z hz => h z (by simp [hz]))
      have := Lex.append h1 h2
      simpa [intercal, argToks, List.append_assoc] using this

/-! ## registers -/

def regToks : List Nat → List Tok
  | [] => []
  | [i] => [.word cs!"q", .sym '[', .nat (natDigits i), .sym ']']
  | i :: j :: r => [.word cs!"q", .sym '[', .nat (natDigits i), .sym ']', .sym ','] ++ regToks (j :: r)

theorem lex_one_reg (i : Nat) (c : Char) (hc : c = ',' ∨ c = ';') :
    Lex .idle (cs!"q[" ++ natDigits i ++ [']'] ++ [c])
      [.word cs!"q", .sym '[', .nat (natDigits i), .sym ']', .sym c] .idle := by
  have h0 : Lex .idle cs!"q[" [.word cs!"q", .sym '['] .idle := by unfold Lex; decide
  have h1 := lex_natDigits i
  have h2 : Lex (.int (natDigits i).reverse) [']'] ([.nat (natDigits i), .sym ']'] ++ []) .idle :=
    Lex.cons (by simpa using lexStep_int_sym (natDigits i).reverse ']' (Or.inl rfl)) (Lex.nil _)
  have h3 : Lex .idle [c] ([.sym c] ++ []) .idle :=
    Lex.cons (by rcases hc with rfl | rfl <;> decide) (Lex.nil _)
  have := Lex.append (Lex.append (Lex.append h0 h1) h2) h3
  simpa using this

theorem lex_qRegs_semi (idx : List Nat) (hne : idx ≠ []) :
    Lex .idle (qRegs idx ++ [';']) (regToks idx ++ [.sym ';']) .idle := by
  induction idx with
  | nil => exact absurd rfl hne
  | cons i r ih =>
    cases r with
    | nil => simpa [qRegs, intercal, regToks] using lex_one_reg i ';' (Or.inr rfl)
    | cons j r' =>
      have h1 := lex_one_reg i ',' (Or.inl rfl)
      have h2 := ih (by simp)
      have := Lex.append h1 h2
      simpa [qRegs, intercal, regToks, List.append_assoc] using this

theorem isId_q : isId cs!"q" = true := by decide

theorem pArgsSemi_regs (idx : List Nat) (hne : idx ≠ []) :
    pArgsSemi (regToks idx ++ [.sym ';']) = some (idx.map (Arg.idx cs!"q")) := by
  induction idx with
  | nil => exact absurd rfl hne
  | cons i r ih =>
    cases r with
    | nil => simp [regToks, pArgsSemi, isId_q, natDigits_isNNInt, digitsVal_natDigits]
    | cons j r' =>
      have := ih (by simp)
      simp only [regToks, List.cons_append, List.nil_append, pArgsSemi] at this ⊢
      simp [isId_q, natDigits_isNNInt, digitsVal_natDigits, this]

/-! ## parameters -/

/-- a number followed by `,` or `)` is parsed as one expression -/
theorem pExp_num (x : Num) (hk : numTokD x.txt = .real x.txt ∨ (numTokD x.txt = .nat x.txt ∧ isNNInt x.txt = true))
    (f : Nat) (c : Char) (hc : c = ',' ∨ c = ')') (rest : List Tok) :
    pExp (f + 5) (numToks x ++ .sym c :: rest) = some (numExpr x, .sym c :: rest) := by
  cases hn : x.neg <;> rcases hk with hk | ⟨hk, hi⟩ <;> rcases hc with rfl | rfl <;>
    simp [numToks, numExpr, hn, hk, pExp, pTerm, pFactor, pAtom, pTermRest, pExpRest, *]

theorem pExpList_succ (f : Nat) (ts : List Tok) :
    pExpList (f + 1) ts =
      match pExp f ts with
      | some (e, .sym ')' :: r) => some ([e], r)
      | some (e, .sym ',' :: r) =>
        match pExpList f r with
        | some (es, r') => some (e :: es, r')
        | none => none
      | _ => none := by
  rw [pExpList]; rfl

theorem pExpList_args (xs : List Num) (hne : xs ≠ [])
    (h : ∀ x ∈ xs, numTokD x.txt = .real x.txt ∨ (numTokD x.txt = .nat x.txt ∧ isNNInt x.txt = true))
    (f : Nat) (hf : xs.length + 5 ≤ f) (rest : List Tok) :
    pExpList f (argToks xs ++ .sym ')' :: rest) = some (xs.map numExpr, rest) := by
  induction xs generalizing f with
  | nil => exact absurd rfl hne
  | cons x r ih =>
    obtain ⟨g, rfl⟩ : ∃ g, f = g + 6 := ⟨f - 6, by simp at hf; omega⟩
    cases r with
    | nil =>
      rw [show g + 6 = (g + 5) + 1 from rfl, pExpList_succ]
      simp only [argToks]
      rw [pExp_num x (h x (by simp)) g ')' (Or.inr rfl)]
      simp
    | cons y r' =>
      have e := ih (by simp) (fun z hz => h z (by simp [hz])) (g + 5) (by simp at hf ⊢; omega)
      rw [show g + 6 = (g + 5) + 1 from rfl, pExpList_succ]
      simp only [argToks, List.append_assoc, List.cons_append]
      rw [pExp_num x (h x (by simp)) g ',' (Or.inl rfl)]
      simp [e]

theorem numToks_ne_nil (x : Num) : numToks x ≠ [] := by
  unfold numToks; split <;> simp

theorem argToks_ne_nil (xs : List Num) (hne : xs ≠ []) : argToks xs ≠ [] := by
  match xs, hne with
  | [x], _ => simpa [argToks] using numToks_ne_nil x
  | x :: y :: r, _ => simp [argToks]

theorem argToks_head (xs : List Num)
    (h : ∀ x ∈ xs, numTokD x.txt = .real x.txt ∨ (numTokD x.txt = .nat x.txt ∧ isNNInt x.txt = true)) :
    (argToks xs).head? ≠ some (.sym ')') := by
  match xs with
  | [] => simp [argToks]
  | [x] =>
    have := h x (by simp)
    cases hn : x.neg <;> rcases this with hk | ⟨hk, _⟩ <;> simp [argToks, numToks, hn, hk]
  | x :: y :: r =>
    have := h x (by simp)
    cases hn : x.neg <;> rcases this with hk | ⟨hk, _⟩ <;> simp [argToks, numToks, hn, hk]

/-- `( p1 , … , pn )` with `n ≥ 1` -/
theorem pParams_args (xs : List Num) (hne : xs ≠ [])
    (h : ∀ x ∈ xs, numTokD x.txt = .real x.txt ∨ (numTokD x.txt = .nat x.txt ∧ isNNInt x.txt = true))
    (rest : List Tok) (hr : 5 ≤ rest.length) :
    pParams (.sym '(' :: (argToks xs ++ .sym ')' :: rest)) = some (xs.map numExpr, rest) := by
  have hlen : xs.length ≤ (argToks xs).length := by
    induction xs with
    | nil => simp
    | cons x r ih =>
      cases r with
      | nil => simp [argToks, numToks]; split <;> simp
      | cons y r' =>
        have := ih (by simp) (fun z hz => h z (by simp [hz]))
        simp only [argToks, List.length_append, List.length_cons] at this ⊢
        have : 1 ≤ (numToks x).length := by simp [numToks]; split <;> simp
        omega
  cases ha : argToks xs with
  | nil => exact absurd ha (argToks_ne_nil xs hne)
  | cons t ts =>
    have hh := argToks_head xs h
    rw [ha] at hh
    simp only [List.head?_cons, ne_eq, Option.some.injEq] at hh
    have e := pExpList_args xs hne h ((t :: (ts ++ .sym ')' :: rest)).length + 1) (by
      rw [ha] at hlen; simp at hlen ⊢; omega) rest
    rw [ha] at e
    simp only [List.cons_append] at e ⊢
    unfold pParams
    split
    · rename_i heq
      simp only [List.cons.injEq, true_and] at heq
      exact absurd heq.1 hh
    · rename_i r' _ heq
      simp only [List.cons.injEq, true_and] at heq
      subst heq
      exact e
    · rename_i h1 h2
      exact absurd rfl (h2 _)

end QipVerif.Qasm.Export

namespace QipVerif.Qasm.Export
open QipVerif.Qasm

/-! ## whole lines -/

theorem isId_not_kw {w : Str} (h : isId w = true) (k : Str) (hk : k ∈ keywords) : (w == k) = false := by
  match w, h with
  | c :: cs, h =>
    simp only [isId, Bool.and_eq_true, Bool.not_eq_true', List.contains_eq_mem,
      decide_eq_false_iff_not] at h
    have : c :: cs ≠ k := fun e => h.2 (e ▸ hk)
    simpa using this

theorem regToks_length (idx : List Nat) (hne : idx ≠ []) : 4 ≤ (regToks idx).length := by
  match idx, hne with
  | [i], _ => simp [regToks]
  | i :: j :: r, _ => simp [regToks]

theorem regToks_head (idx : List Nat) (hne : idx ≠ []) :
    ∃ t, regToks idx = .word cs!"q" :: t := by
  match idx, hne with
  | [i], _ => exact ⟨_, rfl⟩
  | i :: j :: r, _ => exact ⟨_, rfl⟩

/-- tokens `name q[i],…;` -/
theorem parseToks_call_noarg (name : Str) (hid : isId name = true) (idx : List Nat) (hne : idx ≠ []) :
    parseToks (.word name :: (regToks idx ++ [.sym ';'])) =
      some (some (.qop (.call name [] (idx.map (Arg.idx cs!"q"))))) := by
  have kw := fun k hk => isId_not_kw hid k hk
  obtain ⟨t, ht⟩ := regToks_head idx hne
  have hp := pArgsSemi_regs idx hne
  simp only [parseToks, pQOp, kw _ (by decide : cs!"OPENQASM" ∈ keywords), kw _ (by decide : cs!"include" ∈ keywords),
    kw _ (by decide : cs!"qreg" ∈ keywords), kw _ (by decide : cs!"creg" ∈ keywords),
    kw _ (by decide : cs!"gate" ∈ keywords), kw _ (by decide : cs!"opaque" ∈ keywords),
    kw _ (by decide : cs!"barrier" ∈ keywords), kw _ (by decide : cs!"if" ∈ keywords),
    kw _ (by decide : cs!"U" ∈ keywords), kw _ (by decide : cs!"CX" ∈ keywords),
    kw _ (by decide : cs!"measure" ∈ keywords), kw _ (by decide : cs!"reset" ∈ keywords),
    Bool.false_eq_true, if_false, hid, if_true]
  rw [ht] at hp ⊢
  simp only [List.cons_append] at hp ⊢
  simp [hp]

/-- tokens `name(p1,…) q[i],…;` -/
theorem parseToks_call_args (name : Str) (hid : isId name = true) (xs : List Num) (hx : xs ≠ [])
    (h : ∀ x ∈ xs, numTokD x.txt = .real x.txt ∨ (numTokD x.txt = .nat x.txt ∧ isNNInt x.txt = true))
    (idx : List Nat) (hne : idx ≠ []) :
    parseToks (.word name :: .sym '(' :: (argToks xs ++ .sym ')' :: (regToks idx ++ [.sym ';']))) =
      some (some (.qop (.call name (xs.map numExpr) (idx.map (Arg.idx cs!"q"))))) := by
  have kw := fun k hk => isId_not_kw hid k hk
  have hp := pArgsSemi_regs idx hne
  have hl := regToks_length idx hne
  have hpar := pParams_args xs hx h (regToks idx ++ [.sym ';']) (by simp; omega)
  simp only [parseToks, pQOp, kw _ (by decide : cs!"OPENQASM" ∈ keywords), kw _ (by decide : cs!"include" ∈ keywords),
    kw _ (by decide : cs!"qreg" ∈ keywords), kw _ (by decide : cs!"creg" ∈ keywords),
    kw _ (by decide : cs!"gate" ∈ keywords), kw _ (by decide : cs!"opaque" ∈ keywords),
    kw _ (by decide : cs!"barrier" ∈ keywords), kw _ (by decide : cs!"if" ∈ keywords),
    kw _ (by decide : cs!"U" ∈ keywords), kw _ (by decide : cs!"CX" ∈ keywords),
    kw _ (by decide : cs!"measure" ∈ keywords), kw _ (by decide : cs!"reset" ∈ keywords),
    Bool.false_eq_true, if_false, hid, if_true, hpar, hp, Option.map_some]

/-- tokens `U(a,b,c) q[i];` -/
theorem parseToks_U (a b c : Num)
    (h : ∀ x ∈ [a, b, c], numTokD x.txt = .real x.txt ∨ (numTokD x.txt = .nat x.txt ∧ isNNInt x.txt = true))
    (i : Nat) :
    parseToks (.word cs!"U" :: .sym '(' :: (argToks [a, b, c] ++ .sym ')' :: (regToks [i] ++ [.sym ';']))) =
      some (some (.qop (.U (numExpr a) (numExpr b) (numExpr c) (.idx cs!"q" i)))) := by
  have hp := pArgsSemi_regs [i] (by simp)
  have hpar := pParams_args [a, b, c] (by simp) h (regToks [i] ++ [.sym ';']) (by simp [regToks])
  have e1 : (cs!"U" == cs!"OPENQASM") = false := by decide
  have e2 : (cs!"U" == cs!"include") = false := by decide
  have e3 : (cs!"U" == cs!"qreg") = false := by decide
  have e4 : (cs!"U" == cs!"creg") = false := by decide
  have e5 : (cs!"U" == cs!"gate") = false := by decide
  have e6 : (cs!"U" == cs!"opaque") = false := by decide
  have e7 : (cs!"U" == cs!"barrier") = false := by decide
  have e8 : (cs!"U" == cs!"if") = false := by decide
  simp only [parseToks, pQOp, e1, e2, e3, e4, e5, e6, e7, e8, Bool.false_eq_true, if_false, beq_self_eq_true,
    if_true, hpar, List.map, hp, Option.map_some]

/-- the text `name q[i],…;` -/
theorem parseLine_call_noarg (name : Str) (hw : isWordStr name = true) (hid : isId name = true)
    (idx : List Nat) (hne : idx ≠ []) :
    parseLine (name ++ ' ' :: qRegs idx ++ [';']) =
      some (some (.qop (.call name [] (idx.map (Arg.idx cs!"q"))))) := by
  have h1 := lex_word name hw
  have h2 : Lex (.word name.reverse) [' '] ([.word name] ++ []) .idle :=
    Lex.cons (by simpa using lexStep_word_space name.reverse) (Lex.nil _)
  have h3 := lex_qRegs_semi idx hne
  have hl := lexLine_of_Lex (Lex.append (Lex.append h1 h2) h3)
  have e : name ++ [' '] ++ (qRegs idx ++ [';']) = name ++ ' ' :: qRegs idx ++ [';'] := by simp
  rw [e] at hl
  simp only [parseLine, hl, List.nil_append, List.append_nil, List.singleton_append]
  exact parseToks_call_noarg name hid idx hne

/-- the text `name(p1,…) q[i],…;` -/
theorem parseLine_call_args (name : Str) (hw : isWordStr name = true) (hid : isId name = true)
    (xs : List Num) (hx : xs ≠ []) (h : ∀ x ∈ xs, isNumToken x.txt = true)
    (idx : List Nat) (hne : idx ≠ []) :
    parseLine (name ++ '(' :: intercal [','] (xs.map Num.str) ++ cs!") " ++ qRegs idx ++ [';']) =
      some (some (.qop (.call name (xs.map numExpr) (idx.map (Arg.idx cs!"q"))))) := by
  have h1 := lex_word name hw
  have h2 : Lex (.word name.reverse) ['('] ([.word name, .sym '('] ++ []) .idle :=
    Lex.cons (by simpa using lexStep_word_sym name.reverse '(' (by simp)) (Lex.nil _)
  have h3 := lex_args_close xs hx h
  have h4 : Lex .idle [' '] ([] ++ []) .idle := Lex.cons (by decide) (Lex.nil _)
  have h5 := lex_qRegs_semi idx hne
  have hl := lexLine_of_Lex (Lex.append (Lex.append (Lex.append (Lex.append h1 h2) h3) h4) h5)
  have e : name ++ ['('] ++ (intercal [','] (xs.map Num.str) ++ [')']) ++ [' '] ++ (qRegs idx ++ [';']) =
      name ++ '(' :: intercal [','] (xs.map Num.str) ++ cs!") " ++ qRegs idx ++ [';'] := by simp
  rw [e] at hl
  have hk : ∀ x ∈ xs, numTokD x.txt = .real x.txt ∨ (numTokD x.txt = .nat x.txt ∧ isNNInt x.txt = true) :=
    fun x hx' => (numTokD_spec (h x hx')).choose_spec.2.2
  simp only [parseLine, hl]
  have := parseToks_call_args name hid xs hx hk idx hne
  simpa [List.append_assoc] using this

/-- the text `U(a,b,c) q[i];` -/
theorem parseLine_U (a b c : Num) (h : ∀ x ∈ [a, b, c], isNumToken x.txt = true) (i : Nat) :
    parseLine (cs!"U" ++ '(' :: intercal [','] ([a, b, c].map Num.str) ++ cs!") " ++ qRegs [i] ++ [';']) =
      some (some (.qop (.U (numExpr a) (numExpr b) (numExpr c) (.idx cs!"q" i)))) := by
  have h1 := lex_word cs!"U" (by decide)
  have h2 : Lex (.word (cs!"U").reverse) ['('] ([.word cs!"U", .sym '('] ++ []) .idle :=
    Lex.cons (by decide) (Lex.nil _)
  have h3 := lex_args_close [a, b, c] (by simp) h
  have h4 : Lex .idle [' '] ([] ++ []) .idle := Lex.cons (by decide) (Lex.nil _)
  have h5 := lex_qRegs_semi [i] (by simp)
  have hl := lexLine_of_Lex (Lex.append (Lex.append (Lex.append (Lex.append h1 h2) h3) h4) h5)
  have e : cs!"U" ++ ['('] ++ (intercal [','] ([a, b, c].map Num.str) ++ [')']) ++ [' '] ++ (qRegs [i] ++ [';']) =
      cs!"U" ++ '(' :: intercal [','] ([a, b, c].map Num.str) ++ cs!") " ++ qRegs [i] ++ [';'] := by simp
  rw [e] at hl
  have hk : ∀ x ∈ [a, b, c], numTokD x.txt = .real x.txt ∨ (numTokD x.txt = .nat x.txt ∧ isNNInt x.txt = true) :=
    fun x hx' => (numTokD_spec (h x hx')).choose_spec.2.2
  simp only [parseLine, hl]
  have := parseToks_U a b c hk i
  simpa [List.append_assoc] using this

/-- register declarations `qreg q[N];`, `creg c[M];` -/
theorem parseLine_qreg (n : Nat) :
    parseLine (cs!"qreg q[" ++ natDigits n ++ cs!"];") = some (some (.qreg cs!"q" n)) := by
  have h0 : Lex .idle cs!"qreg q[" [.word cs!"qreg", .word cs!"q", .sym '['] .idle := by unfold Lex; decide
  have h1 := lex_natDigits n
  have h2 : Lex (.int (natDigits n).reverse) cs!"];" ([.nat (natDigits n), .sym ']'] ++ ([.sym ';'] ++ [])) .idle :=
    Lex.cons (by simpa using lexStep_int_sym (natDigits n).reverse ']' (Or.inl rfl))
      (Lex.cons (by decide) (Lex.nil _))
  have hl := lexLine_of_Lex (Lex.append (Lex.append h0 h1) h2)
  simp only [parseLine, hl]
  simp [parseToks, pRegDecl, natDigits_isNNInt, digitsVal_natDigits, isId_q]

theorem parseLine_creg (n : Nat) :
    parseLine (cs!"creg c[" ++ natDigits n ++ cs!"];") = some (some (.creg cs!"c" n)) := by
  have h0 : Lex .idle cs!"creg c[" [.word cs!"creg", .word cs!"c", .sym '['] .idle := by unfold Lex; decide
  have h1 := lex_natDigits n
  have h2 : Lex (.int (natDigits n).reverse) cs!"];" ([.nat (natDigits n), .sym ']'] ++ ([.sym ';'] ++ [])) .idle :=
    Lex.cons (by simpa using lexStep_int_sym (natDigits n).reverse ']' (Or.inl rfl))
      (Lex.cons (by decide) (Lex.nil _))
  have hl := lexLine_of_Lex (Lex.append (Lex.append h0 h1) h2)
  simp only [parseLine, hl]
  have : isId cs!"c" = true := by decide
  simp [parseToks, pRegDecl, natDigits_isNNInt, digitsVal_natDigits, this]

end QipVerif.Qasm.Export
